import GoLucene.Model.Driver
import GoLucene.Proofs.NoPanic
import GoLucene.Proofs.ParamAgree
/-
  C04 — VALUE INDEPENDENCE of the parameterized SQL text: "queries that differ only in values of the same kind
  produce the identical parameterized SQL text".

  Two decidable relations on trees (mutual over Node / Expr / ExprList):

  * `sameShape` — the literal reading of the sentence: same operators and structure, same Column names, same
    inclusivity and the same OPEN ENDS of every range (`isOpenEnd`: the test `e.Left == "*"` of
    serializeBoundParams), same list lengths, at every raw value the same kind — string / number / bool / opaque,
    where int and float64 are ONE kind (the text never tells them apart) — and for the pattern of a Like node the
    same `/…/` class of the pattern VALUE (`patKind`; RenderParam and likeParam look at the value, not at the
    Wild/Regexp operator of the leaf).  A raw value in FIELD position (K-numfield-range, `5:[1 TO 2]`) is a value.
  * `sameFrame` — the weak, position-sensitive relation: only what the text can see.  The kind of a value is
    visible in exactly three places: the numeric class of the FIRST value of a range (`rangeKind`: rangParam reads
    `params[0]` only — K-range-mixed-kind), the `/…/` class of a Like pattern, and the `isSimple` class of a raw
    operand that is not wrapped in a leaf (`samePrimF`; hand-built / decoded trees only).  The ends of a boundary and
    the elements of a list are compared by the text they contribute (`endText`: `'*'`, nothing, `?`), not by operator
    or kind.  `sameShape_F : sameShape e1 e2 → sameFrame e1 e2`.

  Theorems (all for `wfTree`, `validateExpr` trees; no further hypothesis):

  * `expr_rel` — the core: the two OUTCOMES of `renderParam pgFns` agree (`RelOut`): both fail the same way, or both
    succeed with the same text and as many parameters;
  * `param_sql_value_independent` (+ `_frame`) — the statement asked for: same text, same number of parameters;
  * `param_success_transfer`, `param_sql_transfer`, `param_err_transfer_frame` (+ `_frame`) — success transfers, with
    the same text; so do errors.  No value can make the parameter mode fail: `literal` is only ever applied to `?`, to
    the empty text or to a quoted Column name (example at the end: a NUL byte in a value fails the inline renderer
    only; in a Column name it fails both, whatever the values);
  * `parse_param_sql_value_independent`, `parse_param_sql_transfer`, `parse_param_success_transfer` (+ `_frame`) —
    for two results of `lucene.Parse` (via `NoPanic.parse_wf`).

  Necessity (`need_*`): every clause is refuted when dropped, on concrete well-formed validated trees.
  FINDING `need_openEnd`: `a:["*" TO 5]` and `a:["b" TO 5]` differ only in a STRING value and have different
  parameterized texts (`"a" <= ?` / `"a" BETWEEN ? AND ?`) — the quoted `*` is taken for the open end
  (K-range-quoted-star).  The property's sentence is therefore false for "same kind = both strings" alone; the
  open-end test is part of the shape.  `sameFrame` is sufficient, not necessary (`not_necessary`: NOT and MUST_NOT
  print alike).
-/
set_option linter.unusedSimpArgs false

namespace GoLucene.ParamIndep
open GoLucene.NoPanic GoLucene.ParamAgree

/-! ## the relations -/

/-- numeric raw value (`int` or `float64`): the only thing `rangParam` asks of `params[0]` -/
def isNum : Prim → Bool
  | .int _ | .flt _ => true
  | _ => false

/-- the test both `RenderParam` and `likeParam` apply to a pattern VALUE: `len ≥ 2`, first and last byte `/` -/
def slashed (s : Bytes) : Bool := s.length ≥ 2 && s.head? == some 47 && s.getLast? == some 47

/-- the `/…/` class of the pattern leaf on the right of a Like node -/
def patKind : Node → Bool
  | .expr (.mk (.prim (.str s)) _ _ _ _) => slashed s
  | _ => false

/-- the text `serializeBoundParams` emits for one end of a boundary: `'*'` for an open end (`e.Left == "*"`),
    nothing for a leaf over nil, one placeholder for a value -/
def endText : Node → Bytes
  | .expr e => if starLeft e then starQ else (match e.left with | .nil => [] | _ => b "?")
  | _ => []

/-- the parameters one end of a boundary sends -/
def endParams : Node → List Prim
  | .expr e => if starLeft e then [] else (match e.left with | .prim q => [q] | _ => [])
  | _ => []

def headNum : List Prim → Bool
  | q :: _ => isNum q
  | [] => false

/-- what `rangParam` reads off `params[0]`: is the FIRST value of the boundary numeric? -/
def rangeKind : Node → Bool
  | .bound mn mx _ => headNum (endParams mn ++ endParams mx)
  | _ => false

/-- raw values in an operand position, weakest form: Columns by name; any two values, as long as `isSimple` (the
    parenthesis test) does not tell them apart (string/int/float on one side, bool/opaque on the other) -/
def samePrimF : Prim → Prim → Bool
  | .col a, .col c => a == c
  | .col _, _ => false
  | _, .col _ => false
  | p, q => isSimple (.prim p) == isSimple (.prim q)

/-- lists (their elements are single leaves): same length, and the same elements are leaves over nil -/
def sameListF : ExprList → ExprList → Bool
  | .nil, .nil => true
  | .cons a as, .cons c cs => (a.left.isNil == c.left.isNil) && sameListF as cs
  | _, _ => false

mutual
def sameNodeF : Node → Node → Bool
  | .nil, .nil => true
  | .prim p, .prim q => samePrimF p q
  | .expr a, .expr c => sameFrame a c
  | .list as, .list cs => sameListF as cs
  | .bound a1 c1 i1, .bound a2 c2 i2 => i1 == i2 && endText a1 == endText a2 && endText c1 == endText c2
  | _, _ => false
/-- the WEAK relation (position sensitive): everything the parameterized text can see -/
def sameFrame : Expr → Expr → Bool
  | .mk l1 o1 r1 _ _, .mk l2 o2 r2 _ _ =>
    o1 == o2 && sameNodeF l1 l2 && sameNodeF r1 r2 &&
    (if o1 = .like then patKind r1 == patKind r2 else true) &&
    (if o1 = .range then rangeKind r1 == rangeKind r2 else true)
end

/-! ## outcomes that agree -/

/-- two outcomes of the parameter mode agree: same failure, or the same text and as many parameters -/
def RelOut : Out (Bytes × List Prim) → Out (Bytes × List Prim) → Prop
  | .ok x, .ok y => x.1 = y.1 ∧ x.2.length = y.2.length
  | .err, .err => True
  | .panic, .panic => True
  | _, _ => False

def RelOutL : Out (List Bytes × List Prim) → Out (List Bytes × List Prim) → Prop
  | .ok x, .ok y => x.1 = y.1 ∧ x.2.length = y.2.length
  | .err, .err => True
  | .panic, .panic => True
  | _, _ => False

theorem RelOut.ok_iff {x y : Out (Bytes × List Prim)} (h : RelOut x y) :
    (∃ v, x = .ok v) ↔ (∃ v, y = .ok v) := by
  cases x <;> cases y <;> simp [RelOut] at h ⊢

theorem RelOut.of_ok {x y : Out (Bytes × List Prim)} (h : RelOut x y) (s1 s2 : Bytes) (p1 p2 : List Prim)
    (h1 : x = .ok (s1, p1)) (h2 : y = .ok (s2, p2)) : s1 = s2 ∧ p1.length = p2.length := by
  subst h1 h2
  exact h

/-! ## isSimple -/

theorem sameFrame_op (l1 : Node) (o1 : Op) (r1 : Node) (p1 : F64) (d1 : Int) (l2 : Node) (o2 : Op) (r2 : Node)
    (p2 : F64) (d2 : Int) (h : sameFrame (.mk l1 o1 r1 p1 d1) (.mk l2 o2 r2 p2 d2) = true) :
    o1 = o2 ∧ sameNodeF l1 l2 = true ∧ sameNodeF r1 r2 = true ∧
    (o1 = .like → patKind r1 = patKind r2) ∧ (o1 = .range → rangeKind r1 = rangeKind r2) := by
  simp only [sameFrame, Bool.and_eq_true, beq_iff_eq] at h
  obtain ⟨⟨⟨⟨ho, hl⟩, hr⟩, hk⟩, hg⟩ := h
  refine ⟨ho, hl, hr, ?_, ?_⟩
  · intro hlike; simpa [hlike] using hk
  · intro hrange; simpa [hrange] using hg

theorem sameNodeF_isSimple (n1 n2 : Node) (h : sameNodeF n1 n2 = true) : isSimple n1 = isSimple n2 := by
  cases n1 <;> cases n2 <;> simp only [sameNodeF] at h <;> try (exact absurd h Bool.false_ne_true)
  · rfl
  · rename_i p q
    cases p <;> cases q <;> simp [samePrimF, isSimple] at h ⊢
  · rename_i a c
    obtain ⟨l1, o1, r1, p1, d1⟩ := a
    obtain ⟨l2, o2, r2, p2, d2⟩ := c
    obtain ⟨ho, _⟩ := sameFrame_op _ _ _ _ _ _ _ _ _ _ h
    subst ho
    rfl
  · rfl
  · rfl

/-! ## leaves, lists, boundaries -/

/-- RenderParam on a `leafy` expression: nothing for the leaf over nil, one placeholder for a value -/
theorem leafy_eval (l : Node) (o : Op) (r : Node) (p : F64) (d : Int) (h : leafy (.mk l o r p d) = true) :
    (l = .nil ∧ renderParam pgFns (.mk l o r p d) = .ok ([], [])) ∨
    (∃ q, l = .prim q ∧ (∀ s, q ≠ .col s) ∧ renderParam pgFns (.mk l o r p d) = .ok (b "?", [q])) := by
  obtain ⟨ho, hr, hl⟩ := leafy_parts l o r p d h
  subst hr
  simp only [leafy, Bool.and_eq_true] at h
  rcases hl with rfl | ⟨q, rfl⟩
  · have : o = .literal := by simpa [leafKindOK] using h.1.2
    subst this
    exact .inl ⟨rfl, renderParam_nil_leaf p d⟩
  · have hq : ∀ s, q ≠ .col s := by
      intro s hs; subst hs; simp [leafKindOK] at h
    refine .inr ⟨q, rfl, hq, renderParam_leaf_ok q o p d hq ho ?_⟩
    cases q <;> simp_all [leafKindOK]

theorem list_rel : ∀ es1 es2 : ExprList, es1.allLeafy = true → es2.allLeafy = true → sameListF es1 es2 = true →
    RelOutL (serializeParamsList pgFns es1) (serializeParamsList pgFns es2)
  | .nil, .nil, _, _, _ => by simp [spl_nil, RelOutL]
  | .cons (.mk l1 o1 r1 p1 d1) t1, .cons (.mk l2 o2 r2 p2 d2) t2, h1, h2, h => by
    simp only [ExprList.allLeafy, Bool.and_eq_true] at h1 h2
    simp only [sameListF, Bool.and_eq_true, beq_iff_eq, Expr.left] at h
    have ih := list_rel t1 t2 h1.2 h2.2 h.2
    rw [spl_cons, spl_cons]
    rcases leafy_eval l1 o1 r1 p1 d1 h1.1 with ⟨rfl, e1⟩ | ⟨q1, rfl, _, e1⟩ <;>
      rcases leafy_eval l2 o2 r2 p2 d2 h2.1 with ⟨rfl, e2⟩ | ⟨q2, rfl, _, e2⟩ <;>
      simp [Node.isNil] at h <;> rw [e1, e2] <;>
      cases h3 : serializeParamsList pgFns t1 <;> cases h4 : serializeParamsList pgFns t2 <;>
      simp_all [RelOutL]
  | .nil, .cons _ _, _, _, h => by simp [sameListF] at h
  | .cons _ _, .nil, _, _, h => by simp [sameListF] at h

/-- one end of a boundary -/
theorem end_eval (a : Expr) (h : leafy a = true) :
    endOut pgFns (.expr a) = .ok (endText (.expr a), endParams (.expr a)) := by
  obtain ⟨l, o, r, p, d⟩ := a
  simp only [endOut, endText, endParams]
  by_cases hs : starLeft (.mk l o r p d) = true
  · simp [hs]
  · simp only [hs, Bool.false_eq_true, if_false]
    rcases leafy_eval l o r p d h with ⟨rfl, e⟩ | ⟨q, rfl, _, e⟩ <;> rw [e] <;> rfl

def boundText (incl : Bool) (x y : Bytes) : Bytes :=
  if incl then b "[" ++ x ++ b ", " ++ y ++ b "]" else b "(" ++ x ++ b ", " ++ y ++ b ")"

theorem bound_eval (a c : Expr) (incl : Bool) (ha : leafy a = true) (hc : leafy c = true) :
    serializeParams pgFns (.bound (.expr a) (.expr c) incl) =
      .ok (boundText incl (endText (.expr a)) (endText (.expr c)), endParams (.expr a) ++ endParams (.expr c)) := by
  rw [sp_bound', end_eval a ha, end_eval c hc]
  cases incl <;> rfl

theorem endParams_len (a : Expr) (h : leafy a = true) :
    (endParams (.expr a)).length = if endText (.expr a) = b "?" then 1 else 0 := by
  obtain ⟨l, o, r, p, d⟩ := a
  obtain ⟨_, _, hl⟩ := leafy_parts l o r p d h
  simp only [endParams, endText]
  by_cases hs : starLeft (.mk l o r p d) = true
  · simp only [hs, if_true]
    have : starQ ≠ b "?" := by decide
    simp [this]
  · simp only [hs, Bool.false_eq_true, if_false, Expr.left]
    rcases hl with rfl | ⟨q, rfl⟩
    · have : ([] : Bytes) ≠ b "?" := by decide
      simp [this]
    · simp

/-- the boundary shape `wfNode` leaves -/
theorem wf_bound (mn mx : Node) (incl : Bool) (h : wfNode (.bound mn mx incl) = true) :
    ∃ a c, mn = .expr a ∧ mx = .expr c ∧ leafy a = true ∧ leafy c = true := by
  simp only [wfNode, Bool.and_eq_true] at h
  cases mn with
  | expr a =>
    cases mx with
    | expr c => exact ⟨a, c, rfl, rfl, h.1, h.2⟩
    | _ => simp at h
  | _ => simp at h

/-! ## one node -/

theorem renderParam_left_err (l : Node) (o : Op) (r : Node) (p : F64) (d : Int)
    (h : serializeParams pgFns l = .err) : renderParam pgFns (.mk l o r p d) = .err := by
  rw [renderParam, h]
theorem renderParam_left_panic (l : Node) (o : Op) (r : Node) (p : F64) (d : Int)
    (h : serializeParams pgFns l = .panic) : renderParam pgFns (.mk l o r p d) = .panic := by
  rw [renderParam, h]
theorem renderParam_right_err (l : Node) (o : Op) (r : Node) (p : F64) (d : Int) (v : Bytes × List Prim)
    (hl : serializeParams pgFns l = .ok v) (h : serializeParams pgFns r = .err) :
    renderParam pgFns (.mk l o r p d) = .err := by
  rw [renderParam, hl, h]
theorem renderParam_right_panic (l : Node) (o : Op) (r : Node) (p : F64) (d : Int) (v : Bytes × List Prim)
    (hl : serializeParams pgFns l = .ok v) (h : serializeParams pgFns r = .panic) :
    renderParam pgFns (.mk l o r p d) = .panic := by
  rw [renderParam, hl, h]

/-- the operand text with the parentheses `RenderParam` adds -/
def wrap (o : Op) (n : Node) (s : Bytes) : Bytes := if parenOps o && !isSimple n then parenB s else s

theorem wrap_congr (o : Op) (n1 n2 : Node) (s : Bytes) (h : isSimple n1 = isSimple n2) : wrap o n1 s = wrap o n2 s := by
  simp only [wrap, h]

/-- a node that is neither Like nor Range, both operands rendered -/
theorem generic_eval (l : Node) (o : Op) (r : Node) (p : F64) (d : Int) (ho1 : o ≠ .like) (ho2 : o ≠ .range)
    (sl sr : Bytes) (pl pr : List Prim)
    (hl : serializeParams pgFns l = .ok (sl, pl)) (hr : serializeParams pgFns r = .ok (sr, pr)) :
    renderParam pgFns (.mk l o r p d) =
      (match pgFns o with
       | none => .err
       | some fn =>
         (match fn (wrap o l sl) (wrap o r sr) with
          | .ok s => .ok (s, pl ++ pr) | .err => .err | .panic => .panic)) := by
  rw [renderParam, hl, hr]
  simp only [ho1, ho2, if_false, wrap]
  cases pgFns o <;> rfl

theorem generic_rel (l1 l2 : Node) (o : Op) (r1 r2 : Node) (p1 p2 : F64) (d1 d2 : Int)
    (ho1 : o ≠ .like) (ho2 : o ≠ .range) (hsl : isSimple l1 = isSimple l2) (hsr : isSimple r1 = isSimple r2)
    (hl : RelOut (serializeParams pgFns l1) (serializeParams pgFns l2))
    (hr : RelOut (serializeParams pgFns r1) (serializeParams pgFns r2)) :
    RelOut (renderParam pgFns (.mk l1 o r1 p1 d1)) (renderParam pgFns (.mk l2 o r2 p2 d2)) := by
  cases h1 : serializeParams pgFns l1 with
  | err =>
    cases h2 : serializeParams pgFns l2 <;> rw [h1, h2] at hl <;> simp only [RelOut] at hl
    rw [renderParam_left_err _ _ _ _ _ h1, renderParam_left_err _ _ _ _ _ h2]; trivial
  | panic =>
    cases h2 : serializeParams pgFns l2 <;> rw [h1, h2] at hl <;> simp only [RelOut] at hl
    rw [renderParam_left_panic _ _ _ _ _ h1, renderParam_left_panic _ _ _ _ _ h2]; trivial
  | ok v1 =>
    cases h2 : serializeParams pgFns l2 <;> rw [h1, h2] at hl <;> simp only [RelOut] at hl
    rename_i v2
    obtain ⟨sl, pl1⟩ := v1
    obtain ⟨sl2, pl2⟩ := v2
    simp only at hl
    obtain ⟨rfl, hlen⟩ := hl
    cases h3 : serializeParams pgFns r1 with
    | err =>
      cases h4 : serializeParams pgFns r2 <;> rw [h3, h4] at hr <;> simp only [RelOut] at hr
      rw [renderParam_right_err _ _ _ _ _ _ h1 h3, renderParam_right_err _ _ _ _ _ _ h2 h4]; trivial
    | panic =>
      cases h4 : serializeParams pgFns r2 <;> rw [h3, h4] at hr <;> simp only [RelOut] at hr
      rw [renderParam_right_panic _ _ _ _ _ _ h1 h3, renderParam_right_panic _ _ _ _ _ _ h2 h4]; trivial
    | ok w1 =>
      cases h4 : serializeParams pgFns r2 <;> rw [h3, h4] at hr <;> simp only [RelOut] at hr
      rename_i w2
      obtain ⟨sr, pr1⟩ := w1
      obtain ⟨sr2, pr2⟩ := w2
      simp only at hr
      obtain ⟨rfl, hlen2⟩ := hr
      rw [generic_eval l1 o r1 p1 d1 ho1 ho2 sl sr pl1 pr1 h1 h3, generic_eval l2 o r2 p2 d2 ho1 ho2 sl sr pl2 pr2 h2 h4,
        wrap_congr o l1 l2 sl hsl, wrap_congr o r1 r2 sr hsr]
      cases pgFns o with
      | none => trivial
      | some fn =>
        simp only []
        cases fn (wrap o l2 sl) (wrap o r2 sr) <;> simp [RelOut, hlen, hlen2]

/-! ## Like -/

theorem notSlashed_eq (s : Bytes) :
    (decide (s.length < 2) || s.head? != some 47 || s.getLast? != some 47) = !slashed s := by
  unfold slashed
  by_cases h1 : s.length < 2 <;> cases h2 : (s.head? == some 47) <;> cases h3 : (s.getLast? == some 47) <;>
    simp [h1, h2, h3, bne] <;> omega

theorem replaceByte_map (x y : UInt8) (s : Bytes) :
    replaceByte x [y] s = s.map (fun c => if c == x then y else c) := by
  induction s with
  | nil => rfl
  | cons c t ih =>
    unfold replaceByte at ih ⊢
    rw [List.flatMap_cons, ih, List.map_cons]
    split <;> rfl

theorem slashed_map (g : UInt8 → UInt8) (hg : ∀ c, g c = 47 ↔ c = 47) (s : Bytes) :
    slashed (s.map g) = slashed s := by
  unfold slashed
  rw [List.length_map, List.head?_map, List.getLast?_map]
  have key : ∀ o : Option UInt8, (o.map g == some 47) = (o == some 47) := by
    intro o
    cases o with
    | none => rfl
    | some c =>
      have := hg c
      by_cases hc : c = 47
      · subst hc; simp [this.2 rfl]
      · have hgc : g c ≠ 47 := fun h => hc (this.1 h)
        have e1 : (g c == 47) = false := beq_eq_false_iff_ne.mpr hgc
        have e2 : (c == 47) = false := beq_eq_false_iff_ne.mpr hc
        simp [e1, e2]
  rw [key, key]

/-- the `*`→`%`, `?`→`_` translation does not change the `/…/` class -/
theorem slashed_starPattern (s : Bytes) : slashed (starPattern s) = slashed s := by
  unfold starPattern
  rw [replaceByte_map, replaceByte_map, List.map_map]
  apply slashed_map
  intro c
  simp only [Function.comp]
  by_cases h1 : c = 42
  · subst h1; decide
  · by_cases h2 : c = 63
    · subst h2; decide
    · simp [h1, h2]

theorem sentPattern_eq (s : Bytes) : sentPattern s = if slashed s then s else starPattern s := by
  unfold sentPattern
  rw [notSlashed_eq]
  cases slashed s <;> rfl

theorem slashed_sentPattern (s : Bytes) : slashed (sentPattern s) = slashed s := by
  rw [sentPattern_eq]
  cases h : slashed s
  · simp [slashed_starPattern, h]
  · simp [h]

theorem likeParam_str (left right pr : Bytes) :
    likeParam left right [.str pr] =
      .ok (left ++ (if slashed pr then b " ~ " else b " SIMILAR TO ") ++ right) := by
  cases h : (decide (pr.length ≥ 2) && pr.head? == some 47 && pr.getLast? == some 47) <;>
    simp [likeParam, slashed, h]

/-- a Like node whose pattern rendered to one string parameter -/
theorem like_eval (l r : Node) (p : F64) (d : Int) (sl sr s : Bytes) (pl : List Prim)
    (hl : serializeParams pgFns l = .ok (sl, pl)) (hr : serializeParams pgFns r = .ok (sr, [.str s])) :
    renderParam pgFns (.mk l .like r p d) =
      .ok (wrap .like l sl ++ (if slashed s then b " ~ " else b " SIMILAR TO ") ++ wrap .like r sr,
           pl ++ [.str (sentPattern s)]) := by
  rw [renderParam, hl, hr]
  simp only [if_true, notSlashed_eq]
  cases hs : slashed s
  · simp only [Bool.not_false, if_true, likeParam_str, sentPattern_eq, hs, slashed_starPattern, Bool.false_eq_true,
      if_false, wrap]
  · simp only [Bool.not_true, Bool.false_eq_true, if_false, likeParam_str, sentPattern_eq, hs, if_true, wrap]

/-- the pattern operand a validated, well-formed Like node has -/
theorem like_shape (l r : Node) (p : F64) (d : Int) (hop : validateOp (.mk l .like r p d) = some true)
    (hw : wfNode r = true) (hv : validateNode r = true) :
    ∃ s ro rp rd, r = .expr (.mk (.prim (.str s)) ro .nil rp rd) ∧ ro.isLeafOp = true := by
  cases r <;> simp [validateOp, Expr.op, Expr.left, Expr.right] at hop
  rename_i re
  obtain ⟨rl, ro, rr, rp, rd⟩ := re
  simp only [Expr.op] at hop
  have hro : ro = .wild ∨ ro = .regexp := by
    rcases hop.2 with h | h
    · exact .inl (of_decide_eq_true h)
    · exact .inr (of_decide_eq_true h)
  have hleaf : ro.isLeafOp = true := by rcases hro with h | h <;> subst h <;> rfl
  have hwr : (ro = .wild || ro = .regexp) = true := by rcases hro with h | h <;> subst h <;> rfl
  simp only [validateNode] at hv
  obtain ⟨hvo, _, _⟩ := validate_top rl ro rr rp rd hv
  obtain ⟨hrr, q, hq⟩ := leafop_parts rl ro rr rp rd hleaf hvo
  subst hrr hq
  simp only [wfNode, wfTree, hwr, if_true, Bool.and_eq_true] at hw
  cases q <;> simp at hw
  exact ⟨_, ro, rp, rd, rfl, hleaf⟩

theorem like_rel (l1 l2 r1 r2 : Node) (p1 p2 : F64) (d1 d2 : Int)
    (hop1 : validateOp (.mk l1 .like r1 p1 d1) = some true) (hw1 : wfNode r1 = true) (hv1 : validateNode r1 = true)
    (hop2 : validateOp (.mk l2 .like r2 p2 d2) = some true) (hw2 : wfNode r2 = true) (hv2 : validateNode r2 = true)
    (hsl : isSimple l1 = isSimple l2) (hk : patKind r1 = patKind r2)
    (hl : RelOut (serializeParams pgFns l1) (serializeParams pgFns l2)) :
    RelOut (renderParam pgFns (.mk l1 .like r1 p1 d1)) (renderParam pgFns (.mk l2 .like r2 p2 d2)) := by
  obtain ⟨s1, ro1, rp1, rd1, rfl, hleaf1⟩ := like_shape l1 r1 p1 d1 hop1 hw1 hv1
  obtain ⟨s2, ro2, rp2, rd2, rfl, hleaf2⟩ := like_shape l2 r2 p2 d2 hop2 hw2 hv2
  have e1 : serializeParams pgFns (.expr (.mk (.prim (.str s1)) ro1 .nil rp1 rd1)) = .ok (b "?", [.str s1]) := by
    rw [sp_expr]; exact renderParam_leaf_ok (.str s1) ro1 rp1 rd1 (by intro s h; cases h) hleaf1 (.inr ⟨s1, rfl⟩)
  have e2 : serializeParams pgFns (.expr (.mk (.prim (.str s2)) ro2 .nil rp2 rd2)) = .ok (b "?", [.str s2]) := by
    rw [sp_expr]; exact renderParam_leaf_ok (.str s2) ro2 rp2 rd2 (by intro s h; cases h) hleaf2 (.inr ⟨s2, rfl⟩)
  simp only [patKind] at hk
  have hwr : ∀ (ro : Op), ro.isLeafOp = true → ∀ (s : Bytes) (rp : F64) (rd : Int) (t : Bytes),
      wrap .like (.expr (.mk (.prim (.str s)) ro .nil rp rd)) t = t := by
    intro ro h s rp rd t
    cases ro <;> simp [Op.isLeafOp] at h <;> simp [wrap, isSimple, Expr.op]
  cases h1 : serializeParams pgFns l1 with
  | err =>
    cases h2 : serializeParams pgFns l2 <;> rw [h1, h2] at hl <;> simp only [RelOut] at hl
    rw [renderParam_left_err _ _ _ _ _ h1, renderParam_left_err _ _ _ _ _ h2]; trivial
  | panic =>
    cases h2 : serializeParams pgFns l2 <;> rw [h1, h2] at hl <;> simp only [RelOut] at hl
    rw [renderParam_left_panic _ _ _ _ _ h1, renderParam_left_panic _ _ _ _ _ h2]; trivial
  | ok v1 =>
    cases h2 : serializeParams pgFns l2 <;> rw [h1, h2] at hl <;> simp only [RelOut] at hl
    rename_i v2
    obtain ⟨sl, pl1⟩ := v1
    obtain ⟨sl2, pl2⟩ := v2
    simp only at hl
    obtain ⟨rfl, hlen⟩ := hl
    rw [like_eval l1 _ p1 d1 sl _ s1 pl1 h1 e1, like_eval l2 _ p2 d2 sl _ s2 pl2 h2 e2, hwr ro1 hleaf1, hwr ro2 hleaf2,
      wrap_congr .like l1 l2 sl hsl, hk]
    simp [RelOut, hlen]

/-! ## Range -/

/-- the text `rangParam` produces from the left text, the inclusivity, the two end texts and ONE bit of the
    parameters: whether `params[0]` is numeric -/
def rangSql (left : Bytes) (incl : Bool) (ta tc : Bytes) (num : Bool) : Bytes :=
  if ta == b "?" || tc == b "?" then
    (if num then rangeCmp left incl ta tc ta tc else left ++ b " BETWEEN " ++ ta ++ b " AND " ++ tc)
  else rangeText left incl ta tc

theorem rangParam_eval (left right : Bytes) (incl : Bool) (ta tc : Bytes) (ps : List Prim)
    (hp : rangeParts right = .ok (incl, ta, tc)) (hne : (ta == b "?" || tc == b "?") = true → ps ≠ []) :
    rangParam left right ps = .ok (rangSql left incl ta tc (headNum ps)) := by
  unfold rangParam rangSql
  rw [hp]
  simp only []
  by_cases hq : (ta == b "?" || tc == b "?") = true
  · simp only [hq, if_true]
    cases ps with
    | nil => exact absurd rfl (hne hq)
    | cons q t => cases q <;> simp [headNum, isNum]
  · simp only [hq, Bool.false_eq_true, if_false]

theorem rangeParts_bound (incl : Bool) (ta tc : Bytes) (ha : ta = starQ ∨ ta = b "?") (hc : tc = starQ ∨ tc = b "?") :
    rangeParts (boundText incl ta tc) = .ok (incl, ta, tc) := by
  rcases ha with rfl | rfl <;> rcases hc with rfl | rfl <;> cases incl <;> decide

/-- an end of a VALIDATED boundary: open, or one placeholder with its parameter -/
theorem end_lit (a : Expr) (hv : isLiteralExpr (.expr a) = true) :
    (endText (.expr a) = starQ ∧ endParams (.expr a) = []) ∨
    (endText (.expr a) = b "?" ∧ ∃ q, endParams (.expr a) = [q]) := by
  obtain ⟨l, o, r, p, d⟩ := a
  simp only [isLiteralExpr, Bool.and_eq_true] at hv
  cases l with
  | prim q =>
    simp only [endText, endParams, Expr.left]
    by_cases hs : starLeft (.mk (.prim q) o r p d) = true
    · exact .inl (by simp [hs])
    · exact .inr (by simp [hs])
  | _ => simp [Node.isLiteral] at hv

theorem range_shape (l r : Node) (p : F64) (d : Int) (hop : validateOp (.mk l .range r p d) = some true)
    (hw : wfNode r = true) :
    ∃ a c incl, r = .bound (.expr a) (.expr c) incl ∧ leafy a = true ∧ leafy c = true ∧
      isLiteralExpr (.expr a) = true ∧ isLiteralExpr (.expr c) = true := by
  cases r <;> simp [validateOp, Expr.op, Expr.left, Expr.right] at hop
  rename_i mn mx incl
  obtain ⟨_, ⟨⟨_, _⟩, hmn⟩, hmx⟩ := hop
  obtain ⟨a, c, rfl, rfl, ha, hc⟩ := wf_bound mn mx incl hw
  exact ⟨a, c, incl, rfl, ha, hc, hmn, hmx⟩

theorem range_eval (l : Node) (a c : Expr) (incl : Bool) (p : F64) (d : Int) (sl : Bytes) (pl : List Prim)
    (hl : serializeParams pgFns l = .ok (sl, pl)) (ha : leafy a = true) (hc : leafy c = true)
    (hva : isLiteralExpr (.expr a) = true) (hvc : isLiteralExpr (.expr c) = true) :
    renderParam pgFns (.mk l .range (.bound (.expr a) (.expr c) incl) p d) =
      .ok (rangSql sl incl (endText (.expr a)) (endText (.expr c)) (rangeKind (.bound (.expr a) (.expr c) incl)),
           pl ++ (endParams (.expr a) ++ endParams (.expr c))) := by
  have hta : endText (.expr a) = starQ ∨ endText (.expr a) = b "?" := by
    rcases end_lit a hva with h | h
    · exact .inl h.1
    · exact .inr h.1
  have htc : endText (.expr c) = starQ ∨ endText (.expr c) = b "?" := by
    rcases end_lit c hvc with h | h
    · exact .inl h.1
    · exact .inr h.1
  have hne : (endText (.expr a) == b "?" || endText (.expr c) == b "?") = true →
      endParams (.expr a) ++ endParams (.expr c) ≠ [] := by
    intro hq
    have hsq : (starQ == b "?") = false := by decide
    rcases end_lit a hva with ⟨h1, _⟩ | ⟨_, q, h2⟩
    · rcases end_lit c hvc with ⟨h3, _⟩ | ⟨_, q, h4⟩
      · rw [h1, h3] at hq; simp [hsq] at hq
      · rw [h4]; simp
    · rw [h2]; simp
  rw [renderParam, hl, bound_eval a c incl ha hc]
  simp only [parenOps_range, Bool.false_and, Bool.false_eq_true, if_false, reduceCtorEq, if_true]
  rw [rangParam_eval sl _ incl _ _ _ (rangeParts_bound incl _ _ hta htc) hne]
  rfl

theorem range_rel (l1 l2 r1 r2 : Node) (p1 p2 : F64) (d1 d2 : Int)
    (hop1 : validateOp (.mk l1 .range r1 p1 d1) = some true) (hw1 : wfNode r1 = true)
    (hop2 : validateOp (.mk l2 .range r2 p2 d2) = some true) (hw2 : wfNode r2 = true)
    (hsr : sameNodeF r1 r2 = true) (hk : rangeKind r1 = rangeKind r2)
    (hl : RelOut (serializeParams pgFns l1) (serializeParams pgFns l2)) :
    RelOut (renderParam pgFns (.mk l1 .range r1 p1 d1)) (renderParam pgFns (.mk l2 .range r2 p2 d2)) := by
  obtain ⟨a1, c1, i1, rfl, ha1, hc1, hva1, hvc1⟩ := range_shape l1 r1 p1 d1 hop1 hw1
  obtain ⟨a2, c2, i2, rfl, ha2, hc2, hva2, hvc2⟩ := range_shape l2 r2 p2 d2 hop2 hw2
  simp only [sameNodeF, Bool.and_eq_true, beq_iff_eq] at hsr
  obtain ⟨⟨rfl, hta⟩, htc⟩ := hsr
  cases h1 : serializeParams pgFns l1 with
  | err =>
    cases h2 : serializeParams pgFns l2 <;> rw [h1, h2] at hl <;> simp only [RelOut] at hl
    rw [renderParam_left_err _ _ _ _ _ h1, renderParam_left_err _ _ _ _ _ h2]; trivial
  | panic =>
    cases h2 : serializeParams pgFns l2 <;> rw [h1, h2] at hl <;> simp only [RelOut] at hl
    rw [renderParam_left_panic _ _ _ _ _ h1, renderParam_left_panic _ _ _ _ _ h2]; trivial
  | ok v1 =>
    cases h2 : serializeParams pgFns l2 <;> rw [h1, h2] at hl <;> simp only [RelOut] at hl
    rename_i v2
    obtain ⟨sl, pl1⟩ := v1
    obtain ⟨sl2, pl2⟩ := v2
    simp only at hl
    obtain ⟨rfl, hlen⟩ := hl
    rw [range_eval l1 a1 c1 i1 p1 d1 sl pl1 h1 ha1 hc1 hva1 hvc1, range_eval l2 a2 c2 i1 p2 d2 sl pl2 h2 ha2 hc2 hva2 hvc2,
      hk, hta, htc]
    simp only [RelOut, List.length_append, endParams_len a1 ha1, endParams_len c1 hc1, endParams_len a2 ha2,
      endParams_len c2 hc2, hta, htc, hlen, and_self]

/-! ## the tree -/

theorem prim_rel (q1 q2 : Prim) (h : samePrimF q1 q2 = true) :
    RelOut (serializeParams pgFns (.prim q1)) (serializeParams pgFns (.prim q2)) := by
  cases q1 <;> cases q2 <;> simp only [samePrimF] at h <;> try (exact absurd h Bool.false_ne_true)
  all_goals first
    | (simp only [beq_iff_eq] at h; subst h; rw [sp_col]; cases serializeCol _ <;> simp [RelOut])
    | exact (show RelOut (.ok (b "?", [_])) (.ok (b "?", [_])) from ⟨rfl, rfl⟩)

mutual
theorem node_rel : ∀ n1 n2 : Node, wfNode n1 = true → validateNode n1 = true → wfNode n2 = true →
    validateNode n2 = true → sameNodeF n1 n2 = true →
    RelOut (serializeParams pgFns n1) (serializeParams pgFns n2)
  | .nil, .nil, _, _, _, _, _ => by simp [sp_nil, RelOut]
  | .prim q1, .prim q2, _, _, _, _, h => prim_rel q1 q2 (by simpa [sameNodeF] using h)
  | .expr a, .expr c, hw1, hv1, hw2, hv2, h => by
    rw [sp_expr, sp_expr]
    exact expr_rel a c (by simpa [wfNode] using hw1) (by simpa [validateNode] using hv1)
      (by simpa [wfNode] using hw2) (by simpa [validateNode] using hv2) (by simpa [sameNodeF] using h)
  | .list es1, .list es2, hw1, _, hw2, _, h => by
    have := list_rel es1 es2 (by simpa [wfNode] using hw1) (by simpa [wfNode] using hw2) (by simpa [sameNodeF] using h)
    rw [sp_list, sp_list]
    cases h1 : serializeParamsList pgFns es1 <;> cases h2 : serializeParamsList pgFns es2 <;>
      rw [h1, h2] at this <;> simp only [RelOutL] at this <;> simp only [RelOut]
    exact ⟨by rw [this.1], this.2⟩
  | .bound mn1 mx1 i1, .bound mn2 mx2 i2, hw1, _, hw2, _, h => by
    obtain ⟨a1, c1, rfl, rfl, ha1, hc1⟩ := wf_bound mn1 mx1 i1 hw1
    obtain ⟨a2, c2, rfl, rfl, ha2, hc2⟩ := wf_bound mn2 mx2 i2 hw2
    simp only [sameNodeF, Bool.and_eq_true, beq_iff_eq] at h
    obtain ⟨⟨rfl, hta⟩, htc⟩ := h
    rw [bound_eval a1 c1 i1 ha1 hc1, bound_eval a2 c2 i1 ha2 hc2]
    simp only [RelOut, List.length_append, endParams_len a1 ha1, endParams_len c1 hc1, endParams_len a2 ha2,
      endParams_len c2 hc2, hta, htc, and_self]
  | .nil, .prim _, _, _, _, _, h | .nil, .expr _, _, _, _, _, h | .nil, .list _, _, _, _, _, h
  | .nil, .bound _ _ _, _, _, _, _, h => by simp [sameNodeF] at h
  | .prim _, .nil, _, _, _, _, h | .prim _, .expr _, _, _, _, _, h | .prim _, .list _, _, _, _, _, h
  | .prim _, .bound _ _ _, _, _, _, _, h => by simp [sameNodeF] at h
  | .expr _, .nil, _, _, _, _, h | .expr _, .prim _, _, _, _, _, h | .expr _, .list _, _, _, _, _, h
  | .expr _, .bound _ _ _, _, _, _, _, h => by simp [sameNodeF] at h
  | .list _, .nil, _, _, _, _, h | .list _, .prim _, _, _, _, _, h | .list _, .expr _, _, _, _, _, h
  | .list _, .bound _ _ _, _, _, _, _, h => by simp [sameNodeF] at h
  | .bound _ _ _, .nil, _, _, _, _, h | .bound _ _ _, .prim _, _, _, _, _, h | .bound _ _ _, .expr _, _, _, _, _, h
  | .bound _ _ _, .list _, _, _, _, _, h => by simp [sameNodeF] at h
/-- the core: on well-formed validated trees related by `sameFrame`, the two outcomes of `RenderParam` agree -/
theorem expr_rel : ∀ e1 e2 : Expr, wfTree e1 = true → validateExpr e1 = true → wfTree e2 = true →
    validateExpr e2 = true → sameFrame e1 e2 = true →
    RelOut (renderParam pgFns e1) (renderParam pgFns e2)
  | .mk l1 o1 r1 p1 d1, .mk l2 o2 r2 p2 d2, hw1, hv1, hw2, hv2, h => by
    obtain ⟨hop1, hvl1, hvr1⟩ := validate_top l1 o1 r1 p1 d1 hv1
    obtain ⟨hop2, hvl2, hvr2⟩ := validate_top l2 o2 r2 p2 d2 hv2
    simp only [wfTree, Bool.and_eq_true] at hw1 hw2
    obtain ⟨ho, hsl, hsr, hlike, hrange⟩ := sameFrame_op _ _ _ _ _ _ _ _ _ _ h
    subst ho
    have hl := node_rel l1 l2 hw1.1.2 hvl1 hw2.1.2 hvl2 hsl
    by_cases ho1 : o1 = .like
    · subst ho1
      exact like_rel l1 l2 r1 r2 p1 p2 d1 d2 hop1 hw1.2 hvr1 hop2 hw2.2 hvr2 (sameNodeF_isSimple l1 l2 hsl)
        (hlike rfl) hl
    · by_cases ho2 : o1 = .range
      · subst ho2
        exact range_rel l1 l2 r1 r2 p1 p2 d1 d2 hop1 hw1.2 hop2 hw2.2 hsr (hrange rfl) hl
      · have hr := node_rel r1 r2 hw1.2 hvr1 hw2.2 hvr2 hsr
        exact generic_rel l1 l2 o1 r1 r2 p1 p2 d1 d2 ho1 ho2 (sameNodeF_isSimple l1 l2 hsl)
          (sameNodeF_isSimple r1 r2 hsr) hl hr
end

/-! ## the literal reading of the property: `sameShape` -/

/-- the kind of a raw value: string (0), number — int or float64 — (1), bool (2), opaque (3); a Column (4) is
    compared by name -/
def kindOf : Prim → Nat
  | .str _ => 0
  | .int _ => 1
  | .flt _ => 1
  | .bool _ => 2
  | .opaque => 3
  | .col _ => 4

def samePrim : Prim → Prim → Bool
  | .col a, .col c => a == c
  | p, q => kindOf p == kindOf q

/-- an open end of a range, as `serializeBoundParams` sees it: `e.Left == "*"` -/
def isOpenEnd : Node → Bool
  | .expr e => starLeft e
  | _ => false

mutual
def sameNode : Node → Node → Bool
  | .nil, .nil => true
  | .prim p, .prim q => samePrim p q
  | .expr a, .expr c => sameShape a c
  | .list as, .list cs => sameList as cs
  | .bound a1 c1 i1, .bound a2 c2 i2 =>
    i1 == i2 && isOpenEnd a1 == isOpenEnd a2 && isOpenEnd c1 == isOpenEnd c2 && sameNode a1 a2 && sameNode c1 c2
  | _, _ => false
/-- "the two queries differ only in values of the same kind": same operators and structure, same Column names, same
    inclusivity and the same open ends of every range, same list lengths, at every raw value the same kind
    (string / number / bool / opaque), and for the pattern of a Like node the same `/…/` class -/
def sameShape : Expr → Expr → Bool
  | .mk l1 o1 r1 _ _, .mk l2 o2 r2 _ _ =>
    o1 == o2 && sameNode l1 l2 && sameNode r1 r2 && (if o1 = .like then patKind r1 == patKind r2 else true)
def sameList : ExprList → ExprList → Bool
  | .nil, .nil => true
  | .cons a as, .cons c cs => sameShape a c && sameList as cs
  | _, _ => false
end

theorem samePrim_F (p q : Prim) (h : samePrim p q = true) : samePrimF p q = true := by
  cases p <;> cases q <;> simp [samePrim, kindOf] at h <;> simp [samePrimF, isSimple, h]

theorem samePrim_isNum (p q : Prim) (h : samePrim p q = true) : isNum p = isNum q := by
  cases p <;> cases q <;> simp [samePrim, kindOf] at h <;> rfl

theorem sameNode_isNil (n1 n2 : Node) (h : sameNode n1 n2 = true) : n1.isNil = n2.isNil := by
  cases n1 <;> cases n2 <;> simp only [sameNode] at h <;> first | rfl | exact absurd h Bool.false_ne_true

theorem sameShape_parts (l1 : Node) (o1 : Op) (r1 : Node) (p1 : F64) (d1 : Int) (l2 : Node) (o2 : Op) (r2 : Node)
    (p2 : F64) (d2 : Int) (h : sameShape (.mk l1 o1 r1 p1 d1) (.mk l2 o2 r2 p2 d2) = true) :
    o1 = o2 ∧ sameNode l1 l2 = true ∧ sameNode r1 r2 = true ∧ (o1 = .like → patKind r1 = patKind r2) := by
  simp only [sameShape, Bool.and_eq_true, beq_iff_eq] at h
  obtain ⟨⟨⟨ho, hl⟩, hr⟩, hk⟩ := h
  refine ⟨ho, hl, hr, ?_⟩
  intro hlike; simpa [hlike] using hk

theorem sameList_F : ∀ es1 es2 : ExprList, sameList es1 es2 = true → sameListF es1 es2 = true
  | .nil, .nil, _ => rfl
  | .cons (.mk l1 o1 r1 p1 d1) t1, .cons (.mk l2 o2 r2 p2 d2) t2, h => by
    simp only [sameList, Bool.and_eq_true] at h
    obtain ⟨_, hl, _, _⟩ := sameShape_parts _ _ _ _ _ _ _ _ _ _ h.1
    simp only [sameListF, Bool.and_eq_true, beq_iff_eq, Expr.left]
    exact ⟨sameNode_isNil l1 l2 hl, sameList_F t1 t2 h.2⟩
  | .nil, .cons _ _, h => by simp [sameList] at h
  | .cons _ _, .nil, h => by simp [sameList] at h

/-- the two ends contribute the same text, and first parameters of the same numeric class -/
theorem end_same (a1 a2 : Node) (ho : isOpenEnd a1 = isOpenEnd a2) (h : sameNode a1 a2 = true) :
    endText a1 = endText a2 ∧
    ((endParams a1 = [] ∧ endParams a2 = []) ∨
      ∃ q1 q2, endParams a1 = [q1] ∧ endParams a2 = [q2] ∧ isNum q1 = isNum q2) := by
  cases a1 <;> cases a2 <;> simp only [sameNode] at h <;> try (exact absurd h Bool.false_ne_true)
  case expr.expr e1 e2 =>
    obtain ⟨l1, o1, r1, p1, d1⟩ := e1
    obtain ⟨l2, o2, r2, p2, d2⟩ := e2
    obtain ⟨_, hl, _, _⟩ := sameShape_parts _ _ _ _ _ _ _ _ _ _ h
    simp only [isOpenEnd] at ho
    simp only [endText, endParams, ← ho, Expr.left]
    by_cases hs : starLeft (.mk l1 o1 r1 p1 d1) = true
    · simp [hs]
    · simp only [hs, Bool.false_eq_true, if_false]
      cases l1 <;> cases l2 <;> simp only [sameNode] at hl <;> try (exact absurd hl Bool.false_ne_true)
      all_goals first
        | exact ⟨rfl, .inl ⟨rfl, rfl⟩⟩
        | exact ⟨rfl, .inr ⟨_, _, rfl, rfl, samePrim_isNum _ _ hl⟩⟩
  all_goals exact ⟨rfl, .inl ⟨rfl, rfl⟩⟩

theorem sameNode_rangeKind (n1 n2 : Node) (h : sameNode n1 n2 = true) : rangeKind n1 = rangeKind n2 := by
  cases n1 <;> cases n2 <;> simp only [sameNode] at h <;> try (exact absurd h Bool.false_ne_true)
  case bound.bound a1 c1 i1 a2 c2 i2 =>
    simp only [Bool.and_eq_true, beq_iff_eq] at h
    obtain ⟨⟨⟨⟨_, hoa⟩, hoc⟩, ha⟩, hc⟩ := h
    simp only [rangeKind]
    rcases (end_same a1 a2 hoa ha).2 with ⟨e1, e2⟩ | ⟨q1, q2, e1, e2, hq⟩
    · rcases (end_same c1 c2 hoc hc).2 with ⟨e3, e4⟩ | ⟨q3, q4, e3, e4, hq'⟩
      · rw [e1, e2, e3, e4]
      · rw [e1, e2, e3, e4]; exact hq'
    · rw [e1, e2]; exact hq
  all_goals rfl

mutual
theorem sameNode_F : ∀ n1 n2 : Node, sameNode n1 n2 = true → sameNodeF n1 n2 = true
  | .nil, .nil, _ => rfl
  | .prim p, .prim q, h => by
    simp only [sameNode] at h
    simpa [sameNodeF] using samePrim_F p q h
  | .expr a, .expr c, h => by
    simp only [sameNode] at h
    simpa [sameNodeF] using sameShape_F a c h
  | .list es1, .list es2, h => by
    simp only [sameNode] at h
    simpa [sameNodeF] using sameList_F es1 es2 h
  | .bound a1 c1 i1, .bound a2 c2 i2, h => by
    simp only [sameNode, Bool.and_eq_true, beq_iff_eq] at h
    obtain ⟨⟨⟨⟨hi, hoa⟩, hoc⟩, ha⟩, hc⟩ := h
    simp only [sameNodeF, Bool.and_eq_true, beq_iff_eq]
    exact ⟨⟨hi, (end_same a1 a2 hoa ha).1⟩, (end_same c1 c2 hoc hc).1⟩
  | .nil, .prim _, h | .nil, .expr _, h | .nil, .list _, h | .nil, .bound _ _ _, h => by simp [sameNode] at h
  | .prim _, .nil, h | .prim _, .expr _, h | .prim _, .list _, h | .prim _, .bound _ _ _, h => by simp [sameNode] at h
  | .expr _, .nil, h | .expr _, .prim _, h | .expr _, .list _, h | .expr _, .bound _ _ _, h => by simp [sameNode] at h
  | .list _, .nil, h | .list _, .prim _, h | .list _, .expr _, h | .list _, .bound _ _ _, h => by simp [sameNode] at h
  | .bound _ _ _, .nil, h | .bound _ _ _, .prim _, h | .bound _ _ _, .expr _, h | .bound _ _ _, .list _, h => by
    simp [sameNode] at h
/-- the literal reading implies the weak relation -/
theorem sameShape_F : ∀ e1 e2 : Expr, sameShape e1 e2 = true → sameFrame e1 e2 = true
  | .mk l1 o1 r1 p1 d1, .mk l2 o2 r2 p2 d2, h => by
    obtain ⟨ho, hl, hr, hk⟩ := sameShape_parts _ _ _ _ _ _ _ _ _ _ h
    simp only [sameFrame, Bool.and_eq_true, beq_iff_eq]
    refine ⟨⟨⟨⟨ho, sameNode_F l1 l2 hl⟩, sameNode_F r1 r2 hr⟩, ?_⟩, ?_⟩
    · by_cases hlike : o1 = .like
      · simp [hlike, hk hlike]
      · simp [hlike]
    · by_cases hrange : o1 = .range
      · simp [hrange, sameNode_rangeKind r1 r2 hr]
      · simp [hrange]
end

/-! ## the theorems -/

/-- value independence, weak relation: the parameterized SQL text (and the number of parameters) depends on the
    frame of the tree only -/
theorem param_sql_value_independent_frame (e1 e2 : Expr) (hw1 : wfTree e1 = true) (hv1 : validateExpr e1 = true)
    (hw2 : wfTree e2 = true) (hv2 : validateExpr e2 = true) (h : sameFrame e1 e2 = true)
    (sql1 : Bytes) (ps1 : List Prim) (sql2 : Bytes) (ps2 : List Prim)
    (h1 : renderParam pgFns e1 = .ok (sql1, ps1)) (h2 : renderParam pgFns e2 = .ok (sql2, ps2)) :
    sql1 = sql2 ∧ ps1.length = ps2.length :=
  (expr_rel e1 e2 hw1 hv1 hw2 hv2 h).of_ok _ _ _ _ h1 h2

/-- success transfer, weak relation: `RenderParam` succeeds on the one tree iff it succeeds on the other -/
theorem param_success_transfer_frame (e1 e2 : Expr) (hw1 : wfTree e1 = true) (hv1 : validateExpr e1 = true)
    (hw2 : wfTree e2 = true) (hv2 : validateExpr e2 = true) (h : sameFrame e1 e2 = true) :
    (∃ sql ps, renderParam pgFns e1 = .ok (sql, ps)) ↔ (∃ sql ps, renderParam pgFns e2 = .ok (sql, ps)) := by
  have := (expr_rel e1 e2 hw1 hv1 hw2 hv2 h).ok_iff
  constructor
  · rintro ⟨sql, ps, h1⟩
    obtain ⟨⟨sql', ps'⟩, h2⟩ := this.1 ⟨_, h1⟩
    exact ⟨sql', ps', h2⟩
  · rintro ⟨sql, ps, h1⟩
    obtain ⟨⟨sql', ps'⟩, h2⟩ := this.2 ⟨_, h1⟩
    exact ⟨sql', ps', h2⟩

/-- both at once: a success on the one tree is a success with the SAME text on the other -/
theorem param_sql_transfer_frame (e1 e2 : Expr) (hw1 : wfTree e1 = true) (hv1 : validateExpr e1 = true)
    (hw2 : wfTree e2 = true) (hv2 : validateExpr e2 = true) (h : sameFrame e1 e2 = true)
    (sql : Bytes) (ps1 : List Prim) (h1 : renderParam pgFns e1 = .ok (sql, ps1)) :
    ∃ ps2, renderParam pgFns e2 = .ok (sql, ps2) ∧ ps1.length = ps2.length := by
  obtain ⟨sql2, ps2, h2⟩ := (param_success_transfer_frame e1 e2 hw1 hv1 hw2 hv2 h).1 ⟨sql, ps1, h1⟩
  obtain ⟨rfl, hlen⟩ := param_sql_value_independent_frame e1 e2 hw1 hv1 hw2 hv2 h _ _ _ _ h1 h2
  exact ⟨ps2, h2, hlen⟩

/-- the failures agree too: an error on the one tree is an error on the other (no value can make the parameter
    mode fail or succeed) -/
theorem param_err_transfer_frame (e1 e2 : Expr) (hw1 : wfTree e1 = true) (hv1 : validateExpr e1 = true)
    (hw2 : wfTree e2 = true) (hv2 : validateExpr e2 = true) (h : sameFrame e1 e2 = true) :
    renderParam pgFns e1 = .err ↔ renderParam pgFns e2 = .err := by
  have := expr_rel e1 e2 hw1 hv1 hw2 hv2 h
  cases h1 : renderParam pgFns e1 <;> cases h2 : renderParam pgFns e2 <;> rw [h1, h2] at this <;>
    simp [RelOut] at this ⊢

/-- C04, VALUE INDEPENDENCE: two well-formed validated trees that differ only in values of the same kind
    (`sameShape`) have the identical parameterized SQL text and as many parameters -/
theorem param_sql_value_independent (e1 e2 : Expr) (hw1 : wfTree e1 = true) (hv1 : validateExpr e1 = true)
    (hw2 : wfTree e2 = true) (hv2 : validateExpr e2 = true) (h : sameShape e1 e2 = true)
    (sql1 : Bytes) (ps1 : List Prim) (sql2 : Bytes) (ps2 : List Prim)
    (h1 : renderParam pgFns e1 = .ok (sql1, ps1)) (h2 : renderParam pgFns e2 = .ok (sql2, ps2)) :
    sql1 = sql2 ∧ ps1.length = ps2.length :=
  param_sql_value_independent_frame e1 e2 hw1 hv1 hw2 hv2 (sameShape_F e1 e2 h) sql1 ps1 sql2 ps2 h1 h2

/-- C04, success transfer: … and `RenderParam` succeeds on the one iff it succeeds on the other -/
theorem param_success_transfer (e1 e2 : Expr) (hw1 : wfTree e1 = true) (hv1 : validateExpr e1 = true)
    (hw2 : wfTree e2 = true) (hv2 : validateExpr e2 = true) (h : sameShape e1 e2 = true) :
    (∃ sql ps, renderParam pgFns e1 = .ok (sql, ps)) ↔ (∃ sql ps, renderParam pgFns e2 = .ok (sql, ps)) :=
  param_success_transfer_frame e1 e2 hw1 hv1 hw2 hv2 (sameShape_F e1 e2 h)

theorem param_sql_transfer (e1 e2 : Expr) (hw1 : wfTree e1 = true) (hv1 : validateExpr e1 = true)
    (hw2 : wfTree e2 = true) (hv2 : validateExpr e2 = true) (h : sameShape e1 e2 = true)
    (sql : Bytes) (ps1 : List Prim) (h1 : renderParam pgFns e1 = .ok (sql, ps1)) :
    ∃ ps2, renderParam pgFns e2 = .ok (sql, ps2) ∧ ps1.length = ps2.length :=
  param_sql_transfer_frame e1 e2 hw1 hv1 hw2 hv2 (sameShape_F e1 e2 h) sql ps1 h1

/-! ### parse results -/

/-- two accepted queries whose trees have the same shape give the same parameterized SQL -/
theorem parse_param_sql_value_independent (env1 env2 : Env) (s1 df1 s2 df2 : Bytes) (e1 e2 : Expr)
    (hp1 : parseQuery env1 s1 df1 = .ok e1) (hp2 : parseQuery env2 s2 df2 = .ok e2) (h : sameShape e1 e2 = true)
    (sql1 : Bytes) (ps1 : List Prim) (sql2 : Bytes) (ps2 : List Prim)
    (h1 : renderParam pgFns e1 = .ok (sql1, ps1)) (h2 : renderParam pgFns e2 = .ok (sql2, ps2)) :
    sql1 = sql2 ∧ ps1.length = ps2.length := by
  obtain ⟨hw1, hv1⟩ := parse_wf env1 s1 df1 e1 hp1
  obtain ⟨hw2, hv2⟩ := parse_wf env2 s2 df2 e2 hp2
  exact param_sql_value_independent e1 e2 hw1 hv1 hw2 hv2 h sql1 ps1 sql2 ps2 h1 h2

/-- … and the one renders in parameter mode iff the other does, then with the same text -/
theorem parse_param_sql_transfer (env1 env2 : Env) (s1 df1 s2 df2 : Bytes) (e1 e2 : Expr)
    (hp1 : parseQuery env1 s1 df1 = .ok e1) (hp2 : parseQuery env2 s2 df2 = .ok e2) (h : sameShape e1 e2 = true)
    (sql : Bytes) (ps1 : List Prim) (h1 : renderParam pgFns e1 = .ok (sql, ps1)) :
    ∃ ps2, renderParam pgFns e2 = .ok (sql, ps2) ∧ ps1.length = ps2.length := by
  obtain ⟨hw1, hv1⟩ := parse_wf env1 s1 df1 e1 hp1
  obtain ⟨hw2, hv2⟩ := parse_wf env2 s2 df2 e2 hp2
  exact param_sql_transfer e1 e2 hw1 hv1 hw2 hv2 h sql ps1 h1

theorem parse_param_success_transfer (env1 env2 : Env) (s1 df1 s2 df2 : Bytes) (e1 e2 : Expr)
    (hp1 : parseQuery env1 s1 df1 = .ok e1) (hp2 : parseQuery env2 s2 df2 = .ok e2) (h : sameShape e1 e2 = true) :
    (∃ sql ps, renderParam pgFns e1 = .ok (sql, ps)) ↔ (∃ sql ps, renderParam pgFns e2 = .ok (sql, ps)) := by
  obtain ⟨hw1, hv1⟩ := parse_wf env1 s1 df1 e1 hp1
  obtain ⟨hw2, hv2⟩ := parse_wf env2 s2 df2 e2 hp2
  exact param_success_transfer e1 e2 hw1 hv1 hw2 hv2 h

/-- the same with the weak relation -/
theorem parse_param_sql_transfer_frame (env1 env2 : Env) (s1 df1 s2 df2 : Bytes) (e1 e2 : Expr)
    (hp1 : parseQuery env1 s1 df1 = .ok e1) (hp2 : parseQuery env2 s2 df2 = .ok e2) (h : sameFrame e1 e2 = true)
    (sql : Bytes) (ps1 : List Prim) (h1 : renderParam pgFns e1 = .ok (sql, ps1)) :
    ∃ ps2, renderParam pgFns e2 = .ok (sql, ps2) ∧ ps1.length = ps2.length := by
  obtain ⟨hw1, hv1⟩ := parse_wf env1 s1 df1 e1 hp1
  obtain ⟨hw2, hv2⟩ := parse_wf env2 s2 df2 e2 hp2
  exact param_sql_transfer_frame e1 e2 hw1 hv1 hw2 hv2 h sql ps1 h1

/-! ## non-vacuity, the known defects, and the necessity of every clause -/

def fltLeaf (f : F64) : Expr := lit (.prim (.flt f))
def rng (f : Node) (a c : Expr) (incl : Bool) : Expr := node f .range (.bound (.expr a) (.expr c) incl)

/-- `a:q?z* AND c:/[a-z]+/ AND d:[1.0 TO *] AND NOT e:(7 OR 8 OR "w")`: `ParamAgree.exBig` with every value replaced
    by another one of the same kind (and an int by a float) -/
def exBig2 : Expr :=
  node (.expr (node (.expr (node
      (.expr (node (col "a") .like (.expr (wildLeaf "q?z*")))) .and
      (.expr (node (col "c") .like (.expr (regexpLeaf "/[a-z]+/")))))) .and
      (.expr (rng (col "d") (fltLeaf F64.one) (wildLeaf "*") true)))) .and
    (.expr (node (.expr (node (col "e") .in_
      (.expr (mkList (.cons (intLeaf 7) (.cons (intLeaf 8) (.cons (strLeaf "w") .nil))))))) .not .nil))

theorem exBig2_hyps : wfTree exBig = true ∧ validateExpr exBig = true ∧ wfTree exBig2 = true ∧
    validateExpr exBig2 = true ∧ sameShape exBig exBig2 = true ∧ sameFrame exBig exBig2 = true := by decide +kernel

/-- the theorem applied to a non-trivial pair: the text of `exBig2` without rendering it -/
example : ∃ ps2, renderParam pgFns exBig2 =
    .ok (b "(((\"a\" SIMILAR TO ?) AND (\"c\" ~ ?)) AND (\"d\" >= ?)) AND (NOT(\"e\" IN (?, ?, ?)))", ps2) ∧
    6 = ps2.length :=
  param_sql_transfer exBig exBig2 exBig2_hyps.1 exBig2_hyps.2.1 exBig2_hyps.2.2.1 exBig2_hyps.2.2.2.1
    exBig2_hyps.2.2.2.2.1 _ _ exBig_params

/-- int versus float is NOT part of the kind: `a:[1 TO 2]` and `a:(1.0 TO 2]`-like pairs are related … -/
example : sameShape (rng (col "a") (intLeaf 1) (intLeaf 2) true) (rng (col "a") (fltLeaf F64.one) (intLeaf 7) true) = true ∧
    renderParam pgFns (rng (col "a") (fltLeaf F64.one) (intLeaf 7) true) =
      .ok (b "\"a\" >= ? AND \"a\" <= ?", [.flt F64.one, .int 7]) := by decide +kernel

/-- the weak relation relates much more than the literal reading: outside the first end of a range, the pattern of
    a Like node and raw (unwrapped) operands, the kind of a value is invisible.  `a:1` / `a:"x"`;
    `a:[1 TO 2]` / `a:[1 TO "y"]` (K-range-mixed-kind: `params[0]` alone decides); `a:[fo* TO x]` / `a:[foo TO x]` -/
example :
    sameFrame (node (col "a") .equals (.expr (intLeaf 1))) (node (col "a") .equals (.expr (strLeaf "x"))) = true ∧
    sameShape (node (col "a") .equals (.expr (intLeaf 1))) (node (col "a") .equals (.expr (strLeaf "x"))) = false ∧
    sameFrame (rng (col "a") (intLeaf 1) (intLeaf 2) true) (rng (col "a") (intLeaf 1) (strLeaf "y") true) = true ∧
    renderParam pgFns (rng (col "a") (intLeaf 1) (strLeaf "y") true) =
      .ok (b "\"a\" >= ? AND \"a\" <= ?", [.int 1, .str (b "y")]) ∧
    sameFrame (rng (col "a") (strLeaf "x") (strLeaf "y") true) (rng (col "a") (strLeaf "x") (intLeaf 2) true) = true ∧
    renderParam pgFns (rng (col "a") (strLeaf "x") (intLeaf 2) true) =
      .ok (b "\"a\" BETWEEN ? AND ?", [.str (b "x"), .int 2]) ∧
    sameFrame (rng (col "a") (wildLeaf "fo*") (strLeaf "x") true) (rng (col "a") (strLeaf "foo") (strLeaf "x") true) = true := by
  decide +kernel

/-- K-numfield-range: a numeric-looking FIELD (`5:[1 TO 2]`) is a raw value in field position and is itself sent as a
    parameter.  Both relations treat it as a value; the theorem holds there: the field's kind is invisible (weak
    relation), the text is `? >= ? AND ? <= ?` whatever the three values are -/
example :
    sameShape exNumericField (rng (.expr (fltLeaf F64.one)) (intLeaf 3) (fltLeaf F64.one) true) = true ∧
    sameFrame exNumericField (rng (.expr (strLeaf "x")) (intLeaf 3) (fltLeaf F64.one) true) = true ∧
    wfTree (rng (.expr (strLeaf "x")) (intLeaf 3) (fltLeaf F64.one) true) = true ∧
    validateExpr (rng (.expr (strLeaf "x")) (intLeaf 3) (fltLeaf F64.one) true) = true ∧
    renderParam pgFns (rng (.expr (strLeaf "x")) (intLeaf 3) (fltLeaf F64.one) true) =
      .ok (b "? >= ? AND ? <= ?", [.str (b "x"), .int 3, .flt F64.one]) := by decide +kernel

/-- … but a value in field position and a Column in field position are different frames -/
theorem need_col_vs_value :
    wfTree exNumericField = true ∧ validateExpr exNumericField = true ∧
    wfTree (rng (col "a") (intLeaf 1) (intLeaf 2) true) = true ∧ validateExpr (rng (col "a") (intLeaf 1) (intLeaf 2) true) = true ∧
    sameFrame exNumericField (rng (col "a") (intLeaf 1) (intLeaf 2) true) = false ∧
    renderParam pgFns exNumericField = .ok (b "? >= ? AND ? <= ?", [.int 5, .int 1, .int 2]) ∧
    renderParam pgFns (rng (col "a") (intLeaf 1) (intLeaf 2) true) =
      .ok (b "\"a\" >= ? AND \"a\" <= ?", [.int 1, .int 2]) := by decide +kernel

/-! ### every clause of the relations is necessary

  Each witness is a pair of well-formed validated trees that agree in every clause of `sameFrame` at the top node
  except the named one, and whose parameterized texts differ. -/

/-- the `/…/` class of a Like pattern (`patKind`): the pattern VALUE decides between `~` and `SIMILAR TO` -/
theorem need_patKind :
    let e1 := node (col "a") .like (.expr (wildLeaf "/x*/"))
    let e2 := node (col "a") .like (.expr (wildLeaf "x*"))
    wfTree e1 = true ∧ validateExpr e1 = true ∧ wfTree e2 = true ∧ validateExpr e2 = true ∧
    sameNodeF e1.left e2.left = true ∧ sameNodeF e1.right e2.right = true ∧ patKind e1.right ≠ patKind e2.right ∧
    renderParam pgFns e1 = .ok (b "\"a\" ~ ?", [.str (b "/x*/")]) ∧
    renderParam pgFns e2 = .ok (b "\"a\" SIMILAR TO ?", [.str (b "x%")]) := by decide +kernel

/-- the numeric class of the first value of a range (`rangeKind`): `a:[1 TO 2]` versus `a:["x" TO "y"]` -/
theorem need_rangeKind :
    let e1 := rng (col "a") (intLeaf 1) (intLeaf 2) true
    let e2 := rng (col "a") (strLeaf "x") (strLeaf "y") true
    wfTree e1 = true ∧ validateExpr e1 = true ∧ wfTree e2 = true ∧ validateExpr e2 = true ∧
    sameNodeF e1.left e2.left = true ∧ sameNodeF e1.right e2.right = true ∧ rangeKind e1.right ≠ rangeKind e2.right ∧
    renderParam pgFns e1 = .ok (b "\"a\" >= ? AND \"a\" <= ?", [.int 1, .int 2]) ∧
    renderParam pgFns e2 = .ok (b "\"a\" BETWEEN ? AND ?", [.str (b "x"), .str (b "y")]) := by decide +kernel

/-- FINDING (K-range-quoted-star seen from this side): the open ends of a range (`isOpenEnd` / `endText`).
    `a:["*" TO 5]` and `a:["b" TO 5]` differ ONLY in a string value, both ends are values of the same kinds, and the
    parameterized texts differ: the string VALUE `*` is taken for the open end.  So "differ only in values of the same
    kind" is false as it stands; the openness test `e.Left == "*"` has to be part of the shape. -/
theorem need_openEnd :
    let e1 := rng (col "a") (strLeaf "*") (intLeaf 5) true
    let e2 := rng (col "a") (strLeaf "b") (intLeaf 5) true
    wfTree e1 = true ∧ validateExpr e1 = true ∧ wfTree e2 = true ∧ validateExpr e2 = true ∧
    sameNodeF e1.left e2.left = true ∧ sameFrame (strLeaf "*") (strLeaf "b") = true ∧
    sameShape (strLeaf "*") (strLeaf "b") = true ∧ sameShape (intLeaf 5) (intLeaf 5) = true ∧
    sameNodeF e1.right e2.right = false ∧ sameShape e1 e2 = false ∧
    renderParam pgFns e1 = .ok (b "\"a\" <= ?", [.int 5]) ∧
    renderParam pgFns e2 = .ok (b "\"a\" BETWEEN ? AND ?", [.str (b "b"), .int 5]) := by decide +kernel

/-- inclusivity -/
theorem need_incl :
    renderParam pgFns (rng (col "a") (intLeaf 1) (intLeaf 2) true) = .ok (b "\"a\" >= ? AND \"a\" <= ?", [.int 1, .int 2]) ∧
    renderParam pgFns (rng (col "a") (intLeaf 1) (intLeaf 2) false) = .ok (b "\"a\" > ? AND \"a\" < ?", [.int 1, .int 2]) := by
  decide +kernel

/-- Column names -/
theorem need_colName :
    let e1 := node (col "a") .equals (.expr (intLeaf 1))
    let e2 := node (col "b") .equals (.expr (intLeaf 1))
    wfTree e1 = true ∧ validateExpr e1 = true ∧ wfTree e2 = true ∧ validateExpr e2 = true ∧ sameFrame e1 e2 = false ∧
    renderParam pgFns e1 = .ok (b "\"a\" = ?", [.int 1]) ∧ renderParam pgFns e2 = .ok (b "\"b\" = ?", [.int 1]) := by
  decide +kernel

/-- list lengths -/
theorem need_listLength :
    let e1 := node (col "e") .in_ (.expr (mkList (.cons (intLeaf 1) (.cons (intLeaf 2) .nil))))
    let e2 := node (col "e") .in_ (.expr (mkList (.cons (intLeaf 1) (.cons (intLeaf 2) (.cons (intLeaf 3) .nil)))))
    wfTree e1 = true ∧ validateExpr e1 = true ∧ wfTree e2 = true ∧ validateExpr e2 = true ∧ sameFrame e1 e2 = false ∧
    renderParam pgFns e1 = .ok (b "\"e\" IN (?, ?)", [.int 1, .int 2]) ∧
    renderParam pgFns e2 = .ok (b "\"e\" IN (?, ?, ?)", [.int 1, .int 2, .int 3]) := by decide +kernel

/-- the `isSimple` class of a raw (unwrapped) operand — only trees built by hand or decoded from JSON have such
    operands: a bool gets parentheses, a string does not -/
theorem need_simpleClass :
    let e1 := node (.prim (.bool true)) .and (.prim (.int 1))
    let e2 := node (.prim (.str (b "x"))) .and (.prim (.int 1))
    wfTree e1 = true ∧ validateExpr e1 = true ∧ wfTree e2 = true ∧ validateExpr e2 = true ∧
    sameNodeF e1.left e2.left = false ∧ sameNodeF e1.right e2.right = true ∧
    renderParam pgFns e1 = .ok (b "(?) AND ?", [.bool true, .int 1]) ∧
    renderParam pgFns e2 = .ok (b "? AND ?", [.str (b "x"), .int 1]) := by decide +kernel

/-- a leaf over nil in a list / at an end of a boundary that Validate does not reach (hand-built trees only) -/
theorem need_nilLeaf :
    let e1 := node (.list (.cons (lit .nil) .nil)) .and (.prim (.int 1))
    let e2 := node (.list (.cons (intLeaf 1) .nil)) .and (.prim (.int 1))
    let e3 := node (.bound (.expr (lit .nil)) (.expr (intLeaf 1)) true) .and (.prim (.int 1))
    let e4 := node (.bound (.expr (intLeaf 2)) (.expr (intLeaf 1)) true) .and (.prim (.int 1))
    wfTree e1 = true ∧ validateExpr e1 = true ∧ wfTree e2 = true ∧ validateExpr e2 = true ∧
    wfTree e3 = true ∧ validateExpr e3 = true ∧ wfTree e4 = true ∧ validateExpr e4 = true ∧
    sameFrame e1 e2 = false ∧ sameFrame e3 e4 = false ∧
    renderParam pgFns e1 = .ok (b "() AND ?", [.int 1]) ∧
    renderParam pgFns e2 = .ok (b "(?) AND ?", [.int 1, .int 1]) ∧
    renderParam pgFns e3 = .ok (b "([, ?]) AND ?", [.int 1, .int 1]) ∧
    renderParam pgFns e4 = .ok (b "([?, ?]) AND ?", [.int 2, .int 1, .int 1]) := by decide +kernel

/-! ### success: values never matter

  In parameter mode `literal` (the only render function that can fail besides the table lookup) is applied to `?`, to
  the empty text or to a quoted COLUMN name, never to a value: a value with a NUL byte or invalid UTF-8 fails the
  inline renderer and passes the parameterized one; a Column name with a NUL byte fails both, whatever the values. -/
example :
    render pgFns (node (col "a") .equals (.expr (strLeaf "\x00"))) = .err ∧
    renderParam pgFns (node (col "a") .equals (.expr (strLeaf "\x00"))) = .ok (b "\"a\" = ?", [.str [0]]) ∧
    renderParam pgFns (node (col "a\x00") .equals (.expr (strLeaf "x"))) = .err ∧
    renderParam pgFns (node (col "a\x00") .equals (.expr (intLeaf 3))) = .err ∧
    sameFrame (node (col "a\x00") .equals (.expr (strLeaf "x"))) (node (col "a\x00") .equals (.expr (intLeaf 3))) = true := by
  decide +kernel

/-- `sameFrame` is sufficient, not necessary: different operators can print alike (`NOT x` / `-x`) -/
theorem not_necessary :
    let x : Node := .expr (node (col "a") .equals (.expr (intLeaf 1)))
    sameFrame (node x .not .nil) (node x .mustNot .nil) = false ∧
    renderParam pgFns (node x .not .nil) = renderParam pgFns (node x .mustNot .nil) := by decide +kernel

end GoLucene.ParamIndep

#print axioms GoLucene.ParamIndep.expr_rel
#print axioms GoLucene.ParamIndep.sameShape_F
#print axioms GoLucene.ParamIndep.param_sql_value_independent_frame
#print axioms GoLucene.ParamIndep.param_success_transfer_frame
#print axioms GoLucene.ParamIndep.param_sql_transfer_frame
#print axioms GoLucene.ParamIndep.param_err_transfer_frame
#print axioms GoLucene.ParamIndep.param_sql_value_independent
#print axioms GoLucene.ParamIndep.param_success_transfer
#print axioms GoLucene.ParamIndep.param_sql_transfer
#print axioms GoLucene.ParamIndep.parse_param_sql_value_independent
#print axioms GoLucene.ParamIndep.parse_param_sql_transfer
#print axioms GoLucene.ParamIndep.parse_param_success_transfer
#print axioms GoLucene.ParamIndep.parse_param_sql_transfer_frame
#print axioms GoLucene.ParamIndep.need_openEnd
#print axioms GoLucene.ParamIndep.need_patKind
#print axioms GoLucene.ParamIndep.need_rangeKind
