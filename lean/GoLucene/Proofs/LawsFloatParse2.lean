import GoLucene.Proofs.LawsFloatParse
/-
  Laws, float parsing, part 2: what `parseFloat` returns on the number texts the encoder writes
  (`fmtInt`, `fmtFShortest`, `jsonCleanExp ∘ fmtEShortest`).
-/
set_option linter.unusedSimpArgs false
set_option linter.unusedVariables false
namespace GoLucene
namespace Laws
open Num JsonRoundTrip

/-! ## `parseFloat`, restructured -/

def hexRestOf (s1 : Bytes) : Option Bytes :=
  match s1 with
  | 48 :: x :: y :: r => if lower x = 120 then some (y :: r) else none
  | _ => none

def negOf (s : Bytes) : Bool :=
  match s with
  | c :: _ => c = 45
  | [] => false

def s1Of (s : Bytes) : Bytes :=
  match s with
  | c :: rest => if c = 43 ∨ c = 45 then rest else s
  | [] => s

/-- `parseFloat` after sign and hex prefix have been dealt with -/
def pfMain (neg : Bool) (s : Bytes) (hex : Bool) (body : Bytes) : Option F64 :=
  match scanMant hex {} body with
  | (st, rest) =>
    if !st.sawdigits then none else
    let dp0 : Int := if st.sawdot then st.dp else (st.nd : Int)
    let dp1 : Int := if hex then dp0 * 4 else dp0
    match scanExp hex st.us rest with
    | none => none
    | some (e, us) =>
      if us && !underscoreOK s then none else
      let dp := dp1 + e
      if st.mant = 0 then some (F64.ofMag neg 0) else
      let bits :=
        if hex then hexBits st.mant (dp - 4 * (st.nd : Int))
        else decimalBits st.mant st.nd (if st.sawdot then st.ndDot else st.nd) dp
      if bits ≥ infBits then none else some (F64.ofMag neg bits)

theorem parseFloat_eq (s : Bytes) : parseFloat s =
    match special s with
    | some f => some f
    | none => pfMain (negOf s) s (hexRestOf (s1Of s)).isSome
        (match hexRestOf (s1Of s) with
          | some r => r
          | none => s1Of s) := rfl

/-! ## `special` on a text that starts with a digit -/

theorem lowerAZ_dig : ∀ c : UInt8, Num.isDig c = true → (lowerAZ c == 105) = false ∧ (lowerAZ c == 110) = false := by
  apply u8_all
  decide +kernel

theorem special_dig (d : UInt8) (t : Bytes) (hd : dig d) : special (d :: t) = none := by
  obtain ⟨h1, h2, _⟩ := dig_ne hd
  obtain ⟨l1, l2⟩ := lowerAZ_dig d (dig_isDig.mpr hd)
  simp only [special, if_neg h2, if_neg h1, List.map_cons, List.cons_beq_cons, l1, l2, Bool.false_and, Bool.or_false,
    Bool.false_eq_true, if_false]

theorem special_neg_dig (d : UInt8) (t : Bytes) (hd : dig d) : special (45 :: d :: t) = none := by
  obtain ⟨l1, l2⟩ := lowerAZ_dig d (dig_isDig.mpr hd)
  have h1 : ¬ ((45 : UInt8) = 43) := by decide
  simp only [special, if_neg h1, if_true, List.map_cons, List.cons_beq_cons, l1, l2, Bool.false_and, Bool.or_false,
    Bool.false_eq_true, if_false]

theorem special_signed (neg : Bool) (d : UInt8) (t : Bytes) (hd : dig d) : special (signed neg (d :: t)) = none := by
  cases neg
  · exact special_dig d t hd
  · exact special_neg_dig d t hd

theorem negOf_signed (neg : Bool) (d : UInt8) (t : Bytes) (hd : dig d) : negOf (signed neg (d :: t)) = neg := by
  obtain ⟨h1, h2, _⟩ := dig_ne hd
  cases neg
  · simp only [signed, negOf, Bool.false_eq_true, if_false, h1, decide_false]
  · rfl

theorem s1Of_signed (neg : Bool) (d : UInt8) (t : Bytes) (hd : dig d) : s1Of (signed neg (d :: t)) = d :: t := by
  obtain ⟨h1, h2, _⟩ := dig_ne hd
  cases neg
  · simp only [signed, s1Of, Bool.false_eq_true, if_false, h1, h2, or_self]
  · simp only [signed, s1Of, if_true, or_true]

theorem hexRestOf_nz (d : UInt8) (t : Bytes) (h : d ≠ 48) : hexRestOf (d :: t) = none := by
  unfold hexRestOf
  split
  · rename_i heq
    simp only [List.cons.injEq] at heq
    exact absurd heq.1 h
  · rfl

theorem hexRestOf_dot (t : Bytes) : hexRestOf (48 :: 46 :: t) = none := by
  cases t with
  | nil => rfl
  | cons y r =>
    have : ¬ (lower 46 = 120) := by decide
    simp only [hexRestOf, if_neg this]

theorem hexRestOf_zero : hexRestOf [48] = none := rfl

/-- the decimal path -/
theorem parseFloat_dec (neg : Bool) (d : UInt8) (t : Bytes) (st : Scan) (rest : Bytes) (e : Int)
    (hd : dig d) (hhex : hexRestOf (d :: t) = none)
    (hscan : scanMant false {} (d :: t) = (st, rest))
    (hdig : st.sawdigits = true) (hus : st.us = false)
    (hexp : scanExp false false rest = some (e, false)) :
    parseFloat (signed neg (d :: t)) =
      if st.mant = 0 then some (F64.ofMag neg 0) else
      if decimalBits st.mant st.nd (if st.sawdot then st.ndDot else st.nd) ((if st.sawdot then st.dp else (st.nd : Int)) + e)
          ≥ infBits then none
      else some (F64.ofMag neg
        (decimalBits st.mant st.nd (if st.sawdot then st.ndDot else st.nd) ((if st.sawdot then st.dp else (st.nd : Int)) + e))) := by
  rw [parseFloat_eq, special_signed neg d t hd, negOf_signed neg d t hd, s1Of_signed neg d t hd, hhex]
  simp only [Option.isSome, pfMain, hscan, hdig, hus, hexp, Bool.not_true, Bool.false_eq_true, if_false, Bool.false_and]

/-! ## the mantissa scanner on digits, zeros, '.', 'e' -/

theorem scan_digit (m nd : Nat) (dp : Int) (nD : Nat) (sd sg us : Bool) (c : UInt8) (rest : Bytes) (hc : dig c)
    (h : ¬ (c = 48 ∧ nd = 0)) :
    scanMant false ⟨m, nd, dp, nD, sd, sg, us⟩ (c :: rest) =
      scanMant false ⟨m * 10 + (c.toNat - 48), nd + 1, dp, nD, sd, true, us⟩ rest := by
  obtain ⟨_, _, _, h1, h2⟩ := dig_ne hc
  have h3 := dig_isDig.mpr hc
  rw [scanMant, if_neg h1, if_neg h2]
  simp only [h3, if_true, if_neg h, Bool.false_eq_true, if_false]

theorem scan_zero0 (m : Nat) (dp : Int) (nD : Nat) (sd sg us : Bool) (rest : Bytes) :
    scanMant false ⟨m, 0, dp, nD, sd, sg, us⟩ (48 :: rest) =
      scanMant false ⟨m, 0, dp - 1, nD, sd, true, us⟩ rest := by
  have h1 : ¬ ((48 : UInt8) = 95) := by decide
  have h2 : ¬ ((48 : UInt8) = 46) := by decide
  have h3 : Num.isDig 48 = true := by decide
  rw [scanMant, if_neg h1, if_neg h2]
  simp only [h3, if_true, and_self]

theorem scan_dot (m nd : Nat) (dp : Int) (nD : Nat) (sg us : Bool) (rest : Bytes) :
    scanMant false ⟨m, nd, dp, nD, false, sg, us⟩ (46 :: rest) =
      scanMant false ⟨m, nd, (nd : Int), nd, true, sg, us⟩ rest := by
  have h1 : ¬ ((46 : UInt8) = 95) := by decide
  rw [scanMant, if_neg h1]
  simp only [if_true, Bool.false_eq_true, if_false]

theorem scan_e (st : Scan) (rest : Bytes) : scanMant false st (101 :: rest) = (st, 101 :: rest) := by
  have h1 : ¬ ((101 : UInt8) = 95) := by decide
  have h2 : ¬ ((101 : UInt8) = 46) := by decide
  have h3 : Num.isDig 101 = false := by decide
  rw [scanMant, if_neg h1, if_neg h2]
  simp only [h3, Bool.false_eq_true, if_false, false_and]

theorem scan_nil (st : Scan) : scanMant false st [] = (st, []) := by rw [scanMant]

theorem scan_digits (ds : Bytes) (hds : ∀ c ∈ ds, dig c) : ∀ (m nd : Nat) (dp : Int) (nD : Nat) (sd sg us : Bool)
    (rest : Bytes), 0 < nd →
    scanMant false ⟨m, nd, dp, nD, sd, sg, us⟩ (ds ++ rest) =
      scanMant false ⟨dval m ds, nd + ds.length, dp, nD, sd, sg || !ds.isEmpty, us⟩ rest := by
  induction ds with
  | nil => intro m nd dp nD sd sg us rest _; simp [dval_nil]
  | cons c t ih =>
    intro m nd dp nD sd sg us rest hnd
    rw [List.cons_append, scan_digit _ _ _ _ _ _ _ _ _ (hds c (by simp)) (by omega),
      ih (fun x hx => hds x (by simp [hx])) _ _ _ _ _ _ _ _ (by omega), dval_cons, Nat.mul_comm m 10]
    have e1 : nd + 1 + t.length = nd + (c :: t).length := by simp only [List.length_cons]; omega
    have e2 : (true || !t.isEmpty) = (sg || !(c :: t).isEmpty) := by simp
    rw [e1, e2]

theorem scan_zeros0 (z : Nat) : ∀ (m : Nat) (dp : Int) (nD : Nat) (sd us : Bool) (rest : Bytes),
    scanMant false ⟨m, 0, dp, nD, sd, true, us⟩ (zeros z ++ rest) =
      scanMant false ⟨m, 0, dp - (z : Int), nD, sd, true, us⟩ rest := by
  induction z with
  | zero => intro m dp nD sd us rest; simp [zeros]
  | succ z ih =>
    intro m dp nD sd us rest
    have : zeros (z + 1) ++ rest = 48 :: (zeros z ++ rest) := by simp [zeros, List.replicate_succ]
    rw [this, scan_zero0, ih]
    have : dp - 1 - (z : Int) = dp - ((z + 1 : Nat) : Int) := by omega
    rw [this]

/-- a digit string without leading zero -/
def NZ (ds : Bytes) : Prop := ∃ d t, ds = d :: t ∧ 49 ≤ d.toNat ∧ d.toNat ≤ 57 ∧ ∀ c ∈ t, dig c

theorem NZ_natDigits (c : Nat) (hc : 0 < c) : NZ (natDigits c) := natDigits_head c hc

theorem scan_nz (ds : Bytes) (h : NZ ds) (dp : Int) (nD : Nat) (sd sg us : Bool) (rest : Bytes) :
    scanMant false ⟨0, 0, dp, nD, sd, sg, us⟩ (ds ++ rest) =
      scanMant false ⟨dval 0 ds, ds.length, dp, nD, sd, true, us⟩ rest := by
  obtain ⟨d, t, rfl, h1, h2, h3⟩ := h
  have hd : dig d := ⟨by omega, h2⟩
  have hne : ¬ (d = 48 ∧ 0 = 0) := by
    intro hh; rw [hh.1] at h1; revert h1; decide
  rw [List.cons_append, scan_digit _ _ _ _ _ _ _ _ _ hd hne, scan_digits t h3 _ _ _ _ _ _ _ _ (by omega), dval_cons]
  have e1 : 0 + 1 + t.length = (d :: t).length := by simp only [List.length_cons]; omega
  rw [e1, Nat.mul_comm 0 10, Bool.true_or]

/-- where the mantissa scanner stops -/
def Stop (rest : Bytes) : Prop := rest = [] ∨ ∃ r, rest = 101 :: r

theorem scan_stop (st : Scan) (rest : Bytes) (h : Stop rest) : scanMant false st rest = (st, rest) := by
  rcases h with rfl | ⟨r, rfl⟩
  · exact scan_nil st
  · exact scan_e st r

theorem default_scan : ({} : Scan) = ⟨0, 0, 0, 0, false, false, false⟩ := rfl

/-- digits without a '.' -/
theorem scan_whole (ds : Bytes) (h : NZ ds) (rest : Bytes) (hr : Stop rest) :
    scanMant false {} (ds ++ rest) = (⟨dval 0 ds, ds.length, 0, 0, false, true, false⟩, rest) := by
  rw [default_scan, scan_nz ds h, scan_stop _ _ hr]

theorem NZ_dig (ds : Bytes) (h : NZ ds) : ∀ c ∈ ds, dig c := by
  obtain ⟨d, t, rfl, h1, h2, h3⟩ := h
  intro c hc
  simp only [List.mem_cons] at hc
  rcases hc with rfl | hc
  · exact ⟨by omega, h2⟩
  · exact h3 c hc

theorem NZ_take (ds : Bytes) (h : NZ ds) (p : Nat) (hp : 0 < p) : NZ (ds.take p) := by
  obtain ⟨d, t, rfl, h1, h2, h3⟩ := h
  obtain ⟨q, rfl⟩ : ∃ q, p = q + 1 := ⟨p - 1, by omega⟩
  exact ⟨d, t.take q, by simp, h1, h2, fun c hc => h3 c (List.mem_of_mem_take hc)⟩

/-- digits with a '.' after the first `p` -/
theorem scan_split (ds : Bytes) (h : NZ ds) (p : Nat) (hp : 0 < p) (hpn : p < ds.length) (rest : Bytes) (hr : Stop rest) :
    scanMant false {} (ds.take p ++ 46 :: (ds.drop p ++ rest)) =
      (⟨dval 0 ds, ds.length, (p : Int), p, true, true, false⟩, rest) := by
  have hd := NZ_dig ds h
  have hlen : (ds.take p).length = p := by rw [List.length_take]; omega
  rw [default_scan, scan_nz _ (NZ_take ds h p hp), scan_dot, hlen,
    scan_digits (ds.drop p) (fun c hc => hd c (List.mem_of_mem_drop hc)) _ _ _ _ _ _ _ _ hp, scan_stop _ _ hr,
    ← dval_append, List.take_append_drop, List.length_drop]
  have : p + (ds.length - p) = ds.length := by omega
  rw [this, Bool.true_or]

/-- "0.000ddd" -/
theorem scan_frac (ds : Bytes) (h : NZ ds) (z : Nat) :
    scanMant false {} (48 :: 46 :: (zeros z ++ ds)) = (⟨dval 0 ds, ds.length, -(z : Int), 0, true, true, false⟩, []) := by
  have e : zeros z ++ ds = zeros z ++ (ds ++ []) := by rw [List.append_nil]
  rw [default_scan, scan_zero0, scan_dot, e, scan_zeros0, scan_nz ds h, scan_nil]
  have : ((0 : Nat) : Int) - (z : Int) = -(z : Int) := by omega
  rw [this]

theorem dval_zeros (z : Nat) : ∀ a, dval a (zeros z) = a * 10 ^ z := by
  induction z with
  | zero => intro a; simp [zeros, dval_nil]
  | succ z ih =>
    intro a
    have : zeros (z + 1) = 48 :: zeros z := by simp [zeros, List.replicate_succ]
    rw [this, dval_cons, ih, Nat.pow_succ]
    have : (48 : UInt8).toNat - 48 = 0 := by decide
    rw [this, Nat.add_zero]; ac_rfl

theorem NZ_zeros (ds : Bytes) (h : NZ ds) (z : Nat) : NZ (ds ++ zeros z) := by
  obtain ⟨d, t, rfl, h1, h2, h3⟩ := h
  refine ⟨d, t ++ zeros z, rfl, h1, h2, ?_⟩
  intro c hc
  simp only [List.mem_append] at hc
  rcases hc with hc | hc
  · exact h3 c hc
  · have : c = 48 := by unfold zeros at hc; exact (List.mem_replicate.mp hc).2
    subst this; exact ⟨by decide, by decide⟩

/-! ## from the scanner state to `parsedVal` -/

theorem decimalBits_rr (c nd ndInt : Nat) (dp : Int) (hI : ndInt ≤ 800) (h1 : -330 ≤ dp) (h2 : dp ≤ 310) :
    decimalBits c nd ndInt dp = rr c (dp - (nd : Int)) := by
  have a1 : ¬ dp > 310 := by omega
  have a2 : ¬ dp < -330 := by omega
  unfold decimalBits decimalCap
  rw [if_pos hI]
  unfold decBits
  rw [if_neg a1, if_neg a2]
  rfl

theorem finish (neg : Bool) (mant nd ndInt : Nat) (dpf : Int) (c : Nat) (k : Int) (hm : mant ≠ 0) (hI : ndInt ≤ 800)
    (h1 : -330 ≤ dpf) (h2 : dpf ≤ 310) (hrr : rr mant (dpf - (nd : Int)) = rr c k) :
    (if mant = 0 then some (F64.ofMag neg 0) else
      if decimalBits mant nd ndInt dpf ≥ infBits then none
      else some (F64.ofMag neg (decimalBits mant nd ndInt dpf))) = parsedVal neg c k := by
  rw [if_neg hm, decimalBits_rr mant nd ndInt dpf hI h1 h2, hrr]
  rfl

theorem scanExp_nil : scanExp false false [] = some (0, false) := rfl

theorem dval0_natDigits (c : Nat) : dval 0 (natDigits c) = c := dval_natDigits c

/-! ## (A) decimal integers -/

theorem parseFloat_zero :
    parseFloat [48] = some (F64.ofMag false 0) ∧ parseFloat [45, 48] = some (F64.ofMag true 0) := by
  constructor <;> decide +kernel

theorem rr_zero (c : Nat) : rr c 0 = roundRatBits c 1 := by
  simp [rr]

theorem fmtInt_signed (i : Int) : fmtInt i = signed (decide (i < 0)) (natDigits i.natAbs) := by
  by_cases h : i < 0
  · rw [fmtInt_neg i h]; simp [signed, h]
  · rw [fmtInt_nonneg i h]; simp [signed, h]

theorem parseFloat_fmtInt (i : Int) (hi : isInt64 i = true) : parseFloat (fmtInt i) = some (F64.ofInt i) := by
  simp only [isInt64, decide_eq_true_eq] at hi
  by_cases h0 : i = 0
  · subst h0; exact parseFloat_zero.1
  have hn : 0 < i.natAbs := by omega
  have hnz := NZ_natDigits i.natAbs hn
  have hlen : (natDigits i.natAbs).length ≤ 19 := by
    rw [natDigits_length_le_iff _ _ (by decide)]
    have : i.natAbs ≤ 9223372036854775808 := by omega
    omega
  rw [fmtInt_signed]
  have hsc := scan_whole (natDigits i.natAbs) hnz [] (.inl rfl)
  rw [List.append_nil] at hsc
  obtain ⟨d, t, hdt, h1, h2, h3⟩ := hnz
  have hd : dig d := ⟨by omega, h2⟩
  have hne : d ≠ 48 := by intro hh; rw [hh] at h1; revert h1; decide
  rw [hdt] at hsc ⊢
  rw [parseFloat_dec _ d t _ _ 0 hd (hexRestOf_nz d t hne) hsc rfl rfl scanExp_nil]
  simp only [Bool.false_eq_true, if_false]
  rw [← hdt, dval0_natDigits] at *
  rw [finish _ _ _ _ _ i.natAbs 0 (by omega) (by omega) (by omega) (by omega)]
  · unfold parsedVal F64.ofInt
    rw [rr_zero]
    have hb := roundRatBits_bound i.natAbs 1 64 hn (by decide) (by omega) (by decide)
    have : ¬ roundRatBits i.natAbs 1 ≥ infBits := by
      simp only [two52, infBits] at *; omega
    rw [if_neg this]
  · congr 1; omega

/-! ## (B) `%f` form -/

theorem parseFloat_fmtF (neg : Bool) (c : Nat) (dp : Int) (hc : 0 < c) (h1 : -330 ≤ dp) (h2 : dp ≤ 310) :
    parseFloat (Num.signed neg (Num.fmtFShortest (natDigits c) dp)) =
      parsedVal neg c (dp - ((natDigits c).length : Int)) := by
  have hnz := NZ_natDigits c hc
  have hv := dval0_natDigits c
  generalize hds : natDigits c = ds at *
  have hlen : 0 < ds.length := by
    obtain ⟨d, t, rfl, _⟩ := hnz; simp
  unfold fmtFShortest
  by_cases hdp : dp ≤ 0
  · -- "0.000ddd"
    have hl0 : ¬ ds.length = 0 := by omega
    simp only [if_pos hdp, if_neg hl0]
    have hsc := scan_frac ds hnz (-dp).toNat
    rw [parseFloat_dec _ 48 _ _ _ 0 ⟨by decide, by decide⟩ (hexRestOf_dot _) hsc rfl rfl scanExp_nil]
    simp only [if_true]
    rw [hv]
    exact finish _ _ _ _ _ c _ (by omega) (by omega) (by omega) (by omega) (by congr 1; omega)
  · simp only [if_neg hdp]
    by_cases hnp : ds.length ≤ dp.toNat
    · -- "ddd000"
      simp only [if_pos hnp]
      have hnz' := NZ_zeros ds hnz (dp.toNat - ds.length)
      have hsc := scan_whole _ hnz' [] (.inl rfl)
      rw [List.append_nil] at hsc
      obtain ⟨d, t, hdt, g1, g2, g3⟩ := hnz'
      have hd : dig d := ⟨by omega, g2⟩
      have hne : d ≠ 48 := by intro hh; rw [hh] at g1; revert g1; decide
      rw [hdt] at hsc ⊢
      rw [parseFloat_dec _ d t _ _ 0 hd (hexRestOf_nz d t hne) hsc rfl rfl scanExp_nil]
      simp only [Bool.false_eq_true, if_false]
      rw [← hdt, dval_append, hv, dval_zeros, List.length_append]
      have hz : (zeros (dp.toNat - ds.length)).length = dp.toNat - ds.length := by simp [zeros]
      rw [hz]
      have hpos : c * 10 ^ (dp.toNat - ds.length) ≠ 0 := Nat.ne_of_gt (Nat.mul_pos hc (Nat.pow_pos (by decide)))
      refine finish _ _ _ _ _ c _ hpos (by omega) (by omega) (by omega) ?_
      have e1 : ((ds.length + (dp.toNat - ds.length) : Nat) : Int) + 0 - ((ds.length + (dp.toNat - ds.length) : Nat) : Int) = 0 := by
        omega
      rw [e1, rr_zero]
      unfold rr
      have e2 : dp - (ds.length : Int) ≥ 0 := by omega
      have e3 : (dp - (ds.length : Int)).toNat = dp.toNat - ds.length := by omega
      rw [if_pos e2, e3]
    · -- "dd.ddd"
      simp only [if_neg hnp]
      have hsc := scan_split ds hnz dp.toNat (by omega) (by omega) [] (.inl rfl)
      rw [List.append_nil] at hsc
      obtain ⟨d, t, hdt, g1, g2, g3⟩ := NZ_take ds hnz dp.toNat (by omega)
      have hd : dig d := ⟨by omega, g2⟩
      have hne : d ≠ 48 := by intro hh; rw [hh] at g1; revert g1; decide
      rw [hdt, List.cons_append] at hsc ⊢
      rw [parseFloat_dec _ d _ _ _ 0 hd (hexRestOf_nz d _ hne) hsc rfl rfl scanExp_nil]
      simp only [if_true]
      rw [hv]
      exact finish _ _ _ _ _ c _ (by omega) (by omega) (by omega) (by omega) (by congr 1; omega)

/-! ## (B) `%e` form -/

theorem jce3 (pre : Bytes) (z y d : UInt8) :
    jsonCleanExp (pre ++ [101, z, y, d]) = if y = 48 ∧ z = 45 then pre ++ [101, 45, d] else pre ++ [101, z, y, d] := by
  have hr : (pre ++ [101, z, y, d]).reverse = d :: y :: z :: 101 :: pre.reverse := by simp
  unfold jsonCleanExp
  rw [hr]
  split
  · rename_i d' more heq
    simp only [List.cons.injEq] at heq
    obtain ⟨rfl, rfl, rfl, _, rfl⟩ := heq
    simp
  · rename_i hno
    by_cases hc : y = 48 ∧ z = 45
    · exact absurd (by rw [hc.1, hc.2]) (hno d pre.reverse)
    · rw [if_neg hc]

theorem jce4 (pre : Bytes) (w h l u : UInt8) (hh : h ≠ 45) :
    jsonCleanExp (pre ++ [101, w, h, l, u]) = pre ++ [101, w, h, l, u] := by
  have hr : (pre ++ [101, w, h, l, u]).reverse = u :: l :: h :: w :: 101 :: pre.reverse := by simp
  unfold jsonCleanExp
  rw [hr]
  split
  · rename_i d' more heq
    simp only [List.cons.injEq] at heq
    exact absurd heq.2.2.1 hh
  · rfl

/-- the check that the (cleaned) exponent text of `x` reads back as `x` -/
def expChk (x : Int) : Bool :=
  match fmtExp x with
  | [z, y, d] =>
    if y = 48 ∧ z = 45 then decide (scanExp false false [101, 45, d] = some (x, false))
    else decide (scanExp false false [101, z, y, d] = some (x, false))
  | [w, h, l, u] => decide (h ≠ 45) && decide (scanExp false false [101, w, h, l, u] = some (x, false))
  | _ => false

theorem expChk_all : ∀ n : Nat, n < 641 → expChk ((n : Int) - 331) = true := by decide +kernel

theorem jce (pre : Bytes) (x : Int) (h1 : -331 ≤ x) (h2 : x ≤ 309) :
    ∃ s, jsonCleanExp (pre ++ 101 :: fmtExp x) = pre ++ 101 :: s ∧ scanExp false false (101 :: s) = some (x, false) := by
  have hk := expChk_all (x + 331).toNat (by omega)
  have : (((x + 331).toNat : Nat) : Int) - 331 = x := by omega
  rw [this] at hk
  unfold expChk at hk
  split at hk
  · rename_i z y d heq
    rw [heq, jce3]
    by_cases hc : y = 48 ∧ z = 45
    · rw [if_pos hc] at hk ⊢
      exact ⟨_, rfl, of_decide_eq_true hk⟩
    · rw [if_neg hc] at hk ⊢
      exact ⟨_, rfl, of_decide_eq_true hk⟩
  · rename_i w h l u heq
    simp only [Bool.and_eq_true, decide_eq_true_eq] at hk
    rw [heq, jce4 _ _ _ _ _ hk.1]
    exact ⟨_, rfl, hk.2⟩
  · cases hk

theorem parseFloat_fmtE (neg : Bool) (c : Nat) (dp : Int) (hc : 0 < c) (h1 : -330 ≤ dp) (h2 : dp ≤ 310) :
    parseFloat (Num.signed neg (Num.jsonCleanExp (Num.fmtEShortest (natDigits c) dp))) =
      parsedVal neg c (dp - ((natDigits c).length : Int)) := by
  have hnz := NZ_natDigits c hc
  have hv := dval0_natDigits c
  generalize hds : natDigits c = ds at *
  obtain ⟨d, more, hdm, g1, g2, g3⟩ := id hnz
  have hd : dig d := ⟨by omega, g2⟩
  have hne : d ≠ 48 := by intro hh; rw [hh] at g1; revert g1; decide
  subst hdm
  unfold fmtEShortest
  simp only []
  obtain ⟨s, hs1, hs2⟩ := jce (d :: (if more.isEmpty then [] else 46 :: more)) (dp - 1) (by omega) (by omega)
  rw [hs1]
  cases more with
  | nil =>
    have hsc := scan_whole [d] hnz (101 :: s) (.inr ⟨s, rfl⟩)
    simp only [List.isEmpty_nil, if_true, List.cons_append, List.nil_append] at hsc ⊢
    rw [parseFloat_dec _ d _ _ _ (dp - 1) hd (hexRestOf_nz d _ hne) hsc rfl rfl hs2]
    simp only [Bool.false_eq_true, if_false]
    rw [hv]
    exact finish _ _ _ _ _ c _ (by omega) (by simp) (by simp; omega) (by simp; omega) (by congr 1; simp; omega)
  | cons m1 more =>
    have hsc := scan_split (d :: m1 :: more) hnz 1 (by omega) (by simp) (101 :: s) (.inr ⟨s, rfl⟩)
    simp only [List.isEmpty_cons, Bool.false_eq_true, if_false, List.cons_append, List.take_succ_cons, List.take_zero,
      List.drop_succ_cons, List.drop_zero, List.nil_append] at hsc ⊢
    rw [parseFloat_dec _ d _ _ _ (dp - 1) hd (hexRestOf_nz d _ hne) hsc rfl rfl hs2]
    simp only [if_true]
    rw [hv]
    exact finish _ _ _ _ _ c _ (by omega) (by omega) (by omega) (by omega) (by congr 1; omega)

/-! ## putting (B) and (C) together -/

/-- a text denoting `± c·10^k` with `c·10^k` in the rounding interval of `f` parses to `f` -/
theorem parsedVal_correct (f : F64) (hfin : f.isFinite = true) (hnz : f.isZero = false) (c : Nat) (k : Int)
    (h : decInIvl f.mant f.exp2 c k) : parsedVal f.isNeg c k = some f := by
  unfold parsedVal
  rw [rr_correct f hfin hnz c k h]
  have : ¬ f.mag ≥ infBits := by
    simp only [F64.isFinite, decide_eq_true_eq] at hfin; omega
  rw [if_neg this, ofMag_mag]

/-- the form of the specification of `shortest` under which `parseFloat` inverts `fmtJSON` -/
def ShortestSpec : Prop :=
  ∀ f : F64, f.isFinite = true → f.isZero = false →
    ∃ (c : Nat) (k : Int), 0 < c ∧ shortest f.mant f.exp2 = (natDigits c, ((natDigits c).length : Int) + k) ∧
      decInIvl f.mant f.exp2 c k ∧ -330 ≤ ((natDigits c).length : Int) + k ∧ ((natDigits c).length : Int) + k ≤ 310

theorem parseFloat_fmtJSON_of (hs : ShortestSpec) (f : F64) (t : Bytes) (ht : fmtJSON f = some t) :
    parseFloat t = some f := by
  unfold fmtJSON at ht
  by_cases hfin : f.isFinite = true
  · simp only [hfin, Bool.not_true, Bool.false_eq_true, if_false] at ht
    by_cases hz : f.isZero = true
    · have hso : shortestOf f = ([], 0) := by unfold shortestOf; rw [if_pos hz]
      rw [hso] at ht
      simp only [hz, Bool.not_true, Bool.false_and, Bool.false_eq_true, if_false, Option.some.injEq] at ht
      subst ht
      have hm : f.mag = 0 := by simpa [F64.isZero] using hz
      have h0 := ofMag_mag f
      rw [hm] at h0
      have : fmtFShortest [] 0 = [48] := by decide
      rw [this]
      cases hn : f.isNeg
      · rw [hn] at h0; rw [← h0]; exact parseFloat_zero.1
      · rw [hn] at h0; rw [← h0]; exact parseFloat_zero.2
    · have hz' : f.isZero = false := by simpa using hz
      obtain ⟨c, k, hc, hsh, hiv, b1, b2⟩ := hs f hfin hz'
      have hso : shortestOf f = (natDigits c, ((natDigits c).length : Int) + k) := by
        unfold shortestOf; rw [hz', ← hsh]; simp
      rw [hso] at ht
      simp only [Option.some.injEq] at ht
      subst ht
      have hk : ((natDigits c).length : Int) + k - ((natDigits c).length : Int) = k := by omega
      split
      · rw [parseFloat_fmtE _ c _ hc b1 b2, hk]
        exact parsedVal_correct f hfin hz' c k hiv
      · rw [parseFloat_fmtF _ c _ hc b1 b2, hk]
        exact parsedVal_correct f hfin hz' c k hiv
  · simp only [hfin, Bool.not_false, if_true] at ht
    cases ht

#print axioms parseFloat_zero
#print axioms parseFloat_fmtInt
#print axioms parseFloat_fmtF
#print axioms parseFloat_fmtE
#print axioms parsedVal_correct
#print axioms parseFloat_fmtJSON_of

end Laws
end GoLucene
