import GoLucene.Model.Driver
import GoLucene.Model.Print
import GoLucene.Model.Shape
import GoLucene.Proofs.WellFormed
import GoLucene.Proofs.CodecShape
/-
  C13 — no panics on validated trees.

  For every expression tree that is well-formed (`wfTree`, Model/Shape.lean: what the parser AND the JSON decoder
  build) and passes the model of `expr.Validate` (`validateExpr`):

  * `string_no_panic`           — `String()` / `GoString()` do not panic (Validate alone is enough here);
  * `render_pg_no_panic`        — `Base.Render` with the PostgreSQL table does not panic
                                  (companions `serialize_no_panic`, `serializeList_no_panic`);
  * `renderParam_pg_no_panic`   — `Base.RenderParam` with the PostgreSQL table does not panic
                                  (companions `serializeParams_no_panic`, `serializeParamsList_no_panic`).

  `validate_not_enough` shows that `wfTree` cannot be dropped: two trees that pass Validate and panic a renderer.

  Parser results: `semShape` (Proofs/SemShape.lean) does NOT imply `wfTree`, not even together with Validate
  (`semShape_not_wfTree`: it admits a Column leaf as a range bound or list element, where `leafy` forbids it).
  The strict shape `semShapeT` confines Column leaves to the field positions; every result of the constructor
  semantics has it (`sem_shapeT`), it implies `semShape` and, with Validate, `wfTree` (`wfTree_of_semShapeT`).
  Hence `parse_no_panic` / `unmarshal_no_panic`: nothing `lucene.Parse` returns, and nothing the JSON decoder
  returns that passes Validate, panics a printer or a PostgreSQL renderer.
-/
set_option linter.unusedSimpArgs false

namespace GoLucene.NoPanic

theorem validate_top (l : Node) (o : Op) (r : Node) (p : F64) (d : Int)
    (h : validateExpr (.mk l o r p d) = true) :
    validateOp (.mk l o r p d) = some true ∧ validateNode l = true ∧ validateNode r = true := by
  simp only [validateExpr, Bool.and_eq_true] at h
  exact ⟨validateOp_true _ h.1.1, h.1.2, h.2⟩

/-! ### String / GoString -/

/-- (1) the top-level `String()` / `GoString()` call of a validated expression does not panic -/
theorem string_no_panic (ip : Nat → Bool) (verbose : Bool) :
    ∀ e : Expr, validateExpr e = true → strE ip verbose e ≠ .panic
  | .mk l o r p d, h => by
    obtain ⟨hop, _, _⟩ := validate_top l o r p d h
    cases o
    case range =>
      cases r <;> simp [validateOp, Expr.op, Expr.left, Expr.right] at hop
      rw [strE]; cases verbose <;> simp
    case list =>
      cases l <;> simp [validateOp, Expr.op, Expr.left, Expr.right, Node.isNil] at hop
      rw [strE]; cases verbose <;> simp
    all_goals (cases verbose <;> simp [strE])
    all_goals (split <;> (try split) <;> simp)


/-! ### render functions -/

theorem fnLiteral_cases (l r : Bytes) : fnLiteral l r = .err ∨ fnLiteral l r = .ok l := by
  unfold fnLiteral
  split
  · exact .inl rfl
  · split
    · exact .inl rfl
    · exact .inr rfl

theorem fnLiteral_np (l r : Bytes) : fnLiteral l r ≠ .panic := by
  rcases fnLiteral_cases l r with h | h <;> simp [h]

theorem fnLike_np (l r : Bytes) : fnLike l r ≠ .panic := by
  unfold fnLike
  split <;> simp

theorem rangeParts_np (right : Bytes) (h : 2 ≤ right.length) : rangeParts right ≠ .panic := by
  match right, h with
  | c :: c2 :: t, _ =>
    simp only [rangeParts]
    split <;> simp

theorem fnRang_np (l right : Bytes) (h : 2 ≤ right.length) : fnRang l right ≠ .panic := by
  unfold fnRang
  have := rangeParts_np right h
  cases hrp : rangeParts right <;> simp_all

/-- every entry of the PostgreSQL table other than the range function is total -/
theorem pgFn_no_panic (o : Op) (fn : RenderFn) (l r : Bytes) (ho : o ≠ .range) (h : pgFns o = some fn) :
    fn l r ≠ .panic := by
  cases o <;> simp [pgFns, sharedFns] at h ho <;> subst h <;>
    first
    | exact fnLiteral_np l r
    | exact fnLike_np l r
    | simp [fnInfix, fnWrapNot, fnNoop, fnList]

theorem pgFns_range : pgFns .range = some fnRang := rfl

theorem pgFns_leaf (o : Op) (h : o.isLeafOp = true) : pgFns o = some fnLiteral := by
  cases o <;> simp [Op.isLeafOp] at h <;> rfl


/-! ### Render -/

theorem serialize_prim_np (fns : Fns) (p : Prim) : serialize fns (.prim p) ≠ .panic := by
  cases p <;> simp [serialize, serializeCol]
  split <;> (try split) <;> simp

theorem serialize_nil (fns : Fns) : serialize fns .nil = .ok [] := by simp [serialize]

/-- a node whose operator is not Range: no panic if the operands do not panic -/
theorem render_np_other (l : Node) (o : Op) (r : Node) (p : F64) (d : Int) (ho : o ≠ .range)
    (hl : serialize pgFns l ≠ .panic) (hr : serialize pgFns r ≠ .panic) :
    render pgFns (.mk l o r p d) ≠ .panic := by
  rw [render]
  cases h1 : serialize pgFns l with
  | err => simp
  | panic => exact absurd h1 hl
  | ok left =>
    cases h2 : serialize pgFns r with
    | err => simp
    | panic => exact absurd h2 hr
    | ok right =>
      simp only []
      cases h3 : pgFns o with
      | none => simp
      | some fn => exact pgFn_no_panic o fn _ _ ho h3

theorem parenOps_range : parenOps .range = false := by decide

/-- a Range node: no panic if the operands do not panic and the right text has at least two bytes -/
theorem render_np_range (l r : Node) (p : F64) (d : Int)
    (hl : serialize pgFns l ≠ .panic) (hr : serialize pgFns r ≠ .panic)
    (hlen : ∀ right, serialize pgFns r = .ok right → 2 ≤ right.length) :
    render pgFns (.mk l .range r p d) ≠ .panic := by
  rw [render]
  cases h1 : serialize pgFns l with
  | err => simp
  | panic => exact absurd h1 hl
  | ok left =>
    cases h2 : serialize pgFns r with
    | err => simp
    | panic => exact absurd h2 hr
    | ok right =>
      simp only [pgFns_range, parenOps_range, Bool.false_and, Bool.false_eq_true, if_false]
      exact fnRang_np _ _ (hlen right h2)

theorem b_lbr : b "[" = [91] := by decide
theorem b_rbr : b "]" = [93] := by decide
theorem b_lpar : b "(" = [40] := by decide
theorem b_rpar : b ")" = [41] := by decide
theorem b_comma : b ", " = [44, 32] := by decide

/-- the text of a range boundary has at least four bytes -/
theorem serialize_bound_len (fns : Fns) (mn mx : Node) (incl : Bool) (s : Bytes)
    (h : serialize fns (.bound mn mx incl) = .ok s) : 4 ≤ s.length := by
  rw [serialize] at h
  cases h1 : serialize fns mn with
  | err => simp [h1] at h
  | panic => simp [h1] at h
  | ok smin =>
    cases h2 : serialize fns mx with
    | err => simp [h1, h2] at h
    | panic => simp [h1, h2] at h
    | ok smax =>
      simp only [h1, h2] at h
      cases incl <;> simp at h <;> subst h <;> simp [b_lbr, b_rbr, b_lpar, b_rpar, b_comma] <;> omega

theorem leafy_parts (l : Node) (o : Op) (r : Node) (p : F64) (d : Int) (h : leafy (.mk l o r p d) = true) :
    o.isLeafOp = true ∧ r = .nil ∧ (l = .nil ∨ ∃ q, l = .prim q) := by
  simp only [leafy, Bool.and_eq_true] at h
  obtain ⟨⟨h1, h2⟩, h3⟩ := h
  refine ⟨h1, ?_, ?_⟩
  · cases r <;> simp [Node.isNil] at h3; rfl
  · cases l <;> simp [leafKindOK] at h2 ⊢

theorem leafOp_ne_range (o : Op) (h : o.isLeafOp = true) : o ≠ .range := by
  cases o <;> simp [Op.isLeafOp] at h ⊢

/-- a leaf renders without panic -/
theorem render_leafy_np : ∀ e : Expr, leafy e = true → render pgFns e ≠ .panic
  | .mk l o r p d, h => by
    obtain ⟨ho, hr, hl⟩ := leafy_parts l o r p d h
    subst hr
    apply render_np_other _ _ _ _ _ (leafOp_ne_range o ho)
    · rcases hl with rfl | ⟨q, rfl⟩
      · simp [serialize]
      · exact serialize_prim_np _ q
    · simp [serialize]

theorem serializeList_no_panic : ∀ es : ExprList, es.allLeafy = true → serializeList pgFns es ≠ .panic
  | .nil, _ => by simp [serializeList]
  | .cons e t, h => by
    simp only [ExprList.allLeafy, Bool.and_eq_true] at h
    have h1 := render_leafy_np e h.1
    have h2 := serializeList_no_panic t h.2
    rw [serializeList]
    cases h3 : render pgFns e <;> simp_all
    cases h4 : serializeList pgFns t <;> simp_all

mutual
theorem serialize_no_panic : ∀ n : Node, wfNode n = true → validateNode n = true → serialize pgFns n ≠ .panic
  | .nil, _, _ => by simp [serialize]
  | .prim q, _, _ => serialize_prim_np _ q
  | .expr e, hw, hv => by
    rw [serialize]
    exact render_pg_no_panic e (by simpa [wfNode] using hw) (by simpa [validateNode] using hv)
  | .list es, hw, _ => by
    have := serializeList_no_panic es (by simpa [wfNode] using hw)
    rw [serialize]
    cases h : serializeList pgFns es <;> simp_all
  | .bound mn mx incl, hw, _ => by
    simp only [wfNode, Bool.and_eq_true] at hw
    cases mn with
    | expr a =>
      cases mx with
      | expr c =>
        simp only at hw
        have h1 := render_leafy_np a hw.1
        have h2 := render_leafy_np c hw.2
        rw [serialize]
        simp only [serialize]
        cases h3 : render pgFns a <;> simp_all
        cases h4 : render pgFns c <;> simp_all
        split <;> simp
      | _ => simp at hw
    | _ => simp at hw
theorem render_pg_no_panic : ∀ e : Expr, wfTree e = true → validateExpr e = true → render pgFns e ≠ .panic
  | .mk l o r p d, hw, hv => by
    obtain ⟨hop, hvl, hvr⟩ := validate_top l o r p d hv
    simp only [wfTree, Bool.and_eq_true] at hw
    have hl := serialize_no_panic l hw.1.2 hvl
    have hr := serialize_no_panic r hw.2 hvr
    by_cases ho : o = .range
    · subst ho
      apply render_np_range _ _ _ _ hl hr
      intro right hright
      cases r <;> simp [validateOp, Expr.op, Expr.left, Expr.right] at hop
      have := serialize_bound_len _ _ _ _ _ hright
      omega
    · exact render_np_other _ _ _ _ _ ho hl hr
end


/-! ### RenderParam

  Lean cannot generate the equation lemmas of `serializeParams` (the `let`-bound matches of the boundary case);
  the unfolding equations are stated here and hold by `rfl`. -/

theorem sp_nil (fns : Fns) : serializeParams fns .nil = .ok ([], []) := rfl
theorem sp_expr (fns : Fns) (e : Expr) : serializeParams fns (.expr e) = renderParam fns e := rfl
theorem sp_list (fns : Fns) (es : ExprList) : serializeParams fns (.list es) =
    (match serializeParamsList fns es with
     | .ok (strs, ps) => .ok (joinWith (b ", ") strs, ps)
     | .err => .err
     | .panic => .panic) := rfl
theorem sp_col (fns : Fns) (v : Bytes) : serializeParams fns (.prim (.col v)) =
    (match serializeCol v with
     | .ok s => .ok (s, []) | .err => .err | .panic => .panic) := rfl
theorem sp_str (fns : Fns) (v : Bytes) : serializeParams fns (.prim (.str v)) = .ok (b "?", [.str v]) := rfl

/-- one end of a range boundary in `serializeBoundParams` -/
def endOut (fns : Fns) (n : Node) : Out (Bytes × List Prim) :=
  match n with
  | .expr e => if starLeft e then .ok (starQ, []) else renderParam fns e
  | n => serializeParams fns n

theorem sp_bound (fns : Fns) (mn mx : Node) (incl : Bool) : serializeParams fns (.bound mn mx incl) =
    (match endOut fns mn with
     | .err => .err
     | .panic => .panic
     | .ok (smin, pmin) =>
       match endOut fns mx with
       | .err => .err
       | .panic => .panic
       | .ok (smax, pmax) =>
         if incl then .ok (b "[" ++ smin ++ b ", " ++ smax ++ b "]", pmin ++ pmax)
         else .ok (b "(" ++ smin ++ b ", " ++ smax ++ b ")", pmin ++ pmax)) := by
  cases mn <;> cases mx <;> rfl

theorem spl_nil (fns : Fns) : serializeParamsList fns .nil = .ok ([], []) := rfl
theorem spl_cons (fns : Fns) (e : Expr) (t : ExprList) : serializeParamsList fns (.cons e t) =
    (match renderParam fns e with
    | .err => .err
    | .panic => .panic
    | .ok (s, ps) =>
      match serializeParamsList fns t with
      | .ok (ss, pt) => .ok (s :: ss, ps ++ pt)
      | .err => .err
      | .panic => .panic) := rfl


theorem serializeCol_np (v : Bytes) : serializeCol v ≠ .panic := by
  unfold serializeCol
  split
  · simp
  · split <;> simp

theorem sp_prim_np (fns : Fns) (q : Prim) : serializeParams fns (.prim q) ≠ .panic := by
  cases q
  case col v =>
    rw [sp_col]
    have := serializeCol_np v
    cases h : serializeCol v <;> simp_all
  all_goals (intro h; cases h)

theorem sp_prim_val (fns : Fns) (q : Prim) (hq : ∀ s, q ≠ .col s) :
    serializeParams fns (.prim q) = .ok (b "?", [q]) := by
  cases q
  case col v => exact absurd rfl (hq v)
  all_goals rfl

theorem likeParam_str_np (left right s : Bytes) : likeParam left right [.str s] ≠ .panic := by
  simp only [likeParam]
  split <;> simp

theorem rangParam_np_nonempty (left right : Bytes) (params : List Prim) (h2 : 2 ≤ right.length)
    (hp : params ≠ []) : rangParam left right params ≠ .panic := by
  unfold rangParam
  have := rangeParts_np right h2
  cases hrp : rangeParts right with
  | err => simp
  | panic => exact absurd hrp this
  | ok v =>
    obtain ⟨inclusive, rawMin, rawMax⟩ := v
    simp only []
    split
    · cases params with
      | nil => exact absurd rfl hp
      | cons q _ => cases q <;> simp
    · simp

def starsIncl : Bytes := b "[" ++ starQ ++ b ", " ++ starQ ++ b "]"
def starsExcl : Bytes := b "(" ++ starQ ++ b ", " ++ starQ ++ b ")"

theorem rangeParts_star_incl : rangeParts starsIncl = .ok (true, starQ, starQ) := by decide
theorem rangeParts_star_excl : rangeParts starsExcl = .ok (false, starQ, starQ) := by decide
theorem starQ_ne_q : (starQ == b "?") = false := by decide

theorem rangParam_star_np (left : Bytes) (incl : Bool) (params : List Prim) :
    rangParam left (if incl then starsIncl else starsExcl) params ≠ .panic := by
  unfold rangParam
  cases incl
  · simp only [Bool.false_eq_true, if_false, rangeParts_star_excl, starQ_ne_q, Bool.or_self]
    simp
  · simp only [if_true, rangeParts_star_incl, starQ_ne_q, Bool.or_self]
    simp


theorem leafOp_ne_like (o : Op) (h : o.isLeafOp = true) : o ≠ .like := by
  cases o <;> simp [Op.isLeafOp] at h ⊢

/-- a node whose operator is neither Like nor Range: no panic if the operands do not panic -/
theorem renderParam_np_other (l : Node) (o : Op) (r : Node) (p : F64) (d : Int) (ho1 : o ≠ .like) (ho2 : o ≠ .range)
    (hl : serializeParams pgFns l ≠ .panic) (hr : serializeParams pgFns r ≠ .panic) :
    renderParam pgFns (.mk l o r p d) ≠ .panic := by
  rw [renderParam]
  cases h1 : serializeParams pgFns l with
  | err => simp
  | panic => exact absurd h1 hl
  | ok v =>
    obtain ⟨left, lparams⟩ := v
    cases h2 : serializeParams pgFns r with
    | err => simp
    | panic => exact absurd h2 hr
    | ok w =>
      obtain ⟨right, rparams0⟩ := w
      simp only [ho1, ho2, if_false]
      cases h3 : pgFns o with
      | none => simp
      | some fn =>
        simp only []
        have := pgFn_no_panic o fn (if (parenOps o && !isSimple l) = true then parenB left else left)
          (if (parenOps o && !isSimple r) = true then parenB right else right) ho2 h3
        cases h4 : fn (if (parenOps o && !isSimple l) = true then parenB left else left)
          (if (parenOps o && !isSimple r) = true then parenB right else right) <;> simp_all

/-- the value of RenderParam on a leaf over a raw value that is not a Column -/
theorem renderParam_leaf_val (q : Prim) (o : Op) (p : F64) (d : Int) (hq : ∀ s, q ≠ .col s)
    (ho : o.isLeafOp = true) (hk : o = .literal ∨ ∃ s, q = .str s) :
    renderParam pgFns (.mk (.prim q) o .nil p d) = .err ∨
    renderParam pgFns (.mk (.prim q) o .nil p d) = .ok (b "?", [q]) := by
  have hpl : (parenOps o && !isSimple (.prim q)) = false := by
    rcases hk with rfl | ⟨s, rfl⟩
    · rfl
    · simp [isSimple]
  have hpr : (parenOps o && !isSimple .nil) = false := by simp [isSimple]
  rw [renderParam, sp_prim_val _ q hq, sp_nil]
  simp only [leafOp_ne_like o ho, leafOp_ne_range o ho, if_false, pgFns_leaf o ho, hpl, hpr, Bool.false_eq_true]
  rcases fnLiteral_cases (b "?") [] with h | h <;> simp [h]


/-- a leaf renders without panic -/
theorem renderParam_leafy_np : ∀ e : Expr, leafy e = true → renderParam pgFns e ≠ .panic
  | .mk l o r p d, h => by
    obtain ⟨ho, hr, hl⟩ := leafy_parts l o r p d h
    subst hr
    apply renderParam_np_other _ _ _ _ _ (leafOp_ne_like o ho) (leafOp_ne_range o ho)
    · rcases hl with rfl | ⟨q, rfl⟩
      · rw [sp_nil]; simp
      · exact sp_prim_np _ q
    · rw [sp_nil]; simp

theorem serializeParamsList_no_panic : ∀ es : ExprList, es.allLeafy = true → serializeParamsList pgFns es ≠ .panic
  | .nil, _ => by rw [spl_nil]; simp
  | .cons e t, h => by
    simp only [ExprList.allLeafy, Bool.and_eq_true] at h
    have h1 := renderParam_leafy_np e h.1
    have h2 := serializeParamsList_no_panic t h.2
    rw [spl_cons]
    cases h3 : renderParam pgFns e with
    | err => simp
    | panic => exact absurd h3 h1
    | ok v =>
      obtain ⟨s, ps⟩ := v
      cases h4 : serializeParamsList pgFns t with
      | err => simp
      | panic => exact absurd h4 h2
      | ok w => obtain ⟨ss, pt⟩ := w; simp

theorem endOut_leafy_np (a : Expr) (h : leafy a = true) : endOut pgFns (.expr a) ≠ .panic := by
  simp only [endOut]
  split
  · simp
  · exact renderParam_leafy_np a h

/-- one end of a validated, well-formed boundary: an error, the unbounded end, or one placeholder with its parameter -/
theorem endOut_val (a : Expr) (h : leafy a = true) (hv : isLiteralExpr (.expr a) = true) :
    endOut pgFns (.expr a) = .err ∨ endOut pgFns (.expr a) = .ok (starQ, []) ∨
    ∃ q, endOut pgFns (.expr a) = .ok (b "?", [q]) := by
  obtain ⟨l, o, r, p, d⟩ := a
  obtain ⟨ho, hr, _⟩ := leafy_parts l o r p d h
  subst hr
  simp only [endOut]
  split
  · exact .inr (.inl rfl)
  · simp only [isLiteralExpr, Bool.and_eq_true] at hv
    simp only [leafy, Bool.and_eq_true] at h
    cases l with
    | prim q =>
      have hq : ∀ s, q ≠ .col s := by
        intro s hs; subst hs; simp [leafKindOK] at h
      have hk : o = .literal ∨ ∃ s, q = .str s := by
        cases q <;> simp_all [leafKindOK]
      rcases renderParam_leaf_val q o p d hq ho hk with h' | h'
      · exact .inl h'
      · exact .inr (.inr ⟨q, h'⟩)
    | _ => simp [Node.isLiteral] at hv

theorem starsIncl_len : 2 ≤ starsIncl.length := by decide
theorem starsExcl_len : 2 ≤ starsExcl.length := by decide

/-- how `serializeBoundParams` combines the two ends -/
def boundOut (incl : Bool) (x y : Out (Bytes × List Prim)) : Out (Bytes × List Prim) :=
  match x with
  | .err => .err
  | .panic => .panic
  | .ok (smin, pmin) =>
    match y with
    | .err => .err
    | .panic => .panic
    | .ok (smax, pmax) =>
      if incl then .ok (b "[" ++ smin ++ b ", " ++ smax ++ b "]", pmin ++ pmax)
      else .ok (b "(" ++ smin ++ b ", " ++ smax ++ b ")", pmin ++ pmax)

theorem sp_bound' (fns : Fns) (mn mx : Node) (incl : Bool) :
    serializeParams fns (.bound mn mx incl) = boundOut incl (endOut fns mn) (endOut fns mx) := by
  rw [sp_bound]; rfl

theorem boundOut_val (incl : Bool) (x y : Out (Bytes × List Prim))
    (hx : x = .err ∨ x = .ok (starQ, []) ∨ ∃ q, x = .ok (b "?", [q]))
    (hy : y = .err ∨ y = .ok (starQ, []) ∨ ∃ q, y = .ok (b "?", [q])) :
    boundOut incl x y = .err ∨
    ∃ t ps, boundOut incl x y = .ok (t, ps) ∧ 2 ≤ t.length ∧
      (ps ≠ [] ∨ t = if incl then starsIncl else starsExcl) := by
  rcases hx with rfl | rfl | ⟨q1, rfl⟩
  · exact .inl rfl
  · rcases hy with rfl | rfl | ⟨q2, rfl⟩
    · exact .inl rfl
    · cases incl
      · exact .inr ⟨_, _, rfl, by decide, .inr rfl⟩
      · exact .inr ⟨_, _, rfl, by decide, .inr rfl⟩
    · cases incl
      · exact .inr ⟨_, _, rfl, by decide, .inl (by simp)⟩
      · exact .inr ⟨_, _, rfl, by decide, .inl (by simp)⟩
  · rcases hy with rfl | rfl | ⟨q2, rfl⟩
    · exact .inl rfl
    · cases incl
      · exact .inr ⟨_, _, rfl, by decide, .inl (by simp)⟩
      · exact .inr ⟨_, _, rfl, by decide, .inl (by simp)⟩
    · cases incl
      · exact .inr ⟨_, _, rfl, by decide, .inl (by simp)⟩
      · exact .inr ⟨_, _, rfl, by decide, .inl (by simp)⟩

/-- the rendered boundary of a validated, well-formed Range node -/
theorem sp_bound_val (a c : Expr) (incl : Bool) (ha : leafy a = true) (hc : leafy c = true)
    (hva : isLiteralExpr (.expr a) = true) (hvc : isLiteralExpr (.expr c) = true) :
    serializeParams pgFns (.bound (.expr a) (.expr c) incl) = .err ∨
    ∃ t ps, serializeParams pgFns (.bound (.expr a) (.expr c) incl) = .ok (t, ps) ∧ 2 ≤ t.length ∧
      (ps ≠ [] ∨ t = if incl then starsIncl else starsExcl) := by
  rw [sp_bound']
  exact boundOut_val incl _ _ (endOut_val a ha hva) (endOut_val c hc hvc)

theorem boundOut_np (incl : Bool) (x y : Out (Bytes × List Prim)) (hx : x ≠ .panic) (hy : y ≠ .panic) :
    boundOut incl x y ≠ .panic := by
  unfold boundOut
  cases x with
  | err => simp
  | panic => exact absurd rfl hx
  | ok v =>
    obtain ⟨smin, pmin⟩ := v
    cases y with
    | err => simp
    | panic => exact absurd rfl hy
    | ok w =>
      obtain ⟨smax, pmax⟩ := w
      cases incl <;> simp

/-- a Range node: no panic if the left side does not panic and the right side is as `sp_bound_val` says -/
theorem renderParam_np_range (l r : Node) (p : F64) (d : Int)
    (hl : serializeParams pgFns l ≠ .panic)
    (hr : serializeParams pgFns r = .err ∨
      ∃ t ps, serializeParams pgFns r = .ok (t, ps) ∧ 2 ≤ t.length ∧
        (ps ≠ [] ∨ ∃ incl : Bool, t = if incl then starsIncl else starsExcl)) :
    renderParam pgFns (.mk l .range r p d) ≠ .panic := by
  rw [renderParam]
  cases h1 : serializeParams pgFns l with
  | err => simp
  | panic => exact absurd h1 hl
  | ok v =>
    obtain ⟨left, lparams⟩ := v
    rcases hr with h2 | ⟨t, ps, h2, hlen, hps⟩
    · rw [h2]; simp
    · rw [h2]
      simp only [parenOps_range, Bool.false_and, Bool.false_eq_true, if_false, reduceCtorEq, if_true]
      have : rangParam (if (parenOps .range && !isSimple l) = true then parenB left else left) t ps ≠ .panic := by
        rcases hps with hps | ⟨incl, rfl⟩
        · exact rangParam_np_nonempty _ _ _ hlen hps
        · exact rangParam_star_np _ incl ps
      simp only [parenOps_range, Bool.false_and, Bool.false_eq_true, if_false] at this
      cases h3 : rangParam left t ps <;> simp_all

/-- a Like node: no panic if the left side does not panic and the right side yields exactly one string parameter -/
theorem renderParam_np_like (l r : Node) (p : F64) (d : Int)
    (hl : serializeParams pgFns l ≠ .panic)
    (hr : serializeParams pgFns r = .err ∨ ∃ t s, serializeParams pgFns r = .ok (t, [.str s])) :
    renderParam pgFns (.mk l .like r p d) ≠ .panic := by
  rw [renderParam]
  cases h1 : serializeParams pgFns l with
  | err => simp
  | panic => exact absurd h1 hl
  | ok v =>
    obtain ⟨left, lparams⟩ := v
    rcases hr with h2 | ⟨t, s, h2⟩
    · rw [h2]; simp
    · rw [h2]
      simp only [if_true]
      split
      · simp
      · rename_i heq; split at heq <;> cases heq
      · rename_i rparams heq
        have hrp : ∃ s', rparams = [.str s'] := by
          split at heq <;> (cases heq; exact ⟨_, rfl⟩)
        obtain ⟨s', rfl⟩ := hrp
        have := likeParam_str_np (if (parenOps .like && !isSimple l) = true then parenB left else left)
          (if (parenOps .like && !isSimple r) = true then parenB t else t) s'
        cases h3 : likeParam (if (parenOps .like && !isSimple l) = true then parenB left else left)
          (if (parenOps .like && !isSimple r) = true then parenB t else t) [.str s'] <;> simp_all


/-- the pattern of a validated, well-formed Like node renders to one placeholder with a string parameter -/
theorem like_pattern_val (re : Expr) (hop : re.op = .wild ∨ re.op = .regexp) (hw : wfTree re = true)
    (hv : validateExpr re = true) :
    renderParam pgFns re = .err ∨ ∃ t s, renderParam pgFns re = .ok (t, [.str s]) := by
  obtain ⟨rl, ro, rr, rp, rd⟩ := re
  simp only [Expr.op] at hop
  obtain ⟨hvo, _, _⟩ := validate_top rl ro rr rp rd hv
  have hleaf : ro.isLeafOp = true := by rcases hop with rfl | rfl <;> rfl
  have hwr : (ro = .wild || ro = .regexp) = true := by rcases hop with rfl | rfl <;> rfl
  have hrr : rr = .nil := by
    rcases hop with rfl | rfl <;>
      (simp [validateOp, Expr.op, Expr.left, Expr.right] at hvo; cases rr <;> simp_all [Node.isNil])
  subst hrr
  have hlit : rl.isLiteral = true := by
    rcases hop with rfl | rfl <;> (simp [validateOp, Expr.op, Expr.left, Expr.right] at hvo; exact hvo.2)
  simp only [wfTree, hwr, if_true, Bool.and_eq_true] at hw
  cases rl with
  | prim q =>
    cases q with
    | str s =>
      rcases renderParam_leaf_val (.str s) ro rp rd (by intro s' h; cases h) hleaf (.inr ⟨s, rfl⟩) with h | h
      · exact .inl h
      · exact .inr ⟨_, s, h⟩
    | _ => simp at hw
  | _ => simp [Node.isLiteral] at hlit

mutual
theorem serializeParams_no_panic :
    ∀ n : Node, wfNode n = true → validateNode n = true → serializeParams pgFns n ≠ .panic
  | .nil, _, _ => by rw [sp_nil]; simp
  | .prim q, _, _ => sp_prim_np _ q
  | .expr e, hw, hv => by
    rw [sp_expr]
    exact renderParam_pg_no_panic e (by simpa [wfNode] using hw) (by simpa [validateNode] using hv)
  | .list es, hw, _ => by
    have := serializeParamsList_no_panic es (by simpa [wfNode] using hw)
    rw [sp_list]
    cases h : serializeParamsList pgFns es with
    | err => simp
    | panic => exact absurd h this
    | ok v => obtain ⟨strs, ps⟩ := v; simp
  | .bound mn mx incl, hw, _ => by
    simp only [wfNode, Bool.and_eq_true] at hw
    cases mn with
    | expr a =>
      cases mx with
      | expr c =>
        simp only at hw
        rw [sp_bound']
        exact boundOut_np _ _ _ (endOut_leafy_np a hw.1) (endOut_leafy_np c hw.2)
      | _ => simp at hw
    | _ => simp at hw
theorem renderParam_pg_no_panic :
    ∀ e : Expr, wfTree e = true → validateExpr e = true → renderParam pgFns e ≠ .panic
  | .mk l o r p d, hw, hv => by
    obtain ⟨hop, hvl, hvr⟩ := validate_top l o r p d hv
    simp only [wfTree, Bool.and_eq_true] at hw
    have hl := serializeParams_no_panic l hw.1.2 hvl
    have hr := serializeParams_no_panic r hw.2 hvr
    by_cases ho1 : o = .like
    · subst ho1
      apply renderParam_np_like _ _ _ _ hl
      cases r <;> simp [validateOp, Expr.op, Expr.left, Expr.right] at hop
      rename_i re
      rw [sp_expr]
      have hre : re.op = .wild ∨ re.op = .regexp := by
        obtain ⟨_, _, _, _, _⟩ := re
        rcases hop.2 with h | h
        · exact .inl (of_decide_eq_true h)
        · exact .inr (of_decide_eq_true h)
      exact like_pattern_val re hre (by simpa [wfNode] using hw.2) (by simpa [validateNode] using hvr)
    · by_cases ho2 : o = .range
      · subst ho2
        apply renderParam_np_range _ _ _ _ hl
        cases r <;> simp [validateOp, Expr.op, Expr.left, Expr.right] at hop
        rename_i mn mx incl
        obtain ⟨_, ⟨⟨_, _⟩, hmn⟩, hmx⟩ := hop
        have hwr := hw.2
        simp only [wfNode, Bool.and_eq_true] at hwr
        cases mn with
        | expr a =>
          cases mx with
          | expr c =>
            simp only at hwr
            rcases sp_bound_val a c incl hwr.1 hwr.2 hmn hmx with h | ⟨t, ps, h1, h2, h3⟩
            · exact .inl h
            · refine .inr ⟨t, ps, h1, h2, ?_⟩
              rcases h3 with h3 | h3
              · exact .inl h3
              · exact .inr ⟨incl, h3⟩
          | _ => simp at hwr
        | _ => simp at hwr
      · exact renderParam_np_other _ _ _ _ _ ho1 ho2 hl hr
end


/-! ### parser results -/

def cexBound : Expr :=
  .mk (.expr (lit (.prim (.col [97])))) .range
    (.bound (.expr (lit (.prim (.col [98])))) (.expr (lit (.prim (.int 5)))) true) F64.one 1
def cexList : Expr :=
  .mk (.expr (lit (.prim (.col [97])))) .in_
    (.expr (mkList (.cons (lit (.prim (.col [98]))) (.cons (lit (.prim (.int 5))) .nil)))) F64.one 1

/-- `semShape` (even with Validate) does not imply `wfTree`: it admits a Column leaf as a range bound / list element -/
theorem semShape_not_wfTree :
    semShape cexBound = true ∧ validateExpr cexBound = true ∧ wfTree cexBound = false ∧
    semShape cexList = true ∧ validateExpr cexList = true ∧ wfTree cexList = false := by decide

/-- Validate alone is not enough for the renderers (`wfTree` is needed) -/
def cexRender : Expr :=
  .mk (.expr (lit (.prim (.col [97])))) .range
    (.bound (.expr (.mk (.prim (.str [98])) .literal (.expr (.mk .nil .range .nil F64.one 1)) F64.one 1))
            (.expr (lit (.prim (.int 5)))) true) F64.one 1
def cexLike : Expr :=
  .mk (.expr (lit (.prim (.col [97])))) .like (.expr (mkLeaf (.prim (.int 1)) .wild)) F64.one 1

theorem validate_not_enough :
    validateExpr cexRender = true ∧ render pgFns cexRender = .panic ∧ renderParam pgFns cexRender = .panic ∧
    validateExpr cexLike = true ∧ renderParam pgFns cexLike = .panic := by decide +kernel

/-- a term as `parseLiteral` builds it: a `semLeaf` that is not a Column -/
def termLeaf : Expr → Bool
  | .mk (.prim p) o .nil _ _ =>
    (match p with
     | .str _ => o.isLeafOp
     | .int _ => o = .literal
     | .flt f => o = .literal && !f.isInf && !f.isNaN
     | _ => false)
  | _ => false

/-- the wrapped Column of a field position -/
def isColField : Node → Bool
  | .expr (.mk (.prim (.col _)) .literal .nil _ _) => true
  | _ => false

def allTermLit : ExprList → Bool
  | .nil => true
  | .cons e t => termLeaf e && e.op = .literal && allTermLit t

mutual
def semNodeT : Node → Bool
  | .expr e => semShapeT e
  | _ => false
/-- `semShape` with the Column leaves confined to the field positions, where the constructor puts them -/
def semShapeT : Expr → Bool
  | .mk l o r p d =>
    match o with
    | .literal | .wild | .regexp => termLeaf (.mk l o r p d)
    | .and | .or => semNodeT l && semNodeT r
    | .equals | .greater | .less | .greaterEq | .lessEq => (semNodeT l || isColField l) && semNodeT r
    | .not | .must | .mustNot | .fuzzy | .boost => semNodeT l && r.isNil
    | .like =>
      (semNodeT l || isColField l) && (match r with
        | .expr re => termLeaf re && (re.op = .wild || re.op = .regexp)
        | _ => false)
    | .in_ =>
      (semNodeT l || isColField l) && (match r with
        | .expr (.mk (.list es) .list .nil _ _) => allTermLit es && decide (2 ≤ es.length)
        | _ => false)
    | .range =>
      (semNodeT l || isColField l) && (match r with
        | .bound (.expr a) (.expr c) _ => semShapeT a && semShapeT c
        | _ => false)
    | .list | .undefined => false
end

theorem termLeaf_leafy (e : Expr) (h : termLeaf e = true) : leafy e = true := by
  obtain ⟨l, o, r, p, d⟩ := e
  cases l with
  | prim q =>
    cases r <;> simp [termLeaf] at h
    cases q <;> simp [termLeaf] at h <;> simp_all [leafy, leafKindOK, Node.isNil, Op.isLeafOp]
  | _ => simp [termLeaf] at h

theorem termLeaf_wfTree (e : Expr) (h : termLeaf e = true) : wfTree e = true := by
  obtain ⟨l, o, r, p, d⟩ := e
  cases l with
  | prim q =>
    cases r <;> simp [termLeaf] at h
    cases q <;> simp [termLeaf] at h <;> simp_all [wfTree, wfNode]
  | _ => simp [termLeaf] at h

theorem termLeaf_of_shapeT_leafop (e : Expr) (h : semShapeT e = true) (ho : e.op.isLeafOp = true) : termLeaf e = true := by
  obtain ⟨l, o, r, p, d⟩ := e
  cases o <;> simp_all [semShapeT, Op.isLeafOp, Expr.op]

theorem allLeafy_of_allTermLit : ∀ es : ExprList, allTermLit es = true → es.allLeafy = true
  | .nil, _ => by simp [ExprList.allLeafy]
  | .cons e t, h => by
    simp only [allTermLit, Bool.and_eq_true] at h
    simp [ExprList.allLeafy, termLeaf_leafy e h.1.1, allLeafy_of_allTermLit t h.2]

theorem isColField_wf (n : Node) (h : isColField n = true) : wfNode n = true := by
  unfold isColField at h
  split at h
  · simp [wfNode, wfTree]
  · exact absurd h Bool.false_ne_true


mutual
theorem wfNode_of_field : ∀ n : Node, (semNodeT n || isColField n) = true → validateNode n = true → wfNode n = true
  | .expr a, hn, hvn => by
    simp only [Bool.or_eq_true] at hn
    rcases hn with hn | hn
    · simp only [semNodeT] at hn
      simp only [validateNode] at hvn
      simpa [wfNode] using wfTree_of_semShapeT a hn hvn
    · exact isColField_wf _ hn
  | .nil, hn, _ => by simp [semNodeT, isColField] at hn
  | .prim _, hn, _ => by simp [semNodeT, isColField] at hn
  | .list _, hn, _ => by simp [semNodeT, isColField] at hn
  | .bound _ _ _, hn, _ => by simp [semNodeT, isColField] at hn
/-- the parser shape (strict form) and Validate give the shared invariant -/
theorem wfTree_of_semShapeT : ∀ e : Expr, semShapeT e = true → validateExpr e = true → wfTree e = true
  | .mk l o r p d, hs, hv => by
    obtain ⟨hop, hvl, hvr⟩ := validate_top l o r p d hv
    have node : ∀ n : Node, semNodeT n = true → (semNodeT n || isColField n) = true := by
      intro n h; simp [h]
    cases o with
    | undefined => simp [semShapeT] at hs
    | list => simp [semShapeT] at hs
    | literal => simp only [semShapeT] at hs; exact termLeaf_wfTree _ hs
    | wild => simp only [semShapeT] at hs; exact termLeaf_wfTree _ hs
    | regexp => simp only [semShapeT] at hs; exact termLeaf_wfTree _ hs
    | and =>
      simp only [semShapeT, Bool.and_eq_true] at hs
      simp [wfTree, wfNode_of_field l (node l hs.1) hvl, wfNode_of_field r (node r hs.2) hvr]
    | or =>
      simp only [semShapeT, Bool.and_eq_true] at hs
      simp [wfTree, wfNode_of_field l (node l hs.1) hvl, wfNode_of_field r (node r hs.2) hvr]
    | equals =>
      simp only [semShapeT, Bool.and_eq_true] at hs
      simp [wfTree, wfNode_of_field l hs.1 hvl, wfNode_of_field r (node r hs.2) hvr]
    | greater =>
      simp only [semShapeT, Bool.and_eq_true] at hs
      simp [wfTree, wfNode_of_field l hs.1 hvl, wfNode_of_field r (node r hs.2) hvr]
    | less =>
      simp only [semShapeT, Bool.and_eq_true] at hs
      simp [wfTree, wfNode_of_field l hs.1 hvl, wfNode_of_field r (node r hs.2) hvr]
    | greaterEq =>
      simp only [semShapeT, Bool.and_eq_true] at hs
      simp [wfTree, wfNode_of_field l hs.1 hvl, wfNode_of_field r (node r hs.2) hvr]
    | lessEq =>
      simp only [semShapeT, Bool.and_eq_true] at hs
      simp [wfTree, wfNode_of_field l hs.1 hvl, wfNode_of_field r (node r hs.2) hvr]
    | not =>
      simp only [semShapeT, Bool.and_eq_true] at hs
      cases r <;> simp [Node.isNil] at hs
      simp [wfTree, wfNode, wfNode_of_field l (node l hs) hvl]
    | must =>
      simp only [semShapeT, Bool.and_eq_true] at hs
      cases r <;> simp [Node.isNil] at hs
      simp [wfTree, wfNode, wfNode_of_field l (node l hs) hvl]
    | mustNot =>
      simp only [semShapeT, Bool.and_eq_true] at hs
      cases r <;> simp [Node.isNil] at hs
      simp [wfTree, wfNode, wfNode_of_field l (node l hs) hvl]
    | fuzzy =>
      simp only [semShapeT, Bool.and_eq_true] at hs
      cases r <;> simp [Node.isNil] at hs
      simp [wfTree, wfNode, wfNode_of_field l (node l hs) hvl]
    | boost =>
      simp only [semShapeT, Bool.and_eq_true] at hs
      cases r <;> simp [Node.isNil] at hs
      simp [wfTree, wfNode, wfNode_of_field l (node l hs) hvl]
    | like =>
      simp only [semShapeT, Bool.and_eq_true] at hs
      obtain ⟨hs1, hs2⟩ := hs
      split at hs2
      · rename_i re
        simp only [Bool.and_eq_true] at hs2
        simp [wfTree, wfNode, wfNode_of_field l hs1 hvl, termLeaf_wfTree re hs2.1]
      · exact absurd hs2 Bool.false_ne_true
    | in_ =>
      simp only [semShapeT, Bool.and_eq_true] at hs
      obtain ⟨hs1, hs2⟩ := hs
      split at hs2
      · rename_i es _ _
        simp only [Bool.and_eq_true] at hs2
        simp [wfTree, wfNode, wfNode_of_field l hs1 hvl, allLeafy_of_allTermLit es hs2.1]
      · exact absurd hs2 Bool.false_ne_true
    | range =>
      unfold semShapeT at hs
      simp only [Bool.and_eq_true] at hs
      obtain ⟨hs1, hs2⟩ := hs
      split at hs2
      · rename_i a c incl
        simp only [Bool.and_eq_true] at hs2
        simp only [validateOp, Expr.op, Expr.left, Expr.right, Option.some.injEq, Bool.and_eq_true] at hop
        obtain ⟨_, ⟨_, hmn⟩, hmx⟩ := hop
        have leafop : ∀ x : Expr, isLiteralExpr (.expr x) = true → x.op.isLeafOp = true := by
          intro x hx
          obtain ⟨xl, xo, xr, xp, xd⟩ := x
          cases xo <;> simp [isLiteralExpr] at hx <;> rfl
        have ha := termLeaf_leafy a (termLeaf_of_shapeT_leafop a hs2.1 (leafop a hmn))
        have hc := termLeaf_leafy c (termLeaf_of_shapeT_leafop c hs2.2 (leafop c hmx))
        simp [wfTree, wfNode, wfNode_of_field l hs1 hvl, ha, hc]
      · exact absurd hs2 Bool.false_ne_true
end


/-! ### every result of the constructor semantics has the strict shape (the proof follows `sem_shape`) -/

theorem semShapeT_leaf (e : Expr) (h : termLeaf e = true) : semShapeT e = true := by
  obtain ⟨l, o, r, p, d⟩ := e
  cases l with
  | prim pr =>
    cases r <;> simp [termLeaf] at h
    cases pr <;> simp [termLeaf] at h <;> cases o <;> simp_all [semShapeT, termLeaf, Op.isLeafOp]
  | _ => simp [termLeaf] at h

theorem isColField_lit_col (s : Bytes) : isColField (.expr (lit (.prim (.col s)))) = true := by
  simp [isColField, lit, mkLeaf]

theorem fieldT_fieldE (op : Op) (a : Expr) (h : semShapeT a = true) :
    (semNodeT (.expr (fieldE op a)) || isColField (.expr (fieldE op a))) = true := by
  obtain ⟨l, o, r, p, d⟩ := a
  have keep : (semNodeT (.expr (.mk l o r p d)) || isColField (.expr (.mk l o r p d))) = true := by
    simp [semNodeT, h]
  cases l with
  | prim pr =>
    cases pr <;> simp only [fieldE] <;> try exact keep
    split
    · simp [isColField_lit_col]
    · exact keep
  | _ => simpa [fieldE] using keep

theorem fieldT_of_shape (a : Expr) (h : semShapeT a = true) :
    (semNodeT (.expr a) || isColField (.expr a)) = true := by
  simp [semNodeT, h]

theorem parseLiteral_termLeaf (t : Tok) : termLeaf (parseLiteral t) = true := by
  unfold parseLiteral
  split
  · simp [termLeaf, lit, mkLeaf, Op.isLeafOp]
  · split
    · simp [termLeaf, mkLeaf, Op.isLeafOp]
    · split
      · simp [termLeaf, lit, mkLeaf]
      · split
        · rename_i f hf
          split at hf
          · split at hf
            · simp at hf
            · rename_i hfin
              simp at hf
              subst hf
              simp only [Bool.or_eq_true, not_or, Bool.not_eq_true] at hfin
              simp [termLeaf, lit, mkLeaf, hfin.1, hfin.2]
          · simp at hf
        · split
          · simp [termLeaf, mkLeaf, Op.isLeafOp]
          · split <;> simp [termLeaf, lit, mkLeaf, Op.isLeafOp]

theorem wrapLiteral_shapeT (df : Bytes) (e w : Expr) (he : semShapeT e = true) (h : wrapLiteral df e = .ok w) :
    semShapeT w = true := by
  unfold wrapLiteral at h
  split at h
  · rename_i hc
    simp only [Bool.and_eq_true, decide_eq_true_eq] at hc
    rw [mkExpr_wrapCol df e hc.1] at h
    simp at h
    subst h
    simp [semShapeT, semNodeT, isColField_lit_col, he]
  · simp at h; subst h; exact he

theorem chained_lits_shapeT : ∀ (e : Expr), semShapeT e = true →
    ∀ x ∈ (chainedOrLiterals e).1, termLeaf x = true ∧ x.op = .literal
  | .mk l o r p d, h => by
    intro x hx
    unfold chainedOrLiterals at hx
    split at hx
    · rename_i ho
      simp at hx
      subst hx
      subst ho
      exact ⟨termLeaf_of_shapeT_leafop _ h (by simp [Expr.op, Op.isLeafOp]), rfl⟩
    · split at hx
      · rename_i ho
        subst ho
        split at hx
        · rename_i le re
          simp only [semShapeT, semNodeT, Bool.and_eq_true] at h
          simp only [List.mem_append] at hx
          rcases hx with hx | hx
          · exact chained_lits_shapeT le h.1 x hx
          · exact chained_lits_shapeT re h.2 x hx
        · simp at hx
      · simp at hx

theorem allTermLit_ofList (lits : List Expr) (h : ∀ x ∈ lits, termLeaf x = true ∧ x.op = .literal) :
    allTermLit (ExprList.ofList lits) = true := by
  induction lits with
  | nil => simp [ExprList.ofList, allTermLit]
  | cons x xs ih =>
    have hx := h x (by simp)
    simp [ExprList.ofList, allTermLit, hx.1, hx.2]
    exact ih (fun y hy => h y (by simp [hy]))


theorem sem_shapeT (env : Env) (df : Bytes) : ∀ (ex : Ex) (e : Expr), sem env df ex = .ok e → semShapeT e = true
  | .leaf t, e, h => by
    simp [sem] at h
    subst h
    exact semShapeT_leaf _ (parseLiteral_termLeaf t)
  | .eq f v, e, h => by
    have ihf := sem_shapeT env df f
    have ihv := sem_shapeT env df v
    simp only [sem] at h
    cases hf : sem env df f with
    | err => simp [hf, bind, Out.bind] at h
    | panic => simp [hf, bind, Out.bind] at h
    | ok f' =>
      cases hv : sem env df v with
      | err => simp [hf, hv, bind, Out.bind] at h
      | panic => simp [hf, hv, bind, Out.bind] at h
      | ok v' =>
        simp only [hf, hv, bind, Out.bind] at h
        have sf := ihf f' hf
        have sv := ihv v' hv
        split at h
        · rename_i hc
          rw [mkExpr_in] at h
          simp at h
          subst h
          simp only [Bool.and_eq_true, decide_eq_true_eq] at hc
          have hall := chained_lits_shapeT v' sv
          simp only [semShapeT, Bool.and_eq_true, mkList, mkLeaf]
          refine ⟨fieldT_fieldE _ _ sf, allTermLit_ofList _ hall, ?_⟩
          simp [length_ofList]
          omega
        · rw [mkExpr_equals] at h
          simp at h
          subst h
          by_cases hw : v'.op = .wild ∨ v'.op = .regexp
          · have hl : termLeaf v' = true := termLeaf_of_shapeT_leafop v' sv (by rcases hw with h | h <;> simp [h, Op.isLeafOp])
            simp only [hw, if_true]
            simp only [semShapeT, Bool.and_eq_true]
            refine ⟨fieldT_fieldE _ _ sf, hl, ?_⟩
            rcases hw with h | h <;> simp [h]
          · simp only [hw, if_false]
            simp only [semShapeT, Bool.and_eq_true]
            exact ⟨fieldT_fieldE _ _ sf, by simpa [semNodeT] using sv⟩
  | .inn f vs, e, h => by simp [sem] at h
  | .cmp gt orEq f v, e, h => by
    have ihf := sem_shapeT env df f
    have ihv := sem_shapeT env df v
    simp only [sem] at h
    cases hf : sem env df f with
    | err => simp [hf, bind, Out.bind] at h
    | panic => simp [hf, bind, Out.bind] at h
    | ok f' =>
      cases hv : sem env df v with
      | err => simp [hf, hv, bind, Out.bind] at h
      | panic => simp [hf, hv, bind, Out.bind] at h
      | ok v' =>
        simp only [hf, hv, bind, Out.bind] at h
        have sf := ihf f' hf
        have sv := ihv v' hv
        rw [mkExpr_bin _ _ _ (by cases gt <;> cases orEq <;> simp [cmpOp])] at h
        simp at h
        subst h
        have hfld := fieldT_fieldE (cmpOp gt orEq) f' sf
        have hsv : semNodeT (.expr v') = true := by simpa [semNodeT] using sv
        cases gt <;> cases orEq <;> simp only [cmpOp, if_true, if_false, Bool.false_eq_true] at hfld ⊢ <;>
          simp only [semShapeT, Bool.and_eq_true] <;> exact ⟨hfld, hsv⟩
  | .range f lo hi incl, e, h => by
    have ihf := sem_shapeT env df f
    have ihlo := sem_shapeT env df lo
    have ihhi := sem_shapeT env df hi
    simp only [sem] at h
    cases hf : sem env df f with
    | err => simp [hf, bind, Out.bind] at h
    | panic => simp [hf, bind, Out.bind] at h
    | ok f' =>
      cases hl : sem env df lo with
      | err => simp [hf, hl, bind, Out.bind] at h
      | panic => simp [hf, hl, bind, Out.bind] at h
      | ok lo' =>
        cases hh : sem env df hi with
        | err => simp [hf, hl, hh, bind, Out.bind] at h
        | panic => simp [hf, hl, hh, bind, Out.bind] at h
        | ok hi' =>
          simp only [hf, hl, hh, bind, Out.bind] at h
          rw [mkExpr_range] at h
          simp at h
          subst h
          unfold semShapeT
          simp only [Bool.and_eq_true]
          exact ⟨fieldT_fieldE _ _ (ihf f' hf), ihlo lo' hl, ihhi hi' hh⟩
  | .and l r, e, h => by
    have ihl := sem_shapeT env df l
    have ihr := sem_shapeT env df r
    simp only [sem] at h
    cases hl : sem env df l with
    | err => simp [hl, bind, Out.bind] at h
    | panic => simp [hl, bind, Out.bind] at h
    | ok l' =>
      cases hr : sem env df r with
      | err => simp [hl, hr, bind, Out.bind] at h
      | panic => simp [hl, hr, bind, Out.bind] at h
      | ok r' =>
        simp only [hl, hr, bind, Out.bind] at h
        cases hwl : wrapLiteral df l' with
        | err => simp [hwl] at h
        | panic => simp [hwl] at h
        | ok wl =>
          cases hwr : wrapLiteral df r' with
          | err => simp [hwl, hwr] at h
          | panic => simp [hwl, hwr] at h
          | ok wr =>
            simp only [hwl, hwr] at h
            rw [mkExpr_bin _ _ _ (by simp)] at h
            simp at h
            subst h
            have s1 := wrapLiteral_shapeT df l' wl (ihl l' hl) hwl
            have s2 := wrapLiteral_shapeT df r' wr (ihr r' hr) hwr
            simp [semShapeT, semNodeT, fieldE_noncol wl .and (by decide), s1, s2]
  | .or l r, e, h => by
    have ihl := sem_shapeT env df l
    have ihr := sem_shapeT env df r
    simp only [sem] at h
    cases hl : sem env df l with
    | err => simp [hl, bind, Out.bind] at h
    | panic => simp [hl, bind, Out.bind] at h
    | ok l' =>
      cases hr : sem env df r with
      | err => simp [hl, hr, bind, Out.bind] at h
      | panic => simp [hl, hr, bind, Out.bind] at h
      | ok r' =>
        simp only [hl, hr, bind, Out.bind] at h
        cases hwl : wrapLiteral df l' with
        | err => simp [hwl] at h
        | panic => simp [hwl] at h
        | ok wl =>
          cases hwr : wrapLiteral df r' with
          | err => simp [hwl, hwr] at h
          | panic => simp [hwl, hwr] at h
          | ok wr =>
            simp only [hwl, hwr] at h
            rw [mkExpr_bin _ _ _ (by simp)] at h
            simp at h
            subst h
            have s1 := wrapLiteral_shapeT df l' wl (ihl l' hl) hwl
            have s2 := wrapLiteral_shapeT df r' wr (ihr r' hr) hwr
            simp [semShapeT, semNodeT, fieldE_noncol wl .or (by decide), s1, s2]
  | .not x, e, h => by
    have ih := sem_shapeT env df x
    simp only [sem] at h
    cases hx : sem env df x with
    | err => simp [hx, bind, Out.bind] at h
    | panic => simp [hx, bind, Out.bind] at h
    | ok x' =>
      simp only [hx, bind, Out.bind] at h
      cases hw : wrapLiteral df x' with
      | err => simp [hw] at h
      | panic => simp [hw] at h
      | ok w =>
        simp only [hw] at h
        rw [mkExpr_unary _ _ (by simp)] at h
        simp at h
        subst h
        simp [semShapeT, semNodeT, wrapLiteral_shapeT df x' w (ih x' hx) hw, Node.isNil]
  | .must x, e, h => by
    have ih := sem_shapeT env df x
    simp only [sem] at h
    cases hx : sem env df x with
    | err => simp [hx, bind, Out.bind] at h
    | panic => simp [hx, bind, Out.bind] at h
    | ok x' =>
      simp only [hx, bind, Out.bind] at h
      rw [mkExpr_unary _ _ (by simp)] at h
      simp at h
      subst h
      simp [semShapeT, semNodeT, ih x' hx, Node.isNil]
  | .mustNot x, e, h => by
    have ih := sem_shapeT env df x
    simp only [sem] at h
    cases hx : sem env df x with
    | err => simp [hx, bind, Out.bind] at h
    | panic => simp [hx, bind, Out.bind] at h
    | ok x' =>
      simp only [hx, bind, Out.bind] at h
      rw [mkExpr_unary _ _ (by simp)] at h
      simp at h
      subst h
      simp [semShapeT, semNodeT, ih x' hx, Node.isNil]
  | .fuzzy x none, e, h => by
    have ih := sem_shapeT env df x
    simp only [sem] at h
    cases hx : sem env df x with
    | err => simp [hx, bind, Out.bind] at h
    | panic => simp [hx, bind, Out.bind] at h
    | ok x' =>
      simp only [hx, bind, Out.bind] at h
      rw [mkExpr_fuzzy] at h
      simp at h
      subst h
      simp [semShapeT, semNodeT, ih x' hx, Node.isNil]
  | .fuzzy x (some dd), e, h => by
    have ih := sem_shapeT env df x
    simp only [sem] at h
    cases hx : sem env df x with
    | err => simp [hx, bind, Out.bind] at h
    | panic => simp [hx, bind, Out.bind] at h
    | ok x' =>
      cases hd : sem env df dd with
      | err => simp [hx, hd, bind, Out.bind] at h
      | panic => simp [hx, hd, bind, Out.bind] at h
      | ok d' =>
        simp only [hx, hd, bind, Out.bind] at h
        cases hs : strOf env d' with
        | err => simp [hs] at h
        | panic => simp [hs] at h
        | ok str =>
          simp only [hs] at h
          cases ha : atoi str with
          | none => simp [ha] at h
          | some i =>
            simp only [ha] at h
            rw [mkExpr_fuzzy] at h
            simp at h
            subst h
            simp [semShapeT, semNodeT, ih x' hx, Node.isNil]
  | .boost x none, e, h => by
    have ih := sem_shapeT env df x
    simp only [sem] at h
    cases hx : sem env df x with
    | err => simp [hx, bind, Out.bind] at h
    | panic => simp [hx, bind, Out.bind] at h
    | ok x' =>
      simp only [hx, bind, Out.bind] at h
      rw [mkExpr_boost] at h
      simp at h
      subst h
      simp [semShapeT, semNodeT, ih x' hx, Node.isNil]
  | .boost x (some pp), e, h => by
    have ih := sem_shapeT env df x
    simp only [sem] at h
    cases hx : sem env df x with
    | err => simp [hx, bind, Out.bind] at h
    | panic => simp [hx, bind, Out.bind] at h
    | ok x' =>
      cases hd : sem env df pp with
      | err => simp [hx, hd, bind, Out.bind] at h
      | panic => simp [hx, hd, bind, Out.bind] at h
      | ok p' =>
        simp only [hx, hd, bind, Out.bind] at h
        cases hs : strOf env p' with
        | err => simp [hs] at h
        | panic => simp [hs] at h
        | ok str =>
          simp only [hs] at h
          cases ha : toPositiveFloat str with
          | none => simp [ha] at h
          | some f =>
            simp only [ha] at h
            rw [mkExpr_boost] at h
            simp at h
            subst h
            simp [semShapeT, semNodeT, ih x' hx, Node.isNil]


/-! ### the strict shape strengthens `semShape` -/

theorem semLeaf_of_termLeaf (e : Expr) (h : termLeaf e = true) : semLeaf e = true := by
  obtain ⟨l, o, r, p, d⟩ := e
  cases l with
  | prim q =>
    cases r <;> simp [termLeaf] at h
    cases q <;> simp [termLeaf] at h <;> simp_all [semLeaf]
  | _ => simp [termLeaf] at h

theorem allSemLit_of_allTermLit : ∀ es : ExprList, allTermLit es = true → es.allSemLit = true
  | .nil, _ => by simp [ExprList.allSemLit]
  | .cons e t, h => by
    simp only [allTermLit, Bool.and_eq_true] at h
    simp only [ExprList.allSemLit, Bool.and_eq_true]
    exact ⟨⟨semLeaf_of_termLeaf e h.1.1, h.1.2⟩, allSemLit_of_allTermLit t h.2⟩

theorem isColField_semNode (n : Node) (h : isColField n = true) : semNode n = true := by
  unfold isColField at h
  split at h
  · simp [semNode, semShape, semLeaf]
  · exact absurd h Bool.false_ne_true

mutual
theorem semNode_of_field : ∀ n : Node, (semNodeT n || isColField n) = true → semNode n = true
  | .expr a, hn => by
    simp only [Bool.or_eq_true] at hn
    rcases hn with hn | hn
    · simp only [semNodeT] at hn
      simpa [semNode] using semShape_of_semShapeT a hn
    · exact isColField_semNode _ hn
  | .nil, hn => by simp [semNodeT, isColField] at hn
  | .prim _, hn => by simp [semNodeT, isColField] at hn
  | .list _, hn => by simp [semNodeT, isColField] at hn
  | .bound _ _ _, hn => by simp [semNodeT, isColField] at hn
/-- the strict shape is a strengthening of `semShape` -/
theorem semShape_of_semShapeT : ∀ e : Expr, semShapeT e = true → semShape e = true
  | .mk l o r p d, hs => by
    have node : ∀ n : Node, semNodeT n = true → (semNodeT n || isColField n) = true := by
      intro n h; simp [h]
    cases o with
    | undefined => simp [semShapeT] at hs
    | list => simp [semShapeT] at hs
    | literal => simp only [semShapeT] at hs; simpa [semShape] using semLeaf_of_termLeaf _ hs
    | wild => simp only [semShapeT] at hs; simpa [semShape] using semLeaf_of_termLeaf _ hs
    | regexp => simp only [semShapeT] at hs; simpa [semShape] using semLeaf_of_termLeaf _ hs
    | and =>
      simp only [semShapeT, Bool.and_eq_true] at hs
      simp [semShape, semNode_of_field l (node l hs.1), semNode_of_field r (node r hs.2)]
    | or =>
      simp only [semShapeT, Bool.and_eq_true] at hs
      simp [semShape, semNode_of_field l (node l hs.1), semNode_of_field r (node r hs.2)]
    | equals =>
      simp only [semShapeT, Bool.and_eq_true] at hs
      simp [semShape, semNode_of_field l hs.1, semNode_of_field r (node r hs.2)]
    | greater =>
      simp only [semShapeT, Bool.and_eq_true] at hs
      simp [semShape, semNode_of_field l hs.1, semNode_of_field r (node r hs.2)]
    | less =>
      simp only [semShapeT, Bool.and_eq_true] at hs
      simp [semShape, semNode_of_field l hs.1, semNode_of_field r (node r hs.2)]
    | greaterEq =>
      simp only [semShapeT, Bool.and_eq_true] at hs
      simp [semShape, semNode_of_field l hs.1, semNode_of_field r (node r hs.2)]
    | lessEq =>
      simp only [semShapeT, Bool.and_eq_true] at hs
      simp [semShape, semNode_of_field l hs.1, semNode_of_field r (node r hs.2)]
    | not =>
      simp only [semShapeT, Bool.and_eq_true] at hs
      simp [semShape, semNode_of_field l (node l hs.1), hs.2]
    | must =>
      simp only [semShapeT, Bool.and_eq_true] at hs
      simp [semShape, semNode_of_field l (node l hs.1), hs.2]
    | mustNot =>
      simp only [semShapeT, Bool.and_eq_true] at hs
      simp [semShape, semNode_of_field l (node l hs.1), hs.2]
    | fuzzy =>
      simp only [semShapeT, Bool.and_eq_true] at hs
      simp [semShape, semNode_of_field l (node l hs.1), hs.2]
    | boost =>
      simp only [semShapeT, Bool.and_eq_true] at hs
      simp [semShape, semNode_of_field l (node l hs.1), hs.2]
    | like =>
      simp only [semShapeT, Bool.and_eq_true] at hs
      obtain ⟨hs1, hs2⟩ := hs
      split at hs2
      · rename_i re
        simp only [Bool.and_eq_true] at hs2
        simp only [semShape, Bool.and_eq_true]
        exact ⟨semNode_of_field l hs1, semLeaf_of_termLeaf re hs2.1, hs2.2⟩
      · exact absurd hs2 Bool.false_ne_true
    | in_ =>
      simp only [semShapeT, Bool.and_eq_true] at hs
      obtain ⟨hs1, hs2⟩ := hs
      split at hs2
      · rename_i es _ _
        simp only [Bool.and_eq_true] at hs2
        simp only [semShape, Bool.and_eq_true]
        exact ⟨semNode_of_field l hs1, allSemLit_of_allTermLit es hs2.1, hs2.2⟩
      · exact absurd hs2 Bool.false_ne_true
    | range =>
      unfold semShapeT at hs
      simp only [Bool.and_eq_true] at hs
      obtain ⟨hs1, hs2⟩ := hs
      split at hs2
      · rename_i a c incl
        simp only [Bool.and_eq_true] at hs2
        unfold semShape
        simp only [Bool.and_eq_true]
        exact ⟨semNode_of_field l hs1, semShape_of_semShapeT a hs2.1, semShape_of_semShapeT c hs2.2⟩
      · exact absurd hs2 Bool.false_ne_true
end

/-- the strict shape survives the default-field edge case at accept -/
theorem finalize_shapeT (env : Env) (df : Bytes) (ex : Ex) (e : Expr) (h : finalize env df ex = .ok e) :
    semShapeT e = true ∧ validateExpr e = true := by
  unfold finalize at h
  cases hs : sem env df ex with
  | err => simp [hs, bind, Out.bind] at h
  | panic => simp [hs, bind, Out.bind] at h
  | ok e0 =>
    simp only [hs, bind, Out.bind] at h
    have s0 := sem_shapeT env df ex e0 hs
    split at h
    · rename_i hc
      simp only [Bool.and_eq_true, decide_eq_true_eq] at hc
      rw [mkExpr_wrapStr df e0 hc.1] at h
      simp only at h
      split at h
      · rename_i hv
        simp at h
        subst h
        refine ⟨?_, hv⟩
        simp [semShapeT, semNodeT, isColField_lit_col, s0]
      · simp at h
    · split at h
      · rename_i hv
        simp at h
        subst h
        exact ⟨s0, hv⟩
      · simp at h

/-- every expression `lucene.Parse` returns is well-formed and validated -/
theorem parse_wf (env : Env) (s df : Bytes) (e : Expr) (h : parseQuery env s df = .ok e) :
    wfTree e = true ∧ validateExpr e = true := by
  unfold parseQuery parseTokens at h
  split at h
  · cases h
  · rename_i ex _
    have := finalize_shapeT env df ex e h
    exact ⟨wfTree_of_semShapeT e this.1 this.2, this.2⟩

/-- (4) no printer and no PostgreSQL renderer panics on a result of `lucene.Parse` -/
theorem parse_no_panic (env : Env) (s df : Bytes) (e : Expr) (h : parseQuery env s df = .ok e)
    (ip : Nat → Bool) (verbose : Bool) :
    strE ip verbose e ≠ .panic ∧ render pgFns e ≠ .panic ∧ renderParam pgFns e ≠ .panic := by
  obtain ⟨hw, hv⟩ := parse_wf env s df e h
  exact ⟨string_no_panic ip verbose e hv, render_pg_no_panic e hw hv, renderParam_pg_no_panic e hw hv⟩

/-- the same for an expression returned by the JSON decoder, once it passes Validate -/
theorem unmarshal_no_panic (data : Bytes) (e : Expr) (h : unmarshalTop data = .ok e) (hv : validateExpr e = true)
    (ip : Nat → Bool) (verbose : Bool) :
    strE ip verbose e ≠ .panic ∧ render pgFns e ≠ .panic ∧ renderParam pgFns e ≠ .panic := by
  have hw := unmarshalTop_wf data e h
  exact ⟨string_no_panic ip verbose e hv, render_pg_no_panic e hw hv, renderParam_pg_no_panic e hw hv⟩

end GoLucene.NoPanic

#print axioms GoLucene.NoPanic.string_no_panic
#print axioms GoLucene.NoPanic.render_pg_no_panic
#print axioms GoLucene.NoPanic.renderParam_pg_no_panic
#print axioms GoLucene.NoPanic.parse_no_panic
