import GoLucene.Proofs.Full
namespace GoLucene

def closesB (n : Nat) (la : TT) : Bool :=
  !la.isTerm && la != .err && !isOpen la && !endingRange la && !la.isPrefixOp && decide (n ≤ la.num)

theorem closes_of_B {n : Nat} {la : TT} (h : closesB n la = true) : Closes n la := by
  simp [closesB] at h
  obtain ⟨⟨⟨⟨⟨h1, h2⟩, h3⟩, h4⟩, h5⟩, h6⟩ := h
  exact ⟨by simpa using h1, h2, by simpa using h3, by simpa using h4, by simpa using h5, h6⟩

/-- shifting an operator token under an admitting context -/
def isOpTok (o : TT) : Bool :=
  o = .equal || o = .greater || o = .less || o = .colon || o = .plus || o = .minus || o = .tilde ||
  o = .carrot || o = .tnot || o = .tand || o = .tor

theorem shift_ok {cur o : TT} (ho : isOpTok o = true)
    (h : isOpen cur = true ∨ (anyClosingBracket cur = false ∧ (cur.num > o.num ∨ (cur = o ∧ o.isPrefixOp = true)))) :
    shouldShift cur o = true := by
  rcases h with h | ⟨h1, h2 | ⟨h2, h3⟩⟩
  · cases cur <;> cases o <;> simp_all [isOpTok, shouldShift, TT.isTerminal, anyOpenBracket, isOpen, endingRange]
  · cases cur <;> cases o <;> simp_all [isOpTok, shouldShift, TT.isTerminal, anyOpenBracket, isOpen,
      endingRange, anyClosingBracket, hasLessPrecedence, TT.num, TT.isPrefixOp]
  · subst h2
    cases cur <;> simp_all [isOpTok, shouldShift, TT.isTerminal, anyOpenBracket, isOpen,
      endingRange, anyClosingBracket, hasLessPrecedence, TT.num, TT.isPrefixOp]

theorem optok_facts {o : TT} (ho : isOpTok o = true) : o ≠ .eof ∧ o.isTerminal = false := by
  cases o <;> simp_all [isOpTok, TT.isTerminal]

/-- shift an operator token `tk o` -/
theorem step_op (isNum : Bool → Ex → Bool) (c : Cfg) (o : TT) (rest : List Tok) (ho : isOpTok o = true)
    (h : isOpen (curOf c) = true ∨ (anyClosingBracket (curOf c) = false ∧
          ((curOf c).num > o.num ∨ (curOf c = o ∧ o.isPrefixOp = true)))) :
    runW isNum c (tk o :: rest) = runW isNum ⟨.tok o :: c.stack, o :: c.nts⟩ rest := by
  have := optok_facts ho
  exact step_shift_op isNum c (tk o) rest (by simpa [tk] using this.1) (by simpa [tk] using this.2)
    (by simpa [tk] using shift_ok ho h)

/-- same, with the configuration given by its two stacks (helps unification) -/
theorem step_op2 (isNum : Bool → Ex → Bool) (σ : List Item) (ν : List TT) (o : TT) (rest : List Tok) (ho : isOpTok o = true)
    (h : isOpen (curOf ⟨[], ν⟩) = true ∨ (anyClosingBracket (curOf ⟨[], ν⟩) = false ∧
          ((curOf ⟨[], ν⟩).num > o.num ∨ (curOf ⟨[], ν⟩ = o ∧ o.isPrefixOp = true)))) :
    runW isNum ⟨σ, ν⟩ (tk o :: rest) = runW isNum ⟨.tok o :: σ, o :: ν⟩ rest :=
  step_op isNum ⟨σ, ν⟩ o rest ho h

/-- brackets and TO are shifted by the bracket rules, whatever the precedence -/
theorem step_open (isNum : Bool → Ex → Bool) (c : Cfg) (o : TT) (rest : List Tok) (ho : isOpen o = true) :
    runW isNum c (tk o :: rest) = runW isNum ⟨.tok o :: c.stack, o :: c.nts⟩ rest := by
  refine step_shift_op isNum c (tk o) rest ?_ ?_ ?_ <;>
    cases o <;> simp_all [tk, isOpen, TT.isTerminal, shouldShift, anyOpenBracket]

theorem step_under_open (isNum : Bool → Ex → Bool) (c : Cfg) (o : TT) (rest : List Tok)
    (hc : isOpen (curOf c) = true) (ho : o = .tto ∨ o = .rparen) :
    runW isNum c (tk o :: rest) = runW isNum ⟨.tok o :: c.stack, o :: c.nts⟩ rest := by
  refine step_shift_op isNum c (tk o) rest ?_ ?_ ?_ <;>
    rcases ho with rfl | rfl <;> cases h : curOf c <;>
    simp_all [tk, isOpen, TT.isTerminal, shouldShift, anyOpenBracket]

theorem step_close_range (isNum : Bool → Ex → Bool) (c : Cfg) (b : Br) (rest : List Tok)
    (hc : curOf c = .tto) :
    runW isNum c (tk b.closeT :: rest) = runW isNum ⟨.tok b.closeT :: c.stack, b.closeT :: c.nts⟩ rest := by
  refine step_shift_op isNum c (tk b.closeT) rest ?_ ?_ ?_ <;>
    cases b <;> simp_all [tk, Br.closeT, TT.isTerminal, shouldShift, anyOpenBracket, endingRange]

/-- when the lookahead closes, a non-bracket operator on top of the non-terminal stack does not shift -/
theorem noShift_op {o la : TT} {n : Nat} (hc : Closes n la) (ho : isOpTok o = true) (hn : o.num ≤ n) :
    shouldShift o la = false := by
  refine noShift_of_closes hc hn ?_ ?_ <;> cases o <;> simp_all [isOpTok, anyClosingBracket, isOpen]

theorem noShift_closer {o la : TT} {n : Nat} (hc : Closes n la) (ho : anyClosingBracket o = true) :
    shouldShift o la = false := by
  have h1 := hc.nterm; have h2 := hc.nerr; have h3 := hc.nopen; have h4 := hc.nend
  cases o <;> cases la <;> simp_all [shouldShift, TT.isTerm, TT.isTerminal, anyOpenBracket, isOpen,
    endingRange, anyClosingBracket]

end GoLucene
