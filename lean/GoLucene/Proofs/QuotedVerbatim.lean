import GoLucene.Proofs.Full3
import GoLucene.Proofs.SemShape
import GoLucene.Proofs.RespaceBytes
import GoLucene.Proofs.SqlQuote
import GoLucene.Proofs.NoPanic
import GoLucene.Model.Sem
import GoLucene.Model.Driver
/-
  C08, quoting clause, END TO END (query text → lexer → shift/reduce parser → tree → PostgreSQL text → PostgreSQL's
  scanner and grammar):

    "Any text that contains no double quote, written between double quotes, is one string value equal to that text
     byte for byte — whatever operators, keywords, digits, wildcards, slashes, backslashes or whitespace it
     contains — in the tree, in the inline SQL constant as PostgreSQL decodes it, and in the parameter list."

  Main results (namespace `GoLucene.QuotedVerbatim`), for a field name `f` that is a non-empty word of ASCII letters,
  not a keyword, whose letters are letters of the lexer's class table, and ANY bytes `w` without the byte 34:

    quoted_tree         parseQuery env (f ++ ":\"" ++ w ++ "\"") df = .ok (f = w)        (any default field `df`)
    quoted_tree_nodf    the same with `df = []`, in the literal form of the property
    quoted_default_tree parseQuery env ("\"" ++ w ++ "\"") f = .ok (f = w)               (any non-empty `f`)
    quoted_sql          render pgFns (f = w) = .ok t and PostgreSQL reads t as `.cmp .eq (.col f) (.str w)`,
                        when `w` is valid UTF-8 without NUL
    quoted_sql_iff      ... and render fails (`.err`, never a wrong text) exactly when `w` is invalid UTF-8 or has a NUL
    quoted_params       renderParam pgFns (f = w) = .ok ("f" = ?, [.str w])               (no condition on `w` at all)
    quoted_verbatim     the three together, from the query text
    quoted_default_verbatim   the same for the bare quoted query with default field `f`

  Hypotheses beyond the ones of the property (see section `Necessity`):
    * `env.cls.quoteColonNotAlnum`: the runes `"` and `:` are neither letters nor digits in the class table the lexer
      is run with.  The lexer tests "is this a word character" BEFORE "is this a symbol / a quote", so with a table in
      which `"` is a letter `"a"` is a bare word, and with `:` a letter `f:` is one word.  True of unicode.IsLetter /
      unicode.IsDigit.
    * nothing about numbers: an all-letter `f` is never an integer; `inf`, `nan`, `infinity`, `Inf`, … do parse as
      floats but `parseLiteral` rejects non-finite floats, so the leaf is the string (`parseLiteral_word`).
-/

namespace GoLucene

/-- the double quote and the colon are neither letters nor digits (true of unicode.IsLetter / IsDigit) -/
def Cls.quoteColonNotAlnum (k : Cls) : Prop := k.isAlnum 34 = false ∧ k.isAlnum 58 = false

/-! ## 0. `unescape` (parse.go, fix F13): general facts, reused by the escaping clause (Proofs/EscapedVerbatim.lean) and
   by C12 (Proofs/JsonParse.lean) -/

theorem unescape_nil : unescape [] = [] := by rw [unescape]

theorem unescape_bsl_single : unescape [92] = [] := by rw [unescape]; rfl

/-- an escape sequence: the backslash goes, the escaped byte — whatever it is, a backslash included — stays -/
theorem unescape_bsl_cons (d : UInt8) (rest : Bytes) : unescape (92 :: d :: rest) = d :: unescape rest := by
  rw [unescape]; rfl

/-- a byte other than the backslash is copied -/
theorem unescape_cons_of_ne (c : UInt8) (hc : c ≠ 92) (t : Bytes) : unescape (c :: t) = c :: unescape t := by
  have h : (c == 92) = false := by simpa using hc
  cases t with
  | nil => simp [unescape, h]
  | cons d rest => simp [unescape, h]

/-- a backslash-free prefix is copied -/
theorem unescape_append_of_no_bsl : ∀ (a t : Bytes), (∀ c ∈ a, c ≠ 92) → unescape (a ++ t) = a ++ unescape t
  | [], _, _ => rfl
  | c :: a, t, h => by
    rw [List.cons_append, unescape_cons_of_ne c (h c (by simp)),
      unescape_append_of_no_bsl a t (fun x hx => h x (by simp [hx]))]
    rfl

/-- without a backslash there is nothing to unescape -/
theorem unescape_of_no_bsl (a : Bytes) (h : ∀ c ∈ a, c ≠ 92) : unescape a = a := by
  have := unescape_append_of_no_bsl a [] h
  rwa [List.append_nil, unescape_nil, List.append_nil] at this

theorem unescape_of_any_false (a : Bytes) (h : a.any (· == 92) = false) : unescape a = a :=
  unescape_of_no_bsl a (fun c hc => by
    rw [List.any_eq_false] at h
    simpa using h c hc)

/-- unescaping only removes bytes -/
theorem unescape_sublist : ∀ (n : Nat) (w : Bytes), w.length ≤ n → (unescape w).Sublist w := by
  intro n
  induction n with
  | zero =>
    intro w h
    have : w = [] := List.length_eq_zero_iff.mp (by omega)
    subst this
    rw [unescape_nil]
    exact List.Sublist.refl _
  | succ n ih =>
    intro w hl
    cases w with
    | nil => rw [unescape_nil]; exact List.Sublist.refl _
    | cons c t =>
      by_cases hc : c = 92
      · subst hc
        cases t with
        | nil => rw [unescape_bsl_single]; exact List.nil_sublist _
        | cons d rest =>
          rw [unescape_bsl_cons]
          exact .cons _ (.cons_cons _ (ih rest (by simp at hl ⊢; omega)))
      · rw [unescape_cons_of_ne c hc]
        exact .cons_cons _ (ih t (by simp at hl ⊢; omega))

theorem mem_of_mem_unescape {x : UInt8} {w : Bytes} (h : x ∈ unescape w) : x ∈ w :=
  (unescape_sublist _ w (Nat.le_refl _)).subset h

/-- **unescape inverts escaping, byte level**: put a backslash before every byte of a set that contains the backslash
    itself (and before any others one likes) — `unescape` gives the text back -/
theorem unescape_escapeBytes (p : UInt8 → Bool) (hp : p 92 = true) : ∀ w : Bytes,
    unescape (w.flatMap (fun c => if p c then [92, c] else [c])) = w
  | [] => by simp [unescape_nil]
  | c :: w => by
    have ih := unescape_escapeBytes p hp w
    rw [List.flatMap_cons]
    cases h : p c with
    | true =>
      simp only [if_true, List.cons_append, List.nil_append]
      rw [unescape_bsl_cons, ih]
    | false =>
      have hc : c ≠ 92 := by intro e; subst e; rw [hp] at h; cases h
      simp only [Bool.false_eq_true, if_false, List.cons_append, List.nil_append]
      rw [unescape_cons_of_ne c hc, ih]

namespace QuotedVerbatim
open NoPanic (sp_nil sp_expr sp_col sp_str)

/-- an ASCII letter `a–z` / `A–Z` -/
def isAsciiLetter (c : UInt8) : Bool := (65 ≤ c && c ≤ 90) || (97 ≤ c && c ≤ 122)

/-- the tree `f = w`: Equals(Lit(Column f), Lit(string w)), boost 1.0, fuzzy 1 -/
def tree (f w : Bytes) : Expr :=
  Expr.mk (.expr (lit (.prim (.col f)))) .equals (.expr (lit (.prim (.str w)))) F64.one 1

/-! ## 1. ASCII letters -/

theorem asciiLetter_range (c : UInt8) (h : isAsciiLetter c = true) :
    (65 ≤ c.toNat ∧ c.toNat ≤ 90) ∨ (97 ≤ c.toNat ∧ c.toNat ≤ 122) := by
  simpa only [isAsciiLetter, Bool.or_eq_true, Bool.and_eq_true, decide_eq_true_eq,
    UInt8.le_iff_toNat_le, UInt8.toNat_ofNat] using h

theorem asciiLetter_lt (c : UInt8) (h : isAsciiLetter c = true) : c < 0x80 := by
  have := asciiLetter_range c h
  simp only [UInt8.lt_iff_toNat_lt, UInt8.toNat_ofNat]
  omega

theorem asciiLetter_ne (c d : UInt8) (h : isAsciiLetter c = true) (hd : isAsciiLetter d = false) : c ≠ d := by
  intro e; subst e; rw [h] at hd; cases hd

/-! ## 2. decoding -/

theorem decode_nil : decode [] = [] := by rw [decode]

theorem decode_ascii_prefix : ∀ (f t : Bytes), (∀ c ∈ f, c < 0x80) →
    decode (f ++ t) = f.map asciiCell ++ decode t
  | [], t, _ => by simp
  | c :: f, t, h => by
    rw [List.cons_append, decode_ascii c (h c (by simp)), decode_ascii_prefix f t (fun x hx => h x (by simp [hx]))]
    simp

theorem cellsBytes_map_ascii (f : Bytes) : cellsBytes (f.map asciiCell) = f := by
  induction f with
  | nil => rfl
  | cons c f ih => rw [List.map_cons, cellsBytes_cons, ih]; rfl

/-- only the byte 34 decodes to the rune 34: no multi-byte and no invalid sequence yields `"` -/
theorem decode1_34 (b0 : UInt8) (rest : Bytes) (h : (decode1 b0 rest).1 = 34) : b0 = 34 := by
  unfold decode1 at h
  by_cases c1 : b0 < 0x80
  · simp only [c1, if_true] at h
    exact UInt8.toNat_inj.mp h
  · exfalso
    simp only [c1, if_false] at h
    repeat' split at h
    all_goals simp only [] at h
    all_goals first
      | omega
      | (simp only [Bool.and_eq_true, decide_eq_true_eq, UInt8.le_iff_toNat_le, UInt8.lt_iff_toNat_lt, cont,
          ← UInt8.toNat_inj, UInt8.toNat_ofNat] at *
         omega)

/-- bytes without `"` decode to cells without the rune `"` (arbitrary bytes, invalid UTF-8 included) -/
theorem decode_no34 : ∀ (n : Nat) (w : Bytes), w.length ≤ n → (∀ c ∈ w, c ≠ 34) → ∀ c ∈ decode w, c.r ≠ 34 := by
  intro n
  induction n with
  | zero =>
    intro w h _ c hc
    have : w = [] := List.length_eq_zero_iff.mp (by omega)
    subst this
    rw [decode] at hc
    simp at hc
  | succ n ih =>
    intro w hl hw c hc
    cases w with
    | nil => rw [decode] at hc; simp at hc
    | cons b0 B =>
      rw [decode_cons] at hc
      simp only [List.mem_cons] at hc
      rcases hc with rfl | hc
      · intro h34
        exact hw b0 (by simp) (decode1_34 b0 B h34)
      · refine ih (B.drop ((decode1 b0 B).2 - 1)) ?_ ?_ c hc
        · simp at hl ⊢; omega
        · intro x hx
          exact hw x (List.mem_cons_of_mem _ (List.mem_of_mem_drop hx))

/-- the decoded cells of `"w"` -/
theorem decode_quoted (w : Bytes) :
    decode ([34] ++ w ++ [34]) = asciiCell 34 :: (decode w ++ [asciiCell 34]) := by
  have h : [34] ++ w ++ [34] = (34 : UInt8) :: (w ++ 34 :: []) := by simp
  rw [h, decode_ascii 34 (by decide), decode_append_ascii 34 (by decide) _ w [] (Nat.lt_succ_self _), decode_nil]

theorem cellsBytes_quoted (w : Bytes) :
    cellsBytes (asciiCell 34 :: (decode w ++ [asciiCell 34])) = [34] ++ w ++ [34] := by
  rw [cellsBytes_cons, cellsBytes_append, decode_lossless _ w (Nat.le_refl _)]
  simp [cellsBytes, asciiCell]

/-! ## 3. the lexer -/

theorem isWs_ge (n : Nat) (h : 33 ≤ n) : isWs n = false := by
  have h1 : n ≠ 32 := by omega
  have h2 : n ≠ 9 := by omega
  have h3 : n ≠ 13 := by omega
  have h4 : n ≠ 10 := by omega
  simp [isWs, h1, h2, h3, h4]

theorem lexPhrase_run (q : Nat) : ∀ (xs : List Cell) (c : Cell) (rest : List Cell), (∀ x ∈ xs, x.r ≠ q) → c.r = q →
    lexPhrase q (xs ++ c :: rest) = some (xs ++ [c], rest)
  | [], c, rest, _, hc => by simp [lexPhrase, hc]
  | x :: xs, c, rest, hx, hc => by
    have h1 : x.r ≠ q := hx x (by simp)
    simp only [List.cons_append, lexPhrase, h1, if_false]
    rw [lexPhrase_run q xs c rest (fun y hy => hx y (by simp [hy])) hc]

/-- a run of letter/digit/underscore cells followed by a cell that is no word character -/
theorem lexWord_run (k : Cls) : ∀ (xs : List Cell) (c : Cell) (rest : List Cell),
    (∀ x ∈ xs, k.isAlnum x.r = true) →
    k.isAlnum c.r = false → isWild c.r = false → c.r ≠ 46 → c.r ≠ 45 → isEsc c.r = false →
    lexWord k (xs ++ c :: rest) = (xs, c :: rest)
  | [], c, rest, _, h1, h2, h3, h4, h5 => by
    rw [List.nil_append, lexWord.eq_def]
    simp [h1, h2, h3, h4, h5]
  | x :: xs, c, rest, hx, h1, h2, h3, h4, h5 => by
    have hx1 : k.isAlnum x.r = true := hx x (by simp)
    rw [List.cons_append, lexWord.eq_def]
    simp only [hx1, Bool.true_or, if_true]
    rw [lexWord_run k xs c rest (fun y hy => hx y (by simp [hy])) h1 h2 h3 h4 h5]

theorem next_word (k : Cls) (x : Cell) (xs : List Cell) (c : Cell) (rest : List Cell)
    (hx : ∀ y ∈ x :: xs, k.isAlnum y.r = true) (hws : isWs x.r = false)
    (h1 : k.isAlnum c.r = false) (h2 : isWild c.r = false) (h3 : c.r ≠ 46) (h4 : c.r ≠ 45) (h5 : isEsc c.r = false) :
    next k (x :: xs ++ c :: rest) =
      .tok ⟨(keywordOf (cellsBytes (x :: xs))).getD .literal, cellsBytes (x :: xs)⟩ [] (x :: xs) (c :: rest) := by
  have hx1 : k.isAlnum x.r = true := hx x (by simp)
  have hw := lexWord_run k (x :: xs) c rest hx h1 h2 h3 h4 h5
  simp only [List.cons_append] at hw ⊢
  simp only [next, dropWs, hws, Bool.false_eq_true, if_false, hx1, Bool.true_or, if_true, hw]

theorem next_colon (k : Cls) (h58 : k.isAlnum 58 = false) (cs : List Cell) :
    next k (asciiCell 58 :: cs) = .tok ⟨.colon, [58]⟩ [] [asciiCell 58] cs := by
  simp [next, dropWs, h58, isWs, isWild, isEsc, symbolOf, symbolTable, List.lookup, asciiCell]

theorem next_quoted (k : Cls) (h34 : k.isAlnum 34 = false) (xs rest : List Cell) (hxs : ∀ x ∈ xs, x.r ≠ 34) :
    next k (asciiCell 34 :: (xs ++ asciiCell 34 :: rest)) =
      .tok ⟨.quoted, cellsBytes (asciiCell 34 :: (xs ++ [asciiCell 34]))⟩ [] (asciiCell 34 :: (xs ++ [asciiCell 34])) rest := by
  have e : (asciiCell 34).r = 34 := rfl
  have hp := lexPhrase_run 34 xs (asciiCell 34) rest hxs e
  simp [next, dropWs, e, h34, isWs, isWild, isEsc, symbolOf, symbolTable, List.lookup, hp]

theorem next_nil (k : Cls) : next k [] = .eof [] := by simp [next, dropWs]

/-- lexing `"w"`: one quoted token carrying the text with its quotes, then EOF -/
theorem lexAll_quoted (k : Cls) (h34 : k.isAlnum 34 = false) (w : Bytes) (hw : ∀ c ∈ w, c ≠ 34) :
    lexAll k (decode ([34] ++ w ++ [34])) = ([([], ⟨.quoted, [34] ++ w ++ [34]⟩)], .eof, [], []) := by
  rw [decode_quoted w]
  have hn := next_quoted k h34 (decode w) [] (decode_no34 _ w (Nat.le_refl _) hw)
  rw [cellsBytes_quoted] at hn
  rw [lexAll_tok k _ _ _ _ _ hn, lexAll_eof k [] [] (next_nil k)]

/-- lexing `f:"w"`: exactly three tokens, then EOF -/
theorem lexAll_field_quoted (k : Cls) (hk : k.quoteColonNotAlnum)
    (f w : Bytes) (hne : f ≠ [])
    (hasc : ∀ c ∈ f, isAsciiLetter c = true) (hlet : ∀ c ∈ f, k.isLetter c.toNat = true)
    (hkw : keywordOf f = none) (hw : ∀ c ∈ w, c ≠ 34) :
    lexAll k (decode (f ++ [58, 34] ++ w ++ [34])) =
      ([([], ⟨.literal, f⟩), ([], ⟨.colon, [58]⟩), ([], ⟨.quoted, [34] ++ w ++ [34]⟩)], .eof, [], []) := by
  obtain ⟨h34, h58⟩ := hk
  have hlt : ∀ c ∈ f, c < 0x80 := fun c hc => asciiLetter_lt c (hasc c hc)
  have h : f ++ [58, 34] ++ w ++ [34] = f ++ (58 :: ([34] ++ w ++ [34])) := by simp
  rw [h, decode_ascii_prefix f _ hlt, decode_ascii 58 (by decide)]
  cases f with
  | nil => exact absurd rfl hne
  | cons c f =>
    have hx : ∀ y ∈ (c :: f).map asciiCell, k.isAlnum y.r = true := by
      intro y hy
      obtain ⟨x, hx, rfl⟩ := List.mem_map.mp hy
      simp [Cls.isAlnum, asciiCell, hlet x hx]
    have hws : isWs (asciiCell c).r = false := by
      have := asciiLetter_range c (hasc c (by simp))
      exact isWs_ge _ (by show 33 ≤ c.toNat; omega)
    have hn := next_word k (asciiCell c) (f.map asciiCell) (asciiCell 58) (decode ([34] ++ w ++ [34])) hx hws
      h58 (by decide) (by decide) (by decide) (by decide)
    rw [← List.map_cons, cellsBytes_map_ascii, hkw] at hn
    rw [lexAll_tok k _ _ _ _ _ hn, lexAll_tok k _ _ _ _ _ (next_colon k h58 _), lexAll_quoted k h34 w hw]
    rfl

/-- the token stream of `f:"w"` -/
theorem tokensOf_field_quoted (env : Env) (hk : env.cls.quoteColonNotAlnum)
    (f w : Bytes) (hne : f ≠ [])
    (hasc : ∀ c ∈ f, isAsciiLetter c = true) (hlet : ∀ c ∈ f, env.cls.isLetter c.toNat = true)
    (hkw : keywordOf f = none) (hw : ∀ c ∈ w, c ≠ 34) :
    tokensOf env (f ++ [58, 34] ++ w ++ [34]) = [⟨.literal, f⟩, ⟨.colon, [58]⟩, ⟨.quoted, [34] ++ w ++ [34]⟩] := by
  unfold tokensOf
  rw [lexAll_field_quoted env.cls hk f w hne hasc hlet hkw hw]
  rfl

/-- the token stream of `"w"` -/
theorem tokensOf_quoted (env : Env) (h34 : env.cls.isAlnum 34 = false) (w : Bytes) (hw : ∀ c ∈ w, c ≠ 34) :
    tokensOf env ([34] ++ w ++ [34]) = [⟨.quoted, [34] ++ w ++ [34]⟩] := by
  unfold tokensOf
  rw [lexAll_quoted env.cls h34 w hw]
  rfl

/-! ## 4. the parser -/

/-- `term : term` — shift, shift, shift, reduce `equal`, accept (whatever `isNum` is) -/
theorem parse_field_colon_value (isNum : Bool → Ex → Bool) (tf tv : Tok) (hf : tf.typ.isTerm) (hv : tv.typ.isTerm) :
    parseToks isNum [tf, ⟨.colon, [58]⟩, tv] = .ok (.eq (.leaf tf) (.leaf tv)) := by
  unfold parseToks
  rw [step_leaf isNum _ tf _ (Or.inl rfl) hf]
  rw [step_shift_op isNum _ ⟨.colon, [58]⟩ _ (by decide) (by decide) rfl]
  rw [step_leaf isNum _ tv _ (Or.inr ⟨_, _, rfl⟩) hv]
  rw [step_reduce isNum _ [] (by simp) rfl]
  simp only [red_eq_colon]
  rw [runW.eq_def]
  simp [nextOf]

theorem parse_single (isNum : Bool → Ex → Bool) (tv : Tok) (hv : tv.typ.isTerm) :
    parseToks isNum [tv] = .ok (.leaf tv) := by
  unfold parseToks
  rw [step_leaf isNum _ tv _ (Or.inl rfl) hv]
  rw [runW.eq_def]
  simp [nextOf]

/-! ## 5. the leaves -/

/-- the quoted token's value is the text between the quotes, byte for byte -/
theorem parseLiteral_quoted (w : Bytes) (hw : ∀ c ∈ w, c ≠ 34) :
    parseLiteral ⟨.quoted, [34] ++ w ++ [34]⟩ = lit (.prim (.str w)) := by
  have : ([34] ++ w ++ [34]).filter (· != 34) = w := by
    rw [List.filter_append, List.filter_append]
    have h1 : List.filter (· != 34) ([34] : Bytes) = [] := by decide
    rw [h1, List.nil_append, List.append_nil]
    exact List.filter_eq_self.mpr (fun c hc => by simpa using hw c hc)
  simp only [parseLiteral, if_true, this]

theorem isDig_letter (c : UInt8) (hc : isAsciiLetter c = true) : Num.isDig c = false := by
  have := asciiLetter_range c hc
  simp only [Num.isDig, Bool.and_eq_false_iff, decide_eq_false_iff_not, UInt8.le_iff_toNat_le, UInt8.toNat_ofNat]
  omega

theorem atoi_letters (c : UInt8) (rest : Bytes) (hc : isAsciiLetter c = true) : atoi (c :: rest) = none := by
  have h45 : c ≠ 45 := asciiLetter_ne c 45 hc (by decide)
  have h43 : c ≠ 43 := asciiLetter_ne c 43 hc (by decide)
  simp [atoi, h45, h43, Num.atoiU, Num.digitsVal, isDig_letter c hc]

/-- `special` only ever returns ±Inf or NaN -/
theorem special_nonfinite (s : Bytes) (x : F64) (h : Num.special s = some x) : (x.isInf || x.isNaN) = true := by
  unfold Num.special at h
  split at h
  · cases h
  · simp only [] at h
    repeat' split at h
    all_goals (cases h <;> decide)

/-- strconv.ParseFloat on a word that starts with an ASCII letter: a syntax error, or — for `inf`, `infinity`, `nan`
    in any letter case — a non-finite value -/
theorem parseFloat_letters (c : UInt8) (rest : Bytes) (hc : isAsciiLetter c = true) :
    parseFloat (c :: rest) = none ∨ ∃ x, parseFloat (c :: rest) = some x ∧ (x.isInf || x.isNaN) = true := by
  have h45 : c ≠ 45 := asciiLetter_ne c 45 hc (by decide)
  have h43 : c ≠ 43 := asciiLetter_ne c 43 hc (by decide)
  have h48 : c ≠ 48 := asciiLetter_ne c 48 hc (by decide)
  have h95 : c ≠ 95 := asciiLetter_ne c 95 hc (by decide)
  have h46 : c ≠ 46 := asciiLetter_ne c 46 hc (by decide)
  cases hs : Num.special (c :: rest) with
  | some x =>
    right
    exact ⟨x, by simp [parseFloat, hs], special_nonfinite _ _ hs⟩
  | none =>
    left
    have hsm : Num.scanMant false {} (c :: rest) = ({}, c :: rest) := by
      simp [Num.scanMant, h95, h46, isDig_letter c hc]
    unfold parseFloat
    simp only [hs, h43, h45, or_self, if_false]
    split
    · rename_i heq; simp at heq; exact absurd heq.1 h48
    · simp [hsm]

/-- a word of ASCII letters is a string leaf (also `inf`, `nan`, `Infinity`, …: non-finite floats are not numbers) -/
theorem parseLiteral_word (f : Bytes) (hne : f ≠ []) (hasc : ∀ c ∈ f, isAsciiLetter c = true) :
    parseLiteral ⟨.literal, f⟩ = lit (.prim (.str f)) := by
  have hwild : containsWild f = false := by
    simp only [containsWild, List.any_eq_false, Bool.or_eq_true, beq_iff_eq, not_or]
    intro c hc
    exact ⟨asciiLetter_ne c 42 (hasc c hc) (by decide), asciiLetter_ne c 63 (hasc c hc) (by decide)⟩
  have hesc : f.any (· == 92) = false := by
    simp only [List.any_eq_false, beq_iff_eq]
    intro c hc
    exact asciiLetter_ne c 92 (hasc c hc) (by decide)
  cases f with
  | nil => exact absurd rfl hne
  | cons c rest =>
    have hc := hasc c (by simp)
    unfold parseLiteral
    rcases parseFloat_letters c rest hc with hp | ⟨x, hp, hx⟩
    · simp [atoi_letters c rest hc, hp, hwild, hesc]
    · simp only [atoi_letters c rest hc, hp, hx, hwild, hesc]
      simp

/-! ## 6. constructor semantics and Validate -/

theorem validate_tree (f w : Bytes) : validateExpr (tree f w) = true := by
  simp [tree, validateExpr, validateNode, validateOp, lit, mkLeaf, isLiteralExpr, Node.isLiteral, Prim.isLiteral,
    Node.isNil, Expr.left, Expr.right, Expr.op]

theorem finalize_eq (env : Env) (df : Bytes) (tf tv : Tok) (f w : Bytes)
    (hf : parseLiteral tf = lit (.prim (.str f))) (hv : parseLiteral tv = lit (.prim (.str w))) :
    finalize env df (.eq (.leaf tf) (.leaf tv)) = .ok (tree f w) := by
  have hsem : sem env df (.eq (.leaf tf) (.leaf tv)) = .ok (tree f w) := by
    simp only [sem, hf, hv]
    simp [bind, Out.bind, chainedOrLiterals, lit, mkLeaf, mkExpr_equals, fieldE, operatesOnColumn, tree, Expr.op]
  unfold finalize
  rw [hsem]
  have hop : (tree f w).op = .equals := rfl
  simp [bind, Out.bind, hop, validate_tree f w]

/-- a single string leaf under a default field: `finalize`'s edge case `Eq(df, lit)` with the column wrapping of
    the constructor -/
theorem finalize_leaf (env : Env) (df : Bytes) (hdf : df ≠ []) (tv : Tok) (w : Bytes)
    (hv : parseLiteral tv = lit (.prim (.str w))) :
    finalize env df (.leaf tv) = .ok (tree df w) := by
  have hsem : sem env df (.leaf tv) = .ok (lit (.prim (.str w))) := by simp only [sem, hv]
  have hop : (lit (.prim (.str w))).op = .literal := rfl
  have hde : df.isEmpty = false := by cases df <;> simp_all
  have hm := mkExpr_wrapStr df (lit (.prim (.str w))) hop
  unfold finalize
  rw [hsem]
  have hv := validate_tree df w
  unfold tree at hv
  simp [bind, Out.bind, hop, hde, hm, tree, hv]

/-! ## 7. (T) the tree -/

theorem b_colon_quote : b ":\"" = [58, 34] := by decide
theorem b_quote : b "\"" = [34] := by decide

/-- **(T)**, for every default field `df` (the default field is not consulted: the field is written). -/
theorem quoted_tree (env : Env) (hk : env.cls.quoteColonNotAlnum) (f : Bytes) (hne : f ≠ [])
    (hasc : ∀ c ∈ f, isAsciiLetter c = true) (hlet : ∀ c ∈ f, env.cls.isLetter c.toNat = true)
    (hkw : keywordOf f = none) (w : Bytes) (hw : ∀ c ∈ w, c ≠ 34) (df : Bytes) :
    parseQuery env (f ++ b ":\"" ++ w ++ b "\"") df = .ok (tree f w) := by
  unfold parseQuery parseTokens
  rw [b_colon_quote, b_quote, tokensOf_field_quoted env hk f w hne hasc hlet hkw hw,
    parse_field_colon_value _ _ _ rfl rfl]
  exact finalize_eq env df _ _ f w (parseLiteral_word f hne hasc) (parseLiteral_quoted w hw)

/-- **(T)** in the literal form of the property: no default field, the tree written out. -/
theorem quoted_tree_nodf (env : Env) (hk : env.cls.quoteColonNotAlnum) (f : Bytes) (hne : f ≠ [])
    (hasc : ∀ c ∈ f, isAsciiLetter c = true) (hlet : ∀ c ∈ f, env.cls.isLetter c.toNat = true)
    (hkw : keywordOf f = none) (w : Bytes) (hw : ∀ c ∈ w, c ≠ 34) :
    parseQuery env (f ++ b ":\"" ++ w ++ b "\"") [] =
      .ok (Expr.mk (.expr (lit (.prim (.col f)))) .equals (.expr (lit (.prim (.str w)))) F64.one 1) :=
  quoted_tree env hk f hne hasc hlet hkw w hw []

/-- **(T), default-field variant**: the bare quoted query under the default field `f` — ANY non-empty `f`
    (the default field is not lexed). -/
theorem quoted_default_tree (env : Env) (h34 : env.cls.isAlnum 34 = false) (f : Bytes) (hne : f ≠ [])
    (w : Bytes) (hw : ∀ c ∈ w, c ≠ 34) :
    parseQuery env (b "\"" ++ w ++ b "\"") f =
      .ok (Expr.mk (.expr (lit (.prim (.col f)))) .equals (.expr (lit (.prim (.str w)))) F64.one 1) := by
  unfold parseQuery parseTokens
  rw [b_quote, tokensOf_quoted env h34 w hw, parse_single _ _ rfl]
  exact finalize_leaf env f hne _ w (parseLiteral_quoted w hw)

/-! ## 8. UTF-8 validity under insertion of ASCII bytes -/

theorem validUtf8_nil : validUtf8 [] = true := by simp [validUtf8, decode_nil]

theorem asciiCell_good (s : UInt8) : (!((asciiCell s).r == 0xFFFD && (asciiCell s).raw.length == 1)) = true := by
  have := UInt8.toNat_lt s
  have h : ((asciiCell s).r == 0xFFFD) = false := by
    simp only [asciiCell, beq_eq_false_iff_ne]; omega
  rw [h]; rfl

/-- an ASCII byte splits the validity test: what is in front of it and what follows are judged separately -/
theorem validUtf8_append_ascii (s : UInt8) (hs : s < 0x80) (a t : Bytes) :
    validUtf8 (a ++ s :: t) = (validUtf8 a && validUtf8 t) := by
  unfold validUtf8
  rw [decode_append_ascii s hs _ a t (Nat.lt_succ_self _), List.all_append, List.all_cons, asciiCell_good s,
    Bool.true_and]

theorem validUtf8_cons_ascii (s : UInt8) (hs : s < 0x80) (t : Bytes) : validUtf8 (s :: t) = validUtf8 t := by
  have := validUtf8_append_ascii s hs [] t
  rwa [validUtf8_nil, Bool.true_and, List.nil_append] at this

theorem validUtf8_ascii (f : Bytes) (h : ∀ c ∈ f, c < 0x80) : validUtf8 f = true := by
  induction f with
  | nil => exact validUtf8_nil
  | cons c f ih => rw [validUtf8_cons_ascii c (h c (by simp))]; exact ih (fun x hx => h x (by simp [hx]))

/-- surrounding with ASCII bytes -/
theorem validUtf8_surround (s1 s2 : UInt8) (h1 : s1 < 0x80) (h2 : s2 < 0x80) (w : Bytes) :
    validUtf8 ([s1] ++ w ++ [s2]) = validUtf8 w := by
  have e : [s1] ++ w ++ [s2] = s1 :: (w ++ s2 :: []) := by simp
  rw [e, validUtf8_cons_ascii s1 h1, validUtf8_append_ascii s2 h2, validUtf8_nil, Bool.and_true]

theorem split_first (x : UInt8) : ∀ w : Bytes, (∀ c ∈ w, c ≠ x) ∨ ∃ a t, w = a ++ x :: t ∧ ∀ c ∈ a, c ≠ x
  | [] => Or.inl (by simp)
  | c :: w => by
    by_cases hc : c = x
    · exact Or.inr ⟨[], w, by simp [hc], by simp⟩
    · rcases split_first x w with h | ⟨a, t, rfl, ha⟩
      · left; intro d hd
        rcases List.mem_cons.mp hd with rfl | hd
        · exact hc
        · exact h d hd
      · right
        refine ⟨c :: a, t, by simp, ?_⟩
        intro d hd
        rcases List.mem_cons.mp hd with rfl | hd
        · exact hc
        · exact ha d hd

theorem replaceByte_none (x : UInt8) (y : Bytes) : ∀ a : Bytes, (∀ c ∈ a, c ≠ x) → replaceByte x y a = a
  | [], _ => rfl
  | c :: a, h => by
    have hc : (c == x) = false := by simpa using h c (by simp)
    rw [Sql.replaceByte_cons, hc, replaceByte_none x y a (fun d hd => h d (by simp [hd]))]
    rfl

theorem replaceByte_append (x : UInt8) (y a t : Bytes) :
    replaceByte x y (a ++ t) = replaceByte x y a ++ replaceByte x y t := by
  simp [replaceByte]

/-- doubling the single quotes (inserting ASCII bytes, necessarily at cell boundaries) neither creates nor repairs
    an invalid sequence -/
theorem validUtf8_double39 : ∀ (n : Nat) (w : Bytes), w.length ≤ n →
    validUtf8 (replaceByte 39 [39, 39] w) = validUtf8 w := by
  intro n
  induction n with
  | zero =>
    intro w h
    have : w = [] := List.length_eq_zero_iff.mp (by omega)
    subst this; rfl
  | succ n ih =>
    intro w hl
    rcases split_first 39 w with h | ⟨a, t, rfl, ha⟩
    · rw [replaceByte_none 39 _ w h]
    · have e : replaceByte 39 [39, 39] (a ++ 39 :: t) = a ++ 39 :: (39 :: replaceByte 39 [39, 39] t) := by
        rw [replaceByte_append, replaceByte_none 39 _ a ha, Sql.replaceByte_cons]
        rfl
      rw [e, validUtf8_append_ascii 39 (by decide), validUtf8_cons_ascii 39 (by decide),
        validUtf8_append_ascii 39 (by decide), ih t (by simp at hl; omega)]

/-- the quoted SQL text is valid UTF-8 exactly when the value is -/
theorem validUtf8_sqlQuote (w : Bytes) : validUtf8 (sqlQuote w) = validUtf8 w := by
  have e : sqlQuote w = [39] ++ replaceByte 39 [39, 39] w ++ [39] := rfl
  rw [e, validUtf8_surround 39 39 (by decide) (by decide), validUtf8_double39 _ w (Nat.le_refl _)]

theorem mem_sqlQuote (w : Bytes) (c : UInt8) : c ∈ sqlQuote w ↔ c = 39 ∨ c ∈ w := by
  simp only [sqlQuote, replaceByte, List.mem_append, List.mem_flatMap, List.mem_singleton]
  constructor
  · rintro ((rfl | ⟨d, hd, hc⟩) | rfl)
    · exact Or.inl rfl
    · split at hc
      · simp at hc; exact Or.inl hc
      · simp at hc; subst hc; exact Or.inr hd
    · exact Or.inl rfl
  · rintro (rfl | hc)
    · exact Or.inl (Or.inl rfl)
    · refine Or.inl (Or.inr ⟨c, hc, ?_⟩)
      split <;> simp_all

theorem sqlQuote_noNul (w : Bytes) (h0 : ∀ c ∈ w, c ≠ 0) : (sqlQuote w).any (· == 0) = false := by
  simp only [List.any_eq_false, beq_iff_eq]
  intro c hc
  rcases (mem_sqlQuote w c).mp hc with rfl | hc
  · decide
  · exact h0 c hc

/-! ## 9. (S) and (P): the renderer on the tree `f = w` -/

theorem serializeCol_eq (f : Bytes) (hne : f ≠ []) (h34 : ∀ c ∈ f, c ≠ 34) :
    serializeCol f = .ok ([34] ++ f ++ [34]) := by
  have h1 : f.isEmpty = false := by cases f <;> simp_all
  have h2 : f.any (· == 34) = false := by
    simp only [List.any_eq_false, beq_iff_eq]; exact h34
  simp [serializeCol, h1, h2]

theorem fnLiteral_ok (s r : Bytes) (hu : validUtf8 s = true) (hn : s.any (· == 0) = false) :
    fnLiteral s r = .ok s := by
  simp [fnLiteral, hu, hn]

theorem fnLiteral_err (s r : Bytes) (h : validUtf8 s = false ∨ s.any (· == 0) = true) :
    fnLiteral s r = .err := by
  rcases h with h | h
  · simp [fnLiteral, h]
  · unfold fnLiteral
    rw [h]
    split <;> rfl

theorem quotedIdent_noNul (f : Bytes) (h0 : ∀ c ∈ f, c ≠ 0) : ([34] ++ f ++ [34]).any (· == 0) = false := by
  simp only [List.any_eq_false, beq_iff_eq, List.mem_append, List.mem_singleton]
  rintro c ((rfl | hc) | rfl)
  · decide
  · exact h0 c hc
  · decide

/-- what the renderer needs of a column name: `serializeCol`'s own checks (non-empty, no `"`) and `literal`'s
    (valid UTF-8, no NUL) -/
structure ColOk (f : Bytes) : Prop where
  ne : f ≠ []
  no34 : ∀ c ∈ f, c ≠ 34
  no0 : ∀ c ∈ f, c ≠ 0
  utf8 : validUtf8 f = true

theorem ColOk.quoted_utf8 {f : Bytes} (h : ColOk f) : validUtf8 ([34] ++ f ++ [34]) = true := by
  rw [validUtf8_surround 34 34 (by decide) (by decide)]; exact h.utf8

/-- a non-empty word of ASCII letters is a good column name -/
theorem colOk_letters (f : Bytes) (hne : f ≠ []) (hasc : ∀ c ∈ f, isAsciiLetter c = true) : ColOk f where
  ne := hne
  no34 := fun c hc => asciiLetter_ne c 34 (hasc c hc) (by decide)
  no0 := fun c hc => asciiLetter_ne c 0 (hasc c hc) (by decide)
  utf8 := validUtf8_ascii f (fun c hc => asciiLetter_lt c (hasc c hc))

theorem render_col (f : Bytes) (hf : ColOk f) :
    render pgFns (lit (.prim (.col f))) = .ok ([34] ++ f ++ [34]) := by
  rw [lit, mkLeaf, render]
  simp only [serialize, serializeCol_eq f hf.ne hf.no34]
  exact fnLiteral_ok ([34] ++ f ++ [34]) _ hf.quoted_utf8 (quotedIdent_noNul f hf.no0)

theorem render_str (w : Bytes) (hu : validUtf8 w = true) (h0 : ∀ c ∈ w, c ≠ 0) :
    render pgFns (lit (.prim (.str w))) = .ok (sqlQuote w) := by
  rw [lit, mkLeaf, render]
  simp only [serialize]
  exact fnLiteral_ok (sqlQuote w) _ (by rw [validUtf8_sqlQuote, hu]) (sqlQuote_noNul w h0)

theorem render_str_err (w : Bytes) (h : validUtf8 w = false ∨ (0 : UInt8) ∈ w) :
    render pgFns (lit (.prim (.str w))) = .err := by
  rw [lit, mkLeaf, render]
  simp only [serialize]
  refine fnLiteral_err (sqlQuote w) _ ?_
  rcases h with h | h
  · left; rw [validUtf8_sqlQuote, h]
  · right
    simp only [List.any_eq_true, beq_iff_eq]
    exact ⟨0, (mem_sqlQuote w 0).mpr (Or.inr h), rfl⟩

theorem render_tree (f w : Bytes) (hf : ColOk f) (hu : validUtf8 w = true) (hw0 : ∀ c ∈ w, c ≠ 0) :
    render pgFns (tree f w) = fnInfix " = " ([34] ++ f ++ [34]) (sqlQuote w) := by
  rw [tree, render]
  simp only [serialize, render_col f hf, render_str w hu hw0]
  rfl

theorem render_tree_err (f w : Bytes) (hf : ColOk f) (h : validUtf8 w = false ∨ (0 : UInt8) ∈ w) :
    render pgFns (tree f w) = .err := by
  rw [tree, render]
  simp only [serialize, render_col f hf, render_str_err w h]

/-- **(S)** on the tree: the inline text is read by PostgreSQL's scanner and grammar as the comparison of the column
    `f` with the string constant `w`, byte for byte. -/
theorem quoted_sql (f w : Bytes) (hf : ColOk f) (hu : validUtf8 w = true) (hw0 : ∀ c ∈ w, c ≠ 0) :
    ∃ t, render pgFns (tree f w) = .ok t ∧ Sql.parseSql t = some (.cmp .eq (.col f) (.str w)) := by
  rw [render_tree f w hf hu hw0]
  exact Sql.parse_rendered_equals f w _ (serializeCol_eq f hf.ne hf.no34) hf.no0 hw0

/-- **(S)**, both directions: the renderer either produces a text that PostgreSQL reads back as `f = w`, or refuses
    (`.err`); it refuses exactly the values that are not valid UTF-8 or contain a NUL byte (which PostgreSQL cannot
    store in a `text`). -/
theorem quoted_sql_iff (f w : Bytes) (hf : ColOk f) :
    (validUtf8 w = true ∧ (∀ c ∈ w, c ≠ 0) ∧
      ∃ t, render pgFns (tree f w) = .ok t ∧ Sql.parseSql t = some (.cmp .eq (.col f) (.str w))) ∨
    ((validUtf8 w = false ∨ (0 : UInt8) ∈ w) ∧ render pgFns (tree f w) = .err) := by
  by_cases hu : validUtf8 w = true
  · by_cases h0 : (0 : UInt8) ∈ w
    · exact Or.inr ⟨Or.inr h0, render_tree_err f w hf (Or.inr h0)⟩
    · have hw0 : ∀ c ∈ w, c ≠ 0 := fun c hc e => h0 (e ▸ hc)
      exact Or.inl ⟨hu, hw0, quoted_sql f w hf hu hw0⟩
  · have hu' : validUtf8 w = false := by simpa using hu
    exact Or.inr ⟨Or.inl hu', render_tree_err f w hf (Or.inl hu')⟩

theorem renderParam_col (f : Bytes) (hf : ColOk f) :
    renderParam pgFns (lit (.prim (.col f))) = .ok ([34] ++ f ++ [34], []) := by
  rw [lit, mkLeaf, renderParam, sp_col, sp_nil, serializeCol_eq f hf.ne hf.no34]
  have := fnLiteral_ok ([34] ++ f ++ [34]) [] hf.quoted_utf8 (quotedIdent_noNul f hf.no0)
  simp only [parenOps, pgFns, sharedFns]
  simp at this ⊢
  simp [this]

theorem renderParam_str (w : Bytes) :
    renderParam pgFns (lit (.prim (.str w))) = .ok (b "?", [.str w]) := by
  have := fnLiteral_ok (b "?") [] (validUtf8_ascii _ (by decide)) (by decide)
  rw [lit, mkLeaf, renderParam, sp_str, sp_nil]
  simp only [parenOps, pgFns, sharedFns]
  simp [this]

/-- **(P)** on the tree: the text `"f" = ?` and the one parameter `w`, byte for byte — for ARBITRARY `w` (the
    parameter path does not look at the value: `literal` sees the placeholder). -/
theorem quoted_params (f w : Bytes) (hf : ColOk f) :
    renderParam pgFns (tree f w) = .ok ([34] ++ f ++ [34] ++ b " = ?", [.str w]) := by
  rw [tree, renderParam, sp_expr, sp_expr, renderParam_col f hf, renderParam_str w]
  have e : fnInfix " = " ([34] ++ f ++ [34]) (b "?") = .ok ([34] ++ f ++ [34] ++ b " = ?") := by
    simp [fnInfix, Sql.b_eq, Sql.b_eqq]
    decide
  simp only [parenOps, pgFns, sharedFns, isSimple, lit, mkLeaf, Expr.op]
  simp at e ⊢
  simp [e]

/-- … and PostgreSQL reads the parameterized text as `f = $1` -/
theorem quoted_params_sql (f : Bytes) (hf : ColOk f) :
    Sql.parseSql ([34] ++ f ++ [34] ++ b " = ?") = some (.cmp .eq (.col f) (.param 1)) :=
  Sql.parse_field_equals_param f hf.ne hf.no34 hf.no0

/-! ## 10. end to end -/

/-- **C08, quoting clause, end to end.**  `f` a non-empty word of ASCII letters that is not a keyword and whose
    letters the lexer's table classifies as letters; `w` any bytes without `"`.  Then the query `f:"w"`
      (T) parses to the tree `f = w` whose value is `w` byte for byte (any default field);
      (S) if `w` is valid UTF-8 without NUL, renders to a text that PostgreSQL reads as column `f` = string `w`;
      (P) renders in parameter mode to `"f" = ?` with the single parameter `w`. -/
theorem quoted_verbatim (env : Env) (hk : env.cls.quoteColonNotAlnum) (f : Bytes) (hne : f ≠ [])
    (hasc : ∀ c ∈ f, isAsciiLetter c = true) (hlet : ∀ c ∈ f, env.cls.isLetter c.toNat = true)
    (hkw : keywordOf f = none) (w : Bytes) (hw : ∀ c ∈ w, c ≠ 34) (df : Bytes) :
    ∃ e, parseQuery env (f ++ b ":\"" ++ w ++ b "\"") df = .ok e ∧
      e = Expr.mk (.expr (lit (.prim (.col f)))) .equals (.expr (lit (.prim (.str w)))) F64.one 1 ∧
      (validUtf8 w = true → (∀ c ∈ w, c ≠ 0) →
        ∃ t, render pgFns e = .ok t ∧ Sql.parseSql t = some (.cmp .eq (.col f) (.str w))) ∧
      renderParam pgFns e = .ok ([34] ++ f ++ [34] ++ b " = ?", [.str w]) := by
  have hf := colOk_letters f hne hasc
  exact ⟨tree f w, quoted_tree env hk f hne hasc hlet hkw w hw df, rfl,
    fun hu h0 => quoted_sql f w hf hu h0, quoted_params f w hf⟩

/-- **Default-field variant, end to end.**  The bare query `"w"` under the default field `f`: (T) for any non-empty
    `f`; (S) and (P) when `f` is a name the renderer accepts (`ColOk`: no `"`, no NUL, valid UTF-8). -/
theorem quoted_default_verbatim (env : Env) (h34 : env.cls.isAlnum 34 = false) (f : Bytes) (hne : f ≠ [])
    (w : Bytes) (hw : ∀ c ∈ w, c ≠ 34) :
    ∃ e, parseQuery env (b "\"" ++ w ++ b "\"") f = .ok e ∧
      e = Expr.mk (.expr (lit (.prim (.col f)))) .equals (.expr (lit (.prim (.str w)))) F64.one 1 ∧
      (ColOk f → validUtf8 w = true → (∀ c ∈ w, c ≠ 0) →
        ∃ t, render pgFns e = .ok t ∧ Sql.parseSql t = some (.cmp .eq (.col f) (.str w))) ∧
      (ColOk f → renderParam pgFns e = .ok ([34] ++ f ++ [34] ++ b " = ?", [.str w])) :=
  ⟨tree f w, quoted_default_tree env h34 f hne w hw, rfl,
    fun hf hu h0 => quoted_sql f w hf hu h0, fun hf => quoted_params f w hf⟩

end QuotedVerbatim
end GoLucene

/-! ## Instances and necessity of the hypotheses (evaluated by the kernel) -/
section Instances
open GoLucene GoLucene.QuotedVerbatim

/-- `title:"…"` for any class table that knows the letters of `title` and in which `"` and `:` are no word characters,
    and any text without `"` — operators, keywords, wildcards, slashes, backslashes, invalid UTF-8 and all -/
example (env : Env) (hk : env.cls.quoteColonNotAlnum) (hl : ∀ c ∈ b "title", env.cls.isLetter c.toNat = true)
    (w : Bytes) (hw : ∀ c ∈ w, c ≠ 34) :
    parseQuery env (b "title:\"" ++ w ++ b "\"") [] =
      .ok (Expr.mk (.expr (lit (.prim (.col (b "title"))))) .equals (.expr (lit (.prim (.str w)))) F64.one 1) :=
  quoted_tree_nodf env hk (b "title") (by decide) (by decide) hl (by decide) w hw

-- a hostile text is a value
example (env : Env) (hk : env.cls.quoteColonNotAlnum) (hl : ∀ c ∈ b "title", env.cls.isLetter c.toNat = true) :
    parseQuery env (b "title:\"" ++ b "a AND (b OR NOT c*) /x\\/ [1 TO 2] ~3 ^4 '; DROP TABLE t; --" ++ b "\"") [] =
      .ok (tree (b "title") (b "a AND (b OR NOT c*) /x\\/ [1 TO 2] ~3 ^4 '; DROP TABLE t; --")) :=
  quoted_tree env hk (b "title") (by decide) (by decide) hl (by decide) _ (by decide) []

-- letter-only words that strconv.ParseFloat accepts are still string leaves (non-finite floats are not numbers)
example : parseLiteral ⟨.literal, b "inf"⟩ = lit (.prim (.str (b "inf"))) := parseLiteral_word _ (by decide) (by decide)
example : parseLiteral ⟨.literal, b "NaN"⟩ = lit (.prim (.str (b "NaN"))) := parseLiteral_word _ (by decide) (by decide)
example : parseLiteral ⟨.literal, b "Infinity"⟩ = lit (.prim (.str (b "Infinity"))) :=
  parseLiteral_word _ (by decide) (by decide)

end Instances

section Necessity
open GoLucene GoLucene.QuotedVerbatim

/-- a class table in which `"` is a letter -/
def kQuoteLetter : Cls := ⟨fun r => r == 34 || (97 ≤ r && r ≤ 122), fun _ => false⟩
/-- a class table in which `:` is a letter -/
def kColonLetter : Cls := ⟨fun r => r == 58 || (97 ≤ r && r ≤ 122), fun _ => false⟩

-- `quoteColonNotAlnum`, first half: if `"` were a letter, `"a"` would be the bare WORD `"a"` (quotes included in the
-- value), because the lexer asks "word character?" before "quote?"
example : next kQuoteLetter [asciiCell 34, asciiCell 97, asciiCell 34] =
    .tok ⟨.literal, [34, 97, 34]⟩ [] [asciiCell 34, asciiCell 97, asciiCell 34] [] := by
  simp [next, dropWs, isWs, lexWord, kQuoteLetter, Cls.isAlnum, asciiCell, cellsBytes, keywordOf, upperAscii]
-- second half: if `:` were a letter, `f:` would be one word and `f:"a"` the two terms `f:` and `"a"` (implicit AND)
example : next kColonLetter [asciiCell 102, asciiCell 58, asciiCell 34, asciiCell 97, asciiCell 34] =
    .tok ⟨.literal, [102, 58]⟩ [] [asciiCell 102, asciiCell 58] [asciiCell 34, asciiCell 97, asciiCell 34] := by
  simp [next, dropWs, isWs, isWild, isEsc, lexWord, kColonLetter, Cls.isAlnum, asciiCell, cellsBytes, keywordOf, upperAscii]
-- `keywordOf f = none`: `to:"a"` starts with the keyword token TO, not with a field
example : keywordOf (b "to") = some .tto := by decide
example : keywordOf (b "And") = some .tand := by decide
-- no `"` in `w`: the phrase ends at the first `"`
example : lexPhrase 34 [asciiCell 97, asciiCell 34, asciiCell 98, asciiCell 34] =
    some ([asciiCell 97, asciiCell 34], [asciiCell 98, asciiCell 34]) := by decide
-- valid UTF-8 and no NUL for the inline text (`quoted_sql_iff`): the renderer refuses, it does not garble
example : render pgFns (tree (b "title") [0xFF]) = .err :=
  render_tree_err _ _ (colOk_letters _ (by decide) (by decide)) (Or.inl (by
    rw [validUtf8, decode_cons]; decide))
example : render pgFns (tree (b "title") [97, 0]) = .err :=
  render_tree_err _ _ (colOk_letters _ (by decide) (by decide)) (Or.inr (by decide))
-- … while the parameter form carries them unchanged
example : renderParam pgFns (tree (b "title") [0xFF, 0]) = .ok ([34] ++ b "title" ++ [34] ++ b " = ?", [.str [0xFF, 0]]) :=
  quoted_params _ _ (colOk_letters _ (by decide) (by decide))

end Necessity

section Axioms
open GoLucene.QuotedVerbatim
#print axioms quoted_tree
#print axioms quoted_tree_nodf
#print axioms quoted_default_tree
#print axioms quoted_sql
#print axioms quoted_sql_iff
#print axioms quoted_params
#print axioms quoted_params_sql
#print axioms quoted_verbatim
#print axioms quoted_default_verbatim
#print axioms validUtf8_sqlQuote
#print axioms validUtf8_append_ascii
#print axioms parseLiteral_word
end Axioms
