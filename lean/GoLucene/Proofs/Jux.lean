import GoLucene.Proofs.C07
namespace GoLucene

/-- one unfolding of the loop on a non-empty input, without the proof-carrying matches -/
theorem runW_cons (isNum : Bool → Ex → Bool) (c : Cfg) (x : Tok) (tl : List Tok) :
    runW isNum c (x :: tl) =
      if c.stack.length = 1 ∧ x.typ = .eof then
        (match c.stack with | [.ex e] => .ok e | _ => .err)
      else if shouldShift (curOf c) x.typ then
        if x.typ.isTerminal then
          match c.stack with
          | (.ex _) :: _ =>
            (match reduceUntilShift isNum .tand (c.stack.length + 1) c with
              | none => .err
              | some c' => runW isNum ⟨.ex (.leaf x) :: .tok .tand :: c'.stack, .tand :: c'.nts⟩ tl)
          | _ => runW isNum ⟨.ex (.leaf x) :: c.stack, c.nts⟩ tl
        else runW isNum ⟨.tok x.typ :: c.stack, x.typ :: c.nts⟩ tl
      else
        match reduce isNum c with
        | none => .err
        | some c' => runW isNum c' (x :: tl) := by
  rw [runW]
  simp only [nextOf]
  split
  · rfl
  · split
    · split
      · split
        · split <;> simp_all
        · split
          · simp_all
          · rfl
      · rfl
    · split <;> simp_all

/-- C07 over all token sequences: wherever two term tokens are adjacent, writing AND between them
    changes nothing — from any configuration, after any prefix `u`, before any continuation. -/
theorem jux_anywhere (isNum : Bool → Ex → Bool) (t1 a t2 : Tok) (rest : List Tok)
    (h1 : t1.typ.isTerm) (ha : a.typ = .tand) (h2 : t2.typ.isTerm) :
    ∀ (n : Nat) (u : List Tok) (c : Cfg), 3 * (u ++ t1 :: t2 :: rest).length + c.stack.length ≤ n →
      runW isNum c (u ++ t1 :: t2 :: rest) = runW isNum c (u ++ t1 :: a :: t2 :: rest) := by
  intro n
  induction n with
  | zero =>
    intro u c h
    simp at h
  | succ n ih =>
    intro u c hn
    cases u with
    | nil => simpa using implicit_eq_explicit isNum c t1 a t2 rest h1 ha h2
    | cons x u' =>
      simp only [List.cons_append]
      rw [runW_cons, runW_cons]
      split
      · rfl
      · split
        · -- shift branch
          split
          · -- terminal
            split
            · -- implicit AND
              split
              · rfl
              · rename_i c' hc'
                have hl := reduceUntilShift_len isNum _ _ _ _ hc'
                apply ih
                simp at hn ⊢
                omega
            · apply ih
              simp at hn ⊢
              omega
          · apply ih
            simp at hn ⊢
            omega
        · -- reduce branch
          split
          · rfl
          · rename_i c' hc'
            have hl := reduce_len isNum _ _ hc'
            have := ih (x :: u') c' (by simp at hn ⊢; omega)
            simpa using this

theorem juxtaposition_eq_and (isNum : Bool → Ex → Bool) (u : List Tok) (t1 a t2 : Tok) (v : List Tok)
    (h1 : t1.typ.isTerm) (ha : a.typ = .tand) (h2 : t2.typ.isTerm) :
    parseToks isNum (u ++ t1 :: t2 :: v) = parseToks isNum (u ++ t1 :: a :: t2 :: v) :=
  jux_anywhere isNum t1 a t2 v h1 ha h2 _ u _ (Nat.le_refl _)

end GoLucene
