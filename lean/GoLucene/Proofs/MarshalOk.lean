import GoLucene.Proofs.MarshalShape
import GoLucene.Proofs.SemShape
/-
  C01, JSON half: `Expression.MarshalJSON` succeeds on every tree of the parser shape whose boost powers are encodable.
  Nothing of Model/Num.lean or of the JSON text layer is unfolded: the hypothesis on powers (`boostsFinite`) is stated in
  the terms `marshalExpr` itself uses, and the one numeric fact about float leaves (`fmtJSON` is defined on finite
  floats) is a hypothesis of the theorem, validated separately against Go.
-/
namespace GoLucene

open Json

/-- the `"power"` member of this node can be written: it is omitted (`== 1.0`) or the float is encodable -/
def powerOK (p : F64) : Bool := F64.eq p F64.one || (fmtJSON p).isSome

mutual
def boostsFiniteNode : Node → Bool
  | .nil => true
  | .prim _ => true
  | .expr e => boostsFinite e
  | .list es => boostsFiniteList es
  | .bound mn mx _ => boostsFiniteNode mn && boostsFiniteNode mx
/-- every node's `boost` field is `1.0` or a float encoding/json can encode -/
def boostsFinite : Expr → Bool
  | .mk l _ r p _ => powerOK p && boostsFiniteNode l && boostsFiniteNode r
def boostsFiniteList : ExprList → Bool
  | .nil => true
  | .cons e t => boostsFinite e && boostsFiniteList t
end

theorem powerOf_ok (p : F64) (h : powerOK p = true) : ∃ t, powerOf p = .ok t := by
  unfold powerOf
  split
  · exact ⟨_, rfl⟩
  · rename_i hne
    simp only [powerOK, Bool.or_eq_true, hne] at h
    cases hf : fmtJSON p with
    | some t => exact ⟨_, rfl⟩
    | none => simp [hf] at h

theorem rightPartOf_nil : rightPartOf .nil = .ok [] := rfl

theorem rightPartOf_ok (r : Node) (t : Bytes) (h : marshalNode r = .ok t) : ∃ t', rightPartOf r = .ok t' := by
  cases r <;> simp [rightPartOf, h]

/-- a non-leaf node whose parts encode -/
theorem marshalExpr_ok_of_parts (l : Node) (o : Op) (r : Node) (p : F64) (d : Int) (tl : Bytes)
    (hl : marshalNode l = .ok tl) (hr : ∃ t, rightPartOf r = .ok t) (hp : powerOK p = true) :
    ∃ t, marshalExpr (.mk l o r p d) = .ok t := by
  obtain ⟨tr, hr⟩ := hr
  obtain ⟨tp, hp⟩ := powerOf_ok p hp
  rw [marshalExpr_eq]
  split
  · exact ⟨_, hl⟩
  · simp only [hl, hr, hp]
    exact ⟨_, rfl⟩

theorem marshalNode_expr (a : Expr) : marshalNode (.expr a) = marshalExpr a := by rw [marshalNode]

section
variable (hfin : ∀ f : F64, f.isInf = false → f.isNaN = false → (fmtJSON f).isSome = true)
include hfin

/-- a leaf encodes as its raw value -/
theorem marshal_leaf_ok (e : Expr) (h : semLeaf e = true) : ∃ t, marshalExpr e = .ok t := by
  obtain ⟨l, o, r, p, d⟩ := e
  cases l with
  | prim pr =>
    cases r <;> simp [semLeaf] at h
    have ho : (decide (o = .literal) || decide (o = .wild) || decide (o = .regexp)) = true := by
      cases pr <;> simp_all [Op.isLeafOp]
    rw [marshalExpr_eq, if_pos ho]
    cases pr with
    | str s => exact ⟨_, by rw [marshalNode]⟩
    | col s => exact ⟨_, by rw [marshalNode]⟩
    | int i => exact ⟨_, by rw [marshalNode]⟩
    | flt f =>
      simp only [Bool.and_eq_true, Bool.not_eq_true', decide_eq_true_eq] at h
      have hf := hfin f h.1.2 h.2
      rw [marshalNode]
      cases hj : fmtJSON f with
      | some t => exact ⟨_, rfl⟩
      | none => simp [hj] at hf
    | _ => simp at h
  | _ => simp [semLeaf] at h

theorem marshalList_ok : ∀ es : ExprList, es.allSemLit = true → ∃ ts, marshalList es = .ok ts
  | .nil, _ => ⟨_, by rw [marshalList]⟩
  | .cons e t, h => by
    simp only [ExprList.allSemLit, Bool.and_eq_true, decide_eq_true_eq] at h
    obtain ⟨s, hs⟩ := marshal_leaf_ok hfin e h.1.1
    obtain ⟨ss, hss⟩ := marshalList_ok t h.2
    rw [marshalList]
    simp only [hs, hss]
    exact ⟨_, rfl⟩

/-- the `LIST(...)` operand of IN -/
theorem marshal_listExpr_ok (es : ExprList) (p : F64) (d : Int) (h : es.allSemLit = true) (hp : powerOK p = true) :
    ∃ t, marshalExpr (.mk (.list es) .list .nil p d) = .ok t := by
  obtain ⟨ts, hts⟩ := marshalList_ok hfin es h
  exact marshalExpr_ok_of_parts _ _ _ _ _ (b "[" ++ joinC ts ++ b "]") (by rw [marshalNode]; simp only [hts])
    ⟨_, rightPartOf_nil⟩ hp

/-- C01 (JSON): MarshalJSON succeeds on every tree of the parser shape whose boost powers are encodable -/
theorem marshal_ok_of_shape : ∀ e : Expr, semShape e = true → boostsFinite e = true → ∃ t, marshalExpr e = .ok t
  | .mk l o r p d, hs, hb => by
    simp only [boostsFinite, Bool.and_eq_true] at hb
    obtain ⟨⟨hp, hbl⟩, hbr⟩ := hb
    cases o with
    | undefined => simp [semShape] at hs
    | list => simp [semShape] at hs
    | literal => exact marshal_leaf_ok hfin _ (by simpa [semShape] using hs)
    | wild => exact marshal_leaf_ok hfin _ (by simpa [semShape] using hs)
    | regexp => exact marshal_leaf_ok hfin _ (by simpa [semShape] using hs)
    | and =>
      simp only [semShape, Bool.and_eq_true] at hs
      cases l <;> simp [semNode] at hs
      cases r <;> simp [semNode] at hs
      rename_i a c
      simp only [boostsFiniteNode] at hbl hbr
      obtain ⟨ta, ha⟩ := marshal_ok_of_shape a hs.1 hbl
      obtain ⟨tc, hc⟩ := marshal_ok_of_shape c hs.2 hbr
      exact marshalExpr_ok_of_parts _ _ _ _ _ ta (by rw [marshalNode_expr, ha])
        (rightPartOf_ok _ tc (by rw [marshalNode_expr, hc])) hp
    | or =>
      simp only [semShape, Bool.and_eq_true] at hs
      cases l <;> simp [semNode] at hs
      cases r <;> simp [semNode] at hs
      rename_i a c
      simp only [boostsFiniteNode] at hbl hbr
      obtain ⟨ta, ha⟩ := marshal_ok_of_shape a hs.1 hbl
      obtain ⟨tc, hc⟩ := marshal_ok_of_shape c hs.2 hbr
      exact marshalExpr_ok_of_parts _ _ _ _ _ ta (by rw [marshalNode_expr, ha])
        (rightPartOf_ok _ tc (by rw [marshalNode_expr, hc])) hp
    | equals =>
      simp only [semShape, Bool.and_eq_true] at hs
      cases l <;> simp [semNode] at hs
      cases r <;> simp [semNode] at hs
      rename_i a c
      simp only [boostsFiniteNode] at hbl hbr
      obtain ⟨ta, ha⟩ := marshal_ok_of_shape a hs.1 hbl
      obtain ⟨tc, hc⟩ := marshal_ok_of_shape c hs.2 hbr
      exact marshalExpr_ok_of_parts _ _ _ _ _ ta (by rw [marshalNode_expr, ha])
        (rightPartOf_ok _ tc (by rw [marshalNode_expr, hc])) hp
    | greater =>
      simp only [semShape, Bool.and_eq_true] at hs
      cases l <;> simp [semNode] at hs
      cases r <;> simp [semNode] at hs
      rename_i a c
      simp only [boostsFiniteNode] at hbl hbr
      obtain ⟨ta, ha⟩ := marshal_ok_of_shape a hs.1 hbl
      obtain ⟨tc, hc⟩ := marshal_ok_of_shape c hs.2 hbr
      exact marshalExpr_ok_of_parts _ _ _ _ _ ta (by rw [marshalNode_expr, ha])
        (rightPartOf_ok _ tc (by rw [marshalNode_expr, hc])) hp
    | less =>
      simp only [semShape, Bool.and_eq_true] at hs
      cases l <;> simp [semNode] at hs
      cases r <;> simp [semNode] at hs
      rename_i a c
      simp only [boostsFiniteNode] at hbl hbr
      obtain ⟨ta, ha⟩ := marshal_ok_of_shape a hs.1 hbl
      obtain ⟨tc, hc⟩ := marshal_ok_of_shape c hs.2 hbr
      exact marshalExpr_ok_of_parts _ _ _ _ _ ta (by rw [marshalNode_expr, ha])
        (rightPartOf_ok _ tc (by rw [marshalNode_expr, hc])) hp
    | greaterEq =>
      simp only [semShape, Bool.and_eq_true] at hs
      cases l <;> simp [semNode] at hs
      cases r <;> simp [semNode] at hs
      rename_i a c
      simp only [boostsFiniteNode] at hbl hbr
      obtain ⟨ta, ha⟩ := marshal_ok_of_shape a hs.1 hbl
      obtain ⟨tc, hc⟩ := marshal_ok_of_shape c hs.2 hbr
      exact marshalExpr_ok_of_parts _ _ _ _ _ ta (by rw [marshalNode_expr, ha])
        (rightPartOf_ok _ tc (by rw [marshalNode_expr, hc])) hp
    | lessEq =>
      simp only [semShape, Bool.and_eq_true] at hs
      cases l <;> simp [semNode] at hs
      cases r <;> simp [semNode] at hs
      rename_i a c
      simp only [boostsFiniteNode] at hbl hbr
      obtain ⟨ta, ha⟩ := marshal_ok_of_shape a hs.1 hbl
      obtain ⟨tc, hc⟩ := marshal_ok_of_shape c hs.2 hbr
      exact marshalExpr_ok_of_parts _ _ _ _ _ ta (by rw [marshalNode_expr, ha])
        (rightPartOf_ok _ tc (by rw [marshalNode_expr, hc])) hp
    | not =>
      simp only [semShape, Bool.and_eq_true] at hs
      cases l <;> simp [semNode] at hs
      cases r <;> simp [Node.isNil] at hs
      rename_i a
      simp only [boostsFiniteNode] at hbl
      obtain ⟨ta, ha⟩ := marshal_ok_of_shape a hs hbl
      exact marshalExpr_ok_of_parts _ _ _ _ _ ta (by rw [marshalNode_expr, ha]) ⟨_, rightPartOf_nil⟩ hp
    | must =>
      simp only [semShape, Bool.and_eq_true] at hs
      cases l <;> simp [semNode] at hs
      cases r <;> simp [Node.isNil] at hs
      rename_i a
      simp only [boostsFiniteNode] at hbl
      obtain ⟨ta, ha⟩ := marshal_ok_of_shape a hs hbl
      exact marshalExpr_ok_of_parts _ _ _ _ _ ta (by rw [marshalNode_expr, ha]) ⟨_, rightPartOf_nil⟩ hp
    | mustNot =>
      simp only [semShape, Bool.and_eq_true] at hs
      cases l <;> simp [semNode] at hs
      cases r <;> simp [Node.isNil] at hs
      rename_i a
      simp only [boostsFiniteNode] at hbl
      obtain ⟨ta, ha⟩ := marshal_ok_of_shape a hs hbl
      exact marshalExpr_ok_of_parts _ _ _ _ _ ta (by rw [marshalNode_expr, ha]) ⟨_, rightPartOf_nil⟩ hp
    | boost =>
      simp only [semShape, Bool.and_eq_true] at hs
      cases l <;> simp [semNode] at hs
      cases r <;> simp [Node.isNil] at hs
      rename_i a
      simp only [boostsFiniteNode] at hbl
      obtain ⟨ta, ha⟩ := marshal_ok_of_shape a hs hbl
      exact marshalExpr_ok_of_parts _ _ _ _ _ ta (by rw [marshalNode_expr, ha]) ⟨_, rightPartOf_nil⟩ hp
    | fuzzy =>
      simp only [semShape, Bool.and_eq_true] at hs
      cases l <;> simp [semNode] at hs
      cases r <;> simp [Node.isNil] at hs
      rename_i a
      simp only [boostsFiniteNode] at hbl
      obtain ⟨ta, ha⟩ := marshal_ok_of_shape a hs hbl
      exact marshalExpr_ok_of_parts _ _ _ _ _ ta (by rw [marshalNode_expr, ha]) ⟨_, rightPartOf_nil⟩ hp
    | like =>
      simp only [semShape, Bool.and_eq_true] at hs
      cases l <;> simp [semNode] at hs
      cases r <;> simp at hs
      rename_i a re
      simp only [boostsFiniteNode] at hbl
      obtain ⟨ta, ha⟩ := marshal_ok_of_shape a hs.1 hbl
      obtain ⟨tc, hc⟩ := marshal_leaf_ok hfin re hs.2.1
      exact marshalExpr_ok_of_parts _ _ _ _ _ ta (by rw [marshalNode_expr, ha])
        (rightPartOf_ok _ tc (by rw [marshalNode_expr, hc])) hp
    | in_ =>
      simp only [semShape, Bool.and_eq_true] at hs
      cases l <;> simp [semNode] at hs
      rename_i a
      simp only [boostsFiniteNode] at hbl
      obtain ⟨ta, ha⟩ := marshal_ok_of_shape a hs.1 hbl
      obtain ⟨_, hs2⟩ := hs
      split at hs2
      · rename_i es p' d'
        simp only [Bool.and_eq_true] at hs2
        simp only [boostsFiniteNode, boostsFinite, Bool.and_eq_true] at hbr
        obtain ⟨tc, hc⟩ := marshal_listExpr_ok hfin es p' d' hs2.1 hbr.1.1
        exact marshalExpr_ok_of_parts _ _ _ _ _ ta (by rw [marshalNode_expr, ha])
          (rightPartOf_ok _ tc (by rw [marshalNode_expr, hc])) hp
      · exact absurd hs2 Bool.false_ne_true
    | range =>
      cases r with
      | bound mn mx incl =>
        unfold semShape at hs
        simp only [Bool.and_eq_true] at hs
        cases l <;> simp [semNode] at hs
        rename_i a
        simp only [boostsFiniteNode, Bool.and_eq_true] at hbl hbr
        obtain ⟨ta, ha⟩ := marshal_ok_of_shape a hs.1 hbl
        cases mn with
        | expr lo =>
          cases mx with
          | expr hi =>
            simp only [Bool.and_eq_true] at hs
            simp only [boostsFiniteNode] at hbr
            obtain ⟨tlo, hlo⟩ := marshal_ok_of_shape lo hs.2.1 hbr.1
            obtain ⟨thi, hhi⟩ := marshal_ok_of_shape hi hs.2.2 hbr.2
            refine marshalExpr_ok_of_parts _ _ _ _ _ ta (by rw [marshalNode_expr, ha])
              (rightPartOf_ok _ ?_ ?_) hp
            · exact b "{" ++ jsonKey "min" ++ tlo ++ b "," ++ jsonKey "max" ++ thi ++ b "," ++ jsonKey "inclusive" ++
                (if incl then b "true" else b "false") ++ b "}"
            · rw [marshalNode]
              simp only [marshalNode_expr, hlo, hhi]
          | _ => simp at hs
        | _ => simp at hs
      | _ => unfold semShape at hs; simp at hs

end

/-- the hypothesis on powers is necessary: a non-leaf node whose power is neither `1.0` nor encodable makes MarshalJSON
    fail (with an error, never a panic), whatever its operands are -/
theorem marshal_err_of_bad_power (l : Node) (o : Op) (r : Node) (p : F64) (d : Int)
    (ho : (o = .literal || o = .wild || o = .regexp) = false) (hp : powerOK p = false) :
    ∀ t, marshalExpr (.mk l o r p d) ≠ .ok t := by
  intro t
  simp only [powerOK, Bool.or_eq_false_iff] at hp
  have hpw : powerOf p = .err := by
    unfold powerOf
    rw [if_neg (by simp [hp.1])]
    cases hf : fmtJSON p with
    | some t => simp [hf] at hp
    | none => rfl
  rw [marshalExpr_eq, if_neg (by simp [ho])]
  cases marshalNode l <;> simp only [] <;> try (intro h; cases h)
  cases rightPartOf r <;> simp only [hpw] <;> intro h <;> cases h

end GoLucene
