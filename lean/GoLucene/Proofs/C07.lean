import GoLucene.Model.Parser
namespace GoLucene


theorem shouldShift_term (cur t : TT) (h : t.isTerm) : shouldShift cur t = true := by
  cases t <;> simp [TT.isTerm] at h <;> simp [shouldShift, TT.isTerminal]

/-- Explicit-AND path: from a config whose top is an expression, with lookahead AND then a term. -/
theorem explicit_and (isNum : Bool → Ex → Bool) (fuel : Nat) (c : Cfg) (a t2 : Tok) (rest : List Tok)
    (ha : a.typ = .tand) (h2 : t2.typ.isTerm) (hfuel : c.stack.length < fuel)
    (hlen : 1 ≤ c.stack.length) :
    runW isNum c (a :: t2 :: rest) =
      match reduceUntilShift isNum .tand fuel c with
      | none => .err
      | some c' => runW isNum ⟨.ex (.leaf t2) :: .tok .tand :: c'.stack, .tand :: c'.nts⟩ rest := by
  induction fuel generalizing c with
  | zero => omega
  | succ n ih =>
    rw [runW]
    simp only [nextOf, ha, reduceUntilShift]
    by_cases hs : shouldShift (curOf c) .tand
    · simp [hs, TT.isTerminal]
      rw [runW]
      have : shouldShift (curOf ⟨Item.tok TT.tand :: c.stack, TT.tand :: c.nts⟩) t2.typ = true :=
        shouldShift_term _ _ h2
      have hne : t2.typ ≠ .eof := by cases h : t2.typ <;> simp_all [TT.isTerm]
      have hterm : t2.typ.isTerminal = true := by cases h : t2.typ <;> simp_all [TT.isTerm, TT.isTerminal]
      simp [nextOf, this, hne, hterm]
    · simp [hs]
      cases hr : reduce isNum c with
      | none => simp [hr]
      | some c1 =>
        have hl := reduce_len isNum _ _ hr
        simp [hr]
        exact ih c1 (by omega) hl.2

/-- C07 core: two adjacent terms behave exactly as if AND were written between them. -/
theorem implicit_eq_explicit (isNum : Bool → Ex → Bool) (c : Cfg) (t1 a t2 : Tok) (rest : List Tok)
    (h1 : t1.typ.isTerm) (ha : a.typ = .tand) (h2 : t2.typ.isTerm) :
    runW isNum c (t1 :: t2 :: rest) = runW isNum c (t1 :: a :: t2 :: rest) := by
  have hne1 : t1.typ ≠ .eof := by cases h : t1.typ <;> simp_all [TT.isTerm]
  have hterm1 : t1.typ.isTerminal = true := by cases h : t1.typ <;> simp_all [TT.isTerm, TT.isTerminal]
  have hne2 : t2.typ ≠ .eof := by cases h : t2.typ <;> simp_all [TT.isTerm]
  have hterm2 : t2.typ.isTerminal = true := by cases h : t2.typ <;> simp_all [TT.isTerm, TT.isTerminal]
  -- after shifting t1 both sides are in the same configuration `c1` whose top is `.ex (leaf t1)`
  have key : ∀ c1 : Cfg, (∃ e st, c1.stack = .ex e :: st) →
      runW isNum c1 (t2 :: rest) = runW isNum c1 (a :: t2 :: rest) := by
    intro c1 ⟨e, st, hst⟩
    rw [explicit_and isNum (c1.stack.length + 1) c1 a t2 rest ha h2 (by omega) (by simp [hst])]
    rw [runW]
    simp [nextOf, hne2, shouldShift_term _ _ h2, hterm2, hst]
    split <;> simp_all
  have step : ∀ tl : List Tok, runW isNum c (t1 :: tl) =
      match c.stack with
      | (.ex _) :: _ =>
        (match reduceUntilShift isNum .tand (c.stack.length + 1) c with
          | none => .err
          | some c' => runW isNum ⟨.ex (.leaf t1) :: .tok .tand :: c'.stack, .tand :: c'.nts⟩ tl)
      | _ => runW isNum ⟨.ex (.leaf t1) :: c.stack, c.nts⟩ tl := by
    intro tl
    rw [runW]
    simp only [nextOf, hne1, shouldShift_term _ _ h1, hterm1]
    simp
    split <;> simp_all
    split <;> simp_all
  rw [step, step]
  split
  · split
    · rfl
    · exact key _ ⟨_, _, rfl⟩
  · exact key _ ⟨_, _, rfl⟩

end GoLucene
