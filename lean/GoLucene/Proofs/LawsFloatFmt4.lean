import GoLucene.Proofs.LawsFloatFmt3
/-
  Laws, float formatting side, part 4: an integer-valued float64 of magnitude below 2^53 (other than -0) is written
  as the decimal of that integer (`int_text_bound`); `FmtLaws`.
-/
set_option linter.unusedSimpArgs false
set_option linter.unusedVariables false
namespace GoLucene
namespace Laws
namespace Fmt
open Num JsonRoundTrip

/-! ## (6) integer-valued floats below 2^53 are written as the decimal of the integer -/

/-- `float64(n)` for `0 < n < 2^53` is exact: exponent field `log2 n + 1023`, significand `n · 2^(52 - log2 n)` -/
theorem roundRatBits_int (N : Nat) (h0 : 0 < N) (h53 : N < 9007199254740992) :
    roundRatBits N 1 = (Nat.log2 N + 1022) * two52 + N * 2 ^ (52 - Nat.log2 N) := by
  have hL : Nat.log2 N ≤ 52 := by
    have := (Nat.log2_lt (n := N) (k := 53) (by omega)).mpr (by simpa using h53)
    omega
  have hge : 2 ^ Nat.log2 N ≤ N := Nat.log2_self_le (by omega)
  unfold roundRatBits
  have h1 : ¬ (N = 0 ∨ 1 = 0) := by omega
  rw [if_neg h1]
  have l1 : Nat.log2 1 = 0 := by decide
  simp only [l1]
  generalize Nat.log2 N = L at *
  have d0 : ((L : Int) - ((0 : Nat) : Int)) = (L : Int) := by omega
  simp only [d0]
  have c1 : (L : Int) ≥ 0 := by omega
  simp only [c1, if_true, Int.toNat_natCast, Nat.one_shiftLeft, hge, decide_true]
  have c2 : ¬ ((L : Int) - 52 < -1074) := by omega
  simp only [c2, if_false]
  by_cases hL52 : L = 52
  · subst hL52
    simp [two52]
    omega
  · have c3 : ¬ ((L : Int) - 52 ≥ 0) := by omega
    simp only [c3, if_false]
    have e1 : (-((L : Int) - 52)).toNat = 52 - L := by omega
    have e2 : ((L : Int) - 52 + 1074).toNat = L + 1022 := by omega
    rw [e1, e2, Nat.shiftLeft_eq]
    simp
    omega

theorem ofMag_mag (neg : Bool) (b : Nat) (hb : b < two63) :
    (F64.ofMag neg b).mag = b ∧ (F64.ofMag neg b).isNeg = neg := by
  unfold F64.ofMag F64.ofBitsNat F64.mag F64.isNeg
  simp only [UInt64.toNat_ofNat']
  unfold two63 at *
  cases neg
  · simp only [Bool.false_eq_true, if_false]
    have e1 : b % 2 ^ 64 = b := Nat.mod_eq_of_lt (by omega)
    rw [e1]
    exact ⟨Nat.mod_eq_of_lt hb, by simp; omega⟩
  · simp only [if_true]
    have e1 : (b + 9223372036854775808) % 2 ^ 64 = b + 9223372036854775808 := Nat.mod_eq_of_lt (by omega)
    rw [e1]
    exact ⟨by omega, by simp⟩

/-- what `float64(int(f)) == f` with `|int(f)| < 2^53`, `int(f) ≠ 0` says about the significand and exponent -/
theorem int_float_decode (f : F64) (he : F64.eq f (F64.ofInt f.toInt) = true) (h0 : f.toInt ≠ 0)
    (hb : f.toInt.natAbs < 9007199254740992) :
    f.isFinite = true ∧ f.isZero = false ∧ f.isNeg = decide (f.toInt < 0) ∧
      ∃ L : Nat, L ≤ 52 ∧ f.mant = f.toInt.natAbs * 2 ^ (52 - L) ∧ f.exp2 = (L : Int) - 52 ∧
        4503599627370496 ≤ f.mant ∧ f.mant < 9007199254740992 ∧
        4607182418800017408 ≤ f.mag ∧ f.mag < 4845873199050653696 := by
  generalize f.toInt = i at *
  have hN0 : 0 < i.natAbs := by omega
  simp only [F64.eq, Bool.and_eq_true, Bool.not_eq_true', decide_eq_true_eq] at he
  obtain ⟨⟨_, _⟩, hk⟩ := he
  unfold F64.ofInt at hk
  rw [roundRatBits_int _ hN0 hb] at hk
  have hL : Nat.log2 i.natAbs ≤ 52 := by
    have := (Nat.log2_lt (n := i.natAbs) (k := 53) (by omega)).mpr (by simpa using hb)
    omega
  have hge : 2 ^ Nat.log2 i.natAbs ≤ i.natAbs := Nat.log2_self_le (by omega)
  have hlt : i.natAbs < 2 ^ (Nat.log2 i.natAbs + 1) := Nat.lt_log2_self
  -- the significand is in [2^52, 2^53)
  have hM1 : 2 ^ 52 ≤ i.natAbs * 2 ^ (52 - Nat.log2 i.natAbs) := by
    have := Nat.mul_le_mul_right (2 ^ (52 - Nat.log2 i.natAbs)) hge
    rw [← Nat.pow_add] at this
    have e : Nat.log2 i.natAbs + (52 - Nat.log2 i.natAbs) = 52 := by omega
    rw [e] at this; exact this
  have hM2 : i.natAbs * 2 ^ (52 - Nat.log2 i.natAbs) < 2 ^ 53 := by
    have := Nat.mul_lt_mul_of_pos_right hlt (Nat.pow_pos (by decide) : 0 < 2 ^ (52 - Nat.log2 i.natAbs))
    rw [← Nat.pow_add] at this
    have e : Nat.log2 i.natAbs + 1 + (52 - Nat.log2 i.natAbs) = 53 := by omega
    rw [e] at this; exact this
  generalize Nat.log2 i.natAbs = L at *
  generalize hM : i.natAbs * 2 ^ (52 - L) = M at *
  have hbits : (L + 1022) * two52 + M < two63 := by unfold two52 two63; omega
  obtain ⟨g1, g2⟩ := ofMag_mag (decide (i < 0)) _ hbits
  generalize F64.ofMag (decide (i < 0)) ((L + 1022) * two52 + M) = g at *
  simp only [F64.key, g1, g2] at hk
  have hmag : f.mag = (L + 1022) * two52 + M ∧ f.isNeg = decide (i < 0) := by
    unfold two52 at *
    cases h1 : f.isNeg <;> cases h2 : decide (i < 0) <;>
      simp only [h1, h2, if_true, if_false, Bool.false_eq_true] at hk <;> refine ⟨by omega, ?_⟩ <;> first | rfl | omega
  have hmant : f.mant = M := by
    unfold F64.mant; rw [hmag.1]; unfold two52
    rw [if_neg (by omega)]; omega
  have hexp : f.exp2 = (L : Int) - 52 := by
    unfold F64.exp2; rw [hmag.1]; unfold two52
    rw [if_neg (by omega)]; omega
  refine ⟨?_, ?_, hmag.2, L, hL, by rw [hmant, hM], hexp, by omega, by omega, by rw [hmag.1]; unfold two52; omega,
    by rw [hmag.1]; unfold two52; omega⟩
  · unfold F64.isFinite
    refine decide_eq_true ?_
    rw [hmag.1]; unfold two52 infBits; omega
  · unfold F64.isZero
    refine beq_eq_false_iff_ne.mpr ?_
    rw [hmag.1]; unfold two52; omega

theorem mulK_nat (k : Nat) : mulK (k : Int) = 1 := by
  unfold mulK
  have : (-(k : Int)).toNat = 0 := by omega
  rw [this]

theorem dvK_nat (den k : Nat) : dvK den (k : Int) = den * 10 ^ k := by
  unfold dvK; rw [Int.toNat_natCast]

/-- at a scale that divides the integer the loop stops with the exact quotient -/
theorem stepK_int_some (lo hi den N : Nat) (incl : Bool) (k : Nat) (hden : 0 < den) (hdiv : N % 10 ^ k = 0) :
    stepK lo (N * den) hi den incl (k : Int) = some (N / 10 ^ k) := by
  unfold stepK
  simp only [mulK_nat, dvK_nat, Nat.mul_one]
  rw [Nat.mul_comm N den, Nat.mul_div_mul_left _ _ hden, Nat.mul_mod_mul_left, hdiv]
  simp

/-- at a scale that does not divide the integer no multiple lies within ±1/2 of it: the loop goes on -/
theorem stepK_int_none (lo hi den N : Nat) (incl : Bool) (k : Nat) (hden : 4 ≤ den) (hlo : N * den ≤ lo + 2)
    (hhi : hi ≤ N * den + 2) (hdiv : N % 10 ^ k ≠ 0) :
    stepK lo (N * den) hi den incl (k : Int) = none := by
  unfold stepK
  simp only [mulK_nat, dvK_nat, Nat.mul_one]
  rw [Nat.mul_comm N den, Nat.mul_div_mul_left _ _ (by omega : 0 < den), Nat.mul_mod_mul_left]
  rw [Nat.mul_comm N den] at hlo hhi
  have hT : 0 < 10 ^ k := Nat.pow_pos (by decide)
  have hs := Nat.mod_lt N hT
  have hdm := Nat.div_add_mod N (10 ^ k)
  generalize 10 ^ k = T at *
  generalize N / T = q at *
  generalize N % T = s at *
  -- N = T * q + s, 0 < s < T
  have e1 : den * N = den * (T * q) + den * s := by rw [← hdm, Nat.mul_add]
  have e2 : q * (den * T) = den * (T * q) := by
    rw [Nat.mul_comm q, Nat.mul_assoc]
  have e3 : (q + 1) * (den * T) = den * (T * q) + den * T := by
    rw [Nat.add_mul, e2, Nat.one_mul]
  have e4 : den ≤ den * s := Nat.le_mul_of_pos_right _ (by omega)
  have e5 : den * s + den ≤ den * T := by
    have := Nat.mul_le_mul_left den (show s + 1 ≤ T by omega)
    rw [Nat.mul_add, Nat.mul_one] at this; exact this
  rw [e2, e3]
  generalize den * (T * q) = U at *
  generalize den * s = V at *
  generalize den * T = W at *
  have hr : ¬ V = 0 := by omega
  have hL : ¬ (q > 0 ∧ if incl = true then lo ≤ U else lo < U) := by
    intro h
    have := h.2
    split at this <;> omega
  have hH : ¬ (if incl = true then U + W ≤ hi else U + W < hi) := by
    intro h
    split at h <;> omega
  rw [if_neg hr, if_neg (fun h => hL h.1), if_neg hL, if_neg hH]

/-- for an integer point whose interval has half-width ≤ 1/2 the loop returns the exact quotient at a scale dividing it -/
theorem loop_int (lo hi den N : Nat) (incl : Bool) (hden : 4 ≤ den) (hlo : N * den ≤ lo + 2) (hhi : hi ≤ N * den + 2) :
    ∀ (fuel k : Nat), k < fuel →
      ∃ k' : Nat, k' ≤ k ∧ N % 10 ^ k' = 0 ∧
        shortestLoop lo (N * den) hi den incl fuel (k : Int) = (N / 10 ^ k', (k' : Int)) := by
  intro fuel
  induction fuel with
  | zero => intro k hk; omega
  | succ fuel ih =>
    intro k hk
    rw [loop_succ]
    by_cases hdiv : N % 10 ^ k = 0
    · rw [stepK_int_some lo hi den N incl k (by omega) hdiv]
      exact ⟨k, Nat.le_refl _, hdiv, rfl⟩
    · rw [stepK_int_none lo hi den N incl k hden hlo hhi hdiv]
      have hk0 : k ≠ 0 := by
        intro h0; subst h0; simp [Nat.mod_one] at hdiv
      obtain ⟨k', a1, a2, a3⟩ := ih (k - 1) (by omega)
      have e : (k : Int) - 1 = ((k - 1 : Nat) : Int) := by omega
      simp only [loopK]
      rw [e, a3]
      exact ⟨k', by omega, a2, rfl⟩

/-- `stripZeros` keeps the value (natural scales) -/
theorem strip_val : ∀ (fuel c k : Nat), 0 < c → c < 10 ^ fuel →
    ∃ c' k' : Nat, stripZeros fuel c (k : Int) = (c', (k' : Int)) ∧ 0 < c' ∧ c' % 10 ≠ 0 ∧ c' * 10 ^ k' = c * 10 ^ k := by
  intro fuel
  induction fuel with
  | zero => intro c k h1 h2; simp at h2; omega
  | succ fuel ih =>
    intro c k h1 h2
    rw [stripZeros]
    by_cases hc : c ≠ 0 ∧ c % 10 = 0
    · rw [if_pos hc]
      rw [Nat.pow_succ] at h2
      obtain ⟨c', k', a1, a2, a3, a4⟩ := ih (c / 10) (k + 1) (by omega) (by omega)
      refine ⟨c', k', ?_, a2, a3, ?_⟩
      · rw [← a1]; rfl
      · rw [a4, Nat.pow_succ, Nat.mul_comm (10 ^ k) 10, ← Nat.mul_assoc]
        have : c / 10 * 10 = c := by omega
        rw [this]
    · rw [if_neg hc]
      exact ⟨c, k, rfl, h1, by omega, rfl⟩

/-- digits of a multiple of a power of ten -/
theorem natDigits_mul_pow (c : Nat) (hc : 0 < c) : ∀ z : Nat, natDigits (c * 10 ^ z) = natDigits c ++ zeros z := by
  intro z
  induction z with
  | zero => simp [zeros]
  | succ z ih =>
    have hp : 0 < c * 10 ^ z := Nat.mul_pos hc (Nat.pow_pos (by decide))
    have e : c * 10 ^ (z + 1) = (c * 10 ^ z) * 10 := by rw [Nat.pow_succ, Nat.mul_assoc]
    rw [e, natDigits_ge10 _ (by omega)]
    have e1 : c * 10 ^ z * 10 / 10 = c * 10 ^ z := by omega
    have e2 : c * 10 ^ z * 10 % 10 = 0 := by omega
    rw [e1, e2, ih]
    simp only [zeros, List.append_assoc]
    congr 1
    rw [List.replicate_succ']
    rfl

theorem shortest_int (m : Nat) (e : Int) (N : Nat) (he0 : e ≤ 0) (he1 : -52 ≤ e) (hm : m = N * 2 ^ (-e).toNat)
    (hm1 : 4503599627370496 ≤ m) (hm2 : m < 9007199254740992) (hN : N < 9007199254740992) :
    ∃ c k : Nat, 0 < c ∧ c * 10 ^ k = N ∧ shortest m e = (natDigits c, ((natDigits c).length : Int) + (k : Int)) := by
  rw [shortest_eq]
  have hsc : scE (e - 2) = 1 := by
    unfold scE
    have : (e - 2).toNat = 0 := by omega
    rw [this]
  have hdn : dnE (e - 2) = 4 * 2 ^ (-e).toNat := by
    unfold dnE
    have : (-(e - 2)).toNat = (-e).toNat + 2 := by omega
    rw [this, Nat.pow_add, Nat.mul_comm]
  have hP : 0 < 2 ^ (-e).toNat := Nat.pow_pos (by decide)
  generalize 2 ^ (-e).toNat = P at *
  have hN0 : 0 < N := by
    cases N with
    | zero => simp at hm; omega
    | succ n => omega
  have hx : 4 * m * scE (e - 2) = N * (4 * P) := by
    rw [hsc, hm, Nat.mul_one, Nat.mul_left_comm]
  have hx' : N * (4 * P) = 4 * m := by rw [← hx, hsc, Nat.mul_one]
  -- the start scale is a natural number below 64
  have hL2 : Nat.log2 (4 * m + 2) = 54 := by
    have a1 := (log2_bounds (4 * m + 2) (by omega) (by omega)).2
    have a2 := Nat.log2_lt (n := 4 * m + 2) (k := 54) (by omega)
    by_cases h : Nat.log2 (4 * m + 2) < 54
    · have := a2.mp h; omega
    · omega
  obtain ⟨ks, hks, hks2⟩ : ∃ ks : Nat, kstartOf m e = (ks : Int) ∧ ks < 64 := by
    refine ⟨(kstartOf m e).toNat, ?_, ?_⟩ <;> (unfold kstartOf; rw [hL2]; omega)
  rw [hx, hdn, hks, hsc, Nat.mul_one, Nat.mul_one]
  have n4 : 4 * m ≤ lowN m e + 2 ∧ lowN m e ≤ 4 * m := by unfold lowN; split <;> omega
  obtain ⟨k', _, hdiv, hloop⟩ := loop_int (lowN m e) (4 * m + 2) (4 * P) N (decide (m % 2 = 0)) (by omega)
    (by omega) (by omega) 64 ks hks2
  rw [hloop]
  simp only []
  have hq : 10 ^ k' * (N / 10 ^ k') = N := by
    have := Nat.div_add_mod N (10 ^ k')
    rw [hdiv] at this; exact this
  have hq0 : 0 < N / 10 ^ k' := by
    cases hz : N / 10 ^ k' with
    | zero => rw [hz] at hq; simp at hq; omega
    | succ n => omega
  have hqle : N / 10 ^ k' ≤ N := Nat.div_le_self _ _
  have h400 : (9007199254740992 : Nat) < 10 ^ 400 := by decide +kernel
  obtain ⟨c, k, hs, c1, c2, c3⟩ := strip_val 400 (N / 10 ^ k') k' hq0 (by omega)
  rw [hs]
  exact ⟨c, k, c1, by rw [c3, Nat.mul_comm]; exact hq, rfl⟩

theorem lt_of_mag (g : Nat) (hg : g < infBits) (b : F64) (hb : b.isNaN = false) :
    F64.lt ⟨UInt64.ofNat g⟩ b = decide ((g : Int) < b.key) := by
  unfold infBits at hg
  have hmag : (⟨UInt64.ofNat g⟩ : F64).mag = g := by
    unfold F64.mag two63
    simp only [UInt64.toNat_ofNat']
    omega
  have hneg : (⟨UInt64.ofNat g⟩ : F64).isNeg = false := by
    unfold F64.isNeg two63
    simp only [UInt64.toNat_ofNat']
    refine decide_eq_false ?_
    omega
  have hnan : (⟨UInt64.ofNat g⟩ : F64).isNaN = false := by
    unfold F64.isNaN
    rw [hmag]
    refine decide_eq_false ?_
    unfold infBits; omega
  have hkey : (⟨UInt64.ofNat g⟩ : F64).key = (g : Int) := by
    unfold F64.key
    rw [hneg, hmag]
    rfl
  unfold F64.lt
  rw [hnan, hb, hkey]
  rfl

theorem useE_false (f : F64) (h1 : 4607182418800017408 ≤ f.mag) (h2 : f.mag < 4845873199050653696) :
    (F64.lt ⟨UInt64.ofNat f.mag⟩ f1em6 || !F64.lt ⟨UInt64.ofNat f.mag⟩ f1e21) = false := by
  have k1 : f1em6.key = 4517329193108106637 := by decide
  have k2 : f1e21.key = 4921056587992461136 := by decide
  rw [lt_of_mag _ (by unfold infBits; omega) _ (by decide), lt_of_mag _ (by unfold infBits; omega) _ (by decide), k1, k2]
  have a1 : ¬ ((f.mag : Int) < 4517329193108106637) := by omega
  have a2 : (f.mag : Int) < 4921056587992461136 := by omega
  simp only [a1, a2, decide_true, decide_false, Bool.not_true, Bool.or_self]

theorem fmtF_int (c k : Nat) (hc : 0 < c) :
    fmtFShortest (natDigits c) (((natDigits c).length : Int) + (k : Int)) = natDigits (c * 10 ^ k) := by
  obtain ⟨_, _, l3⟩ := natDigits_len_bounds c hc
  unfold fmtFShortest
  simp only []
  rw [if_neg (by omega)]
  have e : (((natDigits c).length : Int) + (k : Int)).toNat = (natDigits c).length + k := by omega
  rw [e, if_pos (by omega), natDigits_mul_pow c hc]
  congr 2
  omega

theorem _root_.GoLucene.Laws.int_text_bound (f : F64) (he : F64.eq f (F64.ofInt f.toInt) = true) (hz : isNegZero f = false)
    (hb : f.toInt.natAbs < 9007199254740992) : fmtJSON f = some (fmtInt f.toInt) := by
  by_cases h0 : f.toInt = 0
  · -- the value is zero, and it is +0
    rw [h0] at he ⊢
    simp only [F64.eq, Bool.and_eq_true, Bool.not_eq_true', decide_eq_true_eq] at he
    obtain ⟨⟨_, _⟩, hk⟩ := he
    have k0 : (F64.ofInt 0).key = 0 := by decide
    rw [k0] at hk
    have hmag : f.mag = 0 := by
      simp only [F64.key] at hk
      split at hk <;> omega
    have hzero : f.isZero = true := by unfold F64.isZero; rw [hmag]; rfl
    have hneg : f.isNeg = false := by
      simp only [isNegZero, hzero, Bool.true_and] at hz; exact hz
    have hfin : f.isFinite = true := by unfold F64.isFinite; rw [hmag]; decide
    unfold fmtJSON
    have hs : Num.shortestOf f = ([], 0) := by unfold Num.shortestOf; rw [if_pos hzero]
    rw [hs]
    simp only [hfin, hzero, hneg, Bool.not_true, Bool.false_and, Bool.false_eq_true, if_false]
    rfl
  · obtain ⟨hfin, hnz, hneg, L, hL, hmant, hexp, m1, m2, g1, g2⟩ := int_float_decode f he h0 hb
    obtain ⟨c, k, hc, hck, hs⟩ := shortest_int f.mant f.exp2 f.toInt.natAbs (by omega) (by omega)
      (by rw [hmant, hexp]; congr 2; omega) m1 m2 hb
    unfold fmtJSON
    rw [shortestOf_nonzero f hnz, hs]
    simp only [hfin, hnz, Bool.not_true, Bool.false_eq_true, if_false, Bool.not_false, Bool.true_and,
      useE_false f g1 g2, fmtF_int c k hc, hck, hneg]
    congr 1
    unfold signed
    by_cases hi : f.toInt < 0
    · rw [fmtInt_neg _ hi]; simp [hi]
    · rw [fmtInt_nonneg _ hi]; simp [hi]

/-- the two formatting laws of `JsonRoundTrip` -/
theorem _root_.GoLucene.Laws.fmtLaws : FmtLaws := ⟨int_text_leaf, int_text_bound⟩

/-- without the bound the statement is false: 2^62 is written `4611686018427388000` -/
theorem _root_.GoLucene.Laws.int_text_bound_needs_bound :
    F64.eq ⟨0x43D0000000000000⟩ (F64.ofInt (F64.toInt ⟨0x43D0000000000000⟩)) = true ∧
    isNegZero ⟨0x43D0000000000000⟩ = false ∧
    fmtJSON ⟨0x43D0000000000000⟩ = some (b "4611686018427388000") ∧
    fmtInt (F64.toInt ⟨0x43D0000000000000⟩) = b "4611686018427387904" := by
  decide +kernel

#print axioms head_flt
#print axioms shortest_spec
#print axioms fmtJSON_jsonNum
#print axioms fmtJSON_isSome
#print axioms int_text_leaf
#print axioms int_text_bound
#print axioms fmtLaws
#print axioms int_text_bound_needs_bound
end Fmt
end Laws
end GoLucene
