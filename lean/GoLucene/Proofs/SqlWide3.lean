import GoLucene.Proofs.SqlWide2
/-
  C02 (confinement) on the WIDE fragment.

  MAIN THEOREMS
    render_parses_wide       confinedFilter e → textWide e → depthOK e → render pgFns e = .ok t → parseSql t = toAstW e
    render_parses_wide_iff   … = if stackOKW e then toAstW e else none      (exact: PostgreSQL's parser stack)
    renders_wide             the hypotheses imply that rendering succeeds
    confined_cols_consts     every column reference of the parsed predicate is a column leaf of `e`, every constant is
                             a rendering (`rendersOfW`) of a value leaf of `e`
    toAstW_extends           cleanFilter e → toAstW e = toAst e
    confined_of_clean, textWide_of_clean   the wide fragment contains the clean one
-/
set_option linter.unusedSimpArgs false
set_option linter.unusedVariables false

namespace GoLucene.SqlWide
open GoLucene Sql SqlMeaning SqlText

/-! ## the text is read as `toAstW e` -/

/-- PostgreSQL's parser stack is not exhausted by the rendered text -/
def stackOKW (e : Expr) : Bool :=
  match toCstW e with
  | some c => decide (c.peak frameDepth < maxStack)
  | none => false

/-- exact form: PostgreSQL reads the rendered text as `toAstW e`, and rejects it exactly when its parser stack would
    overflow -/
theorem render_parses_wide_iff (e : Expr) (t : Bytes) (hc : confinedFilter e = true) (ht : textWide e = true)
    (hr : render pgFns e = .ok t) :
    parseSql t = if stackOKW e then toAstW e else none := by
  obtain ⟨c, hcst, hre, hren, _⟩ := good_expr_wide e hc ht
  have e1 : t = qText c := by rw [hren] at hr; cases hr; rfl
  rw [e1, parseSql_RK_plain hre, toCstW_toAstW e]
  simp only [stackOKW, hcst, Option.map_some, decide_eq_true_eq]

theorem render_parses_wide_stack (e : Expr) (t : Bytes) (hc : confinedFilter e = true) (ht : textWide e = true)
    (hd : stackOKW e = true) (hr : render pgFns e = .ok t) : parseSql t = toAstW e := by
  rw [render_parses_wide_iff e t hc ht hr, hd]; rfl

/-- rendering succeeds on the wide fragment -/
theorem renders_wide (e : Expr) (hc : confinedFilter e = true) (ht : textWide e = true) :
    ∃ t, render pgFns e = .ok t := by
  obtain ⟨c, _, _, hren, _⟩ := good_expr_wide e hc ht
  exact ⟨_, hren⟩

/-- the translation is total on the wide fragment -/
theorem toAstW_total (e : Expr) (hc : confinedFilter e = true) (ht : textWide e = true) :
    ∃ a, toAstW e = some a := by
  obtain ⟨c, hcst, _, _, _⟩ := good_expr_wide e hc ht
  exact ⟨c.toAst, by rw [toCstW_toAstW, hcst]; rfl⟩

theorem pd_wrap (n : Node) (c : Cst) : pd (wrapOpd n c) ≤ pd c + 1 := by
  unfold wrapOpd; split <;> simp [pd]

mutual
theorem pd_toCstWNode : ∀ (n : Node) (c : Cst), toCstWNode n = some c → pd c ≤ nestNode n
  | .expr e, c, h => by simp only [toCstWNode] at h; simp only [nestNode]; exact pd_toCstW e c h
  | .nil, _, h => by simp [toCstWNode] at h
  | .prim q, c, h => by
    simp only [toCstWNode, Option.map_eq_some_iff] at h
    obtain ⟨a, _, rfl⟩ := h
    rw [pd_emb]; exact Nat.zero_le _
  | .list _, _, h => by simp [toCstWNode] at h
  | .bound _ _ _, _, h => by simp [toCstWNode] at h
theorem pd_toCstW : ∀ (e : Expr) (c : Cst), toCstW e = some c → pd c ≤ nest e
  | .mk l o r p d, c, h => by
    cases o
    case and =>
      simp only [toCstW] at h
      split at h
      · rename_i x y hx hy
        cases h
        have := pd_toCstWNode l x hx; have := pd_toCstWNode r y hy
        have := pd_wrap l x; have := pd_wrap r y
        simp only [pd, nest]; omega
      · cases h
    case or =>
      simp only [toCstW] at h
      split at h
      · rename_i x y hx hy
        cases h
        have := pd_toCstWNode l x hx; have := pd_toCstWNode r y hy
        have := pd_wrap l x; have := pd_wrap r y
        simp only [pd, nest]; omega
      · cases h
    case not =>
      simp only [toCstW] at h
      cases hx : toCstWNode l with
      | none => simp [hx] at h
      | some x =>
        simp only [hx, Option.map_some, Option.some.injEq] at h
        subst h
        have := pd_toCstWNode l x hx
        simp only [pd, nest]; omega
    case mustNot =>
      simp only [toCstW] at h
      cases hx : toCstWNode l with
      | none => simp [hx] at h
      | some x =>
        simp only [hx, Option.map_some, Option.some.injEq] at h
        subst h
        have := pd_toCstWNode l x hx
        simp only [pd, nest]; omega
    case must =>
      simp only [toCstW] at h
      have := pd_toCstWNode l c h
      simp only [nest]; omega
    all_goals first
      | (simp only [toCstW, Option.map_eq_some_iff] at h
         obtain ⟨a, _, rfl⟩ := h
         rw [pd_emb]; exact Nat.zero_le _)
      | (simp [toCstW] at h)
end

theorem stackOKW_of_depthOK (e : Expr) (hc : confinedFilter e = true) (ht : textWide e = true)
    (hd : depthOK e = true) : stackOKW e = true := by
  obtain ⟨c, hcst, hre, _, _⟩ := good_expr_wide e hc ht
  have h2 := pd_toCstW e c hcst
  have h3 : nest e ≤ 2990 := by simpa [depthOK] using hd
  have h1 := rk_stack hre (by omega)
  rw [(rk_plain hre 1).1] at h1
  simp only [stackOKW, hcst, decide_eq_true_eq]
  exact h1

/-- MAIN THEOREM (wide fragment): PostgreSQL's scanner and expression grammar read the rendered text as exactly the
    one expression `toAstW e` — nothing before or after it, no comment, no second statement. -/
theorem render_parses_wide (e : Expr) (t : Bytes) (hc : confinedFilter e = true) (ht : textWide e = true)
    (hd : depthOK e = true) (hr : render pgFns e = .ok t) : parseSql t = toAstW e :=
  render_parses_wide_stack e t hc ht (stackOKW_of_depthOK e hc ht hd) hr

/-! ## provenance of columns and constants -/

theorem rendersOf_sub {q : Prim} {k : Ast} (h : k ∈ rendersOf q) : k ∈ rendersOfW q := by
  cases q with
  | str s => exact List.mem_append_left _ (List.mem_append_left _ h)
  | int i => exact List.mem_append_left _ (List.mem_append_left _ h)
  | flt f => exact List.mem_append_left _ (List.mem_append_left _ h)
  | _ => simp [rendersOf] at h

theorem rendersOfW_val {q : Prim} {k : Ast} (h : astOfPrim q = some k) :
    rendersOfW q = rendersOf q ++ reInt (primTextOf q) ++ reFlt (primTextOf q) := by
  cases q <;> simp [astOfPrim] at h <;> rfl

/-- the conclusion of the C02 corollary for a predicate `a` and a tree with leaves `ls` -/
def FromLeavesW (a : Ast) (ls : List Prim) : Prop :=
  (∀ c ∈ cols a, Prim.col c ∈ ls) ∧ (∀ k ∈ consts a, ∃ q ∈ ls, k ∈ rendersOfW q)

theorem FromLeavesW.mono {a : Ast} {ls ls' : List Prim} (h : FromLeavesW a ls) (hs : ∀ q ∈ ls, q ∈ ls') :
    FromLeavesW a ls' :=
  ⟨fun c hc => hs _ (h.1 c hc), fun k hk => by obtain ⟨q, hq, hk'⟩ := h.2 k hk; exact ⟨q, hs q hq, hk'⟩⟩

theorem FromLeavesW.two {a c r : Ast} {ls : List Prim} (h1 : FromLeavesW a ls) (h2 : FromLeavesW c ls)
    (hc : cols r = cols a ++ cols c) (hk : consts r = consts a ++ consts c) : FromLeavesW r ls := by
  constructor
  · intro x hx
    rw [hc, List.mem_append] at hx
    rcases hx with hx | hx; exact h1.1 x hx; exact h2.1 x hx
  · intro x hx
    rw [hk, List.mem_append] at hx
    rcases hx with hx | hx; exact h1.2 x hx; exact h2.2 x hx

theorem FromLeavesW.cmp (op : CmpOp) {a c : Ast} {ls : List Prim} (h1 : FromLeavesW a ls) (h2 : FromLeavesW c ls) :
    FromLeavesW (.cmp op a c) ls := h1.two h2 (by simp only [cols]) (by simp only [consts])
theorem FromLeavesW.and {a c : Ast} {ls : List Prim} (h1 : FromLeavesW a ls) (h2 : FromLeavesW c ls) :
    FromLeavesW (.and a c) ls := h1.two h2 (by simp only [cols]) (by simp only [consts])
theorem FromLeavesW.or {a c : Ast} {ls : List Prim} (h1 : FromLeavesW a ls) (h2 : FromLeavesW c ls) :
    FromLeavesW (.or a c) ls := h1.two h2 (by simp only [cols]) (by simp only [consts])
theorem FromLeavesW.similar {a c : Ast} {ls : List Prim} (h1 : FromLeavesW a ls) (h2 : FromLeavesW c ls) :
    FromLeavesW (.similar a c) ls := h1.two h2 (by simp only [cols]) (by simp only [consts])
theorem FromLeavesW.regex {a c : Ast} {ls : List Prim} (h1 : FromLeavesW a ls) (h2 : FromLeavesW c ls) :
    FromLeavesW (.regex a c) ls := h1.two h2 (by simp only [cols]) (by simp only [consts])
theorem FromLeavesW.between {a c d : Ast} {ls : List Prim} (h1 : FromLeavesW a ls) (h2 : FromLeavesW c ls)
    (h3 : FromLeavesW d ls) : FromLeavesW (.between a c d) ls :=
  h1.two (r := .between a c d) (c := .and c d) (h2.and h3) (by simp only [cols]) (by simp only [consts])
theorem FromLeavesW.not {a : Ast} {ls : List Prim} (h1 : FromLeavesW a ls) : FromLeavesW (.not a) ls :=
  ⟨fun x hx => h1.1 x (by simpa [cols] using hx), fun x hx => h1.2 x (by simpa [consts] using hx)⟩

/-- a constant that renders the value `q` -/
theorem fromLeavesW_const {k : Ast} {q : Prim} {ls : List Prim} (hk : cols k = [] ∧ consts k = [k])
    (hr : k ∈ rendersOfW q) (hq : q ∈ ls) : FromLeavesW k ls := by
  constructor
  · intro c hc; rw [hk.1] at hc; cases hc
  · intro k' hk'
    rw [hk.2, List.mem_singleton] at hk'
    subst hk'; exact ⟨q, hq, hr⟩

theorem atomAst_from {q : Prim} {a : Ast} (h : atomAst q = some a) : FromLeavesW a [q] := by
  cases q with
  | col f =>
    simp only [atomAst, Option.some.injEq] at h; subst h
    exact ⟨fun c hc => by simpa [cols] using hc, fun k hk => by simp [consts] at hk⟩
  | str s =>
    obtain ⟨h1, h2, h3⟩ := astOfPrim_leaf (q := .str s) h
    exact fromLeavesW_const ⟨h1, h2⟩ (rendersOf_sub h3) (by simp)
  | int i =>
    obtain ⟨h1, h2, h3⟩ := astOfPrim_leaf (q := .int i) h
    exact fromLeavesW_const ⟨h1, h2⟩ (rendersOf_sub h3) (by simp)
  | flt f =>
    obtain ⟨h1, h2, h3⟩ := astOfPrim_leaf (q := .flt f) h
    exact fromLeavesW_const ⟨h1, h2⟩ (rendersOf_sub h3) (by simp)
  | bool v => simp [atomAst, astOfPrim] at h
  | «opaque» => simp [atomAst, astOfPrim] at h

theorem opdPrim_leaf_mem {n : Node} {q : Prim} (h : opdPrim n = some q) : q ∈ leavesNode n := by
  rcases opdPrim_inv h with ⟨o, p, d, rfl, _⟩ | rfl <;> simp [leavesNode, leaves]

theorem opdAst_from {n : Node} {a : Ast} (h : opdAst n = some a) : FromLeavesW a (leavesNode n) := by
  unfold opdAst at h
  cases hq : opdPrim n with
  | none => simp [hq] at h
  | some q =>
    simp only [hq, Option.bind_some] at h
    exact (atomAst_from h).mono (fun q' hq' => by
      have : q' = q := by simpa using hq'
      subst this; exact opdPrim_leaf_mem hq)

theorem listAstW_leaves : ∀ (es : ExprList) (items : AstList), listAstW es = some items →
    (∀ c ∈ colsL items, Prim.col c ∈ leavesList es) ∧ ∀ k ∈ constsL items, ∃ q ∈ leavesList es, k ∈ rendersOfW q
  | .nil, items, h => by simp [listAstW] at h; subst h; simp [colsL, constsL]
  | .cons e t, items, h => by
    unfold listAstW at h
    split at h
    · rename_i heq; cases heq
    · rename_i q o bz fz t' heq
      cases heq
      split at h
      · split at h
        · rename_i a as ha has
          cases h
          have f1 := atomAst_from ha
          obtain ⟨i1, i2⟩ := listAstW_leaves t as has
          constructor
          · intro c hc
            simp only [colsL, List.mem_append] at hc
            rcases hc with hc | hc
            · have := f1.1 c hc
              simp only [List.mem_singleton] at this
              subst this; simp [leavesList, leaves, leavesNode]
            · simp [leavesList, i1 c hc]
          · intro k hk
            simp only [constsL, List.mem_append] at hk
            rcases hk with hk | hk
            · obtain ⟨q', hq', hk'⟩ := f1.2 k hk
              simp only [List.mem_singleton] at hq'
              subst hq'
              exact ⟨q', by simp [leavesList, leaves, leavesNode], hk'⟩
            · obtain ⟨q', hq', hk'⟩ := i2 k hk
              exact ⟨q', by simp [leavesList, hq'], hk'⟩
        · cases h
      · cases h
    · cases h

theorem reInt_mem {t : Bytes} {i : Int} (h : toIntB t = some i) : intAst i ∈ reInt t := by
  simp [reInt, h]
theorem reFlt_mem {t : Bytes} {f : F64} (h : toFltB t = some f) (hs : (t == starQ) = false) :
    fixedAst f ∈ reFlt t := by
  rw [toFltB_ne hs] at h
  simp [reFlt, h]

theorem cmpForm_from {x clo chi : Ast} {ls : List Prim} (incl : Bool) (tlo thi : Bytes) (hx : FromLeavesW x ls)
    (h1 : FromLeavesW clo ls) (h2 : FromLeavesW chi ls) : FromLeavesW (cmpForm x incl tlo thi clo chi) ls := by
  unfold cmpForm
  split
  · exact hx.cmp _ h2
  · split
    · exact hx.cmp _ h1
    · exact (hx.cmp _ h1).and (hx.cmp _ h2)

/-- the same, asking for the provenance of the constants that `cmpForm` really prints -/
theorem cmpForm_from' {x clo chi : Ast} {ls : List Prim} (incl : Bool) (tlo thi : Bytes) (hx : FromLeavesW x ls)
    (h1 : (tlo == starQ) = false → FromLeavesW clo ls)
    (h2 : ((tlo == starQ) = true ∨ (thi == starQ) = false) → FromLeavesW chi ls) :
    FromLeavesW (cmpForm x incl tlo thi clo chi) ls := by
  unfold cmpForm
  split
  · rename_i h; exact hx.cmp _ (h2 (.inl h))
  · rename_i h
    have h' : (tlo == starQ) = false := by simpa using h
    split
    · exact hx.cmp _ (h1 h')
    · rename_i g
      exact (hx.cmp _ (h1 h')).and (hx.cmp _ (h2 (.inr (by simpa using g))))

theorem rangeAstW_from {x a : Ast} {incl : Bool} {qlo qhi : Prim} {ls : List Prim}
    (h : rangeAstW x incl qlo qhi = some a) (hx : FromLeavesW x ls) (h1 : qlo ∈ ls) (h2 : qhi ∈ ls) :
    FromLeavesW a ls := by
  unfold rangeAstW at h
  split at h
  · rename_i klo khi hklo hkhi
    have r1 := rendersOfW_val hklo
    have r2 := rendersOfW_val hkhi
    split at h
    · rename_i i j hij
      cases h
      obtain ⟨e1, e2⟩ := toInts_some hij
      exact cmpForm_from _ _ _ hx
        (fromLeavesW_const (intAst_leaf i) (by rw [r1]; simp [reInt_mem e1]) h1)
        (fromLeavesW_const (intAst_leaf j) (by rw [r2]; simp [reInt_mem e2]) h2)
    · split at h
      · rename_i _ hnone _ f g hfg
        cases h
        obtain ⟨e1, e2⟩ := toFloats_some hfg
        -- in the float layout the printed upper constant never comes from an open end: two open ends are ints
        have hhi : ((primTextOf qlo == starQ) = true ∨ (primTextOf qhi == starQ) = false) →
            (primTextOf qhi == starQ) = false := by
          intro hh
          rcases hh with hh | hh
          · cases hs : primTextOf qhi == starQ with
            | false => rfl
            | true =>
              exfalso
              have : toInts (primTextOf qlo) (primTextOf qhi) = some (0, 0) := by
                rw [eq_of_beq hh, eq_of_beq hs]; decide
              rw [this] at hnone; cases hnone
          · exact hh
        exact cmpForm_from' _ _ _ hx
          (fun hs => fromLeavesW_const (fixedAst_leaf f) (by rw [r1]; simp [reFlt_mem e1 hs]) h1)
          (fun hs => fromLeavesW_const (fixedAst_leaf g) (by rw [r2]; simp [reFlt_mem e2 (hhi hs)]) h2)
      · cases h
        obtain ⟨a1, a2, a3⟩ := astOfPrim_leaf hklo
        obtain ⟨c1, c2, c3⟩ := astOfPrim_leaf hkhi
        exact hx.between (fromLeavesW_const ⟨a1, a2⟩ (rendersOf_sub a3) h1)
          (fromLeavesW_const ⟨c1, c2⟩ (rendersOf_sub c3) h2)
  · cases h

mutual
theorem fromLeavesW_node : ∀ (n : Node) (a : Ast), toAstWNode n = some a → FromLeavesW a (leavesNode n)
  | .expr e, a, h => by simp only [toAstWNode] at h; simp only [leavesNode]; exact fromLeavesW_expr e a h
  | .nil, _, h => by simp [toAstWNode] at h
  | .prim q, a, h => by
    simp only [toAstWNode] at h
    exact (atomAst_from h).mono (fun q' hq' => by simpa [leavesNode] using hq')
  | .list _, _, h => by simp [toAstWNode] at h
  | .bound _ _ _, _, h => by simp [toAstWNode] at h
/-- every column reference of `toAstW e` is a column leaf of the tree and every constant renders a value leaf of
    the tree (no hypothesis on the tree: a property of `toAstW`) -/
theorem fromLeavesW_expr : ∀ (e : Expr) (a : Ast), toAstW e = some a → FromLeavesW a (leaves e)
  | .mk l o r p d, a, h => by
    have hL : ∀ q ∈ leavesNode l, q ∈ leaves (.mk l o r p d) := fun q hq => by simp [leaves, hq]
    have hR : ∀ q ∈ leavesNode r, q ∈ leaves (.mk l o r p d) := fun q hq => by simp [leaves, hq]
    cases o
    case and =>
      simp only [toAstW] at h
      split at h
      · rename_i x y hx hy
        cases h
        exact ((fromLeavesW_node l x hx).mono hL).and ((fromLeavesW_node r y hy).mono hR)
      · cases h
    case or =>
      simp only [toAstW] at h
      split at h
      · rename_i x y hx hy
        cases h
        exact ((fromLeavesW_node l x hx).mono hL).or ((fromLeavesW_node r y hy).mono hR)
      · cases h
    case not =>
      simp only [toAstW, Option.map_eq_some_iff] at h
      obtain ⟨x, hx, rfl⟩ := h
      exact ((fromLeavesW_node l x hx).mono hL).not
    case mustNot =>
      simp only [toAstW, Option.map_eq_some_iff] at h
      obtain ⟨x, hx, rfl⟩ := h
      exact ((fromLeavesW_node l x hx).mono hL).not
    case must =>
      simp only [toAstW] at h
      exact (fromLeavesW_node l a h).mono hL
    case like =>
      simp only [toAstW] at h
      split at h
      · rename_i x pat hx hp
        have fx := (opdAst_from hx).mono hL
        have hq : Prim.str pat ∈ leaves (.mk l .like r p d) := hR _ (opdPrim_leaf_mem hp)
        split at h
        · cases h
          exact fx.regex (fromLeavesW_const ⟨rfl, rfl⟩ (rendersOf_sub (by simp [rendersOf])) hq)
        · cases h
          exact fx.similar (fromLeavesW_const ⟨rfl, rfl⟩ (rendersOf_sub (by simp [rendersOf])) hq)
      · cases h
    case in_ =>
      simp only [toAstW] at h
      split at h
      · rename_i x es _ _ hx
        have fx := (opdAst_from hx).mono hL
        split at h
        · rename_i y ys hl
          cases h
          obtain ⟨i1, i2⟩ := listAstW_leaves es _ hl
          constructor
          · intro c hc
            simp only [cols, List.mem_append] at hc
            rcases hc with hc | hc
            · exact fx.1 c hc
            · simp [leaves, leavesNode, i1 c hc]
          · intro k hk
            simp only [consts, List.mem_append] at hk
            rcases hk with hk | hk
            · exact fx.2 k hk
            · obtain ⟨q, hq, hk'⟩ := i2 k hk
              exact ⟨q, by simp [leaves, leavesNode, hq], hk'⟩
        · cases h
      · cases h
    case range =>
      simp only [toAstW] at h
      split at h
      · rename_i x mn mx incl hx
        have fx := (opdAst_from hx).mono hL
        split at h
        · rename_i qlo qhi hlo hhi
          exact rangeAstW_from h fx
            (by have := opdPrim_leaf_mem hlo; simp [leaves, leavesNode, this])
            (by have := opdPrim_leaf_mem hhi; simp [leaves, leavesNode, this])
        · cases h
      · cases h
    case equals =>
      simp only [toAstW] at h
      split at h
      · rename_i x c hx hcst
        cases h
        exact ((opdAst_from hx).mono hL).cmp _ ((opdAst_from hcst).mono hR)
      · cases h
    case greater =>
      simp only [toAstW] at h
      split at h
      · rename_i x c hx hcst
        cases h
        exact ((opdAst_from hx).mono hL).cmp _ ((opdAst_from hcst).mono hR)
      · cases h
    case less =>
      simp only [toAstW] at h
      split at h
      · rename_i x c hx hcst
        cases h
        exact ((opdAst_from hx).mono hL).cmp _ ((opdAst_from hcst).mono hR)
      · cases h
    case greaterEq =>
      simp only [toAstW] at h
      split at h
      · rename_i x c hx hcst
        cases h
        exact ((opdAst_from hx).mono hL).cmp _ ((opdAst_from hcst).mono hR)
      · cases h
    case lessEq =>
      simp only [toAstW] at h
      split at h
      · rename_i x c hx hcst
        cases h
        exact ((opdAst_from hx).mono hL).cmp _ ((opdAst_from hcst).mono hR)
      · cases h
    case literal =>
      simp only [toAstW] at h
      split at h
      · rename_i q
        exact (atomAst_from h).mono (fun q' hq' => by
          have : q' = q := by simpa using hq'
          subst this; simp [leaves, leavesNode])
      · cases h
    case wild =>
      simp only [toAstW] at h
      split at h
      · rename_i q
        exact (atomAst_from h).mono (fun q' hq' => by
          have : q' = q := by simpa using hq'
          subst this; simp [leaves, leavesNode])
      · cases h
    case regexp =>
      simp only [toAstW] at h
      split at h
      · rename_i q
        exact (atomAst_from h).mono (fun q' hq' => by
          have : q' = q := by simpa using hq'
          subst this; simp [leaves, leavesNode])
      · cases h
    all_goals simp [toAstW] at h
end

/-- COROLLARY (C02, wide fragment): every column reference of the predicate PostgreSQL parses from the rendered text
    is a column leaf of the query tree, and every constant of it is a rendering of a value leaf of the tree. -/
theorem confined_cols_consts (e : Expr) (t : Bytes) (a : Ast) (hc : confinedFilter e = true)
    (ht : textWide e = true) (hr : render pgFns e = .ok t) (hp : parseSql t = some a) :
    (∀ c ∈ cols a, Prim.col c ∈ leaves e) ∧ (∀ k ∈ consts a, ∃ q ∈ leaves e, k ∈ rendersOfW q) := by
  rw [render_parses_wide_iff e t hc ht hr] at hp
  split at hp
  · exact fromLeavesW_expr e a hp
  · cases hp

end GoLucene.SqlWide

#print axioms GoLucene.SqlWide.render_parses_wide
#print axioms GoLucene.SqlWide.render_parses_wide_iff
#print axioms GoLucene.SqlWide.confined_cols_consts
