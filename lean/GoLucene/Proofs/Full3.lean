import GoLucene.Proofs.Full2
namespace GoLucene

/-! concrete handle reductions -/
section handles
variable (isNum : Bool → Ex → Bool) (σ : List Item) (ν : List TT)

theorem red_eq_colon (f v : Ex) :
    reduce isNum ⟨.ex v :: .tok .colon :: .ex f :: σ, .colon :: ν⟩ = some ⟨.ex (.eq f v) :: σ, ν⟩ := by
  simp [reduce, reduceLoop, tryReduce]
theorem red_eq_equal (f v : Ex) :
    reduce isNum ⟨.ex v :: .tok .equal :: .ex f :: σ, .equal :: ν⟩ = some ⟨.ex (.eq f v) :: σ, ν⟩ := by
  simp [reduce, reduceLoop, tryReduce]
theorem red_gt (f v : Ex) :
    reduce isNum ⟨.ex v :: .tok .greater :: .tok .colon :: .ex f :: σ, .greater :: .colon :: ν⟩
      = some ⟨.ex (.cmp true false f v) :: σ, ν⟩ := by
  simp [reduce, reduceLoop, tryReduce]
theorem red_lt (f v : Ex) :
    reduce isNum ⟨.ex v :: .tok .less :: .tok .colon :: .ex f :: σ, .less :: .colon :: ν⟩
      = some ⟨.ex (.cmp false false f v) :: σ, ν⟩ := by
  simp [reduce, reduceLoop, tryReduce]
theorem red_ge (f v : Ex) :
    reduce isNum ⟨.ex v :: .tok .equal :: .tok .greater :: .tok .colon :: .ex f :: σ, .equal :: .greater :: .colon :: ν⟩
      = some ⟨.ex (.cmp true true f v) :: σ, ν⟩ := by
  simp [reduce, reduceLoop, tryReduce]
theorem red_le (f v : Ex) :
    reduce isNum ⟨.ex v :: .tok .equal :: .tok .less :: .tok .colon :: .ex f :: σ, .equal :: .less :: .colon :: ν⟩
      = some ⟨.ex (.cmp false true f v) :: σ, ν⟩ := by
  simp [reduce, reduceLoop, tryReduce]
theorem red_range (f lo hi : Ex) (lb rb : Br) :
    reduce isNum ⟨.tok rb.closeT :: .ex hi :: .tok .tto :: .ex lo :: .tok lb.openT :: .tok .colon :: .ex f :: σ,
        rb.closeT :: .tto :: lb.openT :: .colon :: ν⟩
      = some ⟨.ex (.range f lo hi (decide (lb = .sq ∧ rb = .sq))) :: σ, ν⟩ := by
  cases lb <;> cases rb <;> simp [reduce, reduceLoop, tryReduce, Br.openT, Br.closeT]
theorem red_must (e : Ex) :
    reduce isNum ⟨.ex e :: .tok .plus :: σ, .plus :: ν⟩ = some ⟨.ex (.must e) :: σ, ν⟩ := by
  simp [reduce, reduceLoop, tryReduce]
theorem red_mustNot (e : Ex) :
    reduce isNum ⟨.ex e :: .tok .minus :: σ, .minus :: ν⟩ = some ⟨.ex (.mustNot e) :: σ, ν⟩ := by
  simp [reduce, reduceLoop, tryReduce]
theorem red_fuzzy0 (e : Ex) :
    reduce isNum ⟨.tok .tilde :: .ex e :: σ, .tilde :: ν⟩ = some ⟨.ex (.fuzzy e none) :: σ, ν⟩ := by
  simp [reduce, reduceLoop, tryReduce]
theorem red_fuzzy1 (e d : Ex) (hd : isNum true d = true) :
    reduce isNum ⟨.ex d :: .tok .tilde :: .ex e :: σ, .tilde :: ν⟩ = some ⟨.ex (.fuzzy e (some d)) :: σ, ν⟩ := by
  simp [reduce, reduceLoop, tryReduce, hd]
theorem red_boost0 (e : Ex) :
    reduce isNum ⟨.tok .carrot :: .ex e :: σ, .carrot :: ν⟩ = some ⟨.ex (.boost e none) :: σ, ν⟩ := by
  simp [reduce, reduceLoop, tryReduce]
theorem red_boost1 (e d : Ex) (hd : isNum false d = true) :
    reduce isNum ⟨.ex d :: .tok .carrot :: .ex e :: σ, .carrot :: ν⟩ = some ⟨.ex (.boost e (some d)) :: σ, ν⟩ := by
  simp [reduce, reduceLoop, tryReduce, hd]
end handles

end GoLucene
