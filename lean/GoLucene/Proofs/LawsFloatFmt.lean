import GoLucene.Proofs.LawsDefs
/-
  Laws, float formatting side: facts about `fmtJSON`, `Num.shortestOf`, `Num.shortest`, `Num.shortestLoop`,
  `Num.stripZeros`, `Num.fmtFShortest`, `Num.fmtEShortest`, `Num.jsonCleanExp`, `Num.signed`.
-/
set_option linter.unusedSimpArgs false
set_option linter.unusedVariables false

namespace GoLucene
namespace Laws
namespace Fmt

open Num JsonRoundTrip

/-! ## (1) the text of a float starts with `-` or a digit -/

theorem numHead_of_headDig (l : Bytes) (hne : l ≠ []) (h : SqlMeaning.headDig l) : numHead l = true := by
  cases l with
  | nil => exact absurd rfl hne
  | cons c t =>
    have := h c rfl
    simp only [numHead, Bool.or_eq_true, beq_iff_eq]
    right
    have := (SqlMeaning.isDig_iff c).mp this
    simp only [Bool.and_eq_true, decide_eq_true_eq, UInt8.le_iff_toNat_le]
    exact this

theorem fmtE_ne_nil (ds : Bytes) (dp : Int) : Num.fmtEShortest ds dp ≠ [] := by
  unfold Num.fmtEShortest
  cases ds <;> simp

theorem jsonCleanExp_head (bs : Bytes) (hne : bs ≠ []) : (jsonCleanExp bs).head? = bs.head? ∧ jsonCleanExp bs ≠ [] := by
  unfold jsonCleanExp
  split
  · rename_i d more hr
    have hb : bs = (d :: 48 :: 45 :: 101 :: more).reverse := by rw [← hr, List.reverse_reverse]
    subst hb
    simp only [List.reverse_cons, List.append_assoc, List.cons_append, List.nil_append]
    cases more.reverse <;> simp
  · exact ⟨rfl, hne⟩

theorem fmtF_ne_nil (ds : Bytes) (dp : Int) : Num.fmtFShortest ds dp ≠ [] := by
  unfold Num.fmtFShortest
  simp only []
  split
  · split <;> simp
  · rename_i hdp
    split
    · cases ds with
      | nil =>
        have : dp.toNat - ([] : Bytes).length = (dp.toNat - 1) + 1 := by simp; omega
        rw [this]; simp [Num.zeros, List.replicate_succ]
      | cons d more => simp
    · simp

theorem headDig_jsonCleanExp (bs : Bytes) (hne : bs ≠ []) (h : SqlMeaning.headDig bs) :
    SqlMeaning.headDig (jsonCleanExp bs) := by
  intro c hc
  rw [(jsonCleanExp_head bs hne).1] at hc
  exact h c hc

theorem _root_.GoLucene.Laws.head_flt (f : F64) (t : Bytes) (h : fmtJSON f = some t) : numHead t = true := by
  unfold fmtJSON at h
  split at h
  · cases h
  · have hd := SqlMeaning.shortestOf_digits f
    generalize Num.shortestOf f = p at h hd
    obtain ⟨ds, dp⟩ := p
    simp only [Option.some.injEq] at h hd
    subst h
    unfold Num.signed
    split
    · rfl
    · split
      · exact numHead_of_headDig _ (jsonCleanExp_head _ (fmtE_ne_nil ds dp)).2
          (headDig_jsonCleanExp _ (fmtE_ne_nil ds dp) (SqlMeaning.fmtE_headDig ds dp hd))
      · exact numHead_of_headDig _ (fmtF_ne_nil ds dp) (SqlMeaning.fmtF_headDig ds dp hd)

/-! ## (2) the digit search: one step, progress -/


def mulK (k : Int) : Nat := 10 ^ (-k).toNat
def dvK (den : Nat) (k : Int) : Nat := den * 10 ^ k.toNat

/-- one step of `shortestLoop`, uniformly written: `none` = go on with `k - 1` -/
def stepK (lo x hi den : Nat) (incl : Bool) (k : Int) : Option Nat :=
  let mul := mulK k
  let dv := dvK den k
  let x' := x * mul
  let c := x' / dv
  let r := x' % dv
  if r = 0 then some c else
  let lowOK := c > 0 ∧ (if incl then lo * mul ≤ c * dv else lo * mul < c * dv)
  let highOK := if incl then (c + 1) * dv ≤ hi * mul else (c + 1) * dv < hi * mul
  if lowOK ∧ highOK then
    if 2 * r < dv then some c
    else if dv < 2 * r then some (c + 1)
    else if c % 2 = 0 then some c else some (c + 1)
  else if lowOK then some c
  else if highOK then some (c + 1)
  else none

theorem loop_mul (k : Int) : (if k < 0 then 10 ^ (-k).toNat else 1) = mulK k := by
  unfold mulK
  split
  · rfl
  · have : (-k).toNat = 0 := by omega
    rw [this]

theorem loop_dv (den : Nat) (k : Int) : (if k ≥ 0 then den * 10 ^ k.toNat else den) = dvK den k := by
  unfold dvK
  split
  · rfl
  · have : k.toNat = 0 := by omega
    rw [this]; simp

def loopK (k : Int) (rest : Nat × Int) : Option Nat → Nat × Int
  | some c => (c, k)
  | none => rest

theorem loop_succ (lo x hi den : Nat) (incl : Bool) (fuel : Nat) (k : Int) :
    shortestLoop lo x hi den incl (fuel + 1) k =
      loopK k (shortestLoop lo x hi den incl fuel (k - 1)) (stepK lo x hi den incl k) := by
  rw [shortestLoop]
  simp only [loop_mul, loop_dv]
  unfold stepK
  simp only [apply_ite (loopK k (shortestLoop lo x hi den incl fuel (k - 1)))]
  rfl

/-- `c · 10^k` lies in the interval `[lo, hi] / den` (`(lo, hi) / den` if not `incl`) -/
def InI (lo hi den : Nat) (incl : Bool) (c : Nat) (k : Int) : Prop :=
  if incl then lo * mulK k ≤ c * dvK den k ∧ c * dvK den k ≤ hi * mulK k
  else lo * mulK k < c * dvK den k ∧ c * dvK den k < hi * mulK k

theorem mulK_pos (k : Int) : 0 < mulK k := Nat.pow_pos (by decide)
theorem dvK_pos (den : Nat) (k : Int) (h : 0 < den) : 0 < dvK den k := Nat.mul_pos h (Nat.pow_pos (by decide))

theorem stepK_some (lo x hi den : Nat) (incl : Bool) (k : Int) (hlo : lo < x) (hhi : x < hi) (hden : 0 < den)
    (c : Nat) (h : stepK lo x hi den incl k = some c) : 0 < c ∧ InI lo hi den incl c k := by
  unfold stepK at h
  simp only [] at h
  unfold InI
  have hM := mulK_pos k
  have hD := dvK_pos den k hden
  have e := Nat.div_add_mod (x * mulK k) (dvK den k)
  have hr := Nat.mod_lt (x * mulK k) hD
  have h1 : lo * mulK k < x * mulK k := Nat.mul_lt_mul_of_pos_right hlo hM
  have h2 : x * mulK k < hi * mulK k := Nat.mul_lt_mul_of_pos_right hhi hM
  have e2 : (x * mulK k / dvK den k + 1) * dvK den k = x * mulK k / dvK den k * dvK den k + dvK den k := Nat.succ_mul _ _
  rw [Nat.mul_comm (dvK den k)] at e
  rw [e2] at h
  have hP0 : x * mulK k / dvK den k = 0 → x * mulK k / dvK den k * dvK den k = 0 := by intro h0; rw [h0]; simp
  generalize x * mulK k / dvK den k = c0 at *
  generalize x * mulK k % dvK den k = r at *
  generalize lo * mulK k = LM at *
  generalize hi * mulK k = HM at *
  generalize x * mulK k = XM at *
  by_cases hincl : incl = true <;> simp only [hincl, if_true, if_false, Bool.false_eq_true] at h ⊢
  all_goals (repeat' split at h)
  all_goals (cases h)
  all_goals (try rw [e2])
  all_goals omega

theorem stepK_none (lo x hi den : Nat) (incl : Bool) (k : Int) (hlo : lo < x) (hhi : x < hi) (hden : 0 < den)
    (h : stepK lo x hi den incl k = none) : (hi - lo) * mulK k ≤ dvK den k := by
  unfold stepK at h
  simp only [] at h
  rw [Nat.sub_mul]
  have hM := mulK_pos k
  have hD := dvK_pos den k hden
  have e := Nat.div_add_mod (x * mulK k) (dvK den k)
  have hr := Nat.mod_lt (x * mulK k) hD
  have h1 : lo * mulK k < x * mulK k := Nat.mul_lt_mul_of_pos_right hlo hM
  have h2 : x * mulK k < hi * mulK k := Nat.mul_lt_mul_of_pos_right hhi hM
  have e2 : (x * mulK k / dvK den k + 1) * dvK den k = x * mulK k / dvK den k * dvK den k + dvK den k := Nat.succ_mul _ _
  rw [Nat.mul_comm (dvK den k)] at e
  rw [e2] at h
  have hP0 : x * mulK k / dvK den k = 0 → x * mulK k / dvK den k * dvK den k = 0 := by intro h0; rw [h0]; simp
  generalize x * mulK k / dvK den k = c0 at *
  generalize x * mulK k % dvK den k = r at *
  generalize lo * mulK k = LM at *
  generalize hi * mulK k = HM at *
  generalize x * mulK k = XM at *
  by_cases hincl : incl = true <;> simp only [hincl, if_true, if_false, Bool.false_eq_true] at h ⊢
  all_goals (repeat' split at h)
  all_goals (first | (cases h; done) | skip)
  all_goals omega

/-- the loop returns a positive multiplier inside the interval, provided the fuel reaches a scale finer than the
    interval's width -/
theorem loop_spec (lo x hi den : Nat) (incl : Bool) (hlo : lo < x) (hhi : x < hi) (hden : 0 < den) :
    ∀ (fuel : Nat) (k : Int), (∃ k0 : Int, k - fuel < k0 ∧ k0 ≤ k ∧ dvK den k0 < (hi - lo) * mulK k0) →
      0 < (shortestLoop lo x hi den incl fuel k).1 ∧
      InI lo hi den incl (shortestLoop lo x hi den incl fuel k).1 (shortestLoop lo x hi den incl fuel k).2 ∧
      k - fuel < (shortestLoop lo x hi den incl fuel k).2 ∧ (shortestLoop lo x hi den incl fuel k).2 ≤ k := by
  intro fuel
  induction fuel with
  | zero => intro k ⟨k0, h1, h2, _⟩; omega
  | succ fuel ih =>
    intro k ⟨k0, h1, h2, h3⟩
    rw [loop_succ]
    cases hs : stepK lo x hi den incl k with
    | some c =>
      obtain ⟨hc, hi'⟩ := stepK_some lo x hi den incl k hlo hhi hden c hs
      simp only [loopK]
      exact ⟨hc, hi', by omega, by omega⟩
    | none =>
      simp only [loopK]
      have hw := stepK_none lo x hi den incl k hlo hhi hden hs
      have hk : k0 ≠ k := by intro e; subst e; omega
      obtain ⟨a1, a2, a3, a4⟩ := ih (k - 1) ⟨k0, by omega, by omega, h3⟩
      exact ⟨a1, a2, by omega, by omega⟩

theorem scale_nonneg (den : Nat) (k : Int) (h : 0 ≤ k) :
    mulK k = 1 ∧ mulK (k + 1) = 1 ∧ dvK den (k + 1) = 10 * dvK den k := by
  unfold mulK dvK
  have e1 : (-k).toNat = 0 := by omega
  have e2 : (-(k + 1)).toNat = 0 := by omega
  have e3 : (k + 1).toNat = k.toNat + 1 := by omega
  rw [e1, e2, e3, Nat.pow_succ]
  refine ⟨rfl, rfl, ?_⟩
  rw [Nat.mul_comm 10, Nat.mul_assoc]

theorem scale_neg (den : Nat) (k : Int) (h : k < 0) :
    dvK den k = den ∧ dvK den (k + 1) = den ∧ mulK k = 10 * mulK (k + 1) := by
  unfold mulK dvK
  have e1 : k.toNat = 0 := by omega
  have e2 : (k + 1).toNat = 0 := by omega
  have e3 : (-k).toNat = (-(k + 1)).toNat + 1 := by omega
  rw [e1, e2, e3, Nat.pow_succ]
  refine ⟨by simp, by simp, Nat.mul_comm _ _⟩

theorem InI_step (lo hi den : Nat) (incl : Bool) (c : Nat) (k : Int) (h : InI lo hi den incl (10 * c) k) :
    InI lo hi den incl c (k + 1) := by
  unfold InI at h ⊢
  by_cases hk : 0 ≤ k
  · obtain ⟨e1, e2, e3⟩ := scale_nonneg den k hk
    rw [e1] at h
    rw [e2, e3]
    have : c * (10 * dvK den k) = 10 * c * dvK den k := by
      rw [← Nat.mul_assoc, Nat.mul_comm c 10]
    rw [this]
    exact h
  · obtain ⟨e1, e2, e3⟩ := scale_neg den k (by omega)
    rw [e1, e3] at h
    rw [e2]
    have a1 : lo * (10 * mulK (k + 1)) = 10 * (lo * mulK (k + 1)) := by
      rw [← Nat.mul_assoc, Nat.mul_comm lo 10, Nat.mul_assoc]
    have a2 : hi * (10 * mulK (k + 1)) = 10 * (hi * mulK (k + 1)) := by
      rw [← Nat.mul_assoc, Nat.mul_comm hi 10, Nat.mul_assoc]
    have a3 : 10 * c * den = 10 * (c * den) := Nat.mul_assoc _ _ _
    rw [a1, a2, a3] at h
    generalize lo * mulK (k + 1) = A at *
    generalize hi * mulK (k + 1) = B at *
    generalize c * den = C at *
    split at h <;> rename_i hi' <;> simp only [hi', if_true, if_false, Bool.false_eq_true] <;> omega

/-- `stripZeros` removes all trailing zeros of a positive `c < 10^fuel`, keeping the value -/
theorem strip_spec (lo hi den : Nat) (incl : Bool) : ∀ (fuel c : Nat) (k : Int), 0 < c → c < 10 ^ fuel →
    InI lo hi den incl c k →
    0 < (stripZeros fuel c k).1 ∧ (stripZeros fuel c k).1 % 10 ≠ 0 ∧
      InI lo hi den incl (stripZeros fuel c k).1 (stripZeros fuel c k).2 ∧ k ≤ (stripZeros fuel c k).2 := by
  intro fuel
  induction fuel with
  | zero => intro c k h1 h2; simp at h2; omega
  | succ fuel ih =>
    intro c k h1 h2 h3
    rw [stripZeros]
    by_cases hc : c ≠ 0 ∧ c % 10 = 0
    · rw [if_pos hc]
      have e : c = 10 * (c / 10) := by omega
      rw [e] at h3
      rw [Nat.pow_succ] at h2
      obtain ⟨a1, a2, a3, a4⟩ := ih (c / 10) (k + 1) (by omega) (by omega) (InI_step lo hi den incl _ k h3)
      exact ⟨a1, a2, a3, by omega⟩
    · rw [if_neg hc]
      exact ⟨h1, by omega, h3, by omega⟩


/-! ## (3) `shortest` -/


theorem f_ranges (f : F64) (hfin : f.isFinite = true) (hnz : f.isZero = false) :
    0 < f.mant ∧ f.mant < 9007199254740992 ∧ -1074 ≤ f.exp2 ∧ f.exp2 ≤ 971 := by
  unfold F64.isFinite at hfin
  unfold F64.isZero at hnz
  unfold F64.mant F64.exp2
  simp only [decide_eq_true_eq, infBits, beq_eq_false_iff_ne, ne_eq] at hfin hnz
  simp only [two52]
  generalize f.mag = g at *
  have hfin' : g < 9218868437227405312 := of_decide_eq_true hfin
  by_cases hg : g < 4503599627370496 <;> simp only [hg, if_true, if_false] <;> omega

def lowN (m : Nat) (e : Int) : Nat := if m = two52 ∧ e ≠ -1074 then 4 * m - 1 else 4 * m - 2
def scE (e2 : Int) : Nat := 2 ^ e2.toNat
def dnE (e2 : Int) : Nat := 2 ^ (-e2).toNat
def kstartOf (m : Nat) (e : Int) : Int := ((Nat.log2 (4 * m + 2) : Int) + 1 + (e - 2)) * 30103 / 100000 + 1

theorem sc_eq (e2 : Int) : (if e2 ≥ 0 then 2 ^ e2.toNat else 1) = scE e2 := by
  unfold scE
  split
  · rfl
  · have : e2.toNat = 0 := by omega
    rw [this]
theorem dn_eq (e2 : Int) : (if e2 ≥ 0 then 1 else 2 ^ (-e2).toNat) = dnE e2 := by
  unfold dnE
  split
  · have : (-e2).toNat = 0 := by omega
    rw [this]
  · rfl

theorem shortest_eq (m : Nat) (e : Int) : shortest m e =
    (natDigits (stripZeros 400 (shortestLoop (lowN m e * scE (e - 2)) (4 * m * scE (e - 2)) ((4 * m + 2) * scE (e - 2))
        (dnE (e - 2)) (decide (m % 2 = 0)) 64 (kstartOf m e)).1
        (shortestLoop (lowN m e * scE (e - 2)) (4 * m * scE (e - 2)) ((4 * m + 2) * scE (e - 2))
        (dnE (e - 2)) (decide (m % 2 = 0)) 64 (kstartOf m e)).2).1,
     ((natDigits (stripZeros 400 (shortestLoop (lowN m e * scE (e - 2)) (4 * m * scE (e - 2)) ((4 * m + 2) * scE (e - 2))
        (dnE (e - 2)) (decide (m % 2 = 0)) 64 (kstartOf m e)).1
        (shortestLoop (lowN m e * scE (e - 2)) (4 * m * scE (e - 2)) ((4 * m + 2) * scE (e - 2))
        (dnE (e - 2)) (decide (m % 2 = 0)) 64 (kstartOf m e)).2).1).length : Int) +
      (stripZeros 400 (shortestLoop (lowN m e * scE (e - 2)) (4 * m * scE (e - 2)) ((4 * m + 2) * scE (e - 2))
        (dnE (e - 2)) (decide (m % 2 = 0)) 64 (kstartOf m e)).1
        (shortestLoop (lowN m e * scE (e - 2)) (4 * m * scE (e - 2)) ((4 * m + 2) * scE (e - 2))
        (dnE (e - 2)) (decide (m % 2 = 0)) 64 (kstartOf m e)).2).2) := by
  unfold shortest
  simp only [Nat.one_shiftLeft, sc_eq, dn_eq]
  rfl

end Fmt
end Laws
end GoLucene
