import GoLucene.Proofs.LawsGlue
import GoLucene.Proofs.LawsFloatFmt4
import GoLucene.Proofs.LawsFloatParse2
import GoLucene.Proofs.LawsJsonScan3
import GoLucene.Proofs.LawsJsonStr
import GoLucene.Proofs.JsonParse
/-
  The "law" hypotheses of the JSON round-trip theorems (Proofs/JsonRoundTrip.lean), PROVED from the executable model
  definitions of Model/Json.lean (encoding/json's text layer) and Model/Num.lean (strconv, float64):

      theorem jsonLaws : JsonLaws        theorem numLaws : NumLaws
      theorem numLaws2 : NumLaws2        theorem fmtLaws : FmtLaws

  and the law-free corollaries of the main theorems (`roundtrip_decodes`, `roundtrip_total`, `roundtrip_stable`,
  `roundtrip_reencode`, `roundtrip_full` of JsonRoundTrip; `query_decodes`, `query_roundtrip`, `query_roundtrip'`,
  `query_deep_equal` of JsonParse).  No hypothesis about the two modelled stdlib layers remains.

  Where the pieces are:
    LawsNum          atoi / fmtInt / quotes / `F64.eq one` / `toInt_stable`                     (NumLaws, NumLaws2)
    LawsDefs         `decodeRune` by cases, `EncB` (what `encodeString` writes), `JsonNum`, `inIvl`
    LawsFloatFmt1-4  `shortest` never runs out of fuel, returns the digits of a decimal inside the rounding interval
                     (`shortest_spec`); the JSON text of a float is a JSON number (`fmtJSON_jsonNum`); `FmtLaws`
    LawsFloatParse1-2 `roundRatBits` rounds correctly (`roundRat_correct`); `parseFloat` on the encoder's number texts
    LawsJsonScan1-3  `valid`, `parse1`, `anyDecodable` on the encoder's texts; the two depth refutations
    LawsJsonStr      `decodeString ∘ encodeString`, `trim`, `trimSpace`, `stripSpaces` / `containsSub`
    LawsGlue         how the float facts give `parseFloat (fmtJSON f) = f`, and `parse_str`

  The laws as ORIGINALLY stated were unsatisfiable (two fields false of the model); JsonRoundTrip.lean was repaired:
    * `JsonLaws.valid_enc` / `parse_arr` / `parse_obj` without a nesting bound are false (`valid_enc_unbounded_false`:
      10001 nested arrays); they now carry `n ≤ / < maxNestingDepth` on the depth index of `Enc n t`, and the
      decoding theorems carry `depthOK e`.  Necessary: `decode_needs_depth`.
    * `FmtLaws.int_text_bound` without `|f| < 2^53` is false (`int_text_bound_unbounded_false`: 2^62 is written
      4611686018427388000); `noBigIntBound` now also excludes integer-valued float range bounds beyond 2^53.
      Necessary: `JsonRoundTrip.reencode_needs_noBigFloatBound`.
-/
set_option linter.unusedSimpArgs false
set_option linter.unusedVariables false

namespace GoLucene
namespace Laws

open Json Num JsonRoundTrip NoPanic

/-! ## the four bundles -/

/-- the JSON text of a finite float64 is a JSON number literal -/
theorem hflt : ∀ (f : F64) (t : Bytes), fmtJSON f = some t → JsonNum t := fmtJSON_jsonNum

theorem parseFloat_fmtJSON (f : F64) (t : Bytes) (h : fmtJSON f = some t) : parseFloat t = some f :=
  parseFloat_fmtJSON_glue shortest_spec parseFloat_fmtF parseFloat_fmtE parseFloat_zero rr_correct ofMag_mag f t h

theorem parse_str (s : Bytes) (hv : validUtf8 s = true) : parse1 (encodeString s) = some (.str s) :=
  parse_str_of valid_str decodeString_encodeString s hv

theorem numLaws : NumLaws where
  atoi_fmtInt := atoi_fmtInt
  atoi_quote := atoi_quote
  parseFloat_quote := parseFloat_quote
  parseFloat_fmtJSON := parseFloat_fmtJSON
  parseFloat_fmtInt := parseFloat_fmtInt
  head_int := head_int
  head_flt := head_flt
  eq_one := eq_one

theorem jsonLaws : JsonLaws where
  valid_enc := valid_enc hflt
  trim_enc := trim_enc hflt
  trimSpace_enc := trimSpace_enc hflt
  str_head := str_head
  parse_str := parse_str
  parse_int := parse_int
  parse_flt := parse_flt hflt
  parse_arr := parse_arr hflt
  parse_obj := parse_obj hflt
  any_str := any_str
  any_int := any_int
  any_flt := any_flt hflt
  strip_left := strip_left
  strip_leaf := strip_leaf hflt
  strip_bound := strip_bound hflt

-- `numLaws2 : NumLaws2` is in LawsNum.lean, `fmtLaws : FmtLaws` in LawsFloatFmt4.lean.

/-- `fmtJSON` is defined on every finite float (the hypothesis `hfin` of `roundtrip_total`) -/
theorem fmtJSON_total (f : F64) (h1 : f.isInf = false) (h2 : f.isNaN = false) : (fmtJSON f).isSome = true := by
  apply fmtJSON_isSome
  simp only [F64.isInf, F64.isNaN, F64.isFinite, beq_eq_false_iff_ne, decide_eq_false_iff_not,
    decide_eq_true_eq] at h1 h2 ⊢
  omega

/-! ## the laws as first stated were false of the model -/

/-- without `|f| < 2^53` the law `int_text_bound` is FALSE of Model/Num.lean: 2^62 -/
theorem int_text_bound_unbounded_false :
    ¬ (∀ f : F64, F64.eq f (F64.ofInt f.toInt) = true → isNegZero f = false → fmtJSON f = some (fmtInt f.toInt)) := by
  intro h
  obtain ⟨h1, h2, h3, h4⟩ := int_text_bound_needs_bound
  have := h _ h1 h2
  rw [h3, h4] at this
  revert this
  decide

-- `valid_enc_unbounded_false` and `decode_needs_depth` are in LawsJsonScan3.lean.

/-! ## law-free corollaries: C12 over trees -/

/-- C12 (1): the encoding of a parser-shaped, validated tree (within the nesting limit) decodes to `retype` of it -/
theorem roundtrip_decodes (e : Expr) (hs : semShapeT e = true) (hv : validateExpr e = true)
    (hsv : allStringsValid e = true) (hi : intsInt64 e = true) (hdp : depthOK e = true)
    (j : Bytes) (h : marshalExpr e = .ok j) : unmarshalTop j = .ok (retype e) :=
  JsonRoundTrip.roundtrip_decodes jsonLaws numLaws e hs hv hsv hi hdp j h

/-- C12 (1) with the success of the encoder -/
theorem roundtrip_total (e : Expr) (hs : semShapeT e = true) (hv : validateExpr e = true)
    (hb : boostsFinite e = true) (hsv : allStringsValid e = true) (hi : intsInt64 e = true)
    (hdp : depthOK e = true) : ∃ j, marshalExpr e = .ok j ∧ unmarshalTop j = .ok (retype e) :=
  JsonRoundTrip.roundtrip_total jsonLaws numLaws fmtJSON_total e hs hv hb hsv hi hdp

/-- C12 (2) -/
theorem roundtrip_stable (e : Expr) :
    retype (retype e) = retype e ∧
    (semShapeT e = true → validateExpr e = true → fieldsCanon e = true → noNegZeroLeaf e = true →
      noBigIntBound e = true → marshalExpr (retype e) = marshalExpr e) ∧
    (kindStable e = true → retype e = e) :=
  JsonRoundTrip.roundtrip_stable numLaws numLaws2 fmtLaws e

theorem retype_idem (e : Expr) : retype (retype e) = retype e := (roundtrip_stable e).1

/-- C12, the chain: decode, re-encode to the identical bytes -/
theorem roundtrip_reencode (e : Expr) (hs : semShapeT e = true)
    (hv : validateExpr e = true) (hsv : allStringsValid e = true) (hi : intsInt64 e = true) (hdp : depthOK e = true)
    (hc : fieldsCanon e = true) (hz : noNegZeroLeaf e = true) (hb : noBigIntBound e = true)
    (j : Bytes) (h : marshalExpr e = .ok j) :
    ∃ e', unmarshalTop j = .ok e' ∧ marshalExpr e' = .ok j ∧ (kindStable e = true → e' = e) :=
  JsonRoundTrip.roundtrip_reencode jsonLaws numLaws fmtLaws e hs hv hsv hi hdp hc hz hb j h

/-- C12 assembled, with no hypothesis about encoding/json or strconv -/
theorem roundtrip_full (ip : Nat → Bool) (e : Expr)
    (hs : semShapeT e = true) (hv : validateExpr e = true) (hsv : allStringsValid e = true) (hi : intsInt64 e = true)
    (hdp : depthOK e = true)
    (hc : fieldsCanon e = true) (hlk : likeKindOK e = true) (hz : noNegZeroLeaf e = true) (hb : noBigIntBound e = true)
    (hp : printStable e = true) (j : Bytes) (h : marshalExpr e = .ok j) :
    ∃ e', unmarshalTop j = .ok e' ∧ e' = retype e ∧ validateExpr e' = true ∧ marshalExpr e' = .ok j ∧
      strE ip false e' = strE ip false e ∧ (kindStable e = true → e' = e) :=
  JsonRoundTrip.roundtrip_full jsonLaws numLaws fmtLaws ip e hs hv hsv hi hdp hc hlk hz hb hp j h

/-! ## law-free corollaries: C12 over queries -/

open JsonParse in
theorem query_decodes (env : Env) (s df : Bytes)
    (hs : validUtf8 s = true) (hdf : validUtf8 df = true) (e : Expr) (h : parseQuery env s df = .ok e)
    (hdp : depthOK e = true) (j : Bytes) (hm : marshalExpr e = .ok j) :
    unmarshalTop j = .ok (retype e) ∧ validateExpr (retype e) = true :=
  JsonParse.query_decodes jsonLaws numLaws env s df hs hdf e h hdp j hm

open JsonParse in
theorem query_roundtrip (ip : Nat → Bool) (env : Env)
    (s df : Bytes) (hs : validUtf8 s = true) (hdf : validUtf8 df = true)
    (e : Expr) (h : parseQuery env s df = .ok e) (hdp : depthOK e = true) (j : Bytes) (hm : marshalExpr e = .ok j) :
    ∃ e', unmarshalTop j = .ok e' ∧ e' = retype e ∧ validateExpr e' = true ∧
      (noNegZeroLeaf e = true → noBigIntBound e = true → marshalExpr e' = .ok j) ∧
      (printNumOK e = true → strE ip false e' = strE ip false e) ∧
      (kindStable e = true → e' = e) ∧ (env.cls.slashNotAlnum → leavesStable e = true → e' = e) :=
  JsonParse.query_roundtrip jsonLaws numLaws fmtLaws ip env s df hs hdf e h hdp j hm

open JsonParse in
theorem query_roundtrip' (ip : Nat → Bool) (env : Env)
    (s df : Bytes) (hs : validUtf8 s = true) (hdf : validUtf8 df = true)
    (e : Expr) (h : parseQuery env s df = .ok e) (hdp : depthOK e = true) (j : Bytes) (hm : marshalExpr e = .ok j)
    (hz : noNegZeroLeaf e = true) (hb : noBigIntBound e = true) (hn : printNumOK e = true) :
    ∃ e', unmarshalTop j = .ok e' ∧ validateExpr e' = true ∧ marshalExpr e' = .ok j ∧
      strE ip false e' = strE ip false e ∧ (kindStable e = true → e' = e) :=
  JsonParse.query_roundtrip' jsonLaws numLaws fmtLaws ip env s df hs hdf e h hdp j hm hz hb hn

open JsonParse in
theorem query_deep_equal (env : Env)
    (hk : env.cls.slashNotAlnum) (s df : Bytes) (hs : validUtf8 s = true) (hdf : validUtf8 df = true)
    (e : Expr) (h : parseQuery env s df = .ok e) (hdp : depthOK e = true) (j : Bytes) (hm : marshalExpr e = .ok j)
    (hl : leavesStable e = true) : unmarshalTop j = .ok e :=
  JsonParse.query_deep_equal jsonLaws numLaws env hk s df hs hdf e h hdp j hm hl

/-! ## non-vacuity: the corollaries apply to concrete trees -/

/-- `Parse("a:b*")` round-trips to the very same tree, with no hypothesis left -/
example (j : Bytes) (hm : marshalExpr JsonParse.eLike = .ok j) : unmarshalTop j = .ok JsonParse.eLike :=
  query_deep_equal JsonParse.asciiEnv JsonParse.asciiEnv_slash (b "a:b*") [] (by decide +kernel) (by decide +kernel)
    JsonParse.eLike JsonParse.parse_qLike (by decide +kernel) j hm (by decide +kernel)

/-- the larger tree `(a:[1 TO 5] AND b:(x OR y)) OR NOT c:z~2^3` satisfies every side condition of `roundtrip_full`,
    so its encoding exists, decodes to itself, re-encodes to the same bytes and prints identically -/
example (ip : Nat → Bool) : ∃ j, marshalExpr JsonParse.eBig = .ok j ∧ unmarshalTop j = .ok JsonParse.eBig ∧
    strE ip false (retype JsonParse.eBig) = strE ip false JsonParse.eBig := by
  have hall : semShapeT JsonParse.eBig = true ∧ validateExpr JsonParse.eBig = true ∧
      fieldsCanon JsonParse.eBig = true ∧ intsInt64 JsonParse.eBig = true ∧ likeKindOK JsonParse.eBig = true ∧
      allStringsValid JsonParse.eBig = true ∧ printStable JsonParse.eBig = true ∧
      noNegZeroLeaf JsonParse.eBig = true ∧ noBigIntBound JsonParse.eBig = true ∧ kindStable JsonParse.eBig = true ∧
      depthOK JsonParse.eBig = true ∧ boostsFinite JsonParse.eBig = true := by decide +kernel
  obtain ⟨h1, h2, h3, h4, h5, h6, h7, h8, h9, h10, h11, h12⟩ := hall
  obtain ⟨j, hj, _⟩ := roundtrip_total JsonParse.eBig h1 h2 h12 h6 h4 h11
  obtain ⟨e', hd, he, _, _, hp, hk⟩ := roundtrip_full ip JsonParse.eBig h1 h2 h6 h4 h11 h3 h5 h8 h9 h7 j hj
  refine ⟨j, hj, ?_, ?_⟩
  · rw [hd, hk h10]
  · rw [← he]; exact hp

end Laws
end GoLucene

section Axioms
open GoLucene.Laws
#print axioms jsonLaws
#print axioms numLaws
#print axioms numLaws2
#print axioms fmtLaws
#print axioms fmtJSON_total
#print axioms parseFloat_fmtJSON
#print axioms valid_enc_unbounded_false
#print axioms decode_needs_depth
#print axioms int_text_bound_unbounded_false
#print axioms GoLucene.Laws.roundtrip_decodes
#print axioms GoLucene.Laws.roundtrip_total
#print axioms GoLucene.Laws.roundtrip_stable
#print axioms GoLucene.Laws.roundtrip_reencode
#print axioms GoLucene.Laws.roundtrip_full
#print axioms GoLucene.Laws.query_decodes
#print axioms GoLucene.Laws.query_roundtrip
#print axioms GoLucene.Laws.query_roundtrip'
#print axioms GoLucene.Laws.query_deep_equal
end Axioms
