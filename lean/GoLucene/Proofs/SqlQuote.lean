import GoLucene.Model.Sql
import GoLucene.Model.Driver
/-
  The renderer's quoting against the model of PostgreSQL's scanner and grammar (properties C08 / C02, SQL side).

  Main results (all for arbitrary bytes: quotes, backslashes, `;`, `--`, `/*`, newlines, invalid UTF-8, ...):

    scan_sqlQuote / scan_sqlQuote_iff   the string scanner after the opening quote of `sqlQuote v ++ rest` returns
                                        `(v, rest)`  iff  `v` has no NUL byte and `rest` does not continue the
                                        constant (`strContinues`, spelled out by `strContinues_iff`)
    lexFrom_sqlQuote, lex_sqlQuote      one scanner step over `sqlQuote v`;  `lex (sqlQuote v) = some [.sconst v]`
    scan_quotedIdent(_iff), lexFrom_quotedIdent, lex_quotedIdent
                                        the same for `"f"` (f non-empty, no `"`, no NUL; `rest` not starting with `"`)
    parse_field_equals_value            parseSql ("f" = 'v') = some (.cmp .eq (.col f) (.str v))
    parse_field_equals_param            parseSql ("f" = ?)   = some (.cmp .eq (.col f) (.param 1))
    parse_rendered_equals(_param)       the same stated on `serializeCol` / `fnInfix " = "` / `sqlQuote`

  Hypotheses that cannot be dropped (see section `Necessity` at the end):
    * no NUL byte in `v` and `f`: the model (like PostgreSQL) has no token for a text containing NUL;
    * `rest` must not continue the constant: `'a'` + `'b'` is the constant `a'b`, `'a'` + newline + `'b'` is `ab`;
    * `f` non-empty and without `"` (both enforced by `serializeCol`); after `"f"` no further `"`.
  The 63-byte identifier truncation is not part of `lex`/`parse` (`Ast.col` carries the untruncated name; truncation
  happens in `canonIn`), so no length hypothesis on `f` is needed here.
-/

namespace GoLucene.Sql
open GoLucene

/-! ## helpers -/

theorem replaceByte_nil (x : UInt8) (y : Bytes) : replaceByte x y [] = [] := rfl

theorem replaceByte_cons (x : UInt8) (y : Bytes) (c : UInt8) (s : Bytes) :
    replaceByte x y (c :: s) = (if c == x then y else [c]) ++ replaceByte x y s := by
  simp [replaceByte]

theorem b_eq : b " = " = [32, 61, 32] := by decide
theorem b_eqq : b " = ?" = [32, 61, 32, 63] := by decide

/-- the text after the closing quote makes PostgreSQL continue the string constant -/
def strContinues (rest : Bytes) : Bool :=
  startsWith (· == 39) rest ||
    ((rest.takeWhile isSpace).any isNewline && startsWith (· == 39) (rest.dropWhile isSpace))

/-! ## 1. string constants -/

/-- Unconditional core: scanning the doubled text of `v` and the closing quote decodes `v` and leaves the scanner
    in state `xqs` in front of `rest`. -/
theorem scanStr_body_quoted (v : Bytes) (hv : ∀ c ∈ v, c ≠ 0) (acc rest : Bytes) :
    scanStr .body acc (replaceByte 39 [39, 39] v ++ 39 :: rest) = scanStr (.quote rest) (v.reverse ++ acc) rest := by
  induction v generalizing acc with
  | nil => simp [replaceByte_nil, scanStr]
  | cons c v ih =>
    have hc : c ≠ 0 := hv c (by simp)
    have hv' : ∀ c ∈ v, c ≠ 0 := fun d hd => hv d (by simp [hd])
    rw [replaceByte_cons]
    by_cases h39 : c = 39
    · subst h39
      simp [scanStr, ih hv']
    · simp [h39, scanStr, hc, ih hv']


theorem scanStr_gap (s : Bytes) (nl : Bool) (back acc : Bytes)
    (h : ((nl || (s.takeWhile isSpace).any isNewline) && startsWith (· == 39) (s.dropWhile isSpace)) = false) :
    scanStr (.gap nl back) acc s = some (acc.reverse, back) := by
  induction s generalizing nl with
  | nil => simp [scanStr]
  | cons c s ih =>
    by_cases hs : isSpace c = true
    · simp only [scanStr, hs, if_true]
      apply ih
      simpa [List.takeWhile_cons, List.dropWhile_cons, hs, Bool.or_assoc] using h
    · have hs' : isSpace c = false := by simpa using hs
      simp only [List.takeWhile_cons, List.dropWhile_cons, hs', startsWith] at h
      simp only [scanStr, hs']
      by_cases h39 : c = 39
      · subst h39
        simp at h
        simp [h]
      · simp [h39]

/-- If the text after the closing quote does not continue the constant, the scanner stops right there. -/
theorem scanStr_quote_stop (rest acc : Bytes) (h : strContinues rest = false) :
    scanStr (.quote rest) acc rest = some (acc.reverse, rest) := by
  cases rest with
  | nil => simp [scanStr]
  | cons c s =>
    simp only [strContinues, Bool.or_eq_false_iff] at h
    obtain ⟨h39, h2⟩ := h
    have h39' : c ≠ 39 := by simpa [startsWith] using h39
    by_cases hs : isSpace c = true
    · simp only [scanStr, hs, if_true]
      simp only [beq_iff_eq, h39', if_false]
      apply scanStr_gap
      simpa [List.takeWhile_cons, List.dropWhile_cons, hs] using h2
    · simp [scanStr, h39', hs]

/-- **Theorem 1.**  After the opening quote of `sqlQuote v ++ rest`, PostgreSQL's string scanner consumes exactly the
    quoted constant and decodes it to `v`. -/
theorem scan_sqlQuote (v rest : Bytes) (hv : ∀ c ∈ v, c ≠ 0) (hr : strContinues rest = false) :
    ∃ s, sqlQuote v ++ rest = 39 :: s ∧ scanStr .body [] s = some (v, rest) := by
  refine ⟨replaceByte 39 [39, 39] v ++ 39 :: rest, by simp [sqlQuote], ?_⟩
  rw [scanStr_body_quoted v hv, scanStr_quote_stop _ _ hr]
  simp

theorem scan_sqlQuote_tail (v rest : Bytes) (hv : ∀ c ∈ v, c ≠ 0) (hr : strContinues rest = false) :
    (sqlQuote v ++ rest).head? = some 39 ∧ scanStr .body [] (sqlQuote v ++ rest).tail = some (v, rest) := by
  obtain ⟨s, hs, hscan⟩ := scan_sqlQuote v rest hv hr
  rw [hs]
  exact ⟨rfl, hscan⟩

theorem lexFrom_squote (fuel : Nat) (rest : Bytes) :
    lexFrom (fuel + 1) (39 :: rest) =
      match scanStr .body [] rest with
      | some (s, r) => (lexFrom fuel r).map (Tok.sconst s :: ·)
      | none => none := by
  rfl

theorem lexFrom_sqlQuote (v rest : Bytes) (hv : ∀ c ∈ v, c ≠ 0) (hr : strContinues rest = false) (fuel : Nat) :
    lexFrom (fuel + 1) (sqlQuote v ++ rest) = (lexFrom fuel rest).map (Tok.sconst v :: ·) := by
  obtain ⟨s, hs, hscan⟩ := scan_sqlQuote v rest hv hr
  rw [hs, lexFrom_squote, hscan]

theorem lex_sqlQuote (v : Bytes) (hv : ∀ c ∈ v, c ≠ 0) : lex (sqlQuote v) = some [.sconst v] := by
  have h := lexFrom_sqlQuote v [] hv (by decide) (sqlQuote v).length
  rw [List.append_nil] at h
  have hl : (sqlQuote v).length = (replaceByte 39 [39, 39] v).length + 1 + 1 := by simp [sqlQuote]
  unfold lex
  rw [h, hl]
  rfl

/-! ### the hypotheses of Theorem 1 are necessary -/

/-- a NUL byte in the value: no string constant at all -/
theorem scanStr_body_nul (v : Bytes) (hv : (0 : UInt8) ∈ v) (acc rest : Bytes) :
    scanStr .body acc (replaceByte 39 [39, 39] v ++ 39 :: rest) = none := by
  induction v generalizing acc with
  | nil => simp at hv
  | cons c v ih =>
    rw [replaceByte_cons]
    by_cases hc : c = 0
    · subst hc; simp [scanStr]
    · have hv' : (0 : UInt8) ∈ v := by
        rcases List.mem_cons.mp hv with h | h
        · exact absurd h.symm hc
        · exact h
      by_cases h39 : c = 39
      · subst h39; simp [scanStr, ih hv']
      · simp [h39, scanStr, hc, ih hv']

/-- the scanner always makes progress: what it leaves is shorter than what it was given (in the states after a quote:
    or it is the remembered position `back`) -/
theorem scanStr_progress (s : Bytes) : ∀ (st : StrSt) (acc out r : Bytes), scanStr st acc s = some (out, r) →
    match st with
    | .body => r.length < s.length
    | .quote back => r = back ∨ r.length ≤ s.length
    | .gap _ back => r = back ∨ r.length ≤ s.length := by
  induction s with
  | nil =>
    intro st acc out r h
    cases st <;> simp [scanStr] at h ⊢ <;> simp [h]
  | cons c s ih =>
    intro st acc out r h
    cases st with
    | body =>
      simp only [scanStr] at h
      split at h
      · simp at h
      · split at h
        · have := ih _ _ _ _ h
          simp only [List.length_cons] at this ⊢
          rcases this with h1 | h1
          · simp [h1]
          · omega
        · have := ih _ _ _ _ h
          simp only [List.length_cons] at this ⊢
          omega
    | quote back =>
      simp only [scanStr] at h
      split at h
      · have := ih _ _ _ _ h
        simp only [List.length_cons] at this ⊢
        omega
      · split at h
        · have := ih _ _ _ _ h
          simp only [List.length_cons] at this ⊢
          rcases this with h1 | h1
          · exact Or.inl h1
          · exact Or.inr (by omega)
        · simp at h; simp [h]
    | gap nl back =>
      simp only [scanStr] at h
      split at h
      · have := ih _ _ _ _ h
        simp only [List.length_cons] at this ⊢
        rcases this with h1 | h1
        · exact Or.inl h1
        · exact Or.inr (by omega)
      · split at h
        · have := ih _ _ _ _ h
          simp only [List.length_cons] at this ⊢
          omega
        · simp at h; simp [h]

theorem scanStr_gap_continues (s : Bytes) (nl : Bool) (back acc out r : Bytes)
    (h : ((nl || (s.takeWhile isSpace).any isNewline) && startsWith (· == 39) (s.dropWhile isSpace)) = true)
    (hs : scanStr (.gap nl back) acc s = some (out, r)) : r.length < s.length := by
  induction s generalizing nl with
  | nil => simp [startsWith] at h
  | cons c s ih =>
    by_cases hsp : isSpace c = true
    · simp only [scanStr, hsp, if_true] at hs
      have := ih _ (by simpa [List.takeWhile_cons, List.dropWhile_cons, hsp, Bool.or_assoc] using h) hs
      simp only [List.length_cons]; omega
    · have hsp' : isSpace c = false := by simpa using hsp
      simp only [List.takeWhile_cons, List.dropWhile_cons, hsp', startsWith] at h
      simp at h
      obtain ⟨hnl, h39⟩ := h
      subst h39
      simp only [scanStr, hsp', hnl] at hs
      have := scanStr_progress _ _ _ _ _ hs
      simp only [List.length_cons] at this ⊢
      simp at hs
      have := scanStr_progress _ _ _ _ _ hs
      simp only at this
      omega

theorem scanStr_quote_continues (rest acc out r : Bytes) (h : strContinues rest = true)
    (hs : scanStr (.quote rest) acc rest = some (out, r)) : r.length < rest.length := by
  cases rest with
  | nil => simp [strContinues, startsWith] at h
  | cons c s =>
    by_cases h39 : c = 39
    · subst h39
      simp only [scanStr] at hs
      simp at hs
      have := scanStr_progress _ _ _ _ _ hs
      simp only [List.length_cons] at this ⊢
      omega
    · by_cases hsp : isSpace c = true
      · simp only [scanStr, hsp, if_true] at hs
        simp only [beq_iff_eq, h39, if_false] at hs
        have h2 : ((isNewline c || (s.takeWhile isSpace).any isNewline) &&
            startsWith (· == 39) (s.dropWhile isSpace)) = true := by
          simpa [strContinues, startsWith, h39, List.takeWhile_cons, List.dropWhile_cons, hsp] using h
        have := scanStr_gap_continues _ _ _ _ _ _ h2 hs
        simp only [List.length_cons]; omega
      · have hsp' : isSpace c = false := by simpa using hsp
        simp [strContinues, startsWith, h39, hsp'] at h

/-- **Theorem 1, exact form.**  The scanner returns `v` and stops in front of `rest` *if and only if* `v` has no NUL
    byte and `rest` does not continue the constant. -/
theorem scan_sqlQuote_iff (v rest : Bytes) :
    scanStr .body [] (replaceByte 39 [39, 39] v ++ 39 :: rest) = some (v, rest) ↔
      ((∀ c ∈ v, c ≠ 0) ∧ strContinues rest = false) := by
  constructor
  · intro h
    by_cases hv : (0 : UInt8) ∈ v
    · rw [scanStr_body_nul v hv] at h; simp at h
    · have hv' : ∀ c ∈ v, c ≠ 0 := fun c hc h0 => hv (h0 ▸ hc)
      refine ⟨hv', ?_⟩
      rw [scanStr_body_quoted v hv'] at h
      cases hc : strContinues rest with
      | false => rfl
      | true =>
        have := scanStr_quote_continues _ _ _ _ hc h
        omega
  · rintro ⟨hv, hr⟩
    rw [scanStr_body_quoted v hv, scanStr_quote_stop _ _ hr]
    simp

theorem mem_takeWhile_imp {p : UInt8 → Bool} {l : Bytes} {c : UInt8} (h : c ∈ l.takeWhile p) : p c = true := by
  induction l with
  | nil => simp at h
  | cons d l ih =>
    rw [List.takeWhile_cons] at h
    split at h
    · rcases List.mem_cons.mp h with h1 | h1
      · subst h1; assumption
      · exact ih h1
    · simp at h

theorem startsWith_39 (l : Bytes) : startsWith (· == 39) l = true ↔ ∃ t, l = 39 :: t := by
  cases l with
  | nil => simp [startsWith]
  | cons c t => simp [startsWith]

/-- `strContinues` in plain terms: `rest` is a quote, or whitespace containing a newline and then a quote -/
theorem strContinues_iff (rest : Bytes) :
    strContinues rest = true ↔
      (∃ t, rest = 39 :: t) ∨
      (∃ ws t, rest = ws ++ 39 :: t ∧ (∀ c ∈ ws, isSpace c = true) ∧ ∃ c ∈ ws, isNewline c = true) := by
  unfold strContinues
  rw [Bool.or_eq_true, Bool.and_eq_true, startsWith_39, startsWith_39]
  constructor
  · rintro (h | ⟨hnl, t, ht⟩)
    · exact Or.inl h
    · refine Or.inr ⟨rest.takeWhile isSpace, t, ?_, ?_, ?_⟩
      · rw [← ht, List.takeWhile_append_dropWhile]
      · intro c hc; exact mem_takeWhile_imp hc
      · simpa using hnl
  · rintro (h | ⟨ws, t, hr, hws, hnl⟩)
    · exact Or.inl h
    · right
      subst hr
      have h39 : isSpace 39 = false := by decide
      rw [List.takeWhile_append_of_pos hws, List.dropWhile_append_of_pos hws]
      simp [h39]
      simpa using hnl

/-! ### sufficient conditions in the shapes the renderer produces -/

theorem strContinues_nil : strContinues [] = false := rfl

/-- the next byte is neither a quote nor whitespace (`)`, `,`, a letter, ...) -/
theorem strContinues_cons (c : UInt8) (t : Bytes) (h39 : c ≠ 39) (hs : isSpace c = false) :
    strContinues (c :: t) = false := by
  simp [strContinues, startsWith, h39, hs]

/-- no quote next, and no newline in the whitespace that follows (` AND …`, ` OR …`, `)`, …) -/
theorem strContinues_no_newline (rest : Bytes) (h39 : startsWith (· == 39) rest = false)
    (hnl : ∀ c ∈ rest.takeWhile isSpace, isNewline c = false) : strContinues rest = false := by
  unfold strContinues
  rw [h39, Bool.false_or, Bool.and_eq_false_iff]
  left
  simpa using hnl

/-- a blank, then a byte that is neither a quote nor whitespace -/
theorem strContinues_blank_cons (c : UInt8) (t : Bytes) (hs : isSpace c = false) :
    strContinues (32 :: c :: t) = false := by
  apply strContinues_no_newline
  · rfl
  · have h32 : isSpace 32 = true := by decide
    simp only [List.takeWhile_cons, h32, hs, if_true]
    intro d hd
    simp at hd
    subst hd
    decide

/-! ## 2. quoted identifiers -/

theorem scanQId_body (f : Bytes) (h34 : ∀ c ∈ f, c ≠ 34) (h0 : ∀ c ∈ f, c ≠ 0) (acc rest : Bytes) :
    scanQId false acc (f ++ 34 :: rest) = scanQId true (f.reverse ++ acc) rest := by
  induction f generalizing acc with
  | nil => simp [scanQId]
  | cons c f ih =>
    have hc0 : c ≠ 0 := h0 c (by simp)
    have hc34 : c ≠ 34 := h34 c (by simp)
    have h34' : ∀ c ∈ f, c ≠ 34 := fun d hd => h34 d (by simp [hd])
    have h0' : ∀ c ∈ f, c ≠ 0 := fun d hd => h0 d (by simp [hd])
    simp [scanQId, hc0, hc34, ih h34' h0']

theorem scanQId_stop (acc rest : Bytes) (hr : startsWith (· == 34) rest = false) :
    scanQId true acc rest = some (acc.reverse, rest) := by
  cases rest with
  | nil => rfl
  | cons c r =>
    have : c ≠ 34 := by simpa [startsWith] using hr
    simp [scanQId, this]

/-- **Theorem 2.**  After the opening `"` of `"f"` followed by `rest`, PostgreSQL's identifier scanner returns `f`
    and `rest`. -/
theorem scan_quotedIdent (f rest : Bytes) (h34 : ∀ c ∈ f, c ≠ 34) (h0 : ∀ c ∈ f, c ≠ 0)
    (hr : startsWith (· == 34) rest = false) :
    scanQId false [] (f ++ [34] ++ rest) = some (f, rest) := by
  rw [List.append_assoc, List.singleton_append, scanQId_body f h34 h0, scanQId_stop _ _ hr]
  simp

theorem lexFrom_dquote (fuel : Nat) (rest : Bytes) :
    lexFrom (fuel + 1) (34 :: rest) =
      match scanQId false [] rest with
      | some (name, r) => if name.isEmpty then none else (lexFrom fuel r).map (Tok.qident name :: ·)
      | none => none := by
  rfl

theorem lexFrom_quotedIdent (f rest : Bytes) (hne : f ≠ []) (h34 : ∀ c ∈ f, c ≠ 34) (h0 : ∀ c ∈ f, c ≠ 0)
    (hr : startsWith (· == 34) rest = false) (fuel : Nat) :
    lexFrom (fuel + 1) ([34] ++ f ++ [34] ++ rest) = (lexFrom fuel rest).map (Tok.qident f :: ·) := by
  have h : [34] ++ f ++ [34] ++ rest = 34 :: (f ++ [34] ++ rest) := by simp
  rw [h, lexFrom_dquote, scan_quotedIdent f rest h34 h0 hr]
  simp [hne]

theorem lex_quotedIdent (f : Bytes) (hne : f ≠ []) (h34 : ∀ c ∈ f, c ≠ 34) (h0 : ∀ c ∈ f, c ≠ 0) :
    lex ([34] ++ f ++ [34]) = some [.qident f] := by
  have h := lexFrom_quotedIdent f [] hne h34 h0 (by decide) ([34] ++ f ++ [34]).length
  rw [List.append_nil] at h
  have hl : ([34] ++ f ++ [34]).length = f.length + 1 + 1 := by simp
  unfold lex
  rw [h, hl]
  rfl

/-! ### the hypotheses of Theorem 2 are necessary -/

theorem scanQId_body_nul (f : Bytes) (h34 : ∀ c ∈ f, c ≠ 34) (h0 : (0 : UInt8) ∈ f) (acc rest : Bytes) :
    scanQId false acc (f ++ 34 :: rest) = none := by
  induction f generalizing acc with
  | nil => simp at h0
  | cons c f ih =>
    by_cases hc : c = 0
    · subst hc; simp [scanQId]
    · have hc34 : c ≠ 34 := h34 c (by simp)
      have h34' : ∀ c ∈ f, c ≠ 34 := fun d hd => h34 d (by simp [hd])
      have h0' : (0 : UInt8) ∈ f := by
        rcases List.mem_cons.mp h0 with h | h
        · exact absurd h.symm hc
        · exact h
      simp [scanQId, hc, hc34, ih h34' h0']

theorem scanQId_progress (s : Bytes) : ∀ (aq : Bool) (acc out r : Bytes), scanQId aq acc s = some (out, r) →
    r.length ≤ s.length ∧ (aq = false → r.length < s.length) := by
  induction s with
  | nil =>
    intro aq acc out r h
    cases aq <;> simp [scanQId] at h ⊢
    simp [h]
  | cons c s ih =>
    intro aq acc out r h
    cases aq with
    | false =>
      simp only [scanQId] at h
      split at h
      · simp at h
      · split at h <;>
        · have := (ih _ _ _ _ h).1
          simp only [List.length_cons]
          omega
    | true =>
      simp only [scanQId] at h
      split at h
      · have := (ih _ _ _ _ h).2 rfl
        simp only [List.length_cons]
        omega
      · simp at h; simp [← h.2]

/-- **Theorem 2, exact form** (for `f` without `"`). -/
theorem scan_quotedIdent_iff (f rest : Bytes) (h34 : ∀ c ∈ f, c ≠ 34) :
    scanQId false [] (f ++ [34] ++ rest) = some (f, rest) ↔
      ((∀ c ∈ f, c ≠ 0) ∧ startsWith (· == 34) rest = false) := by
  constructor
  · intro h
    rw [List.append_assoc, List.singleton_append] at h
    by_cases h0 : (0 : UInt8) ∈ f
    · rw [scanQId_body_nul f h34 h0] at h; simp at h
    · have h0' : ∀ c ∈ f, c ≠ 0 := fun c hc hz => h0 (hz ▸ hc)
      refine ⟨h0', ?_⟩
      rw [scanQId_body f h34 h0'] at h
      cases rest with
      | nil => rfl
      | cons c t =>
        by_cases hc : c = 34
        · subst hc
          simp only [scanQId] at h
          simp at h
          have := (scanQId_progress _ _ _ _ _ h).1
          simp only [List.length_cons] at this
          omega
        · simp [startsWith, hc]
  · rintro ⟨h0, hr⟩
    exact scan_quotedIdent f rest h34 h0 hr

/-! ## 3. the rendered comparison -/

theorem lexFrom_space (fuel : Nat) (rest : Bytes) : lexFrom (fuel + 1) (32 :: rest) = lexFrom fuel rest := rfl

theorem lexFrom_eq_space (fuel : Nat) (rest : Bytes) :
    lexFrom (fuel + 1) (61 :: 32 :: rest) = (lexFrom fuel (32 :: rest)).map (Tok.cmp .eq :: ·) := rfl

theorem lexFrom_qmark_end (fuel : Nat) : lexFrom (fuel + 1) [63] = (lexFrom fuel []).map (Tok.qmark :: ·) := rfl

theorem lex_field_equals_value (f v : Bytes) (hne : f ≠ []) (h34 : ∀ c ∈ f, c ≠ 34) (h0 : ∀ c ∈ f, c ≠ 0)
    (hv : ∀ c ∈ v, c ≠ 0) :
    lex ([34] ++ f ++ [34] ++ b " = " ++ sqlQuote v) = some [.qident f, .cmp .eq, .sconst v] := by
  have hl : ∃ k, ([34] ++ f ++ [34] ++ b " = " ++ sqlQuote v).length + 1 = k + 6 :=
    ⟨f.length + (replaceByte 39 [39, 39] v).length + 2, by simp [b_eq, sqlQuote]; omega⟩
  obtain ⟨k, hk⟩ := hl
  unfold lex
  rw [hk, List.append_assoc ([34] ++ f ++ [34]), lexFrom_quotedIdent f _ hne h34 h0 (by rw [b_eq]; rfl), b_eq]
  have h2 : [32, 61, 32] ++ sqlQuote v = 32 :: 61 :: 32 :: (sqlQuote v ++ []) := by simp
  rw [h2, lexFrom_space, lexFrom_eq_space, lexFrom_space, lexFrom_sqlQuote v [] hv (by decide)]
  rfl


theorem parse_qident_eq_sconst (f v : Bytes) :
    parse [.qident f, .cmp .eq, .sconst v] = some (.cmp .eq (.col f) (.str v)) := by
  rfl

theorem parse_qident_eq_qmark (f : Bytes) :
    parse [.qident f, .cmp .eq, .qmark] = some (.cmp .eq (.col f) (.param 1)) := by
  rfl

/-- **Theorem 3** (the C08 SQL clause, end to end). -/
theorem parse_field_equals_value (f v : Bytes) (hne : f ≠ []) (h34 : ∀ c ∈ f, c ≠ 34) (h0 : ∀ c ∈ f, c ≠ 0)
    (hv : ∀ c ∈ v, c ≠ 0) :
    parseSql ([34] ++ f ++ [34] ++ b " = " ++ sqlQuote v) = some (.cmp .eq (.col f) (.str v)) := by
  unfold parseSql
  rw [lex_field_equals_value f v hne h34 h0 hv]
  exact parse_qident_eq_sconst f v

theorem lex_field_equals_param (f : Bytes) (hne : f ≠ []) (h34 : ∀ c ∈ f, c ≠ 34) (h0 : ∀ c ∈ f, c ≠ 0) :
    lex ([34] ++ f ++ [34] ++ b " = ?") = some [.qident f, .cmp .eq, .qmark] := by
  have hl : ∃ k, ([34] ++ f ++ [34] ++ b " = ?").length + 1 = k + 6 :=
    ⟨f.length + 1, by simp [b_eqq]⟩
  obtain ⟨k, hk⟩ := hl
  unfold lex
  rw [hk, lexFrom_quotedIdent f _ hne h34 h0 (by rw [b_eqq]; rfl), b_eqq,
    lexFrom_space, lexFrom_eq_space, lexFrom_space, lexFrom_qmark_end]
  rfl

/-- **Theorem 4** (parameterized form). -/
theorem parse_field_equals_param (f : Bytes) (hne : f ≠ []) (h34 : ∀ c ∈ f, c ≠ 34) (h0 : ∀ c ∈ f, c ≠ 0) :
    parseSql ([34] ++ f ++ [34] ++ b " = ?") = some (.cmp .eq (.col f) (.param 1)) := by
  unfold parseSql
  rw [lex_field_equals_param f hne h34 h0]
  exact parse_qident_eq_qmark f

/-! ## 5. the same, stated on the renderer's own functions -/

theorem serializeCol_ok (f s : Bytes) (h : serializeCol f = .ok s) :
    s = [34] ++ f ++ [34] ∧ f ≠ [] ∧ ∀ c ∈ f, c ≠ 34 := by
  unfold serializeCol at h
  split at h
  · cases h
  · split at h
    · cases h
    · rename_i h1 h2
      cases h
      refine ⟨rfl, ?_, ?_⟩
      · intro he; subst he; simp at h1
      · intro c hc h34
        subst h34
        exact h2 (by simp [hc])

/-- What `serializeCol f`, `fnInfix " = "` and `sqlQuote v` produce together is read by PostgreSQL as `f = 'v'`.
    The conditions "non-empty" and "no double quote" on `f` are the renderer's own checks; only "no NUL" remains. -/
theorem parse_rendered_equals (f v s : Bytes) (hs : serializeCol f = .ok s) (h0 : ∀ c ∈ f, c ≠ 0)
    (hv : ∀ c ∈ v, c ≠ 0) :
    ∃ t, fnInfix " = " s (sqlQuote v) = .ok t ∧ parseSql t = some (.cmp .eq (.col f) (.str v)) := by
  obtain ⟨rfl, hne, h34⟩ := serializeCol_ok f s hs
  exact ⟨_, rfl, parse_field_equals_value f v hne h34 h0 hv⟩

theorem parse_rendered_equals_param (f s : Bytes) (hs : serializeCol f = .ok s) (h0 : ∀ c ∈ f, c ≠ 0) :
    ∃ t, fnInfix " = " s (b "?") = .ok t ∧ parseSql t = some (.cmp .eq (.col f) (.param 1)) := by
  obtain ⟨rfl, hne, h34⟩ := serializeCol_ok f s hs
  refine ⟨_, rfl, ?_⟩
  have h : [34] ++ f ++ [34] ++ b " = " ++ b "?" = [34] ++ f ++ [34] ++ b " = ?" := by
    rw [List.append_assoc _ (b " = ")]; rfl
  rw [h]
  exact parse_field_equals_param f hne h34 h0

end GoLucene.Sql

/-! ## The hypotheses cannot be dropped (evaluated by the kernel) -/
section Necessity
open GoLucene GoLucene.Sql

-- a NUL byte in the value: PostgreSQL cannot receive the text at all
example : lex (sqlQuote [0]) = none := by decide
example : parseSql ([34] ++ [97] ++ [34] ++ b " = " ++ sqlQuote [97, 0]) = none := by decide
-- `'a'` followed by newline + `'b'`: the same constant continues, it is read as `ab`
example : lex (sqlQuote [97] ++ [10, 39, 98, 39]) = some [.sconst [97, 98]] := by decide
-- `'a'` followed directly by `'b'`: read as `a'b`
example : lex (sqlQuote [97] ++ [39, 98, 39]) = some [.sconst [97, 39, 98]] := by decide
-- ... but a blank without newline does not continue
example : lex (sqlQuote [97] ++ [32, 39, 98, 39]) = some [.sconst [97], .sconst [98]] := by decide
-- empty field name, NUL in the field name, `"` in the field name (`serializeCol` refuses the first and the last)
example : lex ([34] ++ [] ++ [34]) = none := by decide
example : lex ([34] ++ [97, 0] ++ [34]) = none := by decide
example : lex ([34] ++ [97, 34, 98] ++ [34]) = none := by decide
example : lex ([34] ++ [97, 34, 34, 98] ++ [34]) = some [.qident [97, 34, 98]] := by decide
-- `"a"` followed directly by `"b"`: one identifier `a"b`
example : lex ([34] ++ [97] ++ [34] ++ [34, 98, 34]) = some [.qident [97, 34, 98]] := by decide
-- hostile values are just values
example : parseSql ([34] ++ [97] ++ [34] ++ b " = " ++ sqlQuote (b "'; DROP TABLE t; --")) =
    some (.cmp .eq (.col [97]) (.str (b "'; DROP TABLE t; --"))) :=
  parse_field_equals_value _ _ (by decide) (by decide) (by decide) (by decide)

end Necessity

section Axioms
open GoLucene.Sql
#print axioms scan_sqlQuote
#print axioms scan_sqlQuote_iff
#print axioms strContinues_iff
#print axioms lexFrom_sqlQuote
#print axioms lex_sqlQuote
#print axioms scan_quotedIdent
#print axioms scan_quotedIdent_iff
#print axioms lexFrom_quotedIdent
#print axioms lex_quotedIdent
#print axioms lex_field_equals_value
#print axioms parse_field_equals_value
#print axioms lex_field_equals_param
#print axioms parse_field_equals_param
#print axioms parse_rendered_equals
#print axioms parse_rendered_equals_param
end Axioms
