import GoLucene.Proofs.LawsDefs
/-
  Laws, string / whitespace side of the JSON text layer (Model/Json.lean):
  `stripSpaces`, `trim`, `trimSpace`, `decodeString` on the texts the encoder writes.
-/
set_option linter.unusedSimpArgs false
set_option linter.unusedVariables false

namespace GoLucene
namespace Laws

open Json Num JsonRoundTrip

/-! ## bytes: facts about all 256 values -/

/-- "good" byte: ASCII and not a Unicode space (hence not JSON whitespace either) -/
def goodB (c : UInt8) : Bool := decide (c < 0x80) && !isSpaceRune c.toNat

theorem goodB_ws : ∀ c : UInt8, goodB c = true → isJsonWs c = false := by
  apply u8_all
  decide +kernel

theorem goodB_lt {c : UInt8} (h : goodB c = true) : c < 0x80 := by
  simp only [goodB, Bool.and_eq_true, decide_eq_true_eq] at h; exact h.1

theorem goodB_sp {c : UInt8} (h : goodB c = true) : isSpaceRune c.toNat = false := by
  simp only [goodB, Bool.and_eq_true, Bool.not_eq_true'] at h; exact h.2

/-! ## `stripSpaces` equations -/

theorem stripLoop_keep0 (k1 k2 : Bool) (acc l : Bytes) : stripLoop 0 k1 acc l = stripLoop 0 k2 acc l := by
  cases l with
  | nil => rfl
  | cons c rest => rw [stripLoop, stripLoop]

theorem stripLoop_acc : ∀ (l : Bytes) (k : Nat) (keep : Bool) (acc : Bytes),
    stripLoop k keep acc l = acc.reverse ++ stripLoop k keep [] l
  | [], k, keep, acc => by simp [stripLoop]
  | c :: rest, k + 1, keep, acc => by
    rw [stripLoop, stripLoop, stripLoop_acc rest k keep (if keep = true then c :: acc else acc),
      stripLoop_acc rest k keep (if keep = true then [c] else [])]
    cases keep <;> simp
  | c :: rest, 0, keep, acc => by
    rw [stripLoop, stripLoop]
    cases hd : decodeRune (c :: rest) with
    | mk r n =>
      simp only []
      by_cases hs : isSpaceRune r = true
      · simp only [hs, if_true]
        exact stripLoop_acc rest (n - 1) false acc
      · simp only [hs, if_false, Bool.false_eq_true]
        rw [stripLoop_acc rest (n - 1) true (c :: acc), stripLoop_acc rest (n - 1) true [c]]
        simp

/-- the copying / skipping loop -/
theorem stripLoop_copy : ∀ (k : Nat) (keep : Bool) (l : Bytes), k ≤ l.length →
    stripLoop k keep [] l = (if keep then l.take k else []) ++ stripLoop 0 true [] (l.drop k)
  | 0, keep, l, _ => by
    rw [stripLoop_keep0 keep true]; cases keep <;> simp
  | k + 1, keep, [], h => by simp at h
  | k + 1, keep, c :: rest, h => by
    rw [stripLoop, stripLoop_acc, stripLoop_copy k keep rest (by simpa using h)]
    cases keep <;> simp

theorem strip_nil : stripSpaces [] = [] := rfl

/-- a good ASCII byte is kept -/
theorem strip_good (c : UInt8) (rest : Bytes) (h : goodB c = true) :
    stripSpaces (c :: rest) = c :: stripSpaces rest := by
  unfold stripSpaces
  rw [stripLoop, decodeRune_ascii c rest (goodB_lt h)]
  simp only [goodB_sp h, if_false, Bool.false_eq_true, Nat.sub_self]
  rw [stripLoop_acc]; rfl

/-- an ASCII space byte is dropped -/
theorem strip_space (c : UInt8) (rest : Bytes) (h : c < 0x80) (hs : isSpaceRune c.toNat = true) :
    stripSpaces (c :: rest) = stripSpaces rest := by
  unfold stripSpaces
  rw [stripLoop, decodeRune_ascii c rest h]
  simp only [hs, if_true, Nat.sub_self]
  exact stripLoop_keep0 _ _ _ _

theorem strip_goods : ∀ (l rest : Bytes), (∀ c ∈ l, goodB c = true) → stripSpaces (l ++ rest) = l ++ stripSpaces rest
  | [], rest, _ => rfl
  | c :: l, rest, h => by
    rw [List.cons_append, strip_good c _ (h c (by simp)), strip_goods l rest (fun x hx => h x (by simp [hx]))]
    rfl

/-! ## `containsSub` is the infix relation -/

theorem containsSub_iff (p : Bytes) : ∀ u : Bytes, containsSub p u = true ↔ p <:+: u
  | [] => by
    rw [containsSub]
    simp [List.isEmpty_iff]
  | c :: cs => by
    rw [containsSub, Bool.or_eq_true, containsSub_iff p cs, List.infix_cons_iff, List.isPrefixOf_iff_prefix]

theorem containsSub_mid (p x y : Bytes) : containsSub p (x ++ (p ++ y)) = true :=
  (containsSub_iff p _).mpr (List.infix_append' x p y)

/-! ## (3) `strip_left` -/

theorem strip_left : ∀ rest, containsSub (b "\"left\":") (stripSpaces (b "{" ++ jsonKey "left" ++ rest)) = true := by
  intro rest
  have e : b "{" ++ jsonKey "left" ++ rest = [123, 34, 108, 101, 102, 116, 34, 58] ++ rest := by
    have : b "{" ++ jsonKey "left" = [123, 34, 108, 101, 102, 116, 34, 58] := by decide
    rw [this]
  have p : b "\"left\":" = [34, 108, 101, 102, 116, 34, 58] := by decide
  rw [e, p, strip_goods _ _ (by decide)]
  exact containsSub_mid [34, 108, 101, 102, 116, 34, 58] [123] (stripSpaces rest)

/-! ## number texts: every byte is a digit, `-`, `+`, `.` or `e` -/

def numChB (c : UInt8) : Bool := (decide (48 ≤ c) && decide (c ≤ 57)) || c == 45 || c == 43 || c == 46 || c == 101

theorem numChB_good : ∀ c : UInt8, numChB c = true → goodB c = true ∧ c ≠ 34 ∧ c ≠ 110 ∧ c ≠ 116 ∧ c ≠ 92 := by
  apply u8_all
  decide +kernel

theorem dig_numChB {c : UInt8} (h : dig c) : numChB c = true := by
  unfold dig at h
  simp only [numChB, Bool.or_eq_true, Bool.and_eq_true, decide_eq_true_eq, u8_le]
  exact .inl (.inl (.inl (.inl h)))

theorem digs_numChB {l : Bytes} (h : digs l) : ∀ c ∈ l, numChB c = true := fun c hc => dig_numChB (h c hc)

theorem jsonNum_chars {t : Bytes} (h : JsonNum t) : t ≠ [] ∧ ∀ c ∈ t, numChB c = true := by
  obtain ⟨neg, ip, fr, ex, rfl, hip, hfr, hex⟩ := h
  have h1 : ip ≠ [] ∧ ∀ c ∈ ip, numChB c = true := by
    rcases hip with rfl | ⟨d, ds, rfl, d1, d2, hds⟩
    · exact ⟨by simp, by decide⟩
    · refine ⟨by simp, ?_⟩
      intro c hc
      simp only [List.mem_cons] at hc
      rcases hc with rfl | hc
      · exact dig_numChB ⟨by omega, d2⟩
      · exact digs_numChB hds c hc
  have h2 : ∀ c ∈ fr, numChB c = true := by
    rcases hfr with rfl | ⟨ds, _, hds, rfl⟩
    · simp
    · intro c hc
      simp only [List.mem_cons] at hc
      rcases hc with rfl | hc
      · decide
      · exact digs_numChB hds c hc
  have h3 : ∀ c ∈ ex, numChB c = true := by
    rcases hex with rfl | ⟨sg, ds, hsg, _, hds, rfl⟩
    · simp
    · intro c hc
      simp only [List.mem_cons] at hc
      rcases hc with rfl | rfl | hc
      · decide
      · rcases hsg with rfl | rfl <;> decide
      · exact digs_numChB hds c hc
  refine ⟨?_, ?_⟩
  · intro he
    simp only [List.append_eq_nil_iff] at he
    exact h1.1 he.1.1.2
  · intro c hc
    simp only [List.mem_append] at hc
    rcases hc with ((hc | hc) | hc) | hc
    · cases neg
      · simp at hc
      · simp only [if_true, List.mem_singleton] at hc; subst hc; decide
    · exact h1.2 c hc
    · exact h2 c hc
    · exact h3 c hc

/-- the number texts among the leaves -/
theorem leaf_cases (hflt : ∀ (f : F64) (t : Bytes), fmtJSON f = some t → JsonNum t) {t : Bytes} (h : LeafEnc t) :
    (∃ s, t = encodeString s) ∨ JsonNum t := by
  cases h with
  | str s => exact .inl ⟨s, rfl⟩
  | int i => exact .inr (jsonNum_fmtInt i)
  | flt f t hf => exact .inr (hflt f t hf)

/-! ## (2) `trim`, `trimSpace` -/

/-- first and last byte are good -/
def Ends (t : Bytes) : Prop := ∃ a z, t.head? = some a ∧ t.getLast? = some z ∧ goodB a = true ∧ goodB z = true

theorem ends_of_all {t : Bytes} (hne : t ≠ []) (h : ∀ c ∈ t, goodB c = true) : Ends t := by
  cases t with
  | nil => exact absurd rfl hne
  | cons a m =>
    have hl : ((a :: m).getLast?).isSome := by simp
    obtain ⟨z, hz⟩ := Option.isSome_iff_exists.mp hl
    exact ⟨a, z, rfl, hz, h a (by simp), h z (List.mem_of_getLast? hz)⟩

theorem ends_snoc (a z : UInt8) (m : Bytes) (ha : goodB a = true) (hz : goodB z = true) : Ends (a :: (m ++ [z])) :=
  ⟨a, z, rfl, getLast_snoc a z m, ha, hz⟩

theorem dropWhile_head {p : UInt8 → Bool} {t : Bytes} {a : UInt8} (h : t.head? = some a) (hp : p a = false) :
    t.dropWhile p = t := by
  cases t with
  | nil => rfl
  | cons c m =>
    simp only [List.head?_cons, Option.some.injEq] at h
    subst h
    simp [List.dropWhile_cons, hp]

theorem trim_of_ends {t : Bytes} (h : Ends t) : trim t = t := by
  obtain ⟨a, z, ha, hz, ga, gz⟩ := h
  unfold trim
  rw [dropWhile_head ha (goodB_ws a ga), dropWhile_head (by rw [List.head?_reverse]; exact hz) (goodB_ws z gz),
    List.reverse_reverse]

theorem trimLeft_good (a : UInt8) (m : Bytes) (h : goodB a = true) : trimLeftLoop 0 (a :: m) = a :: m := by
  rw [trimLeftLoop, decodeRune_ascii a m (goodB_lt h)]
  simp only [goodB_sp h, if_false, Bool.false_eq_true]

theorem trimRight_good (a : UInt8) (m : Bytes) (h : goodB a = true) : trimRightLoop 0 (a :: m) = a :: m := by
  have hd : decodeLastRune (a :: m) = (a.toNat, 1) := by
    unfold decodeLastRune
    simp only [goodB_lt h, if_true]
  rw [trimRightLoop, hd]
  simp only [goodB_sp h, if_false, Bool.false_eq_true]

theorem trimSpace_of_ends {t : Bytes} (h : Ends t) : trimSpace t = t := by
  obtain ⟨a, z, ha, hz, ga, gz⟩ := h
  unfold trimSpace
  cases t with
  | nil => simp at ha
  | cons c m =>
    simp only [List.head?_cons, Option.some.injEq] at ha
    subst ha
    rw [trimLeft_good c m ga]
    have hr : (c :: m).reverse.head? = some z := by rw [List.head?_reverse]; exact hz
    cases hrev : (c :: m).reverse with
    | nil => rw [hrev] at hr; simp at hr
    | cons y ys =>
      rw [hrev] at hr
      simp only [List.head?_cons, Option.some.injEq] at hr
      subst hr
      rw [trimRight_good y ys gz, ← hrev, List.reverse_reverse]

theorem enc_ends (hflt : ∀ (f : F64) (t : Bytes), fmtJSON f = some t → JsonNum t) : ∀ n t, Enc n t → Ends t := by
  intro n t h
  cases h with
  | leaf n t hl =>
    rcases leaf_cases hflt hl with ⟨s, rfl⟩ | hn
    · obtain ⟨o, _, ho⟩ := encodeString_eq s
      rw [ho]
      exact ends_snoc 34 34 o (by decide) (by decide)
    · obtain ⟨hne, hc⟩ := jsonNum_chars hn
      exact ends_of_all hne (fun c hc' => (numChB_good c (hc c hc')).1)
  | bool n v => cases v <;> exact ⟨_, _, rfl, rfl, by decide, by decide⟩
  | arr n vs _ =>
    rw [arrText_eq]
    exact ends_snoc 91 93 _ (by decide) (by decide)
  | obj n kvs hne _ _ =>
    cases kvs with
    | nil => exact absurd rfl hne
    | cons kv kvs =>
      rw [objText_cons]
      exact ends_snoc 123 125 _ (by decide) (by decide)

theorem trim_enc (hflt : ∀ (f : F64) (t : Bytes), fmtJSON f = some t → JsonNum t) : ∀ n t, Enc n t → trim t = t :=
  fun n t h => trim_of_ends (enc_ends hflt n t h)

theorem trimSpace_enc (hflt : ∀ (f : F64) (t : Bytes), fmtJSON f = some t → JsonNum t) :
    ∀ n t, Enc n t → trimSpace t = t :=
  fun n t h => trimSpace_of_ends (enc_ends hflt n t h)

/-! ## the two UTF-8 decoders agree on widths -/

theorem cont_eq : ∀ c : UInt8, cont c = isContByte c := by
  apply u8_all
  decide +kernel

theorem isCont_range : ∀ c : UInt8, isContByte c = true → 128 ≤ c.toNat ∧ c.toNat < 192 := by
  apply u8_all
  decide +kernel

/-- same width; width 1 on a non-ASCII lead byte means U+FFFD in `decode1` -/
theorem decode1_width_eq (c : UInt8) (s : Bytes) :
    (decode1 c s).2 = (decodeRune (c :: s)).2 ∧ (¬ c < 0x80 → (decode1 c s).2 = 1 → decode1 c s = (0xFFFD, 1)) := by
  unfold decode1 decodeRune
  by_cases h1 : c < 0x80
  · simp only [h1, if_true]; simp
  simp only [h1, if_false]
  have n1 : ¬ c.toNat < 128 := by rw [u8_lt] at h1; exact h1
  by_cases h2 : c < 0xC2
  · have n2 : c.toNat < 194 := by rw [u8_lt] at h2; exact h2
    have e1 : (decide (0xC2 ≤ c) && decide (c ≤ 0xDF)) = false := by
      simp only [Bool.and_eq_false_iff, decide_eq_false_iff_not, u8_le]; left; show ¬ 194 ≤ c.toNat; omega
    have e2 : (decide (0xE0 ≤ c) && decide (c ≤ 0xEF)) = false := by
      simp only [Bool.and_eq_false_iff, decide_eq_false_iff_not, u8_le]; left; show ¬ 224 ≤ c.toNat; omega
    have e3 : (decide (0xF0 ≤ c) && decide (c ≤ 0xF4)) = false := by
      simp only [Bool.and_eq_false_iff, decide_eq_false_iff_not, u8_le]; left; show ¬ 240 ≤ c.toNat; omega
    simp only [h2, e1, e2, e3, if_true, if_false, Bool.false_eq_true]
    simp
  have n2 : ¬ c.toNat < 194 := by rw [u8_lt] at h2; exact h2
  simp only [h2, if_false]
  by_cases h3 : c < 0xE0
  · have n3 : c.toNat < 224 := by rw [u8_lt] at h3; exact h3
    have e1 : (decide (0xC2 ≤ c) && decide (c ≤ 0xDF)) = true := by
      simp only [Bool.and_eq_true, decide_eq_true_eq, u8_le]
      exact ⟨show 194 ≤ c.toNat by omega, show c.toNat ≤ 223 by omega⟩
    simp only [h3, e1, if_true]
    cases s with
    | nil => simp
    | cons c1 t =>
      simp only [cont_eq]
      by_cases hc : isContByte c1 = true
      · simp only [hc, if_true]; simp
      · simp only [hc, if_false, Bool.false_eq_true]; simp
  have n3 : ¬ c.toNat < 224 := by rw [u8_lt] at h3; exact h3
  have e1 : (decide (0xC2 ≤ c) && decide (c ≤ 0xDF)) = false := by
    simp only [Bool.and_eq_false_iff, decide_eq_false_iff_not, u8_le]; right; show ¬ c.toNat ≤ 223; omega
  simp only [h3, e1, if_false, Bool.false_eq_true]
  by_cases h4 : c < 0xF0
  · have n4 : c.toNat < 240 := by rw [u8_lt] at h4; exact h4
    have e2 : (decide (0xE0 ≤ c) && decide (c ≤ 0xEF)) = true := by
      simp only [Bool.and_eq_true, decide_eq_true_eq, u8_le]
      exact ⟨show 224 ≤ c.toNat by omega, show c.toNat ≤ 239 by omega⟩
    simp only [h4, e2, if_true]
    match s with
    | [] => simp
    | [_] => simp
    | c1 :: c2 :: t =>
      simp only [cont_eq, beq_iff_eq]
      by_cases hc : (decide ((if c = 0xE0 then (0xA0 : UInt8) else 0x80) ≤ c1) &&
          decide (c1 ≤ (if c = 0xED then (0x9F : UInt8) else 0xBF)) && isContByte c2) = true
      · simp only [hc, if_true]; simp
      · simp only [hc, if_false, Bool.false_eq_true]; simp
  have n4 : ¬ c.toNat < 240 := by rw [u8_lt] at h4; exact h4
  have e2 : (decide (0xE0 ≤ c) && decide (c ≤ 0xEF)) = false := by
    simp only [Bool.and_eq_false_iff, decide_eq_false_iff_not, u8_le]; right; show ¬ c.toNat ≤ 239; omega
  simp only [h4, e2, if_false, Bool.false_eq_true]
  by_cases h5 : c < 0xF5
  · have n5 : c.toNat < 245 := by rw [u8_lt] at h5; exact h5
    have e3 : (decide (0xF0 ≤ c) && decide (c ≤ 0xF4)) = true := by
      simp only [Bool.and_eq_true, decide_eq_true_eq, u8_le]
      exact ⟨show 240 ≤ c.toNat by omega, show c.toNat ≤ 244 by omega⟩
    simp only [h5, e3, if_true]
    match s with
    | [] => simp
    | [_] => simp
    | [_, _] => simp
    | c1 :: c2 :: c3 :: t =>
      simp only [cont_eq, beq_iff_eq]
      by_cases hc : (decide ((if c = 0xF0 then (0x90 : UInt8) else 0x80) ≤ c1) &&
          decide (c1 ≤ (if c = 0xF4 then (0x8F : UInt8) else 0xBF)) && isContByte c2 && isContByte c3) = true
      · simp only [hc, if_true]; simp
      · simp only [hc, if_false, Bool.false_eq_true]; simp
  have n5 : ¬ c.toNat < 245 := by rw [u8_lt] at h5; exact h5
  have e3 : (decide (0xF0 ≤ c) && decide (c ≤ 0xF4)) = false := by
    simp only [Bool.and_eq_false_iff, decide_eq_false_iff_not, u8_le]; right; show ¬ c.toNat ≤ 244; omega
  simp only [h5, e3, if_false, Bool.false_eq_true]
  simp

/-! ## `validUtf8` through `Json.decodeRune` -/

theorem validUtf8_cons' (c : UInt8) (s : Bytes) :
    validUtf8 (c :: s) =
      ((!((decode1 c s).1 == 0xFFFD && (c :: s.take ((decode1 c s).2 - 1)).length == 1)) &&
        validUtf8 (s.drop ((decode1 c s).2 - 1))) := by
  unfold validUtf8
  rw [decode_cons, List.all_cons]

/-- an ill-formed byte makes the string invalid -/
theorem valid_not_bad (c : UInt8) (s : Bytes) (h : ¬ c < 0x80) (hd : decodeRune (c :: s) = (runeError, 1)) :
    validUtf8 (c :: s) = false := by
  obtain ⟨hw, hb⟩ := decode1_width_eq c s
  rw [hd] at hw
  have := hb h hw
  rw [validUtf8_cons', this]
  simp

/-- validity of the rest after the first rune -/
theorem valid_rest (c : UInt8) (s : Bytes) (r w : Nat) (hd : decodeRune (c :: s) = (r, w))
    (hv : validUtf8 (c :: s) = true) : validUtf8 (s.drop (w - 1)) = true := by
  obtain ⟨hw, _⟩ := decode1_width_eq c s
  rw [hd] at hw
  rw [validUtf8_cons', Bool.and_eq_true, hw] at hv
  exact hv.2

/-! ## a successful multi-byte `decodeRune` only looks at its own bytes -/

theorem lo3_ge (c : UInt8) : 128 ≤ (lo3 c).toNat := by unfold lo3; split <;> decide
theorem hi3_le (c : UInt8) : (hi3 c).toNat ≤ 191 := by unfold hi3; split <;> decide
theorem lo4_ge (c : UInt8) : 128 ≤ (lo4 c).toNat := by unfold lo4; split <;> decide
theorem hi4_le (c : UInt8) : (hi4 c).toNat ≤ 191 := by unfold hi4; split <;> decide

theorem decodeRune_local (c : UInt8) (s : Bytes) (r n : Nat) (h : ¬ c < 0x80) (hd : decodeRune (c :: s) = (r, n + 2)) :
    (∀ t, decodeRune (c :: (s.take (n + 1) ++ t)) = (r, n + 2)) ∧ (∀ x ∈ s.take (n + 1), 128 ≤ x.toNat) := by
  cases decodeRune_cases c s h with
  | bad hb => rw [hb] at hd; cases hd
  | two c1 t' hr h1 h2 h3 =>
    subst hr; rw [decodeRune2 c c1 t' h1 h2 h3] at hd
    simp only [Prod.mk.injEq] at hd
    obtain ⟨rfl, hn⟩ := hd
    have : n = 0 := by omega
    subst this
    refine ⟨fun t => decodeRune2 c c1 t h1 h2 h3, ?_⟩
    intro x hx
    simp only [List.take_succ_cons, List.take_zero, List.mem_singleton] at hx
    subst hx
    exact (isCont_range x h3).1
  | three c1 c2 t' hr h1 h2 h3 h4 h5 =>
    subst hr; rw [decodeRune3 c c1 c2 t' h1 h2 h3 h4 h5] at hd
    simp only [Prod.mk.injEq] at hd
    obtain ⟨rfl, hn⟩ := hd
    have : n = 1 := by omega
    subst this
    refine ⟨fun t => decodeRune3 c c1 c2 t h1 h2 h3 h4 h5, ?_⟩
    intro x hx
    simp only [List.take_succ_cons, List.take_zero, List.mem_cons, List.not_mem_nil, or_false] at hx
    rcases hx with rfl | rfl
    · have := lo3_ge c; rw [u8_le] at h3; omega
    · exact (isCont_range x h5).1
  | four c1 c2 c3 t' hr h1 h2 h3 h4 h5 h6 =>
    subst hr; rw [decodeRune4 c c1 c2 c3 t' h1 h2 h3 h4 h5 h6] at hd
    simp only [Prod.mk.injEq] at hd
    obtain ⟨rfl, hn⟩ := hd
    have : n = 2 := by omega
    subst this
    refine ⟨fun t => decodeRune4 c c1 c2 c3 t h1 h2 h3 h4 h5 h6, ?_⟩
    intro x hx
    simp only [List.take_succ_cons, List.take_zero, List.mem_cons, List.not_mem_nil, or_false] at hx
    rcases hx with rfl | rfl | rfl
    · have := lo4_ge c; rw [u8_le] at h3; omega
    · exact (isCont_range x h5).1
    · exact (isCont_range x h6).1

/-- U+2028 / U+2029 are written E2 80 A8 / E2 80 A9 -/
theorem decodeRune_ls (c c1 c2 : UInt8) (s : Bytes) (r : Nat) (h : ¬ c < 0x80)
    (hd : decodeRune (c :: c1 :: c2 :: s) = (r, 3)) (hr : r = 0x2028 ∨ r = 0x2029) :
    c = 0xE2 ∧ c1 = 0x80 ∧ c2 = UInt8.ofNat (128 + r % 64) := by
  cases decodeRune_cases c (c1 :: c2 :: s) h with
  | bad hb => rw [hb] at hd; cases hd
  | two d1 t' hr' h1 h2 h3 =>
    cases hr'; rw [decodeRune2 c c1 _ h1 h2 h3] at hd; cases hd
  | four d1 d2 d3 t' hr' h1 h2 h3 h4 h5 h6 =>
    cases hr'; rw [decodeRune4 c c1 c2 _ _ h1 h2 h3 h4 h5 h6] at hd; cases hd
  | three d1 d2 t' hr' h1 h2 h3 h4 h5 =>
    cases hr'; rw [decodeRune3 c c1 c2 _ h1 h2 h3 h4 h5] at hd
    simp only [Prod.mk.injEq, and_true] at hd
    have a1 := lo3_ge c
    have a2 := hi3_le c
    rw [u8_le] at h3 h4
    have b1 : 224 ≤ c.toNat := by rw [u8_le] at h1; exact h1
    have b2 : c.toNat < 240 := by rw [u8_lt] at h2; exact h2
    clear h1 h2
    obtain ⟨b3, b4⟩ := isCont_range c2 h5
    have e0 : c.toNat = 226 ∧ c1.toNat = 128 ∧ c2.toNat = 128 + r % 64 := by
      rcases hr with rfl | rfl <;> omega
    refine ⟨UInt8.toNat_inj.mp e0.1, UInt8.toNat_inj.mp e0.2.1, UInt8.toNat_inj.mp ?_⟩
    rw [e0.2.2, UInt8.toNat_ofNat']
    omega

/-! ## (1) `decodeString (encodeString s) = some s` -/

theorem plainByte_facts : ∀ c : UInt8, plainByte c = true →
    (c == 0x22) = false ∧ (c == 0x5C) = false ∧ ¬ c < 0x20 ∧ c < 0x80 := by
  apply u8_all
  decide +kernel

theorem esc2_facts : ∀ c : UInt8,
    (esc2 c).all (fun x => x != 0x75 && simpleEscape x == some c && decide (c < 0x80)) = true := by
  apply u8_all
  decide +kernel

theorem escU_facts : ∀ c : UInt8, escUByte c = true →
    c < 0x80 ∧ isHexDigit (hexLower (c.toNat / 16)) = true ∧ isHexDigit (hexLower (c.toNat % 16)) = true ∧
    ((hexDigitVal 0x30 * 16 + hexDigitVal 0x30) * 16 + hexDigitVal (hexLower (c.toNat / 16))) * 16 +
      hexDigitVal (hexLower (c.toNat % 16)) = c.toNat ∧ isSurrogate c.toNat = false ∧ utf8Encode c.toNat = [c] := by
  apply u8_all
  decide +kernel

theorem decodeLoop_cons0 (pend : Option Nat) (acc : Bytes) (c : UInt8) (rest : Bytes) :
    decodeLoop 0 pend acc (c :: rest) =
      if c == 0x22 then
        if rest.isEmpty then some (flushPend pend acc).reverse else none
      else if c == 0x5C then
        match rest with
        | [] => none
        | e :: rest1 =>
          if e == 0x75 then
            match rest1 with
            | h1 :: h2 :: h3 :: h4 :: rest2 =>
              if isHexDigit h1 && isHexDigit h2 && isHexDigit h3 && isHexDigit h4 then
                let v := ((hexDigitVal h1 * 16 + hexDigitVal h2) * 16 + hexDigitVal h3) * 16 + hexDigitVal h4
                match afterU pend v acc with
                | (pend', acc') => decodeLoop 0 pend' acc' rest2
              else none
            | _ => none
          else
            match simpleEscape e with
            | some x => decodeLoop 0 none (x :: flushPend pend acc) rest1
            | none => none
      else if c < 0x20 then none
      else if c < 0x80 then decodeLoop 0 none (c :: flushPend pend acc) rest
      else
        let acc := flushPend pend acc
        match decodeRune (c :: rest) with
        | (_, n) =>
          if n ≤ 1 then decodeLoop 0 none (pushFFFD acc) rest
          else decodeLoop (n - 1) none (c :: acc) rest := by
  rw [decodeLoop.eq_def]; rfl

theorem decodeLoop_nil (acc : Bytes) : decodeLoop 0 none acc [0x22] = some acc.reverse := by
  rw [decodeLoop_cons0]
  simp [flushPend]

theorem decodeLoop_plain (c : UInt8) (acc rest : Bytes) (h : plainByte c = true) :
    decodeLoop 0 none acc (c :: rest) = decodeLoop 0 none (c :: acc) rest := by
  obtain ⟨h1, h2, h3, h4⟩ := plainByte_facts c h
  rw [decodeLoop_cons0]
  simp only [h1, h2, h3, h4, if_true, if_false, Bool.false_eq_true, flushPend]

theorem decodeLoop_esc2 (c x : UInt8) (acc rest : Bytes) (h : esc2 c = some x) :
    decodeLoop 0 none acc (0x5C :: x :: rest) = decodeLoop 0 none (c :: acc) rest := by
  have hf := esc2_facts c
  rw [h] at hf
  simp only [Option.all_some, Bool.and_eq_true, bne_iff_ne, beq_iff_eq, decide_eq_true_eq] at hf
  obtain ⟨⟨h1, h2⟩, _⟩ := hf
  have h1' : (x == 0x75) = false := by simpa using h1
  rw [decodeLoop_cons0]
  simp only [h1', h2, if_true, if_false, Bool.false_eq_true, flushPend]
  rfl

/-- a `\uXXXX` escape of a non-surrogate value -/
theorem decodeLoop_u (h1 h2 h3 h4 : UInt8) (acc rest : Bytes) (v : Nat)
    (hh : (isHexDigit h1 && isHexDigit h2 && isHexDigit h3 && isHexDigit h4) = true)
    (hv : ((hexDigitVal h1 * 16 + hexDigitVal h2) * 16 + hexDigitVal h3) * 16 + hexDigitVal h4 = v)
    (hs : isSurrogate v = false) :
    decodeLoop 0 none acc (0x5C :: 0x75 :: h1 :: h2 :: h3 :: h4 :: rest) = decodeLoop 0 none (pushRune v acc) rest := by
  rw [decodeLoop_cons0]
  simp only [hh, hv, afterU, hs, if_true, if_false, Bool.false_eq_true]
  rfl

theorem decodeLoop_escU (c : UInt8) (acc rest : Bytes) (h : escUByte c = true) :
    decodeLoop 0 none acc (0x5C :: 0x75 :: 0x30 :: 0x30 :: hexLower (c.toNat / 16) :: hexLower (c.toNat % 16) :: rest) =
      decodeLoop 0 none (c :: acc) rest := by
  obtain ⟨_, a1, a2, a3, a4, a5⟩ := escU_facts c h
  rw [decodeLoop_u _ _ _ _ acc rest c.toNat (by rw [a1, a2]; rfl) a3 a4]
  unfold pushRune
  rw [a5]; rfl

theorem decodeLoop_copy : ∀ (l acc rest : Bytes),
    decodeLoop l.length none acc (l ++ rest) = decodeLoop 0 none (l.reverse ++ acc) rest
  | [], acc, rest => rfl
  | c :: l, acc, rest => by
    rw [List.cons_append, List.length_cons, decodeLoop, decodeLoop_copy l (c :: acc) rest]
    simp

theorem decodeLoop_multi (c : UInt8) (l acc rest : Bytes) (r : Nat) (h : ¬ c < 0x80)
    (hd : decodeRune (c :: (l ++ rest)) = (r, l.length + 1)) (hl : 1 ≤ l.length) :
    decodeLoop 0 none acc (c :: (l ++ rest)) = decodeLoop 0 none (l.reverse ++ c :: acc) rest := by
  have n1 : ¬ c.toNat < 128 := by rw [u8_lt] at h; exact h
  have h1 : (c == 0x22) = false := by
    rw [beq_eq_false_iff_ne]; intro e; subst e; exact n1 (by decide)
  have h2 : (c == 0x5C) = false := by
    rw [beq_eq_false_iff_ne]; intro e; subst e; exact n1 (by decide)
  have h3 : ¬ c < 0x20 := by rw [u8_lt]; show ¬ c.toNat < 32; omega
  rw [decodeLoop_cons0]
  simp only [h1, h2, h3, h, hd, if_false, Bool.false_eq_true, flushPend]
  have : ¬ l.length + 1 ≤ 1 := by omega
  simp only [this, if_false, Nat.add_sub_cancel]
  exact decodeLoop_copy l (c :: acc) rest

theorem pushRune_ls (r : Nat) (acc : Bytes) (hr : r = 0x2028 ∨ r = 0x2029) :
    pushRune r acc = UInt8.ofNat (128 + r % 64) :: 0x80 :: 0xE2 :: acc := by
  rcases hr with rfl | rfl <;> rfl

theorem decodeLoop_ls (r : Nat) (acc rest : Bytes) (hr : r = 0x2028 ∨ r = 0x2029) :
    decodeLoop 0 none acc (0x5C :: 0x75 :: 0x32 :: 0x30 :: 0x32 :: hexLower (r % 16) :: rest) =
      decodeLoop 0 none (UInt8.ofNat (128 + r % 64) :: 0x80 :: 0xE2 :: acc) rest := by
  rw [← pushRune_ls r acc hr]
  rcases hr with rfl | rfl
  · exact decodeLoop_u _ _ _ _ acc rest _ (by decide) (by decide) (by decide)
  · exact decodeLoop_u _ _ _ _ acc rest _ (by decide) (by decide) (by decide)

theorem esc2_lt {c x : UInt8} (h : esc2 c = some x) : c < 0x80 := by
  have hf := esc2_facts c
  rw [h] at hf
  simp only [Option.all_some, Bool.and_eq_true, decide_eq_true_eq] at hf
  exact hf.2

theorem decodeLoop_encB {s o : Bytes} (h : EncB s o) :
    validUtf8 s = true → ∀ acc, decodeLoop 0 none acc (o ++ [0x22]) = some (acc.reverse ++ s) := by
  induction h with
  | nil => intro _ acc; simp [decodeLoop_nil]
  | plain c s o hp _ ih =>
    intro hv acc
    rw [QuotedVerbatim.validUtf8_cons_ascii c (plainByte_facts c hp).2.2.2] at hv
    rw [List.cons_append, decodeLoop_plain c acc _ hp, ih hv]
    simp
  | esc2 c x s o he _ ih =>
    intro hv acc
    rw [QuotedVerbatim.validUtf8_cons_ascii c (esc2_lt he)] at hv
    rw [List.cons_append, List.cons_append, decodeLoop_esc2 c x acc _ he, ih hv]
    simp
  | escU c s o hu _ ih =>
    intro hv acc
    rw [QuotedVerbatim.validUtf8_cons_ascii c (escU_facts c hu).1] at hv
    simp only [List.cons_append]
    rw [decodeLoop_escU c acc _ hu, ih hv]
    simp
  | bad c s o hc hd _ _ =>
    intro hv
    rw [valid_not_bad c s hc hd] at hv
    cases hv
  | ls c c1 c2 s o r hc hd hr _ ih =>
    intro hv acc
    have hv' := valid_rest c _ r 3 hd hv
    simp only [List.drop_succ_cons, List.drop_zero, Nat.add_one_sub_one] at hv'
    obtain ⟨rfl, rfl, rfl⟩ := decodeRune_ls c c1 c2 s r hc hd hr
    simp only [List.cons_append]
    rw [decodeLoop_ls r acc _ hr, ih hv']
    simp
  | multi c s o r n hc hd hn hr _ ih =>
    intro hv acc
    have hv' := valid_rest c s r (n + 2) hd hv
    rw [show n + 2 - 1 = n + 1 from rfl] at hv'
    have hlen : (s.take (n + 1)).length = n + 1 := by rw [List.length_take]; omega
    have hd' := (decodeRune_local c s r n hc hd).1 (o ++ [0x22])
    rw [List.cons_append, List.append_assoc,
      decodeLoop_multi c (s.take (n + 1)) acc (o ++ [0x22]) r hc (by rw [hlen]; exact hd') (by omega), ih hv']
    simp only [List.reverse_append, List.reverse_cons, List.reverse_reverse, List.append_assoc, List.cons_append,
      List.nil_append, List.singleton_append]
    rw [List.take_append_drop]

theorem decodeString_encodeString (s : Bytes) (hv : validUtf8 s = true) : decodeString (encodeString s) = some s := by
  obtain ⟨o, ho, he⟩ := encodeString_eq s
  rw [he]
  unfold decodeString
  simp only [beq_self_eq_true, if_true]
  rw [decodeLoop_encB ho hv]
  rfl

/-! ## (4), (5): `"min":` / `"left":` do not occur in stripped scalar texts

  `nf x u`: the three-byte factor `x " :` does not occur in `u`.
  `qe p l`: every `"` of `l` is preceded by `\` (`p` = the byte in front of `l`). -/

def pre2 (l : Bytes) : Bool :=
  match l with
  | c :: d :: _ => c == 34 && d == 58
  | _ => false

def nf (x : UInt8) : Bytes → Bool
  | [] => true
  | a :: rest => !(a == x && pre2 rest) && nf x rest

def qe (p : UInt8) : Bytes → Bool
  | [] => true
  | c :: rest => (c != 34 || p == 92) && qe c rest

theorem nf_cons (x a : UInt8) (rest : Bytes) : nf x (a :: rest) = (!(a == x && pre2 rest) && nf x rest) := rfl
theorem qe_cons (p c : UInt8) (rest : Bytes) : qe p (c :: rest) = ((c != 34 || p == 92) && qe c rest) := rfl

theorem pre2_ne (c : UInt8) (m : Bytes) (h : c ≠ 34) : pre2 (c :: m) = false := by
  cases m with
  | nil => rfl
  | cons d m => simp [pre2, h]

theorem nf_append_right (x : UInt8) : ∀ (a l : Bytes), nf x (a ++ l) = true → nf x l = true
  | [], l, h => h
  | c :: a, l, h => by
    rw [List.cons_append, nf_cons, Bool.and_eq_true] at h
    exact nf_append_right x a l h.2

theorem nf_of_contains (x : UInt8) (pre u : Bytes) (h : containsSub (pre ++ [x, 34, 58]) u = true) : nf x u = false := by
  obtain ⟨a, c, rfl⟩ := (containsSub_iff _ _).mp h
  cases hn : nf x (a ++ (pre ++ [x, 34, 58]) ++ c) with
  | false => rfl
  | true =>
    rw [List.append_assoc, List.append_assoc] at hn
    have := nf_append_right x pre _ (nf_append_right x a _ hn)
    simp [nf, pre2] at this

/-- bytes different from `x` in front -/
theorem nf_skip (x : UInt8) : ∀ (N R : Bytes), (∀ c ∈ N, c ≠ x) → nf x (N ++ R) = nf x R
  | [], R, _ => rfl
  | c :: N, R, h => by
    have hc : (c == x) = false := by simpa using h c (by simp)
    rw [List.cons_append, nf_cons, hc, nf_skip x N R (fun y hy => h y (by simp [hy]))]
    rfl

/-- a quoted segment whose inner quotes are all escaped, followed by something other than `:` -/
theorem nf_quoted (x : UInt8) (hx1 : x ≠ 92) (hx2 : x ≠ 34) (R : Bytes) (hR : pre2 (34 :: R) = false) :
    ∀ (l : Bytes) (p : UInt8), qe p l = true → nf x (p :: (l ++ 34 :: R)) = nf x R
  | [], p, _ => by
    have : ((34 : UInt8) == x) = false := by simpa using Ne.symm hx2
    simp only [List.nil_append, nf_cons, hR, this, Bool.and_false, Bool.false_and, Bool.not_false, Bool.true_and]
  | c :: l, p, h => by
    rw [qe_cons, Bool.and_eq_true] at h
    rw [List.cons_append, nf_cons, nf_quoted x hx1 hx2 R hR l c h.2]
    by_cases hp : p = x
    · subst hp
      have h1 := h.1
      simp only [Bool.or_eq_true, bne_iff_ne, beq_iff_eq] at h1
      have hc : c ≠ 34 := by
        rcases h1 with h1 | h1
        · exact h1
        · exact absurd h1 hx1
      rw [pre2_ne c _ hc]
      simp
    · have : (p == x) = false := by simpa using hp
      rw [this]; simp

theorem qe_chunk : ∀ (ch l : Bytes), (∀ c ∈ ch, c ≠ 34) → (∀ p, qe p l = true) → ∀ p, qe p (ch ++ l) = true
  | [], l, _, hl, p => hl p
  | c :: ch, l, h, hl, p => by
    have hc : (c != 34) = true := by simpa using h c (by simp)
    rw [List.cons_append, qe_cons, hc, qe_chunk ch l (fun y hy => h y (by simp [hy])) hl c]
    rfl

theorem qe_esc (x : UInt8) (l : Bytes) (hl : ∀ p, qe p l = true) : ∀ p, qe p (92 :: x :: l) = true := by
  intro p
  rw [qe_cons, qe_cons, hl x]
  simp

/-- good and not a quote -/
def goodNQ (c : UInt8) : Bool := goodB c && c != 34

theorem goodNQ_good {c : UInt8} (h : goodNQ c = true) : goodB c = true := by
  simp only [goodNQ, Bool.and_eq_true] at h; exact h.1

theorem goodNQ_ne {c : UInt8} (h : goodNQ c = true) : c ≠ 34 := by
  simp only [goodNQ, Bool.and_eq_true, bne_iff_ne] at h; exact h.2

theorem esc2_good : ∀ c : UInt8, (esc2 c).all goodB = true := by
  apply u8_all
  decide +kernel

theorem escU_good : ∀ c : UInt8, goodNQ (hexLower (c.toNat / 16)) = true ∧ goodNQ (hexLower (c.toNat % 16)) = true := by
  apply u8_all
  decide +kernel

/-- a multi-byte rune: dropped entirely or kept entirely -/
theorem strip_multi (c : UInt8) (l rest : Bytes) (r : Nat) (hd : decodeRune (c :: (l ++ rest)) = (r, l.length + 1)) :
    stripSpaces (c :: (l ++ rest)) = (if isSpaceRune r then [] else c :: l) ++ stripSpaces rest := by
  unfold stripSpaces
  rw [stripLoop, hd]
  simp only [Nat.add_sub_cancel]
  by_cases hs : isSpaceRune r = true
  · simp only [hs, if_true]
    rw [stripLoop_copy _ _ _ (by simp)]
    simp
  · simp only [hs, if_false, Bool.false_eq_true]
    rw [stripLoop_acc, stripLoop_copy _ _ _ (by simp)]
    simp

/-- what remains of a string body after stripping: all inner quotes are still escaped -/
theorem strip_encB {s o : Bytes} (h : EncB s o) :
    ∀ R, ∃ o', stripSpaces (o ++ R) = o' ++ stripSpaces R ∧ ∀ p, qe p o' = true := by
  induction h with
  | nil => intro R; exact ⟨[], rfl, fun _ => rfl⟩
  | plain c s o hp _ ih =>
    intro R
    obtain ⟨o', h1, h2⟩ := ih R
    obtain ⟨f1, _, _, f4⟩ := plainByte_facts c hp
    by_cases hs : isSpaceRune c.toNat = true
    · exact ⟨o', by rw [List.cons_append, strip_space c _ f4 hs, h1], h2⟩
    · have hg : goodB c = true := by simp [goodB, f4, hs]
      refine ⟨c :: o', by rw [List.cons_append, strip_good c _ hg, h1]; rfl, ?_⟩
      exact qe_chunk [c] o' (by simpa using f1) h2
  | esc2 c x s o he _ ih =>
    intro R
    obtain ⟨o', h1, h2⟩ := ih R
    have hx : goodB x = true := by
      have := esc2_good c
      rw [he] at this
      simpa using this
    refine ⟨92 :: x :: o', ?_, qe_esc x o' h2⟩
    rw [List.cons_append, List.cons_append, strip_good 92 _ (by decide), strip_good x _ hx, h1]
    rfl
  | escU c s o hu _ ih =>
    intro R
    obtain ⟨o', h1, h2⟩ := ih R
    obtain ⟨g1, g2⟩ := escU_good c
    have hall : ∀ y ∈ [92, 117, 48, 48, hexLower (c.toNat / 16), hexLower (c.toNat % 16)], goodNQ y = true := by
      intro y hy
      simp only [List.mem_cons, List.not_mem_nil, or_false] at hy
      rcases hy with rfl | rfl | rfl | rfl | rfl | rfl
      · decide
      · decide
      · decide
      · decide
      · exact g1
      · exact g2
    refine ⟨[92, 117, 48, 48, hexLower (c.toNat / 16), hexLower (c.toNat % 16)] ++ o', ?_,
      qe_chunk _ o' (fun y hy => goodNQ_ne (hall y hy)) h2⟩
    have := strip_goods [92, 117, 48, 48, hexLower (c.toNat / 16), hexLower (c.toNat % 16)] (o ++ R)
      (fun y hy => goodNQ_good (hall y hy))
    simp only [List.cons_append, List.nil_append] at this ⊢
    rw [this, h1]
  | bad c s o hc hd _ ih =>
    intro R
    obtain ⟨o', h1, h2⟩ := ih R
    refine ⟨[92, 117, 102, 102, 102, 100] ++ o', ?_, qe_chunk _ o' (by decide) h2⟩
    have := strip_goods [92, 117, 102, 102, 102, 100] (o ++ R) (by decide)
    simp only [List.cons_append, List.nil_append] at this ⊢
    rw [this, h1]
  | ls c c1 c2 s o r hc hd hr _ ih =>
    intro R
    obtain ⟨o', h1, h2⟩ := ih R
    have hall : ∀ y ∈ [92, 117, 50, 48, 50, hexLower (r % 16)], goodNQ y = true := by
      rcases hr with rfl | rfl <;> decide
    refine ⟨[92, 117, 50, 48, 50, hexLower (r % 16)] ++ o', ?_,
      qe_chunk _ o' (fun y hy => goodNQ_ne (hall y hy)) h2⟩
    have := strip_goods [92, 117, 50, 48, 50, hexLower (r % 16)] (o ++ R) (fun y hy => goodNQ_good (hall y hy))
    simp only [List.cons_append, List.nil_append] at this ⊢
    rw [this, h1]
  | multi c s o r n hc hd hn hr _ ih =>
    intro R
    obtain ⟨o', h1, h2⟩ := ih R
    have hlen : (s.take (n + 1)).length = n + 1 := by rw [List.length_take]; omega
    obtain ⟨hloc, hge⟩ := decodeRune_local c s r n hc hd
    have hd' := hloc (o ++ R)
    have hst := strip_multi c (s.take (n + 1)) (o ++ R) r (by rw [hlen]; exact hd')
    refine ⟨(if isSpaceRune r then [] else c :: s.take (n + 1)) ++ o', ?_, ?_⟩
    · rw [List.cons_append, List.append_assoc, hst, h1, List.append_assoc]
    · apply qe_chunk _ o' _ h2
      intro y hy
      split at hy
      · simp at hy
      · simp only [List.mem_cons] at hy
        have n1 : ¬ c.toNat < 128 := by rw [u8_lt] at hc; exact hc
        rcases hy with rfl | hy
        · intro e; subst e; exact n1 (by decide)
        · have := hge y hy
          intro e; subst e; revert this; decide

/-- a scalar text inside a larger text: what stripping leaves of it contains no factor `x":`, and none arises at its
    right border unless a `:` follows -/
theorem strip_leaf_seg (hflt : ∀ (f : F64) (t : Bytes), fmtJSON f = some t → JsonNum t) (x : UInt8)
    (hx : x = 110 ∨ x = 116) {A : Bytes} (hA : LeafEnc A) :
    ∀ R, ∃ A', stripSpaces (A ++ R) = A' ++ stripSpaces R ∧
      ∀ R', pre2 (34 :: R') = false → nf x (A' ++ R') = nf x R' := by
  intro R
  rcases leaf_cases hflt hA with ⟨s, rfl⟩ | hn
  · obtain ⟨o, ho, he⟩ := encodeString_eq s
    obtain ⟨o', h1, h2⟩ := strip_encB ho (34 :: R)
    refine ⟨34 :: (o' ++ [34]), ?_, ?_⟩
    · rw [he, List.cons_append, List.append_assoc, List.singleton_append, strip_good 34 _ (by decide), h1,
        strip_good 34 _ (by decide)]
      simp
    · intro R' hR'
      rw [List.cons_append, List.append_assoc, List.singleton_append]
      exact nf_quoted x (by rcases hx with rfl | rfl <;> decide) (by rcases hx with rfl | rfl <;> decide) R' hR' o' 34
        (h2 34)
  · obtain ⟨_, hc⟩ := jsonNum_chars hn
    refine ⟨A, strip_goods A R (fun c hc' => (numChB_good c (hc c hc')).1), ?_⟩
    intro R' _
    apply nf_skip
    intro c hc'
    obtain ⟨_, _, g1, g2, _⟩ := numChB_good c (hc c hc')
    rcases hx with rfl | rfl
    · exact g1
    · exact g2

theorem strip_leaf (hflt : ∀ (f : F64) (t : Bytes), fmtJSON f = some t → JsonNum t) :
    ∀ t, LeafEnc t → containsSub (b "\"min\":") (stripSpaces t) = false := by
  intro t ht
  obtain ⟨A', h1, h2⟩ := strip_leaf_seg hflt 110 (.inl rfl) ht []
  rw [List.append_nil, strip_nil, List.append_nil] at h1
  have h3 := h2 [] rfl
  rw [List.append_nil] at h3
  cases hc : containsSub (b "\"min\":") (stripSpaces t) with
  | false => rfl
  | true =>
    have e : b "\"min\":" = [34, 109, 105] ++ [110, 34, 58] := by decide
    rw [e] at hc
    have := nf_of_contains 110 _ _ hc
    rw [h1, h3] at this
    cases this

theorem boundText_eq (A C : Bytes) (incl : Bool) :
    boundText A C incl = [123, 34, 109, 105, 110, 34, 58] ++ (A ++ ([44, 34, 109, 97, 120, 34, 58] ++ (C ++
      ([44, 34, 105, 110, 99, 108, 117, 115, 105, 118, 101, 34, 58] ++ (boolText incl ++ [125]))))) := by
  have e1 : jsonKey "min" = [34, 109, 105, 110, 34, 58] := by decide
  have e2 : jsonKey "max" = [34, 109, 97, 120, 34, 58] := by decide
  have e3 : jsonKey "inclusive" = [34, 105, 110, 99, 108, 117, 115, 105, 118, 101, 34, 58] := by decide
  simp [boundText, objText, joinC, JsonRoundTrip.member, e1, e2, e3, b_lbrace, b_rbrace]

theorem strip_bound (hflt : ∀ (f : F64) (t : Bytes), fmtJSON f = some t → JsonNum t) :
    ∀ A C incl, LeafEnc A → LeafEnc C →
      containsSub (b "\"min\":") (stripSpaces (boundText A C incl)) = true ∧
      containsSub (b "\"max\":") (stripSpaces (boundText A C incl)) = true ∧
      containsSub (b "\"left\":") (stripSpaces (boundText A C incl)) = false := by
  intro A C incl hA hC
  -- the stripped text
  have hB : stripSpaces (boolText incl ++ [125]) = boolText incl ++ [125] := by
    have := strip_goods (boolText incl ++ [125]) [] (by cases incl <;> decide)
    rwa [List.append_nil, strip_nil, List.append_nil] at this
  obtain ⟨C', c1, c2⟩ := strip_leaf_seg hflt 116 (.inr rfl) hC
    ([44, 34, 105, 110, 99, 108, 117, 115, 105, 118, 101, 34, 58] ++ (boolText incl ++ [125]))
  obtain ⟨A', a1, a2⟩ := strip_leaf_seg hflt 116 (.inr rfl) hA ([44, 34, 109, 97, 120, 34, 58] ++ (C ++
      ([44, 34, 105, 110, 99, 108, 117, 115, 105, 118, 101, 34, 58] ++ (boolText incl ++ [125]))))
  have hS : stripSpaces (boundText A C incl) = [123, 34, 109, 105, 110, 34, 58] ++ (A' ++ ([44, 34, 109, 97, 120, 34, 58] ++
      (C' ++ ([44, 34, 105, 110, 99, 108, 117, 115, 105, 118, 101, 34, 58] ++ (boolText incl ++ [125]))))) := by
    rw [boundText_eq, strip_goods _ _ (by decide), a1, strip_goods _ _ (by decide), c1, strip_goods _ _ (by decide), hB]
  rw [hS]
  refine ⟨?_, ?_, ?_⟩
  · have e : b "\"min\":" = [34, 109, 105, 110, 34, 58] := by decide
    rw [e]
    exact containsSub_mid [34, 109, 105, 110, 34, 58] [123] _
  · have e : b "\"max\":" = [34, 109, 97, 120, 34, 58] := by decide
    rw [e]
    apply (containsSub_iff _ _).mpr
    exact ⟨[123, 34, 109, 105, 110, 34, 58] ++ A' ++ [44], C' ++
      ([44, 34, 105, 110, 99, 108, 117, 115, 105, 118, 101, 34, 58] ++ (boolText incl ++ [125])), by simp⟩
  · cases hc : containsSub (b "\"left\":") _ with
    | false => rfl
    | true =>
      have e : b "\"left\":" = [34, 108, 101, 102] ++ [116, 34, 58] := by decide
      rw [e] at hc
      have hn := nf_of_contains 116 _ _ hc
      rw [nf_skip 116 _ _ (by decide), a2 _ rfl, nf_skip 116 _ _ (by decide), c2 _ rfl, nf_skip 116 _ _ (by decide)] at hn
      have : nf 116 (boolText incl ++ [125]) = true := by cases incl <;> decide
      rw [this] at hn
      cases hn

#print axioms strip_left
#print axioms trim_enc
#print axioms trimSpace_enc
#print axioms decodeString_encodeString
#print axioms strip_leaf
#print axioms strip_bound

end Laws
end GoLucene
