import GoLucene.Proofs.FloatRT1
/-
  FloatRT, part 2: the shortest-digits search of Model/Num.lean (`shortestLoop`, `stripZeros`, `shortest`) returns a
  decimal `c · 10^k` inside the rounding interval of the binary64 value (and does not run out of fuel).
-/
namespace GoLucene.FloatRT
open GoLucene Num

/-- `10^t` as a rational -/
def p10 (t : Int) : Rat := (10 : Rat) ^ t

theorem p10_pos (t : Int) : 0 < p10 t := Rat.zpow_pos (by decide)
theorem p10_ne (t : Int) : p10 t ≠ 0 := fun h => by have := p10_pos t; rw [h] at this; exact absurd this (by decide)
theorem p10_succ (t : Int) : p10 (t + 1) = p10 t * 10 := Rat.zpow_add_one (by decide) t
theorem p10_add (a c : Int) : p10 (a + c) = p10 a * p10 c := Rat.zpow_add (by decide) a c
theorem p10_zero : p10 0 = 1 := Rat.zpow_zero 10
theorem p10_nat (n : Nat) : p10 (n : Int) = ((10 ^ n : Nat) : Rat) := by
  unfold p10; rw [Rat.zpow_natCast]; norm_cast
theorem p10_neg (t : Int) : p10 (-t) * p10 t = 1 := by
  rw [← p10_add, Int.add_comm, Int.add_right_neg, p10_zero]

theorem p10_le_add (a : Int) (n : Nat) : p10 a ≤ p10 (a + n) := by
  induction n with
  | zero => simp
  | succ n ih =>
    have e : a + ((n + 1 : Nat) : Int) = (a + n) + 1 := by omega
    rw [e, p10_succ]
    have := p10_pos (a + n)
    grind

theorem p10_mono {a c : Int} (h : a ≤ c) : p10 a ≤ p10 c := by
  obtain ⟨n, rfl⟩ : ∃ n : Nat, c = a + n := ⟨(c - a).toNat, by omega⟩
  exact p10_le_add a n

theorem p10_strict {a c : Int} (h : a < c) : p10 a < p10 c := by
  have h1 : p10 (a + 1) ≤ p10 c := p10_mono (by omega)
  have := p10_succ a
  have := p10_pos a
  grind

theorem p10_lt_of {a c : Int} {v : Rat} (h1 : p10 a ≤ v) (h2 : v < p10 c) : a < c := by
  apply Decidable.byContradiction
  intro h
  have := p10_mono (show c ≤ a by omega)
  grind

theorem div_mul_p10 (v : Rat) (t : Int) : v / p10 t * p10 t = v := Rat.div_mul_cancel (p10_ne t)

/-! ## scaling by a power of ten, as `shortestLoop` does -/

def mul10 (k : Int) : Nat := if k < 0 then 10 ^ (-k).toNat else 1
def dv10 (den : Nat) (k : Int) : Nat := if k ≥ 0 then den * 10 ^ k.toNat else den

/-- `(a · mul) / dv = (a / den) / 10^k` -/
theorem scaled10 (a den : Nat) (k : Int) (hden : 0 < den) :
    ((a * mul10 k : Nat) : Rat) = (a : Rat) / den / p10 k * (dv10 den k : Rat) ∧ 0 < dv10 den k := by
  have hdr : (den : Rat) ≠ 0 := by
    intro h; have : den = 0 := by exact_mod_cast h
    omega
  by_cases ht : k ≥ 0
  · obtain ⟨n, rfl⟩ : ∃ n : Nat, k = n := ⟨k.toNat, by omega⟩
    have hk : ¬ ((n : Int) < 0) := by omega
    simp only [mul10, dv10, ht, hk, ↓reduceIte, Int.toNat_natCast, Nat.mul_one]
    constructor
    · rw [p10_nat]
      push_cast
      have h2 : ((10 : Rat) ^ n) ≠ 0 := by
        have := p10_ne (n : Int); rw [p10_nat] at this; push_cast at this; exact this
      exact (div_mul_cancel3 _ _ _ hdr h2).symm
    · exact Nat.mul_pos hden (Nat.pow_pos (by decide))
  · obtain ⟨n, rfl⟩ : ∃ n : Nat, k = -(n : Int) := ⟨(-k).toNat, by omega⟩
    have hk : (-(n : Int) < 0) := by omega
    simp only [mul10, dv10, ht, hk, ↓reduceIte, Int.neg_neg, Int.toNat_natCast]
    refine ⟨?_, hden⟩
    push_cast
    have h1 := p10_neg (-(n : Int))
    rw [Int.neg_neg, p10_nat] at h1
    push_cast at h1
    have h3 := p10_ne (-(n : Int))
    rw [Rat.div_def, Rat.div_def (a : Rat)]
    have h4 : (p10 (-(n : Int)))⁻¹ = (10 : Rat) ^ n := by
      have := Rat.inv_mul_cancel _ h3
      calc (p10 (-(n : Int)))⁻¹ = (p10 (-(n : Int)))⁻¹ * ((10 : Rat) ^ n * p10 (-(n : Int))) := by rw [h1]; grind
        _ = ((p10 (-(n : Int)))⁻¹ * p10 (-(n : Int))) * (10 : Rat) ^ n := by grind
        _ = (10 : Rat) ^ n := by rw [this]; grind
    rw [h4]
    have := Rat.inv_mul_cancel _ hdr
    calc (a : Rat) * (10 : Rat) ^ n = (a : Rat) * (10 : Rat) ^ n * ((den : Rat)⁻¹ * den) := by rw [this]; grind
      _ = _ := by grind


theorem unc_le {n' d' c : Nat} {w : Rat} (hn : (n' : Rat) = w * d') (hd : 0 < d') (h : n' ≤ c * d') : w ≤ c := by
  have h1 : (n' : Rat) ≤ (c : Rat) * d' := by exact_mod_cast h
  rw [hn] at h1
  apply Decidable.byContradiction
  intro hw
  have := Rat.mul_lt_mul_of_pos_right (Rat.not_le.mp hw) (dpos hd)
  grind

theorem unc_lt {n' d' c : Nat} {w : Rat} (hn : (n' : Rat) = w * d') (hd : 0 < d') (h : n' < c * d') : w < c := by
  have h1 : (n' : Rat) < (c : Rat) * d' := by exact_mod_cast h
  rw [hn] at h1
  apply Decidable.byContradiction
  intro hw
  have := Rat.mul_le_mul_of_nonneg_right (Rat.not_lt.mp hw) (Rat.le_of_lt (dpos hd))
  grind

theorem unc_ge {n' d' c : Nat} {w : Rat} (hn : (n' : Rat) = w * d') (hd : 0 < d') (h : c * d' ≤ n') : (c : Rat) ≤ w := by
  have h1 : (c : Rat) * d' ≤ (n' : Rat) := by exact_mod_cast h
  rw [hn] at h1
  apply Decidable.byContradiction
  intro hw
  have := Rat.mul_lt_mul_of_pos_right (Rat.not_le.mp hw) (dpos hd)
  grind

theorem unc_gt {n' d' c : Nat} {w : Rat} (hn : (n' : Rat) = w * d') (hd : 0 < d') (h : c * d' < n') : (c : Rat) < w := by
  have h1 : (c : Rat) * d' < (n' : Rat) := by exact_mod_cast h
  rw [hn] at h1
  apply Decidable.byContradiction
  intro hw
  have := Rat.mul_le_mul_of_nonneg_right (Rat.not_lt.mp hw) (Rat.le_of_lt (dpos hd))
  grind

/-- back from scale `k` -/
theorem from_scale_le {a V : Rat} {k : Int} (h : a ≤ V / p10 k) : a * p10 k ≤ V := by
  have h3 := div_mul_p10 V k
  have := Rat.mul_le_mul_of_nonneg_right h (Rat.le_of_lt (p10_pos k))
  grind
theorem from_scale_lt {a V : Rat} {k : Int} (h : a < V / p10 k) : a * p10 k < V := by
  have h3 := div_mul_p10 V k
  have := Rat.mul_lt_mul_of_pos_right h (p10_pos k)
  grind
theorem from_scale_ge {a V : Rat} {k : Int} (h : V / p10 k ≤ a) : V ≤ a * p10 k := by
  have h3 := div_mul_p10 V k
  have := Rat.mul_le_mul_of_nonneg_right h (Rat.le_of_lt (p10_pos k))
  grind
theorem from_scale_gt {a V : Rat} {k : Int} (h : V / p10 k < a) : V < a * p10 k := by
  have h3 := div_mul_p10 V k
  have := Rat.mul_lt_mul_of_pos_right h (p10_pos k)
  grind

/-! ## the search loop -/

/-- inside the interval: closed when ties are allowed, open otherwise -/
def InB (incl : Bool) (LO HI v : Rat) : Prop := if incl then LO ≤ v ∧ v ≤ HI else LO < v ∧ v < HI

theorem InB.of_strict {incl : Bool} {LO HI v : Rat} (h1 : LO < v) (h2 : v < HI) : InB incl LO HI v := by
  unfold InB; split
  · exact ⟨Rat.le_of_lt h1, Rat.le_of_lt h2⟩
  · exact ⟨h1, h2⟩

theorem shortestLoop_succ (lo x hi den : Nat) (incl : Bool) (fuel : Nat) (k : Int) :
    shortestLoop lo x hi den incl (fuel + 1) k =
      (let mul := mul10 k
       let dv := dv10 den k
       let x' := x * mul
       let c := x' / dv
       let r := x' % dv
       if r = 0 then (c, k) else
       let lowOK := c > 0 ∧ (if incl then lo * mul ≤ c * dv else lo * mul < c * dv)
       let highOK := if incl then (c + 1) * dv ≤ hi * mul else (c + 1) * dv < hi * mul
       if lowOK ∧ highOK then
         if 2 * r < dv then (c, k)
         else if dv < 2 * r then (c + 1, k)
         else if c % 2 = 0 then (c, k) else (c + 1, k)
       else if lowOK then (c, k)
       else if highOK then (c + 1, k)
       else shortestLoop lo x hi den incl fuel (k - 1)) := rfl


/-- the quotient of one iteration is the floor of `X / 10^k` -/
theorem iter_floor (x den : Nat) (k : Int) (hden : 0 < den) :
    let W := (x : Rat) / den / p10 k
    let c := x * mul10 k / dv10 den k
    let r := x * mul10 k % dv10 den k
    (c : Rat) ≤ W ∧ W < ((c + 1 : Nat) : Rat) ∧ (r = 0 → W = c) ∧ (r ≠ 0 → (c : Rat) < W) := by
  intro W c r
  obtain ⟨hs, hd⟩ := scaled10 x den k hden
  have hdm := Nat.div_add_mod (x * mul10 k) (dv10 den k)
  have hr := Nat.mod_lt (x * mul10 k) hd
  have hcomm := Nat.mul_comm (dv10 den k) (x * mul10 k / dv10 den k)
  have h1 : c * dv10 den k ≤ x * mul10 k := by
    show x * mul10 k / dv10 den k * dv10 den k ≤ _
    omega
  have h2 : x * mul10 k < (c + 1) * dv10 den k := by
    show _ < (x * mul10 k / dv10 den k + 1) * dv10 den k
    rw [Nat.add_mul, Nat.one_mul]; omega
  refine ⟨unc_ge hs hd h1, unc_lt hs hd h2, ?_, ?_⟩
  · intro hr0
    have h3 : x * mul10 k ≤ c * dv10 den k := by
      show _ ≤ x * mul10 k / dv10 den k * dv10 den k
      have : x * mul10 k % dv10 den k = 0 := hr0
      omega
    have := unc_le hs hd h3
    have := unc_ge hs hd h1
    grind
  · intro hr0
    have h3 : c * dv10 den k < x * mul10 k := by
      show x * mul10 k / dv10 den k * dv10 den k < _
      have : x * mul10 k % dv10 den k ≠ 0 := hr0
      omega
    exact unc_gt hs hd h3

/-- the selection among the candidates `c` and `c + 1` -/
theorem chain {P : Nat × Int → Prop} (LOW HIGH : Prop) [Decidable LOW] [Decidable HIGH] (r dv c : Nat) (k : Int)
    (rest : Nat × Int) (h1 : LOW → P (c, k)) (h2 : HIGH → P (c + 1, k)) (h3 : ¬ LOW → ¬ HIGH → P rest) :
    P (if LOW ∧ HIGH then
        (if 2 * r < dv then (c, k) else if dv < 2 * r then (c + 1, k) else if c % 2 = 0 then (c, k) else (c + 1, k))
       else if LOW then (c, k) else if HIGH then (c + 1, k) else rest) := by
  by_cases hl : LOW <;> by_cases hh : HIGH
  · rw [if_pos ⟨hl, hh⟩]
    split
    · exact h1 hl
    · split
      · exact h2 hh
      · split
        · exact h1 hl
        · exact h2 hh
  · rw [if_neg (fun h => hh h.2), if_pos hl]; exact h1 hl
  · rw [if_neg (fun h => hl h.1), if_neg hl, if_pos hh]; exact h2 hh
  · rw [if_neg (fun h => hl h.1), if_neg hl, if_neg hh]; exact h3 hl hh

theorem loop_spec (lo x hi den : Nat) (incl : Bool) (hden : 0 < den) (hx : 0 < x) (hlox : lo < x) (hxhi : x < hi) :
    ∀ (fuel : Nat) (k : Int),
      (∃ k0 : Int, k - fuel < k0 ∧ k0 ≤ k ∧ p10 k0 ≤ (hi : Rat) / den - (x : Rat) / den) →
      0 < (shortestLoop lo x hi den incl fuel k).1 ∧
      InB incl ((lo : Rat) / den) ((hi : Rat) / den)
        (((shortestLoop lo x hi den incl fuel k).1 : Rat) * p10 (shortestLoop lo x hi den incl fuel k).2) ∧
      k - fuel < (shortestLoop lo x hi den incl fuel k).2 ∧ (shortestLoop lo x hi den incl fuel k).2 ≤ k := by
  have hdr : (0 : Rat) < (den : Rat) := dpos hden
  have hLX : (lo : Rat) / den < (x : Rat) / den := by
    have : (lo : Rat) < x := by exact_mod_cast hlox
    rw [Rat.div_def, Rat.div_def]
    exact Rat.mul_lt_mul_of_pos_right this (Rat.inv_pos.mpr hdr)
  have hXH : (x : Rat) / den < (hi : Rat) / den := by
    have : (x : Rat) < hi := by exact_mod_cast hxhi
    rw [Rat.div_def, Rat.div_def]
    exact Rat.mul_lt_mul_of_pos_right this (Rat.inv_pos.mpr hdr)
  have hXpos : 0 < (x : Rat) / den := by
    have : (0 : Rat) < x := by exact_mod_cast hx
    rw [Rat.div_def]
    exact Rat.mul_pos this (Rat.inv_pos.mpr hdr)
  intro fuel
  induction fuel with
  | zero =>
    intro k ⟨k0, h1, h2, _⟩
    simp only [Int.natCast_zero, Int.sub_zero] at h1
    omega
  | succ fuel ih =>
    intro k hex
    obtain ⟨hc1, hc2, hc3, hc4⟩ := iter_floor x den k hden
    obtain ⟨hsl, hd⟩ := scaled10 lo den k hden
    obtain ⟨hsh, _⟩ := scaled10 hi den k hden
    have hWpos : 0 < (x : Rat) / den / p10 k := by
      rw [Rat.div_def]
      exact Rat.mul_pos hXpos (Rat.inv_pos.mpr (p10_pos k))
    have hkb : k - ((fuel + 1 : Nat) : Int) < k := by omega
    rw [shortestLoop_succ]
    dsimp only
    generalize hcdef : x * mul10 k / dv10 den k = c at hc1 hc2 hc3 hc4
    generalize hrdef : x * mul10 k % dv10 den k = r at hc3 hc4
    -- the candidate `c` (when it is at least the lower end)
    have candLow : (if incl then lo * mul10 k ≤ c * dv10 den k else lo * mul10 k < c * dv10 den k) →
        InB incl ((lo : Rat) / den) ((hi : Rat) / den) ((c : Rat) * p10 k) := by
      intro h
      have hup : (c : Rat) * p10 k < (hi : Rat) / den := by
        have := from_scale_le hc1
        grind
      unfold InB
      cases incl
      · simp only [Bool.false_eq_true, ↓reduceIte] at h ⊢
        exact ⟨from_scale_gt (unc_lt hsl hd h), hup⟩
      · simp only [↓reduceIte] at h ⊢
        exact ⟨from_scale_ge (unc_le hsl hd h), Rat.le_of_lt hup⟩
    -- the candidate `c + 1` (when it is at most the upper end)
    have candHigh : (if incl then (c + 1) * dv10 den k ≤ hi * mul10 k else (c + 1) * dv10 den k < hi * mul10 k) →
        InB incl ((lo : Rat) / den) ((hi : Rat) / den) (((c + 1 : Nat) : Rat) * p10 k) := by
      intro h
      have hlow : (lo : Rat) / den < ((c + 1 : Nat) : Rat) * p10 k := by
        have := from_scale_gt hc2
        grind
      unfold InB
      cases incl
      · simp only [Bool.false_eq_true, ↓reduceIte] at h ⊢
        exact ⟨hlow, from_scale_lt (unc_gt hsh hd h)⟩
      · simp only [↓reduceIte] at h ⊢
        exact ⟨Rat.le_of_lt hlow, from_scale_le (unc_ge hsh hd h)⟩
    by_cases hr0 : r = 0
    · -- exact
      rw [if_pos hr0]
      have hW := hc3 hr0
      refine ⟨?_, ?_, hkb, Int.le_refl _⟩
      · have : (0 : Rat) < (c : Rat) := by rw [← hW]; exact hWpos
        exact_mod_cast this
      · have : (c : Rat) * p10 k = (x : Rat) / den := by rw [← hW]; exact div_mul_p10 _ k
        show InB incl _ _ ((c : Rat) * p10 k)
        rw [this]
        exact InB.of_strict hLX hXH
    · rw [if_neg hr0]
      apply chain (P := fun res => 0 < res.1 ∧
        InB incl ((lo : Rat) / den) ((hi : Rat) / den) ((res.1 : Rat) * p10 res.2) ∧
        k - ((fuel + 1 : Nat) : Int) < res.2 ∧ res.2 ≤ k)
      · intro hlow
        exact ⟨hlow.1, candLow hlow.2, hkb, Int.le_refl _⟩
      · intro hhigh
        exact ⟨Nat.succ_pos _, candHigh hhigh, hkb, Int.le_refl _⟩
      · intro _ hhigh
        -- no candidate at this scale: the scale is still too coarse
        obtain ⟨k0, h1, h2, h3⟩ := hex
        have hk0 : k0 ≠ k := by
          intro e
          subst e
          apply hhigh
          have hlt : ((c + 1 : Nat) : Rat) * p10 k0 < (hi : Rat) / den := by
            have h5 := from_scale_lt (hc4 hr0)
            push_cast
            grind
          have hs : ((c + 1 : Nat) : Rat) < (hi : Rat) / den / p10 k0 := by
            rw [Rat.lt_div_iff (p10_pos k0)]; exact hlt
          have h6 := cross_lt (a := c + 1) (c := 1) hsh hd (by push_cast; rw [Rat.one_mul]; exact_mod_cast hs)
          rw [Nat.one_mul] at h6
          cases incl
          · simp only [Bool.false_eq_true, ↓reduceIte]; exact h6
          · simp only [↓reduceIte]; exact Nat.le_of_lt h6
        have := ih (k - 1) ⟨k0, by omega, by omega, h3⟩
        exact ⟨this.1, this.2.1, by omega, by omega⟩


/-! ## removing trailing zeros keeps the value -/

theorem stripZeros_spec : ∀ (fuel c : Nat) (k : Int), 0 < c →
    0 < (stripZeros fuel c k).1 ∧ (stripZeros fuel c k).1 ≤ c ∧ k ≤ (stripZeros fuel c k).2 ∧
      ((stripZeros fuel c k).1 : Rat) * p10 (stripZeros fuel c k).2 = (c : Rat) * p10 k
  | 0, c, k, hc => ⟨hc, Nat.le_refl _, Int.le_refl _, rfl⟩
  | fuel + 1, c, k, hc => by
    rw [stripZeros]
    split
    · rename_i h
      have hc10 : 0 < c / 10 := by omega
      obtain ⟨h1, h2, h3, h4⟩ := stripZeros_spec fuel (c / 10) (k + 1) hc10
      refine ⟨h1, by omega, by omega, ?_⟩
      rw [h4, p10_succ]
      have : c = c / 10 * 10 := by omega
      have e : (c : Rat) = ((c / 10 : Nat) : Rat) * 10 := by
        have : (c : Rat) = ((c / 10 * 10 : Nat) : Rat) := by rw [← this]
        rw [this]; push_cast; rfl
      rw [e]
      grind
    · exact ⟨hc, Nat.le_refl _, Int.le_refl _, rfl⟩

/-! ## powers of two and ten, compared by computation -/

theorem p10_split (a : Int) : p10 a * ((10 ^ (-a).toNat : Nat) : Rat) = ((10 ^ a.toNat : Nat) : Rat) := by
  by_cases h : 0 ≤ a
  · obtain ⟨n, rfl⟩ : ∃ n : Nat, a = n := ⟨a.toNat, by omega⟩
    have : (-(n : Int)).toNat = 0 := by omega
    rw [this, Int.toNat_natCast, p10_nat]; simp
  · obtain ⟨n, rfl⟩ : ∃ n : Nat, a = -(n : Int) := ⟨(-a).toNat, by omega⟩
    have : (-(n : Int)).toNat = 0 := by omega
    rw [this, Int.neg_neg, Int.toNat_natCast, ← p10_nat, p10_neg]; simp

theorem p2_split (a : Int) : p2 a * ((2 ^ (-a).toNat : Nat) : Rat) = ((2 ^ a.toNat : Nat) : Rat) := by
  by_cases h : 0 ≤ a
  · obtain ⟨n, rfl⟩ : ∃ n : Nat, a = n := ⟨a.toNat, by omega⟩
    have : (-(n : Int)).toNat = 0 := by omega
    rw [this, Int.toNat_natCast, p2_nat]; simp
  · obtain ⟨n, rfl⟩ : ∃ n : Nat, a = -(n : Int) := ⟨(-a).toNat, by omega⟩
    have : (-(n : Int)).toNat = 0 := by omega
    rw [this, Int.neg_neg, Int.toNat_natCast, ← p2_nat, p2_neg]; simp

/-- `10^a ≤ 2^b`, decided on natural numbers -/
def le10_2 (a b : Int) : Bool :=
  decide (10 ^ a.toNat * 2 ^ (-b).toNat ≤ 2 ^ b.toNat * 10 ^ (-a).toNat)

theorem le10_2_sound (a b : Int) (h : le10_2 a b = true) : p10 a ≤ p2 b := by
  have h1 : 10 ^ a.toNat * 2 ^ (-b).toNat ≤ 2 ^ b.toNat * 10 ^ (-a).toNat := by simpa [le10_2] using h
  have h2 : ((10 ^ a.toNat : Nat) : Rat) * ((2 ^ (-b).toNat : Nat) : Rat) ≤
      ((2 ^ b.toNat : Nat) : Rat) * ((10 ^ (-a).toNat : Nat) : Rat) := by exact_mod_cast h1
  have e10 := p10_split a
  have e2 := p2_split b
  have hA : (0 : Rat) < ((10 ^ (-a).toNat : Nat) : Rat) := by
    have : 0 < 10 ^ (-a).toNat := Nat.pow_pos (by decide)
    exact_mod_cast this
  have hB : (0 : Rat) < ((2 ^ (-b).toNat : Nat) : Rat) := by
    have : 0 < 2 ^ (-b).toNat := Nat.pow_pos (by decide)
    exact_mod_cast this
  generalize ((10 ^ (-a).toNat : Nat) : Rat) = A at h2 hA e10
  generalize ((2 ^ (-b).toNat : Nat) : Rat) = B at h2 hB e2
  generalize ((10 ^ a.toNat : Nat) : Rat) = T10 at h2 e10
  generalize ((2 ^ b.toNat : Nat) : Rat) = T2 at h2 e2
  subst e10; subst e2
  apply Decidable.byContradiction
  intro hcon
  have h3 := Rat.mul_lt_mul_of_pos_right (Rat.not_le.mp hcon) (Rat.mul_pos hA hB)
  grind

/-- `2^b < 10^a`, decided on natural numbers -/
def lt2_10 (b a : Int) : Bool :=
  decide (2 ^ b.toNat * 10 ^ (-a).toNat < 10 ^ a.toNat * 2 ^ (-b).toNat)

theorem lt2_10_sound (b a : Int) (h : lt2_10 b a = true) : p2 b < p10 a := by
  have h1 : 2 ^ b.toNat * 10 ^ (-a).toNat < 10 ^ a.toNat * 2 ^ (-b).toNat := by simpa [lt2_10] using h
  have h2 : ((2 ^ b.toNat : Nat) : Rat) * ((10 ^ (-a).toNat : Nat) : Rat) <
      ((10 ^ a.toNat : Nat) : Rat) * ((2 ^ (-b).toNat : Nat) : Rat) := by exact_mod_cast h1
  have e10 := p10_split a
  have e2 := p2_split b
  have hA : (0 : Rat) < ((10 ^ (-a).toNat : Nat) : Rat) := by
    have : 0 < 10 ^ (-a).toNat := Nat.pow_pos (by decide)
    exact_mod_cast this
  have hB : (0 : Rat) < ((2 ^ (-b).toNat : Nat) : Rat) := by
    have : 0 < 2 ^ (-b).toNat := Nat.pow_pos (by decide)
    exact_mod_cast this
  generalize ((10 ^ (-a).toNat : Nat) : Rat) = A at h2 hA e10
  generalize ((2 ^ (-b).toNat : Nat) : Rat) = B at h2 hB e2
  generalize ((10 ^ a.toNat : Nat) : Rat) = T10 at h2 e10
  generalize ((2 ^ b.toNat : Nat) : Rat) = T2 at h2 e2
  subst e10; subst e2
  apply Decidable.byContradiction
  intro hcon
  have h3 := Rat.mul_le_mul_of_nonneg_right (Rat.not_lt.mp hcon) (Rat.le_of_lt (Rat.mul_pos hA hB))
  grind

/-- first scale tried by `shortest` for binary exponent `bl` of the upper end -/
def kstartOf (bl : Int) : Int := bl * 30103 / 100000 + 1

/-- 64 steps of the search are enough: for every binary exponent of a finite binary64, the 64th scale is already
    finer than half the distance to the neighbouring values -/
theorem fuel_table : ∀ i : Nat, i < 2046 → le10_2 (kstartOf (((i : Int) - 1074) + 53) - 63) (((i : Int) - 1074) - 1) = true := by
  decide +kernel

theorem kstartOf_mono {a c : Int} (h : a ≤ c) : kstartOf a ≤ kstartOf c := by
  unfold kstartOf
  have := Int.ediv_le_ediv (by decide : (0 : Int) < 100000) (Int.mul_le_mul_of_nonneg_right h (by decide : (0 : Int) ≤ 30103))
  omega


/-! ## `shortest` -/

def scOf (e2 : Int) : Nat := if e2 ≥ 0 then 1 <<< e2.toNat else 1
def denOf (e2 : Int) : Nat := if e2 ≥ 0 then 1 else 1 <<< (-e2).toNat

theorem denOf_pos (e2 : Int) : 0 < denOf e2 := by
  unfold denOf; split
  · decide
  · rw [Nat.one_shiftLeft]; exact Nat.pow_pos (by decide)

theorem scOf_pos (e2 : Int) : 0 < scOf e2 := by
  unfold scOf; split
  · rw [Nat.one_shiftLeft]; exact Nat.pow_pos (by decide)
  · decide

theorem scden (e2 : Int) (a : Nat) : ((a * scOf e2 : Nat) : Rat) / (denOf e2 : Rat) = (a : Rat) * p2 e2 := by
  by_cases h : e2 ≥ 0
  · obtain ⟨n, rfl⟩ : ∃ n : Nat, e2 = n := ⟨e2.toNat, by omega⟩
    simp only [scOf, denOf, h, ↓reduceIte, Int.toNat_natCast, Nat.one_shiftLeft, p2_nat]
    push_cast
    have : (1 : Rat)⁻¹ = 1 := by grind
    rw [Rat.div_def, this, Rat.mul_one]
  · obtain ⟨n, rfl⟩ : ∃ n : Nat, e2 = -(n : Int) := ⟨(-e2).toNat, by omega⟩
    simp only [scOf, denOf, h, ↓reduceIte, Int.neg_neg, Int.toNat_natCast, Nat.one_shiftLeft, Nat.mul_one]
    have h1 := p2_neg (-(n : Int))
    rw [Int.neg_neg, p2_nat] at h1
    have hne : ((2 ^ n : Nat) : Rat) ≠ 0 := by
      have := p2_ne (n : Int); rw [p2_nat] at this; exact this
    rw [Rat.div_def]
    have h2 := Rat.mul_inv_cancel _ hne
    generalize ((2 ^ n : Nat) : Rat) = T at h1 h2 hne
    generalize p2 (-(n : Int)) = Q at h1
    have : T⁻¹ = Q := by
      calc T⁻¹ = (T * Q) * T⁻¹ := by rw [h1]; grind
        _ = Q * (T * T⁻¹) := by grind
        _ = Q := by rw [h2]; grind
    rw [this]

theorem shortest_eq (m : Nat) (e : Int) : shortest m e =
    (let lk := shortestLoop ((if m = two52 ∧ e ≠ -1074 then 4 * m - 1 else 4 * m - 2) * scOf (e - 2))
        (4 * m * scOf (e - 2)) ((4 * m + 2) * scOf (e - 2)) (denOf (e - 2)) (decide (m % 2 = 0)) 64
        (kstartOf ((Nat.log2 (4 * m + 2) : Int) + 1 + (e - 2)))
     let ck := stripZeros 400 lk.1 lk.2
     (natDigits ck.1, ((natDigits ck.1).length : Int) + ck.2)) := by
  unfold shortest scOf denOf kstartOf
  simp only []

/-- SHORTEST DIGITS: the decimal `c · 10^k` returned for the finite non-zero value `m · 2^e` lies in its rounding
    interval -/
theorem shortest_spec (m : Nat) (e : Int) (hm : 0 < m) (hm53 : m < 2 ^ 53) (he : -1074 ≤ e) (he2 : e ≤ 971) :
    ∃ (c : Nat) (k : Int), 0 < c ∧ shortest m e = (natDigits c, ((natDigits c).length : Int) + k) ∧
      InIv m e ((c : Rat) * p10 k) ∧ -387 ≤ k := by
  rw [shortest_eq]
  dsimp only
  have hden := denOf_pos (e - 2)
  have hsc := scOf_pos (e - 2)
  generalize hlo : (if m = two52 ∧ e ≠ -1074 then 4 * m - 1 else 4 * m - 2) = l4
  have hl4 : l4 = lo4 m e := by
    rw [← hlo]; unfold lo4 two52; rfl
  have hl4lt : l4 < 4 * m := by rw [← hlo]; split <;> omega
  -- the three numerators as rationals
  have eX := scden (e - 2) (4 * m)
  have eL := scden (e - 2) l4
  have eH := scden (e - 2) (4 * m + 2)
  have hlog : Nat.log2 (4 * m + 2) ≤ 54 := by
    have : Nat.log2 (4 * m + 2) < 55 := (Nat.log2_lt (by omega)).mpr (by omega)
    omega
  have hlog2 : 2 ≤ Nat.log2 (4 * m + 2) := (Nat.le_log2 (by omega)).mpr (by omega)
  generalize hbl : (Nat.log2 (4 * m + 2) : Int) + 1 + (e - 2) = bl
  have hbl1 : bl ≤ e + 53 := by omega
  have hbl2 : e + 1 ≤ bl := by omega
  -- fuel suffices
  have hfuel : p10 (kstartOf bl - 63) ≤ ((4 * m + 2) * scOf (e - 2) : Nat) / (denOf (e - 2) : Rat) -
      ((4 * m * scOf (e - 2) : Nat) : Rat) / (denOf (e - 2) : Rat) := by
    rw [eX, eH]
    have h1 : p10 (kstartOf bl - 63) ≤ p10 (kstartOf (e + 53) - 63) := p10_mono (by have := kstartOf_mono hbl1; omega)
    obtain ⟨i, hi, rfl⟩ : ∃ i : Nat, i < 2046 ∧ e = (i : Int) - 1074 := ⟨(e + 1074).toNat, by omega, by omega⟩
    have h2 := le10_2_sound _ _ (fuel_table i hi)
    have h3 := p2_em1 ((i : Int) - 1074)
    push_cast
    grind
  have hspec := loop_spec (l4 * scOf (e - 2)) (4 * m * scOf (e - 2)) ((4 * m + 2) * scOf (e - 2)) (denOf (e - 2))
    (decide (m % 2 = 0)) hden (Nat.mul_pos (by omega) hsc) (Nat.mul_lt_mul_of_pos_right hl4lt hsc)
    (Nat.mul_lt_mul_of_pos_right (by omega) hsc) 64 (kstartOf bl)
    ⟨kstartOf bl - 63, by omega, by omega, hfuel⟩
  generalize shortestLoop (l4 * scOf (e - 2)) (4 * m * scOf (e - 2)) ((4 * m + 2) * scOf (e - 2)) (denOf (e - 2))
    (decide (m % 2 = 0)) 64 (kstartOf bl) = lk at hspec
  obtain ⟨hc0, hin, hk1, hk2⟩ := hspec
  obtain ⟨s1, s2, s3, s4⟩ := stripZeros_spec 400 lk.1 lk.2 hc0
  refine ⟨(stripZeros 400 lk.1 lk.2).1, (stripZeros 400 lk.1 lk.2).2, s1, rfl, ?_, ?_⟩
  · rw [s4]
    rw [eL, eH, hl4] at hin
    unfold InB at hin
    unfold InIv
    by_cases hpar : m % 2 = 0
    · simp only [hpar, decide_true, ↓reduceIte] at hin ⊢
      exact hin
    · simp only [hpar, decide_false, Bool.false_eq_true, ↓reduceIte] at hin ⊢
      exact hin
  · have : -323 ≤ kstartOf bl := by
      have := kstartOf_mono hbl2
      have h0 : kstartOf (-1074 + 1) ≤ kstartOf (e + 1) := kstartOf_mono (by omega)
      have : kstartOf (-1074 + 1) = -323 := by decide
      omega
    have e64 : ((64 : Nat) : Int) = 64 := rfl
    rw [e64] at hk1
    omega

end GoLucene.FloatRT

#print axioms GoLucene.FloatRT.shortest_spec
