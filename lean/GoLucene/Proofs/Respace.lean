import GoLucene.Model.LexAll
/-
  C09, whitespace part: "layout does not change meaning".

  THEOREM W (`lexCells_respace`, and `respace_same_tokens` for `lexAll`).
  Lex an input `inp` (a list of decoded cells).  The result is a list of segments `segs` — for each token the
  whitespace cells skipped in front of it (`Seg.ws`, the "gap"), the token's own cells (`Seg.cells`) and the token
  (`Seg.tok`) —, how lexing ended (`e` = `.eof` or `.err`), the whitespace `tw` skipped before the end of input
  (eof) or before the offending cell (err), and the unread `rest` (`[]` for eof, the offending cell onwards for err).
  `lexCells_spec` says that `inp` is exactly `layout segs (segs.map (·.ws)) tw rest`:

        gap₀ tok₀ gap₁ tok₁ … gapₙ₋₁ tokₙ₋₁ tw rest.

  Now choose other gaps `gs` (one per token) and another final gap `tw'`, all consisting of whitespace cells, with
    * gap 0 (leading whitespace) arbitrary,
    * for i ≥ 1: if the original gap i was non-empty, the new gap i is non-empty (a gap that was EMPTY may be
      filled — "extra whitespace"; a non-empty gap may be replaced by any other non-empty whitespace),
    * the final gap: arbitrary if lexing ended at EOF (trailing whitespace is free); if lexing ended in an error
      and there is a token before the offending cell, it is treated like an interior gap (`herr`),
    * (`hdang`, the recorded finding) if the input ended (EOF) in a token whose last cell is a backslash that had
      nothing left to escape (`dangling`), no trailing whitespace is added: `tw' = []`.
  Then lexing `inp' = layout segs gs tw' rest`

        gs₀ tok₀ gs₁ tok₁ … gsₙ₋₁ tokₙ₋₁ tw' rest

  gives the same tokens with the same cells (`regap segs gs`: only the recorded gaps differ), the same end kind `e`
  (so: the variant fails iff the original fails) and the same unread `rest`.

  The only hypothesis on the character classes is `Cls.wsNotAlnum`: space, tab, CR, LF are neither letters nor
  digits (true of unicode.IsLetter / unicode.IsDigit).

  All four side conditions are necessary (checked with `#eval` on the ASCII classes):
    * `hdang`:   `a\`  lexes to the word `a\`;  `a\ ` lexes to the word `a\ ` (the escape swallows the blank).
    * `herr`:    `a .` is a lexical error at `.` (a token cannot start with `.`), `a.` is the single word `a.`.
    * `hkeep`:   `a b` is two words, `ab` one;  `- 1` is minus and `1`, `-1` is one (negative number) word.
    * `wsNotAlnum`: if a blank were a letter, `a:` and `a :` would differ (`a ` would be a word).
-/
namespace GoLucene

/-! ### words: `lexWord` re-run on its own output followed by something else -/

def endsDangling (k : Cls) : List Cell → Bool
  | [] => false
  | c :: cs =>
    if k.isAlnum c.r || isWild c.r || c.r = 46 || c.r = 45 then endsDangling k cs
    else if isEsc c.r then
      match cs with
      | [] => true
      | _ :: ds => endsDangling k ds
    else false

def wordStop (k : Cls) : List Cell → Bool
  | [] => true
  | c :: _ => !(k.isAlnum c.r || isWild c.r || c.r = 46 || c.r = 45) && !isEsc c.r

theorem endsDangling_word (k : Cls) (c : Cell) (cs : List Cell)
    (hc : (k.isAlnum c.r || isWild c.r || c.r = 46 || c.r = 45) = true) :
    endsDangling k (c :: cs) = endsDangling k cs := by
  rw [endsDangling.eq_def]; simp only [hc, if_true]

theorem endsDangling_esc1 (k : Cls) (c : Cell)
    (hc : ¬ (k.isAlnum c.r || isWild c.r || c.r = 46 || c.r = 45) = true) (he : isEsc c.r = true) :
    endsDangling k [c] = true := by
  rw [endsDangling.eq_def]; simp [hc, he]

theorem endsDangling_esc2 (k : Cls) (c d : Cell) (ds : List Cell)
    (hc : ¬ (k.isAlnum c.r || isWild c.r || c.r = 46 || c.r = 45) = true) (he : isEsc c.r = true) :
    endsDangling k (c :: d :: ds) = endsDangling k ds := by
  rw [endsDangling.eq_def]; simp [hc, he]

theorem lexWord_nil_of_stop (k : Cls) (r : List Cell) (h : wordStop k r = true) : lexWord k r = ([], r) := by
  cases r with
  | nil => rfl
  | cons c cs =>
    simp only [wordStop, Bool.and_eq_true, Bool.not_eq_true'] at h
    rw [lexWord.eq_def]
    simp only [h.1, h.2]
    simp

theorem lexWord_spec (k : Cls) : ∀ (n : Nat) (inp : List Cell), inp.length ≤ n →
    wordStop k (lexWord k inp).2 = true ∧
    (endsDangling k (lexWord k inp).1 = true → (lexWord k inp).2 = []) ∧
    ∀ rest', wordStop k rest' = true → (endsDangling k (lexWord k inp).1 = true → rest' = []) →
      lexWord k ((lexWord k inp).1 ++ rest') = ((lexWord k inp).1, rest') := by
  intro n
  induction n with
  | zero =>
    intro inp h
    have : inp = [] := List.length_eq_zero_iff.mp (by omega)
    subst this
    refine ⟨rfl, fun _ => rfl, ?_⟩
    intro rest' hs _
    simpa [lexWord] using lexWord_nil_of_stop k rest' hs
  | succ n ih =>
    intro inp h
    cases inp with
    | nil =>
      refine ⟨rfl, fun _ => rfl, ?_⟩
      intro rest' hs _
      simpa [lexWord] using lexWord_nil_of_stop k rest' hs
    | cons c cs =>
      rw [lexWord.eq_def]
      simp only []
      split
      · rename_i hc
        have := ih cs (by simp at h; omega)
        refine ⟨this.1, ?_, ?_⟩
        · rw [endsDangling_word k c _ hc]
          exact this.2.1
        · intro rest' hs hd
          rw [endsDangling_word k c _ hc] at hd
          rw [List.cons_append, lexWord.eq_def]
          simp only [hc, if_true]
          rw [this.2.2 rest' hs hd]
      · rename_i hc
        split
        · rename_i he
          cases cs with
          | nil =>
            refine ⟨rfl, fun _ => rfl, ?_⟩
            intro rest' hs hd
            have := hd (endsDangling_esc1 k c hc he)
            subst this
            simp [lexWord, hc, he]
          | cons d ds =>
            have := ih ds (by simp at h; omega)
            refine ⟨this.1, ?_, ?_⟩
            · rw [endsDangling_esc2 k c d _ hc he]
              exact this.2.1
            · intro rest' hs hd
              rw [endsDangling_esc2 k c d _ hc he] at hd
              rw [List.cons_append, List.cons_append, lexWord.eq_def]
              simp only [hc, he, if_true]
              rw [this.2.2 rest' hs hd]
              simp
        · rename_i he
          refine ⟨by simp [wordStop, hc, he], fun hh => by simp [endsDangling] at hh, ?_⟩
          intro rest' hs _
          simpa [lexWord] using lexWord_nil_of_stop k rest' hs

/-! ### phrases, regexps, whitespace -/

theorem lexPhrase_app (q : Nat) : ∀ (inp w rest : List Cell), lexPhrase q inp = some (w, rest) →
    ∀ rest', lexPhrase q (w ++ rest') = some (w, rest') := by
  intro inp
  induction inp with
  | nil => simp [lexPhrase]
  | cons c cs ih =>
    intro w rest h rest'
    simp only [lexPhrase] at h
    split at h
    · rename_i hq
      simp at h; obtain ⟨rfl, rfl⟩ := h
      simp [lexPhrase, hq]
    · rename_i hq
      split at h
      · simp at h
      · rename_i w' r' hr
        simp at h; obtain ⟨rfl, rfl⟩ := h
        simp only [List.cons_append, lexPhrase, hq, if_false]
        rw [ih w' _ hr rest']

theorem lexRegexp_app : ∀ (n : Nat) (inp w rest : List Cell), inp.length ≤ n → lexRegexp inp = some (w, rest) →
    ∀ rest', lexRegexp (w ++ rest') = some (w, rest') := by
  intro n
  induction n with
  | zero => intro inp w rest h; cases inp <;> simp_all [lexRegexp]
  | succ n ih =>
    intro inp w rest hl h rest'
    cases inp with
    | nil => simp [lexRegexp] at h
    | cons c cs =>
      rw [lexRegexp.eq_def] at h
      simp only at h
      split at h
      · rename_i he
        cases cs with
        | nil => simp at h
        | cons d ds =>
          simp only at h
          split at h
          · simp at h
          · rename_i w' r' hr
            simp at h; obtain ⟨rfl, rfl⟩ := h
            have := ih ds w' _ (by simp at hl; omega) hr rest'
            rw [List.cons_append, List.cons_append, lexRegexp.eq_def]
            simp only [he, if_true, this]
      · rename_i he
        split at h
        · rename_i h47
          simp at h; obtain ⟨rfl, rfl⟩ := h
          rw [List.cons_append, lexRegexp.eq_def]
          simp only []
          rw [if_neg he, if_pos h47]
          rfl
        · rename_i h47
          split at h
          · simp at h
          · rename_i w' r' hr
            simp at h; obtain ⟨rfl, rfl⟩ := h
            have := ih cs w' _ (by simp at hl; omega) hr rest'
            rw [List.cons_append, lexRegexp.eq_def]
            simp only [he, h47, if_false, this]
            simp

theorem dropWs_app (ws s : List Cell) (hws : ∀ c ∈ ws, isWs c.r = true)
    (hs : ∀ c cs, s = c :: cs → isWs c.r = false) : dropWs (ws ++ s) = (ws, s) := by
  induction ws with
  | nil =>
    cases s with
    | nil => rfl
    | cons c cs => simp [dropWs, hs c cs rfl]
  | cons a as ih =>
    have ha := hws a (by simp)
    simp only [List.cons_append, dropWs, ha, if_true]
    rw [ih (fun c hc => hws c (by simp [hc]))]

/-! ### one call of `next` -/

/-- the part of `next` after the whitespace has been skipped -/
def nextBody (k : Cls) (ws : List Cell) (c : Cell) (cs : List Cell) : Step :=
    if k.isAlnum c.r || isWild c.r || isEsc c.r then
      let (w, rest) := lexWord k (c :: cs)
      let v := cellsBytes w
      .tok ⟨(keywordOf v).getD .literal, v⟩ ws w rest
    else match symbolOf c.r with
      | some t => .tok ⟨t, c.raw⟩ ws [c] cs
      | none =>
        if c.r = 45 then
          match cs with
          | d :: _ =>
            if k.isDigit d.r then
              let (w, rest) := lexWord k (c :: cs)
              let v := cellsBytes w
              .tok ⟨(keywordOf v).getD .literal, v⟩ ws w rest
            else .tok ⟨.minus, c.raw⟩ ws [c] cs
          | [] => .tok ⟨.minus, c.raw⟩ ws [c] cs
        else if c.r = 34 || c.r = 39 then
          match lexPhrase c.r cs with
          | some (w, rest) => .tok ⟨.quoted, cellsBytes (c :: w)⟩ ws (c :: w) rest
          | none => .err ws (c :: cs)
        else if c.r = 47 then
          match lexRegexp cs with
          | some (w, rest) => .tok ⟨.regexp, cellsBytes (c :: w)⟩ ws (c :: w) rest
          | none => .err ws (c :: cs)
        else .err ws (c :: cs)

theorem next_of_dropWs_nil (k : Cls) (inp ws : List Cell) (h : dropWs inp = (ws, [])) : next k inp = .eof ws := by
  unfold next; rw [h]

theorem next_of_dropWs_cons (k : Cls) (inp ws : List Cell) (c : Cell) (cs : List Cell)
    (h : dropWs inp = (ws, c :: cs)) : next k inp = nextBody k ws c cs := by
  unfold next; rw [h]; rfl


/-- hypothesis on the character classes: the four whitespace runes are neither letters nor digits -/
def Cls.wsNotAlnum (k : Cls) : Prop := ∀ r, isWs r = true → k.isLetter r = false ∧ k.isDigit r = false

theorem ws_props (k : Cls) (hk : k.wsNotAlnum) (r : Nat) (h : isWs r = true) :
    (k.isAlnum r || isWild r || decide (r = 46) || decide (r = 45)) = false ∧ isEsc r = false ∧
    k.isDigit r = false := by
  have := hk r h
  simp only [isWs, Bool.or_eq_true, decide_eq_true_eq] at h
  rcases h with ((rfl | rfl) | rfl) | rfl <;> simp [Cls.isAlnum, this.1, this.2, isWild, isEsc]

/-- how the input after a token may change: it becomes empty, or starts with whitespace, or starts with the
    same cell as before -/
def gapOK (rest rest' : List Cell) : Prop :=
  match rest' with
  | [] => True
  | c :: _ => isWs c.r = true ∨ rest.head? = some c

theorem wordStop_of_gapOK (k : Cls) (hk : k.wsNotAlnum) (rest rest' : List Cell)
    (hs : wordStop k rest = true) (hg : gapOK rest rest') : wordStop k rest' = true := by
  cases rest' with
  | nil => rfl
  | cons c cs =>
    simp only [gapOK] at hg
    rcases hg with hw | hh
    · have := ws_props k hk c.r hw
      simp [wordStop, this.1, this.2.1]
    · cases rest with
      | nil => simp at hh
      | cons d ds =>
        simp at hh; subst hh
        exact hs

theorem lexWord_start (k : Cls) (c : Cell) (cs : List Cell)
    (h : (k.isAlnum c.r || isWild c.r || isEsc c.r) = true ∨ c.r = 45) :
    ∃ w0, (lexWord k (c :: cs)).1 = c :: w0 := by
  rw [lexWord.eq_def]
  simp only []
  split
  · exact ⟨_, rfl⟩
  · rename_i hc
    split
    · cases cs with
      | nil => exact ⟨_, rfl⟩
      | cons d ds => exact ⟨_, rfl⟩
    · rename_i he
      exfalso
      simp only [Bool.or_eq_true, decide_eq_true_eq, not_or] at hc h
      rcases h with ((h | h) | h) | h
      · exact hc.1.1.1 h
      · exact hc.1.1.2 h
      · exact he h
      · exact hc.2 h
      
theorem word_respace (k : Cls) (hk : k.wsNotAlnum) (c : Cell) (cs : List Cell)
    (h : (k.isAlnum c.r || isWild c.r || isEsc c.r) = true ∨ c.r = 45) :
    ∃ w0, (lexWord k (c :: cs)).1 = c :: w0 ∧ cs = w0 ++ (lexWord k (c :: cs)).2 ∧
      ∀ rest', gapOK (lexWord k (c :: cs)).2 rest' → (endsDangling k (lexWord k (c :: cs)).1 = true → rest' = []) →
        lexWord k (c :: (w0 ++ rest')) = ((lexWord k (c :: cs)).1, rest') := by
  obtain ⟨w0, hw0⟩ := lexWord_start k c cs h
  have heq := lexWord_eq k _ (c :: cs) (Nat.le_refl _)
  have hsp := lexWord_spec k _ (c :: cs) (Nat.le_refl _)
  refine ⟨w0, hw0, ?_, ?_⟩
  · rw [hw0] at heq
    simpa using heq.symm
  · intro rest' hg hd
    have := hsp.2.2 rest' (wordStop_of_gapOK k hk _ _ hsp.1 hg) hd
    rw [hw0] at this ⊢
    exact this


theorem minus_respace (k : Cls) (ws' : List Cell) (c : Cell) (rest' : List Cell)
    (hc : ¬ (k.isAlnum c.r || isWild c.r || isEsc c.r) = true) (hsym : symbolOf c.r = none) (h45 : c.r = 45)
    (hd : ∀ d' tl', rest' = d' :: tl' → k.isDigit d'.r = false) :
    nextBody k ws' c rest' = .tok ⟨.minus, c.raw⟩ ws' [c] rest' := by
  unfold nextBody
  rw [if_neg hc]
  simp only [hsym, if_pos h45]
  cases rest' with
  | nil => rfl
  | cons d' tl' => simp [hd d' tl' rfl]

theorem notDigit_of_gapOK (k : Cls) (hk : k.wsNotAlnum) (rest rest' : List Cell) (hg : gapOK rest rest')
    (hr : ∀ d tl, rest = d :: tl → k.isDigit d.r = false) :
    ∀ d' tl', rest' = d' :: tl' → k.isDigit d'.r = false := by
  intro d' tl' e
  subst e
  simp only [gapOK] at hg
  rcases hg with hw | hh
  · exact (ws_props k hk _ hw).2.2
  · cases rest with
    | nil => simp at hh
    | cons d tl =>
      simp at hh; subst hh
      exact hr _ _ rfl

theorem nextBody_respace (k : Cls) (hk : k.wsNotAlnum) (ws : List Cell) (c : Cell) (cs : List Cell)
    (t : Tok) (ws1 w rest : List Cell) (h : nextBody k ws c cs = .tok t ws1 w rest) :
    ws1 = ws ∧ ∃ w0, w = c :: w0 ∧ cs = w0 ++ rest ∧
      ∀ ws' rest', gapOK rest rest' → (endsDangling k w = true → rest' = []) →
        nextBody k ws' c (w0 ++ rest') = .tok t ws' w rest' := by
  unfold nextBody at h
  split at h
  · rename_i hc
    simp only [Step.tok.injEq] at h
    obtain ⟨rfl, rfl, rfl, rfl⟩ := h
    obtain ⟨w0, hw0, hcs, hre⟩ := word_respace k hk c cs (Or.inl hc)
    refine ⟨rfl, w0, hw0, hcs, ?_⟩
    intro ws' rest' hg hd
    unfold nextBody
    rw [if_pos hc, hre rest' hg hd]
  · rename_i hc
    split at h
    · rename_i ty hsym
      simp only [Step.tok.injEq] at h
      obtain ⟨rfl, rfl, rfl, rfl⟩ := h
      refine ⟨rfl, [], rfl, rfl, ?_⟩
      intro ws' rest' _ _
      unfold nextBody
      rw [if_neg hc]
      simp only [hsym, List.nil_append]
    · rename_i hsym
      split at h
      · rename_i h45
        split at h
        · rename_i d tl
          split at h
          · rename_i hdig
            simp only [Step.tok.injEq] at h
            obtain ⟨rfl, rfl, rfl, rfl⟩ := h
            obtain ⟨w0, hw0, hcs, hre⟩ := word_respace k hk c (d :: tl) (Or.inr h45)
            refine ⟨rfl, w0, hw0, hcs, ?_⟩
            intro ws' rest' hg hd
            have e1 : (lexWord k (c :: d :: tl)).1 = c :: (lexWord k (d :: tl)).1 := by
              rw [lexWord.eq_def]
              simp [h45]
            have hal : (k.isAlnum d.r || isWild d.r || isEsc d.r) = true := by simp [Cls.isAlnum, hdig]
            obtain ⟨w1, hw1⟩ := lexWord_start k d tl (Or.inl hal)
            rw [e1, hw1] at hw0
            simp only [List.cons.injEq, true_and] at hw0
            subst hw0
            have hh := hre rest' hg hd
            unfold nextBody
            rw [if_neg hc]
            simp only [hsym, if_pos h45, List.cons_append, if_pos hdig] at hh ⊢
            rw [hh]
          · rename_i hdig
            simp only [Step.tok.injEq] at h
            obtain ⟨rfl, rfl, rfl, rfl⟩ := h
            refine ⟨rfl, [], rfl, rfl, ?_⟩
            intro ws' rest' hg _
            refine minus_respace k ws' c rest' hc hsym h45 (notDigit_of_gapOK k hk _ _ hg ?_)
            intro d0 tl0 e
            simp only [List.cons.injEq] at e
            obtain ⟨rfl, rfl⟩ := e
            simpa using hdig
        · simp only [Step.tok.injEq] at h
          obtain ⟨rfl, rfl, rfl, rfl⟩ := h
          refine ⟨rfl, [], rfl, rfl, ?_⟩
          intro ws' rest' hg _
          refine minus_respace k ws' c rest' hc hsym h45 (notDigit_of_gapOK k hk _ _ hg ?_)
          intro d0 tl0 e
          simp at e
      · rename_i h45
        split at h
        · rename_i hq
          split at h
          · rename_i w' r' hp
            simp only [Step.tok.injEq] at h
            obtain ⟨rfl, rfl, rfl, rfl⟩ := h
            have he := lexPhrase_eq _ _ _ _ hp
            refine ⟨rfl, w', rfl, he.1.symm, ?_⟩
            intro ws' rest' _ _
            unfold nextBody
            rw [if_neg hc]
            simp only [hsym, if_neg h45, if_pos hq, lexPhrase_app _ _ _ _ hp rest']
          · simp at h
        · rename_i hq
          split at h
          · rename_i h47
            split at h
            · rename_i w' r' hp
              simp only [Step.tok.injEq] at h
              obtain ⟨rfl, rfl, rfl, rfl⟩ := h
              have he := lexRegexp_eq _ _ _ _ (Nat.le_refl _) hp
              refine ⟨rfl, w', rfl, he.symm, ?_⟩
              intro ws' rest' _ _
              unfold nextBody
              rw [if_neg hc]
              simp only [hsym, if_neg h45, if_neg hq, if_pos h47, lexRegexp_app _ _ _ _ (Nat.le_refl _) hp rest']
            · simp at h
          · simp at h


theorem next_split (k : Cls) (hk : k.wsNotAlnum) (inp : List Cell) (t : Tok) (ws w rest : List Cell)
    (h : next k inp = .tok t ws w rest) :
    ∃ c w0, w = c :: w0 ∧ isWs c.r = false ∧ dropWs inp = (ws, c :: (w0 ++ rest)) ∧
      nextBody k ws c (w0 ++ rest) = .tok t ws w rest := by
  generalize hds : dropWs inp = p
  obtain ⟨ws0, s⟩ := p
  cases s with
  | nil => rw [next_of_dropWs_nil k inp ws0 hds] at h; simp at h
  | cons c cs =>
    rw [next_of_dropWs_cons k inp ws0 c cs hds] at h
    obtain ⟨rfl, w0, rfl, rfl, _⟩ := nextBody_respace k hk ws0 c cs t ws w rest h
    refine ⟨c, w0, rfl, ?_, rfl, h⟩
    have := dropWs_head inp c (w0 ++ rest) (by rw [hds])
    exact this

/-- one `Next` is unchanged if the skipped whitespace is replaced and what follows the token changes compatibly -/
theorem next_respace (k : Cls) (hk : k.wsNotAlnum) (inp : List Cell) (t : Tok) (ws w rest : List Cell)
    (h : next k inp = .tok t ws w rest) (ws' rest' : List Cell) (hws' : ∀ c ∈ ws', isWs c.r = true)
    (hg : gapOK rest rest') (hd : endsDangling k w = true → rest' = []) :
    next k (ws' ++ w ++ rest') = .tok t ws' w rest' := by
  obtain ⟨c, w0, rfl, hcw, hds, hb⟩ := next_split k hk inp t ws _ rest h
  obtain ⟨_, w1, hw1, hcs, hre⟩ := nextBody_respace k hk ws c _ t ws _ rest hb
  simp only [List.cons.injEq, true_and] at hw1
  subst hw1
  have hdw : dropWs (ws' ++ (c :: w0) ++ rest') = (ws', c :: (w0 ++ rest')) := by
    rw [List.append_assoc]
    apply dropWs_app ws' _ hws'
    intro c' cs' e
    simp only [List.cons_append, List.cons.injEq] at e
    rw [← e.1]; exact hcw
  rw [next_of_dropWs_cons k _ ws' c _ hdw]
  exact hre ws' rest' hg hd

theorem next_eof_respace (k : Cls) (ws' : List Cell) (hws' : ∀ c ∈ ws', isWs c.r = true) :
    next k ws' = .eof ws' := by
  apply next_of_dropWs_nil
  have := dropWs_app ws' [] hws' (by simp)
  simpa using this

theorem nextBody_err (k : Cls) (ws : List Cell) (c : Cell) (cs ws1 rest : List Cell)
    (h : nextBody k ws c cs = .err ws1 rest) :
    ws1 = ws ∧ rest = c :: cs ∧ ∀ ws', nextBody k ws' c cs = .err ws' (c :: cs) := by
  unfold nextBody at h
  split at h
  · simp at h
  · rename_i hc
    split at h
    · simp at h
    · rename_i hsym
      split at h
      · split at h
        · split at h <;> simp at h
        · simp at h
      · rename_i h45
        split at h
        · rename_i hq
          split at h
          · simp at h
          · rename_i hp
            simp only [Step.err.injEq] at h
            refine ⟨h.1.symm, h.2.symm, ?_⟩
            intro ws'
            unfold nextBody
            rw [if_neg hc]
            simp only [hsym, if_neg h45, if_pos hq, hp]
        · rename_i hq
          split at h
          · rename_i h47
            split at h
            · simp at h
            · rename_i hp
              simp only [Step.err.injEq] at h
              refine ⟨h.1.symm, h.2.symm, ?_⟩
              intro ws'
              unfold nextBody
              rw [if_neg hc]
              simp only [hsym, if_neg h45, if_neg hq, if_pos h47, hp]
          · rename_i h47
            simp only [Step.err.injEq] at h
            refine ⟨h.1.symm, h.2.symm, ?_⟩
            intro ws'
            unfold nextBody
            rw [if_neg hc]
            simp only [hsym, if_neg h45, if_neg hq, if_neg h47]

theorem next_err_respace (k : Cls) (inp ws rest : List Cell) (h : next k inp = .err ws rest)
    (ws' : List Cell) (hws' : ∀ c ∈ ws', isWs c.r = true) : next k (ws' ++ rest) = .err ws' rest := by
  generalize hds : dropWs inp = p
  obtain ⟨ws0, s⟩ := p
  cases s with
  | nil => rw [next_of_dropWs_nil k inp ws0 hds] at h; simp at h
  | cons c cs =>
    rw [next_of_dropWs_cons k inp ws0 c cs hds] at h
    obtain ⟨rfl, rfl, hre⟩ := nextBody_err k ws0 c cs ws rest h
    have hcw := dropWs_head inp c cs (by rw [hds])
    have hdw : dropWs (ws' ++ c :: cs) = (ws', c :: cs) := by
      apply dropWs_app ws' _ hws'
      intro c' cs' e
      simp only [List.cons.injEq] at e
      rw [← e.1]; exact hcw
    rw [next_of_dropWs_cons k _ ws' c _ hdw]
    exact hre ws'


/-! ### the cell-level token stream -/

/-- one lexed token with its layout: the whitespace skipped before it, its own cells, the token -/
structure Seg where
  ws : List Cell
  cells : List Cell
  tok : Tok
  deriving Repr, DecidableEq

/-- `lexAll`, but also recording each token's own cells:
    (segments, how it ended, whitespace before the end / before the offending cell, unread rest) -/
def lexCells (k : Cls) (inp : List Cell) : List Seg × End × List Cell × List Cell :=
  match h : next k inp with
  | .eof ws => ([], .eof, ws, [])
  | .err ws rest => ([], .err, ws, rest)
  | .tok t ws w rest =>
    have : rest.length < inp.length := by
      have := next_tok k inp t ws w rest h
      have h1 := congrArg List.length this.1
      have h2 : w.length ≠ 0 := by intro h0; exact this.2.1 (List.length_eq_zero_iff.mp h0)
      simp at h1; omega
    let (ts, e, tw, r) := lexCells k rest
    (⟨ws, w, t⟩ :: ts, e, tw, r)
termination_by inp.length

theorem lexCells_eof (k : Cls) (inp ws : List Cell) (h : next k inp = .eof ws) :
    lexCells k inp = ([], .eof, ws, []) := by
  rw [lexCells]
  split
  · rename_i ws1 h1; rw [h] at h1; simp at h1; rw [h1]
  · rename_i h1; rw [h] at h1; simp at h1
  · rename_i h1; rw [h] at h1; simp at h1

theorem lexCells_err (k : Cls) (inp ws rest : List Cell) (h : next k inp = .err ws rest) :
    lexCells k inp = ([], .err, ws, rest) := by
  rw [lexCells]
  split
  · rename_i h1; rw [h] at h1; simp at h1
  · rename_i ws1 r1 h1; rw [h] at h1; simp at h1; rw [h1.1, h1.2]
  · rename_i h1; rw [h] at h1; simp at h1

theorem lexCells_tok (k : Cls) (inp : List Cell) (t : Tok) (ws w rest : List Cell)
    (h : next k inp = .tok t ws w rest) :
    lexCells k inp = (⟨ws, w, t⟩ :: (lexCells k rest).1, (lexCells k rest).2) := by
  rw [lexCells]
  split
  · rename_i h1; rw [h] at h1; simp at h1
  · rename_i h1; rw [h] at h1; simp at h1
  · rename_i t1 ws1 w1 r1 h1
    rw [h] at h1
    simp only [Step.tok.injEq] at h1
    obtain ⟨rfl, rfl, rfl, rfl⟩ := h1
    rfl


/-! ### a dangling escape is always the very end of the input -/

theorem endsDangling_head (k : Cls) (c : Cell) (w0 : List Cell) (h : endsDangling k (c :: w0) = true) :
    (k.isAlnum c.r || isWild c.r || decide (c.r = 46) || decide (c.r = 45)) = true ∨ isEsc c.r = true := by
  rw [endsDangling.eq_def] at h
  simp only [] at h
  split at h
  · rename_i hc; exact Or.inl hc
  · split at h
    · rename_i he; exact Or.inr he
    · simp at h

theorem dangling_head_nonword (k : Cls) (c : Cell) (w0 : List Cell)
    (hc : ¬ (k.isAlnum c.r || isWild c.r || isEsc c.r) = true) (hd : endsDangling k (c :: w0) = true) :
    c.r = 46 ∨ c.r = 45 := by
  have := endsDangling_head k c w0 hd
  simp only [Bool.or_eq_true, decide_eq_true_eq, not_or] at hc this
  rcases this with (((h | h) | h) | h) | h
  · exact absurd h hc.1.1
  · exact absurd h hc.1.2
  · exact Or.inl h
  · exact Or.inr h
  · exact absurd h hc.2

/-- a token that ends in a dangling escape is the last thing in the input -/
theorem nextBody_dangling (k : Cls) (ws : List Cell) (c : Cell) (cs : List Cell)
    (t : Tok) (ws1 w rest : List Cell) (h : nextBody k ws c cs = .tok t ws1 w rest)
    (hd : endsDangling k w = true) : rest = [] := by
  unfold nextBody at h
  split at h
  · simp only [Step.tok.injEq] at h
    obtain ⟨rfl, rfl, rfl, rfl⟩ := h
    exact (lexWord_spec k _ (c :: cs) (Nat.le_refl _)).2.1 hd
  · rename_i hc
    split at h
    · rename_i ty hsym
      simp only [Step.tok.injEq] at h
      obtain ⟨rfl, rfl, rfl, rfl⟩ := h
      exfalso
      rcases dangling_head_nonword k c [] hc hd with e | e <;> rw [e] at hsym <;>
        simp [symbolOf, symbolTable, List.lookup] at hsym
    · rename_i hsym
      split at h
      · rename_i h45
        have hm : endsDangling k [c] = false := by
          rw [endsDangling.eq_def]; simp [h45]; rfl
        split at h
        · split at h
          · simp only [Step.tok.injEq] at h
            obtain ⟨rfl, rfl, rfl, rfl⟩ := h
            exact (lexWord_spec k _ _ (Nat.le_refl _)).2.1 hd
          · simp only [Step.tok.injEq] at h
            obtain ⟨rfl, rfl, rfl, rfl⟩ := h
            simp [hm] at hd
        · simp only [Step.tok.injEq] at h
          obtain ⟨rfl, rfl, rfl, rfl⟩ := h
          simp [hm] at hd
      · rename_i h45
        split at h
        · rename_i hq
          split at h
          · simp only [Step.tok.injEq] at h
            obtain ⟨rfl, rfl, rfl, rfl⟩ := h
            exfalso
            have := dangling_head_nonword k c _ hc hd
            simp only [Bool.or_eq_true, decide_eq_true_eq] at hq
            omega
          · simp at h
        · split at h
          · rename_i h47
            split at h
            · simp only [Step.tok.injEq] at h
              obtain ⟨rfl, rfl, rfl, rfl⟩ := h
              exfalso
              have := dangling_head_nonword k c _ hc hd
              omega
            · simp at h
          · simp at h

theorem next_dangling (k : Cls) (hk : k.wsNotAlnum) (inp : List Cell) (t : Tok) (ws w rest : List Cell)
    (h : next k inp = .tok t ws w rest) (hd : endsDangling k w = true) : rest = [] := by
  obtain ⟨c, w0, rfl, _, _, hb⟩ := next_split k hk inp t ws _ rest h
  exact nextBody_dangling k ws c _ t ws _ rest hb hd


/-! ### re-spacing the whole input -/

/-- the input laid out again: gap, token cells, gap, token cells, …, final whitespace, unread rest -/
def layout : List Seg → List (List Cell) → List Cell → List Cell → List Cell
  | s :: segs, g :: gs, tw, rest => g ++ s.cells ++ layout segs gs tw rest
  | _, _, tw, rest => tw ++ rest

/-- the same tokens with other whitespace in front of them -/
def regap : List Seg → List (List Cell) → List Seg
  | s :: segs, g :: gs => { s with ws := g } :: regap segs gs
  | _, _ => []

/-- `gs` is an admissible re-filling of every gap of `segs`: one gap per token, whitespace only, and a gap
    that was non-empty stays non-empty -/
def GapsKept : List Seg → List (List Cell) → Prop
  | [], [] => True
  | s :: segs, g :: gs => (∀ c ∈ g, isWs c.r = true) ∧ (s.ws ≠ [] → g ≠ []) ∧ GapsKept segs gs
  | _, _ => False

/-- the last token ends in a backslash that had nothing left to escape -/
def dangling (k : Cls) (segs : List Seg) : Bool :=
  match segs.getLast? with
  | some s => endsDangling k s.cells
  | none => false

theorem dangling_cons (k : Cls) (s : Seg) (segs : List Seg) (h : dangling k segs = true) :
    dangling k (s :: segs) = true := by
  cases segs with
  | nil => simp [dangling] at h
  | cons a as => simpa [dangling, List.getLast?_cons_cons] using h

theorem lexCells_nil (k : Cls) : lexCells k [] = ([], .eof, [], []) :=
  lexCells_eof k [] [] (by simp [next, dropWs])

theorem gapOK_cons_ws (inp : List Cell) (g : List Cell) (x : List Cell) (c : Cell) (y : List Cell)
    (hg : ∀ c ∈ g, isWs c.r = true) (hne : g = [] → inp = c :: y) : gapOK inp (g ++ c :: x) := by
  cases g with
  | nil => simp [gapOK, hne rfl]
  | cons a as => simp [gapOK, hg a (by simp)]

/-- the step of both inductions: a token, followed by an already re-spaced remainder -/
theorem lexCells_tok_respace (k : Cls) (hk : k.wsNotAlnum) (inp : List Cell) (t : Tok) (ws w rest : List Cell)
    (h : next k inp = .tok t ws w rest) (g : List Cell) (hg : ∀ c ∈ g, isWs c.r = true)
    (gs : List (List Cell)) (tw' : List Cell)
    (hkept : GapsKept (lexCells k rest).1 gs)
    (hdang : (lexCells k rest).2.1 = .eof → dangling k (⟨ws, w, t⟩ :: (lexCells k rest).1) = true → tw' = [])
    (ih : lexCells k (layout (lexCells k rest).1 gs tw' (lexCells k rest).2.2.2) =
            (regap (lexCells k rest).1 gs, (lexCells k rest).2.1, tw', (lexCells k rest).2.2.2) ∧
          gapOK rest (layout (lexCells k rest).1 gs tw' (lexCells k rest).2.2.2)) :
    lexCells k (layout (⟨ws, w, t⟩ :: (lexCells k rest).1) (g :: gs) tw' (lexCells k rest).2.2.2) =
      (regap (⟨ws, w, t⟩ :: (lexCells k rest).1) (g :: gs), (lexCells k rest).2.1, tw', (lexCells k rest).2.2.2) := by
  simp only [layout, regap]
  have hd : endsDangling k w = true → layout (lexCells k rest).1 gs tw' (lexCells k rest).2.2.2 = [] := by
    intro hdw
    have hr := next_dangling k hk inp t ws w rest h hdw
    subst hr
    rw [lexCells_nil] at hkept hdang ⊢
    cases gs with
    | nil =>
      have := hdang rfl (by simp [dangling, hdw])
      simp [layout, this]
    | cons _ _ => simp [GapsKept] at hkept
  have hn := next_respace k hk inp t ws w rest h g _ hg ih.2 hd
  rw [lexCells_tok k _ t g w _ hn, ih.1]

theorem lexCells_keep (k : Cls) (hk : k.wsNotAlnum) : ∀ (n : Nat) (inp : List Cell), inp.length < n →
    ∀ (gs : List (List Cell)) (tw' : List Cell),
      GapsKept (lexCells k inp).1 gs → (∀ c ∈ tw', isWs c.r = true) →
      ((lexCells k inp).2.1 = .err → (lexCells k inp).2.2.1 ≠ [] → tw' ≠ []) →
      ((lexCells k inp).2.1 = .eof → dangling k (lexCells k inp).1 = true → tw' = []) →
      lexCells k (layout (lexCells k inp).1 gs tw' (lexCells k inp).2.2.2) =
        (regap (lexCells k inp).1 gs, (lexCells k inp).2.1, tw', (lexCells k inp).2.2.2) ∧
      gapOK inp (layout (lexCells k inp).1 gs tw' (lexCells k inp).2.2.2) := by
  intro n
  induction n with
  | zero => intro inp h; omega
  | succ n ih =>
    intro inp hl gs tw' hkept htw herr hdang
    cases hnx : next k inp with
    | eof ws =>
      rw [lexCells_eof k inp ws hnx] at hkept herr hdang ⊢
      cases gs with
      | cons _ _ => simp [GapsKept] at hkept
      | nil =>
        simp only [layout, regap, List.append_nil]
        refine ⟨lexCells_eof k _ _ (next_eof_respace k tw' htw), ?_⟩
        cases tw' with
        | nil => simp [gapOK]
        | cons a as => simp [gapOK, htw a (by simp)]
    | err ws rest =>
      rw [lexCells_err k inp ws rest hnx] at hkept herr hdang ⊢
      have hne := next_err k inp ws rest hnx
      cases gs with
      | cons _ _ => simp [GapsKept] at hkept
      | nil =>
        simp only [layout, regap]
        refine ⟨lexCells_err k _ _ _ (next_err_respace k inp ws rest hnx tw' htw), ?_⟩
        cases rest with
        | nil => exact absurd rfl hne.2.2
        | cons c y =>
          apply gapOK_cons_ws inp tw' y c y htw
          intro e
          have : ws = [] := by
            cases ws with
            | nil => rfl
            | cons a as => exact absurd e (herr rfl (by simp))
          rw [← hne.1, this]; rfl
    | tok t ws w rest =>
      have hne := next_tok k inp t ws w rest hnx
      have hlen : rest.length < n := by
        have h1 := congrArg List.length hne.1
        have h2 : w.length ≠ 0 := by intro h0; exact hne.2.1 (List.length_eq_zero_iff.mp h0)
        simp at h1; omega
      rw [lexCells_tok k inp t ws w rest hnx] at hkept herr hdang ⊢
      cases gs with
      | nil => simp [GapsKept] at hkept
      | cons g gs =>
        simp only [GapsKept] at hkept
        simp only at herr hdang
        have ihr := ih rest hlen gs tw' hkept.2.2 htw herr
          (fun he hd => hdang he (dangling_cons k _ _ hd))
        refine ⟨lexCells_tok_respace k hk inp t ws w rest hnx g hkept.1 gs tw' hkept.2.2 hdang ihr, ?_⟩
        simp only [layout]
        obtain ⟨c, w0, rfl, _, _, _⟩ := next_split k hk inp t ws w rest hnx
        simp only [List.append_assoc, List.cons_append]
        apply gapOK_cons_ws inp g _ c (w0 ++ rest) hkept.1
        intro e
        have : ws = [] := by
          cases ws with
          | nil => rfl
          | cons a as => exact absurd e (hkept.2.1 (by simp))
        rw [← hne.1, this]; rfl


/-- `gs` is an admissible re-filling of the gaps of `segs`: one gap per token, whitespace only; the first gap
    (leading whitespace) is free, every later gap that was non-empty stays non-empty -/
def Refill : List Seg → List (List Cell) → Prop
  | [], [] => True
  | _ :: segs, g :: gs => (∀ c ∈ g, isWs c.r = true) ∧ GapsKept segs gs
  | _, _ => False

theorem lexCells_respace' (k : Cls) (hk : k.wsNotAlnum) (inp : List Cell)
    (gs : List (List Cell)) (tw' : List Cell)
    (hfill : Refill (lexCells k inp).1 gs) (htw : ∀ c ∈ tw', isWs c.r = true)
    (herr : (lexCells k inp).2.1 = .err → (lexCells k inp).1 ≠ [] → (lexCells k inp).2.2.1 ≠ [] → tw' ≠ [])
    (hdang : (lexCells k inp).2.1 = .eof → dangling k (lexCells k inp).1 = true → tw' = []) :
    lexCells k (layout (lexCells k inp).1 gs tw' (lexCells k inp).2.2.2) =
      (regap (lexCells k inp).1 gs, (lexCells k inp).2.1, tw', (lexCells k inp).2.2.2) := by
  cases hnx : next k inp with
  | eof ws =>
    rw [lexCells_eof k inp ws hnx] at hfill ⊢
    cases gs with
    | cons _ _ => simp [Refill] at hfill
    | nil =>
      simp only [layout, regap, List.append_nil]
      exact lexCells_eof k _ _ (next_eof_respace k tw' htw)
  | err ws rest =>
    rw [lexCells_err k inp ws rest hnx] at hfill ⊢
    cases gs with
    | cons _ _ => simp [Refill] at hfill
    | nil =>
      simp only [layout, regap]
      exact lexCells_err k _ _ _ (next_err_respace k inp ws rest hnx tw' htw)
  | tok t ws w rest =>
    rw [lexCells_tok k inp t ws w rest hnx] at hfill herr hdang ⊢
    cases gs with
    | nil => simp [Refill] at hfill
    | cons g gs =>
      simp only [Refill] at hfill
      simp only at herr hdang
      have ihr := lexCells_keep k hk _ rest (Nat.lt_succ_self _) gs tw' hfill.2 htw
        (fun he => herr he (by simp)) (fun he hd => hdang he (dangling_cons k _ _ hd))
      exact lexCells_tok_respace k hk inp t ws w rest hnx g hfill.1 gs tw' hfill.2 hdang ihr


/-! ### `lexCells` is `lexAll` with the cells remembered -/

theorem lexAll_eof (k : Cls) (inp ws : List Cell) (h : next k inp = .eof ws) :
    lexAll k inp = ([], .eof, ws, []) := by
  rw [lexAll]
  split
  · rename_i ws1 h1; rw [h] at h1; simp at h1; rw [h1]
  · rename_i h1; rw [h] at h1; simp at h1
  · rename_i h1; rw [h] at h1; simp at h1

theorem lexAll_err (k : Cls) (inp ws rest : List Cell) (h : next k inp = .err ws rest) :
    lexAll k inp = ([], .err, ws, rest) := by
  rw [lexAll]
  split
  · rename_i h1; rw [h] at h1; simp at h1
  · rename_i ws1 r1 h1; rw [h] at h1; simp at h1; rw [h1.1, h1.2]
  · rename_i h1; rw [h] at h1; simp at h1

theorem lexAll_tok (k : Cls) (inp : List Cell) (t : Tok) (ws w rest : List Cell)
    (h : next k inp = .tok t ws w rest) :
    lexAll k inp = ((ws, t) :: (lexAll k rest).1, (lexAll k rest).2) := by
  rw [lexAll]
  split
  · rename_i h1; rw [h] at h1; simp at h1
  · rename_i h1; rw [h] at h1; simp at h1
  · rename_i t1 ws1 w1 r1 h1
    rw [h] at h1
    simp only [Step.tok.injEq] at h1
    obtain ⟨rfl, rfl, rfl, rfl⟩ := h1
    rfl

/-- `lexAll` is `lexCells` with the token cells forgotten. -/
theorem lexAll_eq_lexCells (k : Cls) : ∀ (n : Nat) (inp : List Cell), inp.length < n →
    lexAll k inp = ((lexCells k inp).1.map (fun s => (s.ws, s.tok)), (lexCells k inp).2) := by
  intro n
  induction n with
  | zero => intro inp h; omega
  | succ n ih =>
    intro inp hl
    cases hnx : next k inp with
    | eof ws => rw [lexAll_eof k inp ws hnx, lexCells_eof k inp ws hnx]; rfl
    | err ws rest => rw [lexAll_err k inp ws rest hnx, lexCells_err k inp ws rest hnx]; rfl
    | tok t ws w rest =>
      have hne := next_tok k inp t ws w rest hnx
      have hlen : rest.length < n := by
        have h1 := congrArg List.length hne.1
        have h2 : w.length ≠ 0 := by intro h0; exact hne.2.1 (List.length_eq_zero_iff.mp h0)
        simp at h1; omega
      rw [lexAll_tok k inp t ws w rest hnx, lexCells_tok k inp t ws w rest hnx, ih rest hlen]
      rfl

/-- what the segments are: the input is exactly their layout with their own gaps; every gap is whitespace;
    every token is non-empty and its text is the bytes of its cells -/
theorem lexCells_spec (k : Cls) : ∀ (n : Nat) (inp : List Cell), inp.length < n →
    layout (lexCells k inp).1 ((lexCells k inp).1.map (·.ws)) (lexCells k inp).2.2.1 (lexCells k inp).2.2.2 = inp ∧
    (∀ s ∈ (lexCells k inp).1, (∀ c ∈ s.ws, isWs c.r = true) ∧ s.cells ≠ [] ∧ s.tok.val = cellsBytes s.cells) ∧
    (∀ c ∈ (lexCells k inp).2.2.1, isWs c.r = true) ∧
    ((lexCells k inp).2.1 = .eof → (lexCells k inp).2.2.2 = []) ∧
    ((lexCells k inp).2.1 = .err → (lexCells k inp).2.2.2 ≠ []) := by
  intro n
  induction n with
  | zero => intro inp h; omega
  | succ n ih =>
    intro inp hl
    cases hnx : next k inp with
    | eof ws =>
      have := next_eof k inp ws hnx
      rw [lexCells_eof k inp ws hnx]
      simp [layout, this.1]
      exact fun c hc => this.2 c (this.1 ▸ hc)
    | err ws rest =>
      have := next_err k inp ws rest hnx
      rw [lexCells_err k inp ws rest hnx]
      simp [layout, this.1]
      exact ⟨this.2.1, this.2.2⟩
    | tok t ws w rest =>
      have hne := next_tok k inp t ws w rest hnx
      have hlen : rest.length < n := by
        have h1 := congrArg List.length hne.1
        have h2 : w.length ≠ 0 := by intro h0; exact hne.2.1 (List.length_eq_zero_iff.mp h0)
        simp at h1; omega
      have ihr := ih rest hlen
      rw [lexCells_tok k inp t ws w rest hnx]
      refine ⟨?_, ?_, ihr.2.2⟩
      · simp only [List.map_cons, layout]
        rw [ihr.1, hne.1]
      · intro s hs
        simp only [List.mem_cons] at hs
        rcases hs with rfl | hs
        · exact ⟨hne.2.2.2, hne.2.1, hne.2.2.1⟩
        · exact ihr.2.1 s hs

/-! ### the main theorems, with the hypotheses in index form -/

theorem gapsKept_of_index : ∀ (segs : List Seg) (gs : List (List Cell)), gs.length = segs.length →
    (∀ g ∈ gs, ∀ c ∈ g, isWs c.r = true) →
    (∀ (i : Nat) (h : i < segs.length) (h' : i < gs.length), segs[i].ws ≠ [] → gs[i] ≠ []) → GapsKept segs gs
  | [], [], _, _, _ => trivial
  | [], _ :: _, h, _, _ => by simp at h
  | _ :: _, [], h, _, _ => by simp at h
  | s :: segs, g :: gs, hl, hw, hk => by
    refine ⟨hw g (by simp), hk 0 (by simp) (by simp), gapsKept_of_index segs gs (by simpa using hl) ?_ ?_⟩
    · exact fun g' hg' => hw g' (by simp [hg'])
    · intro i h h'
      exact hk (i + 1) (by simp; omega) (by simp; omega)

theorem refill_of_index (segs : List Seg) (gs : List (List Cell)) (hl : gs.length = segs.length)
    (hw : ∀ g ∈ gs, ∀ c ∈ g, isWs c.r = true)
    (hk : ∀ (i : Nat) (h : i < segs.length) (h' : i < gs.length), 0 < i → segs[i].ws ≠ [] → gs[i] ≠ []) :
    Refill segs gs := by
  cases segs with
  | nil =>
    cases gs with
    | nil => trivial
    | cons _ _ => simp at hl
  | cons s segs =>
    cases gs with
    | nil => simp at hl
    | cons g gs =>
      refine ⟨hw g (by simp), gapsKept_of_index segs gs (by simpa using hl) ?_ ?_⟩
      · exact fun g' hg' => hw g' (by simp [hg'])
      · intro i h h'
        exact hk (i + 1) (by simp; omega) (by simp; omega) (by omega)

theorem regap_tok : ∀ (segs : List Seg) (gs : List (List Cell)), gs.length = segs.length →
    (regap segs gs).map (·.tok) = segs.map (·.tok) ∧ (regap segs gs).map (·.cells) = segs.map (·.cells) ∧
    (regap segs gs).map (·.ws) = gs
  | [], [], _ => by simp [regap]
  | [], _ :: _, h => by simp at h
  | _ :: _, [], h => by simp at h
  | s :: segs, g :: gs, hl => by
    have := regap_tok segs gs (by simpa using hl)
    simp [regap, this.1, this.2.1, this.2.2]


/-- THEOREM W, cell level (see the head of this file): re-filling the gaps changes only the recorded gaps. -/
theorem lexCells_respace (k : Cls) (hk : k.wsNotAlnum) (inp : List Cell)
    (segs : List Seg) (e : End) (tw rest : List Cell) (h : lexCells k inp = (segs, e, tw, rest))
    (gs : List (List Cell)) (tw' : List Cell)
    (hlen : gs.length = segs.length)
    (hgs : ∀ g ∈ gs, ∀ c ∈ g, isWs c.r = true)
    (hkeep : ∀ (i : Nat) (h : i < segs.length) (h' : i < gs.length), 0 < i → segs[i].ws ≠ [] → gs[i] ≠ [])
    (htw : ∀ c ∈ tw', isWs c.r = true)
    (herr : e = .err → segs ≠ [] → tw ≠ [] → tw' ≠ [])
    (hdang : e = .eof → dangling k segs = true → tw' = []) :
    lexCells k (layout segs gs tw' rest) = (regap segs gs, e, tw', rest) := by
  have := lexCells_respace' k hk inp gs tw'
  rw [h] at this
  exact this (refill_of_index segs gs hlen hgs hkeep) htw herr hdang

/-- THEOREM W for `lexAll`: the re-spaced input has the same tokens (type and text), ends the same way, and — in
    the error case — leaves the same unread rest. -/
theorem respace_same_tokens (k : Cls) (hk : k.wsNotAlnum) (inp : List Cell)
    (segs : List Seg) (e : End) (tw rest : List Cell) (h : lexCells k inp = (segs, e, tw, rest))
    (gs : List (List Cell)) (tw' : List Cell)
    (hlen : gs.length = segs.length)
    (hgs : ∀ g ∈ gs, ∀ c ∈ g, isWs c.r = true)
    (hkeep : ∀ (i : Nat) (h : i < segs.length) (h' : i < gs.length), 0 < i → segs[i].ws ≠ [] → gs[i] ≠ [])
    (htw : ∀ c ∈ tw', isWs c.r = true)
    (herr : e = .err → segs ≠ [] → tw ≠ [] → tw' ≠ [])
    (hdang : e = .eof → dangling k segs = true → tw' = []) :
    (lexAll k (layout segs gs tw' rest)).1.map (·.2) = (lexAll k inp).1.map (·.2) ∧
    (lexAll k (layout segs gs tw' rest)).2.1 = (lexAll k inp).2.1 ∧
    (lexAll k (layout segs gs tw' rest)).2.2.2 = (lexAll k inp).2.2.2 := by
  have h' := lexCells_respace k hk inp segs e tw rest h gs tw' hlen hgs hkeep htw herr hdang
  rw [lexAll_eq_lexCells k _ _ (Nat.lt_succ_self _), lexAll_eq_lexCells k _ inp (Nat.lt_succ_self _), h, h']
  refine ⟨?_, rfl, rfl⟩
  simp only [List.map_map]
  exact (regap_tok segs gs hlen).1

/-- the executable form of the known exception: NOT (ended at EOF in a token with a dangling escape) -/
def noDangling (k : Cls) (segs : List Seg) (e : End) : Bool := !(decide (e = .eof) && dangling k segs)

/-- THEOREM W with the exception stated as `noDangling`, and the "fails whenever the original fails" part spelled
    out: same tokens, and the variant is a lexical error iff the original is, at the same unread rest. -/
theorem respace_outcome (k : Cls) (hk : k.wsNotAlnum) (inp : List Cell)
    (segs : List Seg) (e : End) (tw rest : List Cell) (h : lexCells k inp = (segs, e, tw, rest))
    (gs : List (List Cell)) (tw' : List Cell)
    (hlen : gs.length = segs.length)
    (hgs : ∀ g ∈ gs, ∀ c ∈ g, isWs c.r = true)
    (hkeep : ∀ (i : Nat) (h : i < segs.length) (h' : i < gs.length), 0 < i → segs[i].ws ≠ [] → gs[i] ≠ [])
    (htw : ∀ c ∈ tw', isWs c.r = true)
    (herr : e = .err → segs ≠ [] → tw ≠ [] → tw' ≠ [])
    (hnd : noDangling k segs e = true) :
    (lexAll k (layout segs gs tw' rest)).1.map (·.2) = (lexAll k inp).1.map (·.2) ∧
    ((lexAll k (layout segs gs tw' rest)).2.1 = .err ↔ (lexAll k inp).2.1 = .err) ∧
    (lexAll k (layout segs gs tw' rest)).2.2.2 = (lexAll k inp).2.2.2 := by
  have hd : e = .eof → dangling k segs = true → tw' = [] := by
    intro h1 h2
    simp [noDangling, h1, h2] at hnd
  have := respace_same_tokens k hk inp segs e tw rest h gs tw' hlen hgs hkeep htw herr hd
  exact ⟨this.1, by rw [this.2.1], this.2.2⟩

end GoLucene
