import GoLucene.Proofs.LawsJsonScan
/-
  Laws, scanner / structure side, part 2: `splitLoop` / `pairUp` / `parse1` and `numsLoop` / `anyDecodable` on the texts
  the encoder writes.
-/
set_option linter.unusedSimpArgs false
set_option linter.unusedVariables false

namespace GoLucene
namespace Laws

open Json Num JsonRoundTrip

/-! ## `trim` -/

theorem scan_trim_noWs (t : Bytes) (h : ∀ c ∈ t, isJsonWs c = false) : trim t = t := by
  have e : ∀ l : Bytes, (∀ c ∈ l, isJsonWs c = false) → l.dropWhile isJsonWs = l := by
    intro l hl
    cases l with
    | nil => rfl
    | cons a m => rw [List.dropWhile_cons, hl a (by simp)]; rfl
  unfold trim
  rw [e t h, e t.reverse (fun c hc => h c (by simpa using hc)), List.reverse_reverse]

/-- a text whose first and last bytes are not JSON whitespace is its own trimmed form -/
theorem scan_trim_id (t : Bytes) (c e : UInt8) (h1 : t.head? = some c) (hc : isJsonWs c = false)
    (h2 : t.getLast? = some e) (he : isJsonWs e = false) : trim t = t := by
  unfold trim
  cases t with
  | nil => simp at h1
  | cons a m =>
    simp only [List.head?_cons, Option.some.injEq] at h1
    subst h1
    have e1 : (a :: m).dropWhile isJsonWs = a :: m := by rw [List.dropWhile_cons, hc]; rfl
    rw [e1]
    have h3 : (a :: m).reverse.head? = some e := by rw [List.head?_reverse]; exact h2
    cases hr : (a :: m).reverse with
    | nil => rw [hr] at h3; simp at h3
    | cons x y =>
      rw [hr] at h3
      simp only [List.head?_cons, Option.some.injEq] at h3
      subst h3
      rw [List.dropWhile_cons, he]
      simp only [Bool.false_eq_true, if_false]
      rw [← hr, List.reverse_reverse]

/-! ## the top-level dispatch of `parse1` -/

theorem parse1_eq (c : UInt8) (rest : Bytes) (hv : valid (c :: rest) = true) (ht : trim (c :: rest) = c :: rest) :
    parse1 (c :: rest) =
      if c == 0x22 then (decodeString (c :: rest)).map Top.str
      else if c == 0x5B then (splitLoop false false 0 [] [] rest).map Top.arr
      else if c == 0x7B then ((splitLoop false false 0 [] [] rest).bind (pairUp [])).map Top.obj
      else if c == 0x74 then some (.bool true)
      else if c == 0x66 then some (.bool false)
      else if c == 0x6E then some .null
      else some (.num (c :: rest)) := by
  unfold parse1
  simp only [hv, ht, Bool.not_true, Bool.false_eq_true, if_false]

/-! ## numbers -/

theorem numChar_noWs : ∀ c : UInt8, isNumChar c = true → isJsonWs c = false := by
  apply u8_all; decide +kernel

theorem numHead_facts : ∀ c : UInt8, (c = 45 ∨ isDigit c = true) → (c == 0x22) = false ∧ (c == 0x5B) = false ∧
    (c == 0x7B) = false ∧ (c == 0x74) = false ∧ (c == 0x66) = false ∧ (c == 0x6E) = false ∧
    (c == 0x2D || isDigit c) = true := by
  apply u8_all; decide +kernel

theorem trim_jsonNum (t : Bytes) (h : JsonNum t) : trim t = t :=
  scan_trim_noWs t (fun c hc => numChar_noWs c (scan_jsonNum_chars h c hc))

theorem parse1_jsonNum (t : Bytes) (h : JsonNum t) : parse1 t = some (.num t) := by
  have hv := valid_jsonNum t h
  have ht := trim_jsonNum t h
  obtain ⟨c, m, rfl, hc⟩ := jsonNum_head h
  obtain ⟨f1, f2, f3, f4, f5, f6, _⟩ := numHead_facts c (hc.imp id isDigit_of_dig)
  rw [parse1_eq c m hv ht]
  simp only [f1, f2, f3, f4, f5, f6, Bool.false_eq_true, if_false]

theorem parse_int : ∀ i, parse1 (fmtInt i) = some (.num (fmtInt i)) :=
  fun i => parse1_jsonNum _ (jsonNum_fmtInt i)

theorem parse_flt (hflt : ∀ (f : F64) (t : Bytes), fmtJSON f = some t → JsonNum t) :
    ∀ f t, fmtJSON f = some t → parse1 t = some (.num t) :=
  fun f t h => parse1_jsonNum t (hflt f t h)

/-! ## `numsLoop` -/

theorem nums_SB (nk : Bytes → Bool) {o : Bytes} (h : SB o) (rest : Bytes) :
    numsLoop nk true false none (o ++ rest) = numsLoop nk true false none rest := by
  have plain : ∀ (c : UInt8) (r : Bytes), plainOK c = true →
      numsLoop nk true false none (c :: r) = numsLoop nk true false none r := by
    intro c r hc
    simp only [plainOK, Bool.and_eq_true, bne_iff_ne, Bool.not_eq_true', decide_eq_false_iff_not] at hc
    obtain ⟨⟨h1, h2⟩, _⟩ := hc
    simp only [numsLoop, if_true, Bool.false_eq_true, if_false, beq_iff_eq, h1, h2]
  have bs : ∀ (x : UInt8) (r : Bytes),
      numsLoop nk true false none (0x5C :: x :: r) = numsLoop nk true false none r := by
    intro x r
    simp [numsLoop]
  have hexp : ∀ c : UInt8, isHexDigit c = true → plainOK c = true := by
    apply u8_all; decide +kernel
  induction h with
  | nil => rfl
  | plain c o hc _ ih => rw [List.cons_append, plain c _ hc, ih]
  | esc x o _ _ ih => rw [List.cons_append, List.cons_append, bs, ih]
  | escU h1 h2 h3 h4 o e1 e2 e3 e4 _ ih =>
    simp only [List.cons_append]
    rw [bs, plain h1 _ (hexp h1 e1), plain h2 _ (hexp h2 e2), plain h3 _ (hexp h3 e3), plain h4 _ (hexp h4 e4), ih]

theorem nums_strLit (nk : Bytes → Bool) {o : Bytes} (h : SB o) (rest : Bytes) :
    numsLoop nk false false none (34 :: (o ++ 34 :: rest)) = numsLoop nk false false none rest := by
  have s1 : ∀ r, numsLoop nk false false none (34 :: r) = numsLoop nk true false none r := by
    intro r; simp [numsLoop]
  have s2 : ∀ r, numsLoop nk true false none (34 :: r) = numsLoop nk false false none r := by
    intro r; simp [numsLoop]
  rw [s1, nums_SB nk h, s2]

theorem any_str : ∀ nk s, anyDecodable nk (encodeString s) = true := by
  intro nk s
  obtain ⟨o, ho, h⟩ := encodeString_SB s
  unfold anyDecodable
  rw [valid_str s, h, nums_strLit nk ho []]
  rfl

theorem nums_numChars (nk : Bytes → Bool) : ∀ (m n : Bytes), (∀ c ∈ m, isNumChar c = true) →
    numsLoop nk false false (some n) m = nk (n.reverse ++ m)
  | [], n, _ => by simp [numsLoop]
  | c :: m, n, h => by
    have hc := h c (by simp)
    rw [numsLoop]
    simp only [Bool.false_eq_true, if_false, hc, if_true]
    rw [nums_numChars nk m (c :: n) (fun x hx => h x (by simp [hx]))]
    simp

theorem any_jsonNum (nk : Bytes → Bool) (t : Bytes) (h : JsonNum t) : anyDecodable nk t = nk t := by
  have hch := scan_jsonNum_chars h
  unfold anyDecodable
  rw [valid_jsonNum t h]
  obtain ⟨c, m, rfl, hc⟩ := jsonNum_head h
  obtain ⟨f1, _, _, _, _, _, f7⟩ := numHead_facts c (hc.imp id isDigit_of_dig)
  rw [numsLoop]
  simp only [Bool.false_eq_true, if_false, f1, f7, if_true, Bool.true_and]
  rw [nums_numChars nk m [c] (fun x hx => hch x (by simp [hx]))]
  rfl

theorem any_int : ∀ nk i, anyDecodable nk (fmtInt i) = nk (fmtInt i) :=
  fun nk i => any_jsonNum nk _ (jsonNum_fmtInt i)

theorem any_flt (hflt : ∀ (f : F64) (t : Bytes), fmtJSON f = some t → JsonNum t) :
    ∀ nk f t, fmtJSON f = some t → anyDecodable nk t = nk t :=
  fun nk f t h => any_jsonNum nk t (hflt f t h)

/-! ## `splitLoop`: values pass through -/

/-- at every nesting depth, `v` is copied to the current item -/
def SplitPass (v : Bytes) : Prop :=
  ∀ (D : Nat) (cur : Bytes) (done : List Bytes) (rest : Bytes),
    splitLoop false false D cur done (v ++ rest) = splitLoop false false D (v.reverse ++ cur) done rest

/-- inside a nested array / object, `v` is copied to the current item (`,` and `:` included) -/
def SplitPassIn (v : Bytes) : Prop :=
  ∀ (D : Nat) (cur : Bytes) (done : List Bytes) (rest : Bytes),
    splitLoop false false (D + 1) cur done (v ++ rest) = splitLoop false false (D + 1) (v.reverse ++ cur) done rest

theorem SplitPass.inner {v : Bytes} (h : SplitPass v) : SplitPassIn v := fun D => h (D + 1)

theorem SplitPassIn.nil : SplitPassIn [] := fun _ _ _ _ => rfl

theorem SplitPassIn.append {x y : Bytes} (hx : SplitPassIn x) (hy : SplitPassIn y) : SplitPassIn (x ++ y) := by
  intro D cur done rest
  rw [List.append_assoc, hx, hy, List.reverse_append, List.append_assoc]

theorem splitLoop_cons (inStr esc : Bool) (depth : Nat) (cur : Bytes) (done : List Bytes) (c : UInt8) (rest : Bytes) :
    splitLoop inStr esc depth cur done (c :: rest) =
      if inStr then
        if esc then splitLoop true false depth (c :: cur) done rest
        else if c == 0x5C then splitLoop true true depth (c :: cur) done rest
        else if c == 0x22 then splitLoop false false depth (c :: cur) done rest
        else splitLoop true false depth (c :: cur) done rest
      else if c == 0x22 then splitLoop true false depth (c :: cur) done rest
      else if c == 0x5B || c == 0x7B then splitLoop false false (depth + 1) (c :: cur) done rest
      else if c == 0x5D || c == 0x7D then
        match depth with
        | 0 => if rest.isEmpty then some (finishItems cur done) else none
        | d + 1 => splitLoop false false d (c :: cur) done rest
      else
        match depth with
        | 0 =>
          if c == 0x2C || c == 0x3A then splitLoop false false 0 [] (cur.reverse :: done) rest
          else if isJsonWs c then splitLoop false false 0 cur done rest
          else splitLoop false false 0 (c :: cur) done rest
        | _ => splitLoop false false depth (c :: cur) done rest := by
  rw [splitLoop.eq_def]
  rfl

/-- a byte of a number / `true` / `false` -/
def valChar (c : UInt8) : Bool :=
  c != 0x22 && c != 0x5B && c != 0x7B && c != 0x5D && c != 0x7D && c != 0x2C && c != 0x3A && !isJsonWs c

theorem valChar_facts : ∀ c : UInt8, valChar c = true → (c == 0x22) = false ∧ (c == 0x5B || c == 0x7B) = false ∧
    (c == 0x5D || c == 0x7D) = false ∧ (c == 0x2C || c == 0x3A) = false ∧ isJsonWs c = false := by
  apply u8_all; decide +kernel

theorem split_valChar (c : UInt8) (h : valChar c = true) (D : Nat) (cur : Bytes) (done : List Bytes) (rest : Bytes) :
    splitLoop false false D cur done (c :: rest) = splitLoop false false D (c :: cur) done rest := by
  obtain ⟨f1, f2, f3, f4, f5⟩ := valChar_facts c h
  rw [splitLoop_cons]
  simp only [Bool.false_eq_true, if_false, f1, f2, f3]
  cases D with
  | zero => simp only [f4, f5, Bool.false_eq_true, if_false]
  | succ D => rfl

theorem split_valChars : ∀ (v : Bytes), (∀ c ∈ v, valChar c = true) → SplitPass v
  | [], _ => fun _ _ _ _ => rfl
  | c :: v, h => by
    intro D cur done rest
    rw [List.cons_append, split_valChar c (h c (by simp)),
      split_valChars v (fun x hx => h x (by simp [hx])) D (c :: cur) done rest]
    simp

theorem numChar_valChar : ∀ c : UInt8, isNumChar c = true → valChar c = true := by
  apply u8_all; decide +kernel

theorem split_jsonNum {t : Bytes} (h : JsonNum t) : SplitPass t :=
  split_valChars t (fun c hc => numChar_valChar c (scan_jsonNum_chars h c hc))

theorem split_bool (v : Bool) : SplitPass (boolText v) := by
  apply split_valChars
  cases v
  · simp only [boolText, Bool.false_eq_true, if_false, scan_b_false]; decide
  · simp only [boolText, if_true, scan_b_true]; decide

/-- inside a string literal -/
theorem split_SB {o : Bytes} (h : SB o) (D : Nat) (done : List Bytes) (rest : Bytes) : ∀ (cur : Bytes),
    splitLoop true false D cur done (o ++ rest) = splitLoop true false D (o.reverse ++ cur) done rest := by
  have plain : ∀ (c : UInt8) (r cur : Bytes), plainOK c = true →
      splitLoop true false D cur done (c :: r) = splitLoop true false D (c :: cur) done r := by
    intro c r cur hc
    simp only [plainOK, Bool.and_eq_true, bne_iff_ne, Bool.not_eq_true', decide_eq_false_iff_not] at hc
    obtain ⟨⟨h1, h2⟩, _⟩ := hc
    rw [splitLoop_cons]
    simp only [if_true, Bool.false_eq_true, if_false, beq_iff_eq, h1, h2]
  have bs : ∀ (x : UInt8) (r cur : Bytes),
      splitLoop true false D cur done (0x5C :: x :: r) = splitLoop true false D (x :: 0x5C :: cur) done r := by
    intro x r cur
    rw [splitLoop_cons]
    simp only [if_true, Bool.false_eq_true, if_false, beq_self_eq_true]
    rw [splitLoop_cons]
    simp only [if_true]
  have hexp : ∀ c : UInt8, isHexDigit c = true → plainOK c = true := by
    apply u8_all; decide +kernel
  induction h with
  | nil => intro cur; rfl
  | plain c o hc _ ih =>
    intro cur
    rw [List.cons_append, plain c _ _ hc, ih]; simp
  | esc x o _ _ ih =>
    intro cur
    rw [List.cons_append, List.cons_append, bs, ih]; simp
  | escU h1 h2 h3 h4 o e1 e2 e3 e4 _ ih =>
    intro cur
    simp only [List.cons_append]
    rw [bs, plain h1 _ _ (hexp h1 e1), plain h2 _ _ (hexp h2 e2), plain h3 _ _ (hexp h3 e3),
      plain h4 _ _ (hexp h4 e4), ih]
    simp

theorem split_strLit {o : Bytes} (h : SB o) : SplitPass (34 :: (o ++ [34])) := by
  intro D cur done rest
  have s1 : ∀ r cur, splitLoop false false D cur done (34 :: r) = splitLoop true false D (34 :: cur) done r := by
    intro r cur; rw [splitLoop_cons]; simp
  have s2 : ∀ r cur, splitLoop true false D cur done (34 :: r) = splitLoop false false D (34 :: cur) done r := by
    intro r cur; rw [splitLoop_cons]; simp
  simp only [List.cons_append, List.append_assoc, List.nil_append]
  rw [s1, split_SB h, s2]
  simp

theorem split_comma : SplitPassIn [44] := by
  intro D cur done rest
  show splitLoop false false (D + 1) cur done (44 :: rest) = _
  rw [splitLoop_cons]; simp

theorem split_colon : SplitPassIn [58] := by
  intro D cur done rest
  show splitLoop false false (D + 1) cur done (58 :: rest) = _
  rw [splitLoop_cons]; simp

theorem split_brackets {body : Bytes} (h : SplitPassIn body) :
    SplitPass (91 :: (body ++ [93])) ∧ SplitPass (123 :: (body ++ [125])) := by
  have o1 : ∀ D r cur done, splitLoop false false D cur done (91 :: r) = splitLoop false false (D + 1) (91 :: cur) done r := by
    intro D r cur done; rw [splitLoop_cons]; simp
  have o2 : ∀ D r cur done, splitLoop false false D cur done (123 :: r) = splitLoop false false (D + 1) (123 :: cur) done r := by
    intro D r cur done; rw [splitLoop_cons]; simp
  have c1 : ∀ D r cur done, splitLoop false false (D + 1) cur done (93 :: r) = splitLoop false false D (93 :: cur) done r := by
    intro D r cur done; rw [splitLoop_cons]; simp
  have c2 : ∀ D r cur done, splitLoop false false (D + 1) cur done (125 :: r) = splitLoop false false D (125 :: cur) done r := by
    intro D r cur done; rw [splitLoop_cons]; simp
  constructor
  · intro D cur done rest
    simp only [List.cons_append, List.append_assoc, List.nil_append]
    rw [o1, h, c1]; simp
  · intro D cur done rest
    simp only [List.cons_append, List.append_assoc, List.nil_append]
    rw [o2, h, c2]; simp

theorem split_tailC : ∀ (vs : List Bytes), (∀ v ∈ vs, SplitPassIn v) → SplitPassIn (tailC vs)
  | [], _ => .nil
  | v :: vs, h => by
    have : tailC (v :: vs) = [44] ++ (v ++ tailC vs) := rfl
    rw [this]
    exact split_comma.append ((h v (by simp)).append (split_tailC vs (fun x hx => h x (by simp [hx]))))

theorem split_joinC (vs : List Bytes) (h : ∀ v ∈ vs, SplitPassIn v) : SplitPassIn (joinC vs) := by
  cases vs with
  | nil => exact .nil
  | cons v vs =>
    rw [joinC_cons]
    exact (h v (by simp)).append (split_tailC vs (fun x hx => h x (by simp [hx])))

/-- the text of a member key -/
def keyText (k : String) : Bytes := 34 :: (b k ++ [34])

theorem member_eq (kv : String × Bytes) : member kv = keyText kv.1 ++ ([58] ++ kv.2) := by
  simp [member, jsonKey, keyText]

theorem split_key (k : String) (hk : k ∈ keyNames) : SplitPass (keyText k) := split_strLit (key_SB k hk)

theorem split_member (kv : String × Bytes) (hk : kv.1 ∈ keyNames) (hv : SplitPass kv.2) : SplitPassIn (member kv) := by
  rw [member_eq]
  exact (split_key kv.1 hk).inner.append (split_colon.append hv.inner)

theorem split_enc (hflt : ∀ (f : F64) (t : Bytes), fmtJSON f = some t → JsonNum t) {n : Nat} {t : Bytes}
    (h : Enc n t) : SplitPass t := by
  induction h with
  | leaf n t hl =>
    rcases scan_leaf_cases hflt hl with ⟨o, ho, rfl⟩ | hn
    · exact split_strLit ho
    · exact split_jsonNum hn
  | bool n v => exact split_bool v
  | arr n vs _ ih =>
    rw [arrText_eq]
    exact (split_brackets (split_joinC vs (fun v hv => (ih v hv).inner))).1
  | obj n kvs hne hk _ ih =>
    have : objText kvs = 123 :: (joinC (kvs.map member) ++ [125]) := by
      simp [objText, b_lbrace, b_rbrace]
    rw [this]
    refine (split_brackets (split_joinC _ ?_)).2
    intro m hm
    obtain ⟨kv, hkv, rfl⟩ := List.mem_map.mp hm
    exact split_member kv (hk kv hkv) (ih kv hkv)

/-! ## `splitLoop` at the top level of an array / object body; `pairUp` -/

theorem split0_sep (c : UInt8) (hc : c = 44 ∨ c = 58) (cur : Bytes) (done : List Bytes) (rest : Bytes) :
    splitLoop false false 0 cur done (c :: rest) = splitLoop false false 0 [] (cur.reverse :: done) rest := by
  rw [splitLoop_cons]
  rcases hc with rfl | rfl <;> simp

theorem split0_close (c : UInt8) (hc : c = 93 ∨ c = 125) (cur : Bytes) (done : List Bytes) :
    splitLoop false false 0 cur done [c] = some (finishItems cur done) := by
  rw [splitLoop_cons]
  rcases hc with rfl | rfl <;> simp

theorem finishItems_ne (cur : Bytes) (done : List Bytes) (h : cur ≠ [] ∨ done ≠ []) :
    finishItems cur done = done.reverse ++ [cur.reverse] := by
  unfold finishItems
  have : (cur.isEmpty && done.isEmpty) = false := by
    rcases h with h | h
    · cases cur with
      | nil => exact absurd rfl h
      | cons _ _ => rfl
    · cases done with
      | nil => exact absurd rfl h
      | cons _ _ => simp
  rw [this]
  simp

theorem split_items : ∀ (vs : List Bytes) (v : Bytes) (done : List Bytes), SplitPass v → v ≠ [] →
    (∀ x ∈ vs, SplitPass x ∧ x ≠ []) →
    splitLoop false false 0 [] done (v ++ (tailC vs ++ [93])) = some (done.reverse ++ v :: vs)
  | [], v, done, hv, hne, _ => by
    show splitLoop false false 0 [] done (v ++ [93]) = _
    rw [hv, split0_close 93 (.inl rfl), finishItems_ne _ _ (.inl (by simpa using hne))]
    simp
  | x :: vs, v, done, hv, hne, h => by
    show splitLoop false false 0 [] done (v ++ (44 :: (x ++ tailC vs) ++ [93])) = _
    rw [List.cons_append, hv, split0_sep 44 (.inl rfl), List.append_assoc,
      split_items vs x _ (h x (by simp)).1 (h x (by simp)).2 (fun y hy => h y (by simp [hy]))]
    simp

/-- key texts and value texts of the members, in order -/
def flatKV : List (String × Bytes) → List Bytes
  | [] => []
  | kv :: r => keyText kv.1 :: kv.2 :: flatKV r

theorem split_members : ∀ (kvs : List (String × Bytes)) (kv : String × Bytes) (done : List Bytes),
    (∀ x ∈ kv :: kvs, x.1 ∈ keyNames) → (∀ x ∈ kv :: kvs, SplitPass x.2) →
    splitLoop false false 0 [] done (member kv ++ (tailC (kvs.map member) ++ [125])) =
      some (done.reverse ++ flatKV (kv :: kvs))
  | [], kv, done, hk, hv => by
    show splitLoop false false 0 [] done (member kv ++ [125]) = _
    rw [member_eq, List.append_assoc, split_key kv.1 (hk kv (by simp)), List.append_assoc, List.singleton_append,
      split0_sep 58 (.inr rfl), hv kv (by simp), split0_close 125 (.inr rfl), finishItems_ne _ _ (.inr (by simp))]
    simp [flatKV]
  | x :: kvs, kv, done, hk, hv => by
    show splitLoop false false 0 [] done (member kv ++ (44 :: (member x ++ tailC (kvs.map member)) ++ [125])) = _
    rw [member_eq kv, List.append_assoc, split_key kv.1 (hk kv (by simp)), List.append_assoc, List.singleton_append,
      split0_sep 58 (.inr rfl), hv kv (by simp), List.cons_append, split0_sep 44 (.inl rfl), List.append_assoc,
      split_members kvs x _ (fun y hy => hk y (by simp [List.mem_cons] at hy ⊢; exact .inr hy))
        (fun y hy => hv y (by simp [List.mem_cons] at hy ⊢; exact .inr hy))]
    simp [flatKV]

theorem key_decode : ∀ k ∈ keyNames, decodeString (keyText k) = some (b k) := by decide +kernel

theorem pairUp_flat : ∀ (kvs : List (String × Bytes)) (acc : List (Bytes × Bytes)), (∀ x ∈ kvs, x.1 ∈ keyNames) →
    pairUp acc (flatKV kvs) = some (acc.reverse ++ kvs.map (fun kv => (b kv.1, kv.2)))
  | [], acc, _ => by simp [flatKV, pairUp]
  | kv :: kvs, acc, hk => by
    rw [flatKV, pairUp, key_decode kv.1 (hk kv (by simp))]
    simp only []
    rw [pairUp_flat kvs _ (fun y hy => hk y (by simp [hy]))]
    simp

/-! ## arrays and objects -/

theorem enc_ne_nil (hflt : ∀ (f : F64) (t : Bytes), fmtJSON f = some t → JsonNum t) {n : Nat} {t : Bytes}
    (h : Enc n t) : t ≠ [] := by
  obtain ⟨c, m, rfl, _⟩ := enc_start hflt h
  simp

theorem parse_arr (hflt : ∀ (f : F64) (t : Bytes), fmtJSON f = some t → JsonNum t) :
    ∀ n vs, n < maxNestingDepth → (∀ v, v ∈ vs → Enc n v) → parse1 (arrText vs) = some (.arr vs) := by
  intro n vs hn h
  have hv : valid (arrText vs) = true := valid_enc hflt (n + 1) _ hn (.arr n vs h)
  rw [arrText_eq] at hv ⊢
  have ht : trim (91 :: (joinC vs ++ [93])) = 91 :: (joinC vs ++ [93]) :=
    scan_trim_id _ 91 93 rfl (by decide) (getLast_snoc 91 93 _) (by decide)
  rw [parse1_eq 91 _ hv ht]
  have e : splitLoop false false 0 [] [] (joinC vs ++ [93]) = some vs := by
    cases vs with
    | nil => exact split0_close 93 (.inl rfl) [] []
    | cons v vs =>
      rw [joinC_cons, List.append_assoc,
        split_items vs v [] (split_enc hflt (h v (by simp))) (enc_ne_nil hflt (h v (by simp)))
          (fun x hx => ⟨split_enc hflt (h x (by simp [hx])), enc_ne_nil hflt (h x (by simp [hx]))⟩)]
      rfl
  rw [e]
  rfl

theorem parse_obj (hflt : ∀ (f : F64) (t : Bytes), fmtJSON f = some t → JsonNum t) :
    ∀ n kvs, n < maxNestingDepth → kvs ≠ [] → (∀ kv, kv ∈ kvs → kv.1 ∈ keyNames) →
      (∀ kv, kv ∈ kvs → Enc n kv.2) → parse1 (objText kvs) = some (.obj (kvs.map (fun kv => (b kv.1, kv.2)))) := by
  intro n kvs hn hne hk h
  have hv : valid (objText kvs) = true := valid_enc hflt (n + 1) _ hn (.obj n kvs hne hk h)
  cases kvs with
  | nil => exact absurd rfl hne
  | cons kv kvs =>
    rw [objText_cons] at hv ⊢
    have ht : trim (123 :: (member kv ++ tailC (kvs.map member) ++ [125])) =
        123 :: (member kv ++ tailC (kvs.map member) ++ [125]) :=
      scan_trim_id _ 123 125 rfl (by decide) (getLast_snoc 123 125 _) (by decide)
    rw [parse1_eq 123 _ hv ht, List.append_assoc,
      split_members kvs kv [] hk (fun x hx => split_enc hflt (h x hx))]
    simp only [List.reverse_nil, List.nil_append, Option.bind_some]
    rw [pairUp_flat _ _ hk]
    rfl

#print axioms parse_arr
#print axioms parse_obj
#print axioms parse1_jsonNum
#print axioms any_str
#print axioms any_jsonNum
#print axioms parse_int
#print axioms parse_flt
#print axioms any_int
#print axioms any_flt
#print axioms scan_trim_id
#print axioms parse1_eq

end Laws
end GoLucene
