import GoLucene.Model.Sem
import GoLucene.Spec.C16
/-
  Step count of the parser's control flow, a quadratic bound for it (robust), and a linear one (sharper).

  WHAT IS COUNTED.  The Go parser (parse.go) is a shift/reduce loop; `runW` (Model/Parser.lean) is its model.
  The only loops in the parser's control flow are
    * the main `for` loop (one iteration = one recursive call of `runW`),
    * the loop inside `parser.reduce` that pops stack items one by one and offers the popped handle to the
      reducers (`reduceLoop`: one iteration = one `tryReduce` attempt),
    * the `for !p.shouldShift(implAnd) { p.reduce() }` loop of the implicit-AND path (`reduceUntilShift`).
  `runCost isNum c toks` is the total number of iterations of these three loops that `runW isNum c toks`
  performs:
    * every iteration of the main loop costs 1 (error and accept iterations too),
    * every `reduce` costs in addition one unit per `tryReduce` attempt (`reduceLoopCost`),
    * the implicit-AND path costs in addition `reduceUntilShiftCost`: 1 per iteration of the inner loop plus the
      `reduceLoopCost` of every `reduce` made there.
  One `tryReduce` attempt offers a handle to twelve reducers, each of which looks at a handle of bounded length
  (at most 7 items), and `shouldShift` is a constant-time table lookup: so the real work is at most a constant
  times this count (what is NOT counted is the cost of the `isNum` value tests on the operands of `~`/`^`, and
  the construction of the expression values, which happen outside the control flow modelled here).

  The three cost functions are written as the SAME recursions as the functions they count (`reduceLoop`,
  `reduceUntilShift`, `runW`: same case analysis, same recursive calls, same termination argument); the section
  "instrumented run" below proves this formally: the functions `reduceLoopT`, `reduceT`, `reduceUntilShiftT`,
  `runT` thread a step counter through the model functions and return the result AND the count; `runT_eq` shows
  `runT isNum c toks = (runW isNum c toks, runCost isNum c toks)` (and likewise for the inner loops).

  WHAT IS PROVED (for ALL token sequences, all configurations, all value tests `isNum`).
    (a) `reduceLoopCost_le`        : a `reduce` makes at most `stack length` attempts;
    (b) `reduceUntilShiftCost_le`  : the implicit-AND loop costs at most `(stack length + 1)²`, whatever the fuel;
                                     more precisely (`reduceUntilShiftCost_le_iters`) at most
                                     `iterations * (stack length + 1)` with `iterations ≤ fuel`
                                     (`reduceUntilShiftIters_le_fuel`) and `iterations ≤ stack length + 1`
                                     (`reduceUntilShiftIters_le_stack`);
    (c) `runCost_le`               : `runCost isNum c toks ≤ (3 n + L + 1) * (L + 2 n + 2)`
                                     where `n = toks.length`, `L = c.stack.length` — total degree 2;
    (d) `parse_cost_poly`          : from the start configuration, `runCost ≤ 6 * (n + 1)²`;
    (e) `parseQuery_cost_poly`     : at byte level, for the tokens of ANY input string `s`,
                                     `runCost ≤ 6 * (s.length + 2)²`  (`parseQuery_cost_poly'`:
                                     `≤ 24 * (s.length + 1)²`);
    (f) examples at the end: the count (and the result) on five concrete token lists.
  Meaning: the number of loop iterations and reducer attempts of the parser's control flow is at most quadratic
  in the number of tokens (hence in the number of input bytes): there is no exponential and no non-terminating
  behaviour in the parser's control flow for ANY input.

  The proof idea of (c): `3 n + L` is the termination measure of `runW`; along the run the stack never gets
  longer than `B := L + 2 n` (a shift pushes at most two items and consumes a token, a reduce shrinks the stack).
  Every main-loop iteration decreases the measure by at least 1 and costs at most `B + 2`, except the
  implicit-AND iteration, which makes `i` inner iterations costing at most `B + 1` each, but `i - 1` of them are
  successful reduces, each of which shrinks the stack by at least one item: that iteration decreases the measure
  by at least `i`.  So the cost is at most `(measure + 1) * (B + 2)` (amortised over the measure).
  This argument uses nothing about the reducers except `reduce_len` (a successful `reduce` shrinks the stack), so
  it survives any change of the reducer table.

  SHARPER (section "the cost is in fact LINEAR").  With one more fact about the present reducer table — every
  handle a reducer accepts has at most 7 items (`tryReduce_handle_le`) — a successful `reduce` makes at most 7
  attempts; only a failing `reduce` walks the whole stack, and a failing `reduce` ends the run.  Hence
    `runCost_le_linear`      : `runCost isNum c toks ≤ 26 n + 9 L + 9`,
    `parse_cost_linear`      : from the start configuration `runCost ≤ 26 n + 9`,
    `parseQuery_cost_linear` : at byte level `runCost ≤ 26 * s.length + 35`.
-/
namespace GoLucene.Cost

/-! ### the three cost functions -/

/-- Number of `tryReduce` attempts made by `reduceLoop isNum st acc` (same recursion as `reduceLoop`): one per
    stack item visited, until a reducer fires or the stack is exhausted. -/
def reduceLoopCost (isNum : Bool → Ex → Bool) : List Item → List Item → Nat
  | [], _ => 0
  | s :: rest, acc =>
    let top := s :: acc
    match tryReduce isNum top with
    | some _ => 1
    | none => 1 + reduceLoopCost isNum rest top

/-- Number of iterations of the implicit-AND loop `reduceUntilShift isNum next fuel c` (same recursion).
    The `fuel = 0` branch does not exist in Go and is never reached from `runW` (Proofs/Fuel.lean). -/
def reduceUntilShiftIters (isNum : Bool → Ex → Bool) (next : TT) : Nat → Cfg → Nat
  | 0, _ => 0
  | fuel+1, c =>
    if shouldShift (curOf c) next then 1
    else match reduce isNum c with
      | none => 1
      | some c' => 1 + reduceUntilShiftIters isNum next fuel c'

/-- Cost of `reduceUntilShift isNum next fuel c` (same recursion): 1 per iteration, plus the attempts of every
    `reduce` it performs. -/
def reduceUntilShiftCost (isNum : Bool → Ex → Bool) (next : TT) : Nat → Cfg → Nat
  | 0, _ => 0
  | fuel+1, c =>
    if shouldShift (curOf c) next then 1
    else match reduce isNum c with
      | none => 1 + reduceLoopCost isNum c.stack []
      | some c' => 1 + reduceLoopCost isNum c.stack [] + reduceUntilShiftCost isNum next fuel c'

/-- Cost of `runW isNum c toks`: the same recursion as `runW`, branch by branch, with the same termination
    argument.  Each iteration costs 1, plus the attempts of the `reduce` / of the implicit-AND loop it runs. -/
def runCost (isNum : Bool → Ex → Bool) (c : Cfg) (toks : List Tok) : Nat :=
  if c.stack.length = 1 ∧ nextOf toks = .eof then
    match c.stack with
    | [.ex _] => 1                                                    -- accept
    | _ => 1                                                          -- error
  else if shouldShift (curOf c) (nextOf toks) then
    match toks with
    | [] => 1                                                         -- error
    | t :: rest =>
      if t.typ.isTerminal then
        match c.stack with
        | (.ex _) :: _ =>                                             -- implicit AND
          match h : reduceUntilShift isNum .tand (c.stack.length + 1) c with
          | none => 1 + reduceUntilShiftCost isNum .tand (c.stack.length + 1) c
          | some c' =>
            have := reduceUntilShift_len isNum _ _ _ _ h
            1 + reduceUntilShiftCost isNum .tand (c.stack.length + 1) c
              + runCost isNum ⟨.ex (.leaf t) :: .tok .tand :: c'.stack, .tand :: c'.nts⟩ rest
        | _ => 1 + runCost isNum ⟨.ex (.leaf t) :: c.stack, c.nts⟩ rest
      else 1 + runCost isNum ⟨.tok t.typ :: c.stack, t.typ :: c.nts⟩ rest
  else
    match h : reduce isNum c with
    | none => 1 + reduceLoopCost isNum c.stack []
    | some c' =>
      have := reduce_len isNum _ _ h
      1 + reduceLoopCost isNum c.stack [] + runCost isNum c' toks
termination_by 3 * toks.length + c.stack.length
decreasing_by
  all_goals simp_wf
  all_goals simp at *
  all_goals omega

/-! ### (a) one `reduce` -/

/-- (a) a `reduce` makes at most one attempt per stack item -/
theorem reduceLoopCost_le (isNum : Bool → Ex → Bool) (st acc : List Item) :
    reduceLoopCost isNum st acc ≤ st.length := by
  induction st generalizing acc with
  | nil => simp [reduceLoopCost]
  | cons s rest ih =>
    simp only [reduceLoopCost, List.length_cons]
    split
    · omega
    · have := ih (s :: acc); omega

/-- a `reduce` on a non-empty stack makes at least one attempt -/
theorem reduceLoopCost_pos (isNum : Bool → Ex → Bool) (s : Item) (rest acc : List Item) :
    1 ≤ reduceLoopCost isNum (s :: rest) acc := by
  simp only [reduceLoopCost]
  split <;> omega

/-- a failing `reduce` has visited the whole stack -/
theorem reduceLoopCost_of_none (isNum : Bool → Ex → Bool) (st acc : List Item)
    (h : reduceLoop isNum st acc = none) : reduceLoopCost isNum st acc = st.length := by
  induction st generalizing acc with
  | nil => simp [reduceLoopCost]
  | cons s rest ih =>
    simp only [reduceLoop] at h
    simp only [reduceLoopCost, List.length_cons]
    split at h
    · simp at h
    · rename_i hn
      rw [hn]
      simp only []
      rw [ih _ h]; omega

/-- a successful `reduce` stops at the handle: it made exactly as many attempts as the handle it replaced is long
    (new length = old length - attempts + 1) -/
theorem reduceLoopCost_of_some (isNum : Bool → Ex → Bool) (st acc st' : List Item) (k : Nat)
    (h : reduceLoop isNum st acc = some (st', k)) :
    st'.length + reduceLoopCost isNum st acc = st.length + 1 := by
  induction st generalizing acc with
  | nil => simp [reduceLoop] at h
  | cons s rest ih =>
    simp only [reduceLoop] at h
    simp only [reduceLoopCost, List.length_cons]
    split at h
    · rename_i repl k' hr
      rw [hr]
      simp at h
      obtain ⟨rfl, rfl⟩ := h
      have := tryReduce_len isNum _ _ _ hr
      simp
      omega
    · rename_i hn
      rw [hn]
      simp only []
      have := ih _ h
      omega

/-! ### (b) the implicit-AND loop -/

theorem reduceUntilShiftIters_le_fuel (isNum : Bool → Ex → Bool) (next : TT) (fuel : Nat) (c : Cfg) :
    reduceUntilShiftIters isNum next fuel c ≤ fuel := by
  induction fuel generalizing c with
  | zero => simp [reduceUntilShiftIters]
  | succ n ih =>
    rw [reduceUntilShiftIters.eq_def]; simp only []
    split
    · omega
    · split
      · omega
      · rename_i c' _
        have := ih c'; omega

theorem reduceUntilShiftIters_pos (isNum : Bool → Ex → Bool) (next : TT) (fuel : Nat) (c : Cfg) :
    1 ≤ reduceUntilShiftIters isNum next (fuel + 1) c := by
  rw [reduceUntilShiftIters.eq_def]; simp only []
  split
  · omega
  · split <;> omega

/-- whatever the fuel, the loop makes at most `stack length + 1` iterations: every iteration but the last is a
    successful `reduce`, which strictly shrinks the stack and leaves it non-empty -/
theorem reduceUntilShiftIters_le_stack (isNum : Bool → Ex → Bool) (next : TT) (fuel : Nat) (c : Cfg) :
    reduceUntilShiftIters isNum next fuel c ≤ c.stack.length + 1 := by
  induction fuel generalizing c with
  | zero => simp [reduceUntilShiftIters]
  | succ n ih =>
    rw [reduceUntilShiftIters.eq_def]; simp only []
    split
    · omega
    · split
      · omega
      · rename_i c' hr
        have := ih c'
        have := reduce_len isNum _ _ hr
        omega

/-- when the loop succeeds, every iteration but the last has removed at least one stack item -/
theorem reduceUntilShiftIters_some (isNum : Bool → Ex → Bool) (next : TT) (fuel : Nat) (c c' : Cfg)
    (h : reduceUntilShift isNum next fuel c = some c') :
    reduceUntilShiftIters isNum next fuel c + c'.stack.length ≤ c.stack.length + 1 := by
  induction fuel generalizing c with
  | zero => simp [reduceUntilShift] at h
  | succ n ih =>
    rw [reduceUntilShift.eq_def] at h; simp only [] at h
    rw [reduceUntilShiftIters.eq_def]; simp only []
    split at h
    · rename_i hs
      simp at h; subst h
      rw [if_pos hs]; omega
    · rename_i hs
      rw [if_neg hs]
      split at h
      · simp at h
      · rename_i c1 hr
        rw [hr]; simp only []
        have := reduce_len isNum _ _ hr
        have := ih _ h
        omega

/-- cost of the loop ≤ (number of iterations) × (stack length + 1) -/
theorem reduceUntilShiftCost_le_iters (isNum : Bool → Ex → Bool) (next : TT) (fuel : Nat) (c : Cfg) :
    reduceUntilShiftCost isNum next fuel c ≤
      reduceUntilShiftIters isNum next fuel c * (c.stack.length + 1) := by
  induction fuel generalizing c with
  | zero => simp [reduceUntilShiftCost]
  | succ n ih =>
    rw [reduceUntilShiftCost.eq_def, reduceUntilShiftIters.eq_def]; simp only []
    have ha := reduceLoopCost_le isNum c.stack []
    by_cases hs : shouldShift (curOf c) next = true
    · rw [if_pos hs, if_pos hs]; omega
    · rw [if_neg hs, if_neg hs]
      cases hr : reduce isNum c with
      | none => simp only []; omega
      | some c' =>
        simp only []
        have h1 := ih c'
        have h2 := reduce_len isNum _ _ hr
        have h3 : reduceUntilShiftIters isNum next n c' * (c'.stack.length + 1) ≤
            reduceUntilShiftIters isNum next n c' * (c.stack.length + 1) :=
          Nat.mul_le_mul_left _ (by omega)
        rw [Nat.add_mul, Nat.one_mul]
        omega

/-- the cost dominates the number of iterations (each iteration costs at least 1) -/
theorem reduceUntilShiftIters_le_cost (isNum : Bool → Ex → Bool) (next : TT) (fuel : Nat) (c : Cfg) :
    reduceUntilShiftIters isNum next fuel c ≤ reduceUntilShiftCost isNum next fuel c := by
  induction fuel generalizing c with
  | zero => simp [reduceUntilShiftIters]
  | succ n ih =>
    rw [reduceUntilShiftCost.eq_def, reduceUntilShiftIters.eq_def]; simp only []
    split
    · omega
    · split
      · omega
      · rename_i c' _
        have := ih c'; omega

/-- (b) whatever the fuel, the implicit-AND loop costs at most `(stack length + 1)²` -/
theorem reduceUntilShiftCost_le (isNum : Bool → Ex → Bool) (next : TT) (fuel : Nat) (c : Cfg) :
    reduceUntilShiftCost isNum next fuel c ≤ (c.stack.length + 1) * (c.stack.length + 1) :=
  Nat.le_trans (reduceUntilShiftCost_le_iters isNum next fuel c)
    (Nat.mul_le_mul_right _ (reduceUntilShiftIters_le_stack isNum next fuel c))

/-- (b') in terms of the fuel: at most `fuel * (stack length + 1)`; `runW` passes `fuel = stack length + 1` -/
theorem reduceUntilShiftCost_le_fuel (isNum : Bool → Ex → Bool) (next : TT) (fuel : Nat) (c : Cfg) :
    reduceUntilShiftCost isNum next fuel c ≤ fuel * (c.stack.length + 1) :=
  Nat.le_trans (reduceUntilShiftCost_le_iters isNum next fuel c)
    (Nat.mul_le_mul_right _ (reduceUntilShiftIters_le_fuel isNum next fuel c))

/-! ### (c) the main loop -/

/-- one-step equation of `runCost` without the proof-carrying matches
    (the `: Nat` ascription on the last `match` only keeps an elaborator annotation out of the statement, which
    would otherwise hide the `+` from `omega` after `split`) -/
theorem runCost_eq (isNum : Bool → Ex → Bool) (c : Cfg) (toks : List Tok) :
    runCost isNum c toks =
      if c.stack.length = 1 ∧ nextOf toks = .eof then 1
      else if shouldShift (curOf c) (nextOf toks) then
        match toks with
        | [] => 1
        | t :: rest =>
          if t.typ.isTerminal then
            match c.stack with
            | (.ex _) :: _ =>
              match reduceUntilShift isNum .tand (c.stack.length + 1) c with
              | none => 1 + reduceUntilShiftCost isNum .tand (c.stack.length + 1) c
              | some c' =>
                1 + reduceUntilShiftCost isNum .tand (c.stack.length + 1) c
                  + runCost isNum ⟨.ex (.leaf t) :: .tok .tand :: c'.stack, .tand :: c'.nts⟩ rest
            | _ => 1 + runCost isNum ⟨.ex (.leaf t) :: c.stack, c.nts⟩ rest
          else 1 + runCost isNum ⟨.tok t.typ :: c.stack, t.typ :: c.nts⟩ rest
      else
        (match reduce isNum c with
         | none => 1 + reduceLoopCost isNum c.stack []
         | some c' => 1 + reduceLoopCost isNum c.stack [] + runCost isNum c' toks : Nat) := by
  rw [runCost.eq_def]
  split
  · split <;> rfl
  · split
    · split
      · rfl
      · split
        · split
          · split
            · rename_i h; simp only [h]
            · rename_i h; simp only [h]
          · rfl
        · rfl
    · split
      · rename_i h; simp only [h]
      · rename_i h; simp only [h]

/-- every run costs at least 1 (the iteration that accepts or fails) -/
theorem runCost_pos (isNum : Bool → Ex → Bool) (c : Cfg) (toks : List Tok) : 1 ≤ runCost isNum c toks := by
  rw [runCost_eq]
  repeat' split
  all_goals omega

/-- arithmetic of the amortised step: an iteration that costs `x ≤ k * W` and decreases the measure by at least
    `k` preserves the bound `cost ≤ (measure + 1) * W` -/
theorem step_bound (m m' k W x r : Nat) (hm : m' + k ≤ m) (hx : x ≤ k * W) (hr : r ≤ (m' + 1) * W) :
    x + r ≤ (m + 1) * W := by
  have h1 : (m' + 1 + k) * W ≤ (m + 1) * W := Nat.mul_le_mul_right _ (by omega)
  rw [Nat.add_mul] at h1
  omega

theorem leaf_bound (m W x : Nat) (hx : x ≤ W) : x ≤ (m + 1) * W := by
  rw [Nat.add_mul, Nat.one_mul]; omega

/-- `i ≥ 1` inner iterations costing `≤ L + 1 ≤ B + 1` each, plus the outer iteration, cost at most
    `i * (B + 2)` -/
theorem inner_bound (i L B x : Nat) (hi : 1 ≤ i) (hL : L ≤ B) (hx : x ≤ i * (L + 1)) :
    1 + x ≤ i * (B + 2) := by
  have h1 : i * (L + 1) ≤ i * (B + 1) := Nat.mul_le_mul_left _ (by omega)
  have h2 : i * (B + 2) = i * (B + 1) + i := by rw [show B + 2 = (B + 1) + 1 from rfl, Nat.mul_succ]
  omega

/-- The invariant form of the bound: if `B` bounds `stack length + 2 * remaining tokens` (hence the stack length
    for the rest of the run), the cost is at most `(termination measure + 1) * (B + 2)`. -/
theorem runCost_le_of_bound (isNum : Bool → Ex → Bool) (B : Nat) :
    ∀ (m : Nat) (c : Cfg) (toks : List Tok), 3 * toks.length + c.stack.length = m →
      c.stack.length + 2 * toks.length ≤ B →
      runCost isNum c toks ≤ (m + 1) * (B + 2) := by
  intro m
  induction m using Nat.strongRecOn with
  | _ m ih =>
    intro c toks hm hB
    rw [runCost_eq]
    split
    · refine leaf_bound _ _ _ ?_; omega
    · split
      · -- shift
        cases toks with
        | nil => dsimp only; refine leaf_bound _ _ _ ?_; omega
        | cons t rest =>
          simp only [List.length_cons] at hm hB
          dsimp only
          split
          · split
            · -- implicit AND
              rename_i e st hst
              have hcost := reduceUntilShiftCost_le_iters isNum .tand (c.stack.length + 1) c
              have hpos := reduceUntilShiftIters_pos isNum .tand c.stack.length c
              have hfuel := reduceUntilShiftIters_le_fuel isNum .tand (c.stack.length + 1) c
              have hin := inner_bound _ _ B _ hpos (by omega) hcost
              split
              · -- the inner loop fails
                refine Nat.le_trans hin (Nat.mul_le_mul_right _ (by omega))
              · rename_i c' hr
                have hlen := reduceUntilShiftIters_some isNum _ _ _ _ hr
                have hlen' := reduceUntilShift_len isNum _ _ _ _ hr
                refine step_bound m (3 * rest.length + (c'.stack.length + 2)) _ _ _ _ ?_ hin
                  (ih _ ?_ _ rest ?_ ?_)
                · omega
                · omega
                · simp
                · simp; omega
            · refine step_bound m (3 * rest.length + (c.stack.length + 1)) 1 _ _ _ ?_ ?_
                (ih _ ?_ _ rest ?_ ?_)
              · omega
              · omega
              · omega
              · simp
              · simp; omega
          · refine step_bound m (3 * rest.length + (c.stack.length + 1)) 1 _ _ _ ?_ ?_
              (ih _ ?_ _ rest ?_ ?_)
            · omega
            · omega
            · omega
            · simp
            · simp; omega
      · -- reduce
        have ha := reduceLoopCost_le isNum c.stack []
        split
        · refine leaf_bound _ _ _ ?_; omega
        · rename_i c' hr
          have hlen := reduce_len isNum _ _ hr
          refine step_bound m (3 * toks.length + c'.stack.length) 1 _ _ _ ?_ ?_
            (ih _ ?_ c' toks rfl ?_)
          · omega
          · omega
          · omega
          · omega

/-- (c) MAIN THEOREM: for every configuration and every token list, with `n = toks.length` and
    `L = c.stack.length`,   `runCost ≤ (3 n + L + 1) * (L + 2 n + 2)`   — a polynomial of total degree 2. -/
theorem runCost_le (isNum : Bool → Ex → Bool) (c : Cfg) (toks : List Tok) :
    runCost isNum c toks ≤
      (3 * toks.length + c.stack.length + 1) * (c.stack.length + 2 * toks.length + 2) :=
  runCost_le_of_bound isNum _ _ c toks rfl (Nat.le_refl _)

/-! ### (d) the start configuration -/

/-- (d) from the start configuration (that of `parseToks isNum toks = runW isNum ⟨[], [.start]⟩ toks`) the cost is at most `6 * (number of tokens + 1)²` -/
theorem parse_cost_poly (isNum : Bool → Ex → Bool) (toks : List Tok) :
    runCost isNum ⟨[], [.start]⟩ toks ≤ 6 * (toks.length + 1) ^ 2 := by
  have h := runCost_le isNum ⟨[], [.start]⟩ toks
  simp only [List.length_nil, Nat.add_zero, Nat.zero_add] at h
  refine Nat.le_trans h ?_
  generalize toks.length = n
  have h1 : (3 * n + 1) * (2 * n + 2) ≤ (3 * (n + 1)) * (2 * (n + 1)) :=
    Nat.mul_le_mul (by omega) (by omega)
  have h2 : (3 * (n + 1)) * (2 * (n + 1)) = 6 * (n + 1) ^ 2 := by
    rw [Nat.pow_two, Nat.mul_mul_mul_comm]
  omega

/-! ### (e) byte level -/

theorem decode_length_le : ∀ (n : Nat) (bs : Bytes), bs.length ≤ n → (decode bs).length ≤ bs.length := by
  intro n
  induction n with
  | zero => intro bs h; cases bs <;> simp_all [decode]
  | succ n ih =>
    intro bs h
    cases bs with
    | nil => simp [decode]
    | cons b0 rest =>
      rw [decode]
      have := ih (rest.drop ((decode1 b0 rest).2 - 1)) (by simp at h ⊢; omega)
      simp only [List.length_cons, List.length_drop] at this ⊢
      omega

/-- the parser sees at most one token per input byte, plus possibly the error token -/
theorem tokensOf_length_le (env : Env) (s : Bytes) : (tokensOf env s).length ≤ s.length + 1 := by
  have h1 := C16.token_count_le env.cls (decode s)
  have h2 := decode_length_le s.length s (Nat.le_refl _)
  simp only [tokensOf, List.length_append, List.length_map]
  split <;> simp <;> omega

/-- (e) at byte level: for ANY input string `s` (valid UTF-8 or not), the control flow of
    `parseQuery env s df` costs at most `6 * (s.length + 2)²` -/
theorem parseQuery_cost_poly (env : Env) (df s : Bytes) :
    runCost (isNumOf env df) ⟨[], [.start]⟩ (tokensOf env s) ≤ 6 * (s.length + 2) ^ 2 := by
  refine Nat.le_trans (parse_cost_poly _ _) ?_
  have h := tokensOf_length_le env s
  exact Nat.mul_le_mul_left _ (Nat.pow_le_pow_left (by omega) 2)

/-- (e') the same with the shape `K * (s.length + 1)²`, `K = 24` -/
theorem parseQuery_cost_poly' (env : Env) (df s : Bytes) :
    runCost (isNumOf env df) ⟨[], [.start]⟩ (tokensOf env s) ≤ 24 * (s.length + 1) ^ 2 := by
  refine Nat.le_trans (parseQuery_cost_poly env df s) ?_
  have h : (s.length + 2) ^ 2 ≤ (2 * (s.length + 1)) ^ 2 := Nat.pow_le_pow_left (by omega) 2
  rw [Nat.mul_pow] at h
  omega

/-! ### sharper: the cost is in fact LINEAR

  The quadratic bound above uses nothing about the reducers except that a successful `reduce` shrinks the stack.
  Using in addition that every handle a reducer accepts has at most 7 items (the longest is the range
  `f : [ lo TO hi ]`), a SUCCESSFUL `reduce` makes at most 7 attempts; only a FAILING `reduce` walks the whole
  stack, and a failing `reduce` ends the run.  Hence every iteration costs at most 8, except the last one. -/

/-- a handle that some reducer accepts has at most 7 items -/
theorem tryReduce_handle_le (isNum : Bool → Ex → Bool) (top repl : List Item) (k : Nat)
    (h : tryReduce isNum top = some (repl, k)) : top.length ≤ 7 := by
  unfold tryReduce at h
  split at h <;> first
    | (simp; done)
    | (simp at h; done)

/-- a successful `reduce` stops after at most 7 attempts -/
theorem reduceLoopCost_some_le (isNum : Bool → Ex → Bool) (st acc : List Item) (r : List Item × Nat)
    (h : reduceLoop isNum st acc = some r) : reduceLoopCost isNum st acc + acc.length ≤ 7 := by
  induction st generalizing acc with
  | nil => simp [reduceLoop] at h
  | cons s rest ih =>
    simp only [reduceLoop] at h
    simp only [reduceLoopCost]
    split at h
    · rename_i repl k' hr
      rw [hr]
      have := tryReduce_handle_le isNum _ _ _ hr
      simp at this ⊢
      omega
    · rename_i hn
      rw [hn]
      simp only []
      have := ih _ h
      simp at this
      omega

theorem reduce_cost_le (isNum : Bool → Ex → Bool) (c c' : Cfg) (h : reduce isNum c = some c') :
    reduceLoopCost isNum c.stack [] ≤ 7 := by
  unfold reduce at h
  split at h
  · rename_i st k hr
    have := reduceLoopCost_some_le isNum _ _ _ hr
    simpa using this
  · simp at h

/-- a successful implicit-AND loop: every iteration but the last costs at most 8, the last costs 1 -/
theorem reduceUntilShiftCost_some_le (isNum : Bool → Ex → Bool) (next : TT) (fuel : Nat) (c c' : Cfg)
    (h : reduceUntilShift isNum next fuel c = some c') :
    reduceUntilShiftCost isNum next fuel c + 7 ≤ 8 * reduceUntilShiftIters isNum next fuel c := by
  induction fuel generalizing c with
  | zero => simp [reduceUntilShift] at h
  | succ n ih =>
    rw [reduceUntilShift.eq_def] at h; simp only [] at h
    rw [reduceUntilShiftCost.eq_def, reduceUntilShiftIters.eq_def]; simp only []
    by_cases hs : shouldShift (curOf c) next = true
    · rw [if_pos hs, if_pos hs]; omega
    · rw [if_neg hs, if_neg hs]
      rw [if_neg hs] at h
      cases hr : reduce isNum c with
      | none => rw [hr] at h; simp at h
      | some c₁ =>
        rw [hr] at h
        simp only [] at h ⊢
        have := reduce_cost_le isNum _ _ hr
        have := ih _ h
        omega

/-- any implicit-AND loop: every iteration costs at most 8, except a failing last one, which walks the stack -/
theorem reduceUntilShiftCost_le_linear (isNum : Bool → Ex → Bool) (next : TT) (fuel : Nat) (c : Cfg) :
    reduceUntilShiftCost isNum next fuel c ≤
      8 * reduceUntilShiftIters isNum next fuel c + c.stack.length := by
  induction fuel generalizing c with
  | zero => simp [reduceUntilShiftCost]
  | succ n ih =>
    rw [reduceUntilShiftCost.eq_def, reduceUntilShiftIters.eq_def]; simp only []
    by_cases hs : shouldShift (curOf c) next = true
    · rw [if_pos hs, if_pos hs]; omega
    · rw [if_neg hs, if_neg hs]
      cases hr : reduce isNum c with
      | none =>
        simp only []
        have := reduceLoopCost_le isNum c.stack []
        omega
      | some c₁ =>
        simp only []
        have := reduce_cost_le isNum _ _ hr
        have := reduce_len isNum _ _ hr
        have := ih c₁
        omega

/-- Invariant form of the linear bound: `cost ≤ 8 * (termination measure + 1) + (B + 1)` where `B` bounds
    `stack length + 2 * remaining tokens` (the `B + 1` pays for the one failing `reduce` that may end the run). -/
theorem runCost_le_linear_of_bound (isNum : Bool → Ex → Bool) (B : Nat) :
    ∀ (m : Nat) (c : Cfg) (toks : List Tok), 3 * toks.length + c.stack.length = m →
      c.stack.length + 2 * toks.length ≤ B →
      runCost isNum c toks ≤ 8 * (m + 1) + (B + 1) := by
  intro m
  induction m using Nat.strongRecOn with
  | _ m ih =>
    intro c toks hm hB
    rw [runCost_eq]
    split
    · omega
    · split
      · cases toks with
        | nil => dsimp only; omega
        | cons t rest =>
          simp only [List.length_cons] at hm hB
          dsimp only
          split
          · split
            · -- implicit AND
              rename_i e st hst
              have hB' := reduceUntilShiftCost_le_linear isNum .tand (c.stack.length + 1) c
              have hfuel := reduceUntilShiftIters_le_fuel isNum .tand (c.stack.length + 1) c
              split
              · omega
              · rename_i c' hr
                have hA := reduceUntilShiftCost_some_le isNum _ _ _ _ hr
                have hlen := reduceUntilShiftIters_some isNum _ _ _ _ hr
                have hlen' := reduceUntilShift_len isNum _ _ _ _ hr
                have := ih (3 * rest.length + (c'.stack.length + 2)) (by omega)
                  ⟨.ex (.leaf t) :: .tok .tand :: c'.stack, .tand :: c'.nts⟩ rest (by simp)
                  (by simp; omega)
                omega
            · have := ih (3 * rest.length + (c.stack.length + 1)) (by omega)
                ⟨.ex (.leaf t) :: c.stack, c.nts⟩ rest (by simp) (by simp; omega)
              omega
          · have := ih (3 * rest.length + (c.stack.length + 1)) (by omega)
              ⟨.tok t.typ :: c.stack, t.typ :: c.nts⟩ rest (by simp) (by simp; omega)
            omega
      · -- reduce
        have ha := reduceLoopCost_le isNum c.stack []
        cases hr : reduce isNum c with
        | none => dsimp only; omega
        | some c' =>
          dsimp only
          have hlen := reduce_len isNum _ _ hr
          have h7 := reduce_cost_le isNum _ _ hr
          have := ih (3 * toks.length + c'.stack.length) (by omega) c' toks rfl (by omega)
          omega

/-- LINEAR BOUND for every configuration: with `n = toks.length`, `L = c.stack.length`,
    `runCost ≤ 26 n + 9 L + 9`. -/
theorem runCost_le_linear (isNum : Bool → Ex → Bool) (c : Cfg) (toks : List Tok) :
    runCost isNum c toks ≤ 26 * toks.length + 9 * c.stack.length + 9 := by
  have := runCost_le_linear_of_bound isNum _ _ c toks rfl (Nat.le_refl _)
  omega

/-- from the start configuration: at most `26 * (number of tokens) + 9` -/
theorem parse_cost_linear (isNum : Bool → Ex → Bool) (toks : List Tok) :
    runCost isNum ⟨[], [.start]⟩ toks ≤ 26 * toks.length + 9 := by
  have := runCost_le_linear isNum ⟨[], [.start]⟩ toks
  simpa using this

/-- at byte level: at most `26 * (number of input bytes) + 35` -/
theorem parseQuery_cost_linear (env : Env) (df s : Bytes) :
    runCost (isNumOf env df) ⟨[], [.start]⟩ (tokensOf env s) ≤ 26 * s.length + 35 := by
  have h1 := parse_cost_linear (isNumOf env df) (tokensOf env s)
  have h2 := tokensOf_length_le env s
  omega

/-! ### instrumented run: `runCost` counts the steps of `runW`

  The functions `reduceLoopT`, `reduceT`, `reduceUntilShiftT`, `runT` are the model functions with a step counter
  threaded through them (each returns the result AND the number of steps it took).  Their first projections are the
  model functions, their second projections are the cost functions above: so `runCost` really is the number of
  steps of `runW`, not of some other recursion. -/

/-- add `k` steps to an instrumented result -/
def tick {α : Type} (k : Nat) (p : α × Nat) : α × Nat := (p.1, k + p.2)

def reduceLoopT (isNum : Bool → Ex → Bool) : List Item → List Item → Option (List Item × Nat) × Nat
  | [], _ => (none, 0)
  | s :: rest, acc =>
    let top := s :: acc
    match tryReduce isNum top with
    | some (repl, k) => (some (repl.reverse ++ rest, k), 1)
    | none => tick 1 (reduceLoopT isNum rest top)

def reduceT (isNum : Bool → Ex → Bool) (c : Cfg) : Option Cfg × Nat :=
  match reduceLoopT isNum c.stack [] with
  | (some (st, k), n) => (some ⟨st, c.nts.drop k⟩, n)
  | (none, n) => (none, n)

def reduceUntilShiftT (isNum : Bool → Ex → Bool) (next : TT) : Nat → Cfg → Option Cfg × Nat
  | 0, _ => (none, 0)
  | fuel+1, c =>
    if shouldShift (curOf c) next then (some c, 1)
    else match reduceT isNum c with
      | (none, k) => (none, 1 + k)
      | (some c', k) => tick (1 + k) (reduceUntilShiftT isNum next fuel c')

theorem reduceLoopT_eq (isNum : Bool → Ex → Bool) (st acc : List Item) :
    reduceLoopT isNum st acc = (reduceLoop isNum st acc, reduceLoopCost isNum st acc) := by
  induction st generalizing acc with
  | nil => rfl
  | cons s rest ih =>
    simp only [reduceLoopT, reduceLoop, reduceLoopCost]
    cases h : tryReduce isNum (s :: acc) with
    | none => simp only [ih, tick]
    | some p => rfl

theorem reduceT_eq (isNum : Bool → Ex → Bool) (c : Cfg) :
    reduceT isNum c = (reduce isNum c, reduceLoopCost isNum c.stack []) := by
  simp only [reduceT, reduce, reduceLoopT_eq]
  cases reduceLoop isNum c.stack [] with
  | none => rfl
  | some p => rfl

theorem reduceUntilShiftT_eq (isNum : Bool → Ex → Bool) (next : TT) (fuel : Nat) (c : Cfg) :
    reduceUntilShiftT isNum next fuel c =
      (reduceUntilShift isNum next fuel c, reduceUntilShiftCost isNum next fuel c) := by
  induction fuel generalizing c with
  | zero => rfl
  | succ n ih =>
    rw [reduceUntilShiftT.eq_def, reduceUntilShift.eq_def, reduceUntilShiftCost.eq_def]
    simp only [reduceT_eq]
    by_cases hs : shouldShift (curOf c) next = true
    · simp only [if_pos hs]
    · simp only [if_neg hs]
      cases hr : reduce isNum c with
      | none => rfl
      | some c' => simp only [ih, tick]

theorem reduceT_some (isNum : Bool → Ex → Bool) (c c' : Cfg) (k : Nat)
    (h : reduceT isNum c = (some c', k)) : reduce isNum c = some c' := by
  rw [reduceT_eq] at h; exact (Prod.mk.inj h).1

theorem reduceUntilShiftT_some (isNum : Bool → Ex → Bool) (next : TT) (fuel : Nat) (c c' : Cfg) (k : Nat)
    (h : reduceUntilShiftT isNum next fuel c = (some c', k)) :
    reduceUntilShift isNum next fuel c = some c' := by
  rw [reduceUntilShiftT_eq] at h; exact (Prod.mk.inj h).1

/-- `runW` with a step counter: the same function, returning also the number of steps -/
def runT (isNum : Bool → Ex → Bool) (c : Cfg) (toks : List Tok) : Res × Nat :=
  if c.stack.length = 1 ∧ nextOf toks = .eof then
    match c.stack with
    | [.ex e] => (.ok e, 1)
    | _ => (.err, 1)
  else if shouldShift (curOf c) (nextOf toks) then
    match toks with
    | [] => (.err, 1)
    | t :: rest =>
      if t.typ.isTerminal then
        match c.stack with
        | (.ex _) :: _ =>
          match h : reduceUntilShiftT isNum .tand (c.stack.length + 1) c with
          | (none, k) => (.err, 1 + k)
          | (some c', k) =>
            have := reduceUntilShift_len isNum _ _ _ _ (reduceUntilShiftT_some isNum _ _ _ _ _ h)
            tick (1 + k) (runT isNum ⟨.ex (.leaf t) :: .tok .tand :: c'.stack, .tand :: c'.nts⟩ rest)
        | _ => tick 1 (runT isNum ⟨.ex (.leaf t) :: c.stack, c.nts⟩ rest)
      else tick 1 (runT isNum ⟨.tok t.typ :: c.stack, t.typ :: c.nts⟩ rest)
  else
    match h : reduceT isNum c with
    | (none, k) => (.err, 1 + k)
    | (some c', k) =>
      have := reduce_len isNum _ _ (reduceT_some isNum _ _ _ h)
      tick (1 + k) (runT isNum c' toks)
termination_by 3 * toks.length + c.stack.length
decreasing_by
  all_goals simp_wf
  all_goals simp at *
  all_goals omega

/-- one-step equation of `runW` without the proof-carrying matches -/
theorem runW_eq (isNum : Bool → Ex → Bool) (c : Cfg) (toks : List Tok) :
    runW isNum c toks =
      if c.stack.length = 1 ∧ nextOf toks = .eof then
        match c.stack with
        | [.ex e] => .ok e
        | _ => .err
      else if shouldShift (curOf c) (nextOf toks) then
        match toks with
        | [] => .err
        | t :: rest =>
          if t.typ.isTerminal then
            match c.stack with
            | (.ex _) :: _ =>
              match reduceUntilShift isNum .tand (c.stack.length + 1) c with
              | none => .err
              | some c' => runW isNum ⟨.ex (.leaf t) :: .tok .tand :: c'.stack, .tand :: c'.nts⟩ rest
            | _ => runW isNum ⟨.ex (.leaf t) :: c.stack, c.nts⟩ rest
          else runW isNum ⟨.tok t.typ :: c.stack, t.typ :: c.nts⟩ rest
      else
        (match reduce isNum c with
         | none => .err
         | some c' => runW isNum c' toks : Res) := by
  cases toks with
  | nil =>
    rw [runW.eq_def]
    split
    · rfl
    · split
      · rfl
      · split
        · rename_i h; simp only [h]
        · rename_i h; simp only [h]
  | cons t rest =>
    rw [runW.eq_def]
    dsimp only
    split
    · rfl
    · split
      · split
        · split
          · rename_i heq
            split
            · rename_i h; simp only [h]; rw [heq]
            · rename_i h; simp only [h]; rw [heq]
          · rename_i hne
            split
            · rename_i e tl heq; exact (hne e tl heq).elim
            · rfl
        · rfl
      · split
        · rename_i h; simp only [h]
        · rename_i h; simp only [h]

/-- THE COUNT IS THE COUNT OF `runW`: the instrumented run returns the result of `runW` and `runCost`. -/
theorem runT_eq (isNum : Bool → Ex → Bool) :
    ∀ (m : Nat) (c : Cfg) (toks : List Tok), 3 * toks.length + c.stack.length = m →
      runT isNum c toks = (runW isNum c toks, runCost isNum c toks) := by
  intro m
  induction m using Nat.strongRecOn with
  | _ m ih =>
    intro c toks hm
    rw [runT.eq_def, runW_eq, runCost_eq]
    by_cases h1 : c.stack.length = 1 ∧ nextOf toks = .eof
    · simp only [if_pos h1]
      split <;> rfl
    · simp only [if_neg h1]
      by_cases h2 : shouldShift (curOf c) (nextOf toks) = true
      · simp only [if_pos h2]
        cases toks with
        | nil => rfl
        | cons t rest =>
          simp only [List.length_cons] at hm
          dsimp only
          by_cases h3 : t.typ.isTerminal = true
          · simp only [if_pos h3]
            have hT := reduceUntilShiftT_eq isNum .tand (c.stack.length + 1) c
            split
            · -- implicit AND
              rename_i e st hst
              cases hr : reduceUntilShift isNum .tand (c.stack.length + 1) c with
              | none =>
                rw [hr] at hT
                dsimp only
                split
                · rename_i k heq; rw [hT] at heq; cases heq; rfl
                · rename_i c' k heq; rw [hT] at heq; cases heq
              | some c' =>
                rw [hr] at hT
                dsimp only
                split
                · rename_i k heq; rw [hT] at heq; cases heq
                · rename_i c'' k heq
                  rw [hT] at heq; cases heq
                  have := reduceUntilShift_len isNum _ _ _ _ hr
                  rw [ih (3 * rest.length + (c'.stack.length + 2)) (by omega) _ rest (by simp)]
                  rfl
            · rw [ih (3 * rest.length + (c.stack.length + 1)) (by omega) _ rest (by simp)]
              rfl
          · simp only [if_neg h3]
            rw [ih (3 * rest.length + (c.stack.length + 1)) (by omega) _ rest (by simp)]
            rfl
      · simp only [if_neg h2]
        have hT := reduceT_eq isNum c
        cases hr : reduce isNum c with
        | none =>
          rw [hr] at hT
          dsimp only
          split
          · rename_i k heq; rw [hT] at heq; cases heq; rfl
          · rename_i c' k heq; rw [hT] at heq; cases heq
        | some c' =>
          rw [hr] at hT
          dsimp only
          split
          · rename_i k heq; rw [hT] at heq; cases heq
          · rename_i c'' k heq
            rw [hT] at heq; cases heq
            have := reduce_len isNum _ _ hr
            rw [ih (3 * toks.length + c'.stack.length) (by omega) c' toks rfl]
            rfl

theorem runT_fst (isNum : Bool → Ex → Bool) (c : Cfg) (toks : List Tok) :
    (runT isNum c toks).1 = runW isNum c toks := by
  rw [runT_eq isNum _ c toks rfl]

theorem runT_snd (isNum : Bool → Ex → Bool) (c : Cfg) (toks : List Tok) :
    (runT isNum c toks).2 = runCost isNum c toks := by
  rw [runT_eq isNum _ c toks rfl]

/-! ### (f) sanity: the count on concrete inputs

  `runW`/`runCost` are defined by well-founded recursion, so they do not reduce by `decide`; the examples are
  proved by rewriting with the one-step equations.  (No `~`/`^` occurs, so they hold for every `isNum`.)
  Each example states the result of the run AND its cost (through the instrumented run). -/

section Examples
set_option linter.unusedSimpArgs false

local macro "run_simp" : tactic => `(tactic|
  simp [runCost_eq, runW_eq, nextOf, shouldShift, curOf, TT.isTerminal, reduce, reduceLoop, tryReduce,
    reduceLoopCost, reduceUntilShift, reduceUntilShiftCost, anyOpenBracket, anyClosingBracket, endingRange,
    hasLessPrecedence, TT.num, TT.isPrefixOp])

/-- the empty query: one iteration, which fails -/
example (isNum : Bool → Ex → Bool) : runT isNum ⟨[], [.start]⟩ [] = (.err, 1) := by
  rw [runT_eq isNum _ _ _ rfl]; run_simp

/-- `a:b` is accepted after 8 steps: 3 shifts, 1 reduce with 3 attempts, 1 accept -/
example (isNum : Bool → Ex → Bool) :
    runT isNum ⟨[], [.start]⟩ [⟨.literal, [97]⟩, ⟨.colon, []⟩, ⟨.literal, [98]⟩] =
      (.ok (.eq (.leaf ⟨.literal, [97]⟩) (.leaf ⟨.literal, [98]⟩)), 8) := by
  rw [runT_eq isNum _ _ _ rfl]; run_simp

/-- `a:b c:d` (implicit AND, the `reduceUntilShift` path) is accepted after 20 steps -/
example (isNum : Bool → Ex → Bool) :
    runT isNum ⟨[], [.start]⟩
      [⟨.literal, [97]⟩, ⟨.colon, []⟩, ⟨.literal, [98]⟩, ⟨.literal, [99]⟩, ⟨.colon, []⟩, ⟨.literal, [100]⟩] =
      (.ok (.and (.eq (.leaf ⟨.literal, [97]⟩) (.leaf ⟨.literal, [98]⟩))
                 (.eq (.leaf ⟨.literal, [99]⟩) (.leaf ⟨.literal, [100]⟩))), 20) := by
  rw [runT_eq isNum _ _ _ rfl]; run_simp

/-- `a:` is rejected after 5 steps: 2 shifts, then a `reduce` that walks the 2-item stack and fails -/
example (isNum : Bool → Ex → Bool) :
    runT isNum ⟨[], [.start]⟩ [⟨.literal, [97]⟩, ⟨.colon, []⟩] = (.err, 5) := by
  rw [runT_eq isNum _ _ _ rfl]; run_simp

/-- `(a)`: 8 steps -/
example (isNum : Bool → Ex → Bool) :
    runCost isNum ⟨[], [.start]⟩ [⟨.lparen, []⟩, ⟨.literal, [97]⟩, ⟨.rparen, []⟩] = 8 := by run_simp

end Examples

end GoLucene.Cost

