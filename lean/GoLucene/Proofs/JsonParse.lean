import GoLucene.Proofs.JsonRoundTrip
import GoLucene.Proofs.LexSlash
import GoLucene.Proofs.DefaultField
/-
  C12 over QUERIES: every expression `parseQuery` returns satisfies the side conditions of the JSON round-trip
  theorems (Proofs/JsonRoundTrip.lean), and the end-to-end statement.

  For `h : parseQuery env s df = .ok e` (any class table, any default field unless said otherwise):
    `parse_built`            e is `Built` from leaves `parseLiteral t` of tokens `t ∈ tokensOf env s` (§1; every
                             property below is one induction over `Built`)
    (1) `parse_fieldsCanon`      fieldsCanon e
    (2) `parse_intsInt64`        intsInt64 e                         (`atoi_int64`)
    (3) `parse_likeKindOK`       likeKindOK e — for EVERY class table (`tokensOf_regexp`); with `slashNotAlnum` the
                                 pattern leaf is moreover re-typed the same way (`retype_pattern`)
    (4) `parse_allStringsValid`  validUtf8 s → validUtf8 df → allStringsValid e
                                 (lexer fact `tokensOf_valid`; UTF-8 facts `decode_append_valid`, `validUtf8_filter`, `validUtf8_unescape`;
                                 `validUtf8 s` is necessary: `invalid_utf8_query`)
    (5) `parse_printFieldOK`     the field clause of `printStable`; `printStable_split`:
                                 printStable e = printFieldOK e && printNumOK e, so `parse_printStable` needs only the
                                 numeric clause `printNumOK` (finding K-json-float-exp)
    `parse_kindStable_iff`   (`slashNotAlnum`) kindStable e ↔ leavesStable e — the decidable condition on the leaves:
                             no Literal string leaf that reads as a pattern, no integer-valued float, no int bound
                             beyond 2^53; `leaf_unstable_cases` says which TOKENS produce such a leaf: a quoted string
                             with `*`/`?` or /slashes/, a float text that is an integer, and — a FOURTH case — a bare
                             word with escaped slashes (`escaped_slash_retyped`: the query `a:\/x\/`).
  End to end: `query_decodes`, `query_roundtrip`, `query_roundtrip'`, `query_deep_equal` (§9), with the law
  structures `JsonLaws`, `NumLaws`, `FmtLaws` of JsonRoundTrip as hypotheses, and with `depthOK e` (the encoding nests
  at most 10000 arrays / objects, the limit of encoding/json's scanner) as an explicit hypothesis on the parse result:
  it does NOT follow from `parseQuery … = .ok e` (a query may nest more than 10000 parentheses / NOTs), and without it
  the decode clause is false of the model (`Laws.decode_needs_depth`).  `noBigIntBound` now also excludes
  integer-valued FLOAT range bounds beyond 2^53 (`JsonRoundTrip.reencode_needs_noBigFloatBound`).
  §10: the exclusions through the whole of `lucene.Parse` on concrete queries, necessity of the hypotheses, non-vacuity.
-/
set_option linter.unusedSimpArgs false
set_option linter.unusedVariables false
set_option linter.unusedSectionVars false

namespace GoLucene
namespace JsonParse

open JsonRoundTrip NoPanic LexSlash

/-! ## 1. what the constructor semantics builds, as an inductive predicate

  `Built Q df e`: `e` is built by the reducers (through the constructor `mkExpr`) from leaves `parseLiteral t` of tokens
  satisfying `Q`.  One induction over the tree of reductions (`sem_built`) — every property below is an induction
  over `Built`. -/

inductive Built (Q : Tok → Prop) (df : Bytes) : Expr → Prop
  | leaf (t : Tok) : Q t → Built Q df (parseLiteral t)
  | inn (f' v' : Expr) : Built Q df f' → Built Q df v' →
      Built Q df (.mk (.expr (fieldE .in_ f')) .in_ (.expr (mkList (ExprList.ofList (chainedOrLiterals v').1))) F64.one 1)
  | eq (f' v' : Expr) : Built Q df f' → Built Q df v' → ¬ (v'.op = .wild ∨ v'.op = .regexp) →
      Built Q df (.mk (.expr (fieldE .equals f')) .equals (.expr v') F64.one 1)
  | like (f' v' : Expr) : Built Q df f' → Built Q df v' → (v'.op = .wild ∨ v'.op = .regexp) →
      Built Q df (.mk (.expr (fieldE .equals f')) .like (.expr v') F64.one 1)
  | cmp (gt orEq : Bool) (f' v' : Expr) : Built Q df f' → Built Q df v' →
      Built Q df (.mk (.expr (fieldE (cmpOp gt orEq) f')) (cmpOp gt orEq) (.expr v') F64.one 1)
  | range (f' lo' hi' : Expr) (incl : Bool) : Built Q df f' → Built Q df lo' → Built Q df hi' →
      Built Q df (.mk (.expr (fieldE .range f')) .range (.bound (.expr lo') (.expr hi') incl) F64.one 1)
  | and (l' r' : Expr) : Built Q df l' → Built Q df r' → Built Q df (.mk (.expr l') .and (.expr r') F64.one 1)
  | or (l' r' : Expr) : Built Q df l' → Built Q df r' → Built Q df (.mk (.expr l') .or (.expr r') F64.one 1)
  | not (x' : Expr) : Built Q df x' → Built Q df (.mk (.expr x') .not .nil F64.one 1)
  | must (x' : Expr) : Built Q df x' → Built Q df (.mk (.expr x') .must .nil F64.one 1)
  | mustNot (x' : Expr) : Built Q df x' → Built Q df (.mk (.expr x') .mustNot .nil F64.one 1)
  | fuzzy (x' : Expr) (s : Bytes) (i : Int) : Built Q df x' → atoi s = some i →
      Built Q df (.mk (.expr x') .fuzzy .nil F64.one i)
  | boost (x' : Expr) (f : F64) : Built Q df x' → Built Q df (.mk (.expr x') .boost .nil f 1)
  | wrap (e : Expr) : Built Q df e → e.op = .literal →
      Built Q df (.mk (.expr (lit (.prim (.col df)))) .equals (.expr e) F64.one 1)

theorem built_wrapE {Q : Tok → Prop} {df : Bytes} {e : Expr} (h : Built Q df e) : Built Q df (wrapE df e) := by
  unfold wrapE
  split
  · rename_i hc
    simp only [Bool.and_eq_true, decide_eq_true_eq] at hc
    exact .wrap e h hc.1
  · exact h

theorem built_eqE {Q : Tok → Prop} {df : Bytes} {f' v' : Expr} (hf : Built Q df f') (hv : Built Q df v') :
    Built Q df (eqE f' v') := by
  unfold eqE
  split
  · exact .inn f' v' hf hv
  · by_cases hw : v'.op = .wild ∨ v'.op = .regexp
    · rw [if_pos hw]; exact .like f' v' hf hv hw
    · rw [if_neg hw]; exact .eq f' v' hf hv hw

/-- every result of the constructor semantics is `Built` from its leaf tokens -/
theorem sem_built (env : Env) (df : Bytes) (Q : Tok → Prop) : ∀ (ex : Ex) (e : Expr), (∀ t ∈ ex.leaves, Q t) →
    sem env df ex = .ok e → Built Q df e
  | .leaf t, e, hl, h => by
    simp [sem] at h
    subst h
    exact .leaf t (hl t (by simp [Ex.leaves]))
  | .eq f v, e, hl, h => by
    obtain ⟨f', v', hf, hv, rfl⟩ := sem_eq_inv h
    exact built_eqE (sem_built env df Q f f' (fun t ht => hl t (by simp [Ex.leaves, ht])) hf)
      (sem_built env df Q v v' (fun t ht => hl t (by simp [Ex.leaves, ht])) hv)
  | .inn f vs, e, _, h => by simp [sem] at h
  | .cmp gt orEq f v, e, hl, h => by
    obtain ⟨f', v', hf, hv, rfl⟩ := sem_cmp_inv h
    exact .cmp gt orEq f' v' (sem_built env df Q f f' (fun t ht => hl t (by simp [Ex.leaves, ht])) hf)
      (sem_built env df Q v v' (fun t ht => hl t (by simp [Ex.leaves, ht])) hv)
  | .range f lo hi incl, e, hl, h => by
    obtain ⟨f', lo', hi', hf, hlo, hhi, rfl⟩ := sem_range_inv h
    exact .range f' lo' hi' incl (sem_built env df Q f f' (fun t ht => hl t (by simp [Ex.leaves, ht])) hf)
      (sem_built env df Q lo lo' (fun t ht => hl t (by simp [Ex.leaves, ht])) hlo)
      (sem_built env df Q hi hi' (fun t ht => hl t (by simp [Ex.leaves, ht])) hhi)
  | .and l r, e, hl, h => by
    obtain ⟨l', r', h1, h2, rfl⟩ := sem_and_inv h
    exact .and _ _ (built_wrapE (sem_built env df Q l l' (fun t ht => hl t (by simp [Ex.leaves, ht])) h1))
      (built_wrapE (sem_built env df Q r r' (fun t ht => hl t (by simp [Ex.leaves, ht])) h2))
  | .or l r, e, hl, h => by
    obtain ⟨l', r', h1, h2, rfl⟩ := sem_or_inv h
    exact .or _ _ (built_wrapE (sem_built env df Q l l' (fun t ht => hl t (by simp [Ex.leaves, ht])) h1))
      (built_wrapE (sem_built env df Q r r' (fun t ht => hl t (by simp [Ex.leaves, ht])) h2))
  | .not x, e, hl, h => by
    obtain ⟨x', h1, rfl⟩ := sem_not_inv h
    exact .not _ (built_wrapE (sem_built env df Q x x' (fun t ht => hl t (by simp [Ex.leaves, ht])) h1))
  | .must x, e, hl, h => by
    obtain ⟨x', h1, rfl⟩ := sem_must_inv h
    exact .must _ (sem_built env df Q x x' (fun t ht => hl t (by simp [Ex.leaves, ht])) h1)
  | .mustNot x, e, hl, h => by
    obtain ⟨x', h1, rfl⟩ := sem_mustNot_inv h
    exact .mustNot _ (sem_built env df Q x x' (fun t ht => hl t (by simp [Ex.leaves, ht])) h1)
  | .fuzzy x none, e, hl, h => by
    obtain ⟨x', h1, rfl⟩ := sem_fuzzy0_inv h
    exact .fuzzy _ (b "1") 1 (sem_built env df Q x x' (fun t ht => hl t (by simp [Ex.leaves, ht])) h1) (by decide)
  | .fuzzy x (some dd), e, hl, h => by
    obtain ⟨x', d', s, i, h1, _, _, ha, rfl⟩ := sem_fuzzy1_inv h
    exact .fuzzy _ s i (sem_built env df Q x x' (fun t ht => hl t (by simp [Ex.leaves, ht])) h1) ha
  | .boost x none, e, hl, h => by
    obtain ⟨x', h1, rfl⟩ := sem_boost0_inv h
    exact .boost _ _ (sem_built env df Q x x' (fun t ht => hl t (by simp [Ex.leaves, ht])) h1)
  | .boost x (some pp), e, hl, h => by
    obtain ⟨x', d', s, f, h1, _, _, _, rfl⟩ := sem_boost1_inv h
    exact .boost _ _ (sem_built env df Q x x' (fun t ht => hl t (by simp [Ex.leaves, ht])) h1)

/-- the default-field edge case at accept keeps the property -/
theorem finalize_built (env : Env) (df : Bytes) (Q : Tok → Prop) (ex : Ex) (e : Expr) (hl : ∀ t ∈ ex.leaves, Q t)
    (h : finalize env df ex = .ok e) : Built Q df e := by
  unfold finalize at h
  obtain ⟨e0, hs, h⟩ := bind_ok h
  have b0 := sem_built env df Q ex e0 hl hs
  simp only [] at h
  split at h
  · rename_i hc
    simp only [Bool.and_eq_true, decide_eq_true_eq] at hc
    rw [mkExpr_wrapStr df e0 hc.1] at h
    obtain ⟨fin, hf, h⟩ := bind_ok h
    cases hf
    split at h
    · cases h; exact .wrap e0 b0 hc.1
    · cases h
  · obtain ⟨fin, hf, h⟩ := bind_ok h
    cases hf
    split at h
    · cases h; exact b0
    · cases h

/-- **every expression `lucene.Parse` returns is built from leaves of tokens of the query** -/
theorem parse_built (env : Env) (s df : Bytes) (e : Expr) (h : parseQuery env s df = .ok e) :
    Built (fun t => t ∈ tokensOf env s) df e := by
  unfold parseQuery parseTokens at h
  split at h
  · cases h
  · rename_i ex hp
    exact finalize_built env df _ ex e (parse_leaves_mem _ _ ex (tokensOf_no_eof env s) hp) h

/-- … and has the strict parser shape and passes Validate (restated from Proofs/NoPanic.lean) -/
theorem parse_shape (env : Env) (s df : Bytes) (e : Expr) (h : parseQuery env s df = .ok e) :
    semShapeT e = true ∧ validateExpr e = true := by
  unfold parseQuery parseTokens at h
  split at h
  · cases h
  · rename_i ex _
    exact finalize_shapeT env df ex e h

/-! ## 2. leaves, fields, value lists -/

/-- the five kinds of leaves `parseLiteral` builds -/
theorem parseLiteral_cases (t : Tok) :
    (∃ s, parseLiteral t = lit (.prim (.str s)) ∧
        ((t.typ = .quoted ∧ s = t.val.filter (· != 34)) ∨
         (t.typ ≠ .quoted ∧ t.typ ≠ .regexp ∧ containsWild t.val = false ∧
           ((s = unescape t.val ∧ t.val.any (· == 92) = true) ∨
            (s = t.val ∧ t.val.any (· == 92) = false))))) ∨
    (t.typ = .regexp ∧ parseLiteral t = mkLeaf (.prim (.str t.val)) .regexp) ∨
    (t.typ ≠ .quoted ∧ t.typ ≠ .regexp ∧ containsWild t.val = true ∧
      parseLiteral t = mkLeaf (.prim (.str t.val)) .wild) ∨
    (∃ i, atoi t.val = some i ∧ parseLiteral t = lit (.prim (.int i))) ∨
    (∃ f, parseLiteral t = lit (.prim (.flt f))) := by
  unfold parseLiteral
  split
  · rename_i hq
    exact .inl ⟨_, rfl, .inl ⟨hq, rfl⟩⟩
  · rename_i hq
    split
    · rename_i hr
      exact .inr (.inl ⟨hr, rfl⟩)
    · rename_i hr
      split
      · rename_i i hi
        exact .inr (.inr (.inr (.inl ⟨i, hi, rfl⟩)))
      · split
        · rename_i f _
          exact .inr (.inr (.inr (.inr ⟨f, rfl⟩)))
        · split
          · rename_i hw
            exact .inr (.inr (.inl ⟨hq, hr, hw, rfl⟩))
          · rename_i hw
            have hw' : containsWild t.val = false := by simpa using hw
            split
            · rename_i hb
              exact .inl ⟨_, rfl, .inr ⟨hq, hr, hw', .inl ⟨rfl, hb⟩⟩⟩
            · rename_i hb
              exact .inl ⟨_, rfl, .inr ⟨hq, hr, hw', .inr ⟨rfl, Bool.eq_false_iff.mpr hb⟩⟩⟩

theorem literalToExpr_plain (s : Bytes) (h1 : looksRegexp s = false) (h2 : containsWild s = false) :
    literalToExpr (.prim (.str s)) = lit (.prim (.str s)) := by
  simp only [literalToExpr, h1, h2, Bool.false_eq_true, if_false]

theorem literalToExpr_regexp (s : Bytes) (h1 : looksRegexp s = true) :
    literalToExpr (.prim (.str s)) = mkLeaf (.prim (.str s)) .regexp := by
  simp only [literalToExpr, h1, if_true]

theorem literalToExpr_wild (s : Bytes) (h1 : looksRegexp s = false) (h2 : containsWild s = true) :
    literalToExpr (.prim (.str s)) = mkLeaf (.prim (.str s)) .wild := by
  simp only [literalToExpr, h1, h2, Bool.false_eq_true, if_false, if_true]

/-- the operator of a leaf is a leaf operator -/
theorem parseLiteral_leafop (t : Tok) : ∃ q o, parseLiteral t = .mk (.prim q) o .nil F64.one 1 ∧
    (o = .literal || o = .wild || o = .regexp) = true := by
  rcases parseLiteral_cases t with ⟨s, h, _⟩ | ⟨_, h⟩ | ⟨_, _, _, h⟩ | ⟨i, _, h⟩ | ⟨f, h⟩ <;>
    exact ⟨_, _, h, rfl⟩

/-- the field position: the wrapped Column of a string leaf, or the operand itself when its left side is no string -/
theorem fieldE_cases (op : Op) (a : Expr) :
    (∃ s o r p d, a = .mk (.prim (.str s)) o r p d ∧ operatesOnColumn op = true ∧ fieldE op a = lit (.prim (.col s))) ∨
    (fieldE op a = a ∧ (operatesOnColumn op = true → ∀ s, a.left ≠ .prim (.str s))) := by
  obtain ⟨l, o, r, p, d⟩ := a
  cases l with
  | prim q =>
    cases q with
    | str s =>
      by_cases hc : operatesOnColumn op = true
      · exact .inl ⟨s, o, r, p, d, rfl, hc, by simp [fieldE, hc]⟩
      · exact .inr ⟨by simp [fieldE, hc], fun h => absurd h hc⟩
    | _ => exact .inr ⟨by simp [fieldE], fun _ s h => by simp [Expr.left] at h⟩
  | _ => exact .inr ⟨by simp [fieldE], fun _ s h => by simp [Expr.left] at h⟩

/-- the literals of an OR-chain carry the Literal operator -/
theorem chained_op : ∀ (e : Expr), ∀ x ∈ (chainedOrLiterals e).1, x.op = .literal
  | .mk l o r p d => by
    intro x hx
    unfold chainedOrLiterals at hx
    split at hx
    · rename_i ho
      simp at hx
      subst hx
      exact ho
    · split at hx
      · split at hx
        · rename_i le re
          simp only [List.mem_append] at hx
          rcases hx with hx | hx
          · exact chained_op le x hx
          · exact chained_op re x hx
        · simp at hx
      · simp at hx

/-- a property inherited by the two operands of an OR node holds of every literal of an OR-chain -/
theorem chained_of (P : Expr → Prop)
    (hor : ∀ le re p d, P (.mk (.expr le) .or (.expr re) p d) → P le ∧ P re) :
    ∀ (e : Expr), P e → ∀ x ∈ (chainedOrLiterals e).1, P x
  | .mk l o r p d => by
    intro he x hx
    unfold chainedOrLiterals at hx
    split at hx
    · simp at hx
      subst hx
      exact he
    · split at hx
      · rename_i ho
        subst ho
        split at hx
        · rename_i le re
          have := hor le re p d he
          simp only [List.mem_append] at hx
          rcases hx with hx | hx
          · exact chained_of P hor le this.1 x hx
          · exact chained_of P hor re this.2 x hx
        · simp at hx
      · simp at hx

/-- strconv.Atoi only returns int64 values -/
theorem atoi_int64 (s : Bytes) (i : Int) (h : atoi s = some i) : isInt64 i = true := by
  unfold atoi at h
  split at h
  · cases h
  · split at h
    · split at h
      · rename_i n _
        split at h
        · rename_i hn
          cases h
          simp only [isInt64, decide_eq_true_eq, Num.two63] at hn ⊢
          omega
        · cases h
      · cases h
    · split at h
      · rename_i n _
        split at h
        · rename_i hn
          cases h
          simp only [isInt64, decide_eq_true_eq, Num.two63] at hn ⊢
          omega
        · cases h
      · cases h

/-! ## 3. `fieldsCanon` and `intsInt64` -/

theorem eq_one_one : F64.eq F64.one F64.one = true := by decide

theorem cmpOp_nonleaf (gt orEq : Bool) :
    (cmpOp gt orEq = .literal || cmpOp gt orEq = .wild || cmpOp gt orEq = .regexp) = false := by
  cases gt <;> cases orEq <;> rfl

theorem fc_leafop (l : Node) (o : Op) (r : Node) (p : F64) (d : Int)
    (ho : (o = .literal || o = .wild || o = .regexp) = true) : fieldsCanon (.mk l o r p d) = true := by
  simp only [fieldsCanon, ho, if_true]

theorem fc_node (l : Node) (o : Op) (r : Node) (p : F64) (d : Int)
    (ho : (o = .literal || o = .wild || o = .regexp) = false)
    (hp : (decide (o = .boost) || F64.eq p F64.one) = true) (hd : (decide (o = .fuzzy) || decide (d = 1)) = true)
    (hl : fieldsCanonNode l = true) (hr : fieldsCanonNode r = true) : fieldsCanon (.mk l o r p d) = true := by
  simp only [fieldsCanon, ho, hp, hd, hl, hr, Bool.false_eq_true, if_false, Bool.and_self]

theorem fc_lit (q : Prim) : fieldsCanon (lit (.prim q)) = true := fc_leafop _ _ _ _ _ rfl

theorem fc_fieldE (op : Op) (a : Expr) (h : fieldsCanon a = true) : fieldsCanon (fieldE op a) = true := by
  rcases fieldE_cases op a with ⟨s, o, r, p, d, _, _, h'⟩ | ⟨h', _⟩
  · rw [h']; exact fc_lit _
  · rw [h']; exact h

theorem fc_ofList : ∀ (lits : List Expr), (∀ x ∈ lits, fieldsCanon x = true) →
    fieldsCanonList (ExprList.ofList lits) = true
  | [], _ => by simp only [ExprList.ofList, fieldsCanonList]
  | x :: xs, h => by
    simp only [ExprList.ofList, fieldsCanonList, h x (by simp), fc_ofList xs (fun y hy => h y (by simp [hy])),
      Bool.and_self]

theorem fc_or_inv (le re : Expr) (p : F64) (d : Int) (h : fieldsCanon (.mk (.expr le) .or (.expr re) p d) = true) :
    fieldsCanon le = true ∧ fieldsCanon re = true := by
  simp only [fieldsCanon, fieldsCanonNode, Bool.and_eq_true] at h
  simp at h
  exact ⟨h.1.2, h.2⟩

theorem fc_mkList (es : ExprList) (h : fieldsCanonList es = true) : fieldsCanon (mkList es) = true :=
  fc_node _ _ _ _ _ rfl (by simp [eq_one_one]) (by simp) (by simpa [fieldsCanonNode] using h) (by simp [fieldsCanonNode])

theorem fcN_expr (e : Expr) (h : fieldsCanon e = true) : fieldsCanonNode (.expr e) = true := by
  simpa [fieldsCanonNode] using h

theorem fcN_nil : fieldsCanonNode .nil = true := by simp [fieldsCanonNode]

/-- (1) `boost` / `fuzzy` are at their defaults except on Boost / Fuzzy nodes -/
theorem built_fieldsCanon {Q : Tok → Prop} {df : Bytes} {e : Expr} (h : Built Q df e) : fieldsCanon e = true := by
  induction h with
  | leaf t _ =>
    obtain ⟨q, o, h, ho⟩ := parseLiteral_leafop t
    rw [h]; exact fc_leafop _ _ _ _ _ ho
  | inn f' v' _ _ ihf ihv =>
    refine fc_node _ _ _ _ _ rfl (by simp [eq_one_one]) (by simp) (fcN_expr _ (fc_fieldE _ _ ihf)) (fcN_expr _ ?_)
    exact fc_mkList _ (fc_ofList _ (chained_of (fun x => fieldsCanon x = true) fc_or_inv v' ihv))
  | eq f' v' _ _ _ ihf ihv =>
    exact fc_node _ _ _ _ _ rfl (by simp [eq_one_one]) (by simp) (fcN_expr _ (fc_fieldE _ _ ihf)) (fcN_expr _ ihv)
  | like f' v' _ _ _ ihf ihv =>
    exact fc_node _ _ _ _ _ rfl (by simp [eq_one_one]) (by simp) (fcN_expr _ (fc_fieldE _ _ ihf)) (fcN_expr _ ihv)
  | cmp gt orEq f' v' _ _ ihf ihv =>
    exact fc_node _ _ _ _ _ (cmpOp_nonleaf gt orEq) (by simp [eq_one_one]) (by simp) (fcN_expr _ (fc_fieldE _ _ ihf))
      (fcN_expr _ ihv)
  | range f' lo' hi' incl _ _ _ ihf _ _ =>
    exact fc_node _ _ _ _ _ rfl (by simp [eq_one_one]) (by simp) (fcN_expr _ (fc_fieldE _ _ ihf))
      (by simp [fieldsCanonNode])
  | and l' r' _ _ ihl ihr =>
    exact fc_node _ _ _ _ _ rfl (by simp [eq_one_one]) (by simp) (fcN_expr _ ihl) (fcN_expr _ ihr)
  | or l' r' _ _ ihl ihr =>
    exact fc_node _ _ _ _ _ rfl (by simp [eq_one_one]) (by simp) (fcN_expr _ ihl) (fcN_expr _ ihr)
  | not x' _ ih => exact fc_node _ _ _ _ _ rfl (by simp [eq_one_one]) (by simp) (fcN_expr _ ih) fcN_nil
  | must x' _ ih => exact fc_node _ _ _ _ _ rfl (by simp [eq_one_one]) (by simp) (fcN_expr _ ih) fcN_nil
  | mustNot x' _ ih => exact fc_node _ _ _ _ _ rfl (by simp [eq_one_one]) (by simp) (fcN_expr _ ih) fcN_nil
  | fuzzy x' s i _ _ ih => exact fc_node _ _ _ _ _ rfl (by simp [eq_one_one]) (by simp) (fcN_expr _ ih) fcN_nil
  | boost x' f _ ih => exact fc_node _ _ _ _ _ rfl (by simp) (by simp) (fcN_expr _ ih) fcN_nil
  | wrap e _ _ ih =>
    exact fc_node _ _ _ _ _ rfl (by simp [eq_one_one]) (by simp) (fcN_expr _ (fc_lit _)) (fcN_expr _ ih)

theorem ii_node (l : Node) (o : Op) (r : Node) (p : F64) (d : Int) (hd : isInt64 d = true)
    (hl : intsInt64Node l = true) (hr : intsInt64Node r = true) : intsInt64 (.mk l o r p d) = true := by
  simp only [intsInt64, hd, hl, hr, Bool.and_self]

theorem ii_one : isInt64 1 = true := by decide

theorem ii_lit (q : Prim) (h : primIntOK q = true) (o : Op) : intsInt64 (mkLeaf (.prim q) o) = true :=
  ii_node _ _ _ _ _ ii_one (by simpa [intsInt64Node] using h) (by simp [intsInt64Node])

theorem iiN_expr (e : Expr) (h : intsInt64 e = true) : intsInt64Node (.expr e) = true := by
  simpa [intsInt64Node] using h

theorem iiN_nil : intsInt64Node .nil = true := by simp [intsInt64Node]

theorem ii_fieldE (op : Op) (a : Expr) (h : intsInt64 a = true) : intsInt64 (fieldE op a) = true := by
  rcases fieldE_cases op a with ⟨s, o, r, p, d, _, _, h'⟩ | ⟨h', _⟩
  · rw [h']; exact ii_lit _ rfl _
  · rw [h']; exact h

theorem ii_ofList : ∀ (lits : List Expr), (∀ x ∈ lits, intsInt64 x = true) →
    intsInt64List (ExprList.ofList lits) = true
  | [], _ => by simp only [ExprList.ofList, intsInt64List]
  | x :: xs, h => by
    simp only [ExprList.ofList, intsInt64List, h x (by simp), ii_ofList xs (fun y hy => h y (by simp [hy])),
      Bool.and_self]

theorem ii_or_inv (le re : Expr) (p : F64) (d : Int) (h : intsInt64 (.mk (.expr le) .or (.expr re) p d) = true) :
    intsInt64 le = true ∧ intsInt64 re = true := by
  simp only [intsInt64, intsInt64Node, Bool.and_eq_true] at h
  exact ⟨h.1.2, h.2⟩

theorem ii_mkList (es : ExprList) (h : intsInt64List es = true) : intsInt64 (mkList es) = true :=
  ii_node _ _ _ _ _ ii_one (by simpa [intsInt64Node] using h) iiN_nil

theorem ii_parseLiteral (t : Tok) : intsInt64 (parseLiteral t) = true := by
  rcases parseLiteral_cases t with ⟨s, h, _⟩ | ⟨_, h⟩ | ⟨_, _, _, h⟩ | ⟨i, hi, h⟩ | ⟨f, h⟩
  · rw [h]; exact ii_lit _ rfl _
  · rw [h]; exact ii_lit _ rfl _
  · rw [h]; exact ii_lit _ rfl _
  · rw [h]; exact ii_lit (.int i) (atoi_int64 _ i hi) _
  · rw [h]; exact ii_lit _ rfl _

/-- (2) every int leaf and every fuzzy distance is an int64: they come from `strconv.Atoi` -/
theorem built_intsInt64 {Q : Tok → Prop} {df : Bytes} {e : Expr} (h : Built Q df e) : intsInt64 e = true := by
  induction h with
  | leaf t _ => exact ii_parseLiteral t
  | inn f' v' _ _ ihf ihv =>
    refine ii_node _ _ _ _ _ ii_one (iiN_expr _ (ii_fieldE _ _ ihf)) (iiN_expr _ ?_)
    exact ii_mkList _ (ii_ofList _ (chained_of (fun x => intsInt64 x = true) ii_or_inv v' ihv))
  | eq f' v' _ _ _ ihf ihv => exact ii_node _ _ _ _ _ ii_one (iiN_expr _ (ii_fieldE _ _ ihf)) (iiN_expr _ ihv)
  | like f' v' _ _ _ ihf ihv => exact ii_node _ _ _ _ _ ii_one (iiN_expr _ (ii_fieldE _ _ ihf)) (iiN_expr _ ihv)
  | cmp gt orEq f' v' _ _ ihf ihv => exact ii_node _ _ _ _ _ ii_one (iiN_expr _ (ii_fieldE _ _ ihf)) (iiN_expr _ ihv)
  | range f' lo' hi' incl _ _ _ ihf ihlo ihhi =>
    exact ii_node _ _ _ _ _ ii_one (iiN_expr _ (ii_fieldE _ _ ihf)) (by simp [intsInt64Node, ihlo, ihhi])
  | and l' r' _ _ ihl ihr => exact ii_node _ _ _ _ _ ii_one (iiN_expr _ ihl) (iiN_expr _ ihr)
  | or l' r' _ _ ihl ihr => exact ii_node _ _ _ _ _ ii_one (iiN_expr _ ihl) (iiN_expr _ ihr)
  | not x' _ ih => exact ii_node _ _ _ _ _ ii_one (iiN_expr _ ih) iiN_nil
  | must x' _ ih => exact ii_node _ _ _ _ _ ii_one (iiN_expr _ ih) iiN_nil
  | mustNot x' _ ih => exact ii_node _ _ _ _ _ ii_one (iiN_expr _ ih) iiN_nil
  | fuzzy x' s i _ ha ih => exact ii_node _ _ _ _ _ (atoi_int64 s i ha) (iiN_expr _ ih) iiN_nil
  | boost x' f _ ih => exact ii_node _ _ _ _ _ ii_one (iiN_expr _ ih) iiN_nil
  | wrap e _ _ ih => exact ii_node _ _ _ _ _ ii_one (iiN_expr _ (ii_lit _ rfl _)) (iiN_expr _ ih)

/-! ## 4. `likeKindOK` -/

/-- a pattern operand (Wild / Regexp) is the leaf of a token -/
theorem built_pattern {Q : Tok → Prop} {df : Bytes} {v : Expr} (h : Built Q df v)
    (hop : v.op = .wild ∨ v.op = .regexp) : ∃ t, Q t ∧ v = parseLiteral t := by
  cases h with
  | leaf t hq => exact ⟨t, hq, rfl⟩
  | cmp gt orEq f' v' _ _ =>
    exfalso
    cases gt <;> cases orEq <;> simp [Expr.op, cmpOp] at hop
  | _ => exfalso; simp [Expr.op] at hop

theorem looksRegexp_of_slashDelim (s : Bytes) (h : slashDelim s) : looksRegexp s = true := by
  obtain ⟨h1, h2, h3⟩ := h
  cases s with
  | nil => simp at h2
  | cons c s' =>
    simp only [List.head?_cons, Option.some.injEq] at h2
    subst h2
    simp only [looksRegexp, h3]
    rfl

theorem looksRegexp_head (s : Bytes) (h : s.head? ≠ some 47) : looksRegexp s = false := by
  cases s with
  | nil => rfl
  | cons c s' =>
    simp only [List.head?_cons, ne_eq, Option.some.injEq] at h
    simp [looksRegexp, h]

/-- the leaf of a lexer token that is a pattern keeps its operator through the decoder -/
theorem retype_pattern (t : Tok) (ht : TokOK t) :
    ((parseLiteral t).op = .regexp → retype (parseLiteral t) = parseLiteral t) ∧
    ((parseLiteral t).op = .wild → retype (parseLiteral t) = parseLiteral t) := by
  rcases parseLiteral_cases t with ⟨s, h, _⟩ | ⟨hr, h⟩ | ⟨hq, hr, hw, h⟩ | ⟨i, hi, h⟩ | ⟨f, h⟩
  · rw [h]; constructor <;> (intro h'; simp [lit, mkLeaf, Expr.op] at h')
  · refine ⟨fun _ => ?_, fun h' => ?_⟩
    · rw [h]
      have := looksRegexp_of_slashDelim _ (ht.1 hr)
      simp only [mkLeaf]
      rw [retype_leaf _ _ _ _ _ rfl]
      simp only [retypePrim, literalToExpr, this, if_true, mkLeaf]
    · rw [h] at h'; simp [mkLeaf, Expr.op] at h'
  · refine ⟨fun h' => ?_, fun _ => ?_⟩
    · rw [h] at h'; simp [mkLeaf, Expr.op] at h'
    · rw [h]
      have := looksRegexp_head _ (ht.2 hr hq)
      simp only [mkLeaf]
      rw [retype_leaf _ _ _ _ _ rfl]
      simp only [retypePrim, literalToExpr, this, hw, if_true, Bool.false_eq_true, if_false, mkLeaf]
  · rw [h]; constructor <;> (intro h'; simp [lit, mkLeaf, Expr.op] at h')
  · rw [h]; constructor <;> (intro h'; simp [lit, mkLeaf, Expr.op] at h')

theorem lk_node (l : Node) (o : Op) (r : Node) (p : F64) (d : Int) (ho : o ≠ .like)
    (hl : likeKindOKNode l = true) (hr : likeKindOKNode r = true) : likeKindOK (.mk l o r p d) = true := by
  simp only [likeKindOK, ho, if_false, hl, hr, Bool.and_self]

theorem lk_like (l : Node) (re : Expr) (p : F64) (d : Int)
    (hre : (retype re).op = .wild ∨ (retype re).op = .regexp)
    (hl : likeKindOKNode l = true) (hr : likeKindOK re = true) : likeKindOK (.mk l .like (.expr re) p d) = true := by
  have : (decide ((retype re).op = .wild) || decide ((retype re).op = .regexp)) = true := by
    rcases hre with h | h <;> simp [h]
  simp only [likeKindOK, if_true, this, hl, likeKindOKNode, hr, Bool.and_self]

theorem lkN_expr (e : Expr) (h : likeKindOK e = true) : likeKindOKNode (.expr e) = true := by
  simpa [likeKindOKNode] using h

theorem lkN_nil : likeKindOKNode .nil = true := by simp [likeKindOKNode]

theorem lk_lit (q : Prim) (o : Op) (ho : o ≠ .like) : likeKindOK (mkLeaf (.prim q) o) = true :=
  lk_node _ _ _ _ _ ho (by simp [likeKindOKNode]) lkN_nil

theorem lk_fieldE (op : Op) (a : Expr) (h : likeKindOK a = true) : likeKindOK (fieldE op a) = true := by
  rcases fieldE_cases op a with ⟨s, o, r, p, d, _, _, h'⟩ | ⟨h', _⟩
  · rw [h']; exact lk_lit _ _ (by decide)
  · rw [h']; exact h

theorem lk_parseLiteral (t : Tok) : likeKindOK (parseLiteral t) = true := by
  obtain ⟨q, o, h, ho⟩ := parseLiteral_leafop t
  rw [h]
  exact lk_node _ _ _ _ _ (by intro h'; subst h'; simp at ho) (by simp [likeKindOKNode]) lkN_nil

theorem cmpOp_ne_like (gt orEq : Bool) : cmpOp gt orEq ≠ .like := by cases gt <;> cases orEq <;> simp [cmpOp]

/-! ### (3) without the class-table hypothesis

  `likeKindOK` itself holds for EVERY class table: a regexp token is slash-delimited whatever the letters are (the
  lexer enters `lexRegexp` on the rune `/` only), and a Wild leaf contains `*` / `?`, so the decoder gives it a pattern
  operator (Wild, or Regexp when `/` is a letter and the word is slash-delimited). -/

/-- a regexp token is slash-delimited -/
def TokR (t : Tok) : Prop := t.typ = .regexp → slashDelim t.val

theorem next_tok_regexp (k : Cls) (inp : List Cell) (hcells : ∀ c ∈ inp, CellOK c)
    (t : Tok) (ws w rest : List Cell) (h : next k inp = .tok t ws w rest) : TokR t := by
  have hd := dropWs_eq inp
  unfold next at h
  generalize dropWs inp = p at h hd
  obtain ⟨ws0, s⟩ := p
  simp only at h hd
  cases s with
  | nil => simp at h
  | cons c cs =>
    have hall : ∀ x ∈ c :: cs, CellOK x := fun x hx => hcells x (by rw [← hd.1]; simp [List.mem_append, hx])
    have hcc : CellOK c := hall c (by simp)
    simp only at h
    split at h
    · simp at h
      obtain ⟨rfl, _⟩ := h
      exact fun hr => absurd hr (kwOrLit_ne_regexp _)
    · split at h
      · rename_i ty hs
        simp at h
        obtain ⟨rfl, _⟩ := h
        exact fun hr => absurd hr (symbolOf_props _ _ hs).1
      · split at h
        · split at h
          · split at h
            · simp at h
              obtain ⟨rfl, _⟩ := h
              exact fun hr => absurd hr (kwOrLit_ne_regexp _)
            · simp at h; obtain ⟨rfl, _⟩ := h
              exact fun hr => by cases hr
          · simp at h; obtain ⟨rfl, _⟩ := h
            exact fun hr => by cases hr
        · split at h
          · split at h
            · simp at h; obtain ⟨rfl, _⟩ := h
              exact fun hr => by cases hr
            · simp at h
          · split at h
            · rename_i h47
              split at h
              · rename_i w0 rest0 hre
                simp at h; obtain ⟨rfl, _⟩ := h
                intro _
                obtain ⟨w', l, rfl, hl47⟩ := lexRegexp_last _ cs w0 rest0 (Nat.le_refl _) hre
                have hmem : l ∈ cs := by
                  have := lexRegexp_eq _ cs _ rest0 (Nat.le_refl _) hre
                  rw [← this]; simp
                have hl : CellOK l := hall l (by simp [hmem])
                have e1 : c.raw = [47] := hcc.1 h47
                have e2 : l.raw = [47] := hl.1 hl47
                have hv : cellsBytes (c :: (w' ++ [l])) = 47 :: (cellsBytes w' ++ [47]) := by
                  rw [cellsBytes_cons', cellsBytes_append', e1]
                  simp [cellsBytes, e2]
                show slashDelim (cellsBytes (c :: (w' ++ [l])))
                rw [hv]
                refine ⟨by simp, by simp, ?_⟩
                rw [← List.cons_append, List.getLast?_concat]
              · simp at h
            · simp at h

theorem lexAll_regexp (k : Cls) : ∀ (n : Nat) (inp : List Cell), inp.length ≤ n →
    (∀ c ∈ inp, CellOK c) → ∀ p ∈ (lexAll k inp).1, TokR p.2 := by
  intro n
  induction n with
  | zero =>
    intro inp h _
    have : inp = [] := List.length_eq_zero_iff.mp (by omega)
    subst this
    rw [lexAll]; simp [next, dropWs]
  | succ n ih =>
    intro inp hl hcells
    rw [lexAll]
    split
    · simp
    · simp
    · rename_i t ws w rest h
      have hn := next_tok k inp t ws w rest h
      have h1 := congrArg List.length hn.1
      have h2 : w.length ≠ 0 := by intro h0; exact hn.2.1 (List.length_eq_zero_iff.mp h0)
      have ihr := ih rest (by simp at h1; omega) (fun c hc => hcells c (by rw [← hn.1]; simp [hc]))
      generalize lexAll k rest = q at ihr ⊢
      obtain ⟨ts, e, tw, r⟩ := q
      intro p hp
      simp at hp
      rcases hp with rfl | hp
      · exact next_tok_regexp k inp hcells t ws w rest h
      · exact ihr p hp

/-- every regexp token the parser sees is slash-delimited — for every class table -/
theorem tokensOf_regexp (env : Env) (s : Bytes) : ∀ t ∈ tokensOf env s, TokR t := by
  intro t ht
  unfold tokensOf at ht
  simp only [List.mem_append, List.mem_map] at ht
  rcases ht with ⟨p, hp, rfl⟩ | ht
  · exact lexAll_regexp env.cls _ _ (Nat.le_refl _) (decode_cellOK _ s (Nat.le_refl _)) p hp
  · split at ht
    · simp at ht; subst ht
      exact fun h => by cases h
    · simp at ht

/-- the leaf of a token that is a pattern gets a pattern operator from the decoder -/
theorem retype_pattern_op (t : Tok) (ht : TokR t)
    (hop : (parseLiteral t).op = .wild ∨ (parseLiteral t).op = .regexp) :
    (retype (parseLiteral t)).op = .wild ∨ (retype (parseLiteral t)).op = .regexp := by
  rcases parseLiteral_cases t with ⟨s, h, _⟩ | ⟨hr, h⟩ | ⟨hq, hr, hw, h⟩ | ⟨i, hi, h⟩ | ⟨f, h⟩
  · rw [h] at hop; simp [lit, mkLeaf, Expr.op] at hop
  · right
    rw [h]
    have := looksRegexp_of_slashDelim _ (ht hr)
    simp only [mkLeaf]
    rw [retype_leaf _ _ _ _ _ rfl]
    simp only [retypePrim, literalToExpr, this, if_true, mkLeaf, Expr.op]
  · rw [h]
    simp only [mkLeaf]
    rw [retype_leaf _ _ _ _ _ rfl, retypePrim]
    by_cases h1 : looksRegexp t.val = true
    · right; rw [literalToExpr_regexp _ h1]; rfl
    · left; rw [literalToExpr_wild _ (by simpa using h1) hw]; rfl
  · rw [h] at hop; simp [lit, mkLeaf, Expr.op] at hop
  · rw [h] at hop; simp [lit, mkLeaf, Expr.op] at hop

/-- (3), for every class table -/
theorem built_likeKindOK' {Q : Tok → Prop} (hQ : ∀ t, Q t → TokR t) {df : Bytes} {e : Expr} (h : Built Q df e) :
    likeKindOK e = true := by
  induction h with
  | leaf t _ => exact lk_parseLiteral t
  | inn f' v' _ _ ihf ihv =>
    exact lk_node _ _ _ _ _ (by decide) (lkN_expr _ (lk_fieldE _ _ ihf))
      (lkN_expr _ (lk_node _ _ _ _ _ (by decide) (by simp [likeKindOKNode]) lkN_nil))
  | eq f' v' _ _ _ ihf ihv => exact lk_node _ _ _ _ _ (by decide) (lkN_expr _ (lk_fieldE _ _ ihf)) (lkN_expr _ ihv)
  | like f' v' _ hv hop ihf ihv =>
    obtain ⟨t, hq, rfl⟩ := built_pattern hv hop
    exact lk_like _ _ _ _ (retype_pattern_op t (hQ t hq) hop) (lkN_expr _ (lk_fieldE _ _ ihf)) ihv
  | cmp gt orEq f' v' _ _ ihf ihv =>
    exact lk_node _ _ _ _ _ (cmpOp_ne_like gt orEq) (lkN_expr _ (lk_fieldE _ _ ihf)) (lkN_expr _ ihv)
  | range f' lo' hi' incl _ _ _ ihf _ _ =>
    exact lk_node _ _ _ _ _ (by decide) (lkN_expr _ (lk_fieldE _ _ ihf)) (by simp [likeKindOKNode])
  | and l' r' _ _ ihl ihr => exact lk_node _ _ _ _ _ (by decide) (lkN_expr _ ihl) (lkN_expr _ ihr)
  | or l' r' _ _ ihl ihr => exact lk_node _ _ _ _ _ (by decide) (lkN_expr _ ihl) (lkN_expr _ ihr)
  | not x' _ ih => exact lk_node _ _ _ _ _ (by decide) (lkN_expr _ ih) lkN_nil
  | must x' _ ih => exact lk_node _ _ _ _ _ (by decide) (lkN_expr _ ih) lkN_nil
  | mustNot x' _ ih => exact lk_node _ _ _ _ _ (by decide) (lkN_expr _ ih) lkN_nil
  | fuzzy x' s i _ _ ih => exact lk_node _ _ _ _ _ (by decide) (lkN_expr _ ih) lkN_nil
  | boost x' f _ ih => exact lk_node _ _ _ _ _ (by decide) (lkN_expr _ ih) lkN_nil
  | wrap e _ _ ih => exact lk_node _ _ _ _ _ (by decide) (lkN_expr _ (lk_lit _ _ (by decide))) (lkN_expr _ ih)

/-- (3) with the class-table hypothesis: moreover the pattern leaf is re-typed the SAME way (`retype_pattern`) -/
theorem built_likeKindOK {Q : Tok → Prop} (hQ : ∀ t, Q t → TokOK t) {df : Bytes} {e : Expr} (h : Built Q df e) :
    likeKindOK e = true :=
  built_likeKindOK' (fun t ht => (hQ t ht).1) h

/-! ## 5. `allStringsValid`

  Lexer fact (`tokensOf_valid`): the text of every token of a valid-UTF-8 query is valid UTF-8 — a token is cut at
  cell (rune) boundaries of the decoded input.  UTF-8 facts: a valid prefix ends at a rune boundary
  (`decode_append_valid`), so valid strings concatenate; removing ASCII bytes (`"` from a quoted string, the escaping
  `\` from a bare word: what `parseLiteral` strips) from a valid string leaves a valid string (`validUtf8_filter_ascii`,
  `validUtf8_unescape`). -/

/-- a successfully decoded first rune does not depend on what follows its bytes -/
theorem decode1_extend (b0 : UInt8) (r t : Bytes) (h : decode1 b0 r ≠ (0xFFFD, 1)) :
    decode1 b0 (r ++ t) = decode1 b0 r := by
  unfold decode1 at h ⊢
  by_cases c1 : b0 < 0x80
  · simp only [c1, if_true]
  · simp only [c1, if_false] at h ⊢
    by_cases c2 : (0xC2 ≤ b0 && b0 ≤ 0xDF) = true
    · simp only [c2, if_true] at h ⊢
      rcases r with _ | ⟨b1, r⟩
      · exact absurd rfl h
      · rfl
    · simp only [c2, Bool.false_eq_true, if_false] at h ⊢
      by_cases c3 : (0xE0 ≤ b0 && b0 ≤ 0xEF) = true
      · simp only [c3, if_true] at h ⊢
        rcases r with _ | ⟨b1, _ | ⟨b2, r⟩⟩
        · exact absurd rfl h
        · exact absurd rfl h
        · rfl
      · simp only [c3, Bool.false_eq_true, if_false] at h ⊢
        by_cases c4 : (0xF0 ≤ b0 && b0 ≤ 0xF4) = true
        · simp only [c4, if_true] at h ⊢
          rcases r with _ | ⟨b1, _ | ⟨b2, _ | ⟨b3, r⟩⟩⟩
          · exact absurd rfl h
          · exact absurd rfl h
          · exact absurd rfl h
          · rfl
        · simp only [c4, Bool.false_eq_true, if_false] at h
          exact absurd rfl h

/-- the test of `validUtf8` on one cell -/
def okCell (c : Cell) : Bool := !(c.r == 0xFFFD && c.raw.length == 1)

theorem validUtf8_eq (s : Bytes) : validUtf8 s = (decode s).all okCell := rfl

theorem validUtf8_cons (b0 : UInt8) (r : Bytes) :
    validUtf8 (b0 :: r) =
      (okCell ⟨(decode1 b0 r).1, b0 :: r.take ((decode1 b0 r).2 - 1)⟩ &&
        validUtf8 (r.drop ((decode1 b0 r).2 - 1))) := by
  rw [validUtf8_eq, decode_cons, List.all_cons]; rfl

theorem okCell_first (b0 : UInt8) (r : Bytes)
    (h : okCell ⟨(decode1 b0 r).1, b0 :: r.take ((decode1 b0 r).2 - 1)⟩ = true) : decode1 b0 r ≠ (0xFFFD, 1) := by
  intro he
  rw [he] at h
  simp [okCell] at h

theorem decode_append_valid : ∀ (n : Nat) (a t : Bytes), a.length ≤ n → validUtf8 a = true →
    decode (a ++ t) = decode a ++ decode t := by
  intro n
  induction n with
  | zero =>
    intro a t h _
    have : a = [] := List.length_eq_zero_iff.mp (by omega)
    subst this
    rw [decode]; simp
  | succ n ih =>
    intro a t hl hv
    cases a with
    | nil => rw [decode]; simp
    | cons b0 r =>
      rw [validUtf8_cons, Bool.and_eq_true] at hv
      have hw := decode1_width b0 r
      have he := decode1_extend b0 r t (okCell_first b0 r hv.1)
      rw [List.cons_append, decode_cons, decode_cons, he, List.take_append_of_le_length (by omega),
        List.drop_append_of_le_length (by omega), ih _ t (by simp at hl ⊢; omega) hv.2]
      simp

/-- a valid prefix ends at a rune boundary -/
theorem validUtf8_append_valid (a t : Bytes) (ha : validUtf8 a = true) : validUtf8 (a ++ t) = validUtf8 t := by
  rw [validUtf8_eq, decode_append_valid _ a t (Nat.le_refl _) ha, List.all_append, ← validUtf8_eq, ← validUtf8_eq, ha,
    Bool.true_and]

/-- removing every occurrence of an ASCII byte from a valid string leaves a valid string -/
theorem validUtf8_filter_ascii (s : UInt8) (hs : s < 0x80) : ∀ (w a : Bytes), validUtf8 (a ++ w) = true →
    validUtf8 (a ++ w.filter (· != s)) = true
  | [], a, h => by simpa using h
  | c :: w', a, h => by
    by_cases hc : c = s
    · subst hc
      rw [QuotedVerbatim.validUtf8_append_ascii c hs, Bool.and_eq_true] at h
      have ih := validUtf8_filter_ascii c hs w' [] (by simpa using h.2)
      have : List.filter (· != c) (c :: w') = List.filter (· != c) w' := by simp
      rw [this, validUtf8_append_valid a _ h.1]
      simpa using ih
    · have ih := validUtf8_filter_ascii s hs w' (a ++ [c]) (by simpa using h)
      have : List.filter (· != s) (c :: w') = c :: List.filter (· != s) w' := by simp [hc]
      rw [this]
      simpa using ih

theorem validUtf8_filter (s : UInt8) (hs : s < 0x80) (w : Bytes) (h : validUtf8 w = true) :
    validUtf8 (w.filter (· != s)) = true := by
  simpa using validUtf8_filter_ascii s hs w [] (by simpa using h)

/-- `unescape` (parse.go, fix F13) removes backslash bytes only — some of them — so it leaves a valid string valid -/
theorem validUtf8_unescape_aux : ∀ (n : Nat) (w a : Bytes), w.length ≤ n → validUtf8 (a ++ w) = true →
    validUtf8 (a ++ unescape w) = true := by
  intro n
  induction n with
  | zero =>
    intro w a hl h
    have : w = [] := List.length_eq_zero_iff.mp (by omega)
    subst this
    simpa [unescape_nil] using h
  | succ n ih =>
    intro w a hl h
    cases w with
    | nil => simpa [unescape_nil] using h
    | cons c t =>
      by_cases hc : c = 92
      · subst hc
        rw [QuotedVerbatim.validUtf8_append_ascii 92 (by decide), Bool.and_eq_true] at h
        cases t with
        | nil => rw [unescape_bsl_single, List.append_nil]; exact h.1
        | cons d rest =>
          have ih' := ih rest [d] (by simp at hl ⊢; omega) (by simpa using h.2)
          rw [unescape_bsl_cons, validUtf8_append_valid a _ h.1]
          simpa using ih'
      · have ih' := ih t (a ++ [c]) (by simp at hl ⊢; omega) (by simpa using h)
        rw [unescape_cons_of_ne c hc]
        simpa using ih'

theorem validUtf8_unescape (w : Bytes) (h : validUtf8 w = true) : validUtf8 (unescape w) = true := by
  simpa using validUtf8_unescape_aux _ w [] (Nat.le_refl _) (by simpa using h)

/-- every token of the stream is cut out of the input at cell boundaries -/
theorem lexAll_infix (k : Cls) : ∀ (n : Nat) (inp : List Cell), inp.length ≤ n →
    ∀ p ∈ (lexAll k inp).1, ∃ x w y, x ++ w ++ y = inp ∧ p.2.val = cellsBytes w := by
  intro n
  induction n with
  | zero =>
    intro inp h
    have : inp = [] := List.length_eq_zero_iff.mp (by omega)
    subst this
    rw [lexAll]; simp [next, dropWs]
  | succ n ih =>
    intro inp hl
    rw [lexAll]
    split
    · simp
    · simp
    · rename_i t ws w rest h
      have hn := next_tok k inp t ws w rest h
      have h1 := congrArg List.length hn.1
      have h2 : w.length ≠ 0 := by intro h0; exact hn.2.1 (List.length_eq_zero_iff.mp h0)
      have ihr := ih rest (by simp at h1; omega)
      generalize lexAll k rest = q at ihr ⊢
      obtain ⟨ts, e, tw, r⟩ := q
      intro p hp
      simp at hp
      rcases hp with rfl | hp
      · exact ⟨ws, w, rest, hn.1, hn.2.2.1⟩
      · obtain ⟨x, w', y, hxy, hv⟩ := ihr p hp
        refine ⟨ws ++ w ++ x, w', y, ?_, hv⟩
        rw [← hn.1, ← hxy]
        simp

/-- a run of cells of a valid string is a valid string -/
theorem validUtf8_infix (s : Bytes) (hs : validUtf8 s = true) (x w y : List Cell) (h : x ++ w ++ y = decode s) :
    validUtf8 (cellsBytes w) = true := by
  have hd : Dec (x ++ w ++ y) := by rw [h]; exact Dec_decode s
  have hw : Dec w := Dec_suffix x w (Dec_prefix (x ++ w) y hd)
  rw [validUtf8_eq, hw]
  rw [validUtf8_eq, ← h] at hs
  simp only [List.all_append, Bool.and_eq_true] at hs
  exact hs.1.2

/-- **lexer fact**: the text of every token of a valid-UTF-8 query is valid UTF-8 -/
theorem tokensOf_valid (env : Env) (s : Bytes) (hs : validUtf8 s = true) :
    ∀ t ∈ tokensOf env s, validUtf8 t.val = true := by
  intro t ht
  unfold tokensOf at ht
  simp only [List.mem_append, List.mem_map] at ht
  rcases ht with ⟨p, hp, rfl⟩ | ht
  · obtain ⟨x, w, y, hxy, hv⟩ := lexAll_infix env.cls _ _ (Nat.le_refl _) p hp
    rw [hv]
    exact validUtf8_infix s hs x w y hxy
  · split at ht
    · simp at ht; subst ht
      exact QuotedVerbatim.validUtf8_nil
    · simp at ht

theorem sv_node (l : Node) (o : Op) (r : Node) (p : F64) (d : Int)
    (hl : allStringsValidNode l = true) (hr : allStringsValidNode r = true) : allStringsValid (.mk l o r p d) = true := by
  simp only [allStringsValid, hl, hr, Bool.and_self]

theorem svN_expr (e : Expr) (h : allStringsValid e = true) : allStringsValidNode (.expr e) = true := by
  simpa [allStringsValidNode] using h

theorem svN_nil : allStringsValidNode .nil = true := by simp [allStringsValidNode]

theorem sv_lit (q : Prim) (h : primStrValid q = true) (o : Op) : allStringsValid (mkLeaf (.prim q) o) = true :=
  sv_node _ _ _ _ _ (by simpa [allStringsValidNode] using h) svN_nil

theorem sv_fieldE (op : Op) (a : Expr) (h : allStringsValid a = true) : allStringsValid (fieldE op a) = true := by
  rcases fieldE_cases op a with ⟨s, o, r, p, d, rfl, _, h'⟩ | ⟨h', _⟩
  · rw [h']
    simp only [allStringsValid, allStringsValidNode, primStrValid, Bool.and_eq_true] at h
    exact sv_lit (.col s) h.1 _
  · rw [h']; exact h

theorem sv_ofList : ∀ (lits : List Expr), (∀ x ∈ lits, allStringsValid x = true) →
    allStringsValidList (ExprList.ofList lits) = true
  | [], _ => by simp only [ExprList.ofList, allStringsValidList]
  | x :: xs, h => by
    simp only [ExprList.ofList, allStringsValidList, h x (by simp), sv_ofList xs (fun y hy => h y (by simp [hy])),
      Bool.and_self]

theorem sv_or_inv (le re : Expr) (p : F64) (d : Int)
    (h : allStringsValid (.mk (.expr le) .or (.expr re) p d) = true) :
    allStringsValid le = true ∧ allStringsValid re = true := by
  simpa only [allStringsValid, allStringsValidNode, Bool.and_eq_true] using h

theorem sv_mkList (es : ExprList) (h : allStringsValidList es = true) : allStringsValid (mkList es) = true :=
  sv_node _ _ _ _ _ (by simpa [allStringsValidNode] using h) svN_nil

theorem sv_parseLiteral (t : Tok) (ht : validUtf8 t.val = true) : allStringsValid (parseLiteral t) = true := by
  rcases parseLiteral_cases t with ⟨s, h, hs⟩ | ⟨_, h⟩ | ⟨_, _, _, h⟩ | ⟨i, hi, h⟩ | ⟨f, h⟩
  · rw [h]
    refine sv_lit (.str s) ?_ _
    rcases hs with ⟨_, rfl⟩ | ⟨_, _, _, ⟨rfl, _⟩ | ⟨rfl, _⟩⟩
    · exact validUtf8_filter 34 (by decide) _ ht
    · exact validUtf8_unescape _ ht
    · exact ht
  · rw [h]; exact sv_lit (.str t.val) ht _
  · rw [h]; exact sv_lit (.str t.val) ht _
  · rw [h]; exact sv_lit (.int i) rfl _
  · rw [h]; exact sv_lit (.flt f) rfl _

/-- (4) every string in the tree is valid UTF-8 when the token texts and the default field are -/
theorem built_allStringsValid {Q : Tok → Prop} (hQ : ∀ t, Q t → validUtf8 t.val = true) {df : Bytes}
    (hdf : validUtf8 df = true) {e : Expr} (h : Built Q df e) : allStringsValid e = true := by
  induction h with
  | leaf t hq => exact sv_parseLiteral t (hQ t hq)
  | inn f' v' _ _ ihf ihv =>
    refine sv_node _ _ _ _ _ (svN_expr _ (sv_fieldE _ _ ihf)) (svN_expr _ ?_)
    exact sv_mkList _ (sv_ofList _ (chained_of (fun x => allStringsValid x = true) sv_or_inv v' ihv))
  | eq f' v' _ _ _ ihf ihv => exact sv_node _ _ _ _ _ (svN_expr _ (sv_fieldE _ _ ihf)) (svN_expr _ ihv)
  | like f' v' _ _ _ ihf ihv => exact sv_node _ _ _ _ _ (svN_expr _ (sv_fieldE _ _ ihf)) (svN_expr _ ihv)
  | cmp gt orEq f' v' _ _ ihf ihv => exact sv_node _ _ _ _ _ (svN_expr _ (sv_fieldE _ _ ihf)) (svN_expr _ ihv)
  | range f' lo' hi' incl _ _ _ ihf ihlo ihhi =>
    exact sv_node _ _ _ _ _ (svN_expr _ (sv_fieldE _ _ ihf)) (by simp [allStringsValidNode, ihlo, ihhi])
  | and l' r' _ _ ihl ihr => exact sv_node _ _ _ _ _ (svN_expr _ ihl) (svN_expr _ ihr)
  | or l' r' _ _ ihl ihr => exact sv_node _ _ _ _ _ (svN_expr _ ihl) (svN_expr _ ihr)
  | not x' _ ih => exact sv_node _ _ _ _ _ (svN_expr _ ih) svN_nil
  | must x' _ ih => exact sv_node _ _ _ _ _ (svN_expr _ ih) svN_nil
  | mustNot x' _ ih => exact sv_node _ _ _ _ _ (svN_expr _ ih) svN_nil
  | fuzzy x' s i _ _ ih => exact sv_node _ _ _ _ _ (svN_expr _ ih) svN_nil
  | boost x' f _ ih => exact sv_node _ _ _ _ _ (svN_expr _ ih) svN_nil
  | wrap e _ _ ih => exact sv_node _ _ _ _ _ (svN_expr _ (sv_lit (.col df) hdf _)) (svN_expr _ ih)

/-! ## 6. `printStable`: the field-column part holds of every parse result

  `printStable e = printFieldOK e && printNumOK e` (`printStable_split`): `printFieldOK` is the clause on the left
  operand of the column operators (it is the wrapped Column, or does not decode to a string leaf) — proved here for
  every parse result; `printNumOK` is the numeric clause (finding K-json-float-exp), which stays a hypothesis. -/

mutual
def printFieldOKNode : Node → Bool
  | .nil => true
  | .prim _ => true
  | .expr e => printFieldOK e
  | .list es => printFieldOKList es
  | .bound _ _ _ => true
/-- the field clause of `printStable`, at every node -/
def printFieldOK : Expr → Bool
  | .mk l o r _ _ =>
    (!operatesOnColumn o || isColField l || !isStringlike (retypeNode l)) && printFieldOKNode l && printFieldOKNode r
def printFieldOKList : ExprList → Bool
  | .nil => true
  | .cons e t => printFieldOK e && printFieldOKList t
end

mutual
def printNumOKNode : Node → Bool
  | .nil => true
  | .prim q => primPrintOK q
  | .expr e => printNumOK e
  | .list es => printNumOKList es
  | .bound mn mx _ => boundPrintOK mn && boundPrintOK mx
/-- the numeric clause of `printStable`: every float leaf the decoder reads back as an int prints like that int; every
    int range bound survives float64 and every float bound read back as an int prints like it -/
def printNumOK : Expr → Bool
  | .mk l _ r _ _ => printNumOKNode l && printNumOKNode r
def printNumOKList : ExprList → Bool
  | .nil => true
  | .cons e t => printNumOK e && printNumOKList t
end

theorem and4 (c a1 a2 b1 b2 : Bool) : (c && (a1 && a2) && (b1 && b2)) = ((c && a1 && b1) && (a2 && b2)) := by
  cases c <;> cases a1 <;> cases a2 <;> cases b1 <;> cases b2 <;> rfl

theorem and22 (a1 a2 b1 b2 : Bool) : ((a1 && a2) && (b1 && b2)) = ((a1 && b1) && (a2 && b2)) := by
  cases a1 <;> cases a2 <;> cases b1 <;> cases b2 <;> rfl

mutual
theorem printStableNode_split : ∀ n : Node, printStableNode n = (printFieldOKNode n && printNumOKNode n)
  | .nil => by simp only [printStableNode, printFieldOKNode, printNumOKNode, Bool.and_self]
  | .prim q => by simp only [printStableNode, printFieldOKNode, printNumOKNode, Bool.true_and]
  | .expr e => by simp only [printStableNode, printFieldOKNode, printNumOKNode, printStable_split e]
  | .list es => by simp only [printStableNode, printFieldOKNode, printNumOKNode, printStableList_split es]
  | .bound mn mx incl => by simp only [printStableNode, printFieldOKNode, printNumOKNode, Bool.true_and]
/-- `printStable` is the conjunction of its field clause and its numeric clause -/
theorem printStable_split : ∀ e : Expr, printStable e = (printFieldOK e && printNumOK e)
  | .mk l o r p d => by
    simp only [printStable, printFieldOK, printNumOK, printStableNode_split l, printStableNode_split r]
    exact and4 _ _ _ _ _
theorem printStableList_split : ∀ es : ExprList, printStableList es = (printFieldOKList es && printNumOKList es)
  | .nil => by simp only [printStableList, printFieldOKList, printNumOKList, Bool.and_self]
  | .cons e t => by
    simp only [printStableList, printFieldOKList, printNumOKList, printStable_split e, printStableList_split t]
    exact and22 _ _ _ _
end

theorem pf_node (l : Node) (o : Op) (r : Node) (p : F64) (d : Int)
    (hc : (!operatesOnColumn o || isColField l || !isStringlike (retypeNode l)) = true)
    (hl : printFieldOKNode l = true) (hr : printFieldOKNode r = true) : printFieldOK (.mk l o r p d) = true := by
  simp only [printFieldOK, hc, hl, hr, Bool.and_self]

theorem pfN_expr (e : Expr) (h : printFieldOK e = true) : printFieldOKNode (.expr e) = true := by
  simpa [printFieldOKNode] using h

theorem pfN_nil : printFieldOKNode .nil = true := by simp [printFieldOKNode]

theorem leafop_noncol (o : Op) (ho : (o = .literal || o = .wild || o = .regexp) = true) :
    operatesOnColumn o = false := by
  have : o = .literal ∨ o = .wild ∨ o = .regexp := by simpa [or_assoc] using ho
  rcases this with rfl | rfl | rfl <;> rfl

theorem pf_leaf (q : Prim) (o : Op) (ho : (o = .literal || o = .wild || o = .regexp) = true) :
    printFieldOK (.mk (.prim q) o .nil F64.one 1) = true :=
  pf_node _ _ _ _ _ (by simp [leafop_noncol o ho]) (by simp [printFieldOKNode]) pfN_nil

theorem pf_fieldE (op : Op) (a : Expr) (h : printFieldOK a = true) : printFieldOK (fieldE op a) = true := by
  rcases fieldE_cases op a with ⟨s, o, r, p, d, _, _, h'⟩ | ⟨h', _⟩
  · rw [h']; exact pf_leaf _ _ rfl
  · rw [h']; exact h

theorem pf_ofList : ∀ (lits : List Expr), (∀ x ∈ lits, printFieldOK x = true) →
    printFieldOKList (ExprList.ofList lits) = true
  | [], _ => by simp only [ExprList.ofList, printFieldOKList]
  | x :: xs, h => by
    simp only [ExprList.ofList, printFieldOKList, h x (by simp), pf_ofList xs (fun y hy => h y (by simp [hy])),
      Bool.and_self]

theorem pf_or_inv (le re : Expr) (p : F64) (d : Int) (h : printFieldOK (.mk (.expr le) .or (.expr re) p d) = true) :
    printFieldOK le = true ∧ printFieldOK re = true := by
  simp only [printFieldOK, printFieldOKNode, Bool.and_eq_true] at h
  exact ⟨h.1.2, h.2⟩

theorem pf_mkList (es : ExprList) (h : printFieldOKList es = true) : printFieldOK (mkList es) = true :=
  pf_node _ _ _ _ _ (by simp [operatesOnColumn]) (by simpa [printFieldOKNode] using h) pfN_nil

/-- a non-leaf node over an expression never decodes to a string-like operand -/
theorem nonleaf_not_stringlike (a : Expr) (o : Op) (r : Node) (p : F64) (d : Int)
    (ho : (o = .literal || o = .wild || o = .regexp) = false) :
    isStringlike (retypeNode (.expr (.mk (.expr a) o r p d))) = false := by
  have hrn : ∀ x, retypeNode (Node.expr x) = .expr (retype x) := fun x => by simp only [retypeNode]
  rw [hrn, retype_node _ _ _ _ _ ho, hrn]
  obtain ⟨e', he'⟩ := wrapInColumn_expr (retype a)
  by_cases hc : (isStringlike (Node.expr (retype a)) && operatesOnColumn o) = true
  · rw [if_pos hc, he']; simp [isStringlike]
  · rw [if_neg hc]; simp [isStringlike]

theorem retypeNode_lit_int (i : Int) : retypeNode (.expr (lit (.prim (.int i)))) = .expr (lit (.prim (.int i))) := by
  simp only [retypeNode, lit, mkLeaf]; rw [retype_leaf _ _ _ _ _ rfl]; rfl

theorem retypeNode_lit_flt (f : F64) : isStringlike (retypeNode (.expr (lit (.prim (.flt f))))) = false := by
  simp only [retypeNode, lit, mkLeaf]; rw [retype_leaf _ _ _ _ _ rfl]
  simp only [retypePrim]
  cases floatAsInt f <;> rfl

/-- an operand whose left side is not a string does not decode to a string-like operand -/
theorem built_not_stringlike {Q : Tok → Prop} {df : Bytes} {a : Expr} (h : Built Q df a)
    (hl : ∀ s, a.left ≠ .prim (.str s)) : isStringlike (retypeNode (.expr a)) = false := by
  cases h with
  | leaf t _ =>
    rcases parseLiteral_cases t with ⟨s, h, _⟩ | ⟨_, h⟩ | ⟨_, _, _, h⟩ | ⟨i, hi, h⟩ | ⟨f, h⟩
    · rw [h] at hl; exact absurd rfl (hl s)
    · rw [h] at hl; exact absurd rfl (hl _)
    · rw [h] at hl; exact absurd rfl (hl _)
    · rw [h, retypeNode_lit_int]; rfl
    · rw [h]; exact retypeNode_lit_flt f
  | cmp gt orEq f' v' _ _ => exact nonleaf_not_stringlike _ _ _ _ _ (cmpOp_nonleaf gt orEq)
  | _ => exact nonleaf_not_stringlike _ _ _ _ _ rfl

/-- the field position of a column operator: the wrapped Column, or not string-like after decoding -/
theorem field_ok {Q : Tok → Prop} {df : Bytes} {a : Expr} (h : Built Q df a) (op : Op) :
    (!operatesOnColumn op || isColField (.expr (fieldE op a)) || !isStringlike (retypeNode (.expr (fieldE op a)))) =
      true := by
  by_cases hc : operatesOnColumn op = true
  · rcases fieldE_cases op a with ⟨s, o, r, p, d, _, _, h'⟩ | ⟨h', hn⟩
    · rw [h', isColField_lit_col]; simp
    · rw [h', built_not_stringlike h (hn hc)]; simp
  · simp [hc]

theorem noncol (o : Op) (l : Node) (h : operatesOnColumn o = false) :
    (!operatesOnColumn o || isColField l || !isStringlike (retypeNode l)) = true := by simp [h]

/-- (5) the field positions of the column operators are Column leaves (or operands that never decode to strings) -/
theorem built_printFieldOK {Q : Tok → Prop} {df : Bytes} {e : Expr} (h : Built Q df e) : printFieldOK e = true := by
  induction h with
  | leaf t _ =>
    obtain ⟨q, o, h, ho⟩ := parseLiteral_leafop t
    rw [h]; exact pf_leaf q o ho
  | inn f' v' hf _ ihf ihv =>
    refine pf_node _ _ _ _ _ (field_ok hf _) (pfN_expr _ (pf_fieldE _ _ ihf)) (pfN_expr _ ?_)
    exact pf_mkList _ (pf_ofList _ (chained_of (fun x => printFieldOK x = true) pf_or_inv v' ihv))
  | eq f' v' hf _ _ ihf ihv =>
    exact pf_node _ _ _ _ _ (field_ok hf _) (pfN_expr _ (pf_fieldE _ _ ihf)) (pfN_expr _ ihv)
  | like f' v' hf _ _ ihf ihv =>
    have := field_ok hf .equals
    exact pf_node _ _ _ _ _ (by simpa [operatesOnColumn] using this) (pfN_expr _ (pf_fieldE _ _ ihf)) (pfN_expr _ ihv)
  | cmp gt orEq f' v' hf _ ihf ihv =>
    exact pf_node _ _ _ _ _ (field_ok hf _) (pfN_expr _ (pf_fieldE _ _ ihf)) (pfN_expr _ ihv)
  | range f' lo' hi' incl hf _ _ ihf _ _ =>
    exact pf_node _ _ _ _ _ (field_ok hf _) (pfN_expr _ (pf_fieldE _ _ ihf)) (by simp [printFieldOKNode])
  | and l' r' _ _ ihl ihr => exact pf_node _ _ _ _ _ (noncol _ _ rfl) (pfN_expr _ ihl) (pfN_expr _ ihr)
  | or l' r' _ _ ihl ihr => exact pf_node _ _ _ _ _ (noncol _ _ rfl) (pfN_expr _ ihl) (pfN_expr _ ihr)
  | not x' _ ih => exact pf_node _ _ _ _ _ (noncol _ _ rfl) (pfN_expr _ ih) pfN_nil
  | must x' _ ih => exact pf_node _ _ _ _ _ (noncol _ _ rfl) (pfN_expr _ ih) pfN_nil
  | mustNot x' _ ih => exact pf_node _ _ _ _ _ (noncol _ _ rfl) (pfN_expr _ ih) pfN_nil
  | fuzzy x' s i _ _ ih => exact pf_node _ _ _ _ _ (noncol _ _ rfl) (pfN_expr _ ih) pfN_nil
  | boost x' f _ ih => exact pf_node _ _ _ _ _ (noncol _ _ rfl) (pfN_expr _ ih) pfN_nil
  | wrap e _ _ ih =>
    exact pf_node _ _ _ _ _ (by rw [isColField_lit_col]; simp) (pfN_expr _ (pf_leaf _ _ rfl)) (pfN_expr _ ih)

/-! ## 7. `kindStable` on parse results: exactly the three exclusions of C12

  `leavesStable e` is a decidable condition on the leaves of the tree:
    * a string leaf with the Literal operator neither contains `*` / `?` nor is `/slash-delimited/`
      (the query quoted such a string — or escaped its slashes, the fourth case `escaped_slash_retyped`);
    * a float leaf is not integer-valued for the decoder (`floatAsInt f = none`); a float range bound is not an integer
      (`toIntIfNecessary f = .flt f`);
    * (finding `noBigIntBound`) an int range bound survives float64.
  `built_kindStable`: for parse results it implies `kindStable`; `built_leavesStable`: and conversely. -/

/-- a string leaf carries the operator its text gets from the decoder, unless it is a Literal whose text is a pattern -/
def strKindOK (o : Op) (s : Bytes) : Bool := o != .literal || (!looksRegexp s && !containsWild s)

def leafValStable (o : Op) : Prim → Bool
  | .str s => strKindOK o s
  | .flt f => (floatAsInt f).isNone
  | _ => true

/-- the left side of a leaf node -/
def leafNodeStable (o : Op) : Node → Bool
  | .prim q => leafValStable o q
  | _ => true

def boundValStable : Node → Bool
  | .expr (.mk (.prim (.str s)) o _ _ _) => strKindOK o s
  | .expr (.mk (.prim (.int i)) _ _ _ _) => decide (toIntIfNecessary (F64.ofInt i) = .int i)
  | .expr (.mk (.prim (.flt f)) _ _ _ _) => decide (toIntIfNecessary f = .flt f)
  | _ => true

mutual
def leavesStableNode : Node → Bool
  | .nil => true
  | .prim _ => true
  | .expr e => leavesStable e
  | .list es => leavesStableList es
  | .bound mn mx _ => boundValStable mn && boundValStable mx
/-- the exclusions of C12's deep-equality clause, as a condition on the leaves of the tree -/
def leavesStable : Expr → Bool
  | .mk l o r _ _ =>
    if o = .literal || o = .wild || o = .regexp then leafNodeStable o l
    else leavesStableNode l && leavesStableNode r
def leavesStableList : ExprList → Bool
  | .nil => true
  | .cons e t => leavesStable e && leavesStableList t
end

/-- the operator of a string leaf of a lexer token is the operator the decoder infers, under `strKindOK` -/
theorem leaf_op_ok (t : Tok) (ht : TokOK t) (s : Bytes) (o : Op) (r : Node) (p : F64) (d : Int)
    (h : parseLiteral t = .mk (.prim (.str s)) o r p d) (hs : strKindOK o s = true) :
    o = (literalToExpr (.prim (.str s))).op ∧ r = .nil ∧ p = F64.one ∧ d = 1 := by
  rcases parseLiteral_cases t with ⟨s', h0, _⟩ | ⟨hr, h0⟩ | ⟨hq, hr, hw, h0⟩ | ⟨i, hi, h0⟩ | ⟨f, h0⟩
  · rw [h0] at h
    simp only [lit, mkLeaf, Expr.mk.injEq, Node.prim.injEq, Prim.str.injEq] at h
    obtain ⟨rfl, rfl, rfl, rfl, rfl⟩ := h
    simp only [strKindOK, bne_self_eq_false, Bool.false_or, Bool.and_eq_true, Bool.not_eq_true'] at hs
    rw [literalToExpr_plain _ hs.1 hs.2]
    exact ⟨rfl, rfl, rfl, rfl⟩
  · rw [h0] at h
    simp only [mkLeaf, Expr.mk.injEq, Node.prim.injEq, Prim.str.injEq] at h
    obtain ⟨rfl, rfl, rfl, rfl, rfl⟩ := h
    rw [literalToExpr_regexp _ (looksRegexp_of_slashDelim _ (ht.1 hr))]
    exact ⟨rfl, rfl, rfl, rfl⟩
  · rw [h0] at h
    simp only [mkLeaf, Expr.mk.injEq, Node.prim.injEq, Prim.str.injEq] at h
    obtain ⟨rfl, rfl, rfl, rfl, rfl⟩ := h
    rw [literalToExpr_wild _ (looksRegexp_head _ (ht.2 hr hq)) hw]
    exact ⟨rfl, rfl, rfl, rfl⟩
  · rw [h0] at h; simp [lit, mkLeaf] at h
  · rw [h0] at h; simp [lit, mkLeaf] at h

theorem ks_leafop (l : Node) (o : Op) (r : Node) (p : F64) (d : Int)
    (ho : (o = .literal || o = .wild || o = .regexp) = true) :
    kindStable (.mk l o r p d) = leafStable l o r p d := by
  simp only [kindStable, ho, if_true]

theorem ls_leafop (l : Node) (o : Op) (r : Node) (p : F64) (d : Int)
    (ho : (o = .literal || o = .wild || o = .regexp) = true) :
    leavesStable (.mk l o r p d) = leafNodeStable o l := by
  simp only [leavesStable, ho, if_true]

theorem ls_node (l : Node) (o : Op) (r : Node) (p : F64) (d : Int)
    (ho : (o = .literal || o = .wild || o = .regexp) = false) :
    leavesStable (.mk l o r p d) = (leavesStableNode l && leavesStableNode r) := by
  simp only [leavesStable, ho, Bool.false_eq_true, if_false]

/-- a leaf -/
theorem ks_parseLiteral (t : Tok) (ht : TokOK t) (h : leavesStable (parseLiteral t) = true) :
    kindStable (parseLiteral t) = true := by
  obtain ⟨q, o, h0, ho⟩ := parseLiteral_leafop t
  rw [h0, ls_leafop _ _ _ _ _ ho] at h
  rw [h0, ks_leafop _ _ _ _ _ ho]
  cases q with
  | str s =>
    have := leaf_op_ok t ht s o .nil F64.one 1 h0 h
    simp [leafStable, this.1, Node.isNil]
  | int i =>
    rcases parseLiteral_cases t with ⟨s', h1, _⟩ | ⟨hr, h1⟩ | ⟨hq, hr, hw, h1⟩ | ⟨i', hi, h1⟩ | ⟨f, h1⟩ <;>
      rw [h1] at h0 <;> simp [lit, mkLeaf] at h0
    obtain ⟨_, rfl⟩ := h0
    simp [leafStable, Node.isNil]
  | flt f =>
    rcases parseLiteral_cases t with ⟨s', h1, _⟩ | ⟨hr, h1⟩ | ⟨hq, hr, hw, h1⟩ | ⟨i', hi, h1⟩ | ⟨f', h1⟩ <;>
      rw [h1] at h0 <;> simp [lit, mkLeaf] at h0
    obtain ⟨_, rfl⟩ := h0
    simp only [leafNodeStable, leafValStable] at h
    simp [leafStable, Node.isNil, h]
  | _ =>
    rcases parseLiteral_cases t with ⟨s', h1, _⟩ | ⟨hr, h1⟩ | ⟨hq, hr, hw, h1⟩ | ⟨i', hi, h1⟩ | ⟨f', h1⟩ <;>
      rw [h1] at h0 <;> simp [lit, mkLeaf] at h0

theorem ks_node (l : Node) (o : Op) (r : Node) (p : F64) (d : Int)
    (ho : (o = .literal || o = .wild || o = .regexp) = false)
    (hl : ((isLitCol l && operatesOnColumn o) || (kindStableNode l && !(isStringlike l && operatesOnColumn o))) = true)
    (hr : kindStableNode r = true)
    (hp : (decide (o = .boost) || decide (p = F64.one)) = true) (hd : (decide (o = .fuzzy) || decide (d = 1)) = true) :
    kindStable (.mk l o r p d) = true := by
  simp only [kindStable, ho, Bool.false_eq_true, if_false, hl, hr, hp, hd, Bool.and_self]

theorem ksN_expr (e : Expr) (h : kindStable e = true) : kindStableNode (.expr e) = true := by
  simpa [kindStableNode] using h

theorem ksN_nil : kindStableNode .nil = true := by simp [kindStableNode]

/-- the left operand of an operator that does not work on a column -/
theorem ks_left_plain (a : Expr) (o : Op) (ho : operatesOnColumn o = false) (h : kindStable a = true) :
    ((isLitCol (.expr a) && operatesOnColumn o) ||
      (kindStableNode (.expr a) && !(isStringlike (.expr a) && operatesOnColumn o))) = true := by
  simp [ho, kindStableNode, h]

theorem isLitCol_lit_col (s : Bytes) : isLitCol (.expr (lit (.prim (.col s)))) = true := by
  simp [isLitCol, lit, mkLeaf]

theorem not_stringlike_of_left (a : Expr) (h : ∀ s, a.left ≠ .prim (.str s)) : isStringlike (.expr a) = false := by
  obtain ⟨l, o, r, p, d⟩ := a
  cases l with
  | prim q =>
    cases q with
    | str s => exact absurd rfl (h s)
    | _ => rfl
  | _ => rfl

/-- the field position of a column operator: the wrapped Column, or a kind-stable operand that is not string-like -/
theorem ks_left_field (a : Expr) (op o : Op) (hop : operatesOnColumn op = true) (ho : operatesOnColumn o = true)
    (ih : leavesStable a = true → kindStable a = true) (h : leavesStable (fieldE op a) = true) :
    ((isLitCol (.expr (fieldE op a)) && operatesOnColumn o) ||
      (kindStableNode (.expr (fieldE op a)) && !(isStringlike (.expr (fieldE op a)) && operatesOnColumn o))) = true := by
  rcases fieldE_cases op a with ⟨s, o', r, p, d, _, _, h'⟩ | ⟨h', hn⟩
  · rw [h', isLitCol_lit_col, ho]; rfl
  · rw [h'] at h ⊢
    simp [kindStableNode, ih h, not_stringlike_of_left a (hn hop)]

theorem ks_ofList : ∀ (lits : List Expr), (∀ x ∈ lits, kindStable x = true) →
    kindStableList (ExprList.ofList lits) = true
  | [], _ => by simp only [ExprList.ofList, kindStableList]
  | x :: xs, h => by
    simp only [ExprList.ofList, kindStableList, h x (by simp), ks_ofList xs (fun y hy => h y (by simp [hy])),
      Bool.and_self]

theorem ls_ofList_inv : ∀ (lits : List Expr), leavesStableList (ExprList.ofList lits) = true →
    ∀ x ∈ lits, leavesStable x = true
  | [], _ => by simp
  | y :: ys, h => by
    simp only [ExprList.ofList, leavesStableList, Bool.and_eq_true] at h
    intro x hx
    simp only [List.mem_cons] at hx
    rcases hx with rfl | hx
    · exact h.1
    · exact ls_ofList_inv ys h.2 x hx

theorem ks_mkList (es : ExprList) (h : kindStableList es = true) : kindStable (mkList es) = true :=
  ks_node _ _ _ _ _ rfl (by simp [kindStableNode, h, isStringlike]) ksN_nil (by simp) (by simp)

/-- an OR node is built from its two operands -/
theorem built_or_inv {Q : Tok → Prop} {df : Bytes} {e : Expr} (h : Built Q df e) (hop : e.op = .or) :
    ∃ l' r', e = .mk (.expr l') .or (.expr r') F64.one 1 ∧ Built Q df l' ∧ Built Q df r' := by
  cases h with
  | or l' r' hl hr => exact ⟨l', r', rfl, hl, hr⟩
  | leaf t _ =>
    exfalso
    obtain ⟨q, o, h0, ho⟩ := parseLiteral_leafop t
    rw [h0] at hop; simp only [Expr.op] at hop; subst hop; simp at ho
  | cmp gt orEq f' v' _ _ =>
    exfalso
    cases gt <;> cases orEq <;> simp [Expr.op, cmpOp] at hop
  | _ => exfalso; simp [Expr.op] at hop

/-- a Literal node is the leaf of a token -/
theorem built_literal_leaf {Q : Tok → Prop} {df : Bytes} {e : Expr} (h : Built Q df e) (hop : e.op = .literal) :
    ∃ t, Q t ∧ e = parseLiteral t := by
  cases h with
  | leaf t hq => exact ⟨t, hq, rfl⟩
  | cmp gt orEq f' v' _ _ =>
    exfalso
    cases gt <;> cases orEq <;> simp [Expr.op, cmpOp] at hop
  | _ => exfalso; simp [Expr.op] at hop

/-- the literals of an OR-chain of a parse result are leaves of tokens -/
theorem chained_built {Q : Tok → Prop} {df : Bytes} (v : Expr) (h : Built Q df v) :
    ∀ x ∈ (chainedOrLiterals v).1, ∃ t, Q t ∧ x = parseLiteral t := by
  intro x hx
  have hb : Built Q df x := by
    refine chained_of (Built Q df) ?_ v h x hx
    intro le re p d hor
    obtain ⟨l', r', he, hl, hr⟩ := built_or_inv hor rfl
    simp only [Expr.mk.injEq, Node.expr.injEq] at he
    obtain ⟨rfl, _, rfl, _, _⟩ := he
    exact ⟨hl, hr⟩
  exact built_literal_leaf hb (chained_op v x hx)

/-- a node whose left side is a raw value is the leaf of a token -/
theorem built_prim_left {Q : Tok → Prop} {df : Bytes} {e : Expr} (h : Built Q df e) (q : Prim)
    (hl : e.left = .prim q) : ∃ t, Q t ∧ e = parseLiteral t := by
  cases h with
  | leaf t hq => exact ⟨t, hq, rfl⟩
  | _ => exfalso; simp [Expr.left] at hl

/-- a range bound of a parse result -/
theorem ks_bound {Q : Tok → Prop} (hQ : ∀ t, Q t → TokOK t) {df : Bytes} {a : Expr} (h : Built Q df a)
    (hs : boundValStable (.expr a) = true) : boundStable a = true := by
  obtain ⟨l, o, r, p, d⟩ := a
  cases l with
  | prim q =>
    obtain ⟨t, hq, ht⟩ := built_prim_left h q rfl
    obtain ⟨q', o', h0, ho⟩ := parseLiteral_leafop t
    rw [h0] at ht
    simp only [Expr.mk.injEq, Node.prim.injEq] at ht
    obtain ⟨rfl, rfl, rfl, rfl, rfl⟩ := ht
    cases q with
    | str s =>
      simp only [boundValStable] at hs
      have := leaf_op_ok t (hQ t hq) s o .nil F64.one 1 h0 hs
      simp [boundStable, this.1, Node.isNil]
    | int i =>
      have ho' : o = .literal := by
        rcases parseLiteral_cases t with ⟨s', h1, _⟩ | ⟨hr, h1⟩ | ⟨hq, hr, hw, h1⟩ | ⟨i', hi, h1⟩ | ⟨f, h1⟩ <;>
          rw [h1] at h0 <;> simp [lit, mkLeaf] at h0
        exact h0.2.symm
      subst ho'
      simp only [boundValStable] at hs
      simp [boundStable, Node.isNil, hs]
    | flt f =>
      have ho' : o = .literal := by
        rcases parseLiteral_cases t with ⟨s', h1, _⟩ | ⟨hr, h1⟩ | ⟨hq, hr, hw, h1⟩ | ⟨i', hi, h1⟩ | ⟨f', h1⟩ <;>
          rw [h1] at h0 <;> simp [lit, mkLeaf] at h0
        exact h0.2.symm
      subst ho'
      simp only [boundValStable] at hs
      simp [boundStable, Node.isNil, hs]
    | _ => simp [boundStable]
  | _ => simp [boundStable]

theorem cmpOp_col (gt orEq : Bool) : operatesOnColumn (cmpOp gt orEq) = true := by
  cases gt <;> cases orEq <;> rfl

theorem lsN_expr_inv (e : Expr) (h : leavesStableNode (.expr e) = true) : leavesStable e = true := by
  simpa [leavesStableNode] using h

/-- **deep equality**: a parse result whose leaves satisfy `leavesStable` is kind-stable (so the decoder rebuilds the
    very same tree, `retype_stable`) -/
theorem built_kindStable {Q : Tok → Prop} (hQ : ∀ t, Q t → TokOK t) {df : Bytes} {e : Expr} (h : Built Q df e) :
    leavesStable e = true → kindStable e = true := by
  induction h with
  | leaf t hq => exact ks_parseLiteral t (hQ t hq)
  | inn f' v' hf hv ihf ihv =>
    intro hs
    rw [ls_node _ _ _ _ _ rfl, Bool.and_eq_true] at hs
    refine ks_node _ _ _ _ _ rfl (ks_left_field f' _ _ rfl rfl ihf (lsN_expr_inv _ hs.1)) (ksN_expr _ ?_)
      (by simp) (by simp)
    have hl := lsN_expr_inv _ hs.2
    simp only [mkList, mkLeaf] at hl
    rw [ls_node _ _ _ _ _ rfl] at hl
    simp only [leavesStableNode, Bool.and_true] at hl
    refine ks_mkList _ (ks_ofList _ (fun x hx => ?_))
    obtain ⟨t, hq, rfl⟩ := chained_built v' hv x hx
    exact ks_parseLiteral t (hQ t hq) (ls_ofList_inv _ hl _ hx)
  | eq f' v' hf hv _ ihf ihv =>
    intro hs
    rw [ls_node _ _ _ _ _ rfl, Bool.and_eq_true] at hs
    exact ks_node _ _ _ _ _ rfl (ks_left_field f' _ _ rfl rfl ihf (lsN_expr_inv _ hs.1))
      (ksN_expr _ (ihv (lsN_expr_inv _ hs.2))) (by simp) (by simp)
  | like f' v' hf hv _ ihf ihv =>
    intro hs
    rw [ls_node _ _ _ _ _ rfl, Bool.and_eq_true] at hs
    exact ks_node _ _ _ _ _ rfl (ks_left_field f' _ _ rfl rfl ihf (lsN_expr_inv _ hs.1))
      (ksN_expr _ (ihv (lsN_expr_inv _ hs.2))) (by simp) (by simp)
  | cmp gt orEq f' v' hf hv ihf ihv =>
    intro hs
    rw [ls_node _ _ _ _ _ (cmpOp_nonleaf gt orEq), Bool.and_eq_true] at hs
    refine ks_node _ _ _ _ _ (cmpOp_nonleaf gt orEq)
      (ks_left_field f' _ _ (cmpOp_col gt orEq) (cmpOp_col gt orEq) ihf (lsN_expr_inv _ hs.1))
      (ksN_expr _ (ihv (lsN_expr_inv _ hs.2))) ?_ ?_ <;> cases gt <;> cases orEq <;> simp [cmpOp]
  | range f' lo' hi' incl hf hlo hhi ihf _ _ =>
    intro hs
    rw [ls_node _ _ _ _ _ rfl, Bool.and_eq_true] at hs
    have hb := hs.2
    simp only [leavesStableNode, Bool.and_eq_true] at hb
    refine ks_node _ _ _ _ _ rfl (ks_left_field f' _ _ rfl rfl ihf (lsN_expr_inv _ hs.1)) ?_ (by simp) (by simp)
    simp only [kindStableNode, boundStableNode, ks_bound hQ hlo hb.1, ks_bound hQ hhi hb.2, Bool.and_self]
  | and l' r' _ _ ihl ihr =>
    intro hs
    rw [ls_node _ _ _ _ _ rfl, Bool.and_eq_true] at hs
    exact ks_node _ _ _ _ _ rfl (ks_left_plain _ _ rfl (ihl (lsN_expr_inv _ hs.1)))
      (ksN_expr _ (ihr (lsN_expr_inv _ hs.2))) (by simp) (by simp)
  | or l' r' _ _ ihl ihr =>
    intro hs
    rw [ls_node _ _ _ _ _ rfl, Bool.and_eq_true] at hs
    exact ks_node _ _ _ _ _ rfl (ks_left_plain _ _ rfl (ihl (lsN_expr_inv _ hs.1)))
      (ksN_expr _ (ihr (lsN_expr_inv _ hs.2))) (by simp) (by simp)
  | not x' _ ih =>
    intro hs
    rw [ls_node _ _ _ _ _ rfl, Bool.and_eq_true] at hs
    exact ks_node _ _ _ _ _ rfl (ks_left_plain _ _ rfl (ih (lsN_expr_inv _ hs.1))) ksN_nil (by simp) (by simp)
  | must x' _ ih =>
    intro hs
    rw [ls_node _ _ _ _ _ rfl, Bool.and_eq_true] at hs
    exact ks_node _ _ _ _ _ rfl (ks_left_plain _ _ rfl (ih (lsN_expr_inv _ hs.1))) ksN_nil (by simp) (by simp)
  | mustNot x' _ ih =>
    intro hs
    rw [ls_node _ _ _ _ _ rfl, Bool.and_eq_true] at hs
    exact ks_node _ _ _ _ _ rfl (ks_left_plain _ _ rfl (ih (lsN_expr_inv _ hs.1))) ksN_nil (by simp) (by simp)
  | fuzzy x' s i _ _ ih =>
    intro hs
    rw [ls_node _ _ _ _ _ rfl, Bool.and_eq_true] at hs
    exact ks_node _ _ _ _ _ rfl (ks_left_plain _ _ rfl (ih (lsN_expr_inv _ hs.1))) ksN_nil (by simp) (by simp)
  | boost x' f _ ih =>
    intro hs
    rw [ls_node _ _ _ _ _ rfl, Bool.and_eq_true] at hs
    exact ks_node _ _ _ _ _ rfl (ks_left_plain _ _ rfl (ih (lsN_expr_inv _ hs.1))) ksN_nil (by simp) (by simp)
  | wrap e _ _ ih =>
    intro hs
    rw [ls_node _ _ _ _ _ rfl, Bool.and_eq_true] at hs
    exact ks_node _ _ _ _ _ rfl (by rw [isLitCol_lit_col]; rfl) (ksN_expr _ (ih (lsN_expr_inv _ hs.2)))
      (by simp) (by simp)

/-! ### the converse (every tree): a kind-stable tree satisfies `leavesStable` -/

theorem strKindOK_of_op (o : Op) (s : Bytes) (h : o = (literalToExpr (.prim (.str s))).op) : strKindOK o s = true := by
  by_cases h1 : looksRegexp s = true
  · rw [literalToExpr_regexp s h1] at h; subst h; rfl
  · have h1' : looksRegexp s = false := by simpa using h1
    by_cases h2 : containsWild s = true
    · rw [literalToExpr_wild s h1' h2] at h; subst h; rfl
    · have h2' : containsWild s = false := by simpa using h2
      simp [strKindOK, h1', h2']

theorem boundVal_of_boundStable (a : Expr) (h : boundStable a = true) : boundValStable (.expr a) = true := by
  obtain ⟨l, o, r, p, d⟩ := a
  cases l with
  | prim q =>
    cases q with
    | str s =>
      simp only [boundStable, Bool.and_eq_true, decide_eq_true_eq] at h
      exact strKindOK_of_op o s h.1.1.1
    | int i =>
      simp only [boundStable, Bool.and_eq_true] at h
      exact h.1.1.1.1
    | flt f =>
      simp only [boundStable, Bool.and_eq_true] at h
      exact h.1.1.1.1
    | _ => rfl
  | _ => rfl

theorem boundValN_of_boundStableN (n : Node) (h : boundStableNode n = true) : boundValStable n = true := by
  cases n with
  | expr a => exact boundVal_of_boundStable a (by simpa [boundStableNode] using h)
  | _ => rfl

theorem leafVal_of_leafStable (l : Node) (o : Op) (r : Node) (p : F64) (d : Int) (h : leafStable l o r p d = true) :
    leafNodeStable o l = true := by
  cases l with
  | prim q =>
    cases q with
    | str s =>
      simp only [leafStable, Bool.and_eq_true, decide_eq_true_eq] at h
      exact strKindOK_of_op o s h.1.1.1
    | flt f =>
      simp only [leafStable, Bool.and_eq_true] at h
      exact h.1.1.1.1
    | _ => rfl
  | _ => rfl

mutual
theorem lsN_of_ksN : ∀ n : Node, kindStableNode n = true → leavesStableNode n = true
  | .nil, _ => by simp only [leavesStableNode]
  | .prim q, _ => by simp only [leavesStableNode]
  | .expr e, h => by
    simp only [kindStableNode] at h
    simp only [leavesStableNode, ls_of_ks e h]
  | .list es, h => by
    simp only [kindStableNode] at h
    simp only [leavesStableNode, lsL_of_ksL es h]
  | .bound mn mx incl, h => by
    simp only [kindStableNode, Bool.and_eq_true] at h
    simp only [leavesStableNode, boundValN_of_boundStableN mn h.1, boundValN_of_boundStableN mx h.2, Bool.and_self]
/-- every kind-stable tree satisfies `leavesStable`: the condition is exact -/
theorem ls_of_ks : ∀ e : Expr, kindStable e = true → leavesStable e = true
  | .mk l o r p d, h => by
    by_cases ho : (o = .literal || o = .wild || o = .regexp) = true
    · rw [ks_leafop _ _ _ _ _ ho] at h
      rw [ls_leafop _ _ _ _ _ ho]
      exact leafVal_of_leafStable l o r p d h
    · have ho' : (o = .literal || o = .wild || o = .regexp) = false := by simpa using ho
      simp only [kindStable, ho', Bool.false_eq_true, if_false, Bool.and_eq_true] at h
      obtain ⟨⟨⟨hl, hr⟩, _⟩, _⟩ := h
      rw [ls_node _ _ _ _ _ ho', lsN_of_ksN r hr, Bool.and_true]
      simp only [Bool.or_eq_true, Bool.and_eq_true] at hl
      rcases hl with ⟨h1, _⟩ | ⟨h1, _⟩
      · unfold isLitCol at h1
        split at h1
        · simp only [leavesStableNode]
          rw [ls_leafop _ _ _ _ _ rfl]
          rfl
        · exact absurd h1 Bool.false_ne_true
      · exact lsN_of_ksN l h1
theorem lsL_of_ksL : ∀ es : ExprList, kindStableList es = true → leavesStableList es = true
  | .nil, _ => by simp only [leavesStableList]
  | .cons e t, h => by
    simp only [kindStableList, Bool.and_eq_true] at h
    simp only [leavesStableList, ls_of_ks e h.1, lsL_of_ksL t h.2, Bool.and_self]
end

/-! ### the exclusions, in terms of the query's tokens -/

theorem containsWild_unescape (w : Bytes) (h : containsWild w = false) : containsWild (unescape w) = false := by
  unfold containsWild at h ⊢
  rw [List.any_eq_false] at h ⊢
  intro x hx
  exact h x (mem_of_mem_unescape hx)

theorem containsWild_filter (w : Bytes) (c : UInt8) (h : containsWild w = false) :
    containsWild (w.filter (· != c)) = false := by
  unfold containsWild at h ⊢
  rw [List.any_eq_false] at h ⊢
  intro x hx
  exact h x (List.mem_filter.mp hx).1

/-- **which tokens yield an unstable leaf.**  If the leaf of a lexer token violates `leavesStable`, then
    (a) the token is QUOTED and its text (quotes removed) contains `*` / `?` or is `/slash-delimited/`; or
    (b) the token is a bare word with BACKSLASHES whose unescaped text (`unescape`, parse.go after fix F13) is
        `/slash-delimited/` (the fourth case, beyond
        the three of C12: `\/x\/` yields the Literal "/x/"); or
    (c) the leaf is a FLOAT whose JSON text reads as an integer (`5.0`, `1e3`). -/
theorem leaf_unstable_cases (t : Tok) (ht : TokOK t) (h : leavesStable (parseLiteral t) = false) :
    (t.typ = .quoted ∧ (containsWild (t.val.filter (· != 34)) = true ∨ looksRegexp (t.val.filter (· != 34)) = true)) ∨
    (t.typ ≠ .quoted ∧ t.typ ≠ .regexp ∧ t.val.any (· == 92) = true ∧
      looksRegexp (unescape t.val) = true) ∨
    (∃ f, parseLiteral t = lit (.prim (.flt f)) ∧ (floatAsInt f).isSome = true) := by
  rcases parseLiteral_cases t with ⟨s, h0, hs⟩ | ⟨hr, h0⟩ | ⟨hq, hr, hw, h0⟩ | ⟨i, hi, h0⟩ | ⟨f, h0⟩
  · rw [h0] at h
    simp only [lit, mkLeaf] at h
    rw [ls_leafop _ _ _ _ _ rfl] at h
    simp only [leafNodeStable, leafValStable, strKindOK, bne_self_eq_false, Bool.false_or] at h
    rcases hs with ⟨hq, rfl⟩ | ⟨hq, hr, hw, ⟨rfl, hb⟩ | ⟨rfl, hb⟩⟩
    · refine .inl ⟨hq, ?_⟩
      by_cases h1 : looksRegexp (t.val.filter (· != 34)) = true
      · exact .inr h1
      · simp only [Bool.not_eq_true] at h1
        simp only [h1, Bool.not_false, Bool.true_and, Bool.not_eq_false'] at h
        exact .inl h
    · refine .inr (.inl ⟨hq, hr, hb, ?_⟩)
      simpa [containsWild_unescape t.val hw] using h
    · exfalso
      simp [hw, looksRegexp_head _ (ht.2 hr hq)] at h
  · rw [h0] at h; simp only [mkLeaf] at h; rw [ls_leafop _ _ _ _ _ rfl] at h
    simp [leafNodeStable, leafValStable, strKindOK] at h
  · rw [h0] at h; simp only [mkLeaf] at h; rw [ls_leafop _ _ _ _ _ rfl] at h
    simp [leafNodeStable, leafValStable, strKindOK] at h
  · rw [h0] at h; simp only [lit, mkLeaf] at h; rw [ls_leafop _ _ _ _ _ rfl] at h
    simp [leafNodeStable, leafValStable] at h
  · refine .inr (.inr ⟨f, h0, ?_⟩)
    rw [h0] at h; simp only [lit, mkLeaf] at h; rw [ls_leafop _ _ _ _ _ rfl] at h
    simpa [leafNodeStable, leafValStable] using h

/-! ## 8. parse results satisfy the side conditions of the round-trip theorems -/

section
variable (env : Env) (s df : Bytes) (e : Expr) (h : parseQuery env s df = .ok e)
include h

/-- (1) -/
theorem parse_fieldsCanon : fieldsCanon e = true := built_fieldsCanon (parse_built env s df e h)

/-- (2) -/
theorem parse_intsInt64 : intsInt64 e = true := built_intsInt64 (parse_built env s df e h)

/-- (3) — for every class table -/
theorem parse_likeKindOK : likeKindOK e = true :=
  built_likeKindOK' (fun t ht => tokensOf_regexp env s t ht) (parse_built env s df e h)

/-- (4) -/
theorem parse_allStringsValid (hs : validUtf8 s = true) (hdf : validUtf8 df = true) : allStringsValid e = true :=
  built_allStringsValid (fun t ht => tokensOf_valid env s hs t ht) hdf (parse_built env s df e h)

/-- (5) the field-column part of `printStable` -/
theorem parse_printFieldOK : printFieldOK e = true := built_printFieldOK (parse_built env s df e h)

/-- (5') `printStable` is left with its numeric part -/
theorem parse_printStable (hn : printNumOK e = true) : printStable e = true := by
  rw [printStable_split, parse_printFieldOK env s df e h, hn]; rfl

/-- deep equality: on parse results `kindStable` is exactly the condition `leavesStable` on the leaves -/
theorem parse_kindStable_iff (hk : env.cls.slashNotAlnum) : kindStable e = true ↔ leavesStable e = true :=
  ⟨ls_of_ks e, built_kindStable (fun t ht => tokensOf_slash env hk s t ht) (parse_built env s df e h)⟩

end

/-! ## 9. C12 end to end, over queries -/

/-- C12 (1)+(3a) over queries, no exclusion: the encoding of what `Parse` returns for a valid-UTF-8 query decodes, to
    `retype e`, and the decoded expression validates. -/
theorem query_decodes (J : JsonLaws) (N : NumLaws) (env : Env) (s df : Bytes)
    (hs : validUtf8 s = true) (hdf : validUtf8 df = true) (e : Expr) (h : parseQuery env s df = .ok e)
    (hdp : depthOK e = true) (j : Bytes) (hm : marshalExpr e = .ok j) :
    unmarshalTop j = .ok (retype e) ∧ validateExpr (retype e) = true := by
  obtain ⟨hsh, hv⟩ := parse_shape env s df e h
  exact ⟨roundtrip_decodes J N e hsh hv (parse_allStringsValid env s df e h hs hdf) (parse_intsInt64 env s df e h) hdp j hm,
    validate_retype e hv (parse_likeKindOK env s df e h)⟩

/-- **C12 over queries.**  For every valid-UTF-8 query (and default field) that `Parse` accepts, with result `e` whose
    encoding is `j`: decoding `j` succeeds with `e' = retype e`; `e'` validates; outside the two recorded findings
    (`noNegZeroLeaf`, `noBigIntBound`) it re-encodes to the identical bytes; outside finding K-json-float-exp
    (`printNumOK`, the numeric clause of `printStable`) it prints identically; and it is deep-equal to `e` when
    `kindStable e`, i.e. (`parse_kindStable_iff`) when the leaves satisfy `leavesStable`. -/
theorem query_roundtrip (J : JsonLaws) (N : NumLaws) (F : FmtLaws) (ip : Nat → Bool) (env : Env)
    (s df : Bytes) (hs : validUtf8 s = true) (hdf : validUtf8 df = true)
    (e : Expr) (h : parseQuery env s df = .ok e) (hdp : depthOK e = true) (j : Bytes) (hm : marshalExpr e = .ok j) :
    ∃ e', unmarshalTop j = .ok e' ∧ e' = retype e ∧ validateExpr e' = true ∧
      (noNegZeroLeaf e = true → noBigIntBound e = true → marshalExpr e' = .ok j) ∧
      (printNumOK e = true → strE ip false e' = strE ip false e) ∧
      (kindStable e = true → e' = e) ∧ (env.cls.slashNotAlnum → leavesStable e = true → e' = e) := by
  obtain ⟨hsh, hv⟩ := parse_shape env s df e h
  obtain ⟨hd, hval⟩ := query_decodes J N env s df hs hdf e h hdp j hm
  refine ⟨retype e, hd, rfl, hval, ?_, ?_, retype_stable e, ?_⟩
  · intro hz hb
    rw [marshal_retype N F e hsh hv (parse_fieldsCanon env s df e h) hz hb, hm]
  · intro hn
    exact print_retype ip e hsh hv (parse_printStable env s df e h hn)
  · intro hk hl
    exact retype_stable e ((parse_kindStable_iff env s df e h hk).2 hl)

/-- the statement in the form asked for: all remaining exclusions as hypotheses (no hypothesis on the class table) -/
theorem query_roundtrip' (J : JsonLaws) (N : NumLaws) (F : FmtLaws) (ip : Nat → Bool) (env : Env)
    (s df : Bytes) (hs : validUtf8 s = true) (hdf : validUtf8 df = true)
    (e : Expr) (h : parseQuery env s df = .ok e) (hdp : depthOK e = true) (j : Bytes) (hm : marshalExpr e = .ok j)
    (hz : noNegZeroLeaf e = true) (hb : noBigIntBound e = true) (hn : printNumOK e = true) :
    ∃ e', unmarshalTop j = .ok e' ∧ validateExpr e' = true ∧ marshalExpr e' = .ok j ∧
      strE ip false e' = strE ip false e ∧ (kindStable e = true → e' = e) := by
  obtain ⟨e', h1, _, h3, h4, h5, h6, _⟩ := query_roundtrip J N F ip env s df hs hdf e h hdp j hm
  exact ⟨e', h1, h3, h4 hz hb, h5 hn, h6⟩

/-- deep equality over queries: if the leaves of the result satisfy `leavesStable` (no quoted / escaped string that
    reads as a pattern, no integer-valued float, no int bound beyond 2^53), the decoder returns the very same tree -/
theorem query_deep_equal (J : JsonLaws) (N : NumLaws) (env : Env)
    (hk : env.cls.slashNotAlnum) (s df : Bytes) (hs : validUtf8 s = true) (hdf : validUtf8 df = true)
    (e : Expr) (h : parseQuery env s df = .ok e) (hdp : depthOK e = true) (j : Bytes) (hm : marshalExpr e = .ok j)
    (hl : leavesStable e = true) : unmarshalTop j = .ok e := by
  have := (query_decodes J N env s df hs hdf e h hdp j hm).1
  rwa [retype_stable e ((parse_kindStable_iff env s df e h hk).2 hl)] at this

/-! ## 10. the exclusions on concrete queries (the whole of `lucene.Parse`: decoder, lexer, shift/reduce run,
  constructor semantics, Validate) with an ASCII class table -/

/-- ASCII letters / digits, printable ASCII -/
def asciiEnv : Env :=
  ⟨⟨fun r => (65 ≤ r && r ≤ 90) || (97 ≤ r && r ≤ 122), fun r => 48 ≤ r && r ≤ 57⟩, fun r => 32 ≤ r && r < 127⟩

theorem asciiEnv_slash : asciiEnv.cls.slashNotAlnum := by
  show asciiEnv.cls.isAlnum 47 = false
  decide

/-- an ASCII query `f:v` that lexes into three tokens -/
theorem tokensOf_fv (env : Env) (f v : Bytes) (tv : Tok) (hq : ∀ c ∈ f ++ 58 :: v, c < 0x80)
    (h58 : env.cls.isAlnum 58 = false)
    (h1 : next env.cls ((f ++ 58 :: v).map asciiCell) =
      .tok ⟨.literal, f⟩ [] (f.map asciiCell) (asciiCell 58 :: v.map asciiCell))
    (h3 : next env.cls (v.map asciiCell) = .tok tv [] (v.map asciiCell) []) :
    tokensOf env (f ++ 58 :: v) = [⟨.literal, f⟩, ⟨.colon, [58]⟩, tv] := by
  unfold tokensOf
  have hd : decode (f ++ 58 :: v) = (f ++ 58 :: v).map asciiCell := by
    have := QuotedVerbatim.decode_ascii_prefix (f ++ 58 :: v) [] hq
    simpa [QuotedVerbatim.decode_nil] using this
  rw [hd, lexAll_tok _ _ _ _ _ _ h1, lexAll_tok _ _ _ _ _ _ (QuotedVerbatim.next_colon _ h58 _),
    lexAll_tok _ _ _ _ _ _ h3, lexAll_eof _ [] [] (QuotedVerbatim.next_nil _)]
  rfl

/-- `field:value` through the whole parser, once the three tokens and the result of `finalize` are known -/
theorem parse_three (env : Env) (q : Bytes) (tf tv : Tok) (e : Expr)
    (htok : tokensOf env q = [tf, ⟨.colon, [58]⟩, tv]) (hf : tf.typ.isTerm = true) (hv : tv.typ.isTerm = true)
    (hfin : finalize env [] (.eq (.leaf tf) (.leaf tv)) = .ok e) : parseQuery env q [] = .ok e := by
  unfold parseQuery parseTokens
  rw [htok, QuotedVerbatim.parse_field_colon_value _ _ _ hf hv]
  exact hfin

def colA : Node := .expr (lit (.prim (.col (b "a"))))

/-- `a:\/x\/` -/
def qEsc : Bytes := b "a:\\/x\\/"
/-- what `Parse` returns for it: `a = "/x/"` with a LITERAL leaf (`unescape` removes the escaping backslashes) -/
def eEsc : Expr := .mk colA .equals (.expr (lit (.prim (.str (b "/x/"))))) F64.one 1

theorem parse_qEsc : parseQuery asciiEnv qEsc [] = .ok eEsc := by
  refine parse_three asciiEnv qEsc ⟨.literal, b "a"⟩ ⟨.literal, b "\\/x\\/"⟩ eEsc ?_ rfl rfl (by rfl)
  exact tokensOf_fv asciiEnv (b "a") (b "\\/x\\/") _ (by decide) (by decide) (by rfl) (by rfl)

/-- **the fourth case** (beyond the three of C12): a bare word with escaped slashes.  `a:\/x\/` parses to the Literal
    "/x/"; its encoding decodes to the REGEXP leaf `/x/` — the result is not kind-stable and the decoded tree differs,
    although the query quotes nothing, has no `*`/`?` and no number (all other exclusions hold). -/
theorem escaped_slash_retyped :
    parseQuery asciiEnv qEsc [] = .ok eEsc ∧ validUtf8 qEsc = true ∧
    leavesStable eEsc = false ∧ kindStable eEsc = false ∧
    noNegZeroLeaf eEsc = true ∧ noBigIntBound eEsc = true ∧ printNumOK eEsc = true ∧
    retype eEsc = .mk colA .equals (.expr (mkLeaf (.prim (.str (b "/x/"))) .regexp)) F64.one 1 ∧
    retype eEsc ≠ eEsc :=
  ⟨parse_qEsc, by decide +kernel, by decide +kernel, by decide +kernel, by decide +kernel, by decide +kernel,
    by decide +kernel, by rfl, fun h => by
      have := congrArg (fun x => match x with
        | .mk _ _ (.expr (.mk _ o _ _ _)) _ _ => o
        | _ => .undefined) h
      exact absurd this (by decide)⟩

theorem asciiEnv_qc : asciiEnv.cls.quoteColonNotAlnum := by
  constructor <;> decide

/-- `a:"b*"` — C12's first exclusion: a quoted string containing `*`; the Literal leaf comes back as Wild -/
def eQStar : Expr := .mk colA .equals (.expr (lit (.prim (.str (b "b*"))))) F64.one 1

theorem quoted_star_query :
    parseQuery asciiEnv (b "a:\"b*\"") [] = .ok eQStar ∧ leavesStable eQStar = false ∧ kindStable eQStar = false ∧
    retype eQStar = .mk colA .equals (.expr (mkLeaf (.prim (.str (b "b*"))) .wild)) F64.one 1 :=
  ⟨QuotedVerbatim.quoted_tree_nodf asciiEnv asciiEnv_qc (b "a") (by decide) (by decide) (by decide) (by decide)
      (b "b*") (by decide),
    by decide +kernel, by decide +kernel, by rfl⟩

/-- `a:"/b/"` — C12's second exclusion: a quoted `/slash-delimited/` string; the Literal leaf comes back as Regexp -/
def eQSlash : Expr := .mk colA .equals (.expr (lit (.prim (.str (b "/b/"))))) F64.one 1

theorem quoted_slash_query :
    parseQuery asciiEnv (b "a:\"/b/\"") [] = .ok eQSlash ∧ leavesStable eQSlash = false ∧
    kindStable eQSlash = false ∧
    retype eQSlash = .mk colA .equals (.expr (mkLeaf (.prim (.str (b "/b/"))) .regexp)) F64.one 1 :=
  ⟨QuotedVerbatim.quoted_tree_nodf asciiEnv asciiEnv_qc (b "a") (by decide) (by decide) (by decide) (by decide)
      (b "/b/") (by decide),
    by decide +kernel, by decide +kernel, by rfl⟩

/-- `a:5.0` — C12's third exclusion: an integer-valued float; the float leaf comes back as the int 5 -/
def eFlt : Expr := .mk colA .equals (.expr (lit (.prim (.flt (F64.ofInt 5))))) F64.one 1

theorem parse_qFlt : parseQuery asciiEnv (b "a:5.0") [] = .ok eFlt := by
  refine parse_three asciiEnv (b "a:5.0") ⟨.literal, b "a"⟩ ⟨.literal, b "5.0"⟩ eFlt ?_ rfl rfl (by rfl)
  exact tokensOf_fv asciiEnv (b "a") (b "5.0") _ (by decide) (by decide) (by rfl) (by rfl)

theorem int_float_query :
    parseQuery asciiEnv (b "a:5.0") [] = .ok eFlt ∧ leavesStable eFlt = false ∧ kindStable eFlt = false ∧
    retype eFlt = .mk colA .equals (.expr (lit (.prim (.int 5)))) F64.one 1 :=
  ⟨parse_qFlt, by decide +kernel, by decide +kernel, by rfl⟩

/-! ### necessity of the hypotheses -/

/-- `validUtf8 s` is necessary for (4): the query `a:"\xFF"` (one invalid byte between the quotes) is accepted and
    its result carries the invalid string (whose JSON encoding decodes to U+FFFD, not to it) -/
theorem invalid_utf8_query :
    parseQuery asciiEnv (b "a" ++ b ":\"" ++ [0xFF] ++ b "\"") [] =
      .ok (.mk colA .equals (.expr (lit (.prim (.str [0xFF])))) F64.one 1) ∧
    validUtf8 (b "a" ++ b ":\"" ++ [0xFF] ++ b "\"") = false ∧
    allStringsValid (.mk colA .equals (.expr (lit (.prim (.str [0xFF])))) F64.one 1) = false :=
  ⟨QuotedVerbatim.quoted_tree_nodf asciiEnv asciiEnv_qc (b "a") (by decide) (by decide) (by decide) (by decide)
      [0xFF] (by decide),
    by decide +kernel, by decide +kernel⟩

/-- `slashNotAlnum` is necessary for the characterisation of `kindStable` by `leavesStable`: with a class table in
    which `/` is a letter (`LexSlash.badCls`, where `/a*/` is lexed as ONE bare word: `LexSlash.slash_letter_cex`), the
    leaf of that token is the Wild leaf `/a*/`; it satisfies `leavesStable`, but the decoder re-types it as a Regexp -/
theorem slash_letter_kind :
    next badCls [asciiC 47, asciiC 97, asciiC 42, asciiC 47] =
      .tok ⟨.literal, [47, 97, 42, 47]⟩ [] [asciiC 47, asciiC 97, asciiC 42, asciiC 47] [] ∧
    leavesStable (parseLiteral ⟨.literal, [47, 97, 42, 47]⟩) = true ∧
    kindStable (parseLiteral ⟨.literal, [47, 97, 42, 47]⟩) = false :=
  ⟨rfl, by decide +kernel, by decide +kernel⟩

/-! ### non-vacuity: queries and trees that satisfy every hypothesis -/

/-- `a:b*` parses to a LIKE node over a Wild leaf -/
def eLike : Expr := .mk colA .like (.expr (mkLeaf (.prim (.str (b "b*"))) .wild)) F64.one 1

theorem parse_qLike : parseQuery asciiEnv (b "a:b*") [] = .ok eLike := by
  refine parse_three asciiEnv (b "a:b*") ⟨.literal, b "a"⟩ ⟨.literal, b "b*"⟩ eLike ?_ rfl rfl (by rfl)
  exact tokensOf_fv asciiEnv (b "a") (b "b*") _ (by decide) (by decide) (by rfl) (by rfl)

/-- every executable hypothesis of `query_roundtrip'` / `query_deep_equal` holds of `a:b*` -/
example : validUtf8 (b "a:b*") = true ∧ validUtf8 ([] : Bytes) = true ∧ noNegZeroLeaf eLike = true ∧
    noBigIntBound eLike = true ∧ printNumOK eLike = true ∧ leavesStable eLike = true ∧
    (marshalExpr eLike).isOk = true := by decide +kernel

/-- so the theorem applies: the encoding of `Parse("a:b*")` decodes to the very same tree -/
example (J : JsonLaws) (N : NumLaws) (j : Bytes) (hm : marshalExpr eLike = .ok j) : unmarshalTop j = .ok eLike :=
  query_deep_equal J N asciiEnv asciiEnv_slash (b "a:b*") [] (by decide +kernel) (by decide +kernel) eLike parse_qLike
    (by decide +kernel) j hm (by decide +kernel)

/-- the UTF-8 hypothesis is not an ASCII hypothesis: `a:é` (C3 A9) is valid, `a:` followed by a lone C3 is not -/
example : validUtf8 (b "a:" ++ [0xC3, 0xA9]) = true ∧ validUtf8 (b "a:" ++ [0xC3]) = false := by decide +kernel

/-- a single word under a default field -/
theorem tokensOf_one (env : Env) (v : Bytes) (tv : Tok) (hq : ∀ c ∈ v, c < 0x80)
    (h : next env.cls (v.map asciiCell) = .tok tv [] (v.map asciiCell) []) : tokensOf env v = [tv] := by
  unfold tokensOf
  have hd : decode v = v.map asciiCell := by
    have := QuotedVerbatim.decode_ascii_prefix v [] hq
    simpa [QuotedVerbatim.decode_nil] using this
  rw [hd, lexAll_tok _ _ _ _ _ _ h, lexAll_eof _ [] [] (QuotedVerbatim.next_nil _)]
  rfl

/-- `foo` with the default field `d`: `d = "foo"` -/
def eDf : Expr := .mk (.expr (lit (.prim (.col (b "d"))))) .equals (.expr (lit (.prim (.str (b "foo"))))) F64.one 1

theorem parse_qDf : parseQuery asciiEnv (b "foo") (b "d") = .ok eDf := by
  unfold parseQuery parseTokens
  rw [tokensOf_one asciiEnv (b "foo") ⟨.literal, b "foo"⟩ (by decide) (by rfl),
    QuotedVerbatim.parse_single _ _ rfl]
  rfl

example (J : JsonLaws) (N : NumLaws) (j : Bytes) (hm : marshalExpr eDf = .ok j) : unmarshalTop j = .ok eDf :=
  query_deep_equal J N asciiEnv asciiEnv_slash (b "foo") (b "d") (by decide +kernel) (by decide +kernel) eDf parse_qDf
    (by decide +kernel) j hm (by decide +kernel)

/-- a larger tree of the parser's shape — `(a:[1 TO 5] AND b:(x OR y)) OR NOT c:z~2^3` — satisfies all the executable
    side conditions (the proved ones and the remaining exclusions) -/
def eBig : Expr :=
  .mk (.expr (.mk
        (.expr (.mk colA .range (.bound (.expr (lit (.prim (.int 1)))) (.expr (lit (.prim (.int 5)))) true) F64.one 1))
        .and
        (.expr (.mk (.expr (lit (.prim (.col (b "b"))))) .in_
          (.expr (mkList (.cons (lit (.prim (.str (b "x")))) (.cons (lit (.prim (.str (b "y")))) .nil)))) F64.one 1))
        F64.one 1))
    .or
    (.expr (.mk (.expr (.mk (.expr (.mk
        (.expr (.mk (.expr (lit (.prim (.col (b "c"))))) .equals (.expr (lit (.prim (.str (b "z"))))) F64.one 1))
        .fuzzy .nil F64.one 2)) .boost .nil (F64.ofInt 3) 1)) .not .nil F64.one 1))
    F64.one 1

example : semShapeT eBig = true ∧ validateExpr eBig = true ∧ fieldsCanon eBig = true ∧ intsInt64 eBig = true ∧
    likeKindOK eBig = true ∧ allStringsValid eBig = true ∧ printFieldOK eBig = true ∧ printNumOK eBig = true ∧
    printStable eBig = true ∧ noNegZeroLeaf eBig = true ∧ noBigIntBound eBig = true ∧ leavesStable eBig = true ∧
    kindStable eBig = true ∧ depthOK eBig = true := by decide +kernel

end JsonParse
end GoLucene

section Axioms
open GoLucene.JsonParse
#print axioms parse_built
#print axioms parse_fieldsCanon
#print axioms parse_intsInt64
#print axioms parse_likeKindOK
#print axioms tokensOf_valid
#print axioms parse_allStringsValid
#print axioms parse_printFieldOK
#print axioms printStable_split
#print axioms parse_printStable
#print axioms parse_kindStable_iff
#print axioms leaf_unstable_cases
#print axioms query_decodes
#print axioms query_roundtrip
#print axioms query_roundtrip'
#print axioms query_deep_equal
#print axioms escaped_slash_retyped
#print axioms quoted_star_query
#print axioms quoted_slash_query
#print axioms int_float_query
#print axioms invalid_utf8_query
#print axioms slash_letter_kind
end Axioms
