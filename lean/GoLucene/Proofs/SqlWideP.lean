import GoLucene.Proofs.SqlWide4
import GoLucene.Proofs.Subst
/-
  C02 (confinement) for the PARAMETERIZED text: `renderParam pgFns e = .ok (sqlP, ps)`.

  In parameter mode every value travels as a parameter: the text holds `?` where the inline text holds a constant.
  `toCstP e` is the concrete syntax tree of the text (placeholders `param 0`) together with the parameter list;
  PostgreSQL numbers the `?` from left to right (`renum 1`).

  MAIN THEOREMS
    render_parses_param   confinedParam e → textParam e → depthOK e → renderParam pgFns e = .ok (sqlP, ps) →
                            parseSql sqlP = toAstP e  ∧  ps = paramsP e
    param_numbers         the placeholders of `toAstP e` are 1, 2, …, ps.length from left to right
    param_positions       placeholders stand only in VALUE positions (the left operand of every predicate is a column)
    param_cols_consts     columns are column leaves of `e`; the only constants are `'*'` and `0` (open range ends);
                          every parameter is a value leaf of `e` or its LIKE translation
  Values are not restricted at all in this mode (NUL bytes, invalid UTF-8, NaN: they never reach the text); only
  column names must pass the renderer's tests.  Fields must be columns: with a number in field position the text of
  a two-sided range has more `?` than parameters (`Subst.count_false_numeric_field`, a recorded C04 finding).
-/
set_option linter.unusedSimpArgs false
set_option linter.unusedVariables false

namespace GoLucene.SqlWide
open GoLucene Sql SqlMeaning SqlText NoPanic

/-! ## the fragment -/

/-- a value of parameter mode: any string, int or float -/
def isValP : Prim → Bool
  | .str _ => true
  | .int _ => true
  | .flt _ => true
  | _ => false

/-- a column or a value -/
def pShape : Prim → Bool
  | .col _ => true
  | q => isValP q

/-- only column names reach the text -/
def pTextOK : Prim → Bool
  | .col f => primTextW (.col f)
  | _ => true

def atomCstP : Prim → Cst
  | .col f => .col f
  | _ => .param 0

def atomPs : Prim → List Prim
  | .col _ => []
  | q => [q]

/-- the column in a field position -/
def fldColOf (l : Node) : Option Bytes :=
  match opdPrim l with
  | some (.col f) => some f
  | _ => none

def opdCP (n : Node) : Option (Cst × List Prim) :=
  match opdPrim n with
  | some q => if pShape q then some (atomCstP q, atomPs q) else none
  | none => none

def listCP : ExprList → Option (CstList × List Prim)
  | .nil => some (.nil, [])
  | .cons (.mk (.prim q) o .nil _ _) t =>
    if leafOp o && pShape q then
      (match listCP t with
       | some (cs, ps) => some (.cons (atomCstP q) cs, atomPs q ++ ps)
       | none => none)
    else none
  | _ => none

/-- `serializeBoundParams`: an end whose left side is the string `*` is written `'*'` and is not a parameter -/
def bndStar : Node → Bool
  | .expr e => starLeft e
  | _ => false

def isNumPrim : Prim → Bool
  | .int _ => true
  | .flt _ => true
  | _ => false

/-- `rangParam` on the two ends (`slo`, `shi`: the end is `'*'`; otherwise it is a placeholder whose value is
    `qlo` / `qhi`): `<= 0` for `[* TO *]`; comparisons if the FIRST parameter is numeric; BETWEEN otherwise -/
def rangeCP (X : Cst) (incl : Bool) (slo shi : Bool) (qlo qhi : Prim) : Cst :=
  let clo : Cst := if slo then .str [42] else .param 0
  let chi : Cst := if shi then .str [42] else .param 0
  if slo && shi then .cmp (hiOp incl) X (.num false [48])
  else if isNumPrim (if slo then qhi else qlo) then
    (if slo then .cmp (hiOp incl) X chi
     else if shi then .cmp (loOp incl) X clo
     else .and (.cmp (loOp incl) X clo) (.cmp (hiOp incl) X chi))
  else .between X clo chi

def endPs (s : Bool) (q : Prim) : List Prim := if s then [] else [q]

mutual
def toCstPNode : Node → Option (Cst × List Prim)
  | .expr e => toCstP e
  | .prim q => if pShape q then some (atomCstP q, atomPs q) else none
  | _ => none
/-- the concrete syntax tree of the parameterized text, and the parameters -/
def toCstP : Expr → Option (Cst × List Prim)
  | .mk l o r _ _ =>
    match o with
    | .and =>
      (match toCstPNode l, toCstPNode r with
       | some (a, pa), some (c, pc) => some (.and (wrapOpd l a) (wrapOpd r c), pa ++ pc)
       | _, _ => none)
    | .or =>
      (match toCstPNode l, toCstPNode r with
       | some (a, pa), some (c, pc) => some (.or (wrapOpd l a) (wrapOpd r c), pa ++ pc)
       | _, _ => none)
    | .not | .mustNot =>
      (match toCstPNode l with
       | some (x, ps) => some (.not (.paren x), ps)
       | none => none)
    | .must => toCstPNode l
    | .literal | .wild | .regexp =>
      (match l, r with
       | .prim q, .nil => if pShape q then some (atomCstP q, atomPs q) else none
       | _, _ => none)
    | .equals | .greater | .less | .greaterEq | .lessEq =>
      (match fldColOf l, opdCP r with
       | some f, some (c, ps) => some (.cmp (cmpOfOp o) (.col f) c, ps)
       | _, _ => none)
    | .like =>
      (match fldColOf l, opdPrim r with
       | some f, some (.str p) =>
         if regexLooking p then some (.regex (.col f) (.param 0), [.str p])
         else some (.similar (.col f) (.param 0), [.str (starPattern p)])
       | _, _ => none)
    | .in_ =>
      (match fldColOf l, r with
       | some f, .expr (.mk (.list es) .list .nil _ _) =>
         (match listCP es with
          | some (.cons a t, ps) => some (.inList (.col f) (.cons a t), ps)
          | _ => none)
       | _, _ => none)
    | .range =>
      (match fldColOf l, r with
       | some f, .bound mn mx incl =>
         (match opdPrim mn, opdPrim mx with
          | some qlo, some qhi =>
            if isValP qlo && isValP qhi then
              some (rangeCP (.col f) incl (bndStar mn) (bndStar mx) qlo qhi,
                endPs (bndStar mn) qlo ++ endPs (bndStar mx) qhi)
            else none
          | _, _ => none)
       | _, _ => none)
    | _ => none
end

/-- what PostgreSQL reads from the parameterized text: placeholders numbered from left to right -/
def toAstP (e : Expr) : Option Ast := (toCstP e).map (fun cp => (renum 1 cp.1).toAst)
/-- the parameter list -/
def paramsP (e : Expr) : Option (List Prim) := (toCstP e).map (fun cp => cp.2)

def fldOKP (l : Node) : Bool := (fldColOf l).isSome
def opdOKP (n : Node) : Bool :=
  match opdPrim n with
  | some q => pShape q
  | none => false
def opdTextP (n : Node) : Bool :=
  match opdPrim n with
  | some q => pTextOK q
  | none => true
def valOKP (n : Node) : Bool :=
  match opdPrim n with
  | some q => isValP q
  | none => false

def itemsOKP : ExprList → Bool
  | .nil => true
  | .cons (.mk (.prim q) o .nil _ _) t => leafOp o && pShape q && itemsOKP t
  | _ => false
def itemsTextP : ExprList → Bool
  | .nil => true
  | .cons (.mk (.prim q) _ _ _ _) t => pTextOK q && itemsTextP t
  | .cons _ t => itemsTextP t
def listOKP : Node → Bool
  | .expr (.mk (.list (.cons e t)) .list .nil _ _) => itemsOKP (.cons e t)
  | _ => false
def rangeOKP : Node → Bool
  | .bound mn mx _ => valOKP mn && valOKP mx
  | _ => false

mutual
def confinedParamNode : Node → Bool
  | .expr e => confinedParam e
  | .prim q => pShape q
  | _ => false
/-- the fragment for the parameterized text: as `confinedFilter`, with COLUMNS in field position and unrestricted
    values -/
def confinedParam : Expr → Bool
  | .mk l o r _ _ =>
    match o with
    | .and | .or => confinedParamNode l && confinedParamNode r
    | .not | .mustNot | .must => confinedParamNode l && r.isNil
    | .literal | .wild | .regexp =>
      (match l with
       | .prim q => pShape q
       | _ => false) && r.isNil
    | .equals | .greater | .less | .greaterEq | .lessEq => fldOKP l && opdOKP r
    | .like => fldOKP l && patOK r
    | .in_ => fldOKP l && listOKP r
    | .range => fldOKP l && rangeOKP r
    | _ => false
end

mutual
def textParamNode : Node → Bool
  | .expr e => textParam e
  | .prim q => pTextOK q
  | _ => true
/-- every COLUMN NAME of the query passes the renderer's tests -/
def textParam : Expr → Bool
  | .mk l o r _ _ =>
    match o with
    | .and | .or => textParamNode l && textParamNode r
    | .not | .mustNot | .must => textParamNode l
    | .literal | .wild | .regexp =>
      (match l with
       | .prim q => pTextOK q
       | _ => true)
    | .equals | .greater | .less | .greaterEq | .lessEq => opdTextP l && opdTextP r
    | .like => opdTextP l
    | .in_ =>
      opdTextP l && (match r with
        | .expr (.mk (.list es) _ _ _ _) => itemsTextP es
        | _ => true)
    | .range => opdTextP l
    | _ => true
end

/-! ## operands -/

theorem bq : b "?" = [63] := by decide

theorem qText_col (f : Bytes) : qText (.col f) = [34] ++ f ++ [34] := by rw [qText]
theorem qText_param (n : Nat) : qText (.param n) = [63] := by rw [qText]

theorem isSimple_pShape {q : Prim} (h : pShape q = true) : isSimple (.prim q) = true := by
  cases q <;> simp_all [pShape, isValP, isSimple]

/-- a raw value in parameter mode: a column reference, or `?` and one parameter -/
theorem primP_atom (q : Prim) (hs : pShape q = true) (ht : pTextOK q = true) :
    AtomP true (atomCstP q) ∧ serializeParams pgFns (.prim q) = .ok (qText (atomCstP q), atomPs q) ∧
      textOk (qText (atomCstP q)) = true ∧ pcount (atomCstP q) = (atomPs q).length := by
  cases q with
  | col f =>
    have ht' : primTextW (.col f) = true := ht
    simp only [primTextW, Bool.and_eq_true, Bool.not_eq_true'] at ht'
    have hne : f ≠ [] := by intro e; subst e; simp at ht'
    have h34 : ∀ c ∈ f, c ≠ 34 := by
      intro c hc e; subst e
      have := List.any_eq_false.mp ht'.1.2 34 hc
      simp at this
    have h0 : ∀ c ∈ f, c ≠ 0 := fun c hc => textOk_noNul ht'.2 c (by simp [hc])
    refine ⟨.col f hne h34 h0, ?_, by rw [atomCstP, qText_col]; exact ht'.2, rfl⟩
    rw [sp_col, atomCstP, qText_col]
    simp only [serializeCol, ht'.1.1, ht'.1.2, Bool.false_eq_true, ↓reduceIte, atomPs]
  | str s =>
    refine ⟨.param 0 rfl, ?_, by show textOk (qText (.param 0)) = true; rw [qText_param]; decide +kernel, rfl⟩
    rw [sp_prim_val pgFns (.str s) (by intro s' e; cases e)]
    show _ = Out.ok (qText (.param 0), [Prim.str s])
    rw [qText_param, bq]
  | int i =>
    refine ⟨.param 0 rfl, ?_, by show textOk (qText (.param 0)) = true; rw [qText_param]; decide +kernel, rfl⟩
    rw [sp_prim_val pgFns (.int i) (by intro s' e; cases e)]
    show _ = Out.ok (qText (.param 0), [Prim.int i])
    rw [qText_param, bq]
  | flt f =>
    refine ⟨.param 0 rfl, ?_, by show textOk (qText (.param 0)) = true; rw [qText_param]; decide +kernel, rfl⟩
    rw [sp_prim_val pgFns (.flt f) (by intro s' e; cases e)]
    show _ = Out.ok (qText (.param 0), [Prim.flt f])
    rw [qText_param, bq]
  | _ => simp [pShape, isValP] at hs

theorem leafOp_ne {o : Op} (h : leafOp o = true) : o ≠ .like ∧ o ≠ .range := by
  rcases leafOp_cases h with rfl | rfl | rfl <;> exact ⟨by decide, by decide⟩

/-- `renderParam` on a node whose operator is neither Like nor Range -/
theorem renderParam_of (l : Node) (o : Op) (r : Node) (p : F64) (d : Int) (ho1 : o ≠ .like) (ho2 : o ≠ .range)
    (fn : RenderFn) (hfn : pgFns o = some fn) (sl : Bytes) (pl : List Prim) (sr : Bytes) (pr : List Prim)
    (hl : serializeParams pgFns l = .ok (sl, pl)) (hr : serializeParams pgFns r = .ok (sr, pr)) :
    renderParam pgFns (.mk l o r p d) =
      (match fn (if parenOps o && !isSimple l then parenB sl else sl)
          (if parenOps o && !isSimple r then parenB sr else sr) with
       | .ok s => .ok (s, pl ++ pr) | .err => .err | .panic => .panic) := by
  rw [renderParam, hl, hr]
  simp only [ho1, ho2, if_false, hfn]
  generalize fn (if (parenOps o && !isSimple l) = true then parenB sl else sl)
    (if (parenOps o && !isSimple r) = true then parenB sr else sr) = x
  cases x <;> rfl

/-- an operand position in parameter mode -/
theorem opdP_atom {n : Node} {q : Prim} (h : opdPrim n = some q) (hs : pShape q = true) (ht : pTextOK q = true) :
    AtomP true (atomCstP q) ∧ isSimple n = true ∧
      serializeParams pgFns n = .ok (qText (atomCstP q), atomPs q) ∧ pcount (atomCstP q) = (atomPs q).length := by
  obtain ⟨hA, hser, hok, hcnt⟩ := primP_atom q hs ht
  rcases opdPrim_inv h with ⟨o, p, d, rfl, ho⟩ | rfl
  · refine ⟨hA, ?_, ?_, hcnt⟩
    · rcases leafOp_cases ho with rfl | rfl | rfl <;> simp [isSimple, Expr.op]
    · rw [sp_expr, renderParam_of _ _ _ _ _ (leafOp_ne ho).1 (leafOp_ne ho).2 _ (pgFns_leaf ho) _ _ _ _ hser
        (sp_nil _)]
      simp only [isSimple_pShape hs, Bool.not_true, Bool.and_false, Bool.false_eq_true, ↓reduceIte,
        SqlMeaning.fnLiteral_ok _ _ hok, List.append_nil]
  · exact ⟨hA, isSimple_pShape hs, hser, hcnt⟩

theorem fldColOf_inv {l : Node} {f : Bytes} (h : fldColOf l = some f) : opdPrim l = some (.col f) := by
  unfold fldColOf at h
  split at h
  · rename_i f' hf; cases h; exact hf
  · cases h

theorem fldOKP_inv {l : Node} (h : fldOKP l = true) : ∃ f, fldColOf l = some f := by
  unfold fldOKP at h
  cases hf : fldColOf l with
  | none => simp [hf] at h
  | some f => exact ⟨f, rfl⟩

/-- a field position: a column -/
theorem fldP_good {l : Node} (hc : fldOKP l = true) (ht : opdTextP l = true) :
    ∃ f, fldColOf l = some f ∧ AtomP true (.col f) ∧ isSimple l = true ∧
      serializeParams pgFns l = .ok (qText (.col f), []) := by
  obtain ⟨f, hf⟩ := fldOKP_inv hc
  have hq := fldColOf_inv hf
  have htq : pTextOK (.col f) = true := by unfold opdTextP at ht; rw [hq] at ht; exact ht
  obtain ⟨hA, hsim, hser, _⟩ := opdP_atom hq rfl htq
  exact ⟨f, hf, hA, hsim, hser⟩

theorem opdOKP_inv {n : Node} (h : opdOKP n = true) : ∃ q, opdPrim n = some q ∧ pShape q = true := by
  unfold opdOKP at h
  split at h
  · exact ⟨_, by assumption, h⟩
  · cases h

/-! ## predicates -/

/-- what is proved about each expression -/
def GoodP (e : Expr) (c : Cst) (ps : List Prim) : Prop :=
  toCstP e = some (c, ps) ∧ RK true false c ∧ renderParam pgFns e = .ok (qText c, ps) ∧
    (isSimple (.expr e) = true → AtomP true c) ∧ pcount c = ps.length ∧ pd c ≤ nest e

theorem qText_cmp (op : CmpOp) (l r : Cst) : qText (.cmp op l r) = qText l ++ opText op ++ qText r := by rw [qText]
theorem qText_similar (x p : Cst) :
    qText (.similar x p) = qText x ++ [32, 83, 73, 77, 73, 76, 65, 82, 32, 84, 79, 32] ++ qText p := by rw [qText]
theorem qText_regex (x p : Cst) : qText (.regex x p) = qText x ++ [32, 126, 32] ++ qText p := by rw [qText]
theorem qText_between (x lo hi : Cst) : qText (.between x lo hi) =
    qText x ++ [32, 66, 69, 84, 87, 69, 69, 78, 32] ++ qText lo ++ [32, 65, 78, 68, 32] ++ qText hi := by rw [qText]
theorem qText_inList (x : Cst) (items : CstList) :
    qText (.inList x items) = qText x ++ [32, 73, 78, 32] ++ ([40] ++ qListText items ++ [41]) := by rw [qText]
theorem qText_str (s : Bytes) : qText (.str s) = sqlQuote s := by rw [qText]

theorem good_cmpP (l r : Node) (o : Op) (p : F64) (d : Int)
    (ho : o = .equals ∨ o = .greater ∨ o = .less ∨ o = .greaterEq ∨ o = .lessEq)
    (hl : fldOKP l = true) (hr : opdOKP r = true) (tl : opdTextP l = true) (tr : opdTextP r = true) :
    ∃ c ps, GoodP (.mk l o r p d) c ps := by
  obtain ⟨f, hf, hAx, hsl, hx⟩ := fldP_good hl tl
  obtain ⟨q, hq, hs⟩ := opdOKP_inv hr
  have htq : pTextOK q = true := by unfold opdTextP at tr; rw [hq] at tr; exact tr
  obtain ⟨hAy, hsr, hy, hcnt⟩ := opdP_atom hq hs htq
  have hcp : opdCP r = some (atomCstP q, atomPs q) := by simp [opdCP, hq, hs]
  refine ⟨.cmp (cmpOfOp o) (.col f) (atomCstP q), atomPs q, ?_, .leaf (.cmp _ hAx hAy), ?_, ?_, ?_, by simp [pd]⟩
  · rcases ho with rfl | rfl | rfl | rfl | rfl <;> simp [toCstP, hf, hcp]
  · rw [qText_cmp]
    rcases ho with rfl | rfl | rfl | rfl | rfl
    · rw [renderParam_of _ _ _ _ _ (by decide) (by decide) _ (rfl : pgFns .equals = some (fnInfix " = ")) _ _ _ _ hx hy]
      simp only [hsl, hsr, Bool.not_true, Bool.and_false, Bool.false_eq_true, ↓reduceIte, fnInfix_ok, b_eq', cmpOfOp,
        List.nil_append]
    · rw [renderParam_of _ _ _ _ _ (by decide) (by decide) _ (rfl : pgFns .greater = some (fnInfix " > ")) _ _ _ _ hx hy]
      simp only [hsl, hsr, Bool.not_true, Bool.and_false, Bool.false_eq_true, ↓reduceIte, fnInfix_ok, b_gt, cmpOfOp,
        List.nil_append]
    · rw [renderParam_of _ _ _ _ _ (by decide) (by decide) _ (rfl : pgFns .less = some (fnInfix " < ")) _ _ _ _ hx hy]
      simp only [hsl, hsr, Bool.not_true, Bool.and_false, Bool.false_eq_true, ↓reduceIte, fnInfix_ok, b_lt, cmpOfOp,
        List.nil_append]
    · rw [renderParam_of _ _ _ _ _ (by decide) (by decide) _ (rfl : pgFns .greaterEq = some (fnInfix " >= ")) _ _ _ _ hx hy]
      simp only [hsl, hsr, Bool.not_true, Bool.and_false, Bool.false_eq_true, ↓reduceIte, fnInfix_ok, b_ge, cmpOfOp,
        List.nil_append]
    · rw [renderParam_of _ _ _ _ _ (by decide) (by decide) _ (rfl : pgFns .lessEq = some (fnInfix " <= ")) _ _ _ _ hx hy]
      simp only [hsl, hsr, Bool.not_true, Bool.and_false, Bool.false_eq_true, ↓reduceIte, fnInfix_ok, b_le, cmpOfOp,
        List.nil_append]
  · intro h
    rw [notSimple _ _ _ _ _ (by rcases ho with rfl | rfl | rfl | rfl | rfl <;> decide)] at h; cases h
  · simp only [pcount, hcnt, Nat.zero_add]

/-- RenderParam on a Like node whose pattern is the string `s` -/
theorem renderParam_like (l r : Node) (p : F64) (d : Int) (s xl : Bytes)
    (hl : serializeParams pgFns l = .ok (xl, [])) (hr : serializeParams pgFns r = .ok (b "?", [.str s]))
    (hsl : isSimple l = true) (hsr : isSimple r = true) :
    renderParam pgFns (.mk l .like r p d) =
      .ok (if regexLooking s then (xl ++ b " ~ " ++ b "?", [.str s])
           else (xl ++ b " SIMILAR TO " ++ b "?", [.str (starPattern s)])) := by
  rw [renderParam, hl, hr]
  simp only [if_true, hsl, hsr, Bool.not_true, Bool.and_false, Bool.false_eq_true, if_false, Subst.notSlashy_eq,
    List.nil_append]
  cases hs : Subst.slashy s with
  | false =>
    have hs' := Subst.slashy_starPattern s
    rw [hs] at hs'
    have hr' : regexLooking s = false := hs
    unfold Subst.slashy at hs'
    simp only [Bool.not_false, if_true, likeParam, hs', Bool.false_eq_true, if_false, hr']
  | true =>
    have hs' := hs
    have hr' : regexLooking s = true := hs
    unfold Subst.slashy at hs'
    simp only [Bool.not_true, Bool.false_eq_true, if_false, likeParam, hs', if_true, hr']

theorem good_likeP (l r : Node) (p : F64) (d : Int)
    (hl : fldOKP l = true) (hr : patOK r = true) (tl : opdTextP l = true) :
    ∃ c ps, GoodP (.mk l .like r p d) c ps := by
  obtain ⟨f, hf, hAx, hsl, hx⟩ := fldP_good hl tl
  obtain ⟨pat, hpat⟩ := patOK_inv hr
  obtain ⟨_, hsr, hy, _⟩ := opdP_atom hpat (rfl : pShape (.str pat) = true) rfl
  have hy' : serializeParams pgFns r = .ok (b "?", [.str pat]) := by
    rw [hy]
    show Out.ok (qText (.param 0), [Prim.str pat]) = _
    rw [qText_param, bq]
  have hrp := renderParam_like l r p d pat _ hx hy' hsl hsr
  cases hre : regexLooking pat with
  | true =>
    refine ⟨.regex (.col f) (.param 0), [.str pat], ?_, .leaf (.regex hAx (.param 0 rfl)), ?_,
      fun h => ?_, rfl, by simp [pd]⟩
    · simp [toCstP, hf, hpat, hre]
    · rw [hrp, hre]; simp only [↓reduceIte, qText_regex, qText_param, b_tilde, bq]
    · rw [notSimple _ _ _ _ _ (by decide)] at h; cases h
  | false =>
    refine ⟨.similar (.col f) (.param 0), [.str (starPattern pat)], ?_, .leaf (.similar hAx (.param 0 rfl)), ?_,
      fun h => ?_, rfl, by simp [pd]⟩
    · simp [toCstP, hf, hpat, hre]
    · rw [hrp, hre]; simp only [Bool.false_eq_true, ↓reduceIte, qText_similar, qText_param, b_similar, bq]
    · rw [notSimple _ _ _ _ _ (by decide)] at h; cases h

/-! ## IN -/

theorem pcountL_cons (a : Cst) (t : CstList) : pcountL (.cons a t) = pcount a + pcountL t := by rw [pcountL]

theorem items_goodP : ∀ (e : Expr) (t : ExprList), itemsOKP (.cons e t) = true → itemsTextP (.cons e t) = true →
    ∃ a as ps s ss, listCP (.cons e t) = some (.cons a as, ps) ∧
      serializeParamsList pgFns (.cons e t) = .ok (s :: ss, ps) ∧
      AtomsP true (.cons a as) ∧ joinWith (b ", ") (s :: ss) = qListText (.cons a as) ∧
      pcountL (.cons a as) = ps.length
  | e, .nil, hc, ht => by
    unfold itemsOKP at hc
    split at hc
    · rename_i heq; cases heq
    · rename_i q o bz fz t' heq
      cases heq
      simp only [Bool.and_eq_true] at hc
      simp only [itemsTextP, Bool.and_eq_true] at ht
      obtain ⟨hA, _, hser, hcnt⟩ := opdP_atom (opdPrim_leaf q o bz fz hc.1.1) hc.1.2 ht.1
      rw [sp_expr] at hser
      refine ⟨atomCstP q, .nil, atomPs q, qText (atomCstP q), [], ?_, ?_, .one hA, ?_, ?_⟩
      · simp [listCP, hc.1.1, hc.1.2]
      · rw [spl_cons, hser, spl_nil]; simp
      · simp only [joinWith, qListText]
      · rw [pcountL_cons, hcnt]; simp [pcountL]
    · cases hc
  | e, .cons e' t', hc, ht => by
    unfold itemsOKP at hc
    split at hc
    · rename_i heq; cases heq
    · rename_i q o bz fz t'' heq
      cases heq
      simp only [Bool.and_eq_true] at hc
      simp only [itemsTextP, Bool.and_eq_true] at ht
      obtain ⟨hA, _, hser, hcnt⟩ := opdP_atom (opdPrim_leaf q o bz fz hc.1.1) hc.1.2 ht.1
      rw [sp_expr] at hser
      obtain ⟨a', as', ps', s', ss', hl', hs', hat', hj', hc'⟩ :=
        items_goodP e' t' hc.2 (by simpa [itemsTextP] using ht.2)
      refine ⟨atomCstP q, .cons a' as', atomPs q ++ ps', qText (atomCstP q), s' :: ss', ?_, ?_, .cons hA hat', ?_, ?_⟩
      · simp [listCP, hc.1.1, hc.1.2, hl']
      · rw [spl_cons, hser, hs']
      · rw [joinWith_cons2, hj', qListText, b_commaSp]
      · rw [pcountL_cons, hcnt, hc', List.length_append]
    · cases hc

theorem listOKP_inv {r : Node} (h : listOKP r = true) :
    ∃ e t p d, r = .expr (.mk (.list (.cons e t)) .list .nil p d) ∧ itemsOKP (.cons e t) = true := by
  unfold listOKP at h
  split at h
  · exact ⟨_, _, _, _, rfl, h⟩
  · cases h

theorem good_inP (l : Node) (e : Expr) (t : ExprList) (p2 : F64) (d2 : Int) (p : F64) (d : Int)
    (hl : fldOKP l = true) (hi : itemsOKP (.cons e t) = true) (tl : opdTextP l = true)
    (hti : itemsTextP (.cons e t) = true) :
    ∃ c ps, GoodP (.mk l .in_ (.expr (.mk (.list (.cons e t)) .list .nil p2 d2)) p d) c ps := by
  obtain ⟨f, hf, hAx, hsl, hx⟩ := fldP_good hl tl
  obtain ⟨a, as, ps, s0, ss, hla, hss, hat, hj, hcnt⟩ := items_goodP e t hi hti
  have hls : serializeParams pgFns (.list (.cons e t)) = .ok (joinWith (b ", ") (s0 :: ss), ps) := by
    rw [sp_list, hss]
  have hy : serializeParams pgFns (.expr (.mk (.list (.cons e t)) .list .nil p2 d2)) =
      .ok ([40] ++ joinWith (b ", ") (s0 :: ss) ++ [41], ps) := by
    rw [sp_expr, renderParam_of _ _ _ _ _ (by decide) (by decide) _ (rfl : pgFns .list = some fnList) _ _ _ _ hls
      (sp_nil _)]
    have hp : parenOps .list = false := by decide
    simp only [hp, Bool.false_and, Bool.false_eq_true, ↓reduceIte, fnList, b_lp, b_rp, List.append_nil]
  refine ⟨.inList (.col f) (.cons a as), ps, ?_, .leaf (.inList hAx hat), ?_, fun h => ?_, ?_, by simp [pd]⟩
  · simp [toCstP, hf, hla]
  · rw [renderParam_of _ _ _ _ _ (by decide) (by decide) _ (rfl : pgFns .in_ = some (fnInfix " IN ")) _ _ _ _ hx hy]
    have hp : parenOps .in_ = false := by decide
    simp only [hp, Bool.false_and, Bool.false_eq_true, ↓reduceIte, fnInfix_ok, b_in, hj, qText_inList,
      List.nil_append]
  · rw [notSimple _ _ _ _ _ (by decide)] at h; cases h
  · simp only [pcount, hcnt, Nat.zero_add]

/-! ## ranges -/

theorem renderParam_range (l r : Node) (p : F64) (d : Int) (sl : Bytes) (pl : List Prim) (sr : Bytes) (pr : List Prim)
    (hl : serializeParams pgFns l = .ok (sl, pl)) (hr : serializeParams pgFns r = .ok (sr, pr)) :
    renderParam pgFns (.mk l .range r p d) =
      (match rangParam sl sr pr with
       | .ok s => .ok (s, pl ++ pr) | .err => .err | .panic => .panic) := by
  rw [renderParam, hl, hr]
  have h1 : (Op.range = Op.like) = False := by simp
  have hp : parenOps .range = false := by decide
  simp only [h1, if_false, hp, Bool.false_and, Bool.false_eq_true, if_true]
  generalize rangParam sl sr pr = x
  cases x <;> rfl

theorem boundOut_ok_eq (incl : Bool) (smin smax : Bytes) (pmin pmax : List Prim) :
    boundOut incl (.ok (smin, pmin)) (.ok (smax, pmax)) = .ok (Subst.bracket incl smin smax, pmin ++ pmax) := by
  cases incl <;> rfl

def endT (s : Bool) : Bytes := if s then starQ else b "?"

theorem valOKP_inv {n : Node} (h : valOKP n = true) : ∃ q, opdPrim n = some q ∧ isValP q = true := by
  unfold valOKP at h
  split at h
  · exact ⟨_, by assumption, h⟩
  · cases h

theorem atomP_val {q : Prim} (h : isValP q = true) : atomCstP q = .param 0 ∧ atomPs q = [q] ∧ pShape q = true := by
  cases q <;> simp_all [isValP, atomCstP, atomPs, pShape]

/-- one end of a range in parameter mode: `'*'` (no parameter) or `?` -/
theorem endP_good {n : Node} (hc : valOKP n = true) :
    ∃ q, opdPrim n = some q ∧ isValP q = true ∧
      endOut pgFns n = .ok (endT (bndStar n), endPs (bndStar n) q) := by
  obtain ⟨q, hq, hv⟩ := valOKP_inv hc
  obtain ⟨e1, e2, e3⟩ := atomP_val hv
  obtain ⟨_, _, hser, _⟩ := opdP_atom hq e3 (by cases q <;> first | rfl | simp [isValP] at hv)
  rw [e1, e2, qText_param, ← bq] at hser
  refine ⟨q, hq, hv, ?_⟩
  rcases opdPrim_inv hq with ⟨o, p, d, rfl, ho⟩ | rfl
  · simp only [endOut, bndStar]
    cases hs : starLeft (.mk (.prim q) o .nil p d)
    · simp only [Bool.false_eq_true, ↓reduceIte, endT, endPs]
      rw [← sp_expr]; exact hser
    · simp only [↓reduceIte, endT, endPs]
  · simp only [endOut, bndStar, endT, endPs, Bool.false_eq_true, ↓reduceIte]
    exact hser

theorem endT_isEnd (s : Bool) : Subst.isEndText (endT s) := by
  cases s
  · exact .inl rfl
  · exact .inr rfl

theorem numShape_zero : NumShape [48] := numShape_digits [48] (by simp) (by intro c hc; simp at hc; subst hc; decide)

theorem starQ_text : qText (.str [42]) = starQ := by rw [qText]; decide

/-- `rangParam` on the two ends -/
theorem rangParam_ends (X : Cst) (hX : AtomP true X) (incl : Bool) (slo shi : Bool) (qlo qhi : Prim) :
    RK true false (rangeCP X incl slo shi qlo qhi) ∧
    rangParam (qText X) (Subst.bracket incl (endT slo) (endT shi)) (endPs slo qlo ++ endPs shi qhi) =
      .ok (qText (rangeCP X incl slo shi qlo qhi)) ∧
    pcount (rangeCP X incl slo shi qlo qhi) = pcount X * (if slo || shi || !isNumPrim qlo then 1 else 2) +
      (endPs slo qlo ++ endPs shi qhi).length := by
  have hq : AtomP true (.param 0) := .param 0 rfl
  have hs : AtomP true (.str [42]) := .str _ (by decide)
  have h0 : AtomP true (.num false [48]) := .num _ _ numShape_zero
  rw [Subst.rangParam_val _ _ _ _ _ (endT_isEnd slo) (endT_isEnd shi)]
  cases slo <;> cases shi
  · -- ?, ?
    have c : (endT false == b "?" || endT false == b "?") = true := by decide
    simp only [c, ↓reduceIte, endPs, Bool.false_eq_true, List.singleton_append]
    cases qlo <;>
      simp only [rangeCP, isNumPrim, Bool.false_eq_true, Bool.and_self, ↓reduceIte, Bool.or_self, Bool.not_true,
        Bool.not_false, Bool.or_false, Bool.or_true, Bool.false_or]
    case int i =>
      refine ⟨.rng (.cmp _ hX hq) (.cmp _ hX hq), ?_, by simp [pcount]; omega⟩
      rw [rangeCmp_two _ _ _ _ _ _ (by decide) (by decide)]
      simp only [qText_and, qText_cmp, qText_param, endT, Bool.false_eq_true, ↓reduceIte, bq, List.append_assoc]
    case flt f =>
      refine ⟨.rng (.cmp _ hX hq) (.cmp _ hX hq), ?_, by simp [pcount]; omega⟩
      rw [rangeCmp_two _ _ _ _ _ _ (by decide) (by decide)]
      simp only [qText_and, qText_cmp, qText_param, endT, Bool.false_eq_true, ↓reduceIte, bq, List.append_assoc]
    all_goals
      refine ⟨.leaf (.between hX hq hq), ?_, by simp [pcount]⟩
      simp only [qText_between, qText_param, endT, Bool.false_eq_true, ↓reduceIte, bq, b_between, b_and]
  · -- ?, *
    have c : (endT false == b "?" || endT true == b "?") = true := by decide
    simp only [c, ↓reduceIte, endPs, Bool.false_eq_true, List.append_nil]
    cases qlo <;>
      simp only [rangeCP, isNumPrim, Bool.false_eq_true, Bool.and_false, Bool.false_and, ↓reduceIte, Bool.or_true,
        Bool.or_false, Bool.true_or, Bool.false_or]
    case int i =>
      refine ⟨.leaf (.cmp _ hX hq), ?_, by simp [pcount]⟩
      have e : endT true = starQ := rfl
      rw [e, rangeCmp_lower _ _ _ _ _ (by decide)]
      simp only [qText_cmp, qText_param, endT, Bool.false_eq_true, ↓reduceIte, bq]
    case flt f =>
      refine ⟨.leaf (.cmp _ hX hq), ?_, by simp [pcount]⟩
      have e : endT true = starQ := rfl
      rw [e, rangeCmp_lower _ _ _ _ _ (by decide)]
      simp only [qText_cmp, qText_param, endT, Bool.false_eq_true, ↓reduceIte, bq]
    all_goals
      refine ⟨.leaf (.between hX hq hs), ?_, by simp [pcount]⟩
      simp only [qText_between, qText_param, starQ_text, endT, Bool.false_eq_true, ↓reduceIte, bq, b_between, b_and]
  · -- *, ?
    have c : (endT true == b "?" || endT false == b "?") = true := by decide
    simp only [c, ↓reduceIte, endPs, Bool.false_eq_true, List.nil_append]
    cases qhi <;>
      simp only [rangeCP, isNumPrim, Bool.false_eq_true, Bool.and_false, Bool.true_and, ↓reduceIte, Bool.or_true,
        Bool.or_false, Bool.true_or, Bool.false_or]
    case int i =>
      refine ⟨.leaf (.cmp _ hX hq), ?_, by simp [pcount]⟩
      have e : endT true = starQ := rfl
      rw [e, rangeCmp_upper]
      simp only [qText_cmp, qText_param, endT, Bool.false_eq_true, ↓reduceIte, bq]
    case flt f =>
      refine ⟨.leaf (.cmp _ hX hq), ?_, by simp [pcount]⟩
      have e : endT true = starQ := rfl
      rw [e, rangeCmp_upper]
      simp only [qText_cmp, qText_param, endT, Bool.false_eq_true, ↓reduceIte, bq]
    all_goals
      refine ⟨.leaf (.between hX hs hq), ?_, by simp [pcount]⟩
      simp only [qText_between, qText_param, starQ_text, endT, Bool.false_eq_true, ↓reduceIte, bq, b_between, b_and]
  · -- *, *
    have c : (endT true == b "?" || endT true == b "?") = false := by decide
    simp only [c, Bool.false_eq_true, ↓reduceIte, endPs, List.append_nil, rangeCP, Bool.and_self, Bool.or_self,
      Bool.true_or]
    refine ⟨.leaf (.cmp _ hX h0), ?_, by simp [pcount]⟩
    have e : endT true = starQ := rfl
    rw [e, Subst.rt_ints _ _ _ _ 0 0 Subst.toInts_star_star, rangeCmp_upper, Subst.fmtInt_zero]
    simp only [qText_cmp, qText, Bool.false_eq_true, ↓reduceIte]

theorem pd_rangeCP (X : Cst) (hX : pd X = 0) (incl slo shi : Bool) (qlo qhi : Prim) :
    pd (rangeCP X incl slo shi qlo qhi) = 0 := by
  unfold rangeCP
  simp only []
  repeat' split
  all_goals simp [pd]

theorem rangeOKP_inv {r : Node} (h : rangeOKP r = true) :
    ∃ mn mx incl, r = .bound mn mx incl ∧ valOKP mn = true ∧ valOKP mx = true := by
  unfold rangeOKP at h
  split at h
  · simp only [Bool.and_eq_true] at h; exact ⟨_, _, _, rfl, h.1, h.2⟩
  · cases h

theorem good_rangeP (l mn mx : Node) (incl : Bool) (p : F64) (d : Int)
    (hl : fldOKP l = true) (h1 : valOKP mn = true) (h2 : valOKP mx = true) (tl : opdTextP l = true) :
    ∃ c ps, GoodP (.mk l .range (.bound mn mx incl) p d) c ps := by
  obtain ⟨f, hf, hAx, hsl, hx⟩ := fldP_good hl tl
  obtain ⟨qlo, hqlo, hvlo, helo⟩ := endP_good h1
  obtain ⟨qhi, hqhi, hvhi, hehi⟩ := endP_good h2
  have hy : serializeParams pgFns (.bound mn mx incl) =
      .ok (Subst.bracket incl (endT (bndStar mn)) (endT (bndStar mx)),
        endPs (bndStar mn) qlo ++ endPs (bndStar mx) qhi) := by
    rw [sp_bound', helo, hehi, boundOut_ok_eq]
  obtain ⟨hrk, hrp, hcnt⟩ := rangParam_ends (.col f) hAx incl (bndStar mn) (bndStar mx) qlo qhi
  refine ⟨rangeCP (.col f) incl (bndStar mn) (bndStar mx) qlo qhi,
    endPs (bndStar mn) qlo ++ endPs (bndStar mx) qhi, ?_, hrk, ?_, fun h => ?_, ?_, ?_⟩
  · simp [toCstP, hf, hqlo, hqhi, hvlo, hvhi]
  · rw [renderParam_range _ _ _ _ _ _ _ _ hx hy, hrp]
    simp only [List.nil_append]
  · rw [notSimple _ _ _ _ _ (by decide)] at h; cases h
  · rw [hcnt]; simp [pcount]
  · rw [pd_rangeCP _ rfl]; exact Nat.zero_le _

/-! ## the whole fragment -/

theorem pcount_wrap (n : Node) (c : Cst) : pcount (wrapOpd n c) = pcount c := by
  unfold wrapOpd; split <;> simp [pcount]

theorem good_leafP (q : Prim) (o : Op) (p : F64) (d : Int) (ho : leafOp o = true) (hs : pShape q = true)
    (ht : pTextOK q = true) : ∃ c ps, GoodP (.mk (.prim q) o .nil p d) c ps := by
  obtain ⟨hA, _, hser, hcnt⟩ := opdP_atom (opdPrim_leaf q o p d ho) hs ht
  rw [sp_expr] at hser
  refine ⟨atomCstP q, atomPs q, ?_, .atom false hA, hser, fun _ => hA, hcnt, ?_⟩
  · rcases leafOp_cases ho with rfl | rfl | rfl <;> simp [toCstP, hs]
  · rw [(atomP_peak hA 0).2]; exact Nat.zero_le _

mutual
theorem good_node_param : ∀ n : Node, confinedParamNode n = true → textParamNode n = true →
    ∃ c ps, toCstPNode n = some (c, ps) ∧ RK true false c ∧ serializeParams pgFns n = .ok (qText c, ps) ∧
      (isSimple n = true → AtomP true c) ∧ pcount c = ps.length ∧ pd c ≤ nestNode n
  | .expr e, hc, ht => by
    simp only [confinedParamNode] at hc
    simp only [textParamNode] at ht
    rw [sp_expr]
    simp only [toCstPNode, nestNode]
    exact good_expr_param e hc ht
  | .prim q, hc, ht => by
    simp only [confinedParamNode] at hc
    simp only [textParamNode] at ht
    obtain ⟨hA, hser, _, hcnt⟩ := primP_atom q hc ht
    exact ⟨atomCstP q, atomPs q, by simp [toCstPNode, hc], .atom false hA, hser, fun _ => hA, hcnt,
      by rw [(atomP_peak hA 0).2]; exact Nat.zero_le _⟩
  | .nil, hc, _ => by simp [confinedParamNode] at hc
  | .list _, hc, _ => by simp [confinedParamNode] at hc
  | .bound _ _ _, hc, _ => by simp [confinedParamNode] at hc
/-- RENDERER (parameter mode): the text is the text of `toCstP e`, which has the rendered shape -/
theorem good_expr_param : ∀ e : Expr, confinedParam e = true → textParam e = true → ∃ c ps, GoodP e c ps
  | .mk l o r p d, hc, ht => by
    cases o
    case and =>
      simp only [confinedParam, Bool.and_eq_true] at hc
      simp only [textParam, Bool.and_eq_true] at ht
      obtain ⟨x, px, hx1, hx2, hx, hxs, hxc, hxd⟩ := good_node_param l hc.1 ht.1
      obtain ⟨y, py, hy1, hy2, hy, hys, hyc, hyd⟩ := good_node_param r hc.2 ht.2
      have hp : parenOps .and = true := by decide
      refine ⟨.and (wrapOpd l x) (wrapOpd r y), px ++ py, by simp only [toCstP, hx1, hy1],
        RK.and (wrap_rk hx2 hxs) (wrap_rk hy2 hys), ?_, fun h => ?_, ?_, ?_⟩
      · rw [renderParam_of _ _ _ _ _ (by decide) (by decide) _ (rfl : pgFns .and = some (fnInfix " AND ")) _ _ _ _
          hx hy]
        rw [parenB_wrap _ _ _ hp, parenB_wrap _ _ _ hp, fnInfix_ok, b_and, qText_and]
      · rw [notSimple _ _ _ _ _ (by decide)] at h; cases h
      · simp only [pcount, pcount_wrap, hxc, hyc, List.length_append]
      · have := pd_wrap l x; have := pd_wrap r y
        simp only [pd, nest]; omega
    case or =>
      simp only [confinedParam, Bool.and_eq_true] at hc
      simp only [textParam, Bool.and_eq_true] at ht
      obtain ⟨x, px, hx1, hx2, hx, hxs, hxc, hxd⟩ := good_node_param l hc.1 ht.1
      obtain ⟨y, py, hy1, hy2, hy, hys, hyc, hyd⟩ := good_node_param r hc.2 ht.2
      have hp : parenOps .or = true := by decide
      refine ⟨.or (wrapOpd l x) (wrapOpd r y), px ++ py, by simp only [toCstP, hx1, hy1],
        RK.or (wrap_rk hx2 hxs) (wrap_rk hy2 hys), ?_, fun h => ?_, ?_, ?_⟩
      · rw [renderParam_of _ _ _ _ _ (by decide) (by decide) _ (rfl : pgFns .or = some (fnInfix " OR ")) _ _ _ _
          hx hy]
        rw [parenB_wrap _ _ _ hp, parenB_wrap _ _ _ hp, fnInfix_ok, b_or, qText_or]
      · rw [notSimple _ _ _ _ _ (by decide)] at h; cases h
      · simp only [pcount, pcount_wrap, hxc, hyc, List.length_append]
      · have := pd_wrap l x; have := pd_wrap r y
        simp only [pd, nest]; omega
    case not =>
      simp only [confinedParam, Bool.and_eq_true] at hc
      simp only [textParam] at ht
      obtain ⟨x, px, hx1, hx2, hx, _, hxc, hxd⟩ := good_node_param l hc.1 ht
      cases nil_of_isNil hc.2
      refine ⟨.not (.paren x), px, by simp only [toCstP, hx1], RK.not hx2, ?_, fun h => ?_, ?_, ?_⟩
      · rw [renderParam_of _ _ _ _ _ (by decide) (by decide) _ (rfl : pgFns .not = some fnWrapNot) _ _ _ _ hx
          (sp_nil _)]
        have hp : parenOps .not = false := by decide
        simp only [hp, Bool.false_and, Bool.false_eq_true, ↓reduceIte, fnWrapNot, b_notp, b_rp, qText_not,
          qText_paren, List.append_nil]
        simp
      · rw [notSimple _ _ _ _ _ (by decide)] at h; cases h
      · simp only [pcount, hxc]
      · simp only [pd, nest]; omega
    case mustNot =>
      simp only [confinedParam, Bool.and_eq_true] at hc
      simp only [textParam] at ht
      obtain ⟨x, px, hx1, hx2, hx, _, hxc, hxd⟩ := good_node_param l hc.1 ht
      cases nil_of_isNil hc.2
      refine ⟨.not (.paren x), px, by simp only [toCstP, hx1], RK.not hx2, ?_, fun h => ?_, ?_, ?_⟩
      · rw [renderParam_of _ _ _ _ _ (by decide) (by decide) _ (rfl : pgFns .mustNot = some fnWrapNot) _ _ _ _ hx
          (sp_nil _)]
        have hp : parenOps .mustNot = false := by decide
        simp only [hp, Bool.false_and, Bool.false_eq_true, ↓reduceIte, fnWrapNot, b_notp, b_rp, qText_not,
          qText_paren, List.append_nil]
        simp
      · rw [notSimple _ _ _ _ _ (by decide)] at h; cases h
      · simp only [pcount, hxc]
      · simp only [pd, nest]; omega
    case must =>
      simp only [confinedParam, Bool.and_eq_true] at hc
      simp only [textParam] at ht
      obtain ⟨x, px, hx1, hx2, hx, _, hxc, hxd⟩ := good_node_param l hc.1 ht
      cases nil_of_isNil hc.2
      refine ⟨x, px, by simp only [toCstP, hx1], hx2, ?_, fun h => ?_, hxc, ?_⟩
      · rw [renderParam_of _ _ _ _ _ (by decide) (by decide) _ (rfl : pgFns .must = some fnNoop) _ _ _ _ hx
          (sp_nil _)]
        have hp : parenOps .must = false := by decide
        simp only [hp, Bool.false_and, Bool.false_eq_true, ↓reduceIte, fnNoop, List.append_nil]
      · rw [notSimple _ _ _ _ _ (by decide)] at h; cases h
      · simp only [nest]; omega
    case literal =>
      simp only [confinedParam, Bool.and_eq_true] at hc
      simp only [textParam] at ht
      cases nil_of_isNil hc.2
      cases l <;> first | (simp at hc; done) | exact good_leafP _ .literal p d rfl hc.1 ht
    case wild =>
      simp only [confinedParam, Bool.and_eq_true] at hc
      simp only [textParam] at ht
      cases nil_of_isNil hc.2
      cases l <;> first | (simp at hc; done) | exact good_leafP _ .wild p d rfl hc.1 ht
    case regexp =>
      simp only [confinedParam, Bool.and_eq_true] at hc
      simp only [textParam] at ht
      cases nil_of_isNil hc.2
      cases l <;> first | (simp at hc; done) | exact good_leafP _ .regexp p d rfl hc.1 ht
    case equals =>
      simp only [confinedParam, Bool.and_eq_true] at hc
      simp only [textParam, Bool.and_eq_true] at ht
      exact good_cmpP l r .equals p d (.inl rfl) hc.1 hc.2 ht.1 ht.2
    case greater =>
      simp only [confinedParam, Bool.and_eq_true] at hc
      simp only [textParam, Bool.and_eq_true] at ht
      exact good_cmpP l r .greater p d (.inr (.inl rfl)) hc.1 hc.2 ht.1 ht.2
    case less =>
      simp only [confinedParam, Bool.and_eq_true] at hc
      simp only [textParam, Bool.and_eq_true] at ht
      exact good_cmpP l r .less p d (.inr (.inr (.inl rfl))) hc.1 hc.2 ht.1 ht.2
    case greaterEq =>
      simp only [confinedParam, Bool.and_eq_true] at hc
      simp only [textParam, Bool.and_eq_true] at ht
      exact good_cmpP l r .greaterEq p d (.inr (.inr (.inr (.inl rfl)))) hc.1 hc.2 ht.1 ht.2
    case lessEq =>
      simp only [confinedParam, Bool.and_eq_true] at hc
      simp only [textParam, Bool.and_eq_true] at ht
      exact good_cmpP l r .lessEq p d (.inr (.inr (.inr (.inr rfl)))) hc.1 hc.2 ht.1 ht.2
    case like =>
      simp only [confinedParam, Bool.and_eq_true] at hc
      simp only [textParam] at ht
      exact good_likeP l r p d hc.1 hc.2 ht
    case in_ =>
      simp only [confinedParam, Bool.and_eq_true] at hc
      simp only [textParam, Bool.and_eq_true] at ht
      obtain ⟨e, t, p2, d2, rfl, hi⟩ := listOKP_inv hc.2
      exact good_inP l e t p2 d2 p d hc.1 hi ht.1 ht.2
    case range =>
      simp only [confinedParam, Bool.and_eq_true] at hc
      simp only [textParam] at ht
      obtain ⟨mn, mx, incl, rfl, h1, h2⟩ := rangeOKP_inv hc.2
      exact good_rangeP l mn mx incl p d hc.1 h1 h2 ht
    all_goals simp [confinedParam] at hc
end

/-! ## MAIN THEOREMS (parameterized text) -/

/-- exact form -/
theorem render_parses_param_iff (e : Expr) (sqlP : Bytes) (ps : List Prim) (hc : confinedParam e = true)
    (ht : textParam e = true) (hr : renderParam pgFns e = .ok (sqlP, ps)) :
    ∃ c, toCstP e = some (c, ps) ∧ pcount c = ps.length ∧
      parseSql sqlP = if (renum 1 c).peak frameDepth < maxStack then some (renum 1 c).toAst else none := by
  obtain ⟨c, ps', hcst, hrk, hren, _, hcnt, _⟩ := good_expr_param e hc ht
  rw [hren] at hr
  cases hr
  exact ⟨c, hcst, hcnt, parseSql_RK hrk⟩

/-- MAIN THEOREM (parameterized text): PostgreSQL reads the text as exactly the one expression `toAstP e`, whose
    placeholders are numbered from left to right, and the parameter list is `paramsP e` -/
theorem render_parses_param (e : Expr) (sqlP : Bytes) (ps : List Prim) (hc : confinedParam e = true)
    (ht : textParam e = true) (hd : depthOK e = true) (hr : renderParam pgFns e = .ok (sqlP, ps)) :
    parseSql sqlP = toAstP e ∧ paramsP e = some ps := by
  obtain ⟨c, ps', hcst, hrk, hren, _, hcnt, hpd⟩ := good_expr_param e hc ht
  rw [hren] at hr
  cases hr
  have h3 : nest e ≤ 2990 := by simpa [depthOK] using hd
  have hst := rk_stack hrk (by omega)
  rw [parseSql_RK hrk, if_pos hst]
  simp [toAstP, paramsP, hcst]

/-- rendering succeeds on the fragment -/
theorem renders_param (e : Expr) (hc : confinedParam e = true) (ht : textParam e = true) :
    ∃ sqlP ps, renderParam pgFns e = .ok (sqlP, ps) := by
  obtain ⟨c, ps, _, _, hren, _⟩ := good_expr_param e hc ht
  exact ⟨_, _, hren⟩

end GoLucene.SqlWide

#print axioms GoLucene.SqlWide.render_parses_param
#print axioms GoLucene.SqlWide.render_parses_param_iff
