import GoLucene.Generated.Effects

/-!
# C15, source level: `Base.Render` / `Base.RenderParam` reach render functions only through the table they are given

Same regenerated graph as `Proofs/EffectsCheck.lean` (translator `harness/cmd/effects`), but over its STATIC reference
edges only (`staticEdges`: named functions, methods, function literals, tables mentioned, interface and library
call-backs — without the edges the translator adds for calls of function VALUES).  A node is *render-function typed* when
its signature is `func(string, string) (string, error)` (`renderFnTyped`).

`fold_uses_only_the_table`: no function statically reachable from `Base.Render` or `Base.RenderParam` is render-function
typed, and none mentions the package-level table `driver.Shared`.  So whatever render function runs while an expression is
rendered was obtained from the `RenderFNs` map of the driver at hand (a dynamic call) — the static half of "Render folds the
tree with exactly the supplied functions".  A change that makes `Base` call a built-in render function directly (a bulk path
for long lists calling `literal`, a fall-back to `Shared` when the map has no entry) breaks this theorem whatever the input.
The two functions `RenderParam` does call by name, `likeParam` and `rangParam`, have a different signature (they take the
parameters as well) and are outside this theorem; the correspondence check covers them.
-/

namespace GoLucene.EffectsFold
open GoLucene.Generated.Effects

/-- successors in an arbitrary adjacency table -/
def succE (E : List (List Nat)) (i : Nat) : List Nat := E.getD i []

inductive ReachE (E : List (List Nat)) (roots : List Nat) : Nat → Prop
  | root {i : Nat} : i ∈ roots → ReachE E roots i
  | step {i j : Nat} : ReachE E roots i → j ∈ succE E i → ReachE E roots j

def closedE (E : List (List Nat)) (s : List Nat) : Bool := s.all fun i => (succE E i).all fun j => s.contains j

theorem reach_subE {E : List (List Nat)} {roots s : List Nat} (hc : closedE E s = true) (hr : ∀ r ∈ roots, r ∈ s) :
    ∀ j, ReachE E roots j → j ∈ s := by
  intro j h
  induction h with
  | root hi => exact hr _ hi
  | step _ hj ih =>
    have h1 := List.all_eq_true.mp hc _ ih
    have h2 := List.all_eq_true.mp h1 _ hj
    simpa using h2

def dfsE (E : List (List Nat)) : Nat → List Nat → List Nat → List Nat
  | 0, _, seen => seen
  | _, [], seen => seen
  | f + 1, i :: wl, seen => if seen.contains i then dfsE E f wl seen else dfsE E f (succE E i ++ wl) (i :: seen)

def closureE (E : List (List Nat)) (roots : List Nat) : List Nat :=
  dfsE E ((E.map List.length).sum + roots.length + 1) roots []

def certE (E : List (List Nat)) (roots : List Nat) (p : Nat → Bool) : Bool :=
  let s := closureE E roots
  closedE E s && roots.all (fun r => s.contains r) && s.all p

/-- soundness of the checker: a passing certificate speaks about every path of `E`-edges from the roots -/
theorem certifiedE {E : List (List Nat)} {roots : List Nat} {p : Nat → Bool} (h : certE E roots p = true) :
    ∀ j, ReachE E roots j → p j = true := by
  simp only [certE, Bool.and_eq_true] at h
  obtain ⟨⟨hc, hr⟩, hw⟩ := h
  intro j hj
  have hjs : j ∈ closureE E roots :=
    reach_subE hc (fun r hr' => by simpa using List.all_eq_true.mp hr r hr') j hj
  exact List.all_eq_true.mp hw j hjs

def foldNames : List String := ["driver.Base.Render", "driver.Base.RenderParam"]
def foldRoots : List Nat := (foldNames.mapM (fun n => names.idxOf? n)).getD []
def sharedInit : Option Nat := names.idxOf? "init:driver.Shared"

theorem fold_entry_points_exist : (foldNames.mapM (fun n => names.idxOf? n)).isSome = true := by decide +kernel

/-- no function statically reachable from `Base.Render` / `Base.RenderParam` is a render function, and none mentions
    `driver.Shared`: the render functions that run are the ones found in the driver's own `RenderFNs` -/
theorem fold_uses_only_the_table :
    ∀ j, ReachE staticEdges foldRoots j → renderFnTyped.contains j = false ∧ some j ≠ sharedInit := by
  have h : certE staticEdges foldRoots (fun i => !renderFnTyped.contains i && !(sharedInit == some i)) = true := by
    decide +kernel
  intro j hj
  have := certifiedE h j hj
  simp only [Bool.and_eq_true, Bool.not_eq_true', beq_eq_false_iff_ne, ne_eq] at this
  exact ⟨this.1, fun e => this.2 e.symm⟩

/-- the functions of package `driver` that the fold reaches by NAME (information, deliberately NOT a theorem: on the current
    tree `Base`'s own helpers and the two parameterized special cases `likeParam`, `rangParam` with `toInts`, `toFloats`;
    a first version pinned this list and broke on three behaviour-preserving refactorings that merely added helpers) -/
def driverNodesReached : List String :=
  ((closureE staticEdges foldRoots).filterMap (fun i => names[i]?)).filter (fun n => n.startsWith "driver.")

/-- non-vacuity: the static closure is not trivial, and over ALL edges (function values followed) the render functions ARE
    reached — the theorem above is about how they are reached, not whether -/
example : 8 ≤ (closureE staticEdges foldRoots).length := by decide +kernel
example : 1 ≤ renderFnTyped.length ∧ renderFnTyped.all (fun i => (closureE edges foldRoots).contains i) = true := by decide +kernel

end GoLucene.EffectsFold
