import GoLucene.Proofs.SemShape
/-
  From the parser shape and Validate to C10's independent shape check, and to the shared invariant `wfTree`.
-/
namespace GoLucene

theorem isTermNode_of_semLeaf (e : Expr) (h : semLeaf e = true) : isTermNode (.expr e) = true := by
  obtain ⟨l, o, r, p, d⟩ := e
  cases l with
  | prim pr =>
    cases r <;> simp [semLeaf] at h
    cases pr <;> simp [semLeaf] at h <;> simp_all [isTermNode, Prim.isLiteral, Node.isNil, Op.isLeafOp]
  | _ => simp [semLeaf] at h

theorem semLeaf_pd (l : Node) (o : Op) (r : Node) (p p' : F64) (d d' : Int) (h : semLeaf (.mk l o r p d) = true) :
    semLeaf (.mk l o r p' d') = true := by
  cases l with
  | prim pr => cases r <;> simp [semLeaf] at h ⊢; exact h
  | _ => simp [semLeaf] at h

/-- a field position: the validators demand a literal expression, the parser shape makes it a leaf -/
theorem isTermNode_of_shape_literal (n : Node) (hs : semNode n = true) (hv : isLiteralExpr n = true) :
    isTermNode n = true := by
  cases n with
  | expr a =>
    obtain ⟨l, o, r, p, d⟩ := a
    simp only [isLiteralExpr, Bool.and_eq_true, Bool.or_eq_true, decide_eq_true_eq] at hv
    have hleaf : semLeaf (.mk l o r p d) = true :=
      semLeaf_of_shape_leafop _ hs (by rcases hv.1 with (h | h) | h <;> simp [Expr.op, h, Op.isLeafOp])
    exact isTermNode_of_semLeaf _ hleaf
  | _ => simp [semNode] at hs

theorem allPlain_of_allSemLit : ∀ es : ExprList, es.allSemLit = true → es.allPlain = true
  | .nil, _ => by simp [ExprList.allPlain]
  | .cons e t, h => by
    simp only [ExprList.allSemLit, Bool.and_eq_true, decide_eq_true_eq] at h
    obtain ⟨⟨h1, h2⟩, h3⟩ := h
    obtain ⟨l, o, r, p, d⟩ := e
    simp only [Expr.op] at h2
    subst h2
    simp only [ExprList.allPlain, Bool.and_eq_true]
    refine ⟨?_, allPlain_of_allSemLit t h3⟩
    cases l with
    | prim pr =>
      cases r <;> simp [semLeaf] at h1
      cases pr <;> simp_all [semLeaf, isPlainValue, Prim.isLiteral]
    | _ => simp [semLeaf] at h1

theorem validateOp_true (e : Expr)
    (h : (match validateOp e with | some true => true | _ => false) = true) : validateOp e = some true := by
  split at h
  · assumption
  · exact absurd h Bool.false_ne_true

/-- C10, shape clause: what the parser builds and Validate lets through passes the independent shape check -/
theorem wellFormed_of_shape : ∀ e : Expr, semShape e = true → validateExpr e = true → wellFormed e = true
  | .mk l o r p d, hs, hv => by
    simp only [validateExpr, Bool.and_eq_true] at hv
    obtain ⟨⟨hop, hvl⟩, hvr⟩ := hv
    cases o with
    | undefined => simp [semShape] at hs
    | list => simp [semShape] at hs
    | literal =>
      simp only [semShape] at hs
      simpa [wellFormed] using isTermNode_of_semLeaf _ (semLeaf_pd _ _ _ _ F64.one _ 1 hs)
    | wild =>
      simp only [semShape] at hs
      simpa [wellFormed] using isTermNode_of_semLeaf _ (semLeaf_pd _ _ _ _ F64.one _ 1 hs)
    | regexp =>
      simp only [semShape] at hs
      simpa [wellFormed] using isTermNode_of_semLeaf _ (semLeaf_pd _ _ _ _ F64.one _ 1 hs)
    | and =>
      simp only [semShape, Bool.and_eq_true] at hs
      cases l <;> simp [semNode] at hs
      cases r <;> simp [semNode] at hs
      rename_i a c
      simp only [validateNode] at hvl hvr
      simp [wellFormed, wellFormedNode, wellFormed_of_shape a hs.1 hvl, wellFormed_of_shape c hs.2 hvr]
    | or =>
      simp only [semShape, Bool.and_eq_true] at hs
      cases l <;> simp [semNode] at hs
      cases r <;> simp [semNode] at hs
      rename_i a c
      simp only [validateNode] at hvl hvr
      simp [wellFormed, wellFormedNode, wellFormed_of_shape a hs.1 hvl, wellFormed_of_shape c hs.2 hvr]
    | not =>
      simp only [semShape, Bool.and_eq_true] at hs
      cases l <;> simp [semNode] at hs
      rename_i a
      simp only [validateNode] at hvl
      simp [wellFormed, wellFormedNode, wellFormed_of_shape a hs.1 hvl, hs.2]
    | must =>
      simp only [semShape, Bool.and_eq_true] at hs
      cases l <;> simp [semNode] at hs
      rename_i a
      simp only [validateNode] at hvl
      simp [wellFormed, wellFormedNode, wellFormed_of_shape a hs.1 hvl, hs.2]
    | mustNot =>
      simp only [semShape, Bool.and_eq_true] at hs
      cases l <;> simp [semNode] at hs
      rename_i a
      simp only [validateNode] at hvl
      simp [wellFormed, wellFormedNode, wellFormed_of_shape a hs.1 hvl, hs.2]
    | boost =>
      simp only [semShape, Bool.and_eq_true] at hs
      cases l <;> simp [semNode] at hs
      rename_i a
      simp only [validateNode] at hvl
      simp [wellFormed, wellFormedNode, wellFormed_of_shape a hs.1 hvl, hs.2]
    | fuzzy =>
      simp only [semShape, Bool.and_eq_true] at hs
      cases l <;> simp [semNode] at hs
      rename_i a
      simp only [validateNode] at hvl
      simp [wellFormed, wellFormedNode, wellFormed_of_shape a hs.1 hvl, hs.2]
    | equals =>
      simp only [semShape, Bool.and_eq_true] at hs
      have hlit : isLiteralExpr l = true := by
        simp only [validateOp, Expr.op, Expr.left] at hop
        split at hop <;> simp_all
      have hl := isTermNode_of_shape_literal l hs.1 hlit
      cases r <;> simp [semNode] at hs
      rename_i c
      simp only [validateNode] at hvr
      simp [wellFormed, wellFormedNode, hl, wellFormed_of_shape c hs.2 hvr]
    | greater =>
      simp only [semShape, Bool.and_eq_true] at hs
      have hlit : isLiteralExpr l = true := by
        simp only [validateOp, Expr.op, Expr.left] at hop
        split at hop <;> simp_all
      have hl := isTermNode_of_shape_literal l hs.1 hlit
      cases r <;> simp [semNode] at hs
      rename_i c
      simp only [validateNode] at hvr
      simp [wellFormed, wellFormedNode, hl, wellFormed_of_shape c hs.2 hvr]
    | less =>
      simp only [semShape, Bool.and_eq_true] at hs
      have hlit : isLiteralExpr l = true := by
        simp only [validateOp, Expr.op, Expr.left] at hop
        split at hop <;> simp_all
      have hl := isTermNode_of_shape_literal l hs.1 hlit
      cases r <;> simp [semNode] at hs
      rename_i c
      simp only [validateNode] at hvr
      simp [wellFormed, wellFormedNode, hl, wellFormed_of_shape c hs.2 hvr]
    | greaterEq =>
      simp only [semShape, Bool.and_eq_true] at hs
      have hlit : isLiteralExpr l = true := by
        simp only [validateOp, Expr.op, Expr.left] at hop
        split at hop <;> simp_all
      have hl := isTermNode_of_shape_literal l hs.1 hlit
      cases r <;> simp [semNode] at hs
      rename_i c
      simp only [validateNode] at hvr
      simp [wellFormed, wellFormedNode, hl, wellFormed_of_shape c hs.2 hvr]
    | lessEq =>
      simp only [semShape, Bool.and_eq_true] at hs
      have hlit : isLiteralExpr l = true := by
        simp only [validateOp, Expr.op, Expr.left] at hop
        split at hop <;> simp_all
      have hl := isTermNode_of_shape_literal l hs.1 hlit
      cases r <;> simp [semNode] at hs
      rename_i c
      simp only [validateNode] at hvr
      simp [wellFormed, wellFormedNode, hl, wellFormed_of_shape c hs.2 hvr]
    | like =>
      simp only [semShape, Bool.and_eq_true] at hs
      have hlit : isLiteralExpr l = true := by
        simp only [validateOp, Expr.op, Expr.left, Expr.right] at hop
        split at hop <;> simp_all
      have hl := isTermNode_of_shape_literal l hs.1 hlit
      cases r <;> simp at hs
      rename_i re
      have hr := isTermNode_of_semLeaf re hs.2.1
      simp only [wellFormed, hl, hr, Bool.true_and]
      simpa using hs.2.2
    | in_ =>
      simp only [semShape, Bool.and_eq_true] at hs
      have hlit : isLiteralExpr l = true := by
        simp only [validateOp, Expr.op, Expr.left, Expr.right] at hop
        split at hop <;> simp_all
      have hl := isTermNode_of_shape_literal l hs.1 hlit
      obtain ⟨_, hs2⟩ := hs
      simp only [wellFormed, hl, Bool.true_and]
      split at hs2
      · rename_i es _ _
        simp only [Bool.and_eq_true] at hs2
        simp [allPlain_of_allSemLit es hs2.1, hs2.2]
      · exact absurd hs2 Bool.false_ne_true
    | range =>
      have hvo := validateOp_true _ hop
      cases r with
      | bound mn mx incl =>
        unfold semShape at hs
        simp only [validateOp, Expr.op, Expr.left, Expr.right, Option.some.injEq, Bool.and_eq_true] at hvo
        simp only [Bool.and_eq_true] at hs
        obtain ⟨⟨_, hll⟩, ⟨_, hmn⟩, hmx⟩ := hvo
        have hl := isTermNode_of_shape_literal l hs.1 hll
        cases mn with
        | expr a =>
          cases mx with
          | expr c =>
            simp only [Bool.and_eq_true] at hs
            have ha := isTermNode_of_shape_literal (.expr a) (by simpa [semNode] using hs.2.1) hmn
            have hc := isTermNode_of_shape_literal (.expr c) (by simpa [semNode] using hs.2.2) hmx
            simp [wellFormed, hl, ha, hc]
          | _ => simp at hs
        | _ => simp at hs
      | _ => unfold semShape at hs; simp at hs

end GoLucene
