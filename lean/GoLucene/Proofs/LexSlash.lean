import GoLucene.Proofs.ParamAgree
import GoLucene.Proofs.RespaceBytes
import GoLucene.Proofs.Der3
import GoLucene.Proofs.LexTypes
/-
  Regexp / wildcard tokens and slashes: the hypothesis `likePatternsOK` of `parse_params_are_values` holds for
  every result of `lucene.Parse`.

  Lexer level (`next_tok_slash`, `tokensOf_slash`): every token of `tokensOf env s` satisfies `TokOK`:
    * a `.regexp` token's text has length ≥ 2 and starts and ends with the byte 47 (`/`);
    * the text of a token that is neither `.regexp` nor `.quoted` never starts with the byte 47.
  Leaf level (`parseLiteral_pattern`): for such a token, `parseLiteral t` has operator Regexp ⇒ its text is
  slash-delimited with length ≥ 2; operator Wild ⇒ its text does not start with `/`.
  Tree level (`sem_likeOK`, `finalize_likeOK`, `parse_likePatternsOK`): `parseQuery env s df = .ok e →
  likePatternsOK e = true`, and `parse_params_are_values'` is `parse_params_are_values` without that hypothesis.

  One hypothesis beyond the property: `env.cls.slashNotAlnum` — the rune `/` is neither a letter nor a digit in the
  class table the lexer is run with (true of unicode.IsLetter / unicode.IsDigit).  The lexer tests "is this a word
  character" BEFORE "is this a slash", so with a table in which `/` is a letter `/a*/` is one bare word, its leaf is
  Wild, and `likePatOK` fails for the Like node built on it: the hypothesis is necessary (`slash_letter_cex`).
-/
namespace GoLucene

/-- the slash is neither a letter nor a digit (true of unicode.IsLetter / IsDigit) -/
def Cls.slashNotAlnum (k : Cls) : Prop := k.isAlnum 47 = false

namespace LexSlash
open ParamAgree

/-! ## 1. cells: the rune 47 and the byte 47 -/

/-- in a decoded cell the rune is `/` exactly when the bytes are `[47]`; otherwise the first byte is not 47 -/
def CellOK (c : Cell) : Prop := (c.r = 47 → c.raw = [47]) ∧ (c.r ≠ 47 → c.raw.head? ≠ some 47 ∧ c.raw ≠ [])

/-- only the byte 47 decodes to the rune 47 -/
theorem decode1_47 (b0 : UInt8) (rest : Bytes) (h : (decode1 b0 rest).1 = 47) : b0 = 47 := by
  unfold decode1 at h
  by_cases c1 : b0 < 0x80
  · simp only [c1, if_true] at h
    exact UInt8.toNat_inj.mp h
  · exfalso
    simp only [c1, if_false] at h
    repeat' split at h
    all_goals simp only [] at h
    all_goals first
      | omega
      | (simp only [Bool.and_eq_true, decide_eq_true_eq, UInt8.le_iff_toNat_le, UInt8.lt_iff_toNat_lt, cont,
          ← UInt8.toNat_inj, UInt8.toNat_ofNat] at *
         omega)

theorem decode1_of_47 (rest : Bytes) : decode1 47 rest = (47, 1) := by
  simp [decode1]

theorem decode_cellOK : ∀ (n : Nat) (bs : Bytes), bs.length ≤ n → ∀ c ∈ decode bs, CellOK c := by
  intro n
  induction n with
  | zero =>
    intro w h c hc
    have : w = [] := List.length_eq_zero_iff.mp (by omega)
    subst this
    rw [decode] at hc
    simp at hc
  | succ n ih =>
    intro w hl c hc
    cases w with
    | nil => rw [decode] at hc; simp at hc
    | cons b0 B =>
      rw [decode_cons] at hc
      simp only [List.mem_cons] at hc
      rcases hc with rfl | hc
      · constructor
        · intro h47
          have hb : b0 = 47 := decode1_47 b0 B h47
          subst hb
          simp [decode1_of_47]
        · intro hne
          refine ⟨?_, by simp⟩
          simp only [List.head?_cons, ne_eq, Option.some.injEq]
          intro hb
          subst hb
          exact hne (by simp [decode1_of_47])
      · refine ih (B.drop ((decode1 b0 B).2 - 1)) ?_ c hc
        simp at hl ⊢; omega

/-! ## 2. tokens -/

/-- `len(s) ≥ 2`, first and last byte `/` -/
def slashDelim (s : Bytes) : Prop := 2 ≤ s.length ∧ s.head? = some 47 ∧ s.getLast? = some 47

/-- what the lexer guarantees about slashes -/
def TokOK (t : Tok) : Prop :=
  (t.typ = .regexp → slashDelim t.val) ∧ (t.typ ≠ .regexp → t.typ ≠ .quoted → t.val.head? ≠ some 47)

theorem cellsBytes_cons' (c : Cell) (w : List Cell) : cellsBytes (c :: w) = c.raw ++ cellsBytes w := by
  simp [cellsBytes]

theorem cellsBytes_append' (a c : List Cell) : cellsBytes (a ++ c) = cellsBytes a ++ cellsBytes c := by
  simp [cellsBytes]

/-- a token that is not a regexp and whose first cell is not the rune `/` -/
theorem tokOK_first (ty : TT) (c : Cell) (w : List Cell) (hty : ty ≠ .regexp) (hc : CellOK c) (hr : c.r ≠ 47) :
    TokOK ⟨ty, cellsBytes (c :: w)⟩ := by
  refine ⟨fun h => absurd h hty, fun _ _ => ?_⟩
  obtain ⟨h1, h2⟩ := hc.2 hr
  simp only [cellsBytes_cons']
  cases hraw : c.raw with
  | nil => exact absurd hraw h2
  | cons x xs => rw [hraw] at h1; simpa using h1

theorem tokOK_single (ty : TT) (c : Cell) (hty : ty ≠ .regexp) (hc : CellOK c) (hr : c.r ≠ 47) :
    TokOK ⟨ty, c.raw⟩ := by
  have := tokOK_first ty c [] hty hc hr
  simpa [cellsBytes] using this

theorem kwOrLit_ne_regexp (v : Bytes) : ((keywordOf v).getD .literal) ≠ .regexp := by
  cases h : keywordOf v with
  | none => simp
  | some t => rcases keywordOf_typ v t h with rfl | rfl | rfl | rfl <;> simp

theorem symbolOf_props (r : Nat) (t : TT) (h : symbolOf r = some t) : t ≠ .regexp ∧ r ≠ 47 := by
  have hm := lookup_mem symbolTable r t h
  have hall : ∀ p ∈ symbolTable, p.2 ≠ .regexp ∧ p.1 ≠ 47 := by decide
  exact hall (r, t) hm

/-- a word starts with the cell it was entered on -/
theorem lexWord_head (k : Cls) (c : Cell) (cs : List Cell)
    (h : (k.isAlnum c.r || isWild c.r || decide (c.r = 46) || decide (c.r = 45)) = true ∨ isEsc c.r = true) :
    ∃ w, (lexWord k (c :: cs)).1 = c :: w := by
  rw [lexWord.eq_def]
  simp only []
  split
  · exact ⟨_, rfl⟩
  · rename_i h1
    rcases h with h | h
    · exact absurd h h1
    · simp only [h, if_true]
      cases cs with
      | nil => exact ⟨_, rfl⟩
      | cons d ds => exact ⟨_, rfl⟩

/-- a regexp body ends with a cell holding the rune `/` -/
theorem lexRegexp_last : ∀ (n : Nat) (inp w rest : List Cell), inp.length ≤ n → lexRegexp inp = some (w, rest) →
    ∃ w' l, w = w' ++ [l] ∧ l.r = 47 := by
  intro n
  induction n with
  | zero => intro inp w rest h; cases inp <;> simp_all [lexRegexp]
  | succ n ih =>
    intro inp w rest hl h
    cases inp with
    | nil => simp [lexRegexp] at h
    | cons c cs =>
      rw [lexRegexp.eq_def] at h
      simp only at h
      split at h
      · cases cs with
        | nil => simp at h
        | cons d ds =>
          simp only at h
          split at h
          · simp at h
          · rename_i w0 rest' hr
            simp at h; obtain ⟨rfl, rfl⟩ := h
            obtain ⟨w', l, rfl, hl47⟩ := ih ds w0 rest' (by simp at hl; omega) hr
            exact ⟨c :: d :: w', l, by simp, hl47⟩
      · split at h
        · rename_i h47
          simp at h; obtain ⟨rfl, rfl⟩ := h
          exact ⟨[], c, by simp, h47⟩
        · split at h
          · simp at h
          · rename_i w0 rest' hr
            simp at h; obtain ⟨rfl, rfl⟩ := h
            obtain ⟨w', l, rfl, hl47⟩ := ih cs w0 rest' (by simp at hl; omega) hr
            exact ⟨c :: w', l, by simp, hl47⟩

/-- one `Next`: the token it cuts satisfies `TokOK` -/
theorem next_tok_slash (k : Cls) (hk : k.slashNotAlnum) (inp : List Cell) (hcells : ∀ c ∈ inp, CellOK c)
    (t : Tok) (ws w rest : List Cell) (h : next k inp = .tok t ws w rest) : TokOK t := by
  have hd := dropWs_eq inp
  unfold next at h
  generalize dropWs inp = p at h hd
  obtain ⟨ws0, s⟩ := p
  simp only at h hd
  cases s with
  | nil => simp at h
  | cons c cs =>
    have hall : ∀ x ∈ c :: cs, CellOK x := fun x hx => hcells x (by rw [← hd.1]; simp [List.mem_append, hx])
    have hcc : CellOK c := hall c (by simp)
    simp only at h
    split at h
    · rename_i hword
      have hr : c.r ≠ 47 := by
        intro h47
        rw [h47] at hword
        have : k.isAlnum 47 = false := hk
        simp [this, isWild, isEsc] at hword
      obtain ⟨w', hw'⟩ := lexWord_head k c cs (by
        simp only [Bool.or_eq_true] at hword ⊢
        rcases hword with (h1 | h1) | h1
        · exact Or.inl (Or.inl (Or.inl (Or.inl h1)))
        · exact Or.inl (Or.inl (Or.inl (Or.inr h1)))
        · exact Or.inr h1)
      simp at h
      obtain ⟨rfl, _⟩ := h
      rw [hw']
      exact tokOK_first _ c w' (kwOrLit_ne_regexp _) hcc hr
    · split at h
      · rename_i ty hs
        simp at h
        obtain ⟨rfl, _⟩ := h
        have := symbolOf_props _ _ hs
        exact tokOK_single ty c this.1 hcc this.2
      · split at h
        · rename_i h45
          have hr : c.r ≠ 47 := by rw [h45]; decide
          split at h
          · split at h
            · rename_i d tl _
              obtain ⟨w', hw'⟩ := lexWord_head k c (d :: tl) (by simp [h45])
              simp at h
              obtain ⟨rfl, _⟩ := h
              rw [hw']
              exact tokOK_first _ c w' (kwOrLit_ne_regexp _) hcc hr
            · simp at h; obtain ⟨rfl, _⟩ := h
              exact tokOK_single .minus c (by decide) hcc hr
          · simp at h; obtain ⟨rfl, _⟩ := h
            exact tokOK_single .minus c (by decide) hcc hr
        · split at h
          · split at h
            · simp at h; obtain ⟨rfl, _⟩ := h
              exact ⟨fun h => (by cases h), fun _ h => absurd rfl h⟩
            · simp at h
          · split at h
            · rename_i h47
              split at h
              · rename_i w0 rest0 hre
                simp at h; obtain ⟨rfl, _⟩ := h
                refine ⟨fun _ => ?_, fun h => absurd rfl h⟩
                obtain ⟨w', l, rfl, hl47⟩ := lexRegexp_last _ cs w0 rest0 (Nat.le_refl _) hre
                have hmem : l ∈ cs := by
                  have := lexRegexp_eq _ cs _ rest0 (Nat.le_refl _) hre
                  rw [← this]; simp
                have hl : CellOK l := hall l (by simp [hmem])
                have e1 : c.raw = [47] := hcc.1 h47
                have e2 : l.raw = [47] := hl.1 hl47
                have hv : cellsBytes (c :: (w' ++ [l])) = 47 :: (cellsBytes w' ++ [47]) := by
                  rw [cellsBytes_cons', cellsBytes_append', e1]
                  simp [cellsBytes, e2]
                show slashDelim (cellsBytes (c :: (w' ++ [l])))
                rw [hv]
                refine ⟨by simp, by simp, ?_⟩
                rw [← List.cons_append, List.getLast?_concat]
              · simp at h
            · simp at h

/-- the whole stream: every token satisfies `TokOK` -/
theorem lexAll_slash (k : Cls) (hk : k.slashNotAlnum) : ∀ (n : Nat) (inp : List Cell), inp.length ≤ n →
    (∀ c ∈ inp, CellOK c) → ∀ p ∈ (lexAll k inp).1, TokOK p.2 := by
  intro n
  induction n with
  | zero =>
    intro inp h _
    have : inp = [] := List.length_eq_zero_iff.mp (by omega)
    subst this
    rw [lexAll]; simp [next, dropWs]
  | succ n ih =>
    intro inp hl hcells
    rw [lexAll]
    split
    · simp
    · simp
    · rename_i t ws w rest h
      have hn := next_tok k inp t ws w rest h
      have h1 := congrArg List.length hn.1
      have h2 : w.length ≠ 0 := by intro h0; exact hn.2.1 (List.length_eq_zero_iff.mp h0)
      have ihr := ih rest (by simp at h1; omega) (fun c hc => hcells c (by rw [← hn.1]; simp [hc]))
      generalize lexAll k rest = q at ihr ⊢
      obtain ⟨ts, e, tw, r⟩ := q
      intro p hp
      simp at hp
      rcases hp with rfl | hp
      · exact next_tok_slash k hk inp hcells t ws w rest h
      · exact ihr p hp

/-- every token the parser sees: a regexp token is slash-delimited of length ≥ 2, the text of a token that is
    neither a regexp nor quoted does not start with `/` -/
theorem tokensOf_slash (env : Env) (hk : env.cls.slashNotAlnum) (s : Bytes) : ∀ t ∈ tokensOf env s, TokOK t := by
  intro t ht
  unfold tokensOf at ht
  simp only [List.mem_append, List.mem_map] at ht
  rcases ht with ⟨p, hp, rfl⟩ | ht
  · exact lexAll_slash env.cls hk _ _ (Nat.le_refl _) (decode_cellOK _ s (Nat.le_refl _)) p hp
  · split at ht
    · simp at ht; subst ht
      exact ⟨fun h => (by cases h), fun _ _ => by simp⟩
    · simp at ht

/-! ## 3. leaves -/

/-- the leaf of a token: Regexp ⇒ slash-delimited text of length ≥ 2; Wild ⇒ the text does not start with `/` -/
theorem parseLiteral_pattern (t : Tok) (h : TokOK t) :
    ((parseLiteral t).op = .regexp → ∃ s, parseLiteral t = mkLeaf (.prim (.str s)) .regexp ∧ slashDelim s) ∧
    ((parseLiteral t).op = .wild → ∃ s, parseLiteral t = mkLeaf (.prim (.str s)) .wild ∧ s.head? ≠ some 47) := by
  unfold parseLiteral
  split
  · simp [lit, mkLeaf, Expr.op]
  · rename_i hq
    split
    · rename_i hr
      refine ⟨fun _ => ⟨t.val, rfl, h.1 hr⟩, ?_⟩
      simp [mkLeaf, Expr.op]
    · rename_i hr
      split
      · simp [lit, mkLeaf, Expr.op]
      · split
        · simp [lit, mkLeaf, Expr.op]
        · split
          · refine ⟨by simp [mkLeaf, Expr.op], fun _ => ⟨t.val, rfl, h.2 hr hq⟩⟩
          · split <;> simp [lit, mkLeaf, Expr.op]

/-- a quoted token never yields a pattern leaf -/
theorem parseLiteral_quoted (t : Tok) (h : t.typ = .quoted) : (parseLiteral t).op = .literal := by
  simp [parseLiteral, h, lit, mkLeaf, Expr.op]

/-! ## 4. trees -/

/-- a pattern leaf (Wild / Regexp) whose kind agrees with its text -/
def patLeafOK (e : Expr) : Bool := if e.op = .wild ∨ e.op = .regexp then likePatOK (.expr e) else true

/-- the invariant of `sem`: all Like nodes below are fine, and the expression itself, if it is a pattern leaf, may
    become the pattern of a Like node -/
def Good (e : Expr) : Prop := likePatternsOK e = true ∧ patLeafOK e = true

theorem likePatOK_regexp (s : Bytes) (h : slashDelim s) : likePatOK (.expr (mkLeaf (.prim (.str s)) .regexp)) = true := by
  apply likePatOK_of_kind
  obtain ⟨h1, h2, h3⟩ := h
  simp [h2, h3]
  omega

theorem likePatOK_wild (s : Bytes) (h : s.head? ≠ some 47) : likePatOK (.expr (mkLeaf (.prim (.str s)) .wild)) = true := by
  apply likePatOK_of_kind
  simp [h]

theorem lp_mk (l : Node) (o : Op) (r : Node) (p : F64) (d : Int) (ho : o ≠ .like) :
    likePatternsOK (.mk l o r p d) = (lpNode l && lpNode r) := by
  simp [likePatternsOK, ho]

theorem lp_like (l : Node) (r : Node) (p : F64) (d : Int) :
    likePatternsOK (.mk l .like r p d) = (likePatOK r && lpNode l && lpNode r) := by
  simp [likePatternsOK]

theorem lpNode_expr (e : Expr) : lpNode (.expr e) = likePatternsOK e := by simp [lpNode]
theorem lpNode_nil : lpNode .nil = true := by simp [lpNode]
theorem lpNode_prim (q : Prim) : lpNode (.prim q) = true := by simp [lpNode]
theorem lpNode_bound (a c : Node) (i : Bool) : lpNode (.bound a c i) = true := by simp [lpNode]

theorem patLeafOK_mk (l : Node) (o : Op) (r : Node) (p : F64) (d : Int) (h1 : o ≠ .wild) (h2 : o ≠ .regexp) :
    patLeafOK (.mk l o r p d) = true := by
  simp [patLeafOK, Expr.op, h1, h2]

theorem lp_leaf (n : Node) (o : Op) (hn : lpNode n = true) (ho : o ≠ .like) : likePatternsOK (mkLeaf n o) = true := by
  simp [mkLeaf, lp_mk _ _ _ _ _ ho, hn, lpNode_nil]

theorem good_parseLiteral (t : Tok) (h : TokOK t) : Good (parseLiteral t) := by
  have hp := parseLiteral_pattern t h
  constructor
  · -- a leaf has no Like node
    unfold parseLiteral
    repeat' split
    all_goals simp [lit, lp_leaf, lpNode_prim]
  · unfold patLeafOK
    split
    · rename_i ho
      rcases ho with ho | ho
      · obtain ⟨s, hs, hh⟩ := hp.2 ho
        rw [hs]; exact likePatOK_wild s hh
      · obtain ⟨s, hs, hh⟩ := hp.1 ho
        rw [hs]; exact likePatOK_regexp s hh
    · rfl

theorem lp_lit_col (s : Bytes) : likePatternsOK (lit (.prim (.col s))) = true := by
  simp [lit, lp_leaf, lpNode_prim]

theorem lp_fieldE (op : Op) (a : Expr) (h : likePatternsOK a = true) : likePatternsOK (fieldE op a) = true := by
  obtain ⟨l, o, r, p, d⟩ := a
  cases l with
  | prim pr =>
    cases pr <;> simp only [fieldE] <;> try exact h
    split
    · exact lp_lit_col _
    · exact h
  | _ => simpa [fieldE] using h

theorem wrapLiteral_good (df : Bytes) (e w : Expr) (he : Good e) (h : wrapLiteral df e = .ok w) : Good w := by
  unfold wrapLiteral at h
  split at h
  · rename_i hc
    simp only [Bool.and_eq_true, decide_eq_true_eq] at hc
    rw [mkExpr_wrapCol df e hc.1] at h
    simp at h
    subst h
    exact ⟨by simp [lp_mk, lpNode_expr, lp_lit_col, he.1], patLeafOK_mk _ _ _ _ _ (by decide) (by decide)⟩
  · simp at h; subst h; exact he

theorem cmpOp_props (gt orEq : Bool) : cmpOp gt orEq ≠ .like ∧ cmpOp gt orEq ≠ .wild ∧ cmpOp gt orEq ≠ .regexp ∧
    (cmpOp gt orEq = .and ∨ cmpOp gt orEq = .or ∨ cmpOp gt orEq = .greater ∨ cmpOp gt orEq = .less ∨
      cmpOp gt orEq = .greaterEq ∨ cmpOp gt orEq = .lessEq) := by
  cases gt <;> cases orEq <;> simp [cmpOp]

/-- every result of the constructor semantics over tokens satisfying `TokOK` satisfies `Good` -/
theorem sem_good (env : Env) (df : Bytes) : ∀ (ex : Ex) (e : Expr), (∀ t ∈ ex.leaves, TokOK t) →
    sem env df ex = .ok e → Good e
  | .leaf t, e, hl, h => by
    simp [sem] at h
    subst h
    exact good_parseLiteral t (hl t (by simp [Ex.leaves]))
  | .eq f v, e, hl, h => by
    have ihf := sem_good env df f
    have ihv := sem_good env df v
    simp only [sem] at h
    cases hf : sem env df f with
    | err => simp [hf, bind, Out.bind] at h
    | panic => simp [hf, bind, Out.bind] at h
    | ok f' =>
      cases hv : sem env df v with
      | err => simp [hf, hv, bind, Out.bind] at h
      | panic => simp [hf, hv, bind, Out.bind] at h
      | ok v' =>
        simp only [hf, hv, bind, Out.bind] at h
        have sf := ihf f' (fun t ht => hl t (by simp [Ex.leaves, ht])) hf
        have sv := ihv v' (fun t ht => hl t (by simp [Ex.leaves, ht])) hv
        split at h
        · rw [mkExpr_in] at h
          simp at h
          subst h
          refine ⟨?_, patLeafOK_mk _ _ _ _ _ (by decide) (by decide)⟩
          rw [lp_mk _ _ _ _ _ (by decide), lpNode_expr, lpNode_expr, lp_fieldE _ _ sf.1]
          simp [mkList, mkLeaf, lp_mk, lpNode]
        · rw [mkExpr_equals] at h
          simp at h
          subst h
          by_cases hw : v'.op = .wild ∨ v'.op = .regexp
          · simp only [hw, if_true]
            refine ⟨?_, patLeafOK_mk _ _ _ _ _ (by decide) (by decide)⟩
            have hpat : likePatOK (.expr v') = true := by
              have := sv.2
              unfold patLeafOK at this
              simpa [hw] using this
            rw [lp_like, lpNode_expr, lpNode_expr, lp_fieldE _ _ sf.1, sv.1, hpat]
            rfl
          · simp only [hw, if_false]
            refine ⟨?_, patLeafOK_mk _ _ _ _ _ (by decide) (by decide)⟩
            rw [lp_mk _ _ _ _ _ (by decide), lpNode_expr, lpNode_expr, lp_fieldE _ _ sf.1, sv.1]
            rfl
  | .inn f vs, e, _, h => by simp [sem] at h
  | .cmp gt orEq f v, e, hl, h => by
    have ihf := sem_good env df f
    have ihv := sem_good env df v
    simp only [sem] at h
    cases hf : sem env df f with
    | err => simp [hf, bind, Out.bind] at h
    | panic => simp [hf, bind, Out.bind] at h
    | ok f' =>
      cases hv : sem env df v with
      | err => simp [hf, hv, bind, Out.bind] at h
      | panic => simp [hf, hv, bind, Out.bind] at h
      | ok v' =>
        simp only [hf, hv, bind, Out.bind] at h
        have sf := ihf f' (fun t ht => hl t (by simp [Ex.leaves, ht])) hf
        have sv := ihv v' (fun t ht => hl t (by simp [Ex.leaves, ht])) hv
        obtain ⟨c1, c2, c3, c4⟩ := cmpOp_props gt orEq
        rw [mkExpr_bin _ _ _ c4] at h
        simp at h
        subst h
        refine ⟨?_, patLeafOK_mk _ _ _ _ _ c2 c3⟩
        rw [lp_mk _ _ _ _ _ c1, lpNode_expr, lpNode_expr, lp_fieldE _ _ sf.1, sv.1]
        rfl
  | .range f lo hi incl, e, hl, h => by
    have ihf := sem_good env df f
    simp only [sem] at h
    cases hf : sem env df f with
    | err => simp [hf, bind, Out.bind] at h
    | panic => simp [hf, bind, Out.bind] at h
    | ok f' =>
      cases hlo : sem env df lo with
      | err => simp [hf, hlo, bind, Out.bind] at h
      | panic => simp [hf, hlo, bind, Out.bind] at h
      | ok lo' =>
        cases hh : sem env df hi with
        | err => simp [hf, hlo, hh, bind, Out.bind] at h
        | panic => simp [hf, hlo, hh, bind, Out.bind] at h
        | ok hi' =>
          simp only [hf, hlo, hh, bind, Out.bind] at h
          have sf := ihf f' (fun t ht => hl t (by simp [Ex.leaves, ht])) hf
          rw [mkExpr_range] at h
          simp at h
          subst h
          refine ⟨?_, patLeafOK_mk _ _ _ _ _ (by decide) (by decide)⟩
          rw [lp_mk _ _ _ _ _ (by decide), lpNode_expr, lpNode_bound, lp_fieldE _ _ sf.1]
          rfl
  | .and l r, e, hl, h => by
    have ihl := sem_good env df l
    have ihr := sem_good env df r
    simp only [sem] at h
    cases hl' : sem env df l with
    | err => simp [hl', bind, Out.bind] at h
    | panic => simp [hl', bind, Out.bind] at h
    | ok l' =>
      cases hr : sem env df r with
      | err => simp [hl', hr, bind, Out.bind] at h
      | panic => simp [hl', hr, bind, Out.bind] at h
      | ok r' =>
        simp only [hl', hr, bind, Out.bind] at h
        cases hwl : wrapLiteral df l' with
        | err => simp [hwl] at h
        | panic => simp [hwl] at h
        | ok wl =>
          cases hwr : wrapLiteral df r' with
          | err => simp [hwl, hwr] at h
          | panic => simp [hwl, hwr] at h
          | ok wr =>
            simp only [hwl, hwr] at h
            rw [mkExpr_bin _ _ _ (by simp)] at h
            simp at h
            subst h
            have s1 := wrapLiteral_good df l' wl (ihl l' (fun t ht => hl t (by simp [Ex.leaves, ht])) hl') hwl
            have s2 := wrapLiteral_good df r' wr (ihr r' (fun t ht => hl t (by simp [Ex.leaves, ht])) hr) hwr
            refine ⟨?_, patLeafOK_mk _ _ _ _ _ (by decide) (by decide)⟩
            rw [lp_mk _ _ _ _ _ (by decide), lpNode_expr, lpNode_expr, lp_fieldE _ _ s1.1, s2.1]
            rfl
  | .or l r, e, hl, h => by
    have ihl := sem_good env df l
    have ihr := sem_good env df r
    simp only [sem] at h
    cases hl' : sem env df l with
    | err => simp [hl', bind, Out.bind] at h
    | panic => simp [hl', bind, Out.bind] at h
    | ok l' =>
      cases hr : sem env df r with
      | err => simp [hl', hr, bind, Out.bind] at h
      | panic => simp [hl', hr, bind, Out.bind] at h
      | ok r' =>
        simp only [hl', hr, bind, Out.bind] at h
        cases hwl : wrapLiteral df l' with
        | err => simp [hwl] at h
        | panic => simp [hwl] at h
        | ok wl =>
          cases hwr : wrapLiteral df r' with
          | err => simp [hwl, hwr] at h
          | panic => simp [hwl, hwr] at h
          | ok wr =>
            simp only [hwl, hwr] at h
            rw [mkExpr_bin _ _ _ (by simp)] at h
            simp at h
            subst h
            have s1 := wrapLiteral_good df l' wl (ihl l' (fun t ht => hl t (by simp [Ex.leaves, ht])) hl') hwl
            have s2 := wrapLiteral_good df r' wr (ihr r' (fun t ht => hl t (by simp [Ex.leaves, ht])) hr) hwr
            refine ⟨?_, patLeafOK_mk _ _ _ _ _ (by decide) (by decide)⟩
            rw [lp_mk _ _ _ _ _ (by decide), lpNode_expr, lpNode_expr, lp_fieldE _ _ s1.1, s2.1]
            rfl
  | .not x, e, hl, h => by
    have ih := sem_good env df x
    simp only [sem] at h
    cases hx : sem env df x with
    | err => simp [hx, bind, Out.bind] at h
    | panic => simp [hx, bind, Out.bind] at h
    | ok x' =>
      simp only [hx, bind, Out.bind] at h
      cases hw : wrapLiteral df x' with
      | err => simp [hw] at h
      | panic => simp [hw] at h
      | ok w =>
        simp only [hw] at h
        rw [mkExpr_unary _ _ (by simp)] at h
        simp at h
        subst h
        have s1 := wrapLiteral_good df x' w (ih x' (fun t ht => hl t (by simp [Ex.leaves, ht])) hx) hw
        refine ⟨?_, patLeafOK_mk _ _ _ _ _ (by decide) (by decide)⟩
        rw [lp_mk _ _ _ _ _ (by decide), lpNode_expr, lpNode_nil, s1.1]
        rfl
  | .must x, e, hl, h => by
    have ih := sem_good env df x
    simp only [sem] at h
    cases hx : sem env df x with
    | err => simp [hx, bind, Out.bind] at h
    | panic => simp [hx, bind, Out.bind] at h
    | ok x' =>
      simp only [hx, bind, Out.bind] at h
      rw [mkExpr_unary _ _ (by simp)] at h
      simp at h
      subst h
      have s1 := ih x' (fun t ht => hl t (by simp [Ex.leaves, ht])) hx
      refine ⟨?_, patLeafOK_mk _ _ _ _ _ (by decide) (by decide)⟩
      rw [lp_mk _ _ _ _ _ (by decide), lpNode_expr, lpNode_nil, s1.1]
      rfl
  | .mustNot x, e, hl, h => by
    have ih := sem_good env df x
    simp only [sem] at h
    cases hx : sem env df x with
    | err => simp [hx, bind, Out.bind] at h
    | panic => simp [hx, bind, Out.bind] at h
    | ok x' =>
      simp only [hx, bind, Out.bind] at h
      rw [mkExpr_unary _ _ (by simp)] at h
      simp at h
      subst h
      have s1 := ih x' (fun t ht => hl t (by simp [Ex.leaves, ht])) hx
      refine ⟨?_, patLeafOK_mk _ _ _ _ _ (by decide) (by decide)⟩
      rw [lp_mk _ _ _ _ _ (by decide), lpNode_expr, lpNode_nil, s1.1]
      rfl
  | .fuzzy x none, e, hl, h => by
    have ih := sem_good env df x
    simp only [sem] at h
    cases hx : sem env df x with
    | err => simp [hx, bind, Out.bind] at h
    | panic => simp [hx, bind, Out.bind] at h
    | ok x' =>
      simp only [hx, bind, Out.bind] at h
      rw [mkExpr_fuzzy] at h
      simp at h
      subst h
      have s1 := ih x' (fun t ht => hl t (by simp [Ex.leaves, ht])) hx
      refine ⟨?_, patLeafOK_mk _ _ _ _ _ (by decide) (by decide)⟩
      rw [lp_mk _ _ _ _ _ (by decide), lpNode_expr, lpNode_nil, s1.1]
      rfl
  | .fuzzy x (some dd), e, hl, h => by
    have ih := sem_good env df x
    simp only [sem] at h
    cases hx : sem env df x with
    | err => simp [hx, bind, Out.bind] at h
    | panic => simp [hx, bind, Out.bind] at h
    | ok x' =>
      cases hd : sem env df dd with
      | err => simp [hx, hd, bind, Out.bind] at h
      | panic => simp [hx, hd, bind, Out.bind] at h
      | ok d' =>
        simp only [hx, hd, bind, Out.bind] at h
        cases hs : strOf env d' with
        | err => simp [hs] at h
        | panic => simp [hs] at h
        | ok str =>
          simp only [hs] at h
          cases ha : atoi str with
          | none => simp [ha] at h
          | some i =>
            simp only [ha] at h
            rw [mkExpr_fuzzy] at h
            simp at h
            subst h
            have s1 := ih x' (fun t ht => hl t (by simp [Ex.leaves, ht])) hx
            refine ⟨?_, patLeafOK_mk _ _ _ _ _ (by decide) (by decide)⟩
            rw [lp_mk _ _ _ _ _ (by decide), lpNode_expr, lpNode_nil, s1.1]
            rfl
  | .boost x none, e, hl, h => by
    have ih := sem_good env df x
    simp only [sem] at h
    cases hx : sem env df x with
    | err => simp [hx, bind, Out.bind] at h
    | panic => simp [hx, bind, Out.bind] at h
    | ok x' =>
      simp only [hx, bind, Out.bind] at h
      rw [mkExpr_boost] at h
      simp at h
      subst h
      have s1 := ih x' (fun t ht => hl t (by simp [Ex.leaves, ht])) hx
      refine ⟨?_, patLeafOK_mk _ _ _ _ _ (by decide) (by decide)⟩
      rw [lp_mk _ _ _ _ _ (by decide), lpNode_expr, lpNode_nil, s1.1]
      rfl
  | .boost x (some pp), e, hl, h => by
    have ih := sem_good env df x
    simp only [sem] at h
    cases hx : sem env df x with
    | err => simp [hx, bind, Out.bind] at h
    | panic => simp [hx, bind, Out.bind] at h
    | ok x' =>
      cases hd : sem env df pp with
      | err => simp [hx, hd, bind, Out.bind] at h
      | panic => simp [hx, hd, bind, Out.bind] at h
      | ok p' =>
        simp only [hx, hd, bind, Out.bind] at h
        cases hs : strOf env p' with
        | err => simp [hs] at h
        | panic => simp [hs] at h
        | ok str =>
          simp only [hs] at h
          cases ha : toPositiveFloat str with
          | none => simp [ha] at h
          | some f =>
            simp only [ha] at h
            rw [mkExpr_boost] at h
            simp at h
            subst h
            have s1 := ih x' (fun t ht => hl t (by simp [Ex.leaves, ht])) hx
            refine ⟨?_, patLeafOK_mk _ _ _ _ _ (by decide) (by decide)⟩
            rw [lp_mk _ _ _ _ _ (by decide), lpNode_expr, lpNode_nil, s1.1]
            rfl

/-- the default-field edge case at accept and Validate keep the property -/
theorem finalize_likeOK (env : Env) (df : Bytes) (ex : Ex) (e : Expr) (hl : ∀ t ∈ ex.leaves, TokOK t)
    (h : finalize env df ex = .ok e) : likePatternsOK e = true := by
  unfold finalize at h
  cases hs : sem env df ex with
  | err => simp [hs, bind, Out.bind] at h
  | panic => simp [hs, bind, Out.bind] at h
  | ok e0 =>
    simp only [hs, bind, Out.bind] at h
    have s0 := sem_good env df ex e0 hl hs
    split at h
    · rename_i hc
      simp only [Bool.and_eq_true, decide_eq_true_eq] at hc
      rw [mkExpr_wrapStr df e0 hc.1] at h
      simp only at h
      split at h
      · simp at h
        subst h
        simp [lp_mk, lpNode_expr, lp_lit_col, s0.1]
      · simp at h
    · split at h
      · simp at h
        subst h
        exact s0.1
      · simp at h

/-- the leaves of a parse result are tokens of the input -/
theorem parse_leaves_mem (isNum : Bool → Ex → Bool) (toks : List Tok) (ex : Ex)
    (hne : ∀ t ∈ toks, t.typ ≠ .eof) (h : parseToks isNum toks = .ok ex) : ∀ t ∈ ex.leaves, t ∈ toks := by
  intro t ht
  rw [Der_leaves (parse_sound isNum toks ex hne h)] at ht
  exact (List.mem_filter.mp ht).1

/-- **`likePatternsOK` holds for every result of `lucene.Parse`.** -/
theorem parse_likePatternsOK (env : Env) (hk : env.cls.slashNotAlnum) (s df : Bytes) (e : Expr)
    (h : parseQuery env s df = .ok e) : likePatternsOK e = true := by
  unfold parseQuery parseTokens at h
  split at h
  · cases h
  · rename_i ex hp
    have hmem := parse_leaves_mem _ _ ex (tokensOf_no_eof env s) hp
    exact finalize_likeOK env df ex e (fun t ht => tokensOf_slash env hk s t (hmem t ht)) h

/-- the leaves of the tokens the parser sees (the statement asked for, at token level) -/
theorem tokensOf_leaf_pattern (env : Env) (hk : env.cls.slashNotAlnum) (s : Bytes) (t : Tok) (ht : t ∈ tokensOf env s) :
    ((parseLiteral t).op = .regexp → ∃ v, parseLiteral t = mkLeaf (.prim (.str v)) .regexp ∧
        2 ≤ v.length ∧ v.head? = some 47 ∧ v.getLast? = some 47) ∧
    ((parseLiteral t).op = .wild → ∃ v, parseLiteral t = mkLeaf (.prim (.str v)) .wild ∧ v.head? ≠ some 47) :=
  parseLiteral_pattern t (tokensOf_slash env hk s t ht)

/-- C04, the parameter list, for `lucene.Parse` results: `parse_params_are_values` without `likePatternsOK` -/
theorem parse_params_are_values' (env : Env) (hk : env.cls.slashNotAlnum) (s df : Bytes) (e : Expr)
    (h : parseQuery env s df = .ok e) (hq : noQuotedStarBound e = true)
    (t : Bytes) (ps : List Prim) (hr : renderParam pgFns e = .ok (t, ps)) : ps = treeValues false (.expr e) :=
  parse_params_are_values env s df e h hq (parse_likePatternsOK env hk s df e h) t ps hr

/-! ## 5. the hypothesis on the class table is necessary -/

/-- a class table in which `/` (and `a`) is a letter -/
def badCls : Cls := ⟨fun r => r = 47 || r = 97, fun _ => false⟩
def asciiC (n : Nat) : Cell := ⟨n, [n.toUInt8]⟩

/-- with `/` a letter, `/a*/` is lexed as ONE bare word (a `.literal` token starting with `/`), its leaf is the Wild
    leaf `/a*/`, and that leaf as the pattern of a Like node violates `likePatOK` (RenderParam would send it
    untranslated) -/
theorem slash_letter_cex :
    badCls.isAlnum 47 = true ∧
    next badCls [asciiC 47, asciiC 97, asciiC 42, asciiC 47] =
      .tok ⟨.literal, [47, 97, 42, 47]⟩ [] [asciiC 47, asciiC 97, asciiC 42, asciiC 47] [] ∧
    parseLiteral ⟨.literal, [47, 97, 42, 47]⟩ = mkLeaf (.prim (.str [47, 97, 42, 47])) .wild ∧
    likePatOK (.expr (mkLeaf (.prim (.str [47, 97, 42, 47])) .wild)) = false :=
  ⟨rfl, rfl, rfl, by decide +kernel⟩

end LexSlash
end GoLucene

#print axioms GoLucene.LexSlash.tokensOf_slash
#print axioms GoLucene.LexSlash.tokensOf_leaf_pattern
#print axioms GoLucene.LexSlash.parse_likePatternsOK
#print axioms GoLucene.LexSlash.parse_params_are_values'
