import GoLucene.Proofs.FloatRT3
/-
  FloatRT, part 4 (by-product): the same round trip for the float encoding of encoding/json (`fmtJSON`: shortest
  digits, `%e` form outside [1e-6, 1e21), exponent written `e-7` instead of `e-07`), and the other facts about
  strconv that Proofs/JsonRoundTrip.lean takes as hypotheses (`NumLaws`), as far as they are proved here.
-/
namespace GoLucene.FloatRT
open GoLucene Num

/-- the mantissa part of `%e` -/
def eMant (d : UInt8) (t : Bytes) : Bytes := d :: (if t.isEmpty then [] else 46 :: t)

theorem fmtE_split (d : UInt8) (t : Bytes) (dp : Int) :
    fmtEShortest (d :: t) dp = eMant d t ++ 101 :: fmtExp (dp - 1) := rfl

/-- `d.ddd` followed by any exponent text that the exponent scanner reads as `dp - 1` -/
theorem scanOK_Egen (c : Nat) (k dp : Int) (d : UInt8) (t : Bytes) (X : Bytes) (hD : natDigits c = d :: t) (hd : d ≠ 48)
    (hdp : dp = ((t.length + 1 : Nat) : Int) + k) (hc : 0 < c)
    (hexp : scanExp false false (101 :: X) = some (dp - 1, false)) :
    ScanOK (eMant d t ++ 101 :: X) c k dp := by
  have hall : AllD (d :: t) := hD ▸ allD_natDigits c
  have hval : dval 0 (d :: t) = c := hD ▸ dval_natDigits c
  unfold eMant
  refine ⟨⟨d, _, rfl, hall d (by simp), fun h => absurd h hd⟩, ?_⟩
  cases t with
  | nil =>
    refine ⟨{ mant := dval 0 [d], nd := 1, sawdigits := true }, 101 :: X, dp - 1, ?_, rfl, rfl, hexp, ?_, ?_, ?_, ?_⟩
    · simp only [List.isEmpty_nil, ↓reduceIte]
      rw [scan_run d [] {} _ hall hd rfl, scan_e]
      rfl
    · simp only [Bool.false_eq_true, ↓reduceIte]; omega
    · simp only [hval]
      congr 2
      simp at hdp; omega
    · rw [hval]; exact hc
    · simp
  | cons t1 t2 =>
    refine ⟨{ mant := dval 0 (d :: t1 :: t2), nd := (t1 :: t2).length + 1, dp := 1, ndDot := 1, sawdot := true,
              sawdigits := true }, 101 :: X, dp - 1, ?_, rfl, rfl, hexp, ?_, ?_, ?_, ?_⟩
    · have e : (d :: if (t1 :: t2).isEmpty = true then [] else 46 :: t1 :: t2) ++ 101 :: X =
          d :: [] ++ (46 :: ((t1 :: t2) ++ 101 :: X)) := by simp
      rw [e, scan_run d [] {} _ (fun x hx => hall x (by simp at hx; simp [hx])) hd rfl, scan_dot _ _ rfl,
        scan_counted (t1 :: t2) _ _ (allD_tail hall) (by simp), scan_e]
      congr 1
      simp only [Scan.mk.injEq, and_true, true_and]
      refine ⟨?_, by simp; omega⟩
      simp [dval]
    · simp only [↓reduceIte]; omega
    · simp only [hval]
      congr 2
      simp at hdp ⊢; omega
    · rw [hval]; exact hc
    · simp

/-- the exponent text of encoding/json -/
def jexp (ex : Int) : Bytes :=
  if ex < 0 ∧ ex.natAbs < 10 then 45 :: natDigits ex.natAbs else fmtExp ex

theorem natDigits_small (a : Nat) (h : a < 10) : ∃ x, natDigits a = [x] ∧ Num.isDig x = true := by
  have hd := allD_natDigits a
  unfold natDigits at hd ⊢
  rw [Nat.toDigits_of_lt_base h] at hd ⊢
  exact ⟨_, rfl, hd _ (by simp)⟩

theorem natDigits_big (a : Nat) (h : 10 ≤ a) : ∃ y z r, natDigits a = y :: z :: r ∧ y ≠ 48 := by
  obtain ⟨y, t, hyt, hy⟩ := natDigits_head a (by omega)
  cases t with
  | nil =>
    exfalso
    have h1 : a < 10 ^ (natDigits a).length := (natDigits_len a (by omega)).1
    rw [hyt] at h1
    have : a < 10 := by simpa using h1
    omega
  | cons z r => exact ⟨y, z, r, hyt, hy⟩

theorem digit_ne_45 {x : UInt8} (h : Num.isDig x = true) : x ≠ 45 := by
  intro e; subst e; revert h; decide

theorem jsonCleanExp_E (M : Bytes) (ex : Int) :
    jsonCleanExp (M ++ 101 :: fmtExp ex) = M ++ 101 :: jexp ex := by
  unfold jexp fmtExp
  simp only []
  by_cases ha : ex.natAbs < 10
  · obtain ⟨x, hx, _⟩ := natDigits_small _ ha
    simp only [ha, ↓reduceIte, hx, and_true]
    by_cases hneg : ex < 0
    · simp only [hneg, ↓reduceIte]
      unfold jsonCleanExp
      have e : (M ++ [101, 45, 48, x]).reverse = x :: 48 :: 45 :: 101 :: M.reverse := by simp
      rw [e]
      simp
    · simp only [hneg, ↓reduceIte]
      unfold jsonCleanExp
      have e : (M ++ [101, 43, 48, x]).reverse = x :: 48 :: 43 :: 101 :: M.reverse := by simp
      rw [e]
      simp
  · obtain ⟨y, z, r, hyz, hy⟩ := natDigits_big ex.natAbs (by omega)
    have hd := allD_natDigits ex.natAbs
    simp only [ha, ↓reduceIte, and_false]
    unfold jsonCleanExp
    split
    · rename_i d' more heq
      exfalso
      rw [hyz] at heq hd
      have hz : Num.isDig z = true := hd z (by simp)
      have hyd : Num.isDig y = true := hd y (by simp)
      have hr : ∀ q ∈ r.reverse, Num.isDig q = true := fun q hq => hd q (by simp at hq; simp [hq])
      simp only [List.reverse_append, List.reverse_cons, List.append_assoc, List.cons_append, List.nil_append] at heq
      generalize r.reverse = R at heq hr
      match R, heq, hr with
      | [], heq, _ =>
        simp only [List.nil_append] at heq
        exact hy (List.cons.inj (List.cons.inj heq).2).1
      | [r1], heq, _ =>
        simp only [List.cons_append, List.nil_append] at heq
        exact digit_ne_45 hyd (List.cons.inj (List.cons.inj (List.cons.inj heq).2).2).1
      | [r1, r2], heq, _ =>
        simp only [List.cons_append, List.nil_append] at heq
        exact digit_ne_45 hz (List.cons.inj (List.cons.inj (List.cons.inj heq).2).2).1
      | r1 :: r2 :: r3 :: r4, heq, hr =>
        simp only [List.cons_append] at heq
        exact digit_ne_45 (hr r3 (by simp)) (List.cons.inj (List.cons.inj (List.cons.inj heq).2).2).1
    · rfl


theorem scanExp_jexp (ex : Int) (h : ex.natAbs < 10000) :
    scanExp false false (101 :: jexp ex) = some (ex, false) := by
  unfold jexp
  split
  · rename_i hc
    obtain ⟨x, hx, hxd⟩ := natDigits_small _ hc.2
    have hv : dval 0 [x] = ex.natAbs := by rw [← hx]; exact dval_natDigits _
    have hsc := scanExpDigits_all [x] 0 false (by intro q hq; simp at hq; subst hq; exact hxd) (by omega)
    rw [hx]
    unfold scanExp
    have hl : lower 101 = 101 := by decide
    simp only [hl, Bool.false_eq_true, ↓reduceIte, or_true, hxd, hsc, hv]
    congr 2; omega
  · exact scanExp_fmtExp ex false h

/-- the common core of the two round trips: any text whose scan delivers the shortest decimal is read back -/
theorem roundtrip_core (f : F64) (hf : f.isFinite = true) (hz : f.isZero = false) :
    ∃ (c : Nat) (k : Int) (d : UInt8) (t : Bytes), 0 < c ∧ natDigits c = d :: t ∧ d ≠ 48 ∧
      shortestOf f = (d :: t, ((t.length + 1 : Nat) : Int) + k) ∧
      -323 ≤ ((t.length + 1 : Nat) : Int) + k ∧ ((t.length + 1 : Nat) : Int) + k ≤ 309 ∧
      ∀ B, ScanOK B c k (((t.length + 1 : Nat) : Int) + k) → parseFloat (signed f.isNeg B) = some f := by
  obtain ⟨hm0, hm53, he1, he2, hnorm, hmag, hfin⟩ := mant_exp_facts f hf hz
  obtain ⟨c, k, hc, hsh, hI, hk⟩ := shortest_spec f.mant f.exp2 hm0 hm53 he1 he2
  obtain ⟨d, t, hD, hd⟩ := natDigits_head c hc
  obtain ⟨hlen1, hlen2⟩ := natDigits_len c hc
  rw [hD] at hlen1 hlen2 hsh
  have hLen : (d :: t).length = t.length + 1 := rfl
  rw [hLen] at hlen1 hlen2 hsh
  simp only [Nat.add_sub_cancel] at hlen2
  have hw := hI.weak
  have hu := p2_pos (f.exp2 - 2)
  have hcR : (c : Rat) < p10 ((t.length + 1 : Nat) : Int) := by rw [p10_nat]; exact_mod_cast hlen1
  have hcL : p10 ((t.length : Nat) : Int) ≤ (c : Rat) := by rw [p10_nat]; exact_mod_cast hlen2
  have hup : ((t.length + 1 : Nat) : Int) + k ≤ 309 := by
    have h1 : (c : Rat) * p10 k < p2 1024 := by
      have h55 : ((4 * f.mant + 2 : Nat) : Rat) < ((2 ^ 55 : Nat) : Rat) := by
        have : 4 * f.mant + 2 < 2 ^ 55 := by omega
        exact_mod_cast this
      have h2 := Rat.mul_lt_mul_of_pos_right h55 hu
      have h3 : p2 (f.exp2 - 2 + (55 : Nat)) ≤ p2 1024 := p2_mono (by omega)
      rw [p2_shift] at h3
      grind
    have h2 : p2 1024 < p10 309 := lt2_10_sound 1024 309 (by decide +kernel)
    have h3 : p10 ((t.length : Nat) + k) ≤ (c : Rat) * p10 k := by
      rw [p10_add]
      exact Rat.mul_le_mul_of_nonneg_right hcL (Rat.le_of_lt (p10_pos k))
    have := p10_lt_of h3 (by grind : (c : Rat) * p10 k < p10 309)
    omega
  have hlow : -323 ≤ ((t.length + 1 : Nat) : Int) + k := by
    have h1 : p2 (-1075) ≤ (c : Rat) * p10 k := by
      have hl2 : ((2 : Nat) : Rat) ≤ ((lo4 f.mant f.exp2 : Nat) : Rat) := by
        have : 2 ≤ lo4 f.mant f.exp2 := by unfold lo4; split <;> omega
        exact_mod_cast this
      have h2 := Rat.mul_le_mul_of_nonneg_right hl2 (Rat.le_of_lt hu)
      have h3 : p2 (-1075) ≤ p2 (f.exp2 - 2 + (1 : Nat)) := p2_mono (by omega)
      rw [p2_shift] at h3
      grind
    have h2 : p10 (-324) ≤ p2 (-1075) := le10_2_sound (-324) (-1075) (by decide +kernel)
    have h3 : (c : Rat) * p10 k < p10 (((t.length + 1 : Nat) : Int) + k) := by
      rw [p10_add]
      exact Rat.mul_lt_mul_of_pos_right hcR (p10_pos k)
    have := p10_lt_of (Rat.le_trans h2 h1) h3
    omega
  have hres : F64.ofMag f.isNeg ((f.exp2 + 1074).toNat * two52 + f.mant) = f := by
    rw [← hmag]; exact ofMag_self f
  refine ⟨c, k, d, t, hc, hD, hd, ?_, hlow, hup, ?_⟩
  · unfold shortestOf; simp only [hz, Bool.false_eq_true, ↓reduceIte]; exact hsh
  · intro B hB
    have := pfDec_of_scan f.isNeg B c k _ f.mant f.exp2 hB (by omega) (by omega) hm0 hm53 he1 hnorm hI
      (by rw [← hmag]; exact hfin)
    rw [hres] at this
    exact this

theorem parse_zero (f : F64) (hz : f.isZero = true) : parseFloat (signed f.isNeg [48]) = some f := by
  have hm := zero_cases f hz
  have hself := ofMag_self f
  rw [hm] at hself
  cases hneg : f.isNeg
  · rw [hneg] at hself
    have : parseFloat (signed false [48]) = some (F64.ofMag false 0) := by decide
    rw [this, hself]
  · rw [hneg] at hself
    have : parseFloat (signed true [48]) = some (F64.ofMag true 0) := by decide
    rw [this, hself]

/-- ROUND TRIP for encoding/json: `strconv.ParseFloat` reads the JSON text of a float64 back as that float64
    (the hypothesis `NumLaws.parseFloat_fmtJSON` of Proofs/JsonRoundTrip.lean) -/
theorem parseFloat_fmtJSON (f : F64) (t : Bytes) (h : fmtJSON f = some t) : parseFloat t = some f := by
  unfold fmtJSON at h
  by_cases hf : f.isFinite = true
  · simp only [hf, Bool.not_true, Bool.false_eq_true, ↓reduceIte] at h
    by_cases hz : f.isZero = true
    · have hs : shortestOf f = ([], 0) := by unfold shortestOf; simp only [hz, ↓reduceIte]
      rw [hs] at h
      simp only [hz, Bool.not_true, Bool.false_and, Bool.false_eq_true, ↓reduceIte, Option.some.injEq] at h
      rw [← h]
      exact parse_zero f hz
    · have hz' : f.isZero = false := by simpa using hz
      obtain ⟨c, k, d, tl, hc, hD, hd, hsh, hlow, hup, hcore⟩ := roundtrip_core f hf hz'
      rw [hsh] at h
      simp only [Option.some.injEq] at h
      rw [← h]
      apply hcore
      split
      · rw [fmtE_split, jsonCleanExp_E]
        exact scanOK_Egen c k _ d tl _ hD hd rfl hc (scanExp_jexp _ (by omega))
      · exact scanOK_F c k _ d tl hD hd rfl (by omega) hc
  · simp [hf] at h

/-! ### other facts about strconv used as hypotheses in Proofs/JsonRoundTrip.lean -/

theorem atoi_fmtInt (i : Int) (h : (decide (-9223372036854775808 ≤ i ∧ i < 9223372036854775808)) = true) :
    atoi (fmtInt i) = some i :=
  SqlText.atoi_fmtInt i (by simpa [SqlMeaning.inInt64] using h)

theorem atoi_dquote (t : Bytes) : atoi (34 :: t) = none := by
  simp [atoi, Num.atoiU, Num.digitsVal, Num.isDig]

theorem parseFloat_dquote (t : Bytes) : parseFloat (34 :: t) = none := by
  simp [parseFloat, Num.special, Num.scanMant, Num.lowerAZ, Num.isDig]

end GoLucene.FloatRT

#print axioms GoLucene.FloatRT.parseFloat_fmtJSON
#print axioms GoLucene.FloatRT.atoi_fmtInt
