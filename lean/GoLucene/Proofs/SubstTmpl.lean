import GoLucene.Model.Driver
/-
  C04, substitution clause — templates.

  A template is a list of pieces: fixed SQL text or a hole.  `fillQ` prints every hole as the placeholder byte `?`,
  `fillV` prints the i-th hole as the i-th text of a list (and fails when the counts differ).  `substQ` / `countQ`
  are the template-free readings of the same thing on the SQL text itself: they scan the text, toggle an "inside a
  quoted identifier" flag at every `"`, and treat exactly the `?` bytes outside quoted identifiers as placeholders.
  On a template whose text pieces are `clean` (balanced `"`, no `?` outside them) the two readings coincide
  (`substQ_fill`, `countQ_fill`).

  `HasT ps sP sI`: some clean template prints as `sP` with `?` and as `sI` with the literal texts of `ps`.
-/
namespace GoLucene.Subst

inductive Piece
  | text (t : Bytes)
  | hole
  deriving DecidableEq, Repr

abbrev Tmpl := List Piece

/-- every hole becomes the byte `?` -/
def fillQ : Tmpl → Bytes
  | [] => []
  | .text t :: r => t ++ fillQ r
  | .hole :: r => 63 :: fillQ r

/-- number of holes -/
def holes : Tmpl → Nat
  | [] => 0
  | .text _ :: r => holes r
  | .hole :: r => holes r + 1

/-- the i-th hole becomes `vs[i]`; `none` if the counts differ -/
def fillV : Tmpl → List Bytes → Option Bytes
  | [], [] => some []
  | [], _ :: _ => none
  | .text t :: r, vs => (fillV r vs).map (t ++ ·)
  | .hole :: _, [] => none
  | .hole :: r, v :: vs => (fillV r vs).map (v ++ ·)

/-- the inline SQL literal of a parameter value, as `serialize` prints a raw value -/
def litText : Prim → Bytes
  | .str s => sqlQuote s
  | p => fmtVPrim p

/-! ### the scan of the SQL text -/

/-- replace the `?` bytes outside quoted identifiers by the texts `vs`, left to right; `none` if the counts differ.
    The flag says whether the scan is inside a quoted identifier. -/
def substQ : Bool → Bytes → List Bytes → Option Bytes
  | _, [], vs => (match vs with | [] => some [] | _ :: _ => none)
  | q, c :: r, vs =>
    if c == 34 then (substQ (!q) r vs).map (c :: ·)
    else if c == 63 && !q then
      (match vs with
       | [] => none
       | v :: vs' => (substQ false r vs').map (v ++ ·))
    else (substQ q r vs).map (c :: ·)

/-- number of `?` bytes outside quoted identifiers -/
def countQ : Bool → Bytes → Nat
  | _, [] => 0
  | q, c :: r =>
    if c == 34 then countQ (!q) r
    else if c == 63 && !q then countQ false r + 1
    else countQ q r

/-- a text that leaves the scan outside a quoted identifier and shows no `?` outside quoted identifiers -/
def cleanFrom : Bool → Bytes → Bool
  | q, [] => !q
  | q, c :: r =>
    if c == 34 then cleanFrom (!q) r
    else if c == 63 && !q then false
    else cleanFrom q r

def cleanT : Tmpl → Bool
  | [] => true
  | .text t :: r => cleanFrom false t && cleanT r
  | .hole :: r => cleanT r

theorem substQ_cons (q : Bool) (c : UInt8) (r : Bytes) (vs : List Bytes) : substQ q (c :: r) vs =
    (if c == 34 then (substQ (!q) r vs).map (c :: ·)
     else if c == 63 && !q then
       (match vs with
        | [] => none
        | v :: vs' => (substQ false r vs').map (v ++ ·))
     else (substQ q r vs).map (c :: ·)) := by
  rw [substQ.eq_def]

theorem countQ_cons (q : Bool) (c : UInt8) (r : Bytes) : countQ q (c :: r) =
    (if c == 34 then countQ (!q) r
     else if c == 63 && !q then countQ false r + 1
     else countQ q r) := by
  rw [countQ.eq_def]

theorem cleanFrom_cons (q : Bool) (c : UInt8) (r : Bytes) : cleanFrom q (c :: r) =
    (if c == 34 then cleanFrom (!q) r
     else if c == 63 && !q then false
     else cleanFrom q r) := by
  rw [cleanFrom.eq_def]

/-! ### fill lemmas -/

theorem fillQ_append (t1 t2 : Tmpl) : fillQ (t1 ++ t2) = fillQ t1 ++ fillQ t2 := by
  induction t1 with
  | nil => rfl
  | cons p r ih => cases p <;> simp [fillQ, ih]

theorem holes_append (t1 t2 : Tmpl) : holes (t1 ++ t2) = holes t1 + holes t2 := by
  induction t1 with
  | nil => simp [holes]
  | cons p r ih => cases p <;> simp [holes, ih] <;> omega

theorem cleanT_append (t1 t2 : Tmpl) : cleanT (t1 ++ t2) = (cleanT t1 && cleanT t2) := by
  induction t1 with
  | nil => simp [cleanT]
  | cons p r ih => cases p <;> simp [cleanT, ih, Bool.and_assoc]

theorem fillV_holes : ∀ (t : Tmpl) (vs : List Bytes) (s : Bytes), fillV t vs = some s → holes t = vs.length
  | [], [], _, _ => rfl
  | [], _ :: _, _, h => by simp [fillV] at h
  | .text t :: r, vs, s, h => by
    simp only [fillV, Option.map_eq_some_iff] at h
    obtain ⟨s', h', _⟩ := h
    simpa [holes] using fillV_holes r vs s' h'
  | .hole :: _, [], _, h => by simp [fillV] at h
  | .hole :: r, v :: vs, s, h => by
    simp only [fillV, Option.map_eq_some_iff] at h
    obtain ⟨s', h', _⟩ := h
    simp [holes, fillV_holes r vs s' h']

theorem fillV_append : ∀ (t1 t2 : Tmpl) (v1 v2 : List Bytes) (s1 s2 : Bytes),
    fillV t1 v1 = some s1 → fillV t2 v2 = some s2 → fillV (t1 ++ t2) (v1 ++ v2) = some (s1 ++ s2)
  | [], t2, [], v2, s1, s2, h1, h2 => by
    simp [fillV] at h1; subst h1; simpa using h2
  | [], _, _ :: _, _, _, _, h1, _ => by simp [fillV] at h1
  | .text t :: r, t2, v1, v2, s1, s2, h1, h2 => by
    simp only [fillV, Option.map_eq_some_iff] at h1
    obtain ⟨s', h', rfl⟩ := h1
    simp [fillV, fillV_append r t2 v1 v2 s' s2 h' h2]
  | .hole :: _, _, [], _, _, _, h1, _ => by simp [fillV] at h1
  | .hole :: r, t2, v :: v1, v2, s1, s2, h1, h2 => by
    simp only [fillV, Option.map_eq_some_iff] at h1
    obtain ⟨s', h', rfl⟩ := h1
    simp [fillV, fillV_append r t2 v1 v2 s' s2 h' h2]

/-! ### scan lemmas -/

theorem substQ_clean_append : ∀ (t : Bytes) (q : Bool) (r : Bytes) (vs : List Bytes), cleanFrom q t = true →
    substQ q (t ++ r) vs = (substQ false r vs).map (t ++ ·)
  | [], q, r, vs, h => by
    simp [cleanFrom] at h; subst h; simp
  | c :: t, q, r, vs, h => by
    rw [cleanFrom_cons] at h
    rw [List.cons_append, substQ_cons]
    by_cases h34 : (c == 34) = true
    · simp only [h34, if_true] at h ⊢
      rw [substQ_clean_append t (!q) r vs h]
      cases substQ false r vs <;> simp
    · simp only [h34, Bool.false_eq_true, if_false] at h ⊢
      by_cases h63 : (c == 63 && !q) = true
      · simp [h63] at h
      · simp only [h63, Bool.false_eq_true, if_false] at h ⊢
        rw [substQ_clean_append t q r vs h]
        cases substQ false r vs <;> simp

theorem countQ_clean_append : ∀ (t : Bytes) (q : Bool) (r : Bytes), cleanFrom q t = true →
    countQ q (t ++ r) = countQ false r
  | [], q, r, h => by
    simp [cleanFrom] at h; subst h; simp
  | c :: t, q, r, h => by
    rw [cleanFrom_cons] at h
    rw [List.cons_append, countQ_cons]
    by_cases h34 : (c == 34) = true
    · simp only [h34, if_true] at h ⊢
      exact countQ_clean_append t (!q) r h
    · simp only [h34, Bool.false_eq_true, if_false] at h ⊢
      by_cases h63 : (c == 63 && !q) = true
      · simp [h63] at h
      · simp only [h63, Bool.false_eq_true, if_false] at h ⊢
        exact countQ_clean_append t q r h

theorem cleanFrom_append : ∀ (t : Bytes) (q : Bool) (u : Bytes), cleanFrom q t = true → cleanFrom false u = true →
    cleanFrom q (t ++ u) = true
  | [], q, u, h, hu => by
    simp [cleanFrom] at h; subst h; simpa using hu
  | c :: t, q, u, h, hu => by
    rw [cleanFrom_cons] at h
    rw [List.cons_append, cleanFrom_cons]
    by_cases h34 : (c == 34) = true
    · simp only [h34, if_true] at h ⊢
      exact cleanFrom_append t (!q) u h hu
    · simp only [h34, Bool.false_eq_true, if_false] at h ⊢
      by_cases h63 : (c == 63 && !q) = true
      · simp [h63] at h
      · simp only [h63, Bool.false_eq_true, if_false] at h ⊢
        exact cleanFrom_append t q u h hu

/-- inside a quoted identifier everything but `"` is inert -/
theorem cleanFrom_inside (v : Bytes) (h : ∀ c ∈ v, c ≠ 34) : cleanFrom true (v ++ [34]) = true := by
  induction v with
  | nil => decide
  | cons c t ih =>
    have hc : (c == 34) = false := by simpa using h c (by simp)
    rw [List.cons_append, cleanFrom_cons]
    simp only [hc, Bool.false_eq_true, if_false, Bool.not_true, Bool.and_false]
    exact ih (fun x hx => h x (by simp [hx]))

/-- a quoted identifier is clean, whatever it contains besides `"` -/
theorem cleanFrom_quoted (v : Bytes) (h : ∀ c ∈ v, c ≠ 34) : cleanFrom false ([34] ++ v ++ [34]) = true := by
  show cleanFrom false (34 :: (v ++ [34])) = true
  rw [cleanFrom_cons]
  simpa using cleanFrom_inside v h

/-- on a clean template the scan of the `?` text is the template substitution -/
theorem substQ_fill : ∀ (tm : Tmpl) (vs : List Bytes), cleanT tm = true → substQ false (fillQ tm) vs = fillV tm vs
  | [], [], _ => rfl
  | [], _ :: _, _ => rfl
  | .text t :: r, vs, h => by
    simp only [cleanT, Bool.and_eq_true] at h
    rw [fillQ, substQ_clean_append t false _ vs h.1, substQ_fill r vs h.2, fillV]
  | .hole :: r, [], _ => by simp [fillQ, substQ, fillV]
  | .hole :: r, v :: vs, h => by
    simp only [cleanT] at h
    simp [fillQ, substQ, fillV, substQ_fill r vs h]

/-- on a clean template the number of placeholders in the text is the number of holes -/
theorem countQ_fill : ∀ (tm : Tmpl), cleanT tm = true → countQ false (fillQ tm) = holes tm
  | [], _ => rfl
  | .text t :: r, h => by
    simp only [cleanT, Bool.and_eq_true] at h
    rw [fillQ, countQ_clean_append t false _ h.1, countQ_fill r h.2, holes]
  | .hole :: r, h => by
    simp only [cleanT] at h
    simp [fillQ, countQ, holes, countQ_fill r h]

/-- a clean template without holes prints a clean text -/
theorem clean_fillQ_nohole : ∀ (tm : Tmpl), cleanT tm = true → holes tm = 0 → cleanFrom false (fillQ tm) = true
  | [], _, _ => rfl
  | .text t :: r, h, h0 => by
    simp only [cleanT, Bool.and_eq_true] at h
    exact cleanFrom_append t false _ h.1 (clean_fillQ_nohole r h.2 (by simpa [holes] using h0))
  | .hole :: r, _, h0 => by simp [holes] at h0

theorem fillV_nohole : ∀ (tm : Tmpl) (s : Bytes), fillV tm [] = some s → s = fillQ tm
  | [], s, h => by simp [fillV] at h; simp [fillQ, h]
  | .text t :: r, s, h => by
    simp only [fillV, Option.map_eq_some_iff] at h
    obtain ⟨s', h', rfl⟩ := h
    rw [fillQ, fillV_nohole r s' h']
  | .hole :: _, _, h => by simp [fillV] at h

/-! ### the instance relation -/

/-- the substituted text is the literal text of the parameter -/
def Exact (p : Prim) (v : Bytes) : Prop := v = litText p

/-- pointwise relation of the parameters to the substituted texts -/
inductive Rel2 (R : Prim → Bytes → Prop) : List Prim → List Bytes → Prop
  | nil : Rel2 R [] []
  | cons {p : Prim} {v : Bytes} {ps : List Prim} {vs : List Bytes} : R p v → Rel2 R ps vs → Rel2 R (p :: ps) (v :: vs)

theorem Rel2.append {R : Prim → Bytes → Prop} {p1 p2 : List Prim} {v1 v2 : List Bytes}
    (h1 : Rel2 R p1 v1) (h2 : Rel2 R p2 v2) : Rel2 R (p1 ++ p2) (v1 ++ v2) := by
  induction h1 with
  | nil => simpa using h2
  | cons h _ ih => exact .cons h ih

theorem Rel2.imp {R R' : Prim → Bytes → Prop} (hRR : ∀ p v, R p v → R' p v) {ps : List Prim} {vs : List Bytes}
    (h : Rel2 R ps vs) : Rel2 R' ps vs := by
  induction h with
  | nil => exact .nil
  | cons h _ ih => exact .cons (hRR _ _ h) ih

theorem Rel2.length_eq {R : Prim → Bytes → Prop} {ps : List Prim} {vs : List Bytes} (h : Rel2 R ps vs) :
    vs.length = ps.length := by
  induction h with
  | nil => rfl
  | cons _ _ ih => simp [ih]

/-- some clean template prints as `sP` with placeholders and as `sI` with texts `vs`, one per parameter, each
    related to its parameter by `R` -/
def HasR (R : Prim → Bytes → Prop) (ps : List Prim) (sP sI : Bytes) : Prop :=
  ∃ (tm : Tmpl) (vs : List Bytes), cleanT tm = true ∧ sP = fillQ tm ∧ fillV tm vs = some sI ∧ Rel2 R ps vs

/-- the exact relation: the substituted texts are the literal texts of the parameters -/
abbrev HasT (ps : List Prim) (sP sI : Bytes) : Prop := HasR Exact ps sP sI

theorem forall2_exact {ps : List Prim} {vs : List Bytes} (h : Rel2 Exact ps vs) : vs = ps.map litText := by
  induction h with
  | nil => rfl
  | cons h1 _ ih => rw [List.map_cons, ← ih, h1]

theorem exact_forall2 (ps : List Prim) : Rel2 Exact ps (ps.map litText) := by
  induction ps with
  | nil => exact .nil
  | cons p t ih => exact .cons rfl ih

theorem HasR.mono {R R' : Prim → Bytes → Prop} (hRR : ∀ p v, R p v → R' p v) {ps : List Prim} {x y : Bytes}
    (h : HasR R ps x y) : HasR R' ps x y := by
  obtain ⟨tm, vs, c, q, v, f⟩ := h
  exact ⟨tm, vs, c, q, v, f.imp hRR⟩

theorem HasR.nil {R : Prim → Bytes → Prop} : HasR R [] [] [] := ⟨[], [], rfl, rfl, rfl, .nil⟩

theorem HasR.text {R : Prim → Bytes → Prop} (t : Bytes) (h : cleanFrom false t = true) : HasR R [] t t :=
  ⟨[.text t], [], by simp [cleanT, h], by simp [fillQ], by simp [fillV], .nil⟩

theorem HasR.hole {R : Prim → Bytes → Prop} {p : Prim} {v : Bytes} (h : R p v) : HasR R [p] [63] v :=
  ⟨[.hole], [v], rfl, rfl, by simp [fillV], .cons h .nil⟩

theorem HasR.append {R : Prim → Bytes → Prop} {p1 p2 : List Prim} {x1 y1 x2 y2 : Bytes}
    (h1 : HasR R p1 x1 y1) (h2 : HasR R p2 x2 y2) : HasR R (p1 ++ p2) (x1 ++ x2) (y1 ++ y2) := by
  obtain ⟨t1, w1, c1, q1, v1, f1⟩ := h1
  obtain ⟨t2, w2, c2, q2, v2, f2⟩ := h2
  refine ⟨t1 ++ t2, w1 ++ w2, ?_, ?_, fillV_append _ _ _ _ _ _ v1 v2, ?_⟩
  · rw [cleanT_append, c1, c2]; rfl
  · rw [fillQ_append, q1, q2]
  · exact f1.append f2

/-- text, then an instance -/
theorem HasR.pre {R : Prim → Bytes → Prop} (t : Bytes) (h : cleanFrom false t = true) {ps : List Prim} {x y : Bytes}
    (h1 : HasR R ps x y) : HasR R ps (t ++ x) (t ++ y) := by
  simpa using (HasR.text (R := R) t h).append h1

/-- an instance, then text -/
theorem HasR.post {R : Prim → Bytes → Prop} (t : Bytes) (h : cleanFrom false t = true) {ps : List Prim} {x y : Bytes}
    (h1 : HasR R ps x y) : HasR R ps (x ++ t) (y ++ t) := by
  simpa using h1.append (HasR.text (R := R) t h)

/-- without parameters the two texts are the same clean text -/
theorem HasR.nohole {R : Prim → Bytes → Prop} {x y : Bytes} (h : HasR R [] x y) :
    x = y ∧ cleanFrom false x = true := by
  obtain ⟨tm, vs, c, q, v, f⟩ := h
  cases f
  have h0 : holes tm = 0 := by simpa using fillV_holes tm _ _ v
  have := fillV_nohole tm y v
  exact ⟨by rw [q, this], by rw [q]; exact clean_fillQ_nohole tm c h0⟩

theorem HasR.paren {R : Prim → Bytes → Prop} {ps : List Prim} {x y : Bytes} (h : HasR R ps x y) :
    HasR R ps (parenB x) (parenB y) := by
  unfold parenB
  exact (h.pre [40] (by decide)).post [41] (by decide)

theorem HasR.parenIf {R : Prim → Bytes → Prop} (c : Bool) {ps : List Prim} {x y : Bytes} (h : HasR R ps x y) :
    HasR R ps (if c = true then parenB x else x) (if c = true then parenB y else y) := by
  cases c
  · simpa using h
  · simpa using h.paren

/-- what an instance says without mentioning the template -/
theorem HasR.subst {R : Prim → Bytes → Prop} {ps : List Prim} {x y : Bytes} (h : HasR R ps x y) :
    ∃ vs, Rel2 R ps vs ∧ substQ false x vs = some y ∧ countQ false x = ps.length := by
  obtain ⟨tm, vs, c, q, v, f⟩ := h
  refine ⟨vs, f, by rw [q, substQ_fill tm _ c, v], ?_⟩
  rw [q, countQ_fill tm c, fillV_holes tm _ _ v, f.length_eq]

theorem HasT.hole (p : Prim) : HasT [p] [63] (litText p) := HasR.hole rfl
theorem HasT.nil : HasT [] [] [] := HasR.nil
theorem HasT.text (t : Bytes) (h : cleanFrom false t = true) : HasT [] t t := HasR.text t h

/-- the exact relation without mentioning the template -/
theorem HasT.subst {ps : List Prim} {x y : Bytes} (h : HasT ps x y) :
    substQ false x (ps.map litText) = some y ∧ countQ false x = ps.length := by
  obtain ⟨vs, f, h1, h2⟩ := HasR.subst h
  rw [forall2_exact f] at h1
  exact ⟨h1, h2⟩

theorem HasT.template {ps : List Prim} {x y : Bytes} (h : HasT ps x y) :
    ∃ tm : Tmpl, cleanT tm = true ∧ x = fillQ tm ∧ holes tm = ps.length ∧ fillV tm (ps.map litText) = some y := by
  obtain ⟨tm, vs, c, q, v, f⟩ := h
  have := forall2_exact f
  subst this
  exact ⟨tm, c, q, by rw [fillV_holes tm _ _ v, List.length_map], v⟩

end GoLucene.Subst
