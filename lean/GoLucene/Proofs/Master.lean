import GoLucene.Proofs.C07
namespace GoLucene

/-- syntax trees of the sub-language used for the feasibility prototype -/
inductive Tr
  | leaf (t : Tok)
  | and (l r : Tr)
  | or (l r : Tr)
  | not (e : Tr)

def Tr.lvl : Tr → Nat
  | .leaf _ => 0 | .not _ => 12 | .and _ _ => 13 | .or _ _ => 14

def lp : Tok := ⟨.lparen, [40]⟩
def rp : Tok := ⟨.rparen, [41]⟩

def paren (b : Bool) (ts : List Tok) : List Tok := if b then lp :: (ts ++ [rp]) else ts

def trPP : Tr → List Tok
  | .leaf t => [t]
  | .and l r => paren (decide (13 < l.lvl)) (trPP l) ++ (⟨.tand, [65, 78, 68]⟩ :: paren (decide (12 < r.lvl)) (trPP r))
  | .or l r => paren (decide (14 < l.lvl)) (trPP l) ++ (⟨.tor, [79, 82]⟩ :: paren (decide (13 < r.lvl)) (trPP r))
  | .not e => ⟨.tnot, [78, 79, 84]⟩ :: paren (decide (11 < e.lvl)) (trPP e)

def trSem : Tr → Ex
  | .leaf t => .leaf t
  | .and l r => .and (trSem l) (trSem r)
  | .or l r => .or (trSem l) (trSem r)
  | .not e => .not (trSem e)

def Tr.leavesOK : Tr → Prop
  | .leaf t => t.typ.isTerm
  | .and l r => l.leavesOK ∧ r.leavesOK
  | .or l r => l.leavesOK ∧ r.leavesOK
  | .not e => e.leavesOK

def isOpen (t : TT) : Bool := t = .lparen || t = .lsquare || t = .lcurly

/-- the context's top nonterminal lets an operator of number `n` be shifted -/
def admits (cur : TT) (n : Nat) : Prop :=
  n = 0 ∨ isOpen cur = true ∨ (anyClosingBracket cur = false ∧ cur.num > n)

/-- lookahead `la` forces every pending operator of number ≤ n ... to reduce -/
structure Closes (n : Nat) (la : TT) : Prop where
  nterm : la.isTerm = false
  nerr : la ≠ .err
  nopen : isOpen la = false
  nend : endingRange la = false
  npre : la.isPrefixOp = false
  prec : n ≤ la.num

def topTokOrEmpty (c : Cfg) : Prop :=
  c.stack = [] ∨ ∃ t st, c.stack = .tok t :: st

end GoLucene

namespace GoLucene

theorem isTerm_facts {t : TT} (h : t.isTerm) : t ≠ .eof ∧ t.isTerminal = true := by
  cases t <;> simp_all [TT.isTerm, TT.isTerminal]

theorem step_leaf (isNum : Bool → Ex → Bool) (c : Cfg) (t : Tok) (rest : List Tok)
    (hc : topTokOrEmpty c) (ht : t.typ.isTerm) :
    runW isNum c (t :: rest) = runW isNum ⟨.ex (.leaf t) :: c.stack, c.nts⟩ rest := by
  obtain ⟨hne, hterm⟩ := isTerm_facts ht
  rw [runW]
  simp only [nextOf, hne, shouldShift_term _ _ ht, hterm]
  rcases hc with h | ⟨t', st, h⟩ <;> simp [h]

theorem step_shift_op (isNum : Bool → Ex → Bool) (c : Cfg) (o : Tok) (rest : List Tok)
    (hne : o.typ ≠ .eof) (hnt : o.typ.isTerminal = false) (hs : shouldShift (curOf c) o.typ = true) :
    runW isNum c (o :: rest) = runW isNum ⟨.tok o.typ :: c.stack, o.typ :: c.nts⟩ rest := by
  rw [runW]
  simp [nextOf, hne, hs, hnt]

theorem step_reduce (isNum : Bool → Ex → Bool) (c : Cfg) (toks : List Tok)
    (hacc : ¬ (c.stack.length = 1 ∧ nextOf toks = .eof))
    (hs : shouldShift (curOf c) (nextOf toks) = false) :
    runW isNum c toks = match reduce isNum c with
      | none => .err
      | some c' => runW isNum c' toks := by
  rw [runW.eq_def]
  simp only [hacc, hs]
  simp
  split <;> simp_all

theorem reduce_and (isNum : Bool → Ex → Bool) (l r : Ex) (σ : List Item) (ν : List TT) :
    reduce isNum ⟨.ex r :: .tok .tand :: .ex l :: σ, .tand :: ν⟩ = some ⟨.ex (.and l r) :: σ, ν⟩ := by
  simp [reduce, reduceLoop, tryReduce]

theorem reduce_or (isNum : Bool → Ex → Bool) (l r : Ex) (σ : List Item) (ν : List TT) :
    reduce isNum ⟨.ex r :: .tok .tor :: .ex l :: σ, .tor :: ν⟩ = some ⟨.ex (.or l r) :: σ, ν⟩ := by
  simp [reduce, reduceLoop, tryReduce]

theorem reduce_not (isNum : Bool → Ex → Bool) (e : Ex) (σ : List Item) (ν : List TT) :
    reduce isNum ⟨.ex e :: .tok .tnot :: σ, .tnot :: ν⟩ = some ⟨.ex (.not e) :: σ, ν⟩ := by
  simp [reduce, reduceLoop, tryReduce]

theorem reduce_sub (isNum : Bool → Ex → Bool) (e : Ex) (σ : List Item) (ν : List TT) :
    reduce isNum ⟨.tok .rparen :: .ex e :: .tok .lparen :: σ, .rparen :: .lparen :: ν⟩ = some ⟨.ex e :: σ, ν⟩ := by
  simp [reduce, reduceLoop, tryReduce]

end GoLucene
