import GoLucene.Model.SqlEval
/-
  C03, semantic core: the predicate PostgreSQL reads from the renderer's output is true on exactly the rows on
  which the query is true.

  * `toAst e`       — the `Sql.Ast` that the TEXT `render pgFns e` denotes, defined directly on the tree, case by case
                      after `render` / `serialize` / the render functions (`fnInfix`, `fnWrapNot`, `fnNoop`, `fnLike`,
                      `fnRang` → `rangeText` → `rangeCmp`, `fnList`).  `none` outside the filterable shapes.
                      (The link `Sql.parseSql (render pgFns e) = toAst e` is NOT proved here; it is checked by
                      differential execution.)
  * `cleanFilter e` — the executable description of the fragment on which the renderer is right.
  * `sql_means_query` — MAIN THEOREM: `cleanFilter e → toAst e = some a → ∀ row, evalSql row a = evalL row e`.
  * `toAst_total`   — `cleanFilter e → ∃ a, toAst e = some a`.
  * `toAst_renders` — `cleanFilter e → textClean e → ∃ t, render pgFns e = .ok t` (ToPostgres succeeds), where
                      `textClean` = every field name / string passes the renderer's own `literal` test.
  * `need_*`        — for the recorded findings that `toAst` mirrors, a row on which the two sides differ.

  Float ranges: `rang` prints float bounds with `%.2f`; `twoDecExact` is the condition under which that is exact.  Since
  fix F12 (`toFloats` compares an open end with `'*'`, as `toInts` does; finding K-range-float-open: `a:[* TO 1.5]` was
  rendered `"a" BETWEEN '*' AND 1.5`) OPEN float ranges are comparisons too (`"a" <= 1.50`, `"a" >= 1.50`): `rangeAst`,
  `cleanBounds` have the forms star/flt and flt/star, with the same condition (`exFloatUpTo`, `exFloatFrom`,
  `need_two_decimals_open`).

  No hypothesis about `Model/Num` is assumed: the facts used (`decOfText (natDigits n) = (n, 0)`, a float's `%v`
  text never starts with two signs, numeric texts are ASCII without `,`) are proved below; so is the fact that the
  byte substitution `*`→`%`, `?`→`_` commutes with UTF-8 decoding (`runesOf_starPattern`).
-/
namespace GoLucene.SqlMeaning
open GoLucene Sql

/-! ### `decOfText` in stages -/

def fracPart (r1 : Bytes) : Bytes × Bytes :=
  match r1 with
  | 46 :: r => (r.takeWhile isDig, r.dropWhile isDig)
  | r => ([], r)

def digVal (ds : Bytes) : Nat := ds.foldl (fun n c => 10 * n + (c.toNat - 48)) 0

def expoPart (r2 : Bytes) : Option Int :=
  match r2 with
  | [] => some 0
  | c :: r =>
    if c == 101 || c == 69 then
      let (eneg, ds) := match r with
        | 45 :: d => (true, d)
        | 43 :: d => (false, d)
        | d => (false, d)
      if ds.isEmpty || !ds.all isDig then none
      else
        let v : Int := (ds.foldl (fun n c => 10 * n + (c.toNat - 48)) 0 : Nat)
        some (if eneg then -v else v)
    else none

def decCore (neg : Bool) (s : Bytes) : Option (Int × Int) :=
  let ip := s.takeWhile isDig
  let fr := fracPart (s.dropWhile isDig)
  if ip.isEmpty && fr.1.isEmpty then none
  else
    match expoPart fr.2 with
    | none => none
    | some ex => some ((if neg then -(digVal (ip ++ fr.1) : Int) else (digVal (ip ++ fr.1) : Int)), ex - fr.1.length)

theorem decOfText_minus (r : Bytes) : decOfText (45 :: r) = decCore true r := rfl
theorem decOfText_plus (r : Bytes) : decOfText (43 :: r) = decCore false r := rfl
theorem decOfText_plain (raw : Bytes) (h1 : raw.head? ≠ some 45) (h2 : raw.head? ≠ some 43) :
    decOfText raw = decCore false raw := by
  unfold decOfText
  split
  rename_i x neg s h
  split at h
  · simp at h1
  · simp at h2
  · cases h; rfl

theorem decCore_neg (s : Bytes) : decCore true s = (decCore false s).map (fun p => (-p.1, p.2)) := by
  unfold decCore
  simp only []
  split
  · rfl
  · split <;> simp

theorem takeWhile_all {α} (p : α → Bool) (l : List α) (h : ∀ x ∈ l, p x = true) : l.takeWhile p = l := by
  induction l with
  | nil => rfl
  | cons a t ih =>
    rw [List.takeWhile_cons_of_pos (h a (by simp)), ih (fun x hx => h x (by simp [hx]))]

theorem dropWhile_all {α} (p : α → Bool) (l : List α) (h : ∀ x ∈ l, p x = true) : l.dropWhile p = [] := by
  induction l with
  | nil => rfl
  | cons a t ih =>
    rw [List.dropWhile_cons_of_pos (h a (by simp)), ih (fun x hx => h x (by simp [hx]))]

theorem charDigit_bounds (c : Char) (h : c.isDigit = true) : 48 ≤ c.toNat ∧ c.toNat ≤ 57 := by
  simp only [Char.isDigit, Bool.and_eq_true, decide_eq_true_eq] at h
  obtain ⟨h1, h2⟩ := h
  have h1' : '0'.val.toNat ≤ c.val.toNat := UInt32.le_iff_toNat_le.mp h1
  have h2' : c.val.toNat ≤ '9'.val.toNat := UInt32.le_iff_toNat_le.mp h2
  exact ⟨h1', h2'⟩

theorem isDig_iff (c : UInt8) : isDig c = true ↔ 48 ≤ c.toNat ∧ c.toNat ≤ 57 := by
  simp only [isDig, Bool.and_eq_true, decide_eq_true_eq, UInt8.le_iff_toNat_le]
  rfl

theorem isDig_ofChar (c : Char) (h : c.isDigit = true) :
    isDig (UInt8.ofNat c.toNat) = true ∧ (UInt8.ofNat c.toNat).toNat = c.toNat := by
  have hb := charDigit_bounds c h
  have h3 : (UInt8.ofNat c.toNat).toNat = c.toNat := by
    rw [UInt8.toNat_ofNat']; omega
  exact ⟨(isDig_iff _).mpr (by rw [h3]; exact hb), h3⟩

theorem natDigits_isDig (n : Nat) : ∀ c ∈ Num.natDigits n, isDig c = true := by
  intro c hc
  simp only [Num.natDigits, List.mem_map] at hc
  obtain ⟨ch, hch, rfl⟩ := hc
  exact (isDig_ofChar ch (Nat.isDigit_of_mem_toDigits (by decide) (by decide) hch)).1

theorem natDigits_ne_nil (n : Nat) : Num.natDigits n ≠ [] := by
  simp [Num.natDigits]

theorem digVal_map_aux (cs : List Char) (h : ∀ c ∈ cs, c.isDigit = true) (init : Nat) :
    (cs.map (fun c => UInt8.ofNat c.toNat)).foldl (fun n c => 10 * n + (c.toNat - 48)) init
      = Nat.ofDigitChars 10 cs init := by
  induction cs generalizing init with
  | nil => simp
  | cons c cs ih =>
    have hc := (isDig_ofChar c (h c (by simp))).2
    simp only [List.map_cons, List.foldl_cons, Nat.ofDigitChars_cons, hc]
    exact ih (fun c hc => h c (by simp [hc])) _

theorem digVal_natDigits (n : Nat) : digVal (Num.natDigits n) = n := by
  unfold digVal Num.natDigits
  rw [digVal_map_aux _ (fun c hc => Nat.isDigit_of_mem_toDigits (by decide) (by decide) hc)]
  exact Nat.ofDigitChars_ten_toDigits

theorem decCore_digits (neg : Bool) (ds : Bytes) (hne : ds ≠ []) (hall : ∀ c ∈ ds, isDig c = true) :
    decCore neg ds = some ((if neg then -(digVal ds : Int) else (digVal ds : Int)), 0) := by
  have h1 : ds.takeWhile isDig = ds := takeWhile_all _ _ hall
  have h2 : ds.dropWhile isDig = [] := dropWhile_all _ _ hall
  unfold decCore
  simp only [h1, h2, fracPart, expoPart]
  cases ds with
  | nil => exact absurd rfl hne
  | cons c t => simp

/-- a non-empty list whose members are all digits does not start with a sign -/
theorem head_not_sign (ds : Bytes) (hall : ∀ c ∈ ds, isDig c = true) :
    ds.head? ≠ some 45 ∧ ds.head? ≠ some 43 := by
  cases ds with
  | nil => simp
  | cons c t =>
    have hc := hall c (by simp)
    constructor <;> (intro h; simp at h; subst h; revert hc; decide)

theorem decOfText_natDigits (n : Nat) : decOfText (Num.natDigits n) = some ((n : Int), 0) := by
  have hne := natDigits_ne_nil n
  have hall := natDigits_isDig n
  have hs := head_not_sign _ hall
  rw [decOfText_plain _ hs.1 hs.2, decCore_digits false _ hne hall, digVal_natDigits]; rfl

/-! ### the text of a float never carries two signs -/

def headDig (l : Bytes) : Prop := ∀ c, l.head? = some c → isDig c = true

theorem headDig_not_sign {l : Bytes} (h : headDig l) : l.head? ≠ some 45 ∧ l.head? ≠ some 43 := by
  constructor <;> (intro hh; have := h _ hh; revert this; decide)

theorem headDig_cons {c : UInt8} {t : Bytes} (h : isDig c = true) : headDig (c :: t) := by
  intro d hd; simp at hd; subst hd; exact h

theorem headDig_of_all {l : Bytes} (h : ∀ c ∈ l, isDig c = true) : headDig l := by
  intro c hc
  cases l with
  | nil => simp at hc
  | cons a t => simp at hc; subst hc; exact h _ (by simp)

theorem headDig_append_of_ne {l m : Bytes} (hne : l ≠ []) (h : headDig l) : headDig (l ++ m) := by
  cases l with
  | nil => exact absurd rfl hne
  | cons a t => intro c hc; simp at hc; subst hc; exact h _ (by simp)

theorem shortest_digits (m : Nat) (e : Int) : ∀ c ∈ (Num.shortest m e).1, isDig c = true := by
  unfold Num.shortest
  simp only []
  generalize Num.shortestLoop _ _ _ _ _ _ _ = p
  obtain ⟨c, k⟩ := p
  simp only []
  generalize Num.stripZeros _ _ _ = q
  obtain ⟨c', k'⟩ := q
  exact natDigits_isDig c'

theorem shortestOf_digits (f : F64) : ∀ c ∈ (Num.shortestOf f).1, isDig c = true := by
  unfold Num.shortestOf
  split
  · simp
  · exact shortest_digits _ _

theorem fmtE_headDig (ds : Bytes) (dp : Int) (h : ∀ c ∈ ds, isDig c = true) : headDig (Num.fmtEShortest ds dp) := by
  unfold Num.fmtEShortest
  cases ds with
  | nil => exact headDig_cons (by decide)
  | cons d more => exact headDig_cons (h d (by simp))

theorem fmtF_headDig (ds : Bytes) (dp : Int) (h : ∀ c ∈ ds, isDig c = true) : headDig (Num.fmtFShortest ds dp) := by
  unfold Num.fmtFShortest
  simp only []
  split
  · split
    · exact headDig_cons (by decide)
    · exact headDig_cons (by decide)
  · rename_i hdp
    split
    · rename_i hnd
      cases ds with
      | nil =>
        have : dp.toNat - ([] : Bytes).length = (dp.toNat - 1) + 1 := by simp; omega
        rw [this]
        simp only [Num.zeros, List.nil_append, List.replicate_succ]
        exact headDig_cons (by decide)
      | cons d more => exact headDig_cons (h d (by simp))
    · rename_i hnd
      cases ds with
      | nil => simp at hnd
      | cons d more =>
        have : dp.toNat = (dp.toNat - 1) + 1 := by omega
        rw [this]
        simp only [List.take_succ_cons, List.cons_append]
        exact headDig_cons (h d (by simp))

theorem fmtG_signOk (f : F64) : ∀ r, fmtG f = 45 :: r → r.head? ≠ some 45 ∧ r.head? ≠ some 43 := by
  intro r hr
  unfold fmtG at hr
  split at hr
  · unfold Num.nonFinite at hr
    split at hr
    · simp at hr
    · split at hr
      · simp at hr; subst hr; decide
      · simp at hr
  · have hd := shortestOf_digits f
    generalize Num.shortestOf f = p at hr hd
    obtain ⟨ds, dp⟩ := p
    simp only [] at hr hd
    have hb : headDig (if dp - 1 < -4 ∨ dp - 1 ≥ 6 then Num.fmtEShortest ds dp else Num.fmtFShortest ds dp) := by
      split
      · exact fmtE_headDig ds dp hd
      · exact fmtF_headDig ds dp hd
    generalize (if dp - 1 < -4 ∨ dp - 1 ≥ 6 then Num.fmtEShortest ds dp else Num.fmtFShortest ds dp) = body at hr hb
    unfold Num.signed at hr
    split at hr
    · simp at hr; subst hr; exact headDig_not_sign hb
    · subst hr
      exact absurd rfl (headDig_not_sign hb).1

/-! ### constants: the value PostgreSQL reads is the value of the leaf -/

/-- a numeric text as PostgreSQL's grammar reads it: a leading `-` is the unary minus folded into the constant -/
def numTextAst (t : Bytes) : Ast :=
  match t with
  | 45 :: r => .num true r
  | r => .num false r

/-- the text never starts with two signs -/
def SignOk (t : Bytes) : Prop := ∀ r, t = 45 :: r → r.head? ≠ some 45 ∧ r.head? ≠ some 43

theorem sqlValue_numText (row : Row) (t : Bytes) (h : SignOk t) :
    sqlValue row (numTextAst t) = (decOfText t).map (fun p => Val.num p.1 p.2) := by
  unfold numTextAst
  split
  · rename_i r
    have hr := h r rfl
    simp only [sqlValue]
    rw [decOfText_minus, decCore_neg, decOfText_plain r hr.1 hr.2]
    cases decCore false r <;> simp
  · simp only [sqlValue]
    cases decOfText t <;> simp

theorem fmtInt_nat (n : Nat) : fmtInt (n : Int) = Num.natDigits n := by
  unfold fmtInt
  have : ¬ ((n : Int) < 0) := by omega
  simp [this]

theorem sqlValue_int (row : Row) (i : Int) :
    sqlValue row (.num (decide (i < 0)) (fmtInt i.natAbs)) = some (.num i 0) := by
  simp only [sqlValue, fmtInt_nat, decOfText_natDigits, Option.map_some]
  congr 2
  by_cases h : i < 0 <;> simp [h] <;> omega

theorem astOfPrim_flt (f : F64) : astOfPrim (.flt f) = some (numTextAst (fmtG f)) := by
  unfold astOfPrim numTextAst
  simp only []
  generalize fmtG f = t
  split <;> (split <;> simp_all)

theorem sqlValue_astOfPrim (row : Row) (p : Prim) (a : Ast) (h : astOfPrim p = some a) :
    sqlValue row a = valOfPrim p := by
  cases p
  case str s => simp [astOfPrim] at h; subst h; rfl
  case int i => simp [astOfPrim] at h; subst h; rw [sqlValue_int]; rfl
  case flt f =>
    rw [astOfPrim_flt] at h; cases h
    rw [sqlValue_numText row _ (fmtG_signOk f)]; rfl
  all_goals simp [astOfPrim] at h

/-! ### exact decimals: comparison is invariant under a change of representation -/

theorem compare_scale (a c k : Int) (hk : 0 < k) : compare (a * k) (c * k) = compare a c := by
  rcases Int.lt_trichotomy a c with h | h | h
  · rw [Int.compare_eq_lt.mpr h, Int.compare_eq_lt.mpr (Int.mul_lt_mul_of_pos_right h hk)]
  · subst h; rw [Int.compare_eq_eq.mpr rfl, Int.compare_eq_eq.mpr rfl]
  · rw [Int.compare_eq_gt.mpr h, Int.compare_eq_gt.mpr (Int.mul_lt_mul_of_pos_right h hk)]

theorem pow10_pos (n : Nat) : 0 < pow10 n := Int.pow_pos (by decide)

theorem pow10_add (a c : Nat) : pow10 (a + c) = pow10 a * pow10 c := Int.pow_add _ _ _

/-- `m · 10^e` scaled to the common exponent `E ≤ e` -/
def scaled (m e E : Int) : Int := m * pow10 (e - E).toNat

theorem cmpDec_scaled (m1 e1 m2 e2 E : Int) (h1 : E ≤ e1) (h2 : E ≤ e2) :
    cmpDec m1 e1 m2 e2 = compare (scaled m1 e1 E) (scaled m2 e2 E) := by
  unfold cmpDec scaled
  split
  · rename_i hge
    have : (e1 - E).toNat = (e1 - e2).toNat + (e2 - E).toNat := by omega
    rw [this, pow10_add, ← Int.mul_assoc, compare_scale _ _ _ (pow10_pos _)]
  · rename_i hge
    have : (e2 - E).toNat = (e2 - e1).toNat + (e1 - E).toNat := by omega
    rw [this, pow10_add, ← Int.mul_assoc, compare_scale _ _ _ (pow10_pos _)]

theorem cmpDec_congr (m e m1 e1 m2 e2 : Int) (h : cmpDec m1 e1 m2 e2 = .eq) :
    cmpDec m e m1 e1 = cmpDec m e m2 e2 := by
  have hE : ∃ E : Int, E ≤ e ∧ E ≤ e1 ∧ E ≤ e2 := ⟨min e (min e1 e2), by omega, by omega, by omega⟩
  obtain ⟨E, h0, h1, h2⟩ := hE
  rw [cmpDec_scaled m1 e1 m2 e2 E h1 h2, Int.compare_eq_eq] at h
  rw [cmpDec_scaled m e m1 e1 E h0 h1, cmpDec_scaled m e m2 e2 E h0 h2, h]

/-- two constants that denote the same number (or are the same string) -/
def Val.same : Val → Val → Bool
  | .num m1 e1, .num m2 e2 => cmpDec m1 e1 m2 e2 == .eq
  | .str a, .str c => a == c
  | _, _ => false

theorem Val.cmp_same (v c1 c2 : Val) (h : Val.same c1 c2 = true) : v.cmp c1 = v.cmp c2 := by
  cases c1 <;> cases c2 <;> simp [Val.same] at h
  · cases v
    · simp only [Val.cmp]; rw [cmpDec_congr _ _ _ _ _ _ h]
    · rfl
  · subst h; rfl

/-! ### patterns: the renderer's byte substitution commutes with UTF-8 decoding -/
def subB (c : UInt8) : UInt8 := if c == 42 then 37 else if c == 63 then 95 else c
def subR (r : Nat) : Nat := if r = 42 then 37 else if r = 63 then 95 else r

theorem starPattern_eq_map (s : Bytes) : starPattern s = s.map subB := by
  unfold starPattern replaceByte
  induction s with
  | nil => rfl
  | cons c t ih =>
    simp only [List.flatMap_cons, List.map_cons] at ih ⊢
    by_cases h1 : c = 42
    · subst h1; simp [subB]; simpa using ih
    · by_cases h2 : c = 63
      · subst h2; simp [subB]; simpa using ih
      · simp [subB, h1, h2]; simpa using ih

theorem subB_cases (c : UInt8) :
    (c = 42 ∧ subB c = 37) ∨ (c = 63 ∧ subB c = 95) ∨ (c ≠ 42 ∧ c ≠ 63 ∧ subB c = c) := by
  unfold subB
  by_cases h1 : c = 42
  · left; simp [h1]
  · by_cases h2 : c = 63
    · right; left; simp [h2]
    · right; right; simp [h1, h2]

theorem subB_hi (c lo : UInt8) (hlo : 0x80 ≤ lo) (h : lo ≤ c) : subB c = c := by
  rcases subB_cases c with ⟨rfl, _⟩ | ⟨rfl, _⟩ | ⟨_, _, h3⟩
  · rw [UInt8.le_iff_toNat_le] at hlo h; simp at hlo h; omega
  · rw [UInt8.le_iff_toNat_le] at hlo h; simp at hlo h; omega
  · exact h3

theorem le_subB (c lo : UInt8) (hlo : 0x80 ≤ lo) : (decide (lo ≤ subB c)) = decide (lo ≤ c) := by
  rcases subB_cases c with ⟨rfl, h⟩ | ⟨rfl, h⟩ | ⟨_, _, h3⟩
  · rw [h]; rw [UInt8.le_iff_toNat_le] at hlo; simp [UInt8.le_iff_toNat_le] at hlo ⊢; omega
  · rw [h]; rw [UInt8.le_iff_toNat_le] at hlo; simp [UInt8.le_iff_toNat_le] at hlo ⊢; omega
  · rw [h3]

theorem cont_subB (c : UInt8) : cont (subB c) = cont c := by
  rcases subB_cases c with ⟨rfl, h⟩ | ⟨rfl, h⟩ | ⟨_, _, h3⟩
  · rw [h]; decide
  · rw [h]; decide
  · rw [h3]

theorem cont_fix (c : UInt8) (h : cont c = true) : subB c = c := by
  simp only [cont, Bool.and_eq_true, decide_eq_true_eq] at h
  exact subB_hi c 0x80 (by decide) h.1


theorem range_subB (c lo hi : UInt8) (hlo : 0x80 ≤ lo) :
    (decide (lo ≤ subB c) && decide (subB c ≤ hi)) = (decide (lo ≤ c) && decide (c ≤ hi)) := by
  by_cases h : lo ≤ c
  · rw [subB_hi c lo hlo h]
  · have := le_subB c lo hlo
    simp only [h, decide_false] at this
    rw [this]; simp [h]

theorem decode1_sub_hi (b0 : UInt8) (rest : Bytes) (hb : ¬ b0 < 0x80) :
    decode1 b0 (rest.map subB) = decode1 b0 rest := by
  unfold decode1
  simp only [hb, ↓reduceIte]
  split
  · cases rest with
    | nil => rfl
    | cons b1 t =>
      simp only [List.map_cons, cont_subB]
      split
      · rw [cont_fix _ ‹_›]
      · rfl
  · split
    · have hlo : (0x80 : UInt8) ≤ (if b0 = 224 then 160 else 128) := by split <;> decide
      match rest with
      | [] => rfl
      | [_] => rfl
      | b1 :: b2 :: t =>
        simp only [List.map_cons, cont_subB, range_subB _ _ _ hlo]
        refine ite_congr rfl (fun hc => ?_) (fun _ => rfl)
        simp only [Bool.and_eq_true, decide_eq_true_eq] at hc
        rw [subB_hi b1 _ hlo hc.1.1, cont_fix b2 hc.2]
    · split
      · have hlo : (0x80 : UInt8) ≤ (if b0 = 240 then 144 else 128) := by split <;> decide
        match rest with
        | [] => rfl
        | [_] => rfl
        | [_, _] => rfl
        | b1 :: b2 :: b3 :: t =>
          simp only [List.map_cons, cont_subB, range_subB _ _ _ hlo]
          refine ite_congr rfl (fun hc => ?_) (fun _ => rfl)
          simp only [Bool.and_eq_true, decide_eq_true_eq] at hc
          rw [subB_hi b1 _ hlo hc.1.1.1, cont_fix b2 hc.1.2, cont_fix b3 hc.2]
      · rfl


theorem u8_ne_toNat {a c : UInt8} (h : ¬ a = c) : a.toNat ≠ c.toNat := fun e => h (UInt8.toNat_inj.mp e)

theorem decode1_hi_rune (b0 : UInt8) (rest : Bytes) (hb : ¬ b0 < 0x80) : 128 ≤ (decode1 b0 rest).1 := by
  have k1 : b0.toNat = 224 → b0 = 224 := fun e => UInt8.toNat_inj.mp e
  have k2 : b0.toNat = 240 → b0 = 240 := fun e => UInt8.toNat_inj.mp e
  unfold decode1
  simp only [hb, ↓reduceIte]
  repeat' split
  all_goals simp only [Bool.and_eq_true, decide_eq_true_eq, UInt8.le_iff_toNat_le] at *
  all_goals (try simp only [UInt8.reduceToNat] at *)
  all_goals (try omega)
  all_goals first
    | (have : b0.toNat ≠ 224 := fun e => absurd (k1 e) ‹¬ b0 = 224›; omega)
    | (have : b0.toNat ≠ 240 := fun e => absurd (k2 e) ‹¬ b0 = 240›; omega)


theorem subB_lo (c : UInt8) (h : c < 0x80) : subB c < 0x80 ∧ (subB c).toNat = subR c.toNat := by
  rcases subB_cases c with ⟨rfl, h1⟩ | ⟨rfl, h1⟩ | ⟨h1, h2, h3⟩
  · rw [h1]; decide
  · rw [h1]; decide
  · rw [h3]; refine ⟨h, ?_⟩
    have n1 : c.toNat ≠ 42 := u8_ne_toNat h1
    have n2 : c.toNat ≠ 63 := u8_ne_toNat h2
    simp [subR, n1, n2]

theorem decode1_sub (b0 : UInt8) (rest : Bytes) :
    decode1 (subB b0) (rest.map subB) = (subR (decode1 b0 rest).1, (decode1 b0 rest).2) := by
  by_cases hb : b0 < 0x80
  · have h := subB_lo b0 hb
    have e1 : decode1 b0 rest = (b0.toNat, 1) := by unfold decode1; simp only [hb, ↓reduceIte]
    have e2 : decode1 (subB b0) (rest.map subB) = ((subB b0).toNat, 1) := by
      unfold decode1; simp only [h.1, ↓reduceIte]
    rw [e1, e2, h.2]
  · have hfix : subB b0 = b0 := subB_hi b0 0x80 (by decide) (by
      rw [UInt8.lt_iff_toNat_lt] at hb; rw [UInt8.le_iff_toNat_le]; omega)
    rw [hfix, decode1_sub_hi b0 rest hb]
    have := decode1_hi_rune b0 rest hb
    have e : subR (decode1 b0 rest).1 = (decode1 b0 rest).1 := by
      unfold subR; split; omega; split; omega; rfl
    rw [e]

theorem runes_sub : ∀ (n : Nat) (s : Bytes), s.length ≤ n → runesOf (s.map subB) = (runesOf s).map subR := by
  intro n
  induction n with
  | zero => intro s h; cases s <;> simp_all [runesOf, decode]
  | succ n ih =>
    intro s h
    cases s with
    | nil => simp [runesOf, decode]
    | cons b0 rest =>
      have ih' := ih (rest.drop ((decode1 b0 rest).2 - 1)) (by simp at h ⊢; omega)
      simp only [runesOf] at ih' ⊢
      rw [List.map_cons, decode, decode, decode1_sub]
      simp only [List.map_cons, ← List.map_drop]
      rw [ih']

/-- the renderer's pattern translation, rune by rune -/
theorem runesOf_starPattern (p : Bytes) : runesOf (starPattern p) = (runesOf p).map subR := by
  rw [starPattern_eq_map]; exact runes_sub _ _ (Nat.le_refl _)


theorem rune_ascii_mem : ∀ (n : Nat) (s : Bytes), s.length ≤ n →
    ∀ r ∈ runesOf s, r < 128 → ∃ c ∈ s, c.toNat = r := by
  intro n
  induction n with
  | zero => intro s h; cases s <;> simp_all [runesOf, decode]
  | succ n ih =>
    intro s h r hr hlt
    cases s with
    | nil => simp [runesOf, decode] at hr
    | cons b0 rest =>
      have ih' := ih (rest.drop ((decode1 b0 rest).2 - 1)) (by simp at h ⊢; omega)
      simp only [runesOf] at ih' hr
      rw [decode] at hr
      simp only [List.map_cons, List.mem_cons] at hr
      rcases hr with hr | hr
      · by_cases hb : b0 < 0x80
        · have e1 : decode1 b0 rest = (b0.toNat, 1) := by unfold decode1; simp only [hb, ↓reduceIte]
          rw [e1] at hr
          exact ⟨b0, by simp, hr.symm⟩
        · have := decode1_hi_rune b0 rest hb
          omega
      · obtain ⟨c, hc, hcr⟩ := ih' r hr hlt
        exact ⟨c, List.mem_cons_of_mem _ (List.mem_of_mem_drop hc), hcr⟩

theorem subR_eq_many (p : Nat) (h : p ≠ 37) : (subR p == 37) = (p == 42) := by
  unfold subR
  by_cases h1 : p = 42
  · simp [h1]
  · by_cases h2 : p = 63
    · simp [h2]
    · simp only [h1, h2, ↓reduceIte]
      rw [beq_eq_false_iff_ne.mpr h, beq_eq_false_iff_ne.mpr h1]

theorem subR_eq_one (p : Nat) (h : p ≠ 95) : (subR p == 95) = (p == 63) := by
  unfold subR
  by_cases h1 : p = 42
  · simp [h1]
  · by_cases h2 : p = 63
    · simp [h2]
    · simp only [h1, h2, ↓reduceIte]
      rw [beq_eq_false_iff_ne.mpr h, beq_eq_false_iff_ne.mpr h2]

theorem globMatch_sub : ∀ (fuel : Nat) (P S : List Nat), (∀ r ∈ P, r ≠ 37 ∧ r ≠ 95) →
    globMatch 37 95 fuel (P.map subR) S = globMatch 42 63 fuel P S := by
  intro fuel
  induction fuel with
  | zero => intro P S _; simp [globMatch]
  | succ fuel ih =>
    intro P S hP
    cases P with
    | nil => cases S <;> simp [globMatch]
    | cons p ps =>
      have hp := hP p (by simp)
      have hps : ∀ r ∈ ps, r ≠ 37 ∧ r ≠ 95 := fun r hr => hP r (by simp [hr])
      have ih1 := fun S => ih ps S hps
      have ih2 := fun S => ih (p :: ps) S hP
      simp only [List.map_cons] at ih2 ⊢
      simp only [globMatch, subR_eq_many p hp.1, subR_eq_one p hp.2, ih1]
      by_cases h42 : p = 42
      · simp only [h42, beq_self_eq_true, ↓reduceIte] at ih2 ⊢
        cases S with
        | nil => rfl
        | cons c ss => simp only [ih2]
      · have : (p == 42) = false := by simp [h42]
        simp only [this]
        cases S with
        | nil => rfl
        | cons c ss =>
          by_cases h63 : p = 63
          · simp [h63]
          · have e : subR p = p := by simp [subR, h42, h63]
            simp [e]

/-- PATTERN TRANSLATION: for a pattern without the bytes `%` and `_`, matching the translated pattern with `%`/`_`
    is matching the original with `*`/`?` -/
theorem globOn_starPattern (p s : Bytes) (h37 : ∀ c ∈ p, c ≠ 37) (h95 : ∀ c ∈ p, c ≠ 95) :
    globOn 37 95 (starPattern p) s = globOn 42 63 p s := by
  unfold globOn
  simp only [runesOf_starPattern, List.length_map]
  apply globMatch_sub
  intro r hr
  constructor
  · intro e
    obtain ⟨c, hc, hcr⟩ := rune_ascii_mem _ p (Nat.le_refl _) r hr (by omega)
    exact h37 c hc (UInt8.toNat_inj.mp (by rw [hcr, e]; rfl))
  · intro e
    obtain ⟨c, hc, hcr⟩ := rune_ascii_mem _ p (Nat.le_refl _) r hr (by omega)
    exact h95 c hc (UInt8.toNat_inj.mp (by rw [hcr, e]; rfl))


/-! ## the translation -/

/-- a field position: the wrapped Column leaf the constructor puts there -/
def fieldCol : Node → Option Bytes
  | .expr (.mk (.prim (.col f)) .literal .nil _ _) => some f
  | _ => none

/-- a value position: a literal leaf holding a string, an int or a float -/
def litAst : Node → Option Ast
  | .expr (.mk (.prim p) .literal .nil _ _) => astOfPrim p
  | _ => none

def listAst : ExprList → Option AstList
  | .nil => some .nil
  | .cons (.mk (.prim p) .literal .nil _ _) t =>
    (match astOfPrim p, listAst t with
     | some a, some as => some (.cons a as)
     | _, _ => none)
  | _ => none

/-- the kinds of range bound -/
inductive Bnd
  | star
  | int (i : Int)
  | flt (f : F64)
  | str (s : Bytes)

def bndOf : Node → Option Bnd
  | .expr (.mk (.prim (.str s)) .wild .nil _ _) => if s == [42] then some .star else none
  | .expr (.mk (.prim (.int i)) .literal .nil _ _) => some (.int i)
  | .expr (.mk (.prim (.flt f)) .literal .nil _ _) => some (.flt f)
  | .expr (.mk (.prim (.str s)) .literal .nil _ _) => some (.str s)
  | _ => none

def intAst (i : Int) : Ast := .num (decide (i < 0)) (fmtInt i.natAbs)
/-- a float range bound as `rang` prints it: `%.2f` -/
def fixedAst (f : F64) : Ast := numTextAst (fmtFixed f 2)

def loOp (incl : Bool) : CmpOp := if incl then .ge else .gt
def hiOp (incl : Bool) : CmpOp := if incl then .le else .lt

/-- renderfn.go `rang` after `rangeText`/`rangeCmp`, on the kinds of the two bounds -/
def rangeAst (x : Ast) (incl : Bool) : Bnd → Bnd → Option Ast
  | .int lo, .int hi => some (.and (.cmp (loOp incl) x (intAst lo)) (.cmp (hiOp incl) x (intAst hi)))
  | .star, .int hi => some (.cmp (hiOp incl) x (intAst hi))
  | .int lo, .star => some (.cmp (loOp incl) x (intAst lo))
  | .flt lo, .flt hi => some (.and (.cmp (loOp incl) x (fixedAst lo)) (.cmp (hiOp incl) x (fixedAst hi)))
  | .star, .flt hi => some (.cmp (hiOp incl) x (fixedAst hi))
  | .flt lo, .star => some (.cmp (loOp incl) x (fixedAst lo))
  | .str lo, .str hi => some (.between x (.str lo) (.str hi))
  | _, _ => none

/-- renderfn.go `like`: a pattern that starts and ends with `/` goes to the regular-expression operator -/
def regexLooking (p : Bytes) : Bool := decide (p.length ≥ 2) && p.head? == some 47 && p.getLast? == some 47

def cmpOfOp : Op → CmpOp
  | .greater => .gt | .less => .lt | .greaterEq => .ge | .lessEq => .le | _ => .eq

mutual
def toAstNode : Node → Option Ast
  | .expr e => toAst e
  | _ => none
/-- the AST that the text `render pgFns e` denotes, on the filterable fragment -/
def toAst : Expr → Option Ast
  | .mk l o r _ _ =>
    match o with
    | .and =>
      (match toAstNode l, toAstNode r with
       | some a, some c => some (.and a c)
       | _, _ => none)
    | .or =>
      (match toAstNode l, toAstNode r with
       | some a, some c => some (.or a c)
       | _, _ => none)
    | .not | .mustNot => (toAstNode l).map .not
    | .must => toAstNode l
    | .equals | .greater | .less | .greaterEq | .lessEq =>
      (match fieldCol l, litAst r with
       | some f, some c => some (.cmp (cmpOfOp o) (.col f) c)
       | _, _ => none)
    | .like =>
      (match fieldCol l, r with
       | some f, .expr (.mk (.prim (.str p)) .wild .nil _ _) =>
         if regexLooking p then some (.regex (.col f) (.str p))
         else some (.similar (.col f) (.str (starPattern p)))
       | _, _ => none)
    | .in_ =>
      (match fieldCol l, r with
       | some f, .expr (.mk (.list es) .list .nil _ _) =>
         (match listAst es with
          | some (.cons a t) => some (.inList (.col f) (.cons a t))
          | _ => none)
       | _, _ => none)
    | .range =>
      (match fieldCol l, r with
       | some f, .bound mn mx incl =>
         (match bndOf mn, bndOf mx with
          | some a, some c => rangeAst (.col f) incl a c
          | _, _ => none)
       | _, _ => none)
    | _ => none
end

/-! ## the fragment -/

def cleanField (l : Node) : Bool :=
  match fieldCol l with
  | some f => truncIdent f == f
  | none => false

def cleanPrim : Prim → Bool
  | .str _ => true
  | .int _ => true
  | .flt f => f.isFinite
  | _ => false

def cleanValue : Node → Bool
  | .expr (.mk (.prim p) .literal .nil _ _) => cleanPrim p
  | _ => false

def cleanItems : ExprList → Bool
  | .nil => true
  | .cons (.mk (.prim p) .literal .nil _ _) t => cleanPrim p && cleanItems t
  | _ => false

def cleanList : Node → Bool
  | .expr (.mk (.list (.cons e t)) .list .nil _ _) => cleanItems (.cons e t)
  | _ => false

def cleanPattern : Node → Bool
  | .expr (.mk (.prim (.str p)) .wild .nil _ _) =>
    !(p.any (fun c => c == 37 || c == 95)) && !similarMeta (starPattern p) && !regexLooking p
  | _ => false

/-- `%.2f` prints the float exactly: the two-decimal text denotes the same number as the float's own text -/
def twoDecExact (f : F64) : Bool :=
  match sqlValue [] (fixedAst f), valOfPrim (.flt f) with
  | some a, some c => Val.same a c
  | _, _ => false

/-- a Go `int` (the renderer re-parses the printed bound with `strconv.Atoi`) -/
def inInt64 (i : Int) : Bool := decide (-(9223372036854775808 : Int) ≤ i) && decide (i < 9223372036854775808)

def cleanBounds (incl : Bool) : Bnd → Bnd → Bool
  | .int lo, .int hi => inInt64 lo && inInt64 hi
  | .star, .int hi => inInt64 hi
  | .int lo, .star => inInt64 lo
  | .flt lo, .flt hi =>
    twoDecExact lo && twoDecExact hi && !((atoi (fmtG lo)).isSome && (atoi (fmtG hi)).isSome)
  -- open float ranges (since fix F12 `toFloats` recognises the open end `'*'`): `x <= 1.50`, `x >= 1.50`
  | .star, .flt hi => twoDecExact hi && !(atoi (fmtG hi)).isSome
  | .flt lo, .star => twoDecExact lo && !(atoi (fmtG lo)).isSome
  | .str lo, .str hi => incl && lo != [42] && hi != [42] && !lo.contains 44 && !hi.contains 44
  | _, _ => false

def cleanRange : Node → Bool
  | .bound mn mx incl =>
    (match bndOf mn, bndOf mx with
     | some a, some c => cleanBounds incl a c
     | _, _ => false)
  | _ => false

mutual
def cleanNode : Node → Bool
  | .expr e => cleanFilter e
  | _ => false
/-- the clean filterable fragment -/
def cleanFilter : Expr → Bool
  | .mk l o r _ _ =>
    match o with
    | .and | .or => cleanNode l && cleanNode r
    | .not | .mustNot | .must => cleanNode l && r.isNil
    | .equals | .greater | .less | .greaterEq | .lessEq => cleanField l && cleanValue r
    | .like => cleanField l && cleanPattern r
    | .in_ => cleanField l && cleanList r
    | .range => cleanField l && cleanRange r
    | _ => false
end


/-! ## inversion lemmas -/

theorem fieldCol_inv {l : Node} {f : Bytes} (h : fieldCol l = some f) :
    ∃ p d, l = .expr (.mk (.prim (.col f)) .literal .nil p d) := by
  unfold fieldCol at h
  split at h
  · cases h; exact ⟨_, _, rfl⟩
  · cases h

theorem litAst_inv {r : Node} {c : Ast} (h : litAst r = some c) :
    ∃ q p d, r = .expr (.mk (.prim q) .literal .nil p d) ∧ astOfPrim q = some c := by
  unfold litAst at h
  split at h
  · exact ⟨_, _, _, rfl, h⟩
  · cases h

theorem litAst_value (row : Row) {r : Node} {c : Ast} (h : litAst r = some c) : sqlValue row c = leafVal r := by
  obtain ⟨q, p, d, rfl, hq⟩ := litAst_inv h
  rw [sqlValue_astOfPrim row q c hq]; rfl

theorem cleanField_inv {l : Node} (h : cleanField l = true) :
    ∃ f, fieldCol l = some f ∧ fieldOfNode l = some f ∧ truncIdent f = f := by
  unfold cleanField at h
  split at h
  · rename_i f hf
    obtain ⟨p, d, rfl⟩ := fieldCol_inv hf
    exact ⟨f, hf, rfl, by simpa using h⟩
  · cases h

/-! ## comparisons -/

theorem sqlValue_col (row : Row) (f : Bytes) : sqlValue row (.col f) = row.get (truncIdent f) := rfl
theorem sqlValue_str (row : Row) (s : Bytes) : sqlValue row (.str s) = some (.str s) := rfl

theorem cmp_means (row : Row) (l r : Node) (o : Op) (p : F64) (d : Int) (f : Bytes) (c : Ast)
    (ho : o = .equals ∨ o = .greater ∨ o = .less ∨ o = .greaterEq ∨ o = .lessEq)
    (hf : fieldOfNode l = some f) (ht : truncIdent f = f) (hc : litAst r = some c) :
    evalSql row (.cmp (cmpOfOp o) (.col f) c) = evalL row (.mk l o r p d) := by
  have hv := litAst_value row hc
  rcases ho with rfl | rfl | rfl | rfl | rfl <;>
  · simp only [evalSql, evalL, sqlValue_col, ht, hf, hv, cmpOfOp]
    cases h1 : row.get f <;> cases h2 : leafVal r <;> simp [h1]


/-! ## value lists: `IN` is the disjunction of the equalities, on both sides -/

/-- the disjunction of `v = c` over the list, undefined as soon as one comparison is -/
def inR (v : Val) : List Val → Option Bool
  | [] => some false
  | c :: t =>
    match v.cmp c, inR v t with
    | some o, some rest => some (o == .eq || rest)
    | _, _ => none

def inStep (v : Val) (acc : Option Bool) (c : Val) : Option Bool :=
  match acc, v.cmp c with
  | some a, some o => some (a || o == .eq)
  | _, _ => none

theorem foldl_inStep_none (v : Val) (vs : List Val) : vs.foldl (inStep v) none = none := by
  induction vs with
  | nil => rfl
  | cons c t ih => simpa [inStep] using ih

theorem foldl_inStep (v : Val) (vs : List Val) (a : Bool) :
    vs.foldl (inStep v) (some a) = (inR v vs).map (fun r => a || r) := by
  induction vs generalizing a with
  | nil => simp [inR]
  | cons c t ih =>
    simp only [List.foldl_cons, inStep, inR]
    cases hc : v.cmp c with
    | none => simp [foldl_inStep_none]
    | some o =>
      simp only []
      rw [ih]
      cases inR v t <;> simp [Bool.or_assoc]

theorem evalIn_listAst (row : Row) (v : Val) : ∀ (es : ExprList) (items : AstList), listAst es = some items →
    evalIn row v items = (listVals es).bind (inR v)
  | .nil, items, h => by
    simp [listAst] at h; subst h; simp [evalIn, listVals, inR]
  | .cons e t, items, h => by
    unfold listAst at h
    split at h
    · rename_i heq; cases heq
    · rename_i p b fz t' heq
      cases heq
      split at h
      · rename_i a as ha has
        cases h
        have ih := evalIn_listAst row v t as has
        have hv := sqlValue_astOfPrim row p a ha
        simp only [evalIn, listVals, hv, ih]
        cases valOfPrim p <;> cases listVals t <;> simp [inR]
        rename_i c vs
        cases hcmp : v.cmp c <;> cases hin : inR v vs <;> simp [hcmp]
      · cases h
    · cases h

theorem in_means (row : Row) (l : Node) (es : ExprList) (p p' : F64) (d d' : Int) (f : Bytes) (items : AstList)
    (hf : fieldOfNode l = some f) (ht : truncIdent f = f) (hl : listAst es = some items) :
    evalSql row (.inList (.col f) items) = evalL row (.mk l .in_ (.expr (.mk (.list es) .list .nil p' d')) p d) := by
  simp only [evalSql, evalL, sqlValue_col, ht, hf]
  cases h1 : row.get f with
  | none => simp
  | some v =>
    simp only [evalIn_listAst row v es items hl]
    cases h2 : listVals es with
    | none => simp
    | some vs =>
      have := foldl_inStep v vs false
      simp only [Bool.false_or] at this
      simp only [Option.bind_some]
      show inR v vs = List.foldl (inStep v) (some false) vs
      rw [this]; cases inR v vs <;> rfl


/-! ## patterns -/

theorem like_means (row : Row) (l : Node) (p p' : F64) (d d' : Int) (f pat : Bytes)
    (hf : fieldOfNode l = some f) (ht : truncIdent f = f)
    (hb : pat.any (fun c => c == 37 || c == 95) = false) (hm : similarMeta (starPattern pat) = false) :
    evalSql row (.similar (.col f) (.str (starPattern pat))) =
      evalL row (.mk l .like (.expr (.mk (.prim (.str pat)) .wild .nil p' d')) p d) := by
  have h37 : ∀ c ∈ pat, c ≠ 37 := by
    intro c hc e; subst e
    have := List.any_eq_false.mp hb 37 hc
    simp at this
  have h95 : ∀ c ∈ pat, c ≠ 95 := by
    intro c hc e; subst e
    have := List.any_eq_false.mp hb 95 hc
    simp at this
  simp only [evalSql, evalL, sqlValue_col, ht, hf]
  cases h1 : row.get f with
  | none => simp
  | some v =>
    cases v with
    | num m e => simp
    | str s => simp [hm, globOn_starPattern pat s h37 h95]

/-! ## ranges -/

def lowerM (v : Val) (incl : Bool) (mn : Node) : Option Bool :=
  if isStarNode mn then some true
  else (leafVal mn).bind (fun c => (v.cmp c).map (fun o => if incl then o != .lt else o == .gt))

def upperM (v : Val) (incl : Bool) (mx : Node) : Option Bool :=
  if isStarNode mx then some true
  else (leafVal mx).bind (fun c => (v.cmp c).map (fun o => if incl then o != .gt else o == .lt))

theorem evalL_range (row : Row) (l mn mx : Node) (incl : Bool) (p : F64) (d : Int) (f : Bytes)
    (hf : fieldOfNode l = some f) :
    evalL row (.mk l .range (.bound mn mx incl) p d) =
      match row.get f with
      | some v =>
        (match lowerM v incl mn, upperM v incl mx with
         | some a, some c => some (a && c)
         | _, _ => none)
      | none => none := by
  simp only [evalL, hf, lowerM, upperM]
  cases row.get f <;> rfl

theorem bndOf_star {n : Node} (h : bndOf n = some .star) : isStarNode n = true := by
  unfold bndOf at h
  split at h
  · split at h
    · rename_i hs; simpa [isStarNode] using hs
    · cases h
  all_goals cases h

theorem bndOf_int {n : Node} {i : Int} (h : bndOf n = some (.int i)) :
    isStarNode n = false ∧ leafVal n = some (.num i 0) := by
  unfold bndOf at h
  split at h
  · split at h <;> cases h
  · cases h; exact ⟨rfl, rfl⟩
  all_goals cases h

theorem bndOf_flt {n : Node} {f : F64} (h : bndOf n = some (.flt f)) :
    isStarNode n = false ∧ leafVal n = valOfPrim (.flt f) := by
  unfold bndOf at h
  split at h
  · split at h <;> cases h
  · cases h
  · cases h; exact ⟨rfl, rfl⟩
  all_goals cases h

theorem bndOf_str {n : Node} {s : Bytes} (h : bndOf n = some (.str s)) :
    isStarNode n = false ∧ leafVal n = some (.str s) := by
  unfold bndOf at h
  split at h
  · split at h <;> cases h
  · cases h
  · cases h
  · cases h; exact ⟨rfl, rfl⟩
  · cases h


theorem cmpDec_refl (m e : Int) : cmpDec m e m e = .eq := by
  rw [cmpDec_scaled m e m e e (Int.le_refl _) (Int.le_refl _), Int.compare_eq_eq]

theorem Val.same_refl (v : Val) : Val.same v v = true := by
  cases v <;> simp [Val.same, cmpDec_refl]

theorem cmp_lower (row : Row) (f : Bytes) (ca : Ast) (v a c : Val) (incl : Bool) (mn : Node)
    (ht : truncIdent f = f) (hg : row.get f = some v) (hs : sqlValue row ca = some a)
    (hl : leafVal mn = some c) (hsame : Val.same a c = true) (hstar : isStarNode mn = false) :
    evalSql row (.cmp (loOp incl) (.col f) ca) = lowerM v incl mn := by
  simp only [evalSql, sqlValue_col, ht, hg, hs, lowerM, hstar, hl, Val.cmp_same v a c hsame,
    Bool.false_eq_true, ↓reduceIte, Option.bind_some]
  cases incl <;> cases v.cmp c <;> simp [loOp, cmpHolds]

theorem cmp_upper (row : Row) (f : Bytes) (ca : Ast) (v a c : Val) (incl : Bool) (mx : Node)
    (ht : truncIdent f = f) (hg : row.get f = some v) (hs : sqlValue row ca = some a)
    (hl : leafVal mx = some c) (hsame : Val.same a c = true) (hstar : isStarNode mx = false) :
    evalSql row (.cmp (hiOp incl) (.col f) ca) = upperM v incl mx := by
  simp only [evalSql, sqlValue_col, ht, hg, hs, upperM, hstar, hl, Val.cmp_same v a c hsame,
    Bool.false_eq_true, ↓reduceIte, Option.bind_some]
  cases incl <;> cases v.cmp c <;> simp [hiOp, cmpHolds]

theorem cmp_nofield (row : Row) (f : Bytes) (op : CmpOp) (ca : Ast)
    (ht : truncIdent f = f) (hg : row.get f = none) : evalSql row (.cmp op (.col f) ca) = none := by
  simp only [evalSql, sqlValue_col, ht, hg]

theorem sqlValue_numText_row (row : Row) (t : Bytes) : sqlValue row (numTextAst t) = sqlValue [] (numTextAst t) := by
  unfold numTextAst; split <;> rfl

theorem twoDec_inv (row : Row) (f : F64) (h : twoDecExact f = true) :
    ∃ a c, sqlValue row (fixedAst f) = some a ∧ valOfPrim (.flt f) = some c ∧ Val.same a c = true := by
  unfold twoDecExact at h
  split at h
  · rename_i a c ha hc
    refine ⟨a, c, ?_, hc, h⟩
    unfold fixedAst at ha ⊢
    rw [sqlValue_numText_row]; exact ha
  · cases h

/-- a bound given by a constant: what PostgreSQL reads is (a representation of) the value of the bound -/
structure BndConst (row : Row) (n : Node) (ca : Ast) : Prop where
  ex : ∃ a c, sqlValue row ca = some a ∧ leafVal n = some c ∧ Val.same a c = true
  ns : isStarNode n = false

theorem evalSql_and (row : Row) (a c : Ast) : evalSql row (.and a c) =
    match evalSql row a, evalSql row c with
    | some x, some y => some (x && y)
    | _, _ => none := by
  simp only [evalSql]; cases evalSql row a <;> cases evalSql row c <;> rfl

theorem evalSql_or (row : Row) (a c : Ast) : evalSql row (.or a c) =
    match evalSql row a, evalSql row c with
    | some x, some y => some (x || y)
    | _, _ => none := by
  simp only [evalSql]; cases evalSql row a <;> cases evalSql row c <;> rfl

theorem evalSql_not (row : Row) (a : Ast) : evalSql row (.not a) = (evalSql row a).map (!·) := by
  simp only [evalSql]

theorem two_sided (row : Row) (l mn mx : Node) (incl : Bool) (p : F64) (d : Int) (f : Bytes) (ca cc : Ast)
    (hf : fieldOfNode l = some f) (ht : truncIdent f = f)
    (h1 : BndConst row mn ca) (h2 : BndConst row mx cc) :
    evalSql row (.and (.cmp (loOp incl) (.col f) ca) (.cmp (hiOp incl) (.col f) cc)) =
      evalL row (.mk l .range (.bound mn mx incl) p d) := by
  rw [evalL_range row l mn mx incl p d f hf]
  obtain ⟨⟨a1, c1, hs1, hl1, hm1⟩, hn1⟩ := h1
  obtain ⟨⟨a2, c2, hs2, hl2, hm2⟩, hn2⟩ := h2
  cases hg : row.get f with
  | none => rw [evalSql_and, cmp_nofield row f _ _ ht hg]
  | some v =>
    rw [evalSql_and, cmp_lower row f ca v a1 c1 incl mn ht hg hs1 hl1 hm1 hn1,
      cmp_upper row f cc v a2 c2 incl mx ht hg hs2 hl2 hm2 hn2]

theorem upper_only (row : Row) (l mn mx : Node) (incl : Bool) (p : F64) (d : Int) (f : Bytes) (cc : Ast)
    (hf : fieldOfNode l = some f) (ht : truncIdent f = f)
    (h1 : isStarNode mn = true) (h2 : BndConst row mx cc) :
    evalSql row (.cmp (hiOp incl) (.col f) cc) = evalL row (.mk l .range (.bound mn mx incl) p d) := by
  rw [evalL_range row l mn mx incl p d f hf]
  obtain ⟨⟨a2, c2, hs2, hl2, hm2⟩, hn2⟩ := h2
  cases hg : row.get f with
  | none => simp only [cmp_nofield row f _ _ ht hg]
  | some v =>
    simp only [cmp_upper row f cc v a2 c2 incl mx ht hg hs2 hl2 hm2 hn2, lowerM, h1, ↓reduceIte]
    cases upperM v incl mx <;> simp

theorem lower_only (row : Row) (l mn mx : Node) (incl : Bool) (p : F64) (d : Int) (f : Bytes) (ca : Ast)
    (hf : fieldOfNode l = some f) (ht : truncIdent f = f)
    (h1 : BndConst row mn ca) (h2 : isStarNode mx = true) :
    evalSql row (.cmp (loOp incl) (.col f) ca) = evalL row (.mk l .range (.bound mn mx incl) p d) := by
  rw [evalL_range row l mn mx incl p d f hf]
  obtain ⟨⟨a1, c1, hs1, hl1, hm1⟩, hn1⟩ := h1
  cases hg : row.get f with
  | none => simp only [cmp_nofield row f _ _ ht hg]
  | some v =>
    simp only [cmp_lower row f ca v a1 c1 incl mn ht hg hs1 hl1 hm1 hn1, upperM, h2, ↓reduceIte]
    cases lowerM v incl mn <;> simp

/-- `BETWEEN` is the conjunction of the two inclusive comparisons -/
theorem between_means (row : Row) (l mn mx : Node) (p : F64) (d : Int) (f lo hi : Bytes)
    (hf : fieldOfNode l = some f) (ht : truncIdent f = f)
    (h1 : isStarNode mn = false ∧ leafVal mn = some (.str lo))
    (h2 : isStarNode mx = false ∧ leafVal mx = some (.str hi)) :
    evalSql row (.between (.col f) (.str lo) (.str hi)) = evalL row (.mk l .range (.bound mn mx true) p d) := by
  rw [evalL_range row l mn mx true p d f hf]
  simp only [evalSql, sqlValue_col, sqlValue_str, ht, lowerM, upperM, h1.1, h1.2, h2.1, h2.2]
  cases hg : row.get f with
  | none => rfl
  | some v =>
    simp only [Bool.false_eq_true, ↓reduceIte, Option.bind_some]
    cases e1 : v.cmp (.str lo) <;> cases e2 : v.cmp (.str hi) <;> simp

theorem bndConst_int (row : Row) {n : Node} {i : Int} (h : bndOf n = some (.int i)) :
    BndConst row n (intAst i) := by
  have := bndOf_int h
  exact ⟨⟨_, _, sqlValue_int row i, this.2, Val.same_refl _⟩, this.1⟩

theorem bndConst_flt (row : Row) {n : Node} {f : F64} (h : bndOf n = some (.flt f)) (h2 : twoDecExact f = true) :
    BndConst row n (fixedAst f) := by
  have := bndOf_flt h
  obtain ⟨a, c, h1, h3, h4⟩ := twoDec_inv row f h2
  exact ⟨⟨a, c, h1, this.2.trans h3, h4⟩, this.1⟩

theorem range_means (row : Row) (l mn mx : Node) (incl : Bool) (p : F64) (d : Int) (f : Bytes) (a c : Bnd) (ast : Ast)
    (hf : fieldOfNode l = some f) (ht : truncIdent f = f)
    (ha : bndOf mn = some a) (hc : bndOf mx = some c)
    (hclean : cleanBounds incl a c = true) (hast : rangeAst (.col f) incl a c = some ast) :
    evalSql row ast = evalL row (.mk l .range (.bound mn mx incl) p d) := by
  cases a <;> cases c <;> simp only [cleanBounds, rangeAst, Bool.false_eq_true] at hclean hast
  · -- star, int
    cases hast
    exact upper_only row l mn mx incl p d f _ hf ht (bndOf_star ha) (bndConst_int row hc)
  · -- star, flt
    cases hast
    simp only [Bool.and_eq_true] at hclean
    exact upper_only row l mn mx incl p d f _ hf ht (bndOf_star ha) (bndConst_flt row hc hclean.1)
  · cases hast
    exact lower_only row l mn mx incl p d f _ hf ht (bndConst_int row ha) (bndOf_star hc)
  · cases hast
    exact two_sided row l mn mx incl p d f _ _ hf ht (bndConst_int row ha) (bndConst_int row hc)
  · -- flt, star
    cases hast
    simp only [Bool.and_eq_true] at hclean
    exact lower_only row l mn mx incl p d f _ hf ht (bndConst_flt row ha hclean.1) (bndOf_star hc)
  · cases hast
    simp only [Bool.and_eq_true] at hclean
    exact two_sided row l mn mx incl p d f _ _ hf ht (bndConst_flt row ha hclean.1.1) (bndConst_flt row hc hclean.1.2)
  · cases hast
    simp only [Bool.and_eq_true] at hclean
    have hi : incl = true := hclean.1.1.1.1
    subst hi
    exact between_means row l mn mx p d f _ _ hf ht (bndOf_str ha) (bndOf_str hc)


/-! ## the main theorem -/

theorem cleanPattern_inv {r : Node} (h : cleanPattern r = true) :
    ∃ pat p d, r = .expr (.mk (.prim (.str pat)) .wild .nil p d) ∧
      pat.any (fun c => c == 37 || c == 95) = false ∧ similarMeta (starPattern pat) = false ∧
      regexLooking pat = false := by
  unfold cleanPattern at h
  split at h
  · simp only [Bool.and_eq_true, Bool.not_eq_true'] at h
    exact ⟨_, _, _, rfl, h.1.1, h.1.2, h.2⟩
  · cases h

theorem cleanList_inv {r : Node} (h : cleanList r = true) :
    ∃ e t p d, r = .expr (.mk (.list (.cons e t)) .list .nil p d) := by
  unfold cleanList at h
  split at h
  · exact ⟨_, _, _, _, rfl⟩
  · cases h

theorem cleanRange_inv {r : Node} (h : cleanRange r = true) :
    ∃ mn mx incl a c, r = .bound mn mx incl ∧ bndOf mn = some a ∧ bndOf mx = some c ∧ cleanBounds incl a c = true := by
  unfold cleanRange at h
  split at h
  · split at h
    · rename_i a c ha hc
      exact ⟨_, _, _, a, c, rfl, ha, hc, h⟩
    · cases h
  · cases h

mutual
theorem means_node : ∀ (n : Node) (a : Ast) (row : Row),
    cleanNode n = true → toAstNode n = some a → evalSql row a = evalLNode row n
  | .expr e, a, row, hc, ha => by
    simp only [cleanNode] at hc
    simp only [toAstNode] at ha
    simp only [evalLNode]
    exact means_expr e a row hc ha
  | .nil, _, _, hc, _ => by simp [cleanNode] at hc
  | .prim _, _, _, hc, _ => by simp [cleanNode] at hc
  | .list _, _, _, hc, _ => by simp [cleanNode] at hc
  | .bound _ _ _, _, _, hc, _ => by simp [cleanNode] at hc
theorem means_expr : ∀ (e : Expr) (a : Ast) (row : Row),
    cleanFilter e = true → toAst e = some a → evalSql row a = evalL row e
  | .mk l o r p d, a, row, hc, ha => by
    cases o
    case and =>
      simp only [cleanFilter, Bool.and_eq_true] at hc
      simp only [toAst] at ha
      split at ha
      · rename_i x y hx hy
        cases ha
        rw [evalSql_and, means_node l x row hc.1 hx, means_node r y row hc.2 hy]
        simp only [evalL]
        cases evalLNode row l <;> cases evalLNode row r <;> rfl
      · cases ha
    case or =>
      simp only [cleanFilter, Bool.and_eq_true] at hc
      simp only [toAst] at ha
      split at ha
      · rename_i x y hx hy
        cases ha
        rw [evalSql_or, means_node l x row hc.1 hx, means_node r y row hc.2 hy]
        simp only [evalL]
        cases evalLNode row l <;> cases evalLNode row r <;> rfl
      · cases ha
    case not =>
      simp only [cleanFilter, Bool.and_eq_true] at hc
      simp only [toAst] at ha
      cases hx : toAstNode l with
      | none => simp [hx] at ha
      | some x =>
        simp only [hx, Option.map_some, Option.some.injEq] at ha
        subst ha
        rw [evalSql_not, means_node l x row hc.1 hx]
        simp only [evalL]
    case mustNot =>
      simp only [cleanFilter, Bool.and_eq_true] at hc
      simp only [toAst] at ha
      cases hx : toAstNode l with
      | none => simp [hx] at ha
      | some x =>
        simp only [hx, Option.map_some, Option.some.injEq] at ha
        subst ha
        rw [evalSql_not, means_node l x row hc.1 hx]
        simp only [evalL]
    case must =>
      simp only [cleanFilter, Bool.and_eq_true] at hc
      simp only [toAst] at ha
      rw [means_node l a row hc.1 ha]
      simp only [evalL]
    case equals =>
      simp only [cleanFilter, Bool.and_eq_true] at hc
      obtain ⟨f, hfc, hf, ht⟩ := cleanField_inv hc.1
      simp only [toAst, hfc] at ha
      split at ha
      · rename_i f' c hf' hcst
        cases hf'; cases ha
        exact cmp_means row l r .equals p d f c (by simp) hf ht hcst
      · cases ha
    case greater =>
      simp only [cleanFilter, Bool.and_eq_true] at hc
      obtain ⟨f, hfc, hf, ht⟩ := cleanField_inv hc.1
      simp only [toAst, hfc] at ha
      split at ha
      · rename_i f' c hf' hcst
        cases hf'; cases ha
        exact cmp_means row l r .greater p d f c (by simp) hf ht hcst
      · cases ha
    case less =>
      simp only [cleanFilter, Bool.and_eq_true] at hc
      obtain ⟨f, hfc, hf, ht⟩ := cleanField_inv hc.1
      simp only [toAst, hfc] at ha
      split at ha
      · rename_i f' c hf' hcst
        cases hf'; cases ha
        exact cmp_means row l r .less p d f c (by simp) hf ht hcst
      · cases ha
    case greaterEq =>
      simp only [cleanFilter, Bool.and_eq_true] at hc
      obtain ⟨f, hfc, hf, ht⟩ := cleanField_inv hc.1
      simp only [toAst, hfc] at ha
      split at ha
      · rename_i f' c hf' hcst
        cases hf'; cases ha
        exact cmp_means row l r .greaterEq p d f c (by simp) hf ht hcst
      · cases ha
    case lessEq =>
      simp only [cleanFilter, Bool.and_eq_true] at hc
      obtain ⟨f, hfc, hf, ht⟩ := cleanField_inv hc.1
      simp only [toAst, hfc] at ha
      split at ha
      · rename_i f' c hf' hcst
        cases hf'; cases ha
        exact cmp_means row l r .lessEq p d f c (by simp) hf ht hcst
      · cases ha
    case like =>
      simp only [cleanFilter, Bool.and_eq_true] at hc
      obtain ⟨f, hfc, hf, ht⟩ := cleanField_inv hc.1
      obtain ⟨pat, p', d', rfl, hb, hm, hre⟩ := cleanPattern_inv hc.2
      simp only [toAst, hfc, hre, Bool.false_eq_true, ↓reduceIte, Option.some.injEq] at ha
      subst ha
      exact like_means row l p p' d d' f pat hf ht hb hm
    case in_ =>
      simp only [cleanFilter, Bool.and_eq_true] at hc
      obtain ⟨f, hfc, hf, ht⟩ := cleanField_inv hc.1
      obtain ⟨e, t, p', d', rfl⟩ := cleanList_inv hc.2
      simp only [toAst, hfc] at ha
      split at ha
      · rename_i x as hl
        cases ha
        exact in_means row l _ p p' d d' f _ hf ht hl
      · cases ha
    case range =>
      simp only [cleanFilter, Bool.and_eq_true] at hc
      obtain ⟨f, hfc, hf, ht⟩ := cleanField_inv hc.1
      obtain ⟨mn, mx, incl, ba, bc, rfl, hba, hbc, hcl⟩ := cleanRange_inv hc.2
      simp only [toAst, hfc, hba, hbc] at ha
      exact range_means row l mn mx incl p d f ba bc a hf ht hba hbc hcl ha
    all_goals simp [cleanFilter] at hc
end

/-- MAIN THEOREM (C03, semantic core): on the clean filterable fragment, the predicate PostgreSQL reads is true on
    exactly the rows on which the query is true — and undefined on exactly the rows on which the query is. -/
theorem sql_means_query (e : Expr) (a : Ast) (hc : cleanFilter e = true) (ha : toAst e = some a) :
    ∀ row : Row, evalSql row a = evalL row e :=
  fun row => means_expr e a row hc ha


/-! ## `toAst` is defined on the whole fragment -/

theorem cleanValue_litAst {r : Node} (h : cleanValue r = true) : ∃ c, litAst r = some c := by
  unfold cleanValue at h
  split at h
  · rename_i q _ _
    cases q <;> simp [cleanPrim] at h
    · exact ⟨_, rfl⟩
    · exact ⟨_, rfl⟩
    · exact ⟨_, astOfPrim_flt _⟩
  · cases h

theorem cleanItems_listAst : ∀ es : ExprList, cleanItems es = true → ∃ items, listAst es = some items
  | .nil, _ => ⟨.nil, rfl⟩
  | .cons e t, h => by
    unfold cleanItems at h
    split at h
    · rename_i heq; cases heq
    · rename_i q b fz t' heq
      cases heq
      simp only [Bool.and_eq_true] at h
      obtain ⟨items, hi⟩ := cleanItems_listAst t h.2
      have : ∃ c, astOfPrim q = some c := by
        cases q <;> simp [cleanPrim] at h
        · exact ⟨_, rfl⟩
        · exact ⟨_, rfl⟩
        · exact ⟨_, astOfPrim_flt _⟩
      obtain ⟨c, hc⟩ := this
      exact ⟨.cons c items, by simp [listAst, hc, hi]⟩
    · cases h

mutual
theorem total_node : ∀ n : Node, cleanNode n = true → ∃ a, toAstNode n = some a
  | .expr e, h => by
    simp only [cleanNode] at h
    simpa only [toAstNode] using total_expr e h
  | .nil, h => by simp [cleanNode] at h
  | .prim _, h => by simp [cleanNode] at h
  | .list _, h => by simp [cleanNode] at h
  | .bound _ _ _, h => by simp [cleanNode] at h
theorem total_expr : ∀ e : Expr, cleanFilter e = true → ∃ a, toAst e = some a
  | .mk l o r p d, hc => by
    cases o
    case and =>
      simp only [cleanFilter, Bool.and_eq_true] at hc
      obtain ⟨x, hx⟩ := total_node l hc.1
      obtain ⟨y, hy⟩ := total_node r hc.2
      exact ⟨_, by simp only [toAst, hx, hy]; rfl⟩
    case or =>
      simp only [cleanFilter, Bool.and_eq_true] at hc
      obtain ⟨x, hx⟩ := total_node l hc.1
      obtain ⟨y, hy⟩ := total_node r hc.2
      exact ⟨_, by simp only [toAst, hx, hy]; rfl⟩
    case not =>
      simp only [cleanFilter, Bool.and_eq_true] at hc
      obtain ⟨x, hx⟩ := total_node l hc.1
      exact ⟨_, by simp only [toAst, hx, Option.map_some]; rfl⟩
    case mustNot =>
      simp only [cleanFilter, Bool.and_eq_true] at hc
      obtain ⟨x, hx⟩ := total_node l hc.1
      exact ⟨_, by simp only [toAst, hx, Option.map_some]; rfl⟩
    case must =>
      simp only [cleanFilter, Bool.and_eq_true] at hc
      obtain ⟨x, hx⟩ := total_node l hc.1
      exact ⟨_, by simp only [toAst, hx]; rfl⟩
    case equals =>
      simp only [cleanFilter, Bool.and_eq_true] at hc
      obtain ⟨f, hfc, _, _⟩ := cleanField_inv hc.1
      obtain ⟨c, hcst⟩ := cleanValue_litAst hc.2
      exact ⟨_, by simp only [toAst, hfc, hcst]; rfl⟩
    case greater =>
      simp only [cleanFilter, Bool.and_eq_true] at hc
      obtain ⟨f, hfc, _, _⟩ := cleanField_inv hc.1
      obtain ⟨c, hcst⟩ := cleanValue_litAst hc.2
      exact ⟨_, by simp only [toAst, hfc, hcst]; rfl⟩
    case less =>
      simp only [cleanFilter, Bool.and_eq_true] at hc
      obtain ⟨f, hfc, _, _⟩ := cleanField_inv hc.1
      obtain ⟨c, hcst⟩ := cleanValue_litAst hc.2
      exact ⟨_, by simp only [toAst, hfc, hcst]; rfl⟩
    case greaterEq =>
      simp only [cleanFilter, Bool.and_eq_true] at hc
      obtain ⟨f, hfc, _, _⟩ := cleanField_inv hc.1
      obtain ⟨c, hcst⟩ := cleanValue_litAst hc.2
      exact ⟨_, by simp only [toAst, hfc, hcst]; rfl⟩
    case lessEq =>
      simp only [cleanFilter, Bool.and_eq_true] at hc
      obtain ⟨f, hfc, _, _⟩ := cleanField_inv hc.1
      obtain ⟨c, hcst⟩ := cleanValue_litAst hc.2
      exact ⟨_, by simp only [toAst, hfc, hcst]; rfl⟩
    case like =>
      simp only [cleanFilter, Bool.and_eq_true] at hc
      obtain ⟨f, hfc, _, _⟩ := cleanField_inv hc.1
      obtain ⟨pat, p', d', rfl, _, _, hre⟩ := cleanPattern_inv hc.2
      exact ⟨_, by simp only [toAst, hfc, hre, Bool.false_eq_true, ↓reduceIte]; rfl⟩
    case in_ =>
      simp only [cleanFilter, Bool.and_eq_true] at hc
      obtain ⟨f, hfc, _, _⟩ := cleanField_inv hc.1
      obtain ⟨e, t, p', d', rfl⟩ := cleanList_inv hc.2
      have hcl : cleanItems (.cons e t) = true := by simpa [cleanList] using hc.2
      obtain ⟨items, hi⟩ := cleanItems_listAst _ hcl
      cases items with
      | nil =>
        exfalso
        unfold listAst at hi
        split at hi
        · rename_i heq; cases heq
        · split at hi <;> cases hi
        · cases hi
      | cons x xs => exact ⟨_, by simp only [toAst, hfc, hi]; rfl⟩
    case range =>
      simp only [cleanFilter, Bool.and_eq_true] at hc
      obtain ⟨f, hfc, _, _⟩ := cleanField_inv hc.1
      obtain ⟨mn, mx, incl, ba, bc, rfl, hba, hbc, hcl⟩ := cleanRange_inv hc.2
      simp only [toAst, hfc, hba, hbc]
      cases ba <;> cases bc <;> simp [cleanBounds] at hcl <;> exact ⟨_, rfl⟩
    all_goals simp [cleanFilter] at hc
end

/-- on the fragment the translation is defined -/
theorem toAst_total (e : Expr) (h : cleanFilter e = true) : ∃ a, toAst e = some a := total_expr e h

/-! ## non-vacuity -/

def exField (f : Bytes) : Node := .expr (lit (.prim (.col f)))
def exLit (p : Prim) : Node := .expr (lit (.prim p))

/-- `a:x AND n:[-3 TO 5] AND c:(1 OR y) AND NOT b:f*o?` -/
def exTree : Expr :=
  .mk
    (.expr (.mk
      (.expr (.mk (exField [97]) .equals (exLit (.str [120])) F64.one 1)) .and
      (.expr (.mk (exField [110]) .range (.bound (exLit (.int (-3))) (exLit (.int 5)) true) F64.one 1)) F64.one 1))
    .and
    (.expr (.mk
      (.expr (.mk (exField [99]) .in_
        (.expr (mkList (.cons (lit (.prim (.int 1))) (.cons (lit (.prim (.str [121]))) .nil)))) F64.one 1)) .and
      (.expr (.mk
        (.expr (.mk (exField [98]) .like (.expr (mkLeaf (.prim (.str [102, 42, 111, 63])) .wild)) F64.one 1))
        .not .nil F64.one 1)) F64.one 1))
    F64.one 1

example : cleanFilter exTree = true := by decide

example : toAst exTree = some
    (.and
      (.and (.cmp .eq (.col [97]) (.str [120]))
        (.and (.cmp .ge (.col [110]) (.num true [51])) (.cmp .le (.col [110]) (.num false [53]))))
      (.and (.inList (.col [99]) (.cons (.num false [49]) (.cons (.str [121]) .nil)))
        (.not (.similar (.col [98]) (.str [102, 37, 111, 95]))))) := by rfl

def f15 : F64 := ⟨0x3FF8000000000000⟩      -- 1.5
def f225 : F64 := ⟨0x4002000000000000⟩     -- 2.25
def f0001 : F64 := ⟨0x3F50624DD2F1A9FC⟩    -- 0.001
def f0002 : F64 := ⟨0x3F60624DD2F1A9FC⟩    -- 0.002

/-- `x:{1.5 TO 2.25}` -/
def exFloat : Expr := .mk (exField [120]) .range (.bound (exLit (.flt f15)) (exLit (.flt f225)) false) F64.one 1

example : cleanFilter exFloat = true := by decide +kernel
example : (toAst exFloat == some (.and (.cmp .gt (.col [120]) (.num false [49, 46, 53, 48]))
    (.cmp .lt (.col [120]) (.num false [50, 46, 50, 53])))) = true := by decide +kernel

/-- the open end `*` of a range -/
def exStar : Node := .expr (mkLeaf (.prim (.str [42])) .wild)

/-- `x:[* TO 1.5]`: an OPEN float range (since fix F12 `rang` prints `"x" <= 1.50`, no longer BETWEEN '*' AND 1.5) -/
def exFloatUpTo : Expr := .mk (exField [120]) .range (.bound exStar (exLit (.flt f15)) true) F64.one 1
/-- `x:{2.25 TO *}` -/
def exFloatFrom : Expr := .mk (exField [120]) .range (.bound (exLit (.flt f225)) exStar false) F64.one 1

example : cleanFilter exFloatUpTo = true := by decide +kernel
example : cleanFilter exFloatFrom = true := by decide +kernel
example : (toAst exFloatUpTo == some (.cmp .le (.col [120]) (.num false [49, 46, 53, 48]))) = true := by decide +kernel
example : (toAst exFloatFrom == some (.cmp .gt (.col [120]) (.num false [50, 46, 50, 53]))) = true := by decide +kernel
/-- the rendered text of the two open float ranges: `"x" <= 1.50` and `"x" > 2.25` -/
example : (render pgFns exFloatUpTo == .ok [34, 120, 34, 32, 60, 61, 32, 49, 46, 53, 48]) = true := by decide +kernel
example : (render pgFns exFloatFrom == .ok [34, 120, 34, 32, 62, 32, 50, 46, 50, 53]) = true := by decide +kernel

/-- sanity check of the mirror (not part of the theorem): PostgreSQL's grammar reads the rendered text of the
    examples as exactly `toAst` -/
example : (match render pgFns exTree with | .ok t => parseSql t == toAst exTree | _ => false) = true := by
  decide +kernel
example : (match render pgFns exFloat with | .ok t => parseSql t == toAst exFloat | _ => false) = true := by
  decide +kernel
example : (match render pgFns exFloatUpTo with | .ok t => parseSql t == toAst exFloatUpTo | _ => false) = true := by
  decide +kernel
example : (match render pgFns exFloatFrom with | .ok t => parseSql t == toAst exFloatFrom | _ => false) = true := by
  decide +kernel

/-! ## the exclusions are needed -/

/-- a field name of 64 bytes: PostgreSQL truncates the column reference -/
def cexLong : Expr := .mk (exField (List.replicate 64 97)) .equals (exLit (.int 1)) F64.one 1
theorem need_trunc : cleanFilter cexLong = false ∧ ∃ a, toAst cexLong = some a ∧
    evalSql [(List.replicate 64 97, .num 1 0)] a ≠ evalL [(List.replicate 64 97, .num 1 0)] cexLong :=
  ⟨by decide +kernel, _, rfl, by decide +kernel⟩

/-- `f:{a TO b}`: the renderer's BETWEEN is inclusive -/
def cexExcl : Expr := .mk (exField [102]) .range (.bound (exLit (.str [97])) (exLit (.str [98])) false) F64.one 1
theorem need_inclusive : cleanFilter cexExcl = false ∧ ∃ a, toAst cexExcl = some a ∧
    evalSql [([102], .str [97])] a ≠ evalL [([102], .str [97])] cexExcl :=
  ⟨by decide +kernel, _, rfl, by decide +kernel⟩

/-- `f:a_*`: `_` typed by the user is a wildcard for SIMILAR TO -/
def cexUnderscore : Expr := .mk (exField [102]) .like (.expr (mkLeaf (.prim (.str [97, 95, 42])) .wild)) F64.one 1
theorem need_no_underscore : cleanFilter cexUnderscore = false ∧ ∃ a, toAst cexUnderscore = some a ∧
    evalSql [([102], .str [97, 98])] a ≠ evalL [([102], .str [97, 98])] cexUnderscore :=
  ⟨by decide +kernel, _, rfl, by decide +kernel⟩

/-- `f:[0.001 TO 0.002]` is printed as `>= 0.00 AND <= 0.00` -/
def cexRound : Expr := .mk (exField [102]) .range (.bound (exLit (.flt f0001)) (exLit (.flt f0002)) true) F64.one 1
theorem need_two_decimals : cleanFilter cexRound = false ∧ ∃ a, toAst cexRound = some a ∧
    evalSql [([102], .num 15 (-4))] a ≠ evalL [([102], .num 15 (-4))] cexRound :=
  ⟨by decide +kernel, _, rfl, by decide +kernel⟩

/-- the same for an open float range: `f:[0.001 TO *]` is printed as `>= 0.00` -/
def cexRoundOpen : Expr := .mk (exField [102]) .range (.bound (exLit (.flt f0001)) exStar true) F64.one 1
theorem need_two_decimals_open : cleanFilter cexRoundOpen = false ∧ ∃ a, toAst cexRoundOpen = some a ∧
    evalSql [([102], .num 5 (-4))] a ≠ evalL [([102], .num 5 (-4))] cexRoundOpen :=
  ⟨by decide +kernel, _, rfl, by decide +kernel⟩


/-! ## ToPostgres succeeds on the fragment -/

/-- the test `literal` (renderfn.go) applies to the serialized text of a leaf -/
def textOk (t : Bytes) : Bool := validUtf8 t && !t.any (· == 0)

theorem fnLiteral_ok (t r : Bytes) (h : textOk t = true) : fnLiteral t r = .ok t := by
  simp only [textOk, Bool.and_eq_true, Bool.not_eq_true'] at h
  simp [fnLiteral, h.1, h.2]

theorem validUtf8_ascii : ∀ t : Bytes, (∀ c ∈ t, c < 0x80) → validUtf8 t = true
  | [], _ => by simp [validUtf8, decode]
  | c :: rest, h => by
    have hc : c < 0x80 := h c (by simp)
    have ih := validUtf8_ascii rest (fun x hx => h x (by simp [hx]))
    have e1 : decode1 c rest = (c.toNat, 1) := by unfold decode1; simp only [hc, ↓reduceIte]
    unfold validUtf8 at ih ⊢
    rw [decode, e1]
    simp only [List.all_cons, Nat.sub_self, List.drop_zero, ih, Bool.and_true]
    have : c.toNat < 128 := by rw [UInt8.lt_iff_toNat_lt] at hc; exact hc
    have : (c.toNat == 0xFFFD) = false := by simp; omega
    simp [this]

/-- the characters of Go's numeric texts -/
def numCh (c : UInt8) : Bool :=
  isDig c || c == 46 || c == 101 || c == 43 || c == 45 || c == 78 || c == 97 || c == 73 || c == 110 || c == 102

theorem numCh_props (c : UInt8) (h : numCh c = true) : c < 0x80 ∧ c ≠ 0 ∧ c ≠ 44 := by
  simp only [numCh, Bool.or_eq_true, beq_iff_eq] at h
  rcases h with (((((((((h | h) | h) | h) | h) | h) | h) | h) | h) | h)
  · have := (isDig_iff c).mp h
    refine ⟨?_, ?_, ?_⟩
    · rw [UInt8.lt_iff_toNat_lt]; simp; omega
    · intro e; subst e; simp at this
    · intro e; subst e; simp at this
  all_goals (subst h; decide)

theorem numText_ok (t : Bytes) (h : ∀ c ∈ t, numCh c = true) : textOk t = true ∧ ∀ c ∈ t, c ≠ 44 := by
  refine ⟨?_, fun c hc => (numCh_props c (h c hc)).2.2⟩
  simp only [textOk, Bool.and_eq_true, Bool.not_eq_true']
  refine ⟨validUtf8_ascii t (fun c hc => (numCh_props c (h c hc)).1), ?_⟩
  rw [List.any_eq_false]
  intro c hc
  simpa using (numCh_props c (h c hc)).2.1

theorem numCh_of_isDig {c : UInt8} (h : isDig c = true) : numCh c = true := by simp [numCh, h]

theorem fmtInt_numCh (i : Int) : ∀ c ∈ fmtInt i, numCh c = true := by
  intro c hc
  unfold fmtInt at hc
  split at hc
  · simp only [List.mem_cons] at hc
    rcases hc with rfl | hc
    · decide
    · exact numCh_of_isDig (natDigits_isDig _ c hc)
  · exact numCh_of_isDig (natDigits_isDig _ c hc)


def AllNum (l : Bytes) : Prop := ∀ c ∈ l, numCh c = true

theorem AllNum.nil : AllNum [] := fun _ h => by simp at h
theorem AllNum.cons {c : UInt8} {l : Bytes} (hc : numCh c = true) (hl : AllNum l) : AllNum (c :: l) := by
  intro x hx; simp only [List.mem_cons] at hx; rcases hx with rfl | hx; exact hc; exact hl x hx
theorem AllNum.append {l m : Bytes} (hl : AllNum l) (hm : AllNum m) : AllNum (l ++ m) := by
  intro x hx; simp only [List.mem_append] at hx; rcases hx with hx | hx; exact hl x hx; exact hm x hx
theorem AllNum.ofDigits {l : Bytes} (h : ∀ c ∈ l, isDig c = true) : AllNum l :=
  fun c hc => numCh_of_isDig (h c hc)
theorem AllNum.zeros (n : Nat) : AllNum (Num.zeros n) := by
  intro c hc; simp only [Num.zeros, List.mem_replicate] at hc; rw [hc.2]; decide
theorem AllNum.natDigits (n : Nat) : AllNum (Num.natDigits n) := AllNum.ofDigits (natDigits_isDig n)

theorem fmtExp_allNum (e : Int) : AllNum (Num.fmtExp e) := by
  unfold Num.fmtExp
  simp only []
  apply AllNum.cons
  · split <;> decide
  · split
    · exact AllNum.cons (by decide) (AllNum.natDigits _)
    · exact AllNum.natDigits _

theorem fmtE_allNum (ds : Bytes) (dp : Int) (h : ∀ c ∈ ds, isDig c = true) : AllNum (Num.fmtEShortest ds dp) := by
  unfold Num.fmtEShortest
  cases ds with
  | nil => show AllNum [48, 101, 43, 48, 48]; unfold AllNum; decide
  | cons d more =>
    have hd : numCh d = true := numCh_of_isDig (h d (by simp))
    have hm : AllNum more := AllNum.ofDigits (fun c hc => h c (by simp [hc]))
    simp only []
    apply AllNum.append
    · apply AllNum.cons hd
      split
      · exact AllNum.nil
      · exact AllNum.cons (by decide) hm
    · exact AllNum.cons (by decide) (fmtExp_allNum _)

theorem fmtF_allNum (ds : Bytes) (dp : Int) (h : ∀ c ∈ ds, isDig c = true) : AllNum (Num.fmtFShortest ds dp) := by
  have hds : AllNum ds := AllNum.ofDigits h
  unfold Num.fmtFShortest
  simp only []
  split
  · split
    · exact AllNum.cons (by decide) AllNum.nil
    · exact AllNum.cons (by decide) (AllNum.cons (by decide) (AllNum.append (AllNum.zeros _) hds))
  · split
    · exact AllNum.append hds (AllNum.zeros _)
    · apply AllNum.append
      · exact fun c hc => hds c (List.mem_of_mem_take hc)
      · exact AllNum.cons (by decide) (fun c hc => hds c (List.mem_of_mem_drop hc))

theorem fmtG_allNum (f : F64) : AllNum (fmtG f) := by
  unfold fmtG
  split
  · unfold Num.nonFinite
    split
    · unfold AllNum; decide
    · split
      · unfold AllNum; decide
      · unfold AllNum; decide
  · have hd := shortestOf_digits f
    generalize Num.shortestOf f = p at hd
    obtain ⟨ds, dp⟩ := p
    simp only [] at hd ⊢
    have hb : AllNum (if dp - 1 < -4 ∨ dp - 1 ≥ 6 then Num.fmtEShortest ds dp else Num.fmtFShortest ds dp) := by
      split
      · exact fmtE_allNum ds dp hd
      · exact fmtF_allNum ds dp hd
    unfold Num.signed
    split
    · exact AllNum.cons (by decide) hb
    · exact hb


/-! ### `rang` can split the serialized boundary -/

def commaStep (st : Bytes × List Bytes) (c : UInt8) : Bytes × List Bytes :=
  if c == 44 then ([], st.1.reverse :: st.2) else (c :: st.1, st.2)

theorem commaFold_len (s : Bytes) : ∀ st : Bytes × List Bytes,
    (s.foldl commaStep st).2.length = st.2.length + s.count 44 := by
  induction s with
  | nil => intro st; simp
  | cons c t ih =>
    intro st
    simp only [List.foldl_cons]
    rw [ih]
    by_cases hc : c = 44
    · subst hc; simp [commaStep]; omega
    · have : (c == 44) = false := by simp [hc]
      simp [commaStep, this, hc]

theorem splitComma_len (s : Bytes) : (splitComma s).length = s.count 44 + 1 := by
  unfold splitComma
  have := commaFold_len s ([], [])
  show (match s.foldl commaStep ([], []) with | (cur, acc) => (cur.reverse :: acc).reverse).length = _
  generalize s.foldl commaStep ([], []) = st at this
  obtain ⟨cur, acc⟩ := st
  simp at this ⊢
  exact this

theorem count_zero_of_not_mem (s : Bytes) (h : ∀ c ∈ s, c ≠ 44) : s.count 44 = 0 :=
  List.count_eq_zero.mpr (fun hm => h 44 hm rfl)

theorem rangeParts_ok (o c : UInt8) (smin smax : Bytes) (h1 : ∀ x ∈ smin, x ≠ 44) (h2 : ∀ x ∈ smax, x ≠ 44) :
    ∃ x, rangeParts ([o] ++ smin ++ [44, 32] ++ smax ++ [c]) = .ok x := by
  have hlen : (splitComma (smin ++ [44, 32] ++ smax)).length = 2 := by
    rw [splitComma_len]
    simp [List.count_append, count_zero_of_not_mem _ h1, count_zero_of_not_mem _ h2]
  have hstrip : (([o] ++ smin ++ [44, 32] ++ smax ++ [c]).drop 1).take (([o] ++ smin ++ [44, 32] ++ smax ++ [c]).length - 2)
      = smin ++ [44, 32] ++ smax := by
    have e : ([o] ++ smin ++ [44, 32] ++ smax ++ [c]).drop 1 = (smin ++ [44, 32] ++ smax) ++ [c] := by simp
    rw [e]
    have l : ([o] ++ smin ++ [44, 32] ++ smax ++ [c]).length - 2 = (smin ++ [44, 32] ++ smax).length := by
      simp
    rw [l, List.take_left' rfl]
  have hshape : ∃ y z t, [o] ++ smin ++ [44, 32] ++ smax ++ [c] = y :: z :: t := by
    cases smin with
    | nil => exact ⟨o, 44, 32 :: (smax ++ [c]), by simp⟩
    | cons a t => exact ⟨o, a, t ++ 44 :: 32 :: (smax ++ [c]), by simp⟩
  obtain ⟨y, z, t, hs⟩ := hshape
  unfold rangeParts
  rw [hs] at hstrip ⊢
  simp only [hstrip]
  match hsp : splitComma (smin ++ [44, 32] ++ smax), hlen with
  | [p0, p1], _ => exact ⟨_, rfl⟩


/-! ### side conditions on the strings, and the theorem -/

/-- field name: non-empty, no `"` (driver's `serialize` rejects these), and the quoted text passes `literal` -/
def fieldText (l : Node) : Bool :=
  match fieldCol l with
  | some f => !f.isEmpty && !f.any (· == 34) && textOk ([34] ++ f ++ [34])
  | none => false

/-- string value / pattern: the quoted text passes `literal` (valid UTF-8, no NUL) -/
def primText : Prim → Bool
  | .str s => textOk (sqlQuote s)
  | _ => true

def valueText : Node → Bool
  | .expr (.mk (.prim p) _ _ _ _) => primText p
  | _ => true

def itemsText : ExprList → Bool
  | .nil => true
  | .cons (.mk (.prim p) _ _ _ _) t => primText p && itemsText t
  | .cons _ t => itemsText t

mutual
def textNode : Node → Bool
  | .expr e => textClean e
  | _ => true
/-- every field name and every string of the query passes the renderer's `literal` test -/
def textClean : Expr → Bool
  | .mk l o r _ _ =>
    match o with
    | .and | .or => textNode l && textNode r
    | .not | .mustNot | .must => textNode l
    | .equals | .greater | .less | .greaterEq | .lessEq | .like => fieldText l && valueText r
    | .in_ =>
      fieldText l && (match r with
        | .expr (.mk (.list es) _ _ _ _) => itemsText es
        | _ => true)
    | .range =>
      fieldText l && (match r with
        | .bound mn mx _ => valueText mn && valueText mx
        | _ => true)
    | _ => true
end

theorem render_of (l : Node) (o : Op) (r : Node) (p : F64) (d : Int) (left right : Bytes) (fn : RenderFn)
    (hl : serialize pgFns l = .ok left) (hr : serialize pgFns r = .ok right) (hfn : pgFns o = some fn) :
    render pgFns (.mk l o r p d) =
      fn (if parenOps o && !isSimple l then parenB left else left)
         (if parenOps o && !isSimple r then parenB right else right) := by
  simp only [render, hl, hr, hfn]

theorem serialize_expr (e : Expr) : serialize pgFns (.expr e) = render pgFns e := by
  simp only [serialize]

theorem serialize_nil : serialize pgFns .nil = .ok [] := by simp only [serialize]

/-- the text of a plain value -/
def primTextOf : Prim → Bytes
  | .str s => sqlQuote s
  | p => fmtVPrim p

def isValPrim : Prim → Bool
  | .str _ => true
  | .int _ => true
  | .flt _ => true
  | _ => false

theorem isValPrim_of_clean {q : Prim} (h : cleanPrim q = true) : isValPrim q = true := by
  cases q <;> simp_all [cleanPrim, isValPrim]

theorem primTextOf_ok (q : Prim) (hq : isValPrim q = true) (ht : primText q = true) : textOk (primTextOf q) = true := by
  cases q <;> simp [isValPrim] at hq
  · exact ht
  · exact (numText_ok _ (fmtInt_numCh _)).1
  · exact (numText_ok _ (fmtG_allNum _)).1

theorem render_leaf (q : Prim) (o : Op) (p : F64) (d : Int) (ho : o = .literal ∨ o = .wild)
    (hq : isValPrim q = true) (ht : primText q = true) :
    render pgFns (.mk (.prim q) o .nil p d) = .ok (primTextOf q) := by
  have hs : serialize pgFns (.prim q) = .ok (primTextOf q) := by
    cases q <;> simp [isValPrim] at hq <;> simp only [serialize, primTextOf]
  have hfn : pgFns o = some fnLiteral := by rcases ho with rfl | rfl <;> rfl
  rw [render_of _ _ _ _ _ _ _ _ hs serialize_nil hfn]
  have hp : (parenOps o && !isSimple (.prim q)) = false := by
    cases q <;> simp [isValPrim] at hq <;> simp [isSimple]
  simp only [hp, Bool.false_eq_true, ↓reduceIte]
  exact fnLiteral_ok _ _ (primTextOf_ok q hq ht)

theorem render_field {l : Node} (h : fieldText l = true) :
    ∃ f p d, l = .expr (.mk (.prim (.col f)) .literal .nil p d) ∧ isSimple l = true ∧
      serialize pgFns l = .ok ([34] ++ f ++ [34]) := by
  unfold fieldText at h
  split at h
  · rename_i f hf
    obtain ⟨p, d, rfl⟩ := fieldCol_inv hf
    simp only [Bool.and_eq_true, Bool.not_eq_true'] at h
    refine ⟨f, p, d, rfl, by simp [isSimple, Expr.op], ?_⟩
    have hs : serialize pgFns (.prim (.col f)) = .ok ([34] ++ f ++ [34]) := by
      simp only [serialize, serializeCol, h.1.1, h.1.2, Bool.false_eq_true, ↓reduceIte]
    rw [serialize_expr, render_of _ _ _ _ _ _ _ _ hs serialize_nil (rfl : pgFns .literal = some fnLiteral)]
    have hp : parenOps .literal = false := by decide
    simp only [hp, Bool.false_and, Bool.false_eq_true, ↓reduceIte]
    exact fnLiteral_ok _ _ h.2
  · cases h


theorem cleanValue_inv {r : Node} (h : cleanValue r = true) :
    ∃ q p d, r = .expr (.mk (.prim q) .literal .nil p d) ∧ cleanPrim q = true := by
  unfold cleanValue at h
  split at h
  · exact ⟨_, _, _, rfl, h⟩
  · cases h

theorem serializeList_ok : ∀ es : ExprList, cleanItems es = true → itemsText es = true →
    ∃ ss, serializeList pgFns es = .ok ss
  | .nil, _, _ => ⟨[], by simp only [serializeList]⟩
  | .cons e t, hc, ht => by
    unfold cleanItems at hc
    split at hc
    · rename_i heq; cases heq
    · rename_i q b fz t' heq
      cases heq
      simp only [Bool.and_eq_true] at hc
      simp only [itemsText, Bool.and_eq_true] at ht
      obtain ⟨ss, hss⟩ := serializeList_ok t hc.2 ht.2
      exact ⟨primTextOf q :: ss, by simp only [serializeList, render_leaf q .literal b fz (.inl rfl) (isValPrim_of_clean hc.1) ht.1, hss]⟩
    · cases hc

def bndText : Bnd → Bytes
  | .star => starQ
  | .int i => fmtInt i
  | .flt f => fmtG f
  | .str s => sqlQuote s

theorem bnd_render {n : Node} {b : Bnd} (h : bndOf n = some b) (ht : valueText n = true) :
    serialize pgFns n = .ok (bndText b) := by
  unfold bndOf at h
  split at h
  · split at h
    · rename_i s _ _ hs
      cases h
      have : s = [42] := by simpa using hs
      subst this
      rw [serialize_expr, render_leaf (.str [42]) .wild _ _ (.inr rfl) rfl ht]; rfl
    · cases h
  · cases h; rw [serialize_expr, render_leaf (.int _) .literal _ _ (.inl rfl) rfl ht]; rfl
  · cases h; rw [serialize_expr, render_leaf (.flt _) .literal _ _ (.inl rfl) rfl ht]; rfl
  · cases h; rw [serialize_expr, render_leaf (.str _) .literal _ _ (.inl rfl) rfl ht]; rfl
  · cases h

theorem sqlQuote_nocomma (s : Bytes) (h : s.contains 44 = false) : ∀ x ∈ sqlQuote s, x ≠ 44 := by
  intro x hx e
  subst e
  simp only [sqlQuote, replaceByte, List.mem_append, List.mem_cons, List.mem_flatMap, List.not_mem_nil, or_false] at hx
  rcases hx with (hx | ⟨c, hc, hx⟩) | hx
  · revert hx; decide
  · split at hx
    · simp at hx
    · simp at hx; subst hx; simp [hc] at h
  · revert hx; decide


theorem bnd_nocomma (incl : Bool) (a c : Bnd) (h : cleanBounds incl a c = true) :
    (∀ x ∈ bndText a, x ≠ 44) ∧ (∀ x ∈ bndText c, x ≠ 44) := by
  have hstar : ∀ x ∈ starQ, x ≠ 44 := by decide
  cases a <;> cases c <;> simp only [cleanBounds, Bool.false_eq_true] at h
  · exact ⟨hstar, (numText_ok _ (fmtInt_numCh _)).2⟩
  · exact ⟨hstar, (numText_ok _ (fmtG_allNum _)).2⟩
  · exact ⟨(numText_ok _ (fmtInt_numCh _)).2, hstar⟩
  · exact ⟨(numText_ok _ (fmtInt_numCh _)).2, (numText_ok _ (fmtInt_numCh _)).2⟩
  · exact ⟨(numText_ok _ (fmtG_allNum _)).2, hstar⟩
  · exact ⟨(numText_ok _ (fmtG_allNum _)).2, (numText_ok _ (fmtG_allNum _)).2⟩
  · simp only [Bool.and_eq_true, Bool.not_eq_true'] at h
    exact ⟨sqlQuote_nocomma _ h.1.2, sqlQuote_nocomma _ h.2⟩

theorem nil_of_isNil {r : Node} (h : r.isNil = true) : r = .nil := by
  cases r <;> simp [Node.isNil] at h; rfl

theorem fnInfix_ok (mid : String) (a c : Bytes) : fnInfix mid a c = .ok (a ++ b mid ++ c) := rfl

theorem fnLike_ok (l r : Bytes) : ∃ t, fnLike l r = .ok t := by
  unfold fnLike
  split <;> exact ⟨_, rfl⟩

theorem bracket_text (incl : Bool) (smin smax : Bytes) :
    (if incl then (Out.ok (b "[" ++ smin ++ b ", " ++ smax ++ b "]") : Out Bytes)
      else .ok (b "(" ++ smin ++ b ", " ++ smax ++ b ")")) =
    .ok ([if incl then 91 else 40] ++ smin ++ [44, 32] ++ smax ++ [if incl then 93 else 41]) := by
  cases incl <;> rfl

mutual
theorem renders_node : ∀ n : Node, cleanNode n = true → textNode n = true → ∃ t, serialize pgFns n = .ok t
  | .expr e, hc, ht => by
    simp only [cleanNode] at hc
    simp only [textNode] at ht
    rw [serialize_expr]
    exact renders_expr e hc ht
  | .nil, hc, _ => by simp [cleanNode] at hc
  | .prim _, hc, _ => by simp [cleanNode] at hc
  | .list _, hc, _ => by simp [cleanNode] at hc
  | .bound _ _ _, hc, _ => by simp [cleanNode] at hc
theorem renders_expr : ∀ e : Expr, cleanFilter e = true → textClean e = true → ∃ t, render pgFns e = .ok t
  | .mk l o r p d, hc, ht => by
    cases o
    case and =>
      simp only [cleanFilter, Bool.and_eq_true] at hc
      simp only [textClean, Bool.and_eq_true] at ht
      obtain ⟨x, hx⟩ := renders_node l hc.1 ht.1
      obtain ⟨y, hy⟩ := renders_node r hc.2 ht.2
      rw [render_of _ _ _ _ _ _ _ _ hx hy (rfl : pgFns .and = some (fnInfix " AND "))]
      exact ⟨_, fnInfix_ok _ _ _⟩
    case or =>
      simp only [cleanFilter, Bool.and_eq_true] at hc
      simp only [textClean, Bool.and_eq_true] at ht
      obtain ⟨x, hx⟩ := renders_node l hc.1 ht.1
      obtain ⟨y, hy⟩ := renders_node r hc.2 ht.2
      rw [render_of _ _ _ _ _ _ _ _ hx hy (rfl : pgFns .or = some (fnInfix " OR "))]
      exact ⟨_, fnInfix_ok _ _ _⟩
    case not =>
      simp only [cleanFilter, Bool.and_eq_true] at hc
      simp only [textClean] at ht
      obtain ⟨x, hx⟩ := renders_node l hc.1 ht
      cases nil_of_isNil hc.2
      rw [render_of _ _ _ _ _ _ _ _ hx serialize_nil (rfl : pgFns .not = some fnWrapNot)]
      exact ⟨_, rfl⟩
    case mustNot =>
      simp only [cleanFilter, Bool.and_eq_true] at hc
      simp only [textClean] at ht
      obtain ⟨x, hx⟩ := renders_node l hc.1 ht
      cases nil_of_isNil hc.2
      rw [render_of _ _ _ _ _ _ _ _ hx serialize_nil (rfl : pgFns .mustNot = some fnWrapNot)]
      exact ⟨_, rfl⟩
    case must =>
      simp only [cleanFilter, Bool.and_eq_true] at hc
      simp only [textClean] at ht
      obtain ⟨x, hx⟩ := renders_node l hc.1 ht
      cases nil_of_isNil hc.2
      rw [render_of _ _ _ _ _ _ _ _ hx serialize_nil (rfl : pgFns .must = some fnNoop)]
      exact ⟨_, rfl⟩
    case equals =>
      simp only [cleanFilter, Bool.and_eq_true] at hc
      simp only [textClean, Bool.and_eq_true] at ht
      obtain ⟨f, p1, d1, rfl, _, hx⟩ := render_field ht.1
      obtain ⟨q, p2, d2, rfl, hq⟩ := cleanValue_inv hc.2
      have hy := render_leaf q .literal p2 d2 (.inl rfl) (isValPrim_of_clean hq) ht.2
      rw [← serialize_expr] at hy
      rw [render_of _ _ _ _ _ _ _ _ hx hy (rfl : pgFns .equals = some (fnInfix " = "))]
      exact ⟨_, fnInfix_ok _ _ _⟩
    case greater =>
      simp only [cleanFilter, Bool.and_eq_true] at hc
      simp only [textClean, Bool.and_eq_true] at ht
      obtain ⟨f, p1, d1, rfl, _, hx⟩ := render_field ht.1
      obtain ⟨q, p2, d2, rfl, hq⟩ := cleanValue_inv hc.2
      have hy := render_leaf q .literal p2 d2 (.inl rfl) (isValPrim_of_clean hq) ht.2
      rw [← serialize_expr] at hy
      rw [render_of _ _ _ _ _ _ _ _ hx hy (rfl : pgFns .greater = some (fnInfix " > "))]
      exact ⟨_, fnInfix_ok _ _ _⟩
    case less =>
      simp only [cleanFilter, Bool.and_eq_true] at hc
      simp only [textClean, Bool.and_eq_true] at ht
      obtain ⟨f, p1, d1, rfl, _, hx⟩ := render_field ht.1
      obtain ⟨q, p2, d2, rfl, hq⟩ := cleanValue_inv hc.2
      have hy := render_leaf q .literal p2 d2 (.inl rfl) (isValPrim_of_clean hq) ht.2
      rw [← serialize_expr] at hy
      rw [render_of _ _ _ _ _ _ _ _ hx hy (rfl : pgFns .less = some (fnInfix " < "))]
      exact ⟨_, fnInfix_ok _ _ _⟩
    case greaterEq =>
      simp only [cleanFilter, Bool.and_eq_true] at hc
      simp only [textClean, Bool.and_eq_true] at ht
      obtain ⟨f, p1, d1, rfl, _, hx⟩ := render_field ht.1
      obtain ⟨q, p2, d2, rfl, hq⟩ := cleanValue_inv hc.2
      have hy := render_leaf q .literal p2 d2 (.inl rfl) (isValPrim_of_clean hq) ht.2
      rw [← serialize_expr] at hy
      rw [render_of _ _ _ _ _ _ _ _ hx hy (rfl : pgFns .greaterEq = some (fnInfix " >= "))]
      exact ⟨_, fnInfix_ok _ _ _⟩
    case lessEq =>
      simp only [cleanFilter, Bool.and_eq_true] at hc
      simp only [textClean, Bool.and_eq_true] at ht
      obtain ⟨f, p1, d1, rfl, _, hx⟩ := render_field ht.1
      obtain ⟨q, p2, d2, rfl, hq⟩ := cleanValue_inv hc.2
      have hy := render_leaf q .literal p2 d2 (.inl rfl) (isValPrim_of_clean hq) ht.2
      rw [← serialize_expr] at hy
      rw [render_of _ _ _ _ _ _ _ _ hx hy (rfl : pgFns .lessEq = some (fnInfix " <= "))]
      exact ⟨_, fnInfix_ok _ _ _⟩
    case like =>
      simp only [cleanFilter, Bool.and_eq_true] at hc
      simp only [textClean, Bool.and_eq_true] at ht
      obtain ⟨f, p1, d1, rfl, _, hx⟩ := render_field ht.1
      obtain ⟨pat, p2, d2, rfl, _, _, _⟩ := cleanPattern_inv hc.2
      have hy := render_leaf (.str pat) .wild p2 d2 (.inr rfl) rfl ht.2
      rw [← serialize_expr] at hy
      rw [render_of _ _ _ _ _ _ _ _ hx hy (rfl : pgFns .like = some fnLike)]
      exact fnLike_ok _ _
    case in_ =>
      simp only [cleanFilter, Bool.and_eq_true] at hc
      simp only [textClean, Bool.and_eq_true] at ht
      obtain ⟨f, p1, d1, rfl, _, hx⟩ := render_field ht.1
      obtain ⟨e, t, p2, d2, rfl⟩ := cleanList_inv hc.2
      have hcl : cleanItems (.cons e t) = true := by simpa [cleanList] using hc.2
      obtain ⟨ss, hss⟩ := serializeList_ok _ hcl ht.2
      have hl : serialize pgFns (.list (.cons e t)) = .ok (joinWith (b ", ") ss) := by
        simp only [serialize, hss]
      have hy : serialize pgFns (.expr (.mk (.list (.cons e t)) .list .nil p2 d2)) =
          .ok ([40] ++ joinWith (b ", ") ss ++ [41]) := by
        rw [serialize_expr, render_of _ _ _ _ _ _ _ _ hl serialize_nil (rfl : pgFns .list = some fnList)]
        rfl
      rw [render_of _ _ _ _ _ _ _ _ hx hy (rfl : pgFns .in_ = some (fnInfix " IN "))]
      exact ⟨_, fnInfix_ok _ _ _⟩
    case range =>
      simp only [cleanFilter, Bool.and_eq_true] at hc
      simp only [textClean, Bool.and_eq_true] at ht
      obtain ⟨f, p1, d1, rfl, _, hx⟩ := render_field ht.1
      obtain ⟨mn, mx, incl, ba, bc, rfl, hba, hbc, hcl⟩ := cleanRange_inv hc.2
      simp only [Bool.and_eq_true] at ht
      have h1 := bnd_render hba ht.2.1
      have h2 := bnd_render hbc ht.2.2
      have hy : serialize pgFns (.bound mn mx incl) =
          .ok ([if incl then 91 else 40] ++ bndText ba ++ [44, 32] ++ bndText bc ++ [if incl then 93 else 41]) := by
        simp only [serialize, h1, h2]
        exact bracket_text incl _ _
      rw [render_of _ _ _ _ _ _ _ _ hx hy (rfl : pgFns .range = some fnRang)]
      have hp : parenOps .range = false := by decide
      simp only [hp, Bool.false_and, Bool.false_eq_true, ↓reduceIte]
      have hnc := bnd_nocomma incl ba bc hcl
      obtain ⟨parts, hparts⟩ := rangeParts_ok (if incl then 91 else 40) (if incl then 93 else 41) _ _ hnc.1 hnc.2
      unfold fnRang
      rw [hparts]
      exact ⟨_, rfl⟩
    all_goals simp [cleanFilter] at hc
end

/-- ToPostgres succeeds on the fragment (given that the field names and strings pass the renderer's own
    `literal` test: valid UTF-8, no NUL; field names non-empty and without `"`) -/
theorem toAst_renders (e : Expr) (hc : cleanFilter e = true) (ht : textClean e = true) :
    ∃ t, render pgFns e = .ok t := renders_expr e hc ht

end GoLucene.SqlMeaning

#print axioms GoLucene.SqlMeaning.sql_means_query
#print axioms GoLucene.SqlMeaning.toAst_total
#print axioms GoLucene.SqlMeaning.toAst_renders
#print axioms GoLucene.SqlMeaning.globOn_starPattern
#print axioms GoLucene.SqlMeaning.sqlValue_astOfPrim
#print axioms GoLucene.SqlMeaning.need_two_decimals
#print axioms GoLucene.SqlMeaning.need_two_decimals_open
