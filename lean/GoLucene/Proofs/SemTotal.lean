import GoLucene.Proofs.RunInv
import GoLucene.Proofs.SemShape
/-
  C01, parser half: `lucene.Parse` never panics.

  * `sem_total` — on a tree of reductions that satisfies `ExOK (isNumOf env df)` the constructor semantics
    succeeds: neither an error nor a panic of a constructor, and none of the explicit `.panic` branches of `sem`
    (`.inn`; `atoi` / `toPositiveFloat` failing after the reducer's test succeeded) is taken.
  * `finalize_no_panic`, `parseTokens_no_panic`, `parseQuery_no_panic` — with `parseToks_exok` (Proofs/RunInv.lean:
    every tree the run returns is `ExOK`), the model of Parse returns a value or an error for every token
    list / every byte string and every default field.
-/
namespace GoLucene

theorem wrapLiteral_total (df : Bytes) (e : Expr) : ∃ w, wrapLiteral df e = .ok w := by
  unfold wrapLiteral
  split
  · rename_i hc
    simp only [Bool.and_eq_true, decide_eq_true_eq] at hc
    exact ⟨_, mkExpr_wrapCol df e hc.1⟩
  · exact ⟨_, rfl⟩

/-- what the fuzzy reducer's test says about its operand -/
theorem isNumOf_true {env : Env} {df : Bytes} {d : Ex} (h : isNumOf env df true d = true) :
    ∃ d' s i, sem env df d = .ok d' ∧ strOf env d' = .ok s ∧ atoi s = some i := by
  unfold isNumOf at h
  cases hd : sem env df d with
  | err => simp [hd] at h
  | panic => simp [hd] at h
  | ok d' =>
    simp only [hd] at h
    cases hs : strOf env d' with
    | err => simp [hs] at h
    | panic => simp [hs] at h
    | ok s =>
      simp only [hs, if_true] at h
      obtain ⟨i, hi⟩ := Option.isSome_iff_exists.mp h
      exact ⟨d', s, i, rfl, hs, hi⟩

/-- what the boost reducer's test says about its operand -/
theorem isNumOf_false {env : Env} {df : Bytes} {p : Ex} (h : isNumOf env df false p = true) :
    ∃ p' s f, sem env df p = .ok p' ∧ strOf env p' = .ok s ∧ toPositiveFloat s = some f := by
  unfold isNumOf at h
  cases hd : sem env df p with
  | err => simp [hd] at h
  | panic => simp [hd] at h
  | ok p' =>
    simp only [hd] at h
    cases hs : strOf env p' with
    | err => simp [hs] at h
    | panic => simp [hs] at h
    | ok s =>
      simp only [hs, Bool.false_eq_true, if_false] at h
      obtain ⟨f, hf⟩ := Option.isSome_iff_exists.mp h
      exact ⟨p', s, f, rfl, hs, hf⟩

/-- (2a) on the trees the run builds, the constructor semantics always succeeds -/
theorem sem_total (env : Env) (df : Bytes) :
    ∀ (ex : Ex), ExOK (isNumOf env df) ex → ∃ e, sem env df ex = .ok e
  | .leaf t, _ => ⟨parseLiteral t, by simp [sem]⟩
  | .eq f v, h => by
    simp only [ExOK] at h
    obtain ⟨f', hf⟩ := sem_total env df f h.1
    obtain ⟨v', hv⟩ := sem_total env df v h.2
    simp only [sem, hf, hv, bind, Out.bind]
    split
    · exact ⟨_, mkExpr_in _ _⟩
    · exact ⟨_, mkExpr_equals _ _⟩
  | .inn f vs, h => by simp [ExOK] at h
  | .cmp gt orEq f v, h => by
    simp only [ExOK] at h
    obtain ⟨f', hf⟩ := sem_total env df f h.1
    obtain ⟨v', hv⟩ := sem_total env df v h.2
    simp only [sem, hf, hv, bind, Out.bind]
    exact ⟨_, mkExpr_bin _ _ _ (by cases gt <;> cases orEq <;> simp [cmpOp])⟩
  | .range f lo hi incl, h => by
    simp only [ExOK] at h
    obtain ⟨f', hf⟩ := sem_total env df f h.1
    obtain ⟨lo', hl⟩ := sem_total env df lo h.2.1
    obtain ⟨hi', hh⟩ := sem_total env df hi h.2.2
    simp only [sem, hf, hl, hh, bind, Out.bind]
    exact ⟨_, mkExpr_range _ _ _ _⟩
  | .and l r, h => by
    simp only [ExOK] at h
    obtain ⟨l', hl⟩ := sem_total env df l h.1
    obtain ⟨r', hr⟩ := sem_total env df r h.2
    obtain ⟨wl, hwl⟩ := wrapLiteral_total df l'
    obtain ⟨wr, hwr⟩ := wrapLiteral_total df r'
    simp only [sem, hl, hr, hwl, hwr, bind, Out.bind]
    exact ⟨_, mkExpr_bin _ _ _ (by simp)⟩
  | .or l r, h => by
    simp only [ExOK] at h
    obtain ⟨l', hl⟩ := sem_total env df l h.1
    obtain ⟨r', hr⟩ := sem_total env df r h.2
    obtain ⟨wl, hwl⟩ := wrapLiteral_total df l'
    obtain ⟨wr, hwr⟩ := wrapLiteral_total df r'
    simp only [sem, hl, hr, hwl, hwr, bind, Out.bind]
    exact ⟨_, mkExpr_bin _ _ _ (by simp)⟩
  | .not x, h => by
    simp only [ExOK] at h
    obtain ⟨x', hx⟩ := sem_total env df x h
    obtain ⟨w, hw⟩ := wrapLiteral_total df x'
    simp only [sem, hx, hw, bind, Out.bind]
    exact ⟨_, mkExpr_unary _ _ (by simp)⟩
  | .must x, h => by
    simp only [ExOK] at h
    obtain ⟨x', hx⟩ := sem_total env df x h
    simp only [sem, hx, bind, Out.bind]
    exact ⟨_, mkExpr_unary _ _ (by simp)⟩
  | .mustNot x, h => by
    simp only [ExOK] at h
    obtain ⟨x', hx⟩ := sem_total env df x h
    simp only [sem, hx, bind, Out.bind]
    exact ⟨_, mkExpr_unary _ _ (by simp)⟩
  | .fuzzy x none, h => by
    simp only [ExOK] at h
    obtain ⟨x', hx⟩ := sem_total env df x h
    simp only [sem, hx, bind, Out.bind]
    exact ⟨_, mkExpr_fuzzy _ _⟩
  | .fuzzy x (some d), h => by
    simp only [ExOK] at h
    obtain ⟨x', hx⟩ := sem_total env df x h.1
    obtain ⟨d', s, i, hd, hs, hi⟩ := isNumOf_true h.2.2
    simp only [sem, hx, hd, hs, hi, bind, Out.bind]
    exact ⟨_, mkExpr_fuzzy _ _⟩
  | .boost x none, h => by
    simp only [ExOK] at h
    obtain ⟨x', hx⟩ := sem_total env df x h
    simp only [sem, hx, bind, Out.bind]
    exact ⟨_, mkExpr_boost _ _⟩
  | .boost x (some p), h => by
    simp only [ExOK] at h
    obtain ⟨x', hx⟩ := sem_total env df x h.1
    obtain ⟨p', s, f, hp, hs, hf⟩ := isNumOf_false h.2.2
    simp only [sem, hx, hp, hs, hf, bind, Out.bind]
    exact ⟨_, mkExpr_boost _ _⟩

/-- (2b) after the parser accepts, nothing panics: the result is a value or (Validate) an error -/
theorem finalize_ok_or_err (env : Env) (df : Bytes) (ex : Ex) (h : ExOK (isNumOf env df) ex) :
    (∃ e, finalize env df ex = .ok e) ∨ finalize env df ex = .err := by
  obtain ⟨e, he⟩ := sem_total env df ex h
  unfold finalize
  simp only [he, bind, Out.bind]
  by_cases hc : (decide (e.op = .literal) && !df.isEmpty) = true
  · have hlit : e.op = .literal := by
      simp only [Bool.and_eq_true, decide_eq_true_eq] at hc
      exact hc.1
    simp only [hc, if_true, mkExpr_wrapStr df e hlit]
    split
    · exact Or.inl ⟨_, rfl⟩
    · exact Or.inr rfl
  · simp only [hc, Bool.false_eq_true, if_false]
    split
    · exact Or.inl ⟨_, rfl⟩
    · exact Or.inr rfl

theorem finalize_no_panic (env : Env) (df : Bytes) (ex : Ex) (h : ExOK (isNumOf env df) ex) :
    finalize env df ex ≠ .panic := by
  rcases finalize_ok_or_err env df ex h with ⟨e, he⟩ | he <;> rw [he] <;> intro hp <;> cases hp

/-- C01 at token level: parser.parse + Validate never panics, for every token list and every default field -/
theorem parseTokens_no_panic (env : Env) (df : Bytes) (toks : List Tok) : parseTokens env df toks ≠ .panic := by
  unfold parseTokens
  cases hp : parseToks (isNumOf env df) toks with
  | err => intro h; cases h
  | ok ex => exact finalize_no_panic env df ex (parseToks_exok (isNumOf env df) toks ex hp)

/-- C01: `lucene.Parse` never panics, for every byte string and every default field -/
theorem parseQuery_no_panic (env : Env) (s : Bytes) (df : Bytes) : parseQuery env s df ≠ .panic :=
  parseTokens_no_panic env df (tokensOf env s)

end GoLucene
