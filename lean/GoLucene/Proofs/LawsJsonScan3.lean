import GoLucene.Proofs.LawsJsonScan2
/-
  Laws, scanner / structure side, part 3: the nesting bound is needed.
    * `valid_enc_unbounded_false`: without `n ≤ maxNestingDepth` the law `valid_enc` is false of Model/Json.lean
      (10001 nested arrays);
    * `decode_needs_depth`: a tree of the fragment (10000 nested NOT over `a:b`, encoding depth 10001) whose encoding
      the model's decoder rejects.
-/
set_option linter.unusedSimpArgs false
set_option linter.unusedVariables false

namespace GoLucene
namespace Laws

open Json Num JsonRoundTrip NoPanic

theorem scan_max_eq : maxNestingDepth = 10000 := rfl

theorem validLoop_err {s s' : Scanner} {c : UInt8} (rest : Bytes) (h : scanStep s c = (s', .error)) :
    validLoop s (c :: rest) = false := by
  rw [validLoop, h]

/-- opening one more array / object at the limit is an error -/
theorem step_open_fail (σ : List ParseState) (d : Nat) (hd : ¬ d + 1 ≤ maxNestingDepth) (c : UInt8)
    (hc : c = 0x5B ∨ c = 0x7B) : ∃ s', scanStep (mkS .beginValue σ d) c = (s', .error) := by
  rcases hc with rfl | rfl
  · exact ⟨_, by simp [scanStep, stateBeginValue, isJsonWs, Scanner.push, hd, Scanner.fail]; rfl⟩
  · exact ⟨_, by simp [scanStep, stateBeginValue, isJsonWs, Scanner.push, hd, Scanner.fail]; rfl⟩

/-! ## 10001 nested arrays -/

/-- `[[…[]…]]` with `k + 1` pairs of brackets -/
def nestArr : Nat → Bytes
  | 0 => arrText []
  | k + 1 => arrText [nestArr k]

theorem enc_nestArr : ∀ k, Enc (k + 1) (nestArr k)
  | 0 => .arr 0 [] (fun _ h => by simp at h)
  | k + 1 => .arr (k + 1) [nestArr k] (fun v h => by
      simp only [List.mem_singleton] at h
      subst h
      exact enc_nestArr k)

theorem nestArr_start (k : Nat) : StartOK (nestArr k) := by
  cases k <;> exact ⟨91, _, arrText_eq _, by decide, by decide⟩

theorem nestArr_invalid : ∀ (k : Nat) (st : ScanState), (st = .beginValue ∨ st = .beginValueOrEmpty) →
    ∀ (σ : List ParseState) (d : Nat) (rest : Bytes), d + k = maxNestingDepth →
      validLoop (mkS st σ d) (nestArr k ++ rest) = false := by
  intro k
  induction k with
  | zero =>
    intro st hst σ d rest hd
    have e : validLoop (mkS st σ d) (nestArr 0 ++ rest) = validLoop (mkS .beginValue σ d) (nestArr 0 ++ rest) := by
      rcases hst with rfl | rfl
      · rfl
      · exact valid_bvoe (nestArr_start 0) σ d rest
    obtain ⟨s', hs'⟩ := step_open_fail σ d (by have := scan_max_eq; omega) 0x5B (.inl rfl)
    rw [e]
    exact validLoop_err _ hs'
  | succ k ih =>
    intro st hst σ d rest hd
    have e : validLoop (mkS st σ d) (nestArr (k + 1) ++ rest) =
        validLoop (mkS .beginValue σ d) (nestArr (k + 1) ++ rest) := by
      rcases hst with rfl | rfl
      · rfl
      · exact valid_bvoe (nestArr_start (k + 1)) σ d rest
    have h1 : d + 1 ≤ maxNestingDepth := by omega
    rw [e]
    show validLoop _ (arrText [nestArr k] ++ rest) = false
    rw [arrText_eq]
    simp only [joinC, List.cons_append, List.append_assoc]
    rw [validLoop_step _ (step_open_arr σ d h1) beginArray_ne]
    exact ih .beginValueOrEmpty (.inr rfl) _ (d + 1) _ (by omega)

/-- Without the nesting bound the law `valid_enc` is FALSE of Model/Json.lean: the text of 10001 nested arrays is an
    `Enc` text that `Json.valid` (like json.Valid) rejects. -/
theorem valid_enc_unbounded_false : ¬ (∀ n t, Enc n t → valid t = true) := by
  intro h
  have h1 := h _ _ (enc_nestArr maxNestingDepth)
  have h2 := nestArr_invalid maxNestingDepth .beginValue (.inl rfl) [] 0 [] (by omega)
  rw [List.append_nil] at h2
  have : valid (nestArr maxNestingDepth) = false := h2
  rw [this] at h1
  exact absurd h1 (by decide)

/-! ## 10000 nested NOT -/

/-- `a:b` -/
def leafE : Expr :=
  .mk (.expr (lit (.prim (.col (b "a"))))) .equals (.expr (lit (.prim (.str (b "b"))))) F64.one 1

def notE (x : Expr) : Expr := .mk (.expr x) .not .nil F64.one 1

/-- `NOT(NOT(…(a:b)…))` with `k` NOT nodes -/
def notN : Nat → Expr
  | 0 => leafE
  | k + 1 => notE (notN k)

def leafText : Bytes :=
  match marshalExpr leafE with
  | .ok j => j
  | _ => []

theorem marshal_leafE : marshalExpr leafE = .ok leafText := by decide +kernel

theorem leafText_head : ∃ m, leafText = 123 :: m := ⟨leafText.tail, by decide +kernel⟩

def notPre : Bytes := b "{" ++ jsonKey "left"
def notPost : Bytes := b "," ++ jsonKey "operator" ++ encodeString Op.not.toStr ++ b "}"

def notText : Nat → Bytes
  | 0 => leafText
  | k + 1 => notPre ++ notText k ++ notPost

theorem powerOf_one : powerOf F64.one = .ok [] := by decide +kernel

theorem marshal_notE (x : Expr) (j : Bytes) (h : marshalExpr x = .ok j) :
    marshalExpr (notE x) = .ok (notPre ++ j ++ notPost) := by
  unfold notE
  rw [marshalExpr_eq]
  have e1 : marshalNode (.expr x) = marshalExpr x := by rw [marshalNode]
  have e2 : rightPartOf .nil = .ok [] := rfl
  have e3 : (Op.not = Op.literal || Op.not = Op.wild || Op.not = Op.regexp) = false := by decide
  have e4 : ((1 : Int) != 1) = false := by decide
  simp only [e1, h, e2, e3, e4, powerOf_one, Bool.false_eq_true, if_false, notPre, notPost, List.append_nil,
    List.append_assoc]

theorem marshal_notN : ∀ k, marshalExpr (notN k) = .ok (notText k)
  | 0 => marshal_leafE
  | k + 1 => marshal_notE _ _ (marshal_notN k)

theorem notPre_eq : notPre = 123 :: jsonKey "left" := by
  simp only [notPre, b_lbrace, List.cons_append, List.nil_append]

theorem valid_key (k : String) (hk : k ∈ keyNames) (st : ScanState)
    (hst : st = .beginStringOrEmpty ∨ st = .beginString) (σ : List ParseState) (d : Nat) (rest : Bytes) :
    validLoop (mkS st (.objKey :: σ) d) (jsonKey k ++ rest) = validLoop (mkS .beginValue (.objVal :: σ) d) rest := by
  have s1 : scanStep (mkS st (.objKey :: σ) d) 34 = (mkS .inString (.objKey :: σ) d, .beginLiteral) := by
    rcases hst with rfl | rfl <;> simp [scanStep, stateBeginString, isJsonWs, Scanner.goto]
  have s2 : scanStep (mkS .endValue (.objKey :: σ) d) 58 = (mkS .beginValue (.objVal :: σ) d, .objectKey) := by
    simp [scanStep, stateEndValue, isJsonWs]
  simp only [jsonKey, List.cons_append, List.nil_append, List.append_assoc]
  rw [validLoop_step _ s1 beginLiteral_ne, valid_SB (key_SB k hk),
    validLoop_step _ (step_inStr_quote _ d) cont_ne, validLoop_step _ s2 objectKey_ne]

theorem notText_invalid : ∀ (k : Nat) (σ : List ParseState) (d : Nat) (rest : Bytes), d + k = maxNestingDepth →
    validLoop (mkS .beginValue σ d) (notText k ++ rest) = false := by
  intro k
  induction k with
  | zero =>
    intro σ d rest hd
    obtain ⟨m, hm⟩ := leafText_head
    obtain ⟨s', hs'⟩ := step_open_fail σ d (by have := scan_max_eq; omega) 0x7B (.inr rfl)
    show validLoop _ (leafText ++ rest) = false
    rw [hm]
    exact validLoop_err _ hs'
  | succ k ih =>
    intro σ d rest hd
    have h1 : d + 1 ≤ maxNestingDepth := by omega
    show validLoop _ (notPre ++ notText k ++ notPost ++ rest) = false
    rw [notPre_eq]
    simp only [List.cons_append, List.append_assoc]
    rw [validLoop_step _ (step_open_obj σ d h1) beginObject_ne,
      valid_key "left" (by decide) .beginStringOrEmpty (.inl rfl)]
    exact ih _ (d + 1) _ (by omega)

theorem notText_not_valid : valid (notText maxNestingDepth) = false := by
  have := notText_invalid maxNestingDepth [] 0 [] (by omega)
  rwa [List.append_nil] at this

/-! the side conditions of the round trip hold of `notN k` -/

theorem semShapeT_notN : ∀ k, semShapeT (notN k) = true
  | 0 => by decide +kernel
  | k + 1 => by
    have := semShapeT_notN k
    simp only [notN, notE, semShapeT, semNodeT, this, Node.isNil, Bool.and_self]

theorem validate_notN : ∀ k, validateExpr (notN k) = true
  | 0 => by decide +kernel
  | k + 1 => by
    have := validate_notN k
    simp only [notN, notE, validateExpr, validateNode, validateOp, this, Node.isNil, Bool.and_self, Bool.not_false,
      Expr.left, Expr.right, Expr.op]

theorem strings_notN : ∀ k, allStringsValid (notN k) = true
  | 0 => by decide +kernel
  | k + 1 => by
    have := strings_notN k
    simp only [notN, notE, allStringsValid, allStringsValidNode, this, Bool.and_self]

theorem ints_notN : ∀ k, intsInt64 (notN k) = true
  | 0 => by decide +kernel
  | k + 1 => by
    have := ints_notN k
    have e : isInt64 1 = true := by decide
    simp only [notN, notE, intsInt64, intsInt64Node, this, e, Bool.and_self]

theorem depth_notN : ∀ k, depthExpr (notN k) = k + 1
  | 0 => by decide +kernel
  | k + 1 => by
    have := depth_notN k
    show depthExpr (.mk (.expr (notN k)) .not .nil F64.one 1) = _
    rw [depthExpr_node _ _ _ _ _ (by decide), depthNode_expr, depthNode_nil, this]
    omega

/-- Without `depthOK` the decoding clause of the round trip is FALSE of the model: `NOT(NOT(…(a:b)…))` with 10000 NOT
    nodes is in the fragment and passes every other side condition, the model's `marshalExpr` writes its text (10001
    nested objects) and `unmarshalTop` rejects that text (`Json.valid` = false: "exceeded max depth"). -/
theorem decode_needs_depth : ∃ e : Expr, NoPanic.semShapeT e = true ∧ validateExpr e = true ∧
    allStringsValid e = true ∧ intsInt64 e = true ∧ depthOK e = false ∧
    (∃ j, marshalExpr e = .ok j ∧ unmarshalTop j = .err) := by
  refine ⟨notN maxNestingDepth, semShapeT_notN _, validate_notN _, strings_notN _, ints_notN _, ?_,
    notText maxNestingDepth, marshal_notN _, ?_⟩
  · simp only [depthOK, depth_notN]
    decide
  · simp only [unmarshalTop, notText_not_valid, Bool.not_false, if_true]

#print axioms valid_enc_unbounded_false
#print axioms decode_needs_depth

end Laws
end GoLucene
