import GoLucene.Model.Num
/-
  FloatRT, part 1: `roundRatBits num den` (Model/Num.lean: the correctly rounded binary64 of a positive rational) maps
  every rational inside the rounding interval of a finite positive binary64 value `m · 2^e` back to the bits of that
  value.  Interface in `Rat` (core), computations in `Nat`.
-/
namespace GoLucene.FloatRT
open GoLucene Num

/-- `2^t` as a rational -/
def p2 (t : Int) : Rat := (2 : Rat) ^ t

theorem p2_pos (t : Int) : 0 < p2 t := Rat.zpow_pos (by decide)
theorem p2_ne (t : Int) : p2 t ≠ 0 := fun h => by have := p2_pos t; rw [h] at this; exact absurd this (by decide)
theorem p2_succ (t : Int) : p2 (t + 1) = p2 t * 2 := Rat.zpow_add_one (by decide) t
theorem p2_pred (t : Int) : p2 (t - 1) * 2 = p2 t := by
  have := p2_succ (t - 1); rw [Int.sub_add_cancel] at this; exact this.symm
theorem p2_add (a c : Int) : p2 (a + c) = p2 a * p2 c := Rat.zpow_add (by decide) a c
theorem p2_zero : p2 0 = 1 := Rat.zpow_zero 2
theorem p2_nat (n : Nat) : p2 (n : Int) = ((2 ^ n : Nat) : Rat) := by
  unfold p2; rw [Rat.zpow_natCast]; norm_cast
theorem p2_neg (t : Int) : p2 (-t) * p2 t = 1 := by
  rw [← p2_add, Int.add_comm, Int.add_right_neg, p2_zero]

theorem p2_le_add (a : Int) (n : Nat) : p2 a ≤ p2 (a + n) := by
  induction n with
  | zero => simp
  | succ n ih =>
    have e : a + ((n + 1 : Nat) : Int) = (a + n) + 1 := by omega
    rw [e, p2_succ]
    have := p2_pos (a + n)
    grind

theorem p2_mono {a c : Int} (h : a ≤ c) : p2 a ≤ p2 c := by
  obtain ⟨n, rfl⟩ : ∃ n : Nat, c = a + n := ⟨(c - a).toNat, by omega⟩
  exact p2_le_add a n

theorem p2_strict {a c : Int} (h : a < c) : p2 a < p2 c := by
  have h1 : p2 (a + 1) ≤ p2 c := p2_mono (by omega)
  have := p2_succ a
  have := p2_pos a
  grind

/-- `p2 a ≤ v < p2 c` forces `a < c` -/
theorem p2_lt_of {a c : Int} {v : Rat} (h1 : p2 a ≤ v) (h2 : v < p2 c) : a < c := by
  apply Decidable.byContradiction
  intro h
  have := p2_mono (show c ≤ a by omega)
  grind


/-! ## scaling a fraction by a power of two, in `Nat` -/

def sN (num : Nat) (t : Int) : Nat := if t ≥ 0 then num else num <<< (-t).toNat
def sD (den : Nat) (t : Int) : Nat := if t ≥ 0 then den <<< t.toNat else den

theorem div_mul_cancel3 (a c d : Rat) (hc : c ≠ 0) (hd : d ≠ 0) : a / c / d * (c * d) = a := by
  rw [Rat.div_def, Rat.div_def]
  have h1 := Rat.inv_mul_cancel c hc
  have h2 := Rat.inv_mul_cancel d hd
  calc a * c⁻¹ * d⁻¹ * (c * d) = a * (c⁻¹ * c) * (d⁻¹ * d) := by grind
    _ = a := by rw [h1, h2]; grind

/-- `sN / sD = (num / den) / 2^t` -/
theorem scaled (num den : Nat) (t : Int) (hden : 0 < den) :
    (sN num t : Rat) = (num : Rat) / den / p2 t * (sD den t : Rat) ∧ 0 < sD den t := by
  have hdr : (den : Rat) ≠ 0 := by
    intro h; have : den = 0 := by exact_mod_cast h
    omega
  by_cases ht : t ≥ 0
  · obtain ⟨n, rfl⟩ : ∃ n : Nat, t = n := ⟨t.toNat, by omega⟩
    simp only [sN, sD, ht, ↓reduceIte, Int.toNat_natCast, Nat.shiftLeft_eq]
    constructor
    · rw [p2_nat]
      push_cast
      have h2 : ((2 : Rat) ^ n) ≠ 0 := by
        have := p2_ne (n : Int); rw [p2_nat] at this; push_cast at this; exact this
      exact (div_mul_cancel3 _ _ _ hdr h2).symm
    · exact Nat.mul_pos hden (Nat.pow_pos (by decide))
  · obtain ⟨n, rfl⟩ : ∃ n : Nat, t = -(n : Int) := ⟨(-t).toNat, by omega⟩
    simp only [sN, sD, ht, ↓reduceIte, Int.neg_neg, Int.toNat_natCast, Nat.shiftLeft_eq]
    refine ⟨?_, hden⟩
    push_cast
    have h1 := p2_neg (-(n : Int))
    rw [Int.neg_neg, p2_nat] at h1
    push_cast at h1
    have h3 := p2_ne (-(n : Int))
    rw [Rat.div_def, Rat.div_def (num : Rat)]
    have h4 : (p2 (-(n : Int)))⁻¹ = (2 : Rat) ^ n := by
      have := Rat.inv_mul_cancel _ h3
      calc (p2 (-(n : Int)))⁻¹ = (p2 (-(n : Int)))⁻¹ * ((2 : Rat) ^ n * p2 (-(n : Int))) := by rw [h1]; grind
        _ = ((p2 (-(n : Int)))⁻¹ * p2 (-(n : Int))) * (2 : Rat) ^ n := by grind
        _ = (2 : Rat) ^ n := by rw [this]; grind
    rw [h4]
    have := Rat.inv_mul_cancel _ hdr
    calc (num : Rat) * (2 : Rat) ^ n = (num : Rat) * (2 : Rat) ^ n * ((den : Rat)⁻¹ * den) := by rw [this]; grind
      _ = _ := by grind


/-! ## from rational facts to cross-multiplied natural-number facts -/

theorem dpos {d' : Nat} (hd : 0 < d') : (0 : Rat) < (d' : Rat) := by exact_mod_cast hd

theorem cross_le {a c n' d' : Nat} {w : Rat} (hn : (n' : Rat) = w * d') (hd : 0 < d')
    (h : (a : Rat) ≤ c * w) : a * d' ≤ c * n' := by
  have := Rat.mul_le_mul_of_nonneg_right h (Rat.le_of_lt (dpos hd))
  have e : (c : Rat) * w * d' = c * n' := by rw [hn]; grind
  rw [e] at this
  exact_mod_cast this

theorem cross_lt {a c n' d' : Nat} {w : Rat} (hn : (n' : Rat) = w * d') (hd : 0 < d')
    (h : (a : Rat) < c * w) : a * d' < c * n' := by
  have := Rat.mul_lt_mul_of_pos_right h (dpos hd)
  have e : (c : Rat) * w * d' = c * n' := by rw [hn]; grind
  rw [e] at this
  exact_mod_cast this

theorem cross_ge {a c n' d' : Nat} {w : Rat} (hn : (n' : Rat) = w * d') (hd : 0 < d')
    (h : (c : Rat) * w ≤ a) : c * n' ≤ a * d' := by
  have := Rat.mul_le_mul_of_nonneg_right h (Rat.le_of_lt (dpos hd))
  have e : (c : Rat) * w * d' = c * n' := by rw [hn]; grind
  rw [e] at this
  exact_mod_cast this

theorem cross_gt {a c n' d' : Nat} {w : Rat} (hn : (n' : Rat) = w * d') (hd : 0 < d')
    (h : (c : Rat) * w < a) : c * n' < a * d' := by
  have := Rat.mul_lt_mul_of_pos_right h (dpos hd)
  have e : (c : Rat) * w * d' = c * n' := by rw [hn]; grind
  rw [e] at this
  exact_mod_cast this

/-- conversely: a cross-multiplied fact is a fact about the quotient -/
theorem uncross_le {n' d' : Nat} {w : Rat} (hn : (n' : Rat) = w * d') (hd : 0 < d') (h : d' ≤ n') : 1 ≤ w := by
  have h1 : (d' : Rat) ≤ n' := by exact_mod_cast h
  rw [hn] at h1
  have := dpos hd
  apply Decidable.byContradiction
  intro hw
  have hw' : w < 1 := Rat.not_le.mp hw
  have := Rat.mul_lt_mul_of_pos_right hw' (dpos hd)
  grind

theorem uncross_lt {n' d' : Nat} {w : Rat} (hn : (n' : Rat) = w * d') (hd : 0 < d') (h : n' < d') : w < 1 := by
  have h1 : (n' : Rat) < d' := by exact_mod_cast h
  rw [hn] at h1
  apply Decidable.byContradiction
  intro hw
  have hw' : 1 ≤ w := Rat.not_lt.mp hw
  have := Rat.mul_le_mul_of_nonneg_right hw' (Rat.le_of_lt (dpos hd))
  grind

theorem div_mul_p2 (v : Rat) (t : Int) : v / p2 t * p2 t = v := Rat.div_mul_cancel (p2_ne t)

/-! ## the binary exponent computed by `roundRatBits` -/

/-- `⌊log2 (num/den)⌋` as `roundRatBits` computes it -/
def flog (num den : Nat) : Int :=
  let d : Int := (Nat.log2 num : Int) - (Nat.log2 den : Int)
  if sD den d ≤ sN num d then d else d - 1

theorem nat_log2_rat (n : Nat) (h : n ≠ 0) : p2 (Nat.log2 n) ≤ (n : Rat) ∧ (n : Rat) < p2 ((Nat.log2 n : Int) + 1) := by
  have h1 := Nat.log2_self_le h
  have h2 := @Nat.lt_log2_self n
  constructor
  · rw [p2_nat]; exact_mod_cast h1
  · have : ((Nat.log2 n : Int) + 1) = ((Nat.log2 n + 1 : Nat) : Int) := by omega
    rw [this, p2_nat]; exact_mod_cast h2

theorem flog_spec (num den : Nat) (hn : 0 < num) (hd : 0 < den) :
    p2 (flog num den) ≤ (num : Rat) / den ∧ (num : Rat) / den < p2 (flog num den + 1) := by
  have ha := nat_log2_rat num (by omega)
  have hb := nat_log2_rat den (by omega)
  have hdr := dpos hd
  generalize hv : (num : Rat) / den = v
  have hnv : (num : Rat) = v * den := by rw [← hv, Rat.div_mul_cancel (by grind)]
  generalize hA : (Nat.log2 num : Int) = a at ha
  generalize hB : (Nat.log2 den : Int) = c at hb
  have hlow : p2 (a - c - 1) < v := by
    -- v * den ≥ p2 a, den < p2 (c+1)
    have e : p2 a = p2 (a - c - 1) * p2 (c + 1) := by rw [← p2_add]; congr 1; omega
    apply Decidable.byContradiction
    intro hcon
    have hcon' : v ≤ p2 (a - c - 1) := Rat.not_lt.mp hcon
    have h1 := Rat.mul_le_mul_of_nonneg_right hcon' (Rat.le_of_lt hdr)
    have h2 := Rat.mul_lt_mul_of_pos_left hb.2 (p2_pos (a - c - 1))
    grind
  have hhigh : v < p2 (a - c + 1) := by
    have e : p2 (a + 1) = p2 (a - c + 1) * p2 c := by rw [← p2_add]; congr 1; omega
    apply Decidable.byContradiction
    intro hcon
    have hcon' : p2 (a - c + 1) ≤ v := Rat.not_lt.mp hcon
    have h1 := Rat.mul_le_mul_of_nonneg_right hcon' (Rat.le_of_lt hdr)
    have h2 := Rat.mul_le_mul_of_nonneg_left hb.1 (Rat.le_of_lt (p2_pos (a - c + 1)))
    grind
  obtain ⟨hs, hsd⟩ := scaled num den (a - c) hd
  rw [hv] at hs
  unfold flog
  simp only [hA, hB]
  split
  · rename_i hge
    have := uncross_le hs hsd hge
    have h3 := div_mul_p2 v (a - c)
    have := Rat.mul_le_mul_of_nonneg_right this (Rat.le_of_lt (p2_pos (a - c)))
    exact ⟨by grind, hhigh⟩
  · rename_i hge
    have := uncross_lt hs hsd (by omega)
    have h3 := div_mul_p2 v (a - c)
    have := Rat.mul_lt_mul_of_pos_right this (p2_pos (a - c))
    have e : a - c - 1 + 1 = a - c := by omega
    rw [e]
    exact ⟨Rat.le_of_lt hlow, by grind⟩


/-! ## `roundRatBits` restated -/

def rbits (num den : Nat) (e' : Int) : Nat :=
  let q := sN num e' / sD den e'
  let r := sN num e' % sD den e'
  let q' := if sD den e' < 2 * r ∨ (2 * r = sD den e' ∧ q % 2 = 1) then q + 1 else q
  (e' + 1074).toNat * two52 + q'

def expOfLog (L : Int) : Int := if L - 52 < -1074 then -1074 else L - 52

theorem roundRatBits_eq (num den : Nat) (hn : num ≠ 0) (hd : den ≠ 0) :
    roundRatBits num den = rbits num den (expOfLog (flog num den)) := by
  unfold roundRatBits rbits expOfLog flog
  simp only [hn, hd, or_self, ↓reduceIte]
  have hge : (if (Nat.log2 num : Int) - (Nat.log2 den : Int) ≥ 0 then
        decide (den <<< ((Nat.log2 num : Int) - (Nat.log2 den : Int)).toNat ≤ num)
      else decide (den ≤ num <<< (-((Nat.log2 num : Int) - (Nat.log2 den : Int))).toNat)) =
      decide (sD den ((Nat.log2 num : Int) - (Nat.log2 den : Int)) ≤ sN num ((Nat.log2 num : Int) - (Nat.log2 den : Int))) := by
    unfold sD sN
    split <;> rfl
  rw [hge]
  simp only [decide_eq_true_eq]
  rfl


/-! ## rounding to nearest even, in `Nat` -/

def rnd (n' d' : Nat) : Nat :=
  if d' < 2 * (n' % d') ∨ (2 * (n' % d') = d' ∧ n' / d' % 2 = 1) then n' / d' + 1 else n' / d'

theorem rbits_rnd (num den : Nat) (e' : Int) :
    rbits num den e' = (e' + 1074).toNat * two52 + rnd (sN num e') (sD den e') := rfl

/-- the quotient lies within half a unit of `m` (ties only for even `m`): it rounds to `m` -/
theorem rnd_near (n' d' m : Nat) (hd : 0 < d') (hm : 0 < m)
    (hlo : (4 * m - 2) * d' ≤ 4 * n') (hhi : 4 * n' ≤ (4 * m + 2) * d')
    (htlo : (4 * m - 2) * d' = 4 * n' → m % 2 = 0) (hthi : 4 * n' = (4 * m + 2) * d' → m % 2 = 0) :
    rnd n' d' = m := by
  have hdm := Nat.div_add_mod n' d'
  have hr := Nat.mod_lt n' hd
  generalize hq : n' / d' = q at hdm
  generalize hrr : n' % d' = r at hdm hr
  have e1 : (4 * m - 2) * d' = 4 * (m * d') - 2 * d' := by
    rw [Nat.sub_mul, Nat.mul_assoc]
  have e2 : (4 * m + 2) * d' = 4 * (m * d') + 2 * d' := by
    rw [Nat.add_mul, Nat.mul_assoc]
  have hmd : d' ≤ m * d' := Nat.le_mul_of_pos_left d' hm
  rw [e1] at hlo htlo
  rw [e2] at hhi hthi
  have hqm : q = m ∨ q + 1 = m := by
    have h1 : q < m + 1 := by
      rw [← hq]; apply (Nat.div_lt_iff_lt_mul hd).mpr
      rw [Nat.add_mul]; omega
    have h2 : m - 1 ≤ q := by
      rw [← hq]; apply (Nat.le_div_iff_mul_le hd).mpr
      rw [Nat.sub_mul]; omega
    omega
  unfold rnd
  rw [hq, hrr]
  rcases hqm with rfl | rfl
  · -- q = m
    have hn : n' = q * d' + r := by rw [Nat.mul_comm]; exact hdm.symm
    have h3 : 2 * r ≤ d' := by omega
    have h4 : ¬ (d' < 2 * r) := by omega
    have h5 : ¬ (2 * r = d' ∧ q % 2 = 1) := by
      intro ⟨h6, h7⟩
      have := hthi (by omega)
      omega
    simp only [h4, h5, or_self, ↓reduceIte]
  · -- q + 1 = m
    have hn : n' = q * d' + r := by rw [Nat.mul_comm]; exact hdm.symm
    have e3 : (q + 1) * d' = q * d' + d' := by rw [Nat.add_mul, Nat.one_mul]
    rw [e3] at hlo htlo hhi hthi hmd
    have h3 : d' ≤ 2 * r := by omega
    by_cases h4 : d' < 2 * r
    · simp only [h4, true_or, ↓reduceIte]
    · have h6 : 2 * r = d' := by omega
      have := htlo (by omega)
      have h7 : q % 2 = 1 := by omega
      simp only [h6, h7, and_self, or_true, ↓reduceIte]

/-- just below a power of two (the lower neighbour is half as far away): the quotient rounds up to `2^53` -/
theorem rnd_carry (n' d' : Nat) (hd : 0 < d')
    (hlo : (2 ^ 54 - 1) * d' ≤ 2 * n') (hhi : n' < 2 ^ 53 * d') : rnd n' d' = 2 ^ 53 := by
  have hdm := Nat.div_add_mod n' d'
  have hr := Nat.mod_lt n' hd
  generalize hq : n' / d' = q at hdm
  generalize hrr : n' % d' = r at hdm hr
  have hqv : q = 2 ^ 53 - 1 := by
    have h1 : q < 2 ^ 53 := by
      rw [← hq]; exact (Nat.div_lt_iff_lt_mul hd).mpr hhi
    have h2 : 2 ^ 53 - 1 ≤ q := by
      rw [← hq]; apply (Nat.le_div_iff_mul_le hd).mpr
      have e : (2 ^ 54 - 1) * d' = 2 * ((2 ^ 53 - 1) * d') + d' := by
        have : (2 : Nat) ^ 54 - 1 = 2 * (2 ^ 53 - 1) + 1 := by decide
        rw [this, Nat.add_mul, Nat.mul_assoc, Nat.one_mul]
      omega
    omega
  unfold rnd
  rw [hq, hrr]
  have hn : n' = q * d' + r := by rw [Nat.mul_comm]; exact hdm.symm
  have e : (2 ^ 54 - 1) * d' = 2 * (q * d') + d' := by
    have : (2 : Nat) ^ 54 - 1 = 2 * (2 ^ 53 - 1) + 1 := by decide
    rw [this, Nat.add_mul, Nat.mul_assoc, Nat.one_mul, hqv]
  have h3 : d' ≤ 2 * r := by omega
  have h7 : q % 2 = 1 := by rw [hqv]
  have hq1 : q + 1 = 2 ^ 53 := by rw [hqv]
  by_cases h4 : d' < 2 * r
  · simp only [h4, true_or, ↓reduceIte, hq1]
  · have h6 : 2 * r = d' := by omega
    simp only [h6, h7, and_self, or_true, ↓reduceIte, hq1]


/-! ## the rounding interval of a finite binary64 value, and the main lemma -/

/-- four times the lower end of the rounding interval, in units of `2^(e-2)`: the lower neighbour is half as far
    away at the bottom of a binade -/
def lo4 (m : Nat) (e : Int) : Nat := if m = 2 ^ 52 ∧ e ≠ -1074 then 4 * m - 1 else 4 * m - 2

/-- `v` lies in the rounding interval of `m · 2^e` (closed for even `m`: ties go to even) -/
def InIv (m : Nat) (e : Int) (v : Rat) : Prop :=
  if m % 2 = 0 then (lo4 m e : Rat) * p2 (e - 2) ≤ v ∧ v ≤ ((4 * m + 2 : Nat) : Rat) * p2 (e - 2)
  else (lo4 m e : Rat) * p2 (e - 2) < v ∧ v < ((4 * m + 2 : Nat) : Rat) * p2 (e - 2)

theorem InIv.weak {m : Nat} {e : Int} {v : Rat} (h : InIv m e v) :
    (lo4 m e : Rat) * p2 (e - 2) ≤ v ∧ v ≤ ((4 * m + 2 : Nat) : Rat) * p2 (e - 2) := by
  unfold InIv at h
  split at h
  · exact h
  · exact ⟨Rat.le_of_lt h.1, Rat.le_of_lt h.2⟩

theorem InIv.strict {m : Nat} {e : Int} {v : Rat} (h : InIv m e v) (hodd : m % 2 = 1) :
    (lo4 m e : Rat) * p2 (e - 2) < v ∧ v < ((4 * m + 2 : Nat) : Rat) * p2 (e - 2) := by
  unfold InIv at h
  split at h
  · omega
  · exact h

theorem p2_e (e : Int) : p2 e = p2 (e - 2) * 4 := by
  have := p2_add (e - 2) 2
  have e2 : e - 2 + 2 = e := by omega
  rw [e2] at this
  rw [this]
  have : p2 2 = 4 := by
    have := p2_nat 2
    simpa using this
  rw [this]

theorem p2_em1 (e : Int) : p2 (e - 1) = p2 (e - 2) * 2 := by
  have := p2_succ (e - 2)
  have e2 : e - 2 + 1 = e - 1 := by omega
  rw [e2] at this
  exact this

theorem p2_shift (e : Int) (n : Nat) : p2 (e - 2 + n) = p2 (e - 2) * ((2 ^ n : Nat) : Rat) := by
  rw [p2_add, p2_nat]

/-- facts at scale `t` from facts about `v`, where `p2 t = k · u` -/
theorem at_scale_ge {v u : Rat} {k a : Nat} {t : Int} (hu : 0 < u) (hk : p2 t = u * k)
    (h : (a : Rat) * u ≤ v) : (a : Rat) ≤ (k : Rat) * (v / p2 t) := by
  have h3 := div_mul_p2 v t
  generalize v / p2 t = w at h3 ⊢
  apply Decidable.byContradiction
  intro hcon
  have hcon' : (k : Rat) * w < a := Rat.not_le.mp hcon
  have := Rat.mul_lt_mul_of_pos_right hcon' hu
  rw [hk] at h3
  grind

theorem at_scale_gt {v u : Rat} {k a : Nat} {t : Int} (hu : 0 < u) (hk : p2 t = u * k)
    (h : (a : Rat) * u < v) : (a : Rat) < (k : Rat) * (v / p2 t) := by
  have h3 := div_mul_p2 v t
  generalize v / p2 t = w at h3 ⊢
  apply Decidable.byContradiction
  intro hcon
  have hcon' : (k : Rat) * w ≤ a := Rat.not_lt.mp hcon
  have := Rat.mul_le_mul_of_nonneg_right hcon' (Rat.le_of_lt hu)
  rw [hk] at h3
  grind

theorem at_scale_le {v u : Rat} {k a : Nat} {t : Int} (hu : 0 < u) (hk : p2 t = u * k)
    (h : v ≤ (a : Rat) * u) : (k : Rat) * (v / p2 t) ≤ (a : Rat) := by
  have h3 := div_mul_p2 v t
  generalize v / p2 t = w at h3 ⊢
  apply Decidable.byContradiction
  intro hcon
  have hcon' : (a : Rat) < (k : Rat) * w := Rat.not_le.mp hcon
  have := Rat.mul_lt_mul_of_pos_right hcon' hu
  rw [hk] at h3
  grind

theorem at_scale_lt {v u : Rat} {k a : Nat} {t : Int} (hu : 0 < u) (hk : p2 t = u * k)
    (h : v < (a : Rat) * u) : (k : Rat) * (v / p2 t) < (a : Rat) := by
  have h3 := div_mul_p2 v t
  generalize v / p2 t = w at h3 ⊢
  apply Decidable.byContradiction
  intro hcon
  have hcon' : (a : Rat) ≤ (k : Rat) * w := Rat.not_lt.mp hcon
  have := Rat.mul_le_mul_of_nonneg_right hcon' (Rat.le_of_lt hu)
  rw [hk] at h3
  grind


theorem natCast4 : ((4 : Nat) : Rat) = 4 := by norm_cast

/-- the scaled quotient lies within half a unit of `m` -/
theorem caseA (num den m : Nat) (e : Int) (hden : 0 < den) (hm : 0 < m)
    (hI : InIv m e ((num : Rat) / den)) : rbits num den e = (e + 1074).toNat * two52 + m := by
  obtain ⟨hs, hd'⟩ := scaled num den e hden
  have hu := p2_pos (e - 2)
  have hk : p2 e = p2 (e - 2) * ((4 : Nat) : Rat) := by rw [natCast4]; exact p2_e e
  rw [rbits_rnd]
  congr 1
  have hw := hI.weak
  have h1 := cross_le hs hd' (at_scale_ge hu hk hw.1)
  have h2 := cross_ge hs hd' (at_scale_le hu hk hw.2)
  have hlo4 : 4 * m - 2 ≤ lo4 m e := by unfold lo4; split <;> omega
  have hlo : (4 * m - 2) * sD den e ≤ 4 * sN num e :=
    Nat.le_trans (Nat.mul_le_mul_right _ hlo4) h1
  apply rnd_near _ _ m hd' hm hlo h2
  · intro heq
    by_cases hpar : m % 2 = 0
    · exact hpar
    · exfalso
      have hst := hI.strict (by omega)
      have h3 := cross_lt hs hd' (at_scale_gt hu hk hst.1)
      have : (4 * m - 2) * sD den e ≤ lo4 m e * sD den e := Nat.mul_le_mul_right _ hlo4
      omega
  · intro heq
    by_cases hpar : m % 2 = 0
    · exact hpar
    · exfalso
      have hst := hI.strict (by omega)
      have h3 := cross_gt hs hd' (at_scale_lt hu hk hst.2)
      omega

/-- MAIN LEMMA: every rational in the rounding interval of `m · 2^e` is rounded to the bits of `m · 2^e` -/
theorem roundRat_spec (num den m : Nat) (e : Int) (hnum : 0 < num) (hden : 0 < den) (hm : 0 < m)
    (hm53 : m < 2 ^ 53) (he : -1074 ≤ e) (hnorm : -1074 < e → 2 ^ 52 ≤ m)
    (hI : InIv m e ((num : Rat) / den)) :
    roundRatBits num den = (e + 1074).toNat * two52 + m := by
  rw [roundRatBits_eq num den (by omega) (by omega)]
  obtain ⟨hL1, hL2⟩ := flog_spec num den hnum hden
  generalize flog num den = L at hL1 hL2
  have hw := hI.weak
  generalize hv : (num : Rat) / den = v at hL1 hL2 hw
  have hu := p2_pos (e - 2)
  -- upper bound on L
  have hup : L ≤ e + 52 := by
    have h55 : v < p2 (e - 2 + (55 : Nat)) := by
      rw [p2_shift]
      have : ((4 * m + 2 : Nat) : Rat) < ((2 ^ 55 : Nat) : Rat) := by
        have : 4 * m + 2 < 2 ^ 55 := by omega
        exact_mod_cast this
      have := Rat.mul_lt_mul_of_pos_right this hu
      grind
    have := p2_lt_of hL1 h55
    omega
  by_cases he0 : e = -1074
  · have : expOfLog L = e := by unfold expOfLog; split <;> omega
    rw [this]
    exact caseA num den m e hden hm (hv ▸ hI)
  · have hm52 := hnorm (by omega)
    by_cases hmb : m = 2 ^ 52
    · -- bottom of a binade
      have hlo4 : lo4 m e = 2 ^ 54 - 1 := by
        unfold lo4; rw [if_pos ⟨hmb, he0⟩, hmb]
      have hlow : e + 51 ≤ L := by
        have h53 : p2 (e - 2 + (53 : Nat)) ≤ v := by
          rw [p2_shift]
          have : ((2 ^ 53 : Nat) : Rat) ≤ ((lo4 m e : Nat) : Rat) := by
            rw [hlo4]; norm_cast
          have := Rat.mul_le_mul_of_nonneg_right this (Rat.le_of_lt hu)
          grind
        have := p2_lt_of h53 hL2
        omega
      by_cases hL : L = e + 52
      · have : expOfLog L = e := by unfold expOfLog; split <;> omega
        rw [this]
        exact caseA num den m e hden hm (hv ▸ hI)
      · have hLe : L = e + 51 := by omega
        have hexp : expOfLog L = e - 1 := by unfold expOfLog; split <;> omega
        rw [hexp, rbits_rnd]
        obtain ⟨hs, hd'⟩ := scaled num den (e - 1) hden
        rw [hv] at hs
        have hk : p2 (e - 1) = p2 (e - 2) * ((2 : Nat) : Rat) := by
          rw [p2_em1]; norm_cast
        have h1 : (2 ^ 54 - 1) * sD den (e - 1) ≤ 2 * sN num (e - 1) := by
          have := cross_le hs hd' (at_scale_ge hu hk hw.1)
          rw [hlo4] at this
          exact this
        have h2 : sN num (e - 1) < 2 ^ 53 * sD den (e - 1) := by
          have h54 : v < ((2 ^ 54 : Nat) : Rat) * p2 (e - 2) := by
            have := p2_shift e 54
            have e2 : e - 2 + ((54 : Nat) : Int) = L + 1 := by omega
            rw [e2] at this
            rw [this] at hL2
            grind
          have := cross_gt hs hd' (at_scale_lt hu hk h54)
          have e3 : (2 : Nat) ^ 54 * sD den (e - 1) = 2 * (2 ^ 53 * sD den (e - 1)) := by
            rw [← Nat.mul_assoc]
          omega
        rw [rnd_carry _ _ hd' h1 h2, hmb]
        have : (e - 1 + 1074).toNat + 1 = (e + 1074).toNat := by omega
        rw [← this]
        unfold two52
        omega
    · -- inside a binade
      have hlo4 : lo4 m e = 4 * m - 2 := by
        unfold lo4; rw [if_neg (by intro h; exact hmb h.1)]
      have hlow : e + 52 ≤ L := by
        have h54 : p2 (e - 2 + (54 : Nat)) ≤ v := by
          rw [p2_shift]
          have : ((2 ^ 54 : Nat) : Rat) ≤ ((lo4 m e : Nat) : Rat) := by
            rw [hlo4]
            have : 2 ^ 54 ≤ 4 * m - 2 := by omega
            exact_mod_cast this
          have := Rat.mul_le_mul_of_nonneg_right this (Rat.le_of_lt hu)
          grind
        have := p2_lt_of h54 hL2
        omega
      have : expOfLog L = e := by unfold expOfLog; split <;> omega
      rw [this]
      exact caseA num den m e hden hm (hv ▸ hI)

end GoLucene.FloatRT

#print axioms GoLucene.FloatRT.roundRat_spec
