import GoLucene.Proofs.Der
namespace GoLucene

theorem goods_append {a b : List Item} {sa sb : List (List Tok)} (ha : Goods a sa) (hb : Goods b sb) :
    Goods (a ++ b) (sa ++ sb) := by
  induction ha with
  | nil => simpa using hb
  | cons h _ ih => exact Goods.cons h ih

theorem goods_append_inv {a b : List Item} {ss : List (List Tok)} (h : Goods (a ++ b) ss) :
    ∃ sa sb, ss = sa ++ sb ∧ Goods a sa ∧ Goods b sb := by
  induction a generalizing ss with
  | nil => exact ⟨[], ss, rfl, Goods.nil, by simpa using h⟩
  | cons x xs ih =>
    obtain ⟨s, r, rfl, g, h'⟩ := goods_cons_inv (by simpa using h)
    obtain ⟨sa, sb, rfl, ga, gb⟩ := ih h'
    exact ⟨s :: sa, sb, rfl, Goods.cons g ga, gb⟩

/-- stack invariant: the stack (stored top first) spells the consumed tokens -/
def SInv (stack : List Item) (ts : List Tok) : Prop :=
  ∃ segs, Goods stack.reverse segs ∧ segs.flatten = ts

theorem reduceLoop_sound (isNum : Bool → Ex → Bool) : ∀ (st acc : List Item) (segs : List (List Tok)) (st' : List Item) (k : Nat),
    Goods (st.reverse ++ acc) segs → reduceLoop isNum st acc = some (st', k) →
    ∃ segs', Goods st'.reverse segs' ∧ segs'.flatten = segs.flatten := by
  intro st
  induction st with
  | nil => intro acc segs st' k _ h; simp [reduceLoop] at h
  | cons s rest ih =>
    intro acc segs st' k hg h
    simp only [reduceLoop] at h
    split at h
    · rename_i repl k' hr
      simp at h
      obtain ⟨rfl, rfl⟩ := h
      have hg' : Goods (rest.reverse ++ (s :: acc)) segs := by simpa using hg
      obtain ⟨sa, sb, rfl, ga, gb⟩ := goods_append_inv hg'
      obtain ⟨e, rfl, hd⟩ := tryReduce_sound isNum _ _ gb _ _ hr
      refine ⟨sa ++ [sb.flatten], ?_, by simp⟩
      simpa using goods_append ga (Goods.cons (it := .ex e) hd Goods.nil)
    · exact ih (s :: acc) segs st' k (by simpa using hg) h

theorem reduce_sound (isNum : Bool → Ex → Bool) (c c' : Cfg) (ts : List Tok) (hi : SInv c.stack ts)
    (h : reduce isNum c = some c') : SInv c'.stack ts := by
  unfold reduce at h
  split at h
  · rename_i st k hr
    simp at h; subst h
    obtain ⟨segs, hg, rfl⟩ := hi
    obtain ⟨segs', hg', hf⟩ := reduceLoop_sound isNum c.stack [] segs st k (by simpa using hg) hr
    exact ⟨segs', hg', hf⟩
  · simp at h

theorem reduceUntilShift_sound (isNum : Bool → Ex → Bool) (next : TT) (ts : List Tok) :
    ∀ (fuel : Nat) (c c' : Cfg), SInv c.stack ts → reduceUntilShift isNum next fuel c = some c' → SInv c'.stack ts := by
  intro fuel
  induction fuel with
  | zero => intro c c' _ h; simp [reduceUntilShift] at h
  | succ n ih =>
    intro c c' hi h
    simp only [reduceUntilShift] at h
    split at h
    · simp at h; subst h; exact hi
    · split at h
      · simp at h
      · rename_i c1 hr
        exact ih c1 c' (reduce_sound isNum c c1 ts hi hr) h

theorem sinv_push (stack : List Item) (ts : List Tok) (it : Item) (seg : List Tok)
    (hi : SInv stack ts) (hg : good it seg) : SInv (it :: stack) (ts ++ seg) := by
  obtain ⟨segs, hgs, rfl⟩ := hi
  refine ⟨segs ++ [seg], ?_, by simp⟩
  simpa using goods_append hgs (Goods.cons hg Goods.nil)

theorem term_of_shift {cur t : TT} (h1 : shouldShift cur t = true) (h2 : t.isTerminal = true) : t.isTerm = true := by
  cases t <;> simp_all [shouldShift, TT.isTerminal, TT.isTerm]

/-- C06 (token level): whatever the parser accepts has a derivation in the documented grammar, and the
    returned tree is the tree of that derivation. -/
theorem run_sound (isNum : Bool → Ex → Bool) : ∀ (n : Nat) (c : Cfg) (toks consumed : List Tok) (e : Ex),
    3 * toks.length + c.stack.length ≤ n → (∀ t ∈ toks, t.typ ≠ .eof) → SInv c.stack consumed →
    runW isNum c toks = .ok e → Der (consumed ++ toks) e := by
  intro n
  induction n with
  | zero =>
    intro c toks consumed e hn _ hi h
    have ht : toks = [] := List.length_eq_zero_iff.mp (by omega)
    have hs : c.stack = [] := List.length_eq_zero_iff.mp (by omega)
    subst ht
    rw [runW.eq_def] at h
    simp only [nextOf, shouldShift] at h
    split at h
    · rename_i hacc
      simp [hs] at hacc
    · simp only [if_true, Bool.false_eq_true, if_false] at h
      split at h
      · simp at h
      · rename_i c' hr
        have hl := reduce_len isNum _ _ hr
        simp [hs] at hl
  | succ n ih =>
    intro c toks consumed e hn hne hi h
    cases toks with
    | nil =>
      rw [runW.eq_def] at h
      simp only [nextOf, shouldShift] at h
      split at h
      · rename_i hacc
        split at h
        · rename_i e' hst
          simp at h; subst h
          obtain ⟨segs, hg, rfl⟩ := hi
          rw [hst] at hg
          obtain ⟨s, r, rfl, g, hg'⟩ := goods_cons_inv (by simpa using hg)
          have := goods_nil_inv hg'; subst this
          simpa [good] using g
        · simp at h
      · simp only [if_true, Bool.false_eq_true, if_false] at h
        split at h
        · simp at h
        · rename_i c' hr
          have hl := reduce_len isNum _ _ hr
          exact ih c' [] consumed e (by simp at hn ⊢; omega) hne (reduce_sound isNum c c' consumed hi hr) h
    | cons x tl =>
      have hx : x.typ ≠ .eof := hne x (by simp)
      have hne' : ∀ t ∈ tl, t.typ ≠ .eof := fun t ht => hne t (by simp [ht])
      rw [runW_cons] at h
      simp only [hx, and_false, if_false] at h
      split at h
      · rename_i hs
        split at h
        · rename_i hterm
          have hxt := term_of_shift hs hterm
          split at h
          · split at h
            · simp at h
            · rename_i c' hc'
              have hl := reduceUntilShift_len isNum _ _ _ _ hc'
              have hi' := reduceUntilShift_sound isNum .tand consumed _ c c' hi hc'
              have h2 := sinv_push _ _ (.tok .tand) [] hi' (Or.inr ⟨rfl, rfl⟩)
              have h3 := sinv_push _ _ (.ex (.leaf x)) [x] h2 (Der.leaf x hxt)
              have := ih _ tl (consumed ++ [] ++ [x]) e (by simp at hn ⊢; omega) hne' h3 h
              simpa using this
          · have h3 := sinv_push _ _ (.ex (.leaf x)) [x] hi (Der.leaf x hxt)
            have := ih _ tl (consumed ++ [x]) e (by simp at hn ⊢; omega) hne' h3 h
            simpa using this
        · have h3 := sinv_push _ _ (.tok x.typ) [x] hi (Or.inl ⟨x, rfl, rfl⟩)
          have := ih _ tl (consumed ++ [x]) e (by simp at hn ⊢; omega) hne' h3 h
          simpa using this
      · split at h
        · simp at h
        · rename_i c' hr
          have hl := reduce_len isNum _ _ hr
          exact ih c' (x :: tl) consumed e (by simp at hn ⊢; omega) hne (reduce_sound isNum c c' consumed hi hr) h

theorem parse_sound (isNum : Bool → Ex → Bool) (toks : List Tok) (e : Ex) (hne : ∀ t ∈ toks, t.typ ≠ .eof)
    (h : parseToks isNum toks = .ok e) : Der toks e := by
  have := run_sound isNum _ ⟨[], [.start]⟩ toks [] e (Nat.le_refl _) hne ⟨[], by simpa using Goods.nil, rfl⟩ h
  simpa using this

end GoLucene
