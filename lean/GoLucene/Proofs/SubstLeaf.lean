import GoLucene.Proofs.ParamAgree
import GoLucene.Proofs.SqlMeaning
import GoLucene.Proofs.SubstTmpl
/-
  C04, substitution clause — the pieces: leaves, the table of render functions, LIKE, value lists, range boundaries.
-/
set_option linter.unusedSimpArgs false
set_option linter.unusedVariables false

namespace GoLucene.Subst
open GoLucene.NoPanic GoLucene.ParamAgree GoLucene.SqlMeaning

/-! ### fixed texts are clean -/

theorem clean_b_and : cleanFrom false (b " AND ") = true := by decide
theorem clean_b_or : cleanFrom false (b " OR ") = true := by decide
theorem clean_b_eq : cleanFrom false (b " = ") = true := by decide
theorem clean_b_gt : cleanFrom false (b " > ") = true := by decide
theorem clean_b_ge : cleanFrom false (b " >= ") = true := by decide
theorem clean_b_lt : cleanFrom false (b " < ") = true := by decide
theorem clean_b_le : cleanFrom false (b " <= ") = true := by decide
theorem clean_b_in : cleanFrom false (b " IN ") = true := by decide
theorem clean_b_not : cleanFrom false (b "NOT(") = true := by decide
theorem clean_b_lp : cleanFrom false (b "(") = true := by decide
theorem clean_b_rp : cleanFrom false (b ")") = true := by decide
theorem clean_b_lb : cleanFrom false (b "[") = true := by decide
theorem clean_b_rb : cleanFrom false (b "]") = true := by decide
theorem clean_b_comma : cleanFrom false (b ", ") = true := by decide
theorem clean_b_tilde : cleanFrom false (b " ~ ") = true := by decide
theorem clean_b_similar : cleanFrom false (b " SIMILAR TO ") = true := by decide
theorem clean_b_between : cleanFrom false (b " BETWEEN ") = true := by decide
theorem clean_starQ : cleanFrom false starQ = true := by decide

theorem bq : b "?" = [63] := by decide

/-! ### raw values and leaves -/

theorem serialize_prim_val (q : Prim) (hq : ∀ s, q ≠ .col s) : serialize pgFns (.prim q) = .ok (litText q) := by
  cases q
  case col v => exact absurd rfl (hq v)
  all_goals simp [serialize, litText]

theorem serializeCol_clean (v t : Bytes) (h : serializeCol v = .ok t) : cleanFrom false t = true := by
  unfold serializeCol at h
  split at h
  · cases h
  · split at h
    · cases h
    · rename_i hq
      simp at h
      subst h
      apply cleanFrom_quoted
      intro c hc he
      subst he
      exact hq (by simp [List.any_eq_true]; exact hc)

/-- an operand position holding a raw value -/
theorem prim_inst (q : Prim) (sI sP : Bytes) (ps : List Prim) (h1 : serialize pgFns (.prim q) = .ok sI)
    (h2 : serializeParams pgFns (.prim q) = .ok (sP, ps)) : HasT ps sP sI := by
  cases q
  case col v =>
    rw [sp_col] at h2
    simp only [serialize] at h1
    rw [h1] at h2
    simp at h2
    obtain ⟨rfl, rfl⟩ := h2
    exact HasT.text _ (serializeCol_clean v _ h1)
  all_goals
    rw [serialize_prim_val _ (by intro s h; cases h)] at h1
    rw [sp_prim_val _ _ (by intro s h; cases h)] at h2
    simp at h1 h2
    obtain ⟨rfl, rfl⟩ := h2
    subst h1
    rw [bq]
    exact HasT.hole _

/-- the inline text of a leaf over a raw value that is not a Column -/
theorem render_leaf_inv (q : Prim) (o : Op) (p : F64) (d : Int) (hq : ∀ s, q ≠ .col s)
    (ho : o.isLeafOp = true) (hk : o = .literal ∨ ∃ s, q = .str s) (t : Bytes)
    (h : render pgFns (.mk (.prim q) o .nil p d) = .ok t) : t = litText q := by
  obtain ⟨sl, sr, fn, h1, h2, h3, h4⟩ := render_ok_inv _ _ _ _ _ _ h
  have hpl : (parenOps o && !isSimple (.prim q)) = false := by
    rcases hk with rfl | ⟨s, rfl⟩
    · rfl
    · simp [isSimple]
  rw [pgFns_leaf o ho] at h3
  cases h3
  rw [serialize_prim_val q hq] at h1
  cases h1
  simp only [hpl, Bool.false_eq_true, if_false] at h4
  rcases fnLiteral_cases (litText q) (if (parenOps o && !isSimple .nil) = true then parenB sr else sr) with h' | h' <;>
    rw [h'] at h4 <;> cases h4
  rfl

/-- a leaf over a raw value: one hole -/
theorem leaf_inst (q : Prim) (o : Op) (p : F64) (d : Int) (hq : ∀ s, q ≠ .col s)
    (ho : o.isLeafOp = true) (hk : o = .literal ∨ ∃ s, q = .str s) (sI sP : Bytes) (ps : List Prim)
    (h1 : render pgFns (.mk (.prim q) o .nil p d) = .ok sI)
    (h2 : renderParam pgFns (.mk (.prim q) o .nil p d) = .ok (sP, ps)) : HasT ps sP sI := by
  rw [renderParam_leaf_ok q o p d hq ho hk] at h2
  simp at h2
  obtain ⟨rfl, rfl⟩ := h2
  rw [render_leaf_inv q o p d hq ho hk sI h1, bq]
  exact HasT.hole q

/-- a leaf over a Column: the same quoted identifier in both modes -/
theorem leafcol_inst (v : Bytes) (o : Op) (p : F64) (d : Int) (ho : o.isLeafOp = true) (sI sP : Bytes) (ps : List Prim)
    (h1 : render pgFns (.mk (.prim (.col v)) o .nil p d) = .ok sI)
    (h2 : renderParam pgFns (.mk (.prim (.col v)) o .nil p d) = .ok (sP, ps)) : HasT ps sP sI := by
  rw [leaf_col_agree v o p d ho sI h1] at h2
  simp at h2
  obtain ⟨rfl, rfl⟩ := h2
  obtain ⟨sl, sr, fn, h1', h2', h3, h4⟩ := render_ok_inv _ _ _ _ _ _ h1
  rw [pgFns_leaf o ho] at h3
  cases h3
  have hpl : (parenOps o && !isSimple (.prim (.col v))) = false := by simp [isSimple]
  simp only [hpl, Bool.false_eq_true, if_false] at h4
  simp only [serialize] at h1'
  rcases fnLiteral_cases sl (if (parenOps o && !isSimple .nil) = true then parenB sr else sr) with h' | h' <;>
    rw [h'] at h4 <;> cases h4
  exact HasT.text _ (serializeCol_clean v _ h1')

theorem render_nil_leaf (p : F64) (d : Int) : render pgFns (.mk .nil .literal .nil p d) = .ok [] := by
  rw [render]
  simp [serialize, pgFns, sharedFns, parenOps, fnLiteral_nil]

/-- a `leafy` expression (element of a value list, end of a range boundary) -/
theorem leafy_inst : ∀ e : Expr, leafy e = true → ∀ (sI sP : Bytes) (ps : List Prim),
    render pgFns e = .ok sI → renderParam pgFns e = .ok (sP, ps) → HasT ps sP sI
  | .mk l o r p d, h, sI, sP, ps, h1, h2 => by
    obtain ⟨ho, hr, hl⟩ := leafy_parts l o r p d h
    subst hr
    simp only [leafy, Bool.and_eq_true] at h
    rcases hl with rfl | ⟨q, rfl⟩
    · have : o = .literal := by simpa [leafKindOK] using h.1.2
      subst this
      rw [render_nil_leaf] at h1
      rw [renderParam_nil_leaf] at h2
      simp at h1 h2
      obtain ⟨rfl, rfl⟩ := h2
      subst h1
      exact HasT.nil
    · refine leaf_inst q o p d ?_ ho ?_ sI sP ps h1 h2
      · intro s hs; subst hs; simp [leafKindOK] at h
      · cases q <;> simp_all [leafKindOK]

/-! ### the table of render functions -/

/-- every table entry other than `literal`, `like`, `rang` prints a fixed text around its operands -/
theorem fn_inst {R : Prim → Bytes → Prop} (o : Op) (fn : RenderFn) (hfn : pgFns o = some fn) (hleaf : o.isLeafOp = false)
    (ho1 : o ≠ .like) (ho2 : o ≠ .range)
    (pl pr : List Prim) (xl yl xr yr sP sI : Bytes) (hl : HasR R pl xl yl) (hr : HasR R pr xr yr)
    (hun : (o = .not ∨ o = .mustNot ∨ o = .must ∨ o = .list) → pr = [])
    (hP : fn xl xr = .ok sP) (hI : fn yl yr = .ok sI) : HasR R (pl ++ pr) sP sI := by
  have infix_case : ∀ mid : String, cleanFrom false (b mid) = true → fn = fnInfix mid → HasR R (pl ++ pr) sP sI := by
    intro mid hm hf
    subst hf
    simp only [fnInfix, Out.ok.injEq] at hP hI
    subst hP; subst hI
    simpa [List.append_assoc] using hl.append ((HasR.text (b mid) hm).append hr)
  cases o <;> simp [pgFns, sharedFns, Op.isLeafOp] at hfn ho1 ho2 hleaf
  case and => exact infix_case _ clean_b_and hfn.symm
  case or => exact infix_case _ clean_b_or hfn.symm
  case equals => exact infix_case _ clean_b_eq hfn.symm
  case greater => exact infix_case _ clean_b_gt hfn.symm
  case greaterEq => exact infix_case _ clean_b_ge hfn.symm
  case less => exact infix_case _ clean_b_lt hfn.symm
  case lessEq => exact infix_case _ clean_b_le hfn.symm
  case in_ => exact infix_case _ clean_b_in hfn.symm
  case not =>
    subst hfn
    rw [hun (by simp)]
    simp only [fnWrapNot, Out.ok.injEq] at hP hI
    subst hP; subst hI
    simpa using (hl.pre _ clean_b_not).post _ clean_b_rp
  case mustNot =>
    subst hfn
    rw [hun (by simp)]
    simp only [fnWrapNot, Out.ok.injEq] at hP hI
    subst hP; subst hI
    simpa using (hl.pre _ clean_b_not).post _ clean_b_rp
  case must =>
    subst hfn
    rw [hun (by simp)]
    simp only [fnNoop, Out.ok.injEq] at hP hI
    subst hP; subst hI
    simpa using hl
  case list =>
    subst hfn
    rw [hun (by simp)]
    simp only [fnList, Out.ok.injEq] at hP hI
    subst hP; subst hI
    simpa using (hl.pre _ clean_b_lp).post _ clean_b_rp

theorem renderParam_eq_other (l : Node) (o : Op) (r : Node) (p : F64) (d : Int) (ho1 : o ≠ .like) (ho2 : o ≠ .range)
    (sl sr : Bytes) (pl pr : List Prim) (fn : RenderFn)
    (hl : serializeParams pgFns l = .ok (sl, pl)) (hr : serializeParams pgFns r = .ok (sr, pr))
    (hfn : pgFns o = some fn) :
    renderParam pgFns (.mk l o r p d) =
      (match fn (if (parenOps o && !isSimple l) = true then parenB sl else sl)
         (if (parenOps o && !isSimple r) = true then parenB sr else sr) with
       | .ok s => .ok (s, pl ++ pr) | .err => .err | .panic => .panic) := by
  rw [renderParam, hl, hr]
  simp only [ho1, ho2, if_false, hfn]
  cases fn (if (parenOps o && !isSimple l) = true then parenB sl else sl)
    (if (parenOps o && !isSimple r) = true then parenB sr else sr) <;> rfl

theorem renderParam_eq_range (l r : Node) (p : F64) (d : Int)
    (sl sr : Bytes) (pl pr : List Prim)
    (hl : serializeParams pgFns l = .ok (sl, pl)) (hr : serializeParams pgFns r = .ok (sr, pr)) :
    renderParam pgFns (.mk l .range r p d) =
      (match rangParam sl sr pr with
       | .ok s => .ok (s, pl ++ pr) | .err => .err | .panic => .panic) := by
  rw [renderParam, hl, hr]
  simp only [parenOps_range, Bool.false_and, Bool.false_eq_true, if_false, reduceCtorEq, if_true]
  cases rangParam sl sr pr <;> rfl

theorem sp_ok_of_renderParam (l : Node) (o : Op) (r : Node) (p : F64) (d : Int)
    (t : Bytes) (ps : List Prim) (h : renderParam pgFns (.mk l o r p d) = .ok (t, ps)) :
    ∃ sl pl sr pr, serializeParams pgFns l = .ok (sl, pl) ∧ serializeParams pgFns r = .ok (sr, pr) := by
  rw [renderParam] at h
  cases h1 : serializeParams pgFns l with
  | err => simp [h1] at h
  | panic => simp [h1] at h
  | ok v =>
    obtain ⟨sl, pl⟩ := v
    cases h2 : serializeParams pgFns r with
    | err => simp [h1, h2] at h
    | panic => simp [h1, h2] at h
    | ok w =>
      obtain ⟨sr, pr⟩ := w
      exact ⟨sl, pl, sr, pr, rfl, rfl⟩

/-- the parts of a successful RenderParam of a node that is neither Like nor Range -/
theorem renderParam_inv (l : Node) (o : Op) (r : Node) (p : F64) (d : Int) (ho1 : o ≠ .like) (ho2 : o ≠ .range)
    (t : Bytes) (ps : List Prim) (h : renderParam pgFns (.mk l o r p d) = .ok (t, ps)) :
    ∃ sl pl sr pr fn, serializeParams pgFns l = .ok (sl, pl) ∧ serializeParams pgFns r = .ok (sr, pr) ∧
      pgFns o = some fn ∧
      fn (if (parenOps o && !isSimple l) = true then parenB sl else sl)
         (if (parenOps o && !isSimple r) = true then parenB sr else sr) = .ok t ∧ ps = pl ++ pr := by
  obtain ⟨sl, pl, sr, pr, h1, h2⟩ := sp_ok_of_renderParam l o r p d t ps h
  cases h3 : pgFns o with
  | none =>
    rw [renderParam, h1, h2] at h
    simp [ho1, ho2, h3] at h
  | some fn =>
    rw [renderParam_eq_other l o r p d ho1 ho2 sl sr pl pr fn h1 h2 h3] at h
    cases h4 : fn (if (parenOps o && !isSimple l) = true then parenB sl else sl)
        (if (parenOps o && !isSimple r) = true then parenB sr else sr) with
    | err => rw [h4] at h; cases h
    | panic => rw [h4] at h; cases h
    | ok s =>
      rw [h4] at h
      simp only [Out.ok.injEq, Prod.mk.injEq] at h
      exact ⟨sl, pl, sr, pr, fn, h1, h2, rfl, by rw [← h.1]; exact h4, h.2.symm⟩

/-- the parts of a successful RenderParam of a Range node -/
theorem renderParam_inv_range (l r : Node) (p : F64) (d : Int)
    (t : Bytes) (ps : List Prim) (h : renderParam pgFns (.mk l .range r p d) = .ok (t, ps)) :
    ∃ sl pl sr pr, serializeParams pgFns l = .ok (sl, pl) ∧ serializeParams pgFns r = .ok (sr, pr) ∧
      rangParam sl sr pr = .ok t ∧ ps = pl ++ pr := by
  obtain ⟨sl, pl, sr, pr, h1, h2⟩ := sp_ok_of_renderParam l .range r p d t ps h
  rw [renderParam_eq_range l r p d sl sr pl pr h1 h2] at h
  cases h4 : rangParam sl sr pr with
  | err => rw [h4] at h; cases h
  | panic => rw [h4] at h; cases h
  | ok s =>
    rw [h4] at h
    simp only [Out.ok.injEq, Prod.mk.injEq] at h
    exact ⟨sl, pl, sr, pr, h1, h2, by rw [← h.1]; exact h4, h.2.symm⟩

/-! ### LIKE: quoting commutes with the pattern translation -/

/-- the text looks like `/…/` (the test of `likeParam`) -/
def slashy (s : Bytes) : Bool := decide (s.length ≥ 2) && s.head? == some 47 && s.getLast? == some 47

/-- the test of RenderParam is its negation -/
theorem notSlashy_eq (s : Bytes) :
    (decide (s.length < 2) || s.head? != some 47 || s.getLast? != some 47) = !slashy s := by
  unfold slashy
  by_cases h : s.length < 2
  · have : ¬ s.length ≥ 2 := by omega
    simp [h, this]
  · have : s.length ≥ 2 := by omega
    simp [h, this, bne, Bool.not_and]

def esc (s : Bytes) : Bytes := replaceByte 39 [39, 39] s

theorem esc_nil : esc [] = [] := rfl
theorem esc_cons (c : UInt8) (t : Bytes) : esc (c :: t) = (if c == 39 then [39, 39] else [c]) ++ esc t := by
  simp [esc, replaceByte]
theorem esc_append (s t : Bytes) : esc (s ++ t) = esc s ++ esc t := by
  simp [esc, replaceByte]
theorem sqlQuote_esc (s : Bytes) : sqlQuote s = 39 :: (esc s ++ [39]) := by
  simp [sqlQuote, esc]

theorem subB_39 : subB 39 = 39 := by decide
theorem subB_ne_39 (c : UInt8) (h : c ≠ 39) : subB c ≠ 39 := by
  rcases subB_cases c with ⟨_, h'⟩ | ⟨_, h'⟩ | ⟨_, _, h'⟩ <;> rw [h'] <;> first | decide | exact h
theorem subB_eq_47 (c : UInt8) : subB c = 47 ↔ c = 47 := by
  rcases subB_cases c with ⟨h1, h'⟩ | ⟨h1, h'⟩ | ⟨_, _, h'⟩
  · rw [h', h1]; decide
  · rw [h', h1]; decide
  · rw [h']

/-- quoting and the `*`→`%`, `?`→`_` translation commute, always -/
theorem starPattern_sqlQuote (s : Bytes) : starPattern (sqlQuote s) = sqlQuote (starPattern s) := by
  rw [starPattern_eq_map, starPattern_eq_map, sqlQuote_esc, sqlQuote_esc]
  simp only [List.map_cons, List.map_append, List.map_nil, subB_39]
  congr 2
  induction s with
  | nil => rfl
  | cons c t ih =>
    rw [List.map_cons, esc_cons, esc_cons, List.map_append, ih]
    congr 1
    by_cases hc : c = 39
    · subst hc; simp [subB_39]
    · have := subB_ne_39 c hc
      simp [hc, this]

theorem opt47 (o : Option UInt8) : ((o.map subB) == some 47) = (o == some 47) := by
  cases o with
  | none => rfl
  | some c =>
    by_cases hc : c = 47
    · subst hc; decide
    · have := mt (subB_eq_47 c).mp hc
      have e1 : (subB c == 47) = false := by simpa using this
      have e2 : (c == 47) = false := by simpa using hc
      simp [e1, e2]

theorem slashy_starPattern (s : Bytes) : slashy (starPattern s) = slashy s := by
  rw [starPattern_eq_map]
  unfold slashy
  rw [List.length_map, List.head?_map, List.getLast?_map, opt47, opt47]

theorem esc_head (s : Bytes) : ((esc s).head? == some 47) = (s.head? == some 47) := by
  cases s with
  | nil => rfl
  | cons c t =>
    rw [esc_cons]
    by_cases hc : c = 39
    · subst hc; simp
    · simp [hc]

theorem esc_last (s : Bytes) : ((esc s).getLast? == some 47) = (s.getLast? == some 47) := by
  rcases List.eq_nil_or_concat s with rfl | ⟨t, c, rfl⟩
  · rfl
  · rw [List.concat_eq_append, esc_append, esc_cons, esc_nil]
    by_cases hc : c = 39
    · subst hc; simp
    · simp [hc]

theorem esc_len (s : Bytes) : s.length ≤ (esc s).length := by
  induction s with
  | nil => simp [esc_nil]
  | cons c t ih =>
    rw [esc_cons]
    by_cases hc : c = 39 <;> simp [hc] <;> omega

theorem slashy_esc (s : Bytes) : slashy (esc s) = slashy s := by
  unfold slashy
  have h1 := esc_head s
  have h2 := esc_last s
  match s with
  | [] => rfl
  | [c] =>
    rw [esc_cons, esc_nil]
    by_cases hc : c = 39
    · subst hc; decide
    · simp [hc]
  | c :: d :: t =>
    have hl := esc_len (c :: d :: t)
    have e1 : decide ((esc (c :: d :: t)).length ≥ 2) = true := by simp at hl ⊢; omega
    have e2 : decide ((c :: d :: t).length ≥ 2) = true := by simp
    rw [e1, e2, h1, h2]

/-- the regexp test of `like` on the quoted text is the test of `likeParam` on the raw text -/
theorem likeCond (s : Bytes) :
    (decide ((sqlQuote s).length ≥ 4) && (sqlQuote s)[1]? == some 47 &&
      (sqlQuote s)[(sqlQuote s).length - 2]? == some 47) = slashy s := by
  rw [← slashy_esc s, sqlQuote_esc]
  generalize esc s = e
  unfold slashy
  cases e with
  | nil => decide
  | cons c t =>
    have hlen : (39 :: (c :: t ++ [39])).length - 2 = t.length + 1 := by simp
    rw [hlen]
    have h1 : (39 :: (c :: t ++ [39]))[1]? = some c := by simp
    have h2 : (39 :: (c :: t ++ [39]))[t.length + 1]? = (c :: t).getLast? := by
      rw [List.getElem?_cons_succ, List.getLast?_eq_getElem?]
      rw [List.getElem?_append_left (by simp)]
      simp
    rw [h1, h2]
    have e1 : decide ((39 :: (c :: t ++ [39])).length ≥ 4) = decide ((c :: t).length ≥ 2) := by
      simp only [List.length_cons, List.length_append, List.length_nil]
      congr 1
      apply propext
      constructor <;> intro h <;> omega
    rw [e1]
    rfl

theorem fnLike_sqlQuote (left s : Bytes) : fnLike left (sqlQuote s) =
    .ok (if slashy s then left ++ b " ~ " ++ sqlQuote s else left ++ b " SIMILAR TO " ++ sqlQuote (starPattern s)) := by
  unfold fnLike
  rw [likeCond s, starPattern_sqlQuote]
  cases slashy s <;> simp

/-- RenderParam on a Like node whose pattern is the string leaf `s` -/
theorem renderParam_like_val (l : Node) (re : Expr) (p : F64) (d : Int) (s xl : Bytes) (pl : List Prim)
    (hl : serializeParams pgFns l = .ok (xl, pl)) (hr : renderParam pgFns re = .ok (b "?", [.str s]))
    (hsl : isSimple l = true) (hsr : isSimple (.expr re) = true) :
    renderParam pgFns (.mk l .like (.expr re) p d) =
      .ok (if slashy s then (xl ++ b " ~ " ++ b "?", pl ++ [.str s])
           else (xl ++ b " SIMILAR TO " ++ b "?", pl ++ [.str (starPattern s)])) := by
  rw [renderParam, hl, sp_expr, hr]
  simp only [if_true, hsl, hsr, Bool.not_true, Bool.and_false, Bool.false_eq_true, if_false, notSlashy_eq]
  cases hs : slashy s with
  | false =>
    have hs' := slashy_starPattern s
    rw [hs] at hs'
    unfold slashy at hs'
    simp only [Bool.not_false, if_true, likeParam, hs', Bool.false_eq_true, if_false]
  | true =>
    have hs' := hs
    unfold slashy at hs'
    simp only [Bool.not_true, Bool.false_eq_true, if_false, likeParam, hs', if_true]

theorem isSimple_leafop (l : Node) (o : Op) (r : Node) (p : F64) (d : Int) (ho : o.isLeafOp = true) :
    isSimple (.expr (.mk l o r p d)) = true := by
  cases o <;> simp [Op.isLeafOp] at ho <;> simp [isSimple, Expr.op]

/-- a Like node over the pattern leaf `s` -/
theorem like_inst {R : Prim → Bytes → Prop} (hR : ∀ p, R p (litText p))
    (l : Node) (p : F64) (d : Int) (s : Bytes) (ro : Op) (rp : F64) (rd : Int)
    (hro : ro.isLeafOp = true) (hsl : isSimple l = true)
    (hL : ∀ sI sP ps, serialize pgFns l = .ok sI → serializeParams pgFns l = .ok (sP, ps) → HasR R ps sP sI)
    (sI sP : Bytes) (ps : List Prim)
    (h1 : render pgFns (.mk l .like (.expr (.mk (.prim (.str s)) ro .nil rp rd)) p d) = .ok sI)
    (h2 : renderParam pgFns (.mk l .like (.expr (.mk (.prim (.str s)) ro .nil rp rd)) p d) = .ok (sP, ps)) :
    HasR R ps sP sI := by
  obtain ⟨xl, pl, xr, pr, hl, _⟩ := sp_ok_of_renderParam _ _ _ _ _ _ _ h2
  have hsr := isSimple_leafop (.prim (.str s)) ro .nil rp rd hro
  have hr := renderParam_leaf_ok (.str s) ro rp rd (by intro s' h; cases h) hro (.inr ⟨s, rfl⟩)
  rw [renderParam_like_val l _ p d s xl pl hl hr hsl hsr] at h2
  obtain ⟨sl, sr, fn, h1', h2', h3, h4⟩ := render_ok_inv _ _ _ _ _ _ h1
  have hfn : pgFns .like = some fnLike := rfl
  rw [hfn] at h3
  cases h3
  rw [serialize] at h2'
  have := render_leaf_inv (.str s) ro rp rd (by intro s' h; cases h) hro (.inr ⟨s, rfl⟩) sr h2'
  subst this
  simp only [hsl, hsr, Bool.not_true, Bool.and_false, Bool.false_eq_true, if_false] at h4
  have hlit : litText (.str s) = sqlQuote s := rfl
  rw [hlit, fnLike_sqlQuote] at h4
  have hleft := hL sl xl pl h1' hl
  cases hs : slashy s with
  | true =>
    simp only [hs, if_true, Out.ok.injEq, Prod.mk.injEq] at h2 h4
    obtain ⟨rfl, rfl⟩ := h2
    subst h4
    rw [bq]
    have hh : HasR R [.str s] [63] (sqlQuote s) := HasR.hole (hR (.str s))
    simpa [List.append_assoc] using hleft.append ((HasR.text _ clean_b_tilde).append hh)
  | false =>
    simp only [hs, Bool.false_eq_true, if_false, Out.ok.injEq, Prod.mk.injEq] at h2 h4
    obtain ⟨rfl, rfl⟩ := h2
    subst h4
    rw [bq]
    have hh : HasR R [.str (starPattern s)] [63] (sqlQuote (starPattern s)) := HasR.hole (hR (.str (starPattern s)))
    simpa [List.append_assoc] using hleft.append ((HasR.text _ clean_b_similar).append hh)

/-! ### value lists -/

theorem joinWith_cons2 (sep x y : Bytes) (ys : List Bytes) :
    joinWith sep (x :: y :: ys) = x ++ sep ++ joinWith sep (y :: ys) := by
  simp [joinWith]

theorem list_inst : ∀ es : ExprList, es.allLeafy = true → ∀ (ss ss' : List Bytes) (ps : List Prim),
    serializeList pgFns es = .ok ss → serializeParamsList pgFns es = .ok (ss', ps) →
    ss.length = es.length ∧ ss'.length = es.length ∧ HasT ps (joinWith (b ", ") ss') (joinWith (b ", ") ss)
  | .nil, _, ss, ss', ps, h1, h2 => by
    rw [serializeList] at h1
    rw [spl_nil] at h2
    simp at h1 h2
    obtain ⟨rfl, rfl⟩ := h2
    subst h1
    exact ⟨rfl, rfl, HasT.nil⟩
  | .cons e t, hl, ss, ss', ps, h1, h2 => by
    simp only [ExprList.allLeafy, Bool.and_eq_true] at hl
    rw [serializeList] at h1
    rw [spl_cons] at h2
    cases he : render pgFns e with
    | err => simp [he] at h1
    | panic => simp [he] at h1
    | ok s =>
      cases ht : serializeList pgFns t with
      | err => simp [he, ht] at h1
      | panic => simp [he, ht] at h1
      | ok st =>
        cases he' : renderParam pgFns e with
        | err => simp [he'] at h2
        | panic => simp [he'] at h2
        | ok v =>
          obtain ⟨s', pe⟩ := v
          cases ht' : serializeParamsList pgFns t with
          | err => simp [he', ht'] at h2
          | panic => simp [he', ht'] at h2
          | ok w =>
            obtain ⟨st', pt⟩ := w
            simp only [he, ht, Out.ok.injEq] at h1
            simp only [he', ht', Out.ok.injEq, Prod.mk.injEq] at h2
            obtain ⟨rfl, rfl⟩ := h2
            subst h1
            have hE := leafy_inst e hl.1 s s' pe he he'
            obtain ⟨l1, l2, hT⟩ := list_inst t hl.2 st st' pt ht ht'
            refine ⟨by simp [ExprList.length, ExprList.toList] at l1 ⊢; exact l1,
              by simp [ExprList.length, ExprList.toList] at l2 ⊢; exact l2, ?_⟩
            cases t with
            | nil =>
              rw [serializeList] at ht
              rw [spl_nil] at ht'
              simp at ht ht'
              obtain ⟨rfl, rfl⟩ := ht'
              subst ht
              simpa [joinWith] using hE
            | cons e2 t2 =>
              cases st with
              | nil => simp [ExprList.length, ExprList.toList] at l1
              | cons y ys =>
                cases st' with
                | nil => simp [ExprList.length, ExprList.toList] at l2
                | cons y' ys' =>
                  rw [joinWith_cons2, joinWith_cons2]
                  simpa [List.append_assoc] using hE.append ((HasT.text _ clean_b_comma).append hT)

/-! ### range boundaries -/

/-- the text of a boundary -/
def bracket (incl : Bool) (x y : Bytes) : Bytes :=
  if incl then b "[" ++ x ++ b ", " ++ y ++ b "]" else b "(" ++ x ++ b ", " ++ y ++ b ")"

theorem HasR.bracket {R : Prim → Bytes → Prop} (incl : Bool) {p1 p2 : List Prim} {x1 y1 x2 y2 : Bytes}
    (h1 : HasR R p1 x1 y1) (h2 : HasR R p2 x2 y2) : HasR R (p1 ++ p2) (bracket incl x1 x2) (bracket incl y1 y2) := by
  unfold Subst.bracket
  cases incl
  · simpa [List.append_assoc] using
      ((h1.pre _ clean_b_lp).append ((HasR.text _ clean_b_comma).append (h2.post _ clean_b_rp)))
  · simpa [List.append_assoc] using
      ((h1.pre _ clean_b_lb).append ((HasR.text _ clean_b_comma).append (h2.post _ clean_b_rb)))

theorem serialize_bound_inv (a c : Expr) (incl : Bool) (sI : Bytes)
    (h : serialize pgFns (.bound (.expr a) (.expr c) incl) = .ok sI) :
    ∃ ta tc, render pgFns a = .ok ta ∧ render pgFns c = .ok tc ∧ sI = bracket incl ta tc := by
  rw [serialize] at h
  simp only [serialize] at h
  cases ha : render pgFns a with
  | err => simp [ha] at h
  | panic => simp [ha] at h
  | ok ta =>
    cases hc : render pgFns c with
    | err => simp [ha, hc] at h
    | panic => simp [ha, hc] at h
    | ok tc =>
      simp only [ha, hc] at h
      refine ⟨ta, tc, rfl, rfl, ?_⟩
      unfold bracket
      cases incl <;> simp at h ⊢ <;> exact h.symm

theorem boundOut_inv (incl : Bool) (x y : Out (Bytes × List Prim)) (t : Bytes) (ps : List Prim)
    (h : boundOut incl x y = .ok (t, ps)) :
    ∃ s1 p1 s2 p2, x = .ok (s1, p1) ∧ y = .ok (s2, p2) ∧ t = bracket incl s1 s2 ∧ ps = p1 ++ p2 := by
  unfold boundOut at h
  cases x with
  | err => simp at h
  | panic => simp at h
  | ok v =>
    obtain ⟨s1, p1⟩ := v
    cases y with
    | err => simp at h
    | panic => simp at h
    | ok w =>
      obtain ⟨s2, p2⟩ := w
      refine ⟨s1, p1, s2, p2, rfl, rfl, ?_⟩
      unfold bracket
      cases incl <;> simp at h ⊢ <;> exact ⟨h.1.symm, h.2.symm⟩

theorem starQ_lit : litText (.str (b "*")) = starQ := by decide

theorem starLeft_leafy (l : Node) (o : Op) (r : Node) (p : F64) (d : Int) (h : starLeft (.mk l o r p d) = true) :
    l = .prim (.str (b "*")) := by
  unfold starLeft at h
  simp only [Expr.left] at h
  split at h
  · rename_i s
    simp at h
    rw [h]
  · cases h

/-- one end of a boundary: the unbounded end is the same text `'*'` in both modes, any other end is a hole -/
theorem end_inst (a : Expr) (ha : leafy a = true) (ta pa : Bytes) (pra : List Prim)
    (h1 : render pgFns a = .ok ta) (h2 : endOut pgFns (.expr a) = .ok (pa, pra)) : HasT pra pa ta := by
  simp only [endOut] at h2
  split at h2
  · rename_i hs
    simp at h2
    obtain ⟨rfl, rfl⟩ := h2
    obtain ⟨l, o, r, p, d⟩ := a
    obtain ⟨ho, hr, _⟩ := leafy_parts l o r p d ha
    subst hr
    have := starLeft_leafy l o .nil p d hs
    subst this
    rw [render_leaf_inv (.str (b "*")) o p d (by intro s h; cases h) ho (.inr ⟨_, rfl⟩) ta h1, starQ_lit]
    exact HasT.text _ clean_starQ
  · exact leafy_inst a ha ta pa pra h1 h2

/-- a boundary in an operand position -/
theorem bound_inst (a c : Expr) (incl : Bool) (ha : leafy a = true) (hc : leafy c = true)
    (sI sP : Bytes) (ps : List Prim) (h1 : serialize pgFns (.bound (.expr a) (.expr c) incl) = .ok sI)
    (h2 : serializeParams pgFns (.bound (.expr a) (.expr c) incl) = .ok (sP, ps)) : HasT ps sP sI := by
  obtain ⟨ta, tc, ra, rc, rfl⟩ := serialize_bound_inv a c incl sI h1
  rw [sp_bound'] at h2
  obtain ⟨pa, pra, pc, prc, ea, ec, rfl, rfl⟩ := boundOut_inv incl _ _ _ _ h2
  exact (end_inst a ha ta pa pra ra ea).bracket incl (end_inst c hc tc pc prc rc ec)

end GoLucene.Subst
