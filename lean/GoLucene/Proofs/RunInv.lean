import GoLucene.Proofs.Jux
/-
  Invariants of the shift/reduce run (`runW`).

  (1a) `ExOK isNum` — the trees of reductions the run builds: no `.inn` node, and at every `.fuzzy e (some d)` /
       `.boost e (some p)` node the reducer's value test `isNum true d` / `isNum false p` has succeeded.
  (1b) `NtsInv` — the non-terminal stack is the sequence of token items of the stack, above `.start`.

  "Reachable" is formulated as an inductive predicate `Reach isNum c toks` ("the run is in configuration `c` with
  remaining input `toks`") with one constructor per branch of `runW`; the implicit-AND branch, which in Go is an
  inner `for` loop and in the model the fuelled `reduceUntilShift`, is split into its two kinds of iteration
  (`andReduce`: one more reduce; `andShift`: the loop exits and AND and the term are pushed), so that the
  configurations *inside* that loop are reachable configurations as well.  `runW_reach` connects the predicate
  to the function: the result of `runW` from a reachable configuration is `.err` or the tree accepted at a
  reachable configuration, i.e. every recursive call of `runW` (and every iteration of `reduceUntilShift`) is on a
  reachable configuration.  `reach_inv` shows that both invariants hold in every reachable configuration.
-/
namespace GoLucene

/-! ### (1a) the trees the run builds -/

/-- no `.inn` node; the numeric tests hold at every fuzzy/boost node with an operand -/
def ExOK (isNum : Bool → Ex → Bool) : Ex → Prop
  | .leaf _ => True
  | .eq f v => ExOK isNum f ∧ ExOK isNum v
  | .inn _ _ => False
  | .cmp _ _ f v => ExOK isNum f ∧ ExOK isNum v
  | .range f lo hi _ => ExOK isNum f ∧ ExOK isNum lo ∧ ExOK isNum hi
  | .and l r => ExOK isNum l ∧ ExOK isNum r
  | .or l r => ExOK isNum l ∧ ExOK isNum r
  | .not e => ExOK isNum e
  | .must e => ExOK isNum e
  | .mustNot e => ExOK isNum e
  | .fuzzy e none => ExOK isNum e
  | .fuzzy e (some d) => ExOK isNum e ∧ ExOK isNum d ∧ isNum true d = true
  | .boost e none => ExOK isNum e
  | .boost e (some p) => ExOK isNum e ∧ ExOK isNum p ∧ isNum false p = true

def ItemOK (isNum : Bool → Ex → Bool) : Item → Prop
  | .tok _ => True
  | .ex e => ExOK isNum e

/-- every expression item of a stack (or handle) is `ExOK` -/
def StackOK (isNum : Bool → Ex → Bool) (l : List Item) : Prop := ∀ it ∈ l, ItemOK isNum it

/-! ### (1b) the non-terminal stack -/

def Item.tok? : Item → Option TT
  | .tok t => some t
  | .ex _ => none

/-- `nonTerminals` is the sequence of token items of the stack (both top first), above `.start` -/
def NtsInv (c : Cfg) : Prop := c.nts = c.stack.filterMap Item.tok? ++ [.start]

/-- the invariant of the run -/
def Inv (isNum : Bool → Ex → Bool) (c : Cfg) : Prop := StackOK isNum c.stack ∧ NtsInv c

/-! ### the reducers -/

/-- A reducer that fires replaces its handle by exactly one expression; the number of non-terminals it asks to
    drop is the number of token items in the handle; the expression is `ExOK` if the handle's expressions are. -/
theorem tryReduce_spec (isNum : Bool → Ex → Bool) (top repl : List Item) (k : Nat)
    (h : tryReduce isNum top = some (repl, k)) :
    ∃ e, repl = [.ex e] ∧ k = (top.filterMap Item.tok?).length ∧ (StackOK isNum top → ExOK isNum e) := by
  unfold tryReduce at h
  split at h
  case h_14 e d =>
    split at h
    · rename_i hn
      simp at h; obtain ⟨rfl, rfl⟩ := h
      refine ⟨_, rfl, rfl, fun hall => ?_⟩
      simp [StackOK, ItemOK] at hall
      simp [ExOK, hall, hn]
    · simp at h
  case h_16 e d =>
    split at h
    · rename_i hn
      simp at h; obtain ⟨rfl, rfl⟩ := h
      refine ⟨_, rfl, rfl, fun hall => ?_⟩
      simp [StackOK, ItemOK] at hall
      simp [ExOK, hall, hn]
    · simp at h
  case h_21 => simp at h
  all_goals
    simp at h; obtain ⟨rfl, rfl⟩ := h
    refine ⟨_, rfl, rfl, fun hall => ?_⟩
    simp [StackOK, ItemOK] at hall
    simp [ExOK, hall]

theorem tryReduce_exok (isNum : Bool → Ex → Bool) (top repl : List Item) (k : Nat)
    (hok : StackOK isNum top) (h : tryReduce isNum top = some (repl, k)) : StackOK isNum repl := by
  obtain ⟨e, rfl, _, he⟩ := tryReduce_spec isNum top repl k h
  intro it hit
  simp at hit; subst hit
  exact he hok

/-- `k` returned by a reducer = number of `.tok` items of the handle -/
theorem tryReduce_count (isNum : Bool → Ex → Bool) (top repl : List Item) (k : Nat)
    (h : tryReduce isNum top = some (repl, k)) : k = (top.filterMap Item.tok?).length := by
  obtain ⟨_, _, hk, _⟩ := tryReduce_spec isNum top repl k h
  exact hk

/-- `reduceLoop` pops a prefix `pre` of the stack, the handle is `pre.reverse ++ acc`, and a reducer fires on it -/
theorem reduceLoop_spec (isNum : Bool → Ex → Bool) : ∀ (st acc st' : List Item) (k : Nat),
    reduceLoop isNum st acc = some (st', k) →
    ∃ pre rest repl, st = pre ++ rest ∧ st' = repl.reverse ++ rest ∧
      tryReduce isNum (pre.reverse ++ acc) = some (repl, k) := by
  intro st
  induction st with
  | nil => intro acc st' k h; simp [reduceLoop] at h
  | cons s rest ih =>
    intro acc st' k h
    simp only [reduceLoop] at h
    split at h
    · rename_i repl k' hr
      simp at h
      obtain ⟨rfl, rfl⟩ := h
      exact ⟨[s], rest, repl, rfl, rfl, by simpa using hr⟩
    · obtain ⟨pre, rest', repl, rfl, rfl, hr⟩ := ih (s :: acc) st' k h
      exact ⟨s :: pre, rest', repl, rfl, rfl, by simpa using hr⟩

theorem length_filterMap_reverse {α β} (f : α → Option β) (l : List α) :
    (l.reverse.filterMap f).length = (l.filterMap f).length := by
  rw [List.filterMap_reverse, List.length_reverse]

/-- `reduceLoop` from the empty accumulator: the handle `pre` (top first) becomes one expression, `k` is the
    number of tokens of the handle -/
theorem reduceLoop_nil_spec (isNum : Bool → Ex → Bool) (st st' : List Item) (k : Nat)
    (h : reduceLoop isNum st [] = some (st', k)) :
    ∃ pre rest e, st = pre ++ rest ∧ st' = .ex e :: rest ∧ k = (pre.filterMap Item.tok?).length ∧
      (StackOK isNum pre → ExOK isNum e) := by
  obtain ⟨pre, rest, repl, rfl, rfl, hr⟩ := reduceLoop_spec isNum st [] st' k h
  obtain ⟨e, rfl, hk, he⟩ := tryReduce_spec isNum _ _ _ hr
  refine ⟨pre, rest, e, rfl, by simp, ?_, fun hp => he ?_⟩
  · simpa [length_filterMap_reverse] using hk
  · intro it hit
    simp at hit
    exact hp it hit

theorem reduceLoop_exok (isNum : Bool → Ex → Bool) (st st' : List Item) (k : Nat)
    (hok : StackOK isNum st) (h : reduceLoop isNum st [] = some (st', k)) : StackOK isNum st' := by
  obtain ⟨pre, rest, e, rfl, rfl, _, he⟩ := reduceLoop_nil_spec isNum st st' k h
  intro it hit
  simp at hit
  rcases hit with rfl | hit
  · exact he (fun x hx => hok x (by simp [hx]))
  · exact hok it (by simp [hit])

/-- under `NtsInv`, the `k` of a successful `reduceLoop` is strictly below the height of the non-terminal stack,
    and dropping `k` non-terminals re-establishes `NtsInv` -/
theorem reduceLoop_nts (isNum : Bool → Ex → Bool) (c : Cfg) (st : List Item) (k : Nat) (hi : NtsInv c)
    (h : reduceLoop isNum c.stack [] = some (st, k)) :
    k < c.nts.length ∧ NtsInv ⟨st, c.nts.drop k⟩ := by
  obtain ⟨pre, rest, e, hst, rfl, rfl, _⟩ := reduceLoop_nil_spec isNum c.stack st k h
  unfold NtsInv at hi ⊢
  rw [hi, hst]
  constructor
  · simp
  · simp [List.filterMap_append, List.filterMap_cons, Item.tok?]

theorem reduce_stack (isNum : Bool → Ex → Bool) (c c' : Cfg) (h : reduce isNum c = some c') :
    ∃ st k, reduceLoop isNum c.stack [] = some (st, k) ∧ c' = ⟨st, c.nts.drop k⟩ := by
  unfold reduce at h
  split at h
  · rename_i st k hr
    simp at h
    exact ⟨st, k, hr, h.symm⟩
  · simp at h

theorem reduce_exok (isNum : Bool → Ex → Bool) (c c' : Cfg) (hok : StackOK isNum c.stack)
    (h : reduce isNum c = some c') : StackOK isNum c'.stack := by
  obtain ⟨st, k, hr, rfl⟩ := reduce_stack isNum c c' h
  exact reduceLoop_exok isNum _ _ _ hok hr

theorem reduce_nts (isNum : Bool → Ex → Bool) (c c' : Cfg) (hi : NtsInv c)
    (h : reduce isNum c = some c') : NtsInv c' := by
  obtain ⟨st, k, hr, rfl⟩ := reduce_stack isNum c c' h
  exact (reduceLoop_nts isNum c st k hi hr).2

theorem reduce_inv (isNum : Bool → Ex → Bool) (c c' : Cfg) (hi : Inv isNum c)
    (h : reduce isNum c = some c') : Inv isNum c' :=
  ⟨reduce_exok isNum c c' hi.1 h, reduce_nts isNum c c' hi.2 h⟩

/-- after a reduce the top of the stack is an expression -/
theorem reduce_top (isNum : Bool → Ex → Bool) (c c' : Cfg) (h : reduce isNum c = some c') :
    ∃ e s, c'.stack = .ex e :: s := by
  obtain ⟨st, k, hr, rfl⟩ := reduce_stack isNum c c' h
  obtain ⟨pre, rest, e, _, rfl, _, _⟩ := reduceLoop_nil_spec isNum _ _ _ hr
  exact ⟨e, rest, rfl⟩

theorem reduceUntilShift_inv (isNum : Bool → Ex → Bool) (next : TT) :
    ∀ (fuel : Nat) (c c' : Cfg), Inv isNum c → reduceUntilShift isNum next fuel c = some c' → Inv isNum c' := by
  intro fuel
  induction fuel with
  | zero => intro c c' _ h; simp [reduceUntilShift] at h
  | succ n ih =>
    intro c c' hi h
    simp only [reduceUntilShift] at h
    split at h
    · simp at h; subst h; exact hi
    · split at h
      · simp at h
      · rename_i c1 hr
        exact ih c1 c' (reduce_inv isNum c c1 hi hr) h

theorem reduceUntilShift_exok (isNum : Bool → Ex → Bool) (next : TT) (fuel : Nat) (c c' : Cfg)
    (hi : Inv isNum c) (h : reduceUntilShift isNum next fuel c = some c') : StackOK isNum c'.stack :=
  (reduceUntilShift_inv isNum next fuel c c' hi h).1

/-! ### the steps of the main loop preserve the invariant -/

theorem inv_init (isNum : Bool → Ex → Bool) : Inv isNum ⟨[], [.start]⟩ :=
  ⟨fun _ h => by simp at h, by simp [NtsInv]⟩

theorem inv_shiftNT (isNum : Bool → Ex → Bool) (c : Cfg) (t : TT) (hi : Inv isNum c) :
    Inv isNum ⟨.tok t :: c.stack, t :: c.nts⟩ := by
  refine ⟨fun it hit => ?_, ?_⟩
  · simp at hit
    rcases hit with rfl | hit
    · trivial
    · exact hi.1 it hit
  · have := hi.2
    unfold NtsInv at this ⊢
    simp [Item.tok?, this]

theorem inv_shiftTerm (isNum : Bool → Ex → Bool) (c : Cfg) (t : Tok) (hi : Inv isNum c) :
    Inv isNum ⟨.ex (.leaf t) :: c.stack, c.nts⟩ := by
  refine ⟨fun it hit => ?_, ?_⟩
  · simp at hit
    rcases hit with rfl | hit
    · simp [ItemOK, ExOK]
    · exact hi.1 it hit
  · have := hi.2
    unfold NtsInv at this ⊢
    simp [List.filterMap_cons, Item.tok?, this]

theorem inv_andShift (isNum : Bool → Ex → Bool) (c : Cfg) (t : Tok) (hi : Inv isNum c) :
    Inv isNum ⟨.ex (.leaf t) :: .tok .tand :: c.stack, .tand :: c.nts⟩ :=
  inv_shiftTerm isNum ⟨.tok .tand :: c.stack, .tand :: c.nts⟩ t (inv_shiftNT isNum c .tand hi)

/-! ### reachable configurations -/

/-- `Reach isNum c toks`: the run from the initial configuration gets to configuration `c` with `toks` still to
    be read.  One constructor per branch of `runW` (the implicit-AND branch = `andReduce`* then `andShift`). -/
inductive Reach (isNum : Bool → Ex → Bool) : Cfg → List Tok → Prop
  | init (toks : List Tok) : Reach isNum ⟨[], [.start]⟩ toks
  | shiftNT {c : Cfg} {t : Tok} {rest : List Tok} :
      Reach isNum c (t :: rest) → shouldShift (curOf c) t.typ = true → t.typ.isTerminal = false →
      Reach isNum ⟨.tok t.typ :: c.stack, t.typ :: c.nts⟩ rest
  | shiftTerm {c : Cfg} {t : Tok} {rest : List Tok} :
      Reach isNum c (t :: rest) → shouldShift (curOf c) t.typ = true → t.typ.isTerminal = true →
      (∀ e s, c.stack ≠ .ex e :: s) →
      Reach isNum ⟨.ex (.leaf t) :: c.stack, c.nts⟩ rest
  | andReduce {c c' : Cfg} {t : Tok} {rest : List Tok} {e : Ex} {s : List Item} :
      Reach isNum c (t :: rest) → shouldShift (curOf c) t.typ = true → t.typ.isTerminal = true →
      c.stack = .ex e :: s → shouldShift (curOf c) .tand = false → reduce isNum c = some c' →
      Reach isNum c' (t :: rest)
  | andShift {c : Cfg} {t : Tok} {rest : List Tok} {e : Ex} {s : List Item} :
      Reach isNum c (t :: rest) → shouldShift (curOf c) t.typ = true → t.typ.isTerminal = true →
      c.stack = .ex e :: s → shouldShift (curOf c) .tand = true →
      Reach isNum ⟨.ex (.leaf t) :: .tok .tand :: c.stack, .tand :: c.nts⟩ rest
  | reduce {c c' : Cfg} {toks : List Tok} :
      Reach isNum c toks → ¬ (c.stack.length = 1 ∧ nextOf toks = .eof) →
      shouldShift (curOf c) (nextOf toks) = false → reduce isNum c = some c' →
      Reach isNum c' toks

/-- both invariants hold in every reachable configuration: every expression item the run ever puts on the
    stack is `ExOK`, and the non-terminal stack mirrors the token items of the stack -/
theorem reach_inv (isNum : Bool → Ex → Bool) {c : Cfg} {toks : List Tok} (h : Reach isNum c toks) :
    Inv isNum c := by
  induction h with
  | init toks => exact inv_init isNum
  | shiftNT _ _ _ ih => exact inv_shiftNT isNum _ _ ih
  | shiftTerm _ _ _ _ ih => exact inv_shiftTerm isNum _ _ ih
  | andReduce _ _ _ _ _ hr ih => exact reduce_inv isNum _ _ ih hr
  | andShift _ _ _ _ _ ih => exact inv_andShift isNum _ _ ih
  | reduce _ _ _ hr ih => exact reduce_inv isNum _ _ ih hr

theorem reach_stack_exok (isNum : Bool → Ex → Bool) {c : Cfg} {toks : List Tok} (h : Reach isNum c toks)
    (e : Ex) (he : .ex e ∈ c.stack) : ExOK isNum e :=
  (reach_inv isNum h).1 _ he

theorem reach_ntsInv (isNum : Bool → Ex → Bool) {c : Cfg} {toks : List Tok} (h : Reach isNum c toks) :
    NtsInv c := (reach_inv isNum h).2

/-! #### consequences that make the model faithful where Go would panic on an out-of-range index/slice -/

/-- `nonTerminals` is never empty: `curOf c` (`p.nonTerminals[len-1]`) is a real element, not the `headD` default -/
theorem reach_nts_ne_nil (isNum : Bool → Ex → Bool) {c : Cfg} {toks : List Tok} (h : Reach isNum c toks) :
    c.nts ≠ [] := by
  have := reach_ntsInv isNum h
  unfold NtsInv at this
  rw [this]
  simp

theorem reach_curOf (isNum : Bool → Ex → Bool) {c : Cfg} {toks : List Tok} (h : Reach isNum c toks) :
    ∃ rest, c.nts = curOf c :: rest := by
  have hne := reach_nts_ne_nil isNum h
  cases hn : c.nts with
  | nil => exact absurd hn hne
  | cons x r => exact ⟨r, by simp [curOf, hn]⟩

/-- the bottom of `nonTerminals` is always `.start` -/
theorem reach_nts_bottom (isNum : Bool → Ex → Bool) {c : Cfg} {toks : List Tok} (h : Reach isNum c toks) :
    c.nts.getLast? = some .start := by
  have := reach_ntsInv isNum h
  unfold NtsInv at this
  rw [this]
  simp

/-- whenever a reachable configuration is reduced, the number `k` of non-terminals to drop is strictly smaller
    than the height of `nonTerminals`: the slice `nonTerminals[:len-k]` is in range and still contains `.start` -/
theorem reach_reduce_bound (isNum : Bool → Ex → Bool) {c : Cfg} {toks : List Tok} (h : Reach isNum c toks)
    (st : List Item) (k : Nat) (hr : reduceLoop isNum c.stack [] = some (st, k)) :
    k < c.nts.length ∧ (c.nts.drop k).getLast? = some .start ∧ c.nts.drop k ≠ [] := by
  have hb := reduceLoop_nts isNum c st k (reach_ntsInv isNum h) hr
  have hi := hb.2
  unfold NtsInv at hi
  simp only at hi
  refine ⟨hb.1, ?_, ?_⟩
  · rw [hi]; simp
  · rw [hi]; simp

/-- the same, phrased on `reduce` -/
theorem reach_reduce (isNum : Bool → Ex → Bool) {c c' : Cfg} {toks : List Tok} (h : Reach isNum c toks)
    (hr : reduce isNum c = some c') :
    ∃ st k, reduceLoop isNum c.stack [] = some (st, k) ∧ c' = ⟨st, c.nts.drop k⟩ ∧ k < c.nts.length := by
  obtain ⟨st, k, hl, rfl⟩ := reduce_stack isNum c c' hr
  exact ⟨st, k, hl, rfl, (reach_reduce_bound isNum h st k hl).1⟩

/-! ### `runW` only visits reachable configurations -/

theorem shouldShift_terminal {cur t : TT} (h1 : shouldShift cur t = true) (h2 : t.isTerminal = true) :
    ∀ cur', shouldShift cur' t = true := by
  intro cur'
  cases t <;> simp_all [shouldShift, TT.isTerminal]

/-- every iteration of the implicit-AND loop is on a reachable configuration, and so is its exit -/
theorem reduceUntilShift_reach (isNum : Bool → Ex → Bool) (t : Tok) (rest : List Tok)
    (hterm : t.typ.isTerminal = true) :
    ∀ (fuel : Nat) (c c' : Cfg), Reach isNum c (t :: rest) → shouldShift (curOf c) t.typ = true →
      (∃ e s, c.stack = .ex e :: s) → reduceUntilShift isNum .tand fuel c = some c' →
      Reach isNum c' (t :: rest) ∧ shouldShift (curOf c') t.typ = true ∧ (∃ e s, c'.stack = .ex e :: s) ∧
        shouldShift (curOf c') .tand = true := by
  intro fuel
  induction fuel with
  | zero => intro c c' _ _ _ h; simp [reduceUntilShift] at h
  | succ n ih =>
    intro c c' hre hs htop h
    simp only [reduceUntilShift] at h
    split at h
    · rename_i hand
      simp at h; subst h
      exact ⟨hre, hs, htop, hand⟩
    · rename_i hand
      split at h
      · simp at h
      · rename_i c1 hr
        obtain ⟨e, s, hst⟩ := htop
        have hre1 : Reach isNum c1 (t :: rest) :=
          Reach.andReduce hre hs hterm hst (by simpa using hand) hr
        exact ih c1 c' hre1 (shouldShift_terminal hs hterm _) (reduce_top isNum c c1 hr) h

/-- The result of the run from a reachable configuration is `.err`, or the tree accepted in a reachable
    configuration (stack `[.ex e]`, input exhausted).  The proof follows every recursive call of `runW` with the
    corresponding constructor of `Reach`. -/
theorem runW_reach (isNum : Bool → Ex → Bool) : ∀ (n : Nat) (c : Cfg) (toks : List Tok),
    3 * toks.length + c.stack.length ≤ n → Reach isNum c toks →
    runW isNum c toks = .err ∨
      ∃ c' toks' e, Reach isNum c' toks' ∧ c'.stack = [.ex e] ∧ nextOf toks' = .eof ∧ runW isNum c toks = .ok e := by
  intro n
  induction n with
  | zero =>
    intro c toks hn _
    have ht : toks = [] := List.length_eq_zero_iff.mp (by omega)
    have hs : c.stack = [] := List.length_eq_zero_iff.mp (by omega)
    subst ht
    left
    rw [runW.eq_def]
    simp only [nextOf, shouldShift]
    split
    · rename_i hacc
      simp [hs] at hacc
    · simp only [if_true, Bool.false_eq_true, if_false]
      split
      · rfl
      · rename_i c' hr
        have hl := reduce_len isNum _ _ hr
        simp [hs] at hl
  | succ n ih =>
    intro c toks hn hre
    cases toks with
    | nil =>
      rw [runW.eq_def]
      simp only [nextOf, shouldShift]
      split
      · rename_i hacc
        split
        · rename_i e' hst
          exact Or.inr ⟨c, [], e', hre, hst, rfl, rfl⟩
        · exact Or.inl rfl
      · rename_i hacc
        simp only [if_true, Bool.false_eq_true, if_false]
        split
        · exact Or.inl rfl
        · rename_i c' hr
          have hl := reduce_len isNum _ _ hr
          exact ih c' [] (by simp at hn ⊢; omega)
            (Reach.reduce hre (by simpa [nextOf] using hacc) (by simp [nextOf, shouldShift]) hr)
    | cons x tl =>
      rw [runW_cons]
      split
      · rename_i hacc
        split
        · rename_i e' hst
          exact Or.inr ⟨c, x :: tl, e', hre, hst, hacc.2, rfl⟩
        · exact Or.inl rfl
      · rename_i hacc
        split
        · rename_i hs
          split
          · rename_i hterm
            split
            · rename_i e0 s0 hst
              split
              · exact Or.inl rfl
              · rename_i c' hc'
                have hl := reduceUntilShift_len isNum _ _ _ _ hc'
                obtain ⟨hre', hs', ⟨e1, s1, hst1⟩, hand⟩ :=
                  reduceUntilShift_reach isNum x tl hterm _ c c' hre hs ⟨_, _, hst⟩ hc'
                exact ih _ tl (by simp at hn ⊢; omega) (Reach.andShift hre' hs' hterm hst1 hand)
            · rename_i hnot
              exact ih _ tl (by simp at hn ⊢; omega)
                (Reach.shiftTerm hre hs hterm (fun e s he => hnot e s he))
          · rename_i hterm
            exact ih _ tl (by simp at hn ⊢; omega) (Reach.shiftNT hre hs (by simpa using hterm))
        · rename_i hs
          split
          · exact Or.inl rfl
          · rename_i c' hr
            have hl := reduce_len isNum _ _ hr
            exact ih c' (x :: tl) (by simp at hn ⊢; omega)
              (Reach.reduce hre (by simpa [nextOf] using hacc) (by simpa [nextOf] using hs) hr)

/-- every tree the run returns from a reachable configuration is `ExOK` -/
theorem run_exok (isNum : Bool → Ex → Bool) (c : Cfg) (toks : List Tok) (ex : Ex)
    (hre : Reach isNum c toks) (h : runW isNum c toks = .ok ex) : ExOK isNum ex := by
  rcases runW_reach isNum _ c toks (Nat.le_refl _) hre with herr | ⟨c', toks', e, hre', hst, _, hok⟩
  · rw [herr] at h; cases h
  · rw [hok] at h
    cases h
    exact reach_stack_exok isNum hre' _ (by simp [hst])

/-- (1a) the tree of reductions of an accepted input has no `.inn` node and every fuzzy/boost operand passed the
    reducer's numeric test -/
theorem parseToks_exok (isNum : Bool → Ex → Bool) (toks : List Tok) (ex : Ex)
    (h : parseToks isNum toks = .ok ex) : ExOK isNum ex :=
  run_exok isNum _ toks ex (Reach.init toks) h

end GoLucene
