import GoLucene.Proofs.SqlWideP
/-
  C02 for the parameterized text, part 2: what the parsed predicate `toAstP e` looks like.
    param_numbers       its placeholders are 1, 2, …, ps.length, from left to right
    param_cols_consts   its columns are column leaves of `e`; its only constants besides placeholders are `'*'` and `0`
                        (open range ends); the left operand of every predicate is a column (placeholders stand only
                        in value positions, or are bare terms); every parameter is a value leaf of `e` or the LIKE
                        translation of one
-/
set_option linter.unusedSimpArgs false
set_option linter.unusedVariables false

namespace GoLucene.SqlWide
open GoLucene Sql SqlMeaning SqlText NoPanic

/-! ## placeholders are numbered 1 … n from left to right -/

mutual
/-- the placeholder numbers of a predicate, from left to right -/
def pnums : Ast → List Nat
  | .col _ => []
  | .str _ => []
  | .num _ _ => []
  | .param n => [n]
  | .cmp _ l r => pnums l ++ pnums r
  | .between x lo hi => pnums x ++ (pnums lo ++ pnums hi)
  | .inList x items => pnums x ++ pnumsL items
  | .similar x p => pnums x ++ pnums p
  | .regex x p => pnums x ++ pnums p
  | .and l r => pnums l ++ pnums r
  | .or l r => pnums l ++ pnums r
  | .not x => pnums x
def pnumsL : AstList → List Nat
  | .nil => []
  | .cons a t => pnums a ++ pnumsL t
end

theorem range_app (k m n : Nat) : List.range' k m ++ List.range' (k + m) n = List.range' k (m + n) := by
  rw [List.range'_append_1]

mutual
theorem pnums_renum : ∀ (c : Cst) (k : Nat), pnums (renum k c).toAst = List.range' k (pcount c)
  | .col _, _ => by simp [renum, Cst.toAst, pnums, pcount]
  | .str _, _ => by simp [renum, Cst.toAst, pnums, pcount]
  | .num _ _, _ => by simp [renum, Cst.toAst, pnums, pcount]
  | .param _, _ => by simp [renum, Cst.toAst, pnums, pcount]
  | .paren x, k => by simp only [renum, Cst.toAst, pcount, pnums_renum x k]
  | .cmp _ l r, k => by
    simp only [renum, Cst.toAst, pnums, pcount, pnums_renum l k, pnums_renum r (k + pcount l), range_app]
  | .between x lo hi, k => by
    simp only [renum, Cst.toAst, pnums, pcount, pnums_renum x k, pnums_renum lo (k + pcount x),
      pnums_renum hi (k + pcount x + pcount lo), range_app]
  | .inList x items, k => by
    simp only [renum, Cst.toAst, pnums, pcount, pnums_renum x k, pnumsL_renum items (k + pcount x), range_app]
  | .similar x p, k => by
    simp only [renum, Cst.toAst, pnums, pcount, pnums_renum x k, pnums_renum p (k + pcount x), range_app]
  | .regex x p, k => by
    simp only [renum, Cst.toAst, pnums, pcount, pnums_renum x k, pnums_renum p (k + pcount x), range_app]
  | .and l r, k => by
    simp only [renum, Cst.toAst, pnums, pcount, pnums_renum l k, pnums_renum r (k + pcount l), range_app]
  | .or l r, k => by
    simp only [renum, Cst.toAst, pnums, pcount, pnums_renum l k, pnums_renum r (k + pcount l), range_app]
  | .not x, k => by simp only [renum, Cst.toAst, pnums, pcount, pnums_renum x k]
theorem pnumsL_renum : ∀ (l : CstList) (k : Nat), pnumsL (renumL k l).toAstList = List.range' k (pcountL l)
  | .nil, _ => by simp [renumL, CstList.toAstList, pnumsL, pcountL]
  | .cons a t, k => by
    simp only [renumL, CstList.toAstList, pnumsL, pcountL, pnums_renum a k, pnumsL_renum t (k + pcount a), range_app]
end

/-- the placeholders of the parsed predicate are exactly `$1 … $n`, in order, where `n` is the number of parameters:
    every placeholder has its parameter and every parameter its placeholder -/
theorem param_numbers (e : Expr) (sqlP : Bytes) (ps : List Prim) (a : Ast) (hc : confinedParam e = true)
    (ht : textParam e = true) (hr : renderParam pgFns e = .ok (sqlP, ps)) (hp : parseSql sqlP = some a) :
    pnums a = List.range' 1 ps.length := by
  obtain ⟨c, _, hcnt, hparse⟩ := render_parses_param_iff e sqlP ps hc ht hr
  rw [hparse] at hp
  split at hp
  · cases hp; rw [pnums_renum, hcnt]
  · cases hp

/-! ## provenance -/

def isColA : Ast → Bool
  | .col _ => true
  | _ => false

/-- the left operand of every predicate is a column reference -/
def fieldsAreCols : Ast → Bool
  | .cmp _ l _ => isColA l
  | .between x _ _ => isColA x
  | .inList x _ => isColA x
  | .similar x _ => isColA x
  | .regex x _ => isColA x
  | .and l r => fieldsAreCols l && fieldsAreCols r
  | .or l r => fieldsAreCols l && fieldsAreCols r
  | .not x => fieldsAreCols x
  | _ => true

/-- a constant of the parameterized text: a placeholder, or one of the two fixed constants of an open range -/
def fixedConst (k : Ast) : Prop := (∃ n, k = .param n) ∨ k = .str [42] ∨ k = .num false [48]

/-- a parameter is a value leaf of the tree, or the LIKE translation (`*`→`%`, `?`→`_`) of one -/
def paramFrom (q : Prim) (ls : List Prim) : Prop := q ∈ ls ∨ ∃ s, q = .str (starPattern s) ∧ Prim.str s ∈ ls

/-- what is proved about the predicate `a` read from the parameterized text, the parameters `ps`, and the leaves -/
def ProvA (a : Ast) (ps ls : List Prim) : Prop :=
  (∀ f ∈ cols a, Prim.col f ∈ ls) ∧ (∀ k ∈ consts a, fixedConst k) ∧ fieldsAreCols a = true ∧ ∀ q ∈ ps, paramFrom q ls

theorem ProvA.mono {a : Ast} {ps ls ls' : List Prim} (h : ProvA a ps ls) (hs : ∀ q ∈ ls, q ∈ ls') : ProvA a ps ls' :=
  ⟨fun f hf => hs _ (h.1 f hf), h.2.1, h.2.2.1, fun q hq => by
    rcases h.2.2.2 q hq with h1 | ⟨s, e, h1⟩
    · exact .inl (hs _ h1)
    · exact .inr ⟨s, e, hs _ h1⟩⟩

theorem ProvA.bin {a c r : Ast} {pa pc ls : List Prim} (h1 : ProvA a pa ls) (h2 : ProvA c pc ls)
    (hc : cols r = cols a ++ cols c) (hk : consts r = consts a ++ consts c)
    (hf : fieldsAreCols r = (fieldsAreCols a && fieldsAreCols c)) : ProvA r (pa ++ pc) ls := by
  refine ⟨fun x hx => ?_, fun x hx => ?_, by rw [hf, h1.2.2.1, h2.2.2.1]; rfl, fun q hq => ?_⟩
  · rw [hc, List.mem_append] at hx; rcases hx with hx | hx; exact h1.1 x hx; exact h2.1 x hx
  · rw [hk, List.mem_append] at hx; rcases hx with hx | hx; exact h1.2.1 x hx; exact h2.2.1 x hx
  · rw [List.mem_append] at hq; rcases hq with hq | hq; exact h1.2.2.2 q hq; exact h2.2.2.2 q hq

theorem renum_wrap (n : Node) (c : Cst) (k : Nat) : (renum k (wrapOpd n c)).toAst = (renum k c).toAst := by
  unfold wrapOpd; split <;> simp [renum, Cst.toAst]

/-- an operand: a column, or a placeholder whose parameter is the value -/
theorem atom_prov (q : Prim) (k : Nat) : ProvA (renum k (atomCstP q)).toAst (atomPs q) [q] := by
  cases q <;>
    simp [ProvA, atomCstP, atomPs, renum, Cst.toAst, cols, consts, fieldsAreCols, fixedConst, paramFrom]

theorem opd_prov {n : Node} {q : Prim} (h : opdPrim n = some q) (k : Nat) :
    ProvA (renum k (atomCstP q)).toAst (atomPs q) (leavesNode n) :=
  (atom_prov q k).mono (fun q' hq' => by
    have : q' = q := by simpa using hq'
    subst this; exact opdPrim_leaf_mem h)

/-- a predicate `"f" op X` where `X` is an operand or a fixed constant -/
theorem colX_prov (f : Bytes) {x : Ast} {ps ls : List Prim} (hf : Prim.col f ∈ ls)
    (hx : (∀ g ∈ cols x, Prim.col g ∈ ls) ∧ (∀ k ∈ consts x, fixedConst k) ∧ ∀ q ∈ ps, paramFrom q ls) :
    (∀ g ∈ cols (.col f) ++ cols x, Prim.col g ∈ ls) ∧ (∀ k ∈ consts (.col f) ++ consts x, fixedConst k) ∧
      ∀ q ∈ ps, paramFrom q ls := by
  refine ⟨fun g hg => ?_, fun k hk => ?_, hx.2.2⟩
  · simp only [cols, List.singleton_append, List.mem_cons] at hg
    rcases hg with rfl | hg; exact hf; exact hx.1 g hg
  · simp only [consts, List.nil_append] at hk; exact hx.2.1 k hk

theorem listCP_prov : ∀ (es : ExprList) (cs : CstList) (ps : List Prim) (k : Nat), listCP es = some (cs, ps) →
    (∀ g ∈ colsL (renumL k cs).toAstList, Prim.col g ∈ leavesList es) ∧
    (∀ c ∈ constsL (renumL k cs).toAstList, fixedConst c) ∧ ∀ q ∈ ps, paramFrom q (leavesList es)
  | .nil, cs, ps, k, h => by
    simp only [listCP, Option.some.injEq, Prod.mk.injEq] at h
    obtain ⟨rfl, rfl⟩ := h
    simp [renumL, CstList.toAstList, colsL, constsL]
  | .cons e t, cs, ps, k, h => by
    unfold listCP at h
    split at h
    · rename_i heq; cases heq
    · rename_i q o bz fz t' heq
      cases heq
      split at h
      · split at h
        · rename_i cs' ps' hl
          cases h
          have h1 := atom_prov q k
          have h2 := listCP_prov t cs' ps' (k + pcount (atomCstP q)) hl
          have hm : ∀ x ∈ leavesList t, x ∈ leavesList (.cons (.mk (.prim q) o .nil bz fz) t) :=
            fun x hx => by simp [leavesList, hx]
          have hq : q ∈ leavesList (.cons (.mk (.prim q) o .nil bz fz) t) := by
            simp [leavesList, leaves, leavesNode]
          refine ⟨fun g hg => ?_, fun c hc => ?_, fun x hx => ?_⟩
          · simp only [renumL, CstList.toAstList, colsL, List.mem_append] at hg
            rcases hg with hg | hg
            · have := h1.1 g hg
              simp only [List.mem_singleton] at this
              subst this; exact hq
            · exact hm _ (h2.1 g hg)
          · simp only [renumL, CstList.toAstList, constsL, List.mem_append] at hc
            rcases hc with hc | hc
            · exact h1.2.1 c hc
            · exact h2.2.1 c hc
          · rw [List.mem_append] at hx
            rcases hx with hx | hx
            · rcases h1.2.2.2 x hx with h' | ⟨s, e', h'⟩
              · simp only [List.mem_singleton] at h'; subst h'; exact .inl hq
              · simp only [List.mem_singleton] at h'; subst h'; exact .inr ⟨s, e', hq⟩
            · rcases h2.2.2 x hx with h' | ⟨s, e', h'⟩
              · exact .inl (hm _ h')
              · exact .inr ⟨s, e', hm _ h'⟩
        · cases h
      · cases h
    · cases h

theorem fldColOf_mem {l : Node} {f : Bytes} (h : fldColOf l = some f) : Prim.col f ∈ leavesNode l :=
  opdPrim_leaf_mem (fldColOf_inv h)

theorem endPs_from (s : Bool) (q : Prim) (ls : List Prim) (h : q ∈ ls) : ∀ x ∈ endPs s q, paramFrom x ls := by
  intro x hx
  cases s
  · simp only [endPs, Bool.false_eq_true, ↓reduceIte, List.mem_singleton] at hx; subst hx; exact .inl h
  · simp [endPs] at hx

/-- the range forms -/
theorem rangeCP_prov (f : Bytes) (incl slo shi : Bool) (qlo qhi : Prim) (k : Nat) :
    (∀ g ∈ cols (renum k (rangeCP (.col f) incl slo shi qlo qhi)).toAst, g = f) ∧
    (∀ c ∈ consts (renum k (rangeCP (.col f) incl slo shi qlo qhi)).toAst, fixedConst c) ∧
    fieldsAreCols (renum k (rangeCP (.col f) incl slo shi qlo qhi)).toAst = true := by
  cases slo <;> cases shi <;> cases h : isNumPrim qlo <;> cases h' : isNumPrim qhi <;>
    simp [rangeCP, h, h', renum, Cst.toAst, cols, consts, fieldsAreCols, isColA, fixedConst, pcount]

mutual
theorem provP_node : ∀ (n : Node) (c : Cst) (ps : List Prim), toCstPNode n = some (c, ps) →
    ∀ k, ProvA (renum k c).toAst ps (leavesNode n)
  | .expr e, c, ps, h => by
    simp only [toCstPNode] at h; simp only [leavesNode]; exact provP_expr e c ps h
  | .prim q, c, ps, h => by
    simp only [toCstPNode] at h
    split at h
    · cases h
      intro k
      exact (atom_prov q k).mono (fun q' hq' => by simpa [leavesNode] using hq')
    · cases h
  | .nil, _, _, h => by simp [toCstPNode] at h
  | .list _, _, _, h => by simp [toCstPNode] at h
  | .bound _ _ _, _, _, h => by simp [toCstPNode] at h
/-- a property of `toCstP` alone: columns, constants, positions and parameters of the parameterized predicate -/
theorem provP_expr : ∀ (e : Expr) (c : Cst) (ps : List Prim), toCstP e = some (c, ps) →
    ∀ k, ProvA (renum k c).toAst ps (leaves e)
  | .mk l o r p d, c, ps, h => by
    have hL : ∀ q ∈ leavesNode l, q ∈ leaves (.mk l o r p d) := fun q hq => by simp [leaves, hq]
    have hR : ∀ q ∈ leavesNode r, q ∈ leaves (.mk l o r p d) := fun q hq => by simp [leaves, hq]
    cases o
    case and =>
      simp only [toCstP] at h
      split at h
      · rename_i x px y py hx hy
        simp only [Option.some.injEq, Prod.mk.injEq] at h
        obtain ⟨rfl, rfl⟩ := h
        intro k
        have h1 := (provP_node l x _ hx k).mono hL
        have h2 := (provP_node r y py hy (k + pcount (wrapOpd l x))).mono hR
        simp only [renum, Cst.toAst, renum_wrap]
        exact h1.bin h2 (by simp only [cols]) (by simp only [consts]) (by simp only [fieldsAreCols])
      · cases h
    case or =>
      simp only [toCstP] at h
      split at h
      · rename_i x px y py hx hy
        simp only [Option.some.injEq, Prod.mk.injEq] at h
        obtain ⟨rfl, rfl⟩ := h
        intro k
        have h1 := (provP_node l x _ hx k).mono hL
        have h2 := (provP_node r y py hy (k + pcount (wrapOpd l x))).mono hR
        simp only [renum, Cst.toAst, renum_wrap]
        exact h1.bin h2 (by simp only [cols]) (by simp only [consts]) (by simp only [fieldsAreCols])
      · cases h
    case not =>
      simp only [toCstP] at h
      split at h
      · rename_i x px hx
        cases h
        intro k
        have h1 := (provP_node l x _ hx k).mono hL
        simp only [renum, Cst.toAst]
        exact ⟨fun f hf => h1.1 f (by simpa [cols] using hf), fun c hc => h1.2.1 c (by simpa [consts] using hc),
          by simpa [fieldsAreCols] using h1.2.2.1, h1.2.2.2⟩
      · cases h
    case mustNot =>
      simp only [toCstP] at h
      split at h
      · rename_i x px hx
        cases h
        intro k
        have h1 := (provP_node l x _ hx k).mono hL
        simp only [renum, Cst.toAst]
        exact ⟨fun f hf => h1.1 f (by simpa [cols] using hf), fun c hc => h1.2.1 c (by simpa [consts] using hc),
          by simpa [fieldsAreCols] using h1.2.2.1, h1.2.2.2⟩
      · cases h
    case must =>
      simp only [toCstP] at h
      intro k
      exact (provP_node l c ps h k).mono hL
    case literal =>
      simp only [toCstP] at h
      split at h
      · rename_i q
        split at h
        · cases h; intro k
          exact (atom_prov q k).mono (fun q' hq' => by
            have : q' = q := by simpa using hq'
            subst this; simp [leaves, leavesNode])
        · cases h
      · cases h
    case wild =>
      simp only [toCstP] at h
      split at h
      · rename_i q
        split at h
        · cases h; intro k
          exact (atom_prov q k).mono (fun q' hq' => by
            have : q' = q := by simpa using hq'
            subst this; simp [leaves, leavesNode])
        · cases h
      · cases h
    case regexp =>
      simp only [toCstP] at h
      split at h
      · rename_i q
        split at h
        · cases h; intro k
          exact (atom_prov q k).mono (fun q' hq' => by
            have : q' = q := by simpa using hq'
            subst this; simp [leaves, leavesNode])
        · cases h
      · cases h
    case like =>
      simp only [toCstP] at h
      split at h
      · rename_i f pat hf hp
        have hfl := hL _ (fldColOf_mem hf)
        have hq : Prim.str pat ∈ leaves (.mk l .like r p d) := hR _ (opdPrim_leaf_mem hp)
        split at h
        · cases h; intro k
          refine ⟨fun g hg => ?_, fun c hc => ?_, rfl, fun q hq' => ?_⟩
          · simp [renum, Cst.toAst, cols] at hg; subst hg; exact hfl
          · simp [renum, Cst.toAst, consts] at hc; subst hc; exact .inl ⟨_, rfl⟩
          · simp only [List.mem_singleton] at hq'; subst hq'; exact .inl hq
        · cases h; intro k
          refine ⟨fun g hg => ?_, fun c hc => ?_, rfl, fun q hq' => ?_⟩
          · simp [renum, Cst.toAst, cols] at hg; subst hg; exact hfl
          · simp [renum, Cst.toAst, consts] at hc; subst hc; exact .inl ⟨_, rfl⟩
          · simp only [List.mem_singleton] at hq'; subst hq'; exact .inr ⟨pat, rfl, hq⟩
      · cases h
    case in_ =>
      simp only [toCstP] at h
      split at h
      · rename_i f es bz fz hf
        have hfl := hL _ (fldColOf_mem hf)
        split at h
        · rename_i y ys ps' hl
          cases h; intro k
          obtain ⟨i1, i2, i3⟩ := listCP_prov es _ _ (k + 0) hl
          have hm : ∀ x ∈ leavesList es, x ∈ leaves (.mk l .in_ (.expr (.mk (.list es) .list .nil bz fz)) p d) :=
            fun x hx => by simp [leaves, leavesNode, hx]
          refine ⟨fun g hg => ?_, fun c hc => ?_, rfl, fun q hq' => ?_⟩
          · simp only [renum, Cst.toAst, cols, pcount, List.singleton_append, List.mem_cons] at hg
            rcases hg with rfl | hg
            · exact hfl
            · exact hm _ (i1 g hg)
          · simp only [renum, Cst.toAst, consts, pcount, List.nil_append] at hc
            exact i2 c hc
          · rcases i3 q hq' with h' | ⟨s, e', h'⟩
            · exact .inl (hm _ h')
            · exact .inr ⟨s, e', hm _ h'⟩
        · cases h
      · cases h
    case range =>
      simp only [toCstP] at h
      split at h
      · rename_i f mn mx incl hf
        have hfl := hL _ (fldColOf_mem hf)
        split at h
        · rename_i qlo qhi hlo hhi
          split at h
          · cases h; intro k
            have m1 : qlo ∈ leaves (.mk l .range (.bound mn mx incl) p d) := by
              have := opdPrim_leaf_mem hlo; simp [leaves, leavesNode, this]
            have m2 : qhi ∈ leaves (.mk l .range (.bound mn mx incl) p d) := by
              have := opdPrim_leaf_mem hhi; simp [leaves, leavesNode, this]
            obtain ⟨r1, r2, r3⟩ := rangeCP_prov f incl (bndStar mn) (bndStar mx) qlo qhi k
            refine ⟨fun g hg => by rw [r1 g hg]; exact hfl, r2, r3, fun q hq' => ?_⟩
            rw [List.mem_append] at hq'
            rcases hq' with hq' | hq'
            · exact endPs_from _ _ _ m1 q hq'
            · exact endPs_from _ _ _ m2 q hq'
          · cases h
        · cases h
      · cases h
    case equals =>
      simp only [toCstP] at h
      split at h
      · rename_i f c' ps' hf hcp
        cases h; intro k
        have hfl := hL _ (fldColOf_mem hf)
        unfold opdCP at hcp
        split at hcp
        · rename_i q hq
          split at hcp
          · cases hcp
            have h1 := (opd_prov hq (k + 0)).mono hR
            simp only [renum, Cst.toAst, pcount]
            obtain ⟨a1, a2, a3⟩ := colX_prov f hfl ⟨h1.1, h1.2.1, h1.2.2.2⟩
            exact ⟨by simpa [cols] using a1, by simpa [consts] using a2, rfl, a3⟩
          · cases hcp
        · cases hcp
      · cases h
    case greater =>
      simp only [toCstP] at h
      split at h
      · rename_i f c' ps' hf hcp
        cases h; intro k
        have hfl := hL _ (fldColOf_mem hf)
        unfold opdCP at hcp
        split at hcp
        · rename_i q hq
          split at hcp
          · cases hcp
            have h1 := (opd_prov hq (k + 0)).mono hR
            simp only [renum, Cst.toAst, pcount]
            obtain ⟨a1, a2, a3⟩ := colX_prov f hfl ⟨h1.1, h1.2.1, h1.2.2.2⟩
            exact ⟨by simpa [cols] using a1, by simpa [consts] using a2, rfl, a3⟩
          · cases hcp
        · cases hcp
      · cases h
    case less =>
      simp only [toCstP] at h
      split at h
      · rename_i f c' ps' hf hcp
        cases h; intro k
        have hfl := hL _ (fldColOf_mem hf)
        unfold opdCP at hcp
        split at hcp
        · rename_i q hq
          split at hcp
          · cases hcp
            have h1 := (opd_prov hq (k + 0)).mono hR
            simp only [renum, Cst.toAst, pcount]
            obtain ⟨a1, a2, a3⟩ := colX_prov f hfl ⟨h1.1, h1.2.1, h1.2.2.2⟩
            exact ⟨by simpa [cols] using a1, by simpa [consts] using a2, rfl, a3⟩
          · cases hcp
        · cases hcp
      · cases h
    case greaterEq =>
      simp only [toCstP] at h
      split at h
      · rename_i f c' ps' hf hcp
        cases h; intro k
        have hfl := hL _ (fldColOf_mem hf)
        unfold opdCP at hcp
        split at hcp
        · rename_i q hq
          split at hcp
          · cases hcp
            have h1 := (opd_prov hq (k + 0)).mono hR
            simp only [renum, Cst.toAst, pcount]
            obtain ⟨a1, a2, a3⟩ := colX_prov f hfl ⟨h1.1, h1.2.1, h1.2.2.2⟩
            exact ⟨by simpa [cols] using a1, by simpa [consts] using a2, rfl, a3⟩
          · cases hcp
        · cases hcp
      · cases h
    case lessEq =>
      simp only [toCstP] at h
      split at h
      · rename_i f c' ps' hf hcp
        cases h; intro k
        have hfl := hL _ (fldColOf_mem hf)
        unfold opdCP at hcp
        split at hcp
        · rename_i q hq
          split at hcp
          · cases hcp
            have h1 := (opd_prov hq (k + 0)).mono hR
            simp only [renum, Cst.toAst, pcount]
            obtain ⟨a1, a2, a3⟩ := colX_prov f hfl ⟨h1.1, h1.2.1, h1.2.2.2⟩
            exact ⟨by simpa [cols] using a1, by simpa [consts] using a2, rfl, a3⟩
          · cases hcp
        · cases hcp
      · cases h
    all_goals simp [toCstP] at h
end

/-- COROLLARY (C02, parameterized text): in the predicate PostgreSQL parses from the parameterized text every column
    reference is a column leaf of the query tree; the only constants are placeholders and the two fixed constants
    `'*'` and `0` of open ranges — no user text at all; the left operand of every predicate is a column (placeholders
    stand only in value positions or are bare terms); every parameter is a value leaf of the tree or the LIKE
    translation of one. -/
theorem param_cols_consts (e : Expr) (sqlP : Bytes) (ps : List Prim) (a : Ast) (hc : confinedParam e = true)
    (ht : textParam e = true) (hr : renderParam pgFns e = .ok (sqlP, ps)) (hp : parseSql sqlP = some a) :
    (∀ f ∈ cols a, Prim.col f ∈ leaves e) ∧ (∀ k ∈ consts a, fixedConst k) ∧ fieldsAreCols a = true ∧
      ∀ q ∈ ps, paramFrom q (leaves e) := by
  obtain ⟨c, hcst, _, hparse⟩ := render_parses_param_iff e sqlP ps hc ht hr
  rw [hparse] at hp
  split at hp
  · cases hp; exact provP_expr e c ps hcst 1
  · cases hp

/-! ## the parameter-mode fragment contains the clean fragment -/

theorem pShape_of_clean {q : Prim} (h : cleanPrim q = true) : pShape q = true ∧ isValP q = true ∧ pTextOK q = true := by
  cases q <;> simp_all [cleanPrim, pShape, isValP, pTextOK]

theorem fldOKP_field {l : Node} (h : cleanField l = true) : fldOKP l = true := by
  obtain ⟨f, hf, _, _⟩ := cleanField_inv h
  simp [fldOKP, fldColOf, opdPrim_field hf]

theorem opdTextP_field {l : Node} (h : fieldText l = true) : opdTextP l = true := by
  unfold fieldText at h
  split at h
  · rename_i f hf
    simp only [opdTextP, opdPrim_field hf, pTextOK, primTextW]
    exact h
  · cases h

theorem itemsOKP_clean : ∀ es : ExprList, cleanItems es = true → itemsOKP es = true ∧ itemsTextP es = true
  | .nil, _ => ⟨rfl, rfl⟩
  | .cons e t, h => by
    unfold cleanItems at h
    split at h
    · rename_i heq; cases heq
    · rename_i q bz fz t' heq
      cases heq
      simp only [Bool.and_eq_true] at h
      have := itemsOKP_clean _ h.2
      have hq := pShape_of_clean h.1
      simp only [itemsOKP, itemsTextP, Bool.and_eq_true]
      exact ⟨⟨⟨rfl, hq.1⟩, this.1⟩, hq.2.2, this.2⟩
    · cases h

theorem valOKP_bnd {n : Node} {ba : Bnd} (h : bndOf n = some ba) : valOKP n = true := by
  simp only [valOKP, opdPrim_bnd h]
  cases ba <;> rfl

mutual
theorem confinedParamNode_of_clean : ∀ n : Node, cleanNode n = true → textNode n = true →
    confinedParamNode n = true ∧ textParamNode n = true
  | .expr e, h, ht => by
    simp only [cleanNode] at h; simp only [textNode] at ht
    simp only [confinedParamNode, textParamNode]; exact confinedParam_of_clean e h ht
  | .nil, h, _ => by simp [cleanNode] at h
  | .prim _, h, _ => by simp [cleanNode] at h
  | .list _, h, _ => by simp [cleanNode] at h
  | .bound _ _ _, h, _ => by simp [cleanNode] at h
/-- the clean fragment (with `textClean`) lies inside the fragment of the parameterized theorem -/
theorem confinedParam_of_clean : ∀ e : Expr, cleanFilter e = true → textClean e = true →
    confinedParam e = true ∧ textParam e = true
  | .mk l o r p d, h, ht => by
    cases o
    case and =>
      simp only [cleanFilter, Bool.and_eq_true] at h
      simp only [textClean, Bool.and_eq_true] at ht
      have h1 := confinedParamNode_of_clean l h.1 ht.1
      have h2 := confinedParamNode_of_clean r h.2 ht.2
      simp only [confinedParam, textParam, Bool.and_eq_true]
      exact ⟨⟨h1.1, h2.1⟩, h1.2, h2.2⟩
    case or =>
      simp only [cleanFilter, Bool.and_eq_true] at h
      simp only [textClean, Bool.and_eq_true] at ht
      have h1 := confinedParamNode_of_clean l h.1 ht.1
      have h2 := confinedParamNode_of_clean r h.2 ht.2
      simp only [confinedParam, textParam, Bool.and_eq_true]
      exact ⟨⟨h1.1, h2.1⟩, h1.2, h2.2⟩
    case not =>
      simp only [cleanFilter, Bool.and_eq_true] at h
      simp only [textClean] at ht
      have h1 := confinedParamNode_of_clean l h.1 ht
      simp only [confinedParam, textParam, Bool.and_eq_true]
      exact ⟨⟨h1.1, h.2⟩, h1.2⟩
    case mustNot =>
      simp only [cleanFilter, Bool.and_eq_true] at h
      simp only [textClean] at ht
      have h1 := confinedParamNode_of_clean l h.1 ht
      simp only [confinedParam, textParam, Bool.and_eq_true]
      exact ⟨⟨h1.1, h.2⟩, h1.2⟩
    case must =>
      simp only [cleanFilter, Bool.and_eq_true] at h
      simp only [textClean] at ht
      have h1 := confinedParamNode_of_clean l h.1 ht
      simp only [confinedParam, textParam, Bool.and_eq_true]
      exact ⟨⟨h1.1, h.2⟩, h1.2⟩
    case like =>
      simp only [cleanFilter, Bool.and_eq_true] at h
      simp only [textClean, Bool.and_eq_true] at ht
      obtain ⟨pat, p2, d2, rfl, _, _, _⟩ := cleanPattern_inv h.2
      simp only [confinedParam, textParam, Bool.and_eq_true]
      exact ⟨⟨fldOKP_field h.1, rfl⟩, opdTextP_field ht.1⟩
    case in_ =>
      simp only [cleanFilter, Bool.and_eq_true] at h
      simp only [textClean, Bool.and_eq_true] at ht
      obtain ⟨e, t, p2, d2, rfl⟩ := cleanList_inv h.2
      have hcl : cleanItems (.cons e t) = true := by simpa [cleanList] using h.2
      have hi := itemsOKP_clean _ hcl
      simp only [confinedParam, textParam, Bool.and_eq_true, listOKP]
      exact ⟨⟨fldOKP_field h.1, hi.1⟩, opdTextP_field ht.1, hi.2⟩
    case range =>
      simp only [cleanFilter, Bool.and_eq_true] at h
      simp only [textClean, Bool.and_eq_true] at ht
      obtain ⟨mn, mx, incl, ba, bc, rfl, hba, hbc, hcl⟩ := cleanRange_inv h.2
      simp only [confinedParam, textParam, Bool.and_eq_true, rangeOKP]
      exact ⟨⟨fldOKP_field h.1, valOKP_bnd hba, valOKP_bnd hbc⟩, opdTextP_field ht.1⟩
    case equals =>
      simp only [cleanFilter, Bool.and_eq_true] at h
      simp only [textClean, Bool.and_eq_true] at ht
      obtain ⟨q, p2, d2, rfl, hq⟩ := cleanValue_inv h.2
      have hs := pShape_of_clean hq
      simp only [confinedParam, textParam, Bool.and_eq_true, opdOKP, opdTextP, opdPrim_lit]
      exact ⟨⟨fldOKP_field h.1, hs.1⟩, opdTextP_field ht.1, hs.2.2⟩
    case greater =>
      simp only [cleanFilter, Bool.and_eq_true] at h
      simp only [textClean, Bool.and_eq_true] at ht
      obtain ⟨q, p2, d2, rfl, hq⟩ := cleanValue_inv h.2
      have hs := pShape_of_clean hq
      simp only [confinedParam, textParam, Bool.and_eq_true, opdOKP, opdTextP, opdPrim_lit]
      exact ⟨⟨fldOKP_field h.1, hs.1⟩, opdTextP_field ht.1, hs.2.2⟩
    case less =>
      simp only [cleanFilter, Bool.and_eq_true] at h
      simp only [textClean, Bool.and_eq_true] at ht
      obtain ⟨q, p2, d2, rfl, hq⟩ := cleanValue_inv h.2
      have hs := pShape_of_clean hq
      simp only [confinedParam, textParam, Bool.and_eq_true, opdOKP, opdTextP, opdPrim_lit]
      exact ⟨⟨fldOKP_field h.1, hs.1⟩, opdTextP_field ht.1, hs.2.2⟩
    case greaterEq =>
      simp only [cleanFilter, Bool.and_eq_true] at h
      simp only [textClean, Bool.and_eq_true] at ht
      obtain ⟨q, p2, d2, rfl, hq⟩ := cleanValue_inv h.2
      have hs := pShape_of_clean hq
      simp only [confinedParam, textParam, Bool.and_eq_true, opdOKP, opdTextP, opdPrim_lit]
      exact ⟨⟨fldOKP_field h.1, hs.1⟩, opdTextP_field ht.1, hs.2.2⟩
    case lessEq =>
      simp only [cleanFilter, Bool.and_eq_true] at h
      simp only [textClean, Bool.and_eq_true] at ht
      obtain ⟨q, p2, d2, rfl, hq⟩ := cleanValue_inv h.2
      have hs := pShape_of_clean hq
      simp only [confinedParam, textParam, Bool.and_eq_true, opdOKP, opdTextP, opdPrim_lit]
      exact ⟨⟨fldOKP_field h.1, hs.1⟩, opdTextP_field ht.1, hs.2.2⟩
    all_goals simp [cleanFilter] at h
end

end GoLucene.SqlWide

#print axioms GoLucene.SqlWide.param_numbers
#print axioms GoLucene.SqlWide.param_cols_consts
#print axioms GoLucene.SqlWide.confinedParam_of_clean
