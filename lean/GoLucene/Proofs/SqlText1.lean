import GoLucene.Model.Sql
import GoLucene.Model.Driver
/-
  SqlText, part 1: the shape of the concrete syntax trees the renderer emits (`RE`), their token lists (`ctoks`),
  and the GRAMMAR half of the theorem: PostgreSQL's expression grammar (the precedence-climbing functions
  `pOr … pPrim` of Model/Sql.lean) reads the token list of such a tree back as exactly that tree.
-/
namespace GoLucene.SqlText
open GoLucene Sql

/-! ## numeric texts -/

def AllDig (l : Bytes) : Prop := ∀ c ∈ l, isDigit c = true

/-- `.digits` (or nothing) -/
def FracShape (fr : Bytes) : Prop := fr = [] ∨ ∃ fp, fr = 46 :: fp ∧ fp ≠ [] ∧ AllDig fp
/-- `e[+-]digits` (or nothing) -/
def ExpShape (ex : Bytes) : Prop :=
  ex = [] ∨ ∃ sg ed, ex = 101 :: (sg ++ ed) ∧ (sg = [] ∨ sg = [43] ∨ sg = [45]) ∧ ed ≠ [] ∧ AllDig ed
/-- `digits[.digits][e[+-]digits]`: the unsigned numeric texts Go prints for finite numbers -/
def NumShape (raw : Bytes) : Prop :=
  ∃ ip fr ex, raw = ip ++ fr ++ ex ∧ ip ≠ [] ∧ AllDig ip ∧ FracShape fr ∧ ExpShape ex

/-! ## tokens of a concrete syntax tree -/

mutual
def ctoks : Cst → List Sql.Tok
  | .col f => [.qident f]
  | .str s => [.sconst s]
  | .num false raw => [.num raw]
  | .num true raw => [.minus, .num raw]
  | .param n => [.param n]
  | .paren x => .lparen :: (ctoks x ++ [.rparen])
  | .cmp op l r => ctoks l ++ .cmp op :: ctoks r
  | .between x lo hi => ctoks x ++ .kw .between :: (ctoks lo ++ .kw .and :: ctoks hi)
  | .inList x items => ctoks x ++ .kw .in_ :: .lparen :: (ltoks items ++ [.rparen])
  | .similar x p => ctoks x ++ .kw .similar :: .kw .to :: ctoks p
  | .regex x p => ctoks x ++ .tilde :: ctoks p
  | .and l r => ctoks l ++ .kw .and :: ctoks r
  | .or l r => ctoks l ++ .kw .or :: ctoks r
  | .not x => .kw .not :: ctoks x
def ltoks : CstList → List Sql.Tok
  | .nil => []
  | .cons a .nil => ctoks a
  | .cons a (.cons c t) => ctoks a ++ .comma :: ltoks (.cons c t)
end

def llen : CstList → Nat
  | .nil => 0
  | .cons _ t => llen t + 1

/-! ## the shapes the renderer emits -/

/-- constants and column references, with the lexical side conditions under which their text is one token -/
inductive Atom : Cst → Prop
  | col (f : Bytes) : f ≠ [] → (∀ c ∈ f, c ≠ 34) → (∀ c ∈ f, c ≠ 0) → Atom (.col f)
  | str (s : Bytes) : (∀ c ∈ s, c ≠ 0) → Atom (.str s)
  | num (neg : Bool) (raw : Bytes) : NumShape raw → Atom (.num neg raw)

/-- a non-empty list of atoms -/
inductive Atoms : CstList → Prop
  | one {a : Cst} : Atom a → Atoms (.cons a .nil)
  | cons {a c : Cst} {t : CstList} : Atom a → Atoms (.cons c t) → Atoms (.cons a (.cons c t))

/-- one predicate over atoms -/
inductive Leaf : Cst → Prop
  | cmp (op : CmpOp) {l r : Cst} : Atom l → Atom r → Leaf (.cmp op l r)
  | similar {x p : Cst} : Atom x → Atom p → Leaf (.similar x p)
  | regex {x p : Cst} : Atom x → Atom p → Leaf (.regex x p)
  | between {x lo hi : Cst} : Atom x → Atom lo → Atom hi → Leaf (.between x lo hi)
  | inList {x : Cst} {items : CstList} : Atom x → Atoms items → Leaf (.inList x items)

/-- the rendered expressions: a predicate, two predicates joined by AND (two-sided numeric range), and
    AND / OR / NOT over parenthesised rendered expressions -/
inductive RE : Cst → Prop
  | leaf {c : Cst} : Leaf c → RE c
  | rng {a c : Cst} : Leaf a → Leaf c → RE (.and a c)
  | and {l r : Cst} : RE l → RE r → RE (.and (.paren l) (.paren r))
  | or {l r : Cst} : RE l → RE r → RE (.or (.paren l) (.paren r))
  | not {x : Cst} : RE x → RE (.not (.paren x))

/-- fuel that `pOr` needs on the tokens of a rendered expression -/
def need : Cst → Nat
  | .paren x => need x + 7
  | .and l r => max (need l) (need r) + 3
  | .or l r => max (need l) (need r) + 3
  | .not x => need x + 2
  | .inList _ items => llen items + 16
  | _ => 10

/-! ## where a (sub)expression ends -/

/-- the token after an atom inside a predicate, or after a predicate -/
def stopTok : List Sql.Tok → Bool
  | [] => true
  | .rparen :: _ => true
  | .comma :: _ => true
  | .kw .and :: _ => true
  | .kw .or :: _ => true
  | _ => false

/-- the token after a complete rendered expression -/
def closeTok : List Sql.Tok → Bool
  | [] => true
  | .rparen :: _ => true
  | _ => false

theorem stop_of_close {ts : List Sql.Tok} (h : closeTok ts = true) : stopTok ts = true := by
  unfold closeTok at h
  split at h <;> first | rfl | cases h

/-! ## loops stop -/

theorem pOpLoop_stop (f : Nat) (l : Cst) (ts : List Sql.Tok) (h : ∀ r, ts ≠ .tilde :: r) :
    pOpLoop (f + 1) l ts = some (l, ts) := by
  cases ts with
  | nil => simp [pOpLoop]
  | cons t r =>
    cases t <;> first | (simp [pOpLoop]; done) | exact absurd rfl (h r)

theorem pAndLoop_stop (f : Nat) (l : Cst) (ts : List Sql.Tok) (h : ∀ r, ts ≠ .kw .and :: r) :
    pAndLoop (f + 1) l ts = some (l, ts) := by
  cases ts with
  | nil => simp [pAndLoop]
  | cons t r =>
    cases t with
    | kw k => cases k <;> first | (simp [pAndLoop]; done) | exact absurd rfl (h r)
    | _ => simp [pAndLoop]

theorem pOrLoop_stop (f : Nat) (l : Cst) (ts : List Sql.Tok) (h : ∀ r, ts ≠ .kw .or :: r) :
    pOrLoop (f + 1) l ts = some (l, ts) := by
  cases ts with
  | nil => simp [pOrLoop]
  | cons t r =>
    cases t with
    | kw k => cases k <;> first | (simp [pOrLoop]; done) | exact absurd rfl (h r)
    | _ => simp [pOrLoop]


/-! ## atoms -/

def noTilde : List Sql.Tok → Bool
  | .tilde :: _ => false
  | _ => true

theorem noTilde_ne {ts : List Sql.Tok} (h : noTilde ts = true) : ∀ r, ts ≠ .tilde :: r := by
  intro r e; subst e; simp [noTilde] at h

theorem pPrim_atom {a : Cst} (h : Atom a) (f : Nat) (rest : List Sql.Tok) :
    pPrim (f + 1) (ctoks a ++ rest) = some (a, rest) := by
  cases h with
  | col f' _ _ _ => simp [ctoks, pPrim]
  | str s _ => simp [ctoks, pPrim]
  | num neg raw _ => cases neg <;> simp [ctoks, pPrim]

theorem pOp_atom {a : Cst} (h : Atom a) (f : Nat) (rest : List Sql.Tok) (hr : noTilde rest = true) :
    pOp (f + 2) (ctoks a ++ rest) = some (a, rest) := by
  simp only [pOp, pPrim_atom h]
  exact pOpLoop_stop f a rest (noTilde_ne hr)


/-! ## falling through a level -/

def betStop : List Sql.Tok → Bool
  | .kw .between :: _ => false
  | .kw .in_ :: _ => false
  | .kw .similar :: _ => false
  | _ => true

theorem pBet_other (f : Nat) (ts : List Sql.Tok) (x : Cst) (r : List Sql.Tok) (h : pOp f ts = some (x, r))
    (hr : betStop r = true) : pBet (f + 1) ts = some (x, r) := by
  simp only [pBet, h]
  split
  · rename_i heq; cases heq; simp [betStop] at hr
  · rename_i heq; cases heq; simp [betStop] at hr
  · rename_i heq; cases heq; simp [betStop] at hr
  · rfl

theorem pCmp_other (f : Nat) (ts : List Sql.Tok) (x : Cst) (r : List Sql.Tok) (h : pBet f ts = some (x, r))
    (hr : startsCmp r = false) : pCmp (f + 1) ts = some (x, r) := by
  simp only [pCmp, h]
  split
  · rename_i heq; cases heq; simp [startsCmp] at hr
  · rfl

def headNot : List Sql.Tok → Bool
  | .kw .not :: _ => true
  | _ => false

theorem pNot_other (f : Nat) (ts : List Sql.Tok) (h : headNot ts = false) : pNot (f + 1) ts = pCmp f ts := by
  cases ts with
  | nil => simp [pNot]
  | cons t r =>
    cases t with
    | kw k => cases k <;> first | (simp [pNot]; done) | simp [headNot] at h
    | _ => simp [pNot]

theorem stop_noTilde {ts : List Sql.Tok} (h : stopTok ts = true) : noTilde ts = true := by
  unfold stopTok at h; split at h <;> first | rfl | cases h
theorem stop_betStop {ts : List Sql.Tok} (h : stopTok ts = true) : betStop ts = true := by
  unfold stopTok at h; split at h <;> first | rfl | cases h
theorem stop_notCmp {ts : List Sql.Tok} (h : stopTok ts = true) : startsCmp ts = false := by
  unfold stopTok at h; split at h <;> first | rfl | cases h


theorem atom_headNot {a : Cst} (h : Atom a) (r : List Sql.Tok) : headNot (ctoks a ++ r) = false := by
  cases h with
  | col f' _ _ _ => rfl
  | str s _ => rfl
  | num neg raw _ => cases neg <;> rfl

/-! ## one predicate, at the level of `pBet` / `pCmp` -/

theorem pBet_atom {a : Cst} (h : Atom a) (f : Nat) (rest : List Sql.Tok) (h1 : noTilde rest = true)
    (h2 : betStop rest = true) : pBet (f + 3) (ctoks a ++ rest) = some (a, rest) :=
  pBet_other _ _ _ _ (pOp_atom h f rest h1) h2

theorem pBet_similar {x p : Cst} (hx : Atom x) (hp : Atom p) (f : Nat) (rest : List Sql.Tok)
    (hr : noTilde rest = true) :
    pBet (f + 3) (ctoks (.similar x p) ++ rest) = some (.similar x p, rest) := by
  have e : ctoks (.similar x p) ++ rest = ctoks x ++ (.kw .similar :: .kw .to :: (ctoks p ++ rest)) := by
    simp [ctoks]
  rw [e]
  simp only [pBet, pOp_atom hx f _ (rfl : noTilde (.kw .similar :: .kw .to :: (ctoks p ++ rest)) = true),
    pOp_atom hp f rest hr]

theorem pBet_between {x lo hi : Cst} (hx : Atom x) (hlo : Atom lo) (hhi : Atom hi) (f : Nat) (rest : List Sql.Tok)
    (hr : noTilde rest = true) :
    pBet (f + 3) (ctoks (.between x lo hi) ++ rest) = some (.between x lo hi, rest) := by
  have e : ctoks (.between x lo hi) ++ rest =
      ctoks x ++ (.kw .between :: (ctoks lo ++ (.kw .and :: (ctoks hi ++ rest)))) := by
    simp [ctoks]
  rw [e]
  simp only [pBet, pOp_atom hx f _ (rfl : noTilde (.kw .between :: (ctoks lo ++ (.kw .and :: (ctoks hi ++ rest)))) = true),
    pOp_atom hlo f _ (rfl : noTilde (.kw .and :: (ctoks hi ++ rest)) = true), pOp_atom hhi f rest hr]

theorem pOp_regex {x p : Cst} (hx : Atom x) (hp : Atom p) (f : Nat) (rest : List Sql.Tok)
    (hr : noTilde rest = true) :
    pOp (f + 3) (ctoks (.regex x p) ++ rest) = some (.regex x p, rest) := by
  have e : ctoks (.regex x p) ++ rest = ctoks x ++ (.tilde :: (ctoks p ++ rest)) := by simp [ctoks]
  rw [e]
  simp only [pOp, pPrim_atom hx, pOpLoop, pPrim_atom hp]
  exact pOpLoop_stop f _ rest (noTilde_ne hr)

theorem pBet_regex {x p : Cst} (hx : Atom x) (hp : Atom p) (f : Nat) (rest : List Sql.Tok)
    (hr : noTilde rest = true) (h2 : betStop rest = true) :
    pBet (f + 4) (ctoks (.regex x p) ++ rest) = some (.regex x p, rest) :=
  pBet_other _ _ _ _ (pOp_regex hx hp f rest hr) h2

theorem pCmp_cmp (op : CmpOp) {l r : Cst} (hl : Atom l) (hr : Atom r) (f : Nat) (rest : List Sql.Tok)
    (hs : stopTok rest = true) :
    pCmp (f + 4) (ctoks (.cmp op l r) ++ rest) = some (.cmp op l r, rest) := by
  have e : ctoks (.cmp op l r) ++ rest = ctoks l ++ (.cmp op :: (ctoks r ++ rest)) := by simp [ctoks]
  rw [e]
  simp only [pCmp, pBet_atom hl f _ (rfl : noTilde (.cmp op :: (ctoks r ++ rest)) = true) rfl,
    pBet_atom hr f rest (stop_noTilde hs) (stop_betStop hs), stop_notCmp hs]
  rfl


/-! ## value lists -/

def endTok : List Sql.Tok → Bool
  | [] => true
  | .rparen :: _ => true
  | .comma :: _ => true
  | _ => false

theorem end_stop {ts : List Sql.Tok} (h : endTok ts = true) : stopTok ts = true := by
  unfold endTok at h; split at h <;> first | rfl | cases h
theorem end_notAnd {ts : List Sql.Tok} (h : endTok ts = true) : ∀ r, ts ≠ .kw .and :: r := by
  intro r e; subst e; simp [endTok] at h
theorem end_notOr {ts : List Sql.Tok} (h : endTok ts = true) : ∀ r, ts ≠ .kw .or :: r := by
  intro r e; subst e; simp [endTok] at h

theorem pOr_atom {a : Cst} (h : Atom a) (f : Nat) (rest : List Sql.Tok) (hr : endTok rest = true) :
    pOr (f + 7) (ctoks a ++ rest) = some (a, rest) := by
  have hs := end_stop hr
  have h1 : pCmp (f + 4) (ctoks a ++ rest) = some (a, rest) :=
    pCmp_other _ _ _ _ (pBet_atom h f rest (stop_noTilde hs) (stop_betStop hs)) (stop_notCmp hs)
  have h2 : pNot (f + 5) (ctoks a ++ rest) = some (a, rest) := by
    rw [pNot_other _ _ (atom_headNot h rest)]; exact h1
  simp only [pOr, pAnd, h2, pAndLoop_stop _ _ _ (end_notAnd hr), pOrLoop_stop _ _ _ (end_notOr hr)]

theorem pList_atoms {items : CstList} (h : Atoms items) : ∀ (f : Nat) (rest : List Sql.Tok),
    pList (f + llen items + 7) (ltoks items ++ .rparen :: rest) = some (items, .rparen :: rest) := by
  induction h with
  | one ha =>
    intro f rest
    rename_i a
    show pList ((f + 7) + 1) (ctoks a ++ .rparen :: rest) = _
    rw [pList, pOr_atom ha f (.rparen :: rest) rfl]
  | cons ha ht ih =>
    intro f rest
    rename_i a c t
    have e : ltoks (.cons a (.cons c t)) ++ .rparen :: rest =
        ctoks a ++ (.comma :: (ltoks (.cons c t) ++ .rparen :: rest)) := by simp [ltoks]
    have e2 : f + llen (.cons a (.cons c t)) + 7 = (f + llen (.cons c t) + 7) + 1 := by simp [llen]; omega
    rw [e, e2, pList]
    have e3 : f + llen (.cons c t) + 7 = (f + llen (.cons c t)) + 7 := rfl
    rw [e3, pOr_atom ha _ _ rfl]
    simp only []
    rw [← e3, ih f rest]

theorem pBet_inList {x : Cst} {items : CstList} (hx : Atom x) (hi : Atoms items) (f : Nat) (rest : List Sql.Tok) :
    pBet (f + llen items + 8) (ctoks (.inList x items) ++ rest) = some (.inList x items, rest) := by
  have e : ctoks (.inList x items) ++ rest =
      ctoks x ++ (.kw .in_ :: .lparen :: (ltoks items ++ .rparen :: rest)) := by simp [ctoks]
  have e2 : f + llen items + 8 = (f + llen items + 5) + 3 := by omega
  rw [e]
  show pBet (f + llen items + 7 + 1) _ = _
  simp only [pBet]
  have e3 : f + llen items + 7 = (f + llen items + 5) + 2 := by omega
  rw [e3, pOp_atom hx _ _ (rfl : noTilde (.kw .in_ :: .lparen :: (ltoks items ++ .rparen :: rest)) = true)]
  simp only []
  rw [← e3, pList_atoms hi f rest]


/-! ## a predicate at the level of `pNot` -/

theorem leaf_headNot {L : Cst} (h : Leaf L) (rest : List Sql.Tok) : headNot (ctoks L ++ rest) = false := by
  cases h with
  | cmp op hl hr => simp only [ctoks, List.append_assoc]; exact atom_headNot hl _
  | similar hx hp => simp only [ctoks, List.append_assoc]; exact atom_headNot hx _
  | regex hx hp => simp only [ctoks, List.append_assoc]; exact atom_headNot hx _
  | between hx _ _ => simp only [ctoks, List.append_assoc]; exact atom_headNot hx _
  | inList hx _ => simp only [ctoks, List.append_assoc]; exact atom_headNot hx _

theorem pNot_leaf {L : Cst} (h : Leaf L) (F : Nat) (rest : List Sql.Tok) (hF : need L ≤ F + 3)
    (hs : stopTok rest = true) : pNot F (ctoks L ++ rest) = some (L, rest) := by
  have hn := leaf_headNot h rest
  cases h with
  | cmp op hl hr =>
    obtain ⟨f, rfl⟩ : ∃ f, F = f + 5 := ⟨F - 5, by simp only [need] at hF; omega⟩
    rw [pNot_other _ _ hn]; exact pCmp_cmp op hl hr f rest hs
  | similar hx hp =>
    obtain ⟨f, rfl⟩ : ∃ f, F = f + 5 := ⟨F - 5, by simp only [need] at hF; omega⟩
    rw [pNot_other _ _ hn]
    exact pCmp_other _ _ _ _ (pBet_similar hx hp f rest (stop_noTilde hs)) (stop_notCmp hs)
  | regex hx hp =>
    obtain ⟨f, rfl⟩ : ∃ f, F = f + 6 := ⟨F - 6, by simp only [need] at hF; omega⟩
    rw [pNot_other _ _ hn]
    exact pCmp_other _ _ _ _ (pBet_regex hx hp f rest (stop_noTilde hs) (stop_betStop hs)) (stop_notCmp hs)
  | between hx hlo hhi =>
    obtain ⟨f, rfl⟩ : ∃ f, F = f + 5 := ⟨F - 5, by simp only [need] at hF; omega⟩
    rw [pNot_other _ _ hn]
    exact pCmp_other _ _ _ _ (pBet_between hx hlo hhi f rest (stop_noTilde hs)) (stop_notCmp hs)
  | inList hx hi =>
    rename_i x items
    obtain ⟨f, rfl⟩ : ∃ f, F = f + llen items + 8 + 1 + 1 :=
      ⟨F - (llen items + 10), by simp only [need] at hF; omega⟩
    rw [pNot_other _ _ hn]
    exact pCmp_other _ _ _ _ (pBet_inList hx hi f rest) (stop_notCmp hs)

/-! ## a parenthesised expression -/

theorem pNot_paren {x : Cst}
    (ih : ∀ (F : Nat) (rest : List Sql.Tok), need x ≤ F → closeTok rest = true → pOr F (ctoks x ++ rest) = some (x, rest))
    (f : Nat) (rest : List Sql.Tok) (hf : need x ≤ f) (hs : stopTok rest = true) :
    pNot (f + 6) (.lparen :: (ctoks x ++ .rparen :: rest)) = some (.paren x, rest) := by
  have h1 : pPrim (f + 2) (.lparen :: (ctoks x ++ .rparen :: rest)) = some (.paren x, rest) := by
    rw [pPrim, ih (f + 1) (.rparen :: rest) (by omega) rfl]
  have h2 : pOp (f + 3) (.lparen :: (ctoks x ++ .rparen :: rest)) = some (.paren x, rest) := by
    rw [pOp, h1]; exact pOpLoop_stop _ _ _ (noTilde_ne (stop_noTilde hs))
  rw [pNot_other _ _ rfl]
  exact pCmp_other _ _ _ _ (pBet_other _ _ _ _ h2 (stop_betStop hs)) (stop_notCmp hs)

theorem close_notAnd {ts : List Sql.Tok} (h : closeTok ts = true) : ∀ r, ts ≠ .kw .and :: r := by
  intro r e; subst e; simp [closeTok] at h
theorem close_notOr {ts : List Sql.Tok} (h : closeTok ts = true) : ∀ r, ts ≠ .kw .or :: r := by
  intro r e; subst e; simp [closeTok] at h

/-! ## the grammar reads a rendered expression back -/

theorem pOr_RE {c : Cst} (h : RE c) : ∀ (F : Nat) (rest : List Sql.Tok), need c ≤ F → closeTok rest = true →
    pOr F (ctoks c ++ rest) = some (c, rest) := by
  induction h with
  | leaf hL =>
    intro F rest hF hc
    rename_i L
    have hge : 10 ≤ need L := by cases hL <;> simp [need]
    obtain ⟨f, rfl⟩ : ∃ f, F = f + 3 := ⟨F - 3, by omega⟩
    rw [pOr, pAnd, pNot_leaf hL (f + 1) rest (by omega) (stop_of_close hc)]
    simp only []
    rw [pAndLoop_stop _ _ _ (close_notAnd hc)]
    simp only []
    rw [pOrLoop_stop _ _ _ (close_notOr hc)]
  | rng hA hC =>
    intro F rest hF hc
    rename_i a c
    have hga : 10 ≤ need a := by cases hA <;> simp [need]
    simp only [need] at hF
    obtain ⟨f, rfl⟩ : ∃ f, F = f + 4 := ⟨F - 4, by omega⟩
    have e : ctoks (.and a c) ++ rest = ctoks a ++ (.kw .and :: (ctoks c ++ rest)) := by simp [ctoks]
    rw [e, pOr, pAnd, pNot_leaf hA (f + 2) _ (by omega) rfl]
    simp only []
    rw [pAndLoop, pNot_leaf hC (f + 1) rest (by omega) (stop_of_close hc)]
    simp only []
    rw [pAndLoop_stop _ _ _ (close_notAnd hc)]
    simp only []
    rw [pOrLoop_stop _ _ _ (close_notOr hc)]
  | and hl hr ihl ihr =>
    intro F rest hF hc
    rename_i l r
    simp only [need] at hF
    obtain ⟨f, rfl⟩ : ∃ f, F = f + 10 := ⟨F - 10, by omega⟩
    have e : ctoks (.and (.paren l) (.paren r)) ++ rest =
        .lparen :: (ctoks l ++ .rparen :: (.kw .and :: .lparen :: (ctoks r ++ .rparen :: rest))) := by simp [ctoks]
    rw [e, pOr, pAnd, pNot_paren ihl (f + 2) _ (by omega) rfl]
    simp only []
    rw [pAndLoop, pNot_paren ihr (f + 1) rest (by omega) (stop_of_close hc)]
    simp only []
    rw [pAndLoop_stop _ _ _ (close_notAnd hc)]
    simp only []
    rw [pOrLoop_stop _ _ _ (close_notOr hc)]
  | or hl hr ihl ihr =>
    intro F rest hF hc
    rename_i l r
    simp only [need] at hF
    obtain ⟨f, rfl⟩ : ∃ f, F = f + 10 := ⟨F - 10, by omega⟩
    have e : ctoks (.or (.paren l) (.paren r)) ++ rest =
        .lparen :: (ctoks l ++ .rparen :: (.kw .or :: .lparen :: (ctoks r ++ .rparen :: rest))) := by simp [ctoks]
    rw [e, pOr, pAnd, pNot_paren ihl (f + 2) _ (by omega) rfl]
    simp only []
    rw [pAndLoop_stop _ _ _ (by intro r' e'; cases e')]
    simp only []
    rw [pOrLoop, pAnd, pNot_paren ihr (f + 1) rest (by omega) (stop_of_close hc)]
    simp only []
    rw [pAndLoop_stop _ _ _ (close_notAnd hc)]
    simp only []
    rw [pOrLoop_stop _ _ _ (close_notOr hc)]
  | not hx ih =>
    intro F rest hF hc
    rename_i x
    simp only [need] at hF
    obtain ⟨f, rfl⟩ : ∃ f, F = f + 9 := ⟨F - 9, by omega⟩
    have e : ctoks (.not (.paren x)) ++ rest = .kw .not :: .lparen :: (ctoks x ++ .rparen :: rest) := by
      simp [ctoks]
    rw [e, pOr, pAnd, pNot]
    simp only [startsNotLa, Bool.false_eq_true, ↓reduceIte]
    rw [pNot_paren ih f rest (by omega) (stop_of_close hc)]
    simp only []
    rw [pAndLoop_stop _ _ _ (close_notAnd hc)]
    simp only []
    rw [pOrLoop_stop _ _ _ (close_notOr hc)]


/-! ## no placeholders, enough fuel -/

def plainTok (t : Sql.Tok) : Bool := !isQmark t && !isParam t

def AllPlain (ts : List Sql.Tok) : Prop := ∀ t ∈ ts, plainTok t = true

theorem AllPlain.append {a c : List Sql.Tok} (ha : AllPlain a) (hc : AllPlain c) : AllPlain (a ++ c) := by
  intro t ht; rcases List.mem_append.mp ht with h | h; exact ha t h; exact hc t h
theorem AllPlain.cons {t : Sql.Tok} {c : List Sql.Tok} (ht : plainTok t = true) (hc : AllPlain c) :
    AllPlain (t :: c) := by
  intro u hu; rcases List.mem_cons.mp hu with h | h; subst h; exact ht; exact hc u h
theorem AllPlain.nil : AllPlain [] := by intro t ht; cases ht

theorem atom_plain {a : Cst} (h : Atom a) : AllPlain (ctoks a) ∧ 1 ≤ (ctoks a).length := by
  cases h with
  | col f' _ _ _ => exact ⟨AllPlain.cons rfl AllPlain.nil, by simp [ctoks]⟩
  | str s _ => exact ⟨AllPlain.cons rfl AllPlain.nil, by simp [ctoks]⟩
  | num neg raw _ =>
    cases neg
    · exact ⟨AllPlain.cons rfl AllPlain.nil, by simp [ctoks]⟩
    · exact ⟨AllPlain.cons rfl (AllPlain.cons rfl AllPlain.nil), by simp [ctoks]⟩

theorem atoms_plain {items : CstList} (h : Atoms items) : AllPlain (ltoks items) ∧ llen items ≤ (ltoks items).length := by
  induction h with
  | one ha => exact ⟨by simpa [ltoks] using (atom_plain ha).1, by simpa [ltoks, llen] using (atom_plain ha).2⟩
  | cons ha ht ih =>
    constructor
    · simp only [ltoks]; exact AllPlain.append (atom_plain ha).1 (AllPlain.cons rfl ih.1)
    · have := (atom_plain ha).2
      simp only [ltoks, llen, List.length_append, List.length_cons] at ih ⊢; omega

theorem leaf_plain {L : Cst} (h : Leaf L) : AllPlain (ctoks L) ∧ need L ≤ 12 * (ctoks L).length := by
  cases h with
  | cmp op hl hr =>
    refine ⟨?_, ?_⟩
    · simp only [ctoks]; exact AllPlain.append (atom_plain hl).1 (AllPlain.cons rfl (atom_plain hr).1)
    · have := (atom_plain hl).2; have := (atom_plain hr).2
      simp only [ctoks, need, List.length_append, List.length_cons]; omega
  | similar hx hp =>
    refine ⟨?_, ?_⟩
    · simp only [ctoks]; exact AllPlain.append (atom_plain hx).1 (AllPlain.cons rfl (AllPlain.cons rfl (atom_plain hp).1))
    · have := (atom_plain hx).2; have := (atom_plain hp).2
      simp only [ctoks, need, List.length_append, List.length_cons]; omega
  | regex hx hp =>
    refine ⟨?_, ?_⟩
    · simp only [ctoks]; exact AllPlain.append (atom_plain hx).1 (AllPlain.cons rfl (atom_plain hp).1)
    · have := (atom_plain hx).2; have := (atom_plain hp).2
      simp only [ctoks, need, List.length_append, List.length_cons]; omega
  | between hx hlo hhi =>
    refine ⟨?_, ?_⟩
    · simp only [ctoks]
      exact AllPlain.append (atom_plain hx).1 (AllPlain.cons rfl
        (AllPlain.append (atom_plain hlo).1 (AllPlain.cons rfl (atom_plain hhi).1)))
    · have := (atom_plain hx).2
      simp only [ctoks, need, List.length_append, List.length_cons]; omega
  | inList hx hi =>
    refine ⟨?_, ?_⟩
    · simp only [ctoks]
      exact AllPlain.append (atom_plain hx).1 (AllPlain.cons rfl (AllPlain.cons rfl
        (AllPlain.append (atoms_plain hi).1 (AllPlain.cons rfl AllPlain.nil))))
    · have := (atom_plain hx).2; have := (atoms_plain hi).2
      simp only [ctoks, need, List.length_append, List.length_cons, List.length_nil]; omega

theorem re_plain {c : Cst} (h : RE c) : AllPlain (ctoks c) ∧ need c ≤ 12 * (ctoks c).length := by
  induction h with
  | leaf hL => exact leaf_plain hL
  | rng hA hC =>
    have ha := leaf_plain hA; have hc := leaf_plain hC
    refine ⟨?_, ?_⟩
    · simp only [ctoks]; exact AllPlain.append ha.1 (AllPlain.cons rfl hc.1)
    · simp only [ctoks, need, List.length_append, List.length_cons]; omega
  | and hl hr ihl ihr =>
    refine ⟨?_, ?_⟩
    · simp only [ctoks]
      exact AllPlain.append (AllPlain.cons rfl (AllPlain.append ihl.1 (AllPlain.cons rfl AllPlain.nil)))
        (AllPlain.cons rfl (AllPlain.cons rfl (AllPlain.append ihr.1 (AllPlain.cons rfl AllPlain.nil))))
    · simp only [ctoks, need, List.length_append, List.length_cons, List.length_nil]; omega
  | or hl hr ihl ihr =>
    refine ⟨?_, ?_⟩
    · simp only [ctoks]
      exact AllPlain.append (AllPlain.cons rfl (AllPlain.append ihl.1 (AllPlain.cons rfl AllPlain.nil)))
        (AllPlain.cons rfl (AllPlain.cons rfl (AllPlain.append ihr.1 (AllPlain.cons rfl AllPlain.nil))))
    · simp only [ctoks, need, List.length_append, List.length_cons, List.length_nil]; omega
  | not hx ih =>
    refine ⟨?_, ?_⟩
    · simp only [ctoks]
      exact AllPlain.cons rfl (AllPlain.cons rfl (AllPlain.append ih.1 (AllPlain.cons rfl AllPlain.nil)))
    · simp only [ctoks, need, List.length_append, List.length_cons, List.length_nil]; omega

theorem numberParams_plain : ∀ (ts : List Sql.Tok) (k : Nat), AllPlain ts → numberParams k ts = ts
  | [], _, _ => rfl
  | t :: ts, k, h => by
    have ht : plainTok t = true := h t (by simp)
    have ih := numberParams_plain ts k (fun u hu => h u (by simp [hu]))
    cases t <;> simp_all [numberParams, plainTok, isQmark]

theorem any_plain (ts : List Sql.Tok) (h : AllPlain ts) : ts.any isQmark = false := by
  rw [List.any_eq_false]
  intro t ht
  have := h t ht
  simp only [plainTok, Bool.and_eq_true, Bool.not_eq_true'] at this
  simp [this.1]

/-- GRAMMAR: the token list of a rendered expression is read back as exactly that expression -/
theorem parseCst_RE {c : Cst} (h : RE c) : parseCst (ctoks c) = some c := by
  have hp := re_plain h
  have h1 := pOr_RE h (parseFuel (ctoks c).length) [] (by unfold parseFuel; omega) rfl
  rw [List.append_nil] at h1
  unfold parseCst
  rw [any_plain _ hp.1, numberParams_plain _ _ hp.1, h1]
  rfl

theorem parse_RE {c : Cst} (h : RE c) :
    parse (ctoks c) = if c.peak frameDepth < maxStack then some c.toAst else none := by
  unfold parse
  rw [parseCst_RE h]

end GoLucene.SqlText

#print axioms GoLucene.SqlText.parse_RE
