import GoLucene.Model.Print
import GoLucene.Proofs.SemShape
/-
  C01, printing half: for every tree with the parser shape (`semShape`), `Expression.String()` and the `%#v` form
  return normally (no panic) and the text is `clean`: no bad-verb marker, no recovered nested panic, no pointer
  address, no unmodelled value.  For both verbs and every `isPrint` table `ip`.
-/
namespace GoLucene

/-- the call returned and what it returned is clean -/
def cleanOut : Out PT → Bool
  | .ok p => p.clean
  | _ => false

@[simp] theorem PT.clean_append (x y : PT) : (x ++ y).clean = (x.clean && y.clean) := rfl
@[simp] theorem PT.clean_ok (t : Bytes) : (PT.ok t).clean = true := rfl
@[simp] theorem PT.clean_lit (s : String) : (PT.lit s).clean = true := rfl
@[simp] theorem PT.clean_bad : PT.bad.clean = false := rfl
@[simp] theorem cleanOut_ok (p : PT) : cleanOut (.ok p) = p.clean := rfl
@[simp] theorem cleanOut_err : cleanOut (.err : Out PT) = false := rfl
@[simp] theorem cleanOut_panic : cleanOut (.panic : Out PT) = false := rfl

theorem joinPT_clean (sep : Bytes) : ∀ xs : List PT, (∀ x ∈ xs, x.clean = true) → (joinPT sep xs).clean = true
  | [], _ => rfl
  | [x], h => by simpa [joinPT] using h x (by simp)
  | x :: y :: ys, h => by
    have hx := h x (by simp)
    have ht := joinPT_clean sep (y :: ys) (fun z hz => h z (by simp [hz]))
    simp only [joinPT, PT.clean_append, PT.clean_ok, hx, ht, Bool.and_self]

theorem outPT_clean (o : Out PT) (h : cleanOut o = true) : (outPT o).clean = true := by
  cases o <;> simp_all [outPT]

theorem cleanOut_elim (o : Out PT) (h : cleanOut o = true) : ∃ t, o = .ok ⟨t, true⟩ := by
  cases o with
  | ok p =>
    obtain ⟨t, c⟩ := p
    simp only [cleanOut_ok] at h
    subst h
    exact ⟨t, rfl⟩
  | err => simp at h
  | panic => simp at h

/-! ### raw values -/

/-- `%v` and `%#v` print every modelled raw value faithfully -/
theorem fmtPrim_clean_vg (ip : Nat → Bool) (verb : Verb) (p : Prim) (hv : verb ≠ .s) (hp : p ≠ .opaque) :
    (fmtPrim ip verb p).clean = true := by
  cases p <;> cases verb <;> simp_all [fmtPrim]

/-- `%s` prints strings and columns faithfully -/
theorem fmtPrim_clean_s (ip : Nat → Bool) (verb : Verb) (p : Prim)
    (hp : (match p with | .str _ => true | .col _ => true | _ => false) = true) :
    (fmtPrim ip verb p).clean = true := by
  cases p <;> cases verb <;> simp_all [fmtPrim]

/-! ### leaves -/

/-- what `semLeaf` says -/
theorem semLeaf_inv (l : Node) (o : Op) (r : Node) (p : F64) (d : Int) (h : semLeaf (.mk l o r p d) = true) :
    r = .nil ∧ o.isLeafOp = true ∧
      ((∃ s, l = .prim (.str s)) ∨ (∃ s, l = .prim (.col s)) ∨ (∃ i, l = .prim (.int i)) ∨ (∃ f, l = .prim (.flt f))) := by
  cases l with
  | prim pr =>
    cases r <;> simp [semLeaf] at h
    cases pr <;> simp_all [Op.isLeafOp]
  | _ => simp [semLeaf] at h

theorem strE_leaf_clean (ip : Nat → Bool) (e : Expr) (h : semLeaf e = true) (verbose : Bool) :
    cleanOut (strE ip verbose e) = true := by
  obtain ⟨l, o, r, p, d⟩ := e
  obtain ⟨rfl, ho, hl⟩ := semLeaf_inv l o _ p d h
  have ho' : o = .literal ∨ o = .wild ∨ o = .regexp := by
    simpa [Op.isLeafOp, or_assoc] using ho
  rcases hl with ⟨s, rfl⟩ | ⟨s, rfl⟩ | ⟨i, rfl⟩ | ⟨f, rfl⟩ <;> rcases ho' with rfl | rfl | rfl <;> cases verbose <;>
    simp [strE, fmtNode, fmtPrim] <;> split <;> simp

/-! ### the List operand of IN -/

theorem listLefts_clean (ip : Nat → Bool) (verbose : Bool) :
    ∀ es : ExprList, es.allSemLit = true → ∀ x ∈ listLefts ip verbose es, x.clean = true
  | .nil, _ => by simp [listLefts]
  | .cons e t, h => by
    simp only [ExprList.allSemLit, Bool.and_eq_true, decide_eq_true_eq] at h
    obtain ⟨⟨h1, _⟩, h3⟩ := h
    obtain ⟨l, o, r, p, d⟩ := e
    obtain ⟨_, _, hl⟩ := semLeaf_inv l o r p d h1
    intro x hx
    simp only [listLefts, List.mem_cons] at hx
    rcases hx with rfl | hx
    · rcases hl with ⟨s, rfl⟩ | ⟨s, rfl⟩ | ⟨i, rfl⟩ | ⟨f, rfl⟩ <;> cases verbose <;> simp [fmtNode, fmtPrim]
    · exact listLefts_clean ip verbose t h3 x hx

theorem strE_list_clean (ip : Nat → Bool) (es : ExprList) (p : F64) (d : Int) (r : Node) (h : es.allSemLit = true)
    (verbose : Bool) : cleanOut (strE ip verbose (.mk (.list es) .list r p d)) = true := by
  have hj := joinPT_clean (b ", ") _ (listLefts_clean ip verbose es h)
  cases verbose <;> simp_all [strE]

/-! ### the theorem -/

/-- an operand that is an expression prints clean under every verb if the expression does -/
theorem fmtNode_expr_clean (ip : Nat → Bool) (a : Expr)
    (h : ∀ verbose, cleanOut (strE ip verbose a) = true) (vb : Verb) : (fmtNode ip vb (.expr a)).clean = true := by
  rw [fmtNode]
  exact outPT_clean _ (h _)

theorem strE_cleanOut (ip : Nat → Bool) : ∀ e : Expr, semShape e = true → ∀ verbose : Bool, cleanOut (strE ip verbose e) = true
  | .mk l o r p d, hs => by
    cases o with
    | undefined => simp [semShape] at hs
    | list => simp [semShape] at hs
    | literal => exact strE_leaf_clean ip _ (by simpa [semShape] using hs)
    | wild => exact strE_leaf_clean ip _ (by simpa [semShape] using hs)
    | regexp => exact strE_leaf_clean ip _ (by simpa [semShape] using hs)
    | and =>
      simp only [semShape, Bool.and_eq_true] at hs
      cases l <;> simp [semNode] at hs
      cases r <;> simp [semNode] at hs
      rename_i a c
      have ha := fmtNode_expr_clean ip a (strE_cleanOut ip a hs.1)
      have hc := fmtNode_expr_clean ip c (strE_cleanOut ip c hs.2)
      intro verbose
      cases verbose <;> simp [strE, ha, hc]
    | or =>
      simp only [semShape, Bool.and_eq_true] at hs
      cases l <;> simp [semNode] at hs
      cases r <;> simp [semNode] at hs
      rename_i a c
      have ha := fmtNode_expr_clean ip a (strE_cleanOut ip a hs.1)
      have hc := fmtNode_expr_clean ip c (strE_cleanOut ip c hs.2)
      intro verbose
      cases verbose <;> simp [strE, ha, hc]
    | equals =>
      simp only [semShape, Bool.and_eq_true] at hs
      cases l <;> simp [semNode] at hs
      cases r <;> simp [semNode] at hs
      rename_i a c
      have ha := fmtNode_expr_clean ip a (strE_cleanOut ip a hs.1)
      have hc := fmtNode_expr_clean ip c (strE_cleanOut ip c hs.2)
      intro verbose
      cases verbose <;> simp [strE, ha, hc]
    | greater =>
      simp only [semShape, Bool.and_eq_true] at hs
      cases l <;> simp [semNode] at hs
      cases r <;> simp [semNode] at hs
      rename_i a c
      have ha := fmtNode_expr_clean ip a (strE_cleanOut ip a hs.1)
      have hc := fmtNode_expr_clean ip c (strE_cleanOut ip c hs.2)
      intro verbose
      cases verbose <;> simp [strE, ha, hc]
    | less =>
      simp only [semShape, Bool.and_eq_true] at hs
      cases l <;> simp [semNode] at hs
      cases r <;> simp [semNode] at hs
      rename_i a c
      have ha := fmtNode_expr_clean ip a (strE_cleanOut ip a hs.1)
      have hc := fmtNode_expr_clean ip c (strE_cleanOut ip c hs.2)
      intro verbose
      cases verbose <;> simp [strE, ha, hc]
    | greaterEq =>
      simp only [semShape, Bool.and_eq_true] at hs
      cases l <;> simp [semNode] at hs
      cases r <;> simp [semNode] at hs
      rename_i a c
      have ha := fmtNode_expr_clean ip a (strE_cleanOut ip a hs.1)
      have hc := fmtNode_expr_clean ip c (strE_cleanOut ip c hs.2)
      intro verbose
      cases verbose <;> simp [strE, ha, hc]
    | lessEq =>
      simp only [semShape, Bool.and_eq_true] at hs
      cases l <;> simp [semNode] at hs
      cases r <;> simp [semNode] at hs
      rename_i a c
      have ha := fmtNode_expr_clean ip a (strE_cleanOut ip a hs.1)
      have hc := fmtNode_expr_clean ip c (strE_cleanOut ip c hs.2)
      intro verbose
      cases verbose <;> simp [strE, ha, hc]
    | not =>
      simp only [semShape, Bool.and_eq_true] at hs
      cases l <;> simp [semNode] at hs
      rename_i a
      have ha := fmtNode_expr_clean ip a (strE_cleanOut ip a hs.1)
      intro verbose
      cases verbose <;> simp [strE, ha]
    | must =>
      simp only [semShape, Bool.and_eq_true] at hs
      cases l <;> simp [semNode] at hs
      rename_i a
      have ha := fmtNode_expr_clean ip a (strE_cleanOut ip a hs.1)
      intro verbose
      cases verbose <;> simp [strE, ha]
    | mustNot =>
      simp only [semShape, Bool.and_eq_true] at hs
      cases l <;> simp [semNode] at hs
      rename_i a
      have ha := fmtNode_expr_clean ip a (strE_cleanOut ip a hs.1)
      intro verbose
      cases verbose <;> simp [strE, ha]
    | boost =>
      simp only [semShape, Bool.and_eq_true] at hs
      cases l <;> simp [semNode] at hs
      rename_i a
      have ha := fmtNode_expr_clean ip a (strE_cleanOut ip a hs.1)
      intro verbose
      cases verbose <;> simp [strE, ha] <;> split <;> simp
    | fuzzy =>
      simp only [semShape, Bool.and_eq_true] at hs
      cases l <;> simp [semNode] at hs
      rename_i a
      have ha := fmtNode_expr_clean ip a (strE_cleanOut ip a hs.1)
      intro verbose
      cases verbose <;> simp [strE, ha] <;> split <;> simp
    | like =>
      simp only [semShape, Bool.and_eq_true] at hs
      cases l <;> simp [semNode] at hs
      cases r <;> simp at hs
      rename_i a re
      have ha := fmtNode_expr_clean ip a (strE_cleanOut ip a hs.1)
      have hc := fmtNode_expr_clean ip re (strE_leaf_clean ip re hs.2.1)
      intro verbose
      cases verbose <;> simp [strE, ha, hc]
    | in_ =>
      simp only [semShape, Bool.and_eq_true] at hs
      cases l <;> simp [semNode] at hs
      rename_i a
      have ha := fmtNode_expr_clean ip a (strE_cleanOut ip a hs.1)
      obtain ⟨_, hs2⟩ := hs
      split at hs2
      · rename_i es p' d'
        simp only [Bool.and_eq_true] at hs2
        have hc := fmtNode_expr_clean ip _ (strE_list_clean ip es p' d' .nil hs2.1)
        intro verbose
        cases verbose <;> simp [strE, ha, hc]
      · exact absurd hs2 Bool.false_ne_true
    | range =>
      cases r with
      | bound mn mx incl =>
        unfold semShape at hs
        simp only [Bool.and_eq_true] at hs
        cases l <;> simp [semNode] at hs
        rename_i a
        have ha := fmtNode_expr_clean ip a (strE_cleanOut ip a hs.1)
        cases mn with
        | expr lo =>
          cases mx with
          | expr hi =>
            simp only [Bool.and_eq_true] at hs
            have hlo := fmtNode_expr_clean ip lo (strE_cleanOut ip lo hs.2.1)
            have hhi := fmtNode_expr_clean ip hi (strE_cleanOut ip hi hs.2.2)
            intro verbose
            cases verbose <;> cases incl <;> simp [strE, ha, hlo, hhi]
          | _ => simp at hs
        | _ => simp at hs
      | _ => unfold semShape at hs; simp at hs

/-- C01 (printing): on every tree of the parser shape, `String()` (`verbose = false`) and `%#v` (`verbose = true`)
    return normally and the output contains no formatting-error marker / recovered panic / address -/
theorem strE_clean (ip : Nat → Bool) (verbose : Bool) : ∀ e : Expr, semShape e = true → ∃ t, strE ip verbose e = .ok ⟨t, true⟩ :=
  fun e hs => cleanOut_elim _ (strE_cleanOut ip e hs verbose)

/-- non-vacuity: the tree of `NOT a:b` has the shape -/
example : semShape (.mk (.expr (.mk (.expr (lit (.prim (.col [97])))) .equals (.expr (lit (.prim (.str [98])))) F64.one 1)) .not .nil
    F64.one 1) = true := by
  simp [semShape, semNode, semLeaf, lit, mkLeaf, Node.isNil, Op.isLeafOp]

/-- the shape hypothesis matters: an integer directly under `Equals` (reachable through the public constructor API, not
    through Parse) prints with a bad-verb marker -/
example (ip : Nat → Bool) :
    cleanOut (strE ip false (.mk (.prim (.int 1)) .equals (.prim (.int 1)) F64.one 1)) = false := by
  simp [strE, fmtNode, fmtPrim]

end GoLucene
