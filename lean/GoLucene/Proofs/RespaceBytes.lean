import GoLucene.Proofs.Respace
import GoLucene.Model.Utf8
/-
  C09, whitespace part, at byte level (corollary of Proofs/Respace.lean).

  `respace_bytes`: take any Go string `bs` (arbitrary bytes), decode and lex it, and re-fill the gaps between
  the tokens with ASCII whitespace as in `lexCells_respace`.  The bytes of the new layout decode to exactly the
  new layout, so lexing the new *string* gives the same tokens / end kind / unread rest.

  What has to be shown beyond the cell-level theorem is that moving whitespace never changes how the bytes next to
  it are decoded — also for invalid UTF-8, where a truncated sequence decodes to U+FFFD cells:
    * `decode_append_ascii`: an ASCII byte ends any pending sequence, decoding splits in front of it;
    * `decode_prefix` / `decode_suffix`: a decoded cell list can be cut at any cell boundary and both parts still
      decode to themselves (for the prefix: cutting off the continuation cannot make an invalid sequence valid).
-/
namespace GoLucene

def asciiCell (s : UInt8) : Cell := ⟨s.toNat, [s]⟩

theorem decode_cons (b0 : UInt8) (B : Bytes) :
    decode (b0 :: B) = ⟨(decode1 b0 B).1, b0 :: B.take ((decode1 b0 B).2 - 1)⟩ :: decode (B.drop ((decode1 b0 B).2 - 1)) := by
  rw [decode]

theorem decode_build (b0 : UInt8) (cr R : Bytes) (rr : Nat) (h : decode1 b0 (cr ++ R) = (rr, cr.length + 1)) :
    decode (b0 :: (cr ++ R)) = ⟨rr, b0 :: cr⟩ :: decode R := by
  rw [decode_cons, h]
  simp

theorem decode_step (bs : Bytes) (c : Cell) (cs : List Cell) (h : decode bs = c :: cs) :
    ∃ b0 cr R, c.raw = b0 :: cr ∧ bs = b0 :: (cr ++ R) ∧ decode1 b0 (cr ++ R) = (c.r, cr.length + 1) ∧ decode R = cs := by
  cases bs with
  | nil => simp [decode] at h
  | cons b0 B =>
    rw [decode_cons] at h
    simp only [List.cons.injEq] at h
    obtain ⟨hc, hcs⟩ := h
    have hw := decode1_width b0 B
    refine ⟨b0, B.take ((decode1 b0 B).2 - 1), B.drop ((decode1 b0 B).2 - 1), ?_, ?_, ?_, hcs⟩
    · rw [← hc]
    · rw [List.take_append_drop]
    · rw [List.take_append_drop, ← hc]
      simp only [List.length_take]
      have : min ((decode1 b0 B).2 - 1) B.length + 1 = (decode1 b0 B).2 := by omega
      rw [this]

theorem ascii_not_cont (s : UInt8) (hs : s < 0x80) : cont s = false := by
  simp only [cont, Bool.and_eq_false_iff, decide_eq_false_iff_not]
  left
  exact UInt8.not_le.mpr hs

theorem ascii_not_ge (s lo : UInt8) (hs : s < 0x80) (hlo : 0x80 ≤ lo) : ¬ lo ≤ s := by
  intro h
  have := UInt8.le_trans hlo h
  exact absurd hs (UInt8.not_lt.mpr this)

theorem decode_ascii (s : UInt8) (hs : s < 0x80) (t : Bytes) : decode (s :: t) = asciiCell s :: decode t := by
  have : decode1 s t = (s.toNat, 1) := by simp [decode1, hs]
  rw [decode_cons, this]
  simp [asciiCell]


theorem decode1_append_ascii (b0 s : UInt8) (hs : s < 0x80) (r t : Bytes) :
    decode1 b0 (r ++ s :: t) = decode1 b0 r := by
  have hc := ascii_not_cont s hs
  have h1 : ¬ (0xA0 : UInt8) ≤ s := ascii_not_ge s _ hs (by decide)
  have h2 : ¬ (0x80 : UInt8) ≤ s := ascii_not_ge s _ hs (by decide)
  have h3 : ¬ (0x90 : UInt8) ≤ s := ascii_not_ge s _ hs (by decide)
  unfold decode1
  by_cases c1 : b0 < 0x80
  · simp only [c1, if_true]
  · simp only [c1, if_false]
    by_cases c2 : (0xC2 ≤ b0 && b0 ≤ 0xDF) = true
    · simp only [c2, if_true]
      rcases r with _ | ⟨b1, r⟩
      · simp [hc]
      · rfl
    · simp only [c2]
      by_cases c3 : (0xE0 ≤ b0 && b0 ≤ 0xEF) = true
      · simp only [c3, if_true]
        rcases r with _ | ⟨b1, _ | ⟨b2, r⟩⟩
        · cases t <;> simp <;> split <;> simp [h1, h2]
        · simp [hc]
        · rfl
      · simp only [c3]
        by_cases c4 : (0xF0 ≤ b0 && b0 ≤ 0xF4) = true
        · simp only [c4, if_true]
          rcases r with _ | ⟨b1, _ | ⟨b2, _ | ⟨b3, r⟩⟩⟩
          · rcases t with _ | ⟨t1, _ | ⟨t2, t⟩⟩ <;> simp <;> split <;> simp [h2, h3]
          · rcases t with _ | ⟨t1, t⟩ <;> simp [hc]
          · simp [hc]
          · rfl
        · simp only [c4]
          rfl


theorem ite_snd_small {C : Prop} [Decidable C] (x w n : Nat) (hw : n < w)
    (h : (if C then (x, w) else (65533, 1)).2 ≤ n) : (65533, 1) = if C then (x, w) else (65533, 1) := by
  by_cases hC : C
  · simp only [hC, if_true] at h; omega
  · simp only [hC, if_false]

theorem decode1_truncate (b0 : UInt8) (r t : Bytes) (h : (decode1 b0 (r ++ t)).2 ≤ r.length + 1) :
    decode1 b0 r = decode1 b0 (r ++ t) := by
  unfold decode1 at h ⊢
  by_cases c1 : b0 < 0x80
  · simp only [c1, if_true]
  · simp only [c1, if_false] at h ⊢
    by_cases c2 : (0xC2 ≤ b0 && b0 ≤ 0xDF) = true
    · simp only [c2, if_true] at h ⊢
      rcases r with _ | ⟨b1, r⟩
      · rcases t with _ | ⟨t1, t⟩
        · rfl
        · simp only [List.nil_append, List.length_nil] at h ⊢
          exact ite_snd_small _ _ _ (by omega) h
      · rfl
    · simp only [c2, Bool.false_eq_true, if_false] at h ⊢
      by_cases c3 : (0xE0 ≤ b0 && b0 ≤ 0xEF) = true
      · simp only [c3, if_true] at h ⊢
        rcases r with _ | ⟨b1, _ | ⟨b2, r⟩⟩
        · rcases t with _ | ⟨t1, _ | ⟨t2, t⟩⟩
          · rfl
          · rfl
          · simp only [List.nil_append, List.length_nil] at h ⊢
            exact ite_snd_small _ _ _ (by omega) h
        · rcases t with _ | ⟨t1, t⟩
          · rfl
          · simp only [List.cons_append, List.nil_append, List.length_cons, List.length_nil] at h ⊢
            exact ite_snd_small _ _ _ (by omega) h
        · rfl
      · simp only [c3, Bool.false_eq_true, if_false] at h ⊢
        by_cases c4 : (0xF0 ≤ b0 && b0 ≤ 0xF4) = true
        · simp only [c4, if_true] at h ⊢
          rcases r with _ | ⟨b1, _ | ⟨b2, _ | ⟨b3, r⟩⟩⟩
          · rcases t with _ | ⟨t1, _ | ⟨t2, _ | ⟨t3, t⟩⟩⟩
            · rfl
            · rfl
            · rfl
            · simp only [List.nil_append, List.length_nil] at h ⊢
              exact ite_snd_small _ _ _ (by omega) h
          · rcases t with _ | ⟨t1, _ | ⟨t2, t⟩⟩
            · rfl
            · rfl
            · simp only [List.cons_append, List.nil_append, List.length_cons, List.length_nil] at h ⊢
              exact ite_snd_small _ _ _ (by omega) h
          · rcases t with _ | ⟨t1, t⟩
            · rfl
            · simp only [List.cons_append, List.nil_append, List.length_cons, List.length_nil] at h ⊢
              exact ite_snd_small _ _ _ (by omega) h
          · rfl
        · simp only [c4, Bool.false_eq_true, if_false]


theorem cellsBytes_append (x y : List Cell) : cellsBytes (x ++ y) = cellsBytes x ++ cellsBytes y := by
  simp [cellsBytes]

theorem cellsBytes_cons (c : Cell) (x : List Cell) : cellsBytes (c :: x) = c.raw ++ cellsBytes x := by
  simp [cellsBytes]

/-- decoding is compositional at a cell boundary: what follows the first cells decodes to the following cells -/
theorem decode_suffix : ∀ (x : List Cell) (t : Bytes) (y : List Cell),
    decode (cellsBytes x ++ t) = x ++ y → decode t = y
  | [], t, y, h => by simpa [cellsBytes] using h
  | c :: x, t, y, h => by
    rw [cellsBytes_cons, List.append_assoc, List.cons_append] at h
    obtain ⟨b0, cr, R, hraw, hbs, _, hR⟩ := decode_step _ _ _ h
    rw [hraw] at hbs
    simp only [List.cons_append, List.cons.injEq, true_and, List.append_cancel_left_eq] at hbs
    subst hbs
    exact decode_suffix x t y hR

/-- … and the first cells decode to themselves when what follows is cut off -/
theorem decode_prefix : ∀ (x : List Cell) (t : Bytes) (y : List Cell),
    decode (cellsBytes x ++ t) = x ++ y → decode (cellsBytes x) = x
  | [], _, _, _ => by simp [cellsBytes, decode]
  | c :: x, t, y, h => by
    rw [cellsBytes_cons, List.append_assoc, List.cons_append] at h
    obtain ⟨b0, cr, R, hraw, hbs, hd1, hR⟩ := decode_step _ _ _ h
    rw [hraw] at hbs
    simp only [List.cons_append, List.cons.injEq, true_and, List.append_cancel_left_eq] at hbs
    subst hbs
    have ih := decode_prefix x t y hR
    have h1 : decode1 b0 (cr ++ cellsBytes x) = (c.r, cr.length + 1) := by
      rw [← hd1, ← List.append_assoc]
      apply decode1_truncate
      rw [List.append_assoc, hd1]
      simp
    rw [cellsBytes_cons, hraw, List.cons_append, decode_build b0 cr _ c.r h1, ih]
    cases c
    simp only at hraw
    rw [hraw]

/-- an ASCII byte always ends whatever was pending: decoding splits in front of it -/
theorem decode_append_ascii (s : UInt8) (hs : s < 0x80) : ∀ (n : Nat) (a t : Bytes), a.length < n →
    decode (a ++ s :: t) = decode a ++ asciiCell s :: decode t := by
  intro n
  induction n with
  | zero => intro a t h; omega
  | succ n ih =>
    intro a t hl
    cases a with
    | nil => simp [decode, decode_ascii s hs]
    | cons b0 r =>
      have hw := decode1_width b0 r
      rw [List.cons_append, decode_cons, decode_cons, decode1_append_ascii b0 s hs r t,
        List.take_append_of_le_length (by omega), List.drop_append_of_le_length (by omega),
        ih _ t (by simp at hl ⊢; omega)]
      simp


/-- a list of cells is what the decoder produces from its own bytes -/
def Dec (cs : List Cell) : Prop := decode (cellsBytes cs) = cs

theorem Dec_nil : Dec [] := by simp [Dec, cellsBytes, decode]

theorem Dec_decode (bs : Bytes) : Dec (decode bs) := by
  unfold Dec; rw [decode_lossless _ bs (Nat.le_refl _)]

theorem Dec_suffix (x y : List Cell) (h : Dec (x ++ y)) : Dec y :=
  decode_suffix x (cellsBytes y) y (by rw [← cellsBytes_append]; exact h)

theorem Dec_prefix (x y : List Cell) (h : Dec (x ++ y)) : Dec x :=
  decode_prefix x (cellsBytes y) y (by rw [← cellsBytes_append]; exact h)

/-- a whitespace cell as the decoder produces it: the rune and its one byte -/
def wsCell (c : Cell) : Prop := isWs c.r = true ∧ c.raw = [UInt8.ofNat c.r]

theorem wsCell_ascii (c : Cell) (h : wsCell c) : ∃ s : UInt8, s < 0x80 ∧ c = asciiCell s := by
  obtain ⟨r, raw⟩ := c
  simp only [wsCell, isWs, Bool.or_eq_true, decide_eq_true_eq] at h
  obtain ⟨h1, h2⟩ := h
  rcases h1 with ((rfl | rfl) | rfl) | rfl
  · exact ⟨32, by decide, by rw [h2]; rfl⟩
  · exact ⟨9, by decide, by rw [h2]; rfl⟩
  · exact ⟨13, by decide, by rw [h2]; rfl⟩
  · exact ⟨10, by decide, by rw [h2]; rfl⟩

theorem Dec_join (x y : List Cell) (a : Cell) (ha : wsCell a) (hx : Dec x) (hy : Dec y) : Dec (x ++ a :: y) := by
  obtain ⟨s, hs, rfl⟩ := wsCell_ascii a ha
  unfold Dec at hx hy ⊢
  rw [cellsBytes_append, cellsBytes_cons]
  show decode (cellsBytes x ++ s :: cellsBytes y) = _
  rw [decode_append_ascii s hs _ _ _ (Nat.lt_succ_self _), hx, hy]

theorem Dec_ws_prefix (g y : List Cell) (hg : ∀ c ∈ g, wsCell c) (hy : Dec y) : Dec (g ++ y) := by
  induction g with
  | nil => exact hy
  | cons a g ih =>
    exact Dec_join [] (g ++ y) a (hg a (by simp)) Dec_nil (ih (fun c hc => hg c (by simp [hc])))

theorem Dec_base (x tw tw' rest : List Cell) (htw : ∀ c ∈ tw', wsCell c)
    (hc : tw' = [] → tw = [] ∨ rest = [] ∨ x = []) (h : Dec (x ++ (tw ++ rest))) : Dec (x ++ (tw' ++ rest)) := by
  cases tw' with
  | nil =>
    rcases hc rfl with rfl | rfl | rfl
    · exact h
    · simpa using Dec_prefix x _ h
    · simpa using Dec_suffix tw rest (by simpa using h)
  | cons a t =>
    rw [List.cons_append]
    exact Dec_join x _ a (htw a (by simp)) (Dec_prefix x _ h)
      (Dec_ws_prefix t rest (fun c hc => htw c (by simp [hc])) (Dec_suffix tw rest (Dec_suffix x _ h)))

theorem Dec_layout_keep : ∀ (segs : List Seg) (gs : List (List Cell)) (x tw tw' rest : List Cell),
    GapsKept segs gs → (∀ g ∈ gs, ∀ c ∈ g, wsCell c) → (∀ c ∈ tw', wsCell c) →
    (tw' = [] → tw = [] ∨ rest = []) →
    Dec (x ++ layout segs (segs.map (·.ws)) tw rest) → Dec (x ++ layout segs gs tw' rest)
  | [], [], x, tw, tw', rest, _, _, htw, hc, h => by
    simp only [layout] at h ⊢
    exact Dec_base x tw tw' rest htw (fun e => (hc e).elim Or.inl (fun r => Or.inr (Or.inl r))) h
  | [], _ :: _, _, _, _, _, hk, _, _, _, _ => by simp [GapsKept] at hk
  | _ :: _, [], _, _, _, _, hk, _, _, _, _ => by simp [GapsKept] at hk
  | s :: segs, g :: gs, x, tw, tw', rest, hk, hgs, htw, hc, h => by
    simp only [GapsKept] at hk
    simp only [layout, List.map_cons, List.append_assoc] at h ⊢
    have hgs' : ∀ g' ∈ gs, ∀ c ∈ g', wsCell c := fun g' hg' => hgs g' (by simp [hg'])
    cases g with
    | nil =>
      have : s.ws = [] := by
        cases hw : s.ws with
        | nil => rfl
        | cons a as => exact absurd rfl (hk.2.1 (by simp [hw]))
      rw [this] at h
      simp only [List.nil_append] at h ⊢
      rw [← List.append_assoc] at h ⊢
      exact Dec_layout_keep segs gs (x ++ s.cells) tw tw' rest hk.2.2 hgs' htw hc h
    | cons a g =>
      have h2 : Dec (s.cells ++ layout segs (segs.map (·.ws)) tw rest) :=
        Dec_suffix s.ws _ (Dec_suffix x _ h)
      have h3 := Dec_layout_keep segs gs s.cells tw tw' rest hk.2.2 hgs' htw hc h2
      rw [List.cons_append]
      have hag : ∀ c ∈ a :: g, wsCell c := hgs (a :: g) (by simp)
      exact Dec_join x _ a (hag a (by simp)) (Dec_prefix x _ h)
        (Dec_ws_prefix g _ (fun c hc => hag c (by simp [hc])) h3)


theorem Dec_layout (segs : List Seg) (gs : List (List Cell)) (tw tw' rest : List Cell)
    (hfill : Refill segs gs) (hgs : ∀ g ∈ gs, ∀ c ∈ g, wsCell c) (htw : ∀ c ∈ tw', wsCell c)
    (hc : tw' = [] → tw = [] ∨ rest = [] ∨ segs = [])
    (h : Dec (layout segs (segs.map (·.ws)) tw rest)) : Dec (layout segs gs tw' rest) := by
  cases segs with
  | nil =>
    cases gs with
    | cons _ _ => simp [Refill] at hfill
    | nil =>
      simp only [layout] at h ⊢
      exact Dec_base [] tw tw' rest htw (fun _ => Or.inr (Or.inr rfl)) h
  | cons s segs =>
    cases gs with
    | nil => simp [Refill] at hfill
    | cons g gs =>
      simp only [Refill] at hfill
      simp only [layout, List.map_cons, List.append_assoc] at h ⊢
      have hc' : tw' = [] → tw = [] ∨ rest = [] := by
        intro e
        rcases hc e with h1 | h1 | h1
        · exact Or.inl h1
        · exact Or.inr h1
        · simp at h1
      have h3 := Dec_layout_keep segs gs s.cells tw tw' rest hfill.2
        (fun g' hg' => hgs g' (by simp [hg'])) htw hc' (Dec_suffix s.ws _ h)
      exact Dec_ws_prefix g _ (hgs g (by simp)) h3

/-- THEOREM W at byte level.  `bs` is any Go string (any bytes, valid UTF-8 or not); it is decoded and lexed.
    The gaps are re-filled with whitespace cells as the decoder produces them (`wsCell`: one of the four
    whitespace runes with its single byte).  Then the bytes `bs'` of the re-spaced layout decode to exactly that
    layout — re-spacing never changes how the neighbouring bytes are decoded —, so the Go lexer run on the string
    `bs'` yields the same tokens, the same end kind, and the same unread rest. -/
theorem respace_bytes (k : Cls) (hk : k.wsNotAlnum) (bs : Bytes)
    (segs : List Seg) (e : End) (tw rest : List Cell) (h : lexCells k (decode bs) = (segs, e, tw, rest))
    (gs : List (List Cell)) (tw' : List Cell)
    (hlen : gs.length = segs.length)
    (hgs : ∀ g ∈ gs, ∀ c ∈ g, wsCell c)
    (hkeep : ∀ (i : Nat) (h : i < segs.length) (h' : i < gs.length), 0 < i → segs[i].ws ≠ [] → gs[i] ≠ [])
    (htw : ∀ c ∈ tw', wsCell c)
    (herr : e = .err → segs ≠ [] → tw ≠ [] → tw' ≠ [])
    (hdang : e = .eof → dangling k segs = true → tw' = []) :
    decode (cellsBytes (layout segs gs tw' rest)) = layout segs gs tw' rest ∧
    (lexAll k (decode (cellsBytes (layout segs gs tw' rest)))).1.map (·.2) = (lexAll k (decode bs)).1.map (·.2) ∧
    (lexAll k (decode (cellsBytes (layout segs gs tw' rest)))).2.1 = (lexAll k (decode bs)).2.1 ∧
    (lexAll k (decode (cellsBytes (layout segs gs tw' rest)))).2.2.2 = (lexAll k (decode bs)).2.2.2 := by
  have hgs' : ∀ g ∈ gs, ∀ c ∈ g, isWs c.r = true := fun g hg c hc => (hgs g hg c hc).1
  have htw' : ∀ c ∈ tw', isWs c.r = true := fun c hc => (htw c hc).1
  have hspec := lexCells_spec k _ (decode bs) (Nat.lt_succ_self _)
  rw [h] at hspec
  simp only at hspec
  have hdec : decode (cellsBytes (layout segs gs tw' rest)) = layout segs gs tw' rest := by
    apply Dec_layout segs gs tw tw' rest (refill_of_index segs gs hlen hgs' hkeep) hgs htw
    · intro e0
      cases e with
      | eof => exact Or.inr (Or.inl (hspec.2.2.2.1 rfl))
      | err =>
        cases segs with
        | nil => exact Or.inr (Or.inr rfl)
        | cons s segs =>
          cases tw with
          | nil => exact Or.inl rfl
          | cons a as => exact absurd e0 (herr rfl (by simp) (by simp))
    · rw [hspec.1]; exact Dec_decode bs
  rw [hdec]
  exact ⟨rfl, respace_same_tokens k hk (decode bs) segs e tw rest h gs tw' hlen hgs' hkeep htw' herr hdang⟩

end GoLucene
