import GoLucene.ModelAll
/-
  modeld — line-protocol driver of the executable model (core Lean only; compiled as a `lean_exe`).

    modeld <unicode-tables-file>

  reads one request per line on stdin (tab-separated fields, byte strings hex-encoded) and answers with one
  line on stdout.  See harness/PROTOCOL.md.
-/
open GoLucene

/-- sorted, disjoint inclusive ranges; membership by binary search -/
structure RangeTable where
  lo : Array Nat
  hi : Array Nat

def RangeTable.contains (t : RangeTable) (x : Nat) : Bool := Id.run do
  let mut l := 0
  let mut r := t.lo.size
  -- find the last range with lo ≤ x
  let mut steps := 0
  while l < r && steps < 64 do
    let m := (l + r) / 2
    if t.lo[m]! ≤ x then l := m + 1 else r := m
    steps := steps + 1
  if l == 0 then return false
  return x ≤ t.hi[l - 1]!

structure Tables where
  letter : RangeTable
  digit : RangeTable
  print : RangeTable

def loadTables (path : String) : IO Tables := do
  let txt ← IO.FS.readFile path
  let mut ll := #[]; let mut lh := #[]
  let mut dl := #[]; let mut dh := #[]
  let mut pl := #[]; let mut ph := #[]
  for line in txt.splitOn "\n" do
    match line.splitOn " " with
    | [k, a, c] =>
      let lo := a.toNat!
      let hi := c.toNat!
      if k == "letter" then ll := ll.push lo; lh := lh.push hi
      else if k == "digit" then dl := dl.push lo; dh := dh.push hi
      else if k == "print" then pl := pl.push lo; ph := ph.push hi
    | _ => pure ()
  return { letter := ⟨ll, lh⟩, digit := ⟨dl, dh⟩, print := ⟨pl, ph⟩ }

def mkEnv (t : Tables) : Env :=
  { cls := { isLetter := t.letter.contains, isDigit := t.digit.contains }, isPrint := t.print.contains }

def hexOr (s : String) : Bytes := (ofHex s).getD []

def outStr {α} (f : α → String) : Out α → String
  | .ok a => "ok:" ++ f a
  | .err => "err"
  | .panic => "panic"

def ptStr (p : PT) : String := (if p.clean then "c:" else "u:") ++ toHex p.text

def canonParams (ps : List Prim) : String := ",".intercalate (ps.map canonPrim)

/-- op `q`: everything the public API does with one query string -/
def opQuery (env : Env) (s df : Bytes) : String :=
  let p := parseQuery env s df
  let fP := outStr canonExpr p
  match p with
  | .ok e =>
    let fS := outStr ptStr (e.string env.isPrint)
    let fG := "ok:" ++ ptStr (outPT (e.goString env.isPrint))   -- `%#v` goes through fmt, which recovers a panicking GoString
    let fJ := outStr toHex (marshalExpr e)
    let fPG := outStr toHex (render pgFns e)
    let fPP := outStr (fun (x : Bytes × List Prim) => toHex x.1 ++ "|" ++ canonParams x.2) (renderParam pgFns e)
    "\t".intercalate [fP, fS, fG, fPG, fPP, fJ]
  | _ => "\t".intercalate [fP, "-", "-", (if p.isPanic then "panic" else "err"), (if p.isPanic then "panic" else "err"), "-"]

/-- op `uj`: json.Unmarshal of arbitrary bytes, then Validate and every consumer of the decoded expression -/
def opUnjson (env : Env) (data : Bytes) : String :=
  let u := unmarshalTop data
  let fU := outStr canonExpr u
  match u with
  | .ok e =>
    let fV := if validateExpr e then "1" else "0"
    let fS := outStr ptStr (e.string env.isPrint)
    let fG := "ok:" ++ ptStr (outPT (e.goString env.isPrint))   -- `%#v` goes through fmt, which recovers a panicking GoString
    let fJ := outStr toHex (marshalExpr e)
    let fR := outStr toHex (render pgFns e)
    let fRP := outStr (fun (x : Bytes × List Prim) => toHex x.1 ++ "|" ++ canonParams x.2) (renderParam pgFns e)
    "\t".intercalate [fU, fV, fS, fG, fJ, fR, fRP]
  | _ => "\t".intercalate [fU, "-", "-", "-", "-", "-", "-"]

/-- op `mk`: one call of the public constructor `expr.Expr(left, op, right...)` on arbitrary argument values, then
    Validate and every consumer of the result (same fields as `uj`) -/
def opMk (env : Env) (opn : String) (args : List String) : String :=
  match opn.toNat? >>= Op.ofNum, args.mapM parseCanonNode with
  | some o, some (left :: rights) =>
    let u := mkExpr left o rights
    let fU := outStr canonExpr u
    (match u with
     | .ok e =>
       let fV := if validateExpr e then "1" else "0"
       let fS := outStr ptStr (e.string env.isPrint)
       let fG := "ok:" ++ ptStr (outPT (e.goString env.isPrint))
       let fJ := outStr toHex (marshalExpr e)
       let fR := outStr toHex (render pgFns e)
       let fRP := outStr (fun (x : Bytes × List Prim) => toHex x.1 ++ "|" ++ canonParams x.2) (renderParam pgFns e)
       "\t".intercalate [fU, fV, fS, fG, fJ, fR, fRP]
     | _ => "\t".intercalate [fU, "-", "-", "-", "-", "-", "-"])
  | _, _ => "bad-input"

/-- the tracing render function of the `render` op: records operator and both operand texts -/
def traceFn (o : Op) : RenderFn := fun l r =>
  .ok (b "<" ++ fmtInt o.num ++ b "|" ++ l ++ b "|" ++ r ++ b ">")

/-- described function maps (the Go harness builds the same maps from the same descriptions) -/
def describedFns (desc : String) : Option Fns :=
  match desc.splitOn ":" with
  | ["pg"] => some pgFns
  | ["shared"] => some sharedFns
  | ["trace"] => some (fun o => some (traceFn o))
  | ["empty"] => some (fun _ => none)
  | ["nil"] => some (fun _ => none)
  | ["only", n] => (n.toNat? >>= Op.ofNum).map (fun x => fun o => if o = x then some (traceFn o) else none)
  | ["trace-minus", n] => (n.toNat? >>= Op.ofNum).map (fun x => fun o => if o = x then none else some (traceFn o))
  | ["override", n] => (n.toNat? >>= Op.ofNum).map (fun x => fun o => if o = x then some (traceFn o) else pgFns o)
  | ["override-inplace", n] => (n.toNat? >>= Op.ofNum).map (fun x => fun o => if o = x then some (traceFn o) else pgFns o)
  | ["delete", n] => (n.toNat? >>= Op.ofNum).map (fun x => fun o => if o = x then none else pgFns o)
  | ["instance-delete", n] => (n.toNat? >>= Op.ofNum).map (fun x => fun o => if o = x then none else pgFns o)
  | ["fail", n] => (n.toNat? >>= Op.ofNum).map (fun x => fun o => if o = x then some (fun _ _ => .err) else some (traceFn o))
  | _ => none

/-- op `render`: Base{RenderFNs: m}.Render(tree) and RenderParam(tree) for a described map -/
def opRender (desc tree : String) : String :=
  match describedFns desc, parseCanonExpr tree with
  | some fns, some e =>
    outStr toHex (render fns e) ++ "\t" ++
      outStr (fun (x : Bytes × List Prim) => toHex x.1 ++ "|" ++ canonParams x.2) (renderParam fns e)
  | _, _ => "bad-input"

/-- op `spec`: executable spec predicates judged on the IMPLEMENTATION's outputs -/
def opSpec (env : Env) (name : String) (args : List String) : String :=
  match name, args with
  | "wellformed", [tree] =>
    (match parseCanonExpr tree with
     | some e =>
       if !validateExpr e then "0:the tree does not pass the model of expr.Validate"
       else if !wellFormed e then "0:the tree fails the independent shape check (field positions / range bounds / value lists / unary operands / patterns)"
       else "1"
     | none => "0:unreadable tree")
  | "c03", [meaning, sql] =>
    (match parseCanonExpr meaning with
     | some m => specC03 m (hexOr sql)
     | none => "0:unreadable meaning tree")
  | "c02", [tree, sql, param, n] =>
    (match parseCanonExpr tree with
     | some t => specC02 t (hexOr sql) (param == "1") (n.toNat?.getD 0)
     | none => "0:unreadable tree")
  | "c04", [tree, inline, psql, params] =>
    (match parseCanonExpr tree with
     | some t =>
       let ps := if params.isEmpty then some [] else (params.splitOn ",").mapM parsePrimTok
       (match ps with
        | some l => specC04 t (hexOr inline) (hexOr psql) l
        | none => "0:unreadable parameter list")
     | none => "0:unreadable tree")
  | "c06", [q, df, tree] =>
    (match parseCanonExpr tree with
     | some t => specC06 env (hexOr q) (hexOr df) t
     | none => "0:unreadable tree")
  | "c11", [treeDF, treeNo, df] =>
    (match parseCanonExpr treeDF, parseCanonExpr treeNo with
     | some a, some c =>
       let dfb := hexOr df
       if canonExpr (eraseDf dfb a) != canonExpr c then "0:erasing the default-field scoping does not give back the tree obtained without the option"
       else if !noRescoped dfb a then "0:an explicitly fielded term was re-scoped with the default field"
       else if !noBareTerm a then "0:a bare term remains unscoped"
       else "1"
     | _, _ => "0:unreadable tree")
  | "sqlcanon", [sql] =>
    (match Sql.parseSql (hexOr sql) with
     | some a => "1:" ++ Sql.canon a
     | none => "0:not a confined expression")
  | _, _ => "bad-spec"

/-- op `lex`: the token stream -/
def opLex (env : Env) (s : Bytes) : String :=
  let r := lexAll env.cls (decode s)
  let toks := r.1.map (fun p => toString p.2.typ.num ++ ":" ++ toHex p.2.val)
  ",".intercalate toks ++ (if r.2.1 = .err then ";err" else ";eof")

def handle (env : Env) (line : String) : String :=
  match line.splitOn "\t" with
  | ["q", s, df] => opQuery env (hexOr s) (hexOr df)
  | ["lex", s] => opLex env (hexOr s)
  | ["uj", d] => opUnjson env (hexOr d)
  | ["render", desc, tree] => opRender desc tree
  | "mk" :: opn :: args => opMk env opn args
  | "spec" :: name :: args => opSpec env name args
  | ["ping"] => "pong"
  | _ => "bad-op"

partial def loop (env : Env) (hin hout : IO.FS.Stream) : IO Unit := do
  let line ← hin.getLine
  if line.isEmpty then return ()
  let l := if line.endsWith "\n" then (line.dropEnd 1).toString else line
  hout.putStrLn (handle env l)
  hout.flush
  loop env hin hout

def main (args : List String) : IO UInt32 := do
  match args with
  | [path] =>
    let t ← loadTables path
    loop (mkEnv t) (← IO.getStdin) (← IO.getStdout)
    return 0
  | _ =>
    IO.eprintln "usage: modeld <unicode-tables-file>"
    return 2
