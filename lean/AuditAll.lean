import Lean
import GoLucene
open Lean Elab Command

/-- collect the axioms of every declaration defined in a GoLucene module -/
elab "#audit_all" : command => do
  let env ← getEnv
  let mut bad : Array (Name × Array Name) := #[]
  let mut n := 0
  let allowed : List Name := [``propext, ``Classical.choice, ``Quot.sound]
  for (name, ci) in env.constants.toList do
    match env.getModuleIdxFor? name with
    | some idx =>
      let modName : Name := env.header.moduleNames[idx.toNat]!
      if Lean.Name.getRoot modName == `GoLucene then
        let isAx : Bool := match ci with | ConstantInfo.axiomInfo _ => true | _ => false
        let isDecl : Bool := match ci with | ConstantInfo.thmInfo _ => true | ConstantInfo.defnInfo _ => true | ConstantInfo.opaqueInfo _ => true | _ => false
        if isAx then bad := bad.push (name, #[name])
        else if isDecl then
          n := n + 1
          let axs ← Lean.collectAxioms name
          let extra := axs.filter (fun a => !allowed.contains a)
          if extra.size > 0 then bad := bad.push (name, extra)
    | none => pure ()
  logInfo m!"audited {n} declarations; offending: {bad.size}"
  for (nm, ax) in bad.toList.take 20 do
    logInfo m!"{nm}: {ax}"

#audit_all
