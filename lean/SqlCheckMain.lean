/-
  Line-protocol driver for GoLucene.Sql: reads lines `hex(sql)` on stdin and prints, per line,
  `ok <canon>` when `Sql.parseSql` accepts the text, `none` otherwise (also for a malformed hex line).

    cd /verif/lean && lake build GoLucene.Model.Sql && lake env lean --run SqlCheckMain.lean < texts.hex
-/
import GoLucene.Model.Sql
open GoLucene

def answer (line : String) : String :=
  match ofHex line with
  | none => "none"
  | some sql =>
    match Sql.parseSql sql with
    | some a => "ok " ++ Sql.canon a
    | none => "none"

def main : IO Unit := do
  let stdin ← IO.getStdin
  let stdout ← IO.getStdout
  repeat
    let line ← stdin.getLine
    if line.isEmpty then break
    let line := String.ofList (line.toList.filter (fun c => c != (Char.ofNat 10) && c != (Char.ofNat 13)))
    stdout.putStrLn (answer line)
  stdout.flush
