/-
  Differential-test driver for GoLucene.Model.Json.
  Reads the case lines produced by `jsoncheck gen|exhaustive` on stdin:
      op <TAB> hex(input) [<TAB> hex(arg2)] <TAB> expected
  evaluates the Lean model, prints every mismatch and a per-op summary.
  Exit code 1 if there is any mismatch or malformed line.
-/
import GoLucene.Model.Json
open GoLucene GoLucene.Json

def boolStr (v : Bool) : String := if v then "1" else "0"

def optHex : Option Bytes → String
  | none => "-"
  | some x => "=" ++ toHex x

def renderTop : Option Top → String
  | none => "none"
  | some .null => "null"
  | some (.bool true) => "true"
  | some (.bool false) => "false"
  | some (.num r) => "num:" ++ toHex r
  | some (.str s) => "str:" ++ toHex s
  | some (.arr es) => "arr:" ++ ",".intercalate (es.map toHex)
  | some (.obj ms) => "obj:" ++ ",".intercalate (ms.map fun (k, v) => toHex k ++ "=" ++ toHex v)

/-- the model's answer for one case, `none` for an unknown op / wrong arity. -/
def evalCase (op : String) (args : List Bytes) : Option String :=
  match op, args with
  | "valid", [a] => some (boolStr (valid a))
  | "trim", [a] => some (toHex (trim a))
  | "unmraw", [a] => some (if valid a then "=" ++ toHex (trim a) else "-")
  | "parse1", [a] => some (renderTop (parse1 a))
  | "dstr", [a] => some (optHex (decodeString a))
  | "estr", [a] => some (toHex (encodeString a))
  | "any", [a] => some (boolStr (anyDecodable numOkRef a))
  | "numok", [a] => some (boolStr (numOkRef a))
  | "fold", [lit, name] =>
    some (match decodeString lit with
      | some k => boolStr (foldEq k name)
      | none => "-")
  | "foldeq", [k, name] => some (boolStr (foldEq k name))
  | "strip", [a] => some (toHex (stripSpaces a))
  | "tspace", [a] => some (toHex (trimSpace a))
  | "compact", [a] => some (optHex (compact a))
  | _, _ => none

def bump (op : String) (bad : Bool) : List (String × Nat × Nat) → List (String × Nat × Nat)
  | [] => [(op, 1, if bad then 1 else 0)]
  | (o, n, m) :: rest =>
    if o == op then (o, n + 1, if bad then m + 1 else m) :: rest else (o, n, m) :: bump op bad rest

def clip (s : String) : String :=
  if s.length > 300 then String.ofList (s.toList.take 300) ++ "...(" ++ toString s.length ++ ")" else s

def chomp (s : String) : String :=
  String.ofList (s.toList.reverse.dropWhile (fun c => c == '\n' || c == '\r')).reverse

def main : IO UInt32 := do
  let stdin ← IO.getStdin
  let mut stats : List (String × Nat × Nat) := []
  let mut total := 0
  let mut bad := 0
  for _ in [0:1000000000000] do
    let line ← stdin.getLine
    if line.isEmpty then break
    let line := chomp line
    if line.isEmpty then continue
    let fields := line.splitOn "\t"
    match fields with
    | op :: rest@(_ :: _) =>
      let expected := rest.getLast!
      let argsHex := rest.dropLast
      let args := argsHex.map ofHex
      total := total + 1
      if args.any Option.isNone then
        bad := bad + 1
        stats := bump op true stats
        IO.println s!"MALFORMED {clip line}"
      else
        match evalCase op (args.filterMap id) with
        | none =>
          bad := bad + 1
          stats := bump op true stats
          IO.println s!"UNKNOWN-OP {clip line}"
        | some got =>
          if got == expected then
            stats := bump op false stats
          else
            bad := bad + 1
            stats := bump op true stats
            IO.println s!"MISMATCH {op} args={clip ("\t".intercalate argsHex)} expected={clip expected} got={clip got}"
    | _ =>
      total := total + 1
      bad := bad + 1
      IO.println s!"MALFORMED {clip line}"
  for (op, n, m) in stats do
    IO.println s!"op {op}: {n} cases, {m} mismatches"
  IO.println s!"TOTAL {total} cases, {bad} mismatches"
  return (if bad == 0 then 0 else 1)
