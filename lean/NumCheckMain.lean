/-
  Differential-test driver for GoLucene/Model/Num.lean.

  Reads the line protocol produced by `numcheck gen` (see /verif/harness/cmd/numcheck/README.md) on stdin:

      op <TAB> hex(input) [<TAB> extra] <TAB> hex(expected)

  computes every case with the Lean model and prints the mismatches plus a final summary.
  Exit code 1 if there was any mismatch (or a malformed line).

  The same source is delivered as /verif/lean/NumCheckMain.lean (run with `lake env lean --run`) and is the
  `Main` of the compiled `numd` executable of the scratch project.
-/
import GoLucene.Model.Num

open GoLucene

namespace NumCheck

/-- sorted, disjoint, inclusive ranges of printable runes (from real Go's strconv.IsPrint) -/
abbrev PrintTable := Array (Nat × Nat)

def hexNat (s : String) : Option Nat :=
  s.toList.foldl (fun acc c => match acc, hexVal c with
    | some a, some v => some (a * 16 + v)
    | _, _ => none) (some 0)

def parseTable (s : String) : PrintTable :=
  (s.splitOn ",").foldl (fun acc r =>
    match r.splitOn "-" with
    | [lo, hi] => match hexNat lo, hexNat hi with
      | some l, some h => acc.push (l, h)
      | _, _ => acc
    | _ => acc) #[]

/-- binary search with fuel -/
def lookup (t : PrintTable) (r : Nat) : Nat → Nat → Nat → Bool
  | 0, _, _ => false
  | fuel + 1, lo, hi =>
    if lo ≥ hi then false else
    let mid := (lo + hi) / 2
    let (a, z) := t[mid]!
    if r < a then lookup t r fuel lo mid
    else if z < r then lookup t r fuel (mid + 1) hi
    else true

def isPrintOf (t : PrintTable) (r : Nat) : Bool := lookup t r 64 0 t.size

def hex16 (n : Nat) : Bytes :=
  let rec go : Nat → Nat → Bytes → Bytes
    | 0, _, acc => acc
    | k + 1, n, acc => go k (n / 16) (Num.hexdig (n % 16) :: acc)
  go 16 n []

def f64OfHex (s : String) : Option F64 := (hexNat s).map fun n => ⟨UInt64.ofNat n⟩

def i64OfHex (s : String) : Option Int := (hexNat s).map fun n =>
  if n < Num.two63 then (n : Int) else (n : Int) - (Num.two64 : Int)

def boolText (x : Bool) : Bytes := if x then b "true" else b "false"

def floatText (r : Option F64) : Bytes :=
  match r with
  | none => b "err"
  | some f => if f.isNaN then b "nan" else hex16 f.bits.toNat

/-- compute the model's answer (as text) for one case; `none` = malformed line -/
def compute (t : PrintTable) (op : String) (input : String) (extra : Option String) : Option Bytes :=
  match op with
  | "atoi" => (ofHex input).map fun s => match atoi s with
      | none => b "err"
      | some i => fmtInt i
  | "parsefloat" => (ofHex input).map fun s => floatText (parseFloat s)
  | "fmtint" => (i64OfHex input).map fmtInt
  | "fmtg" => (f64OfHex input).map fmtG
  | "fmtfixed1" => (f64OfHex input).map (fmtFixed · 1)
  | "fmtfixed2" => (f64OfHex input).map (fmtFixed · 2)
  | "fmtfixed0" => (f64OfHex input).map (fmtFixed · 0)
  | "fmtfixed7" => (f64OfHex input).map (fmtFixed · 7)
  | "fmtjson" => (f64OfHex input).map fun f => match fmtJSON f with
      | none => b "err"
      | some s => s
  | "ofint" => (i64OfHex input).map fun i => hex16 (F64.ofInt i).bits.toNat
  | "toint" => (f64OfHex input).map fun f => fmtInt f.toInt
  | "quote" => (ofHex input).map (quoteGo (isPrintOf t))
  | "lt" => match f64OfHex input, extra.bind f64OfHex with
      | some a, some c => some (boolText (F64.lt a c))
      | _, _ => none
  | "eq" => match f64OfHex input, extra.bind f64OfHex with
      | some a, some c => some (boolText (F64.eq a c))
      | _, _ => none
  | "isnan" => (f64OfHex input).map fun f => boolText f.isNaN
  | "isinf" => (f64OfHex input).map fun f => boolText f.isInf
  | "isneg" => (f64OfHex input).map fun f => boolText f.isNeg
  -- white-box checks of the Eisel–Lemire model (cases come from a copy of strconv/eisel_lemire.go, not from numcheck)
  | "el" => match hexNat input, extra.bind (fun x => atoi (b x)) with
      | some man, some e => some (match Num.eiselLemire man e with
          | none => b "none"
          | some bits => hex16 bits)
      | _, _ => none
  | "elpow" => ((ofHex input).bind atoi).map fun q =>
      let p := Num.elPow q
      hex16 (p / Num.two64) ++ hex16 (p % Num.two64)
  | _ => none

structure Stats where
  total : Nat := 0
  bad : Nat := 0
  perOp : List (String × Nat) := []

def bump (l : List (String × Nat)) (op : String) : List (String × Nat) :=
  match l with
  | [] => [(op, 1)]
  | (o, n) :: rest => if o == op then (o, n + 1) :: rest else (o, n) :: bump rest op

partial def loop (h : IO.FS.Stream) (t : PrintTable) (st : Stats) : IO Stats := do
  let line ← h.getLine
  if line.isEmpty then return st
  let line := (line.splitOn "\n").headD ""
  if line.isEmpty then loop h t st else
  let fields := line.splitOn "\t"
  match fields with
  | ["isprint", tbl] => loop h (parseTable tbl) st
  | op :: input :: more =>
    let (extra, expected) : Option String × String := match more with
      | [e] => (none, e)
      | [x, e] => (some x, e)
      | _ => (none, "?")
    let st := { st with total := st.total + 1, perOp := bump st.perOp op }
    match compute t op input extra with
    | none =>
      IO.println s!"MALFORMED {line.take 200}"
      loop h t { st with bad := st.bad + 1 }
    | some got =>
      if toHex got == expected then loop h t st
      else
        let shownIn := match ofHex input with
          | some bs => showBytes (bs.take 120)
          | none => input
        let shownExp := match ofHex expected with
          | some bs => showBytes bs
          | none => expected
        IO.println s!"MISMATCH {op} input={input.take 200} ({shownIn}) extra={extra} expected={shownExp} got={showBytes got}"
        loop h t { st with bad := st.bad + 1 }
  | _ =>
    IO.println s!"MALFORMED {line.take 200}"
    loop h t { st with total := st.total + 1, bad := st.bad + 1 }

end NumCheck

def main : IO UInt32 := do
  let stdin ← IO.getStdin
  let st ← NumCheck.loop stdin #[] {}
  for (op, n) in st.perOp do
    IO.println s!"  {op}: {n}"
  IO.println s!"checked {st.total} cases, {st.bad} mismatches"
  return (if st.bad == 0 then 0 else 1)
